import RreModel.C04.Theorems5
/-
C04 — property theorems, part 6: LINE BREAKS INSIDE RULES.  `clean_text` (model `cleanText`: `lines()`, `trim`, drop empty and
`//` lines, `join(" ")`) on a text given as (white space, token) units turns every white-space slot that contains a line break
into ONE blank and leaves everything else — tokens and the other slots — untouched (`cleanText_units`).  The masked text of a
rendered rule is such a unit list (`RuleSrc.mrender_units`), so `clean_text` of a rule in ANY layout is the same rule in the
slot-normalised layout (`cleanText_layout`), which has the same name, attributes, condition tree, leaves and statements; hence
`parseRules_render_full`: whole files with line breaks anywhere white space may stand.
-/
namespace C04

/-! ### `clean_text` on (white space, token) units -/

def flatU (us : List (Str × Str)) : Str := us.flatMap fun u => u.1 ++ u.2

def mapU (σ : Str → Str) (u : Str × Str) : Str × Str := (σ u.1, u.2)
abbrev normU : Str × Str → Str × Str := mapU norm

/-- a token: trimmed, on one line, not starting like a `//` line -/
structure Tok (t : Str) : Prop where
  edges : Edges t
  noNL : ∀ c ∈ t, c ≠ '\n'
  noSlash : t.head? ≠ some '/'

def keepLine (l : Str) : Bool := !l.isEmpty && !startsWith l ['/', '/']
def CL (ls : List Str) : List Str := (ls.map trim).filter keepLine

theorem cleanText_eq (s : Str) : cleanText s = ((CL (splitLines s [])).intersperse [' ']).flatten := rfl

theorem CL_cons (l : Str) (ls : List Str) : CL (l :: ls) = (if keepLine (trim l) then [trim l] else []) ++ CL ls := by
  unfold CL; simp only [List.map_cons, List.filter_cons]; split <;> rfl

theorem splitLines_noNL (s R cur : Str) (h : ∀ c ∈ s, c ≠ '\n') : splitLines (s ++ R) cur = splitLines R (cur ++ s) := by
  induction s generalizing cur with
  | nil => simp
  | cons c cs ih =>
    have hc : (c == '\n') = false := by simpa using h c (by simp)
    simp only [List.cons_append, splitLines, hc, Bool.false_eq_true, if_false]
    rw [ih _ (fun d hd => h d (by simp [hd]))]; simp

theorem keepLine_ws : keepLine [] = false := rfl

theorem keepLine_tok (e : Str) (he : Edges e) (hs : e.head? ≠ some '/') : keepLine e = true := by
  have hne : e.isEmpty = false := edges_nonempty he
  have hsl : startsWith e ['/', '/'] = false := by
    cases e with
    | nil => rfl
    | cons c cs =>
      have : ('/' == c) = false := by
        simp only [List.head?_cons, ne_eq, Option.some.injEq] at hs
        simpa using fun e => hs e.symm
      simp [startsWith, List.isPrefixOf, this]
  simp [keepLine, hne, hsl]

/-- white space after a line break, up to the next token: the lines it makes are dropped -/
theorem CL_ws_lines (w : Str) (hw : Ws w) (v R : Str) (hv : Ws v) (hvn : ∀ c ∈ v, c ≠ '\n') :
    ∃ b, Ws b ∧ (∀ c ∈ b, c ≠ '\n') ∧ CL (splitLines (w ++ R) v) = CL (splitLines R b) := by
  induction w generalizing v with
  | nil => exact ⟨v, hv, hvn, rfl⟩
  | cons c cs ih =>
    have hcs : Ws cs := fun d hd => hw d (by simp [hd])
    by_cases hc : c = '\n'
    · subst hc
      obtain ⟨b, hb1, hb2, hb3⟩ := ih hcs [] Ws.nil (by simp)
      refine ⟨b, hb1, hb2, ?_⟩
      have hfirst : Ws (if v.getLast? == some '\r' then v.dropLast else v) := by
        split
        · intro d hd; exact hv d (List.dropLast_subset _ hd)
        · exact hv
      simp only [List.cons_append, splitLines, beq_self_eq_true, if_true]
      rw [CL_cons, trim_ws _ hfirst, keepLine_ws]
      simpa using hb3
    · have hc' : (c == '\n') = false := by simpa using hc
      simp only [List.cons_append, splitLines, hc', Bool.false_eq_true, if_false]
      exact ih hcs (v ++ [c]) (by
          intro d hd; simp only [List.mem_append, List.mem_cons, List.mem_nil_iff, or_false] at hd
          rcases hd with hd | rfl
          · exact hv d hd
          · exact hw d (by simp))
        (by
          intro d hd; simp only [List.mem_append, List.mem_cons, List.mem_nil_iff, or_false] at hd
          rcases hd with hd | rfl
          · exact hvn d hd
          · exact hc)

/-- a slot with a line break after the line `p ++ e ++ v`: that line is kept as `e`, the rest of the slot makes no line -/
theorem CL_break (w : Str) (hw : Ws w) (hnl : '\n' ∈ w) (p e v R : Str) (hp : Ws p) (he : Edges e) (hs : e.head? ≠ some '/')
    (hv : Ws v) :
    ∃ b, Ws b ∧ (∀ c ∈ b, c ≠ '\n') ∧ CL (splitLines (w ++ R) (p ++ e ++ v)) = e :: CL (splitLines R b) := by
  induction w generalizing v with
  | nil => simp at hnl
  | cons c cs ih =>
    have hcs : Ws cs := fun d hd => hw d (by simp [hd])
    by_cases hc : c = '\n'
    · subst hc
      obtain ⟨b, hb1, hb2, hb3⟩ := CL_ws_lines cs hcs [] R Ws.nil (by simp)
      refine ⟨b, hb1, hb2, ?_⟩
      have hline : ∃ v', Ws v' ∧ (if (p ++ e ++ v).getLast? == some '\r' then (p ++ e ++ v).dropLast else p ++ e ++ v) = p ++ e ++ v' := by
        split
        · rename_i hl
          by_cases hvn : v = []
          · subst hvn
            obtain ⟨_, ⟨l, hl1, hl2⟩⟩ := he
            have : (p ++ e ++ []).getLast? = some l := by
              rw [List.append_nil]; exact getLast_append_some _ _ _ hl1
            rw [this] at hl
            simp only [beq_iff_eq, Option.some.injEq] at hl
            subst hl; exact absurd hl2 (by decide)
          · exact ⟨v.dropLast, fun d hd => hv d (List.dropLast_subset _ hd), List.dropLast_append_of_ne_nil hvn⟩
        · exact ⟨v, hv, rfl⟩
      obtain ⟨v', hv', hl⟩ := hline
      simp only [List.cons_append, splitLines, beq_self_eq_true, if_true]
      rw [hl, CL_cons, trim_pad p e v' hp hv' he, keepLine_tok e he hs, hb3]
      rfl
    · have hc' : (c == '\n') = false := by simpa using hc
      have hnl' : '\n' ∈ cs := by
        simp only [List.mem_cons] at hnl
        rcases hnl with h | h
        · exact absurd h.symm hc
        · exact h
      simp only [List.cons_append, splitLines, hc', Bool.false_eq_true, if_false]
      have := ih hcs hnl' (v ++ [c]) (by
          intro d hd; simp only [List.mem_append, List.mem_cons, List.mem_nil_iff, or_false] at hd
          rcases hd with hd | rfl
          · exact hv d hd
          · exact hw d (by simp))
      simpa [List.append_assoc] using this

/-- the lines `clean_text` keeps: a new one starts at every slot with a line break -/
def chunks : Str → List (Str × Str) → List Str
  | e, [] => [e]
  | e, (w, t) :: us => if w.contains '\n' then e :: chunks t us else chunks (e ++ w ++ t) us

theorem chunks_ne (e : Str) (us : List (Str × Str)) : ∃ x xs, chunks e us = x :: xs := by
  induction us generalizing e with
  | nil => exact ⟨e, [], rfl⟩
  | cons u us ih =>
    obtain ⟨w, t⟩ := u
    simp only [chunks]
    split
    · exact ⟨_, _, rfl⟩
    · exact ih _

theorem CL_units (us : List (Str × Str)) (hu : ∀ u ∈ us, Ws u.1 ∧ Tok u.2) (p e : Str) (hp : Ws p) (he : Edges e)
    (hs : e.head? ≠ some '/') : CL (splitLines (flatU us) (p ++ e)) = chunks e us := by
  induction us generalizing p e with
  | nil =>
    have hne : (p ++ e).isEmpty = false := by
      have := edges_nonempty he
      cases e with
      | nil => simp at this
      | cons _ _ => simp
    simp only [flatU, List.flatMap_nil, splitLines, hne, Bool.false_eq_true, if_false, chunks]
    rw [CL_cons]
    have := trim_pad p e [] hp Ws.nil he
    simp only [List.append_nil] at this
    rw [this, keepLine_tok e he hs]; rfl
  | cons u us ih =>
    obtain ⟨w, t⟩ := u
    obtain ⟨hw, ht⟩ := hu (w, t) (by simp)
    have hu' : ∀ u ∈ us, Ws u.1 ∧ Tok u.2 := fun u h => hu u (by simp [h])
    have hf : flatU ((w, t) :: us) = w ++ (t ++ flatU us) := by simp [flatU]
    rw [hf]
    simp only [chunks]
    by_cases hnl : w.contains '\n' = true
    · simp only [hnl, if_true]
      obtain ⟨b, hb1, hb2, hb3⟩ := CL_break w hw (by simpa using hnl) p e [] (t ++ flatU us) hp he hs Ws.nil
      simp only [List.append_nil] at hb3
      rw [hb3, splitLines_noNL t _ b ht.noNL, ih hu' b t hb1 ht.edges ht.noSlash]
    · have hnl' : ∀ c ∈ w, c ≠ '\n' := by
        intro c hc e'; subst e'; exact hnl (by simpa using hc)
      simp only [hnl, Bool.false_eq_true, if_false]
      rw [splitLines_noNL w _ _ hnl', splitLines_noNL t _ _ ht.noNL]
      have e1 : p ++ e ++ w ++ t = p ++ (e ++ w ++ t) := by simp
      rw [e1]
      apply ih hu' p (e ++ w ++ t) hp
      · obtain ⟨⟨c, hc1, hc2⟩, _⟩ := he
        obtain ⟨_, ⟨l, hl1, hl2⟩⟩ := ht.edges
        exact ⟨⟨c, by rw [List.append_assoc]; exact head_append_some _ _ _ hc1, hc2⟩, ⟨l, getLast_append_some _ _ _ hl1, hl2⟩⟩
      · intro h
        apply hs
        cases e with
        | nil => exact absurd (edges_nonempty he) (by simp)
        | cons c cs => simpa using h

theorem chunks_join (us : List (Str × Str)) (e : Str) :
    ((chunks e us).intersperse [' ']).flatten = e ++ flatU (us.map normU) := by
  induction us generalizing e with
  | nil => simp [chunks, flatU]
  | cons u us ih =>
    obtain ⟨w, t⟩ := u
    simp only [chunks]
    by_cases hnl : w.contains '\n' = true
    · simp only [hnl, if_true]
      obtain ⟨x, xs, hx⟩ := chunks_ne t us
      have := ih t
      rw [hx] at this ⊢
      rw [List.intersperse_cons_cons, List.flatten_cons, List.flatten_cons, this]
      have hn : norm w = [' '] := by unfold norm; rw [if_pos hnl]
      simp [flatU, mapU, hn]
    · simp only [hnl, Bool.false_eq_true, if_false]
      rw [ih]
      have : norm w = w := by unfold norm; rw [if_neg hnl]
      simp [flatU, mapU, this]

/-- **`clean_text` on units.** On a text that starts with a token and continues with (white space, token) units — tokens
trimmed, on one line, not starting with `/` — `clean_text` replaces every white-space slot that contains a line break by ONE
blank and changes nothing else. -/
theorem cleanText_units (t0 : Str) (us : List (Str × Str)) (h0 : Tok t0) (hu : ∀ u ∈ us, Ws u.1 ∧ Tok u.2) :
    cleanText (t0 ++ flatU us) = t0 ++ flatU (us.map normU) := by
  rw [cleanText_eq, splitLines_noNL t0 _ [] h0.noNL]
  have := CL_units us hu [] t0 Ws.nil h0.edges h0.noSlash
  simp only [List.nil_append] at this ⊢
  rw [this, chunks_join]


/-! ### the layout of a condition, of the attributes, of the statements and of a rule as units -/

theorem flatU_nil : flatU [] = [] := rfl
theorem flatU_cons (w t : Str) (us : List (Str × Str)) : flatU ((w, t) :: us) = w ++ t ++ flatU us := by simp [flatU]
theorem flatU_append (a b : List (Str × Str)) : flatU (a ++ b) = flatU a ++ flatU b := by simp [flatU]

def tokB (t : Str) : Bool :=
  match t.head?, t.getLast? with
  | some a, some b => !isWs a && !isWs b && a != '/' && t.all (· != '\n')
  | _, _ => false

theorem tok_dec (t : Str) (h : tokB t = true) : Tok t := by
  unfold tokB at h
  cases hh : t.head? with
  | none => rw [hh] at h; simp at h
  | some a =>
    cases hl : t.getLast? with
    | none => rw [hh, hl] at h; simp at h
    | some b =>
      rw [hh, hl] at h
      simp only [Bool.and_eq_true, Bool.not_eq_true', bne_iff_ne, ne_eq, List.all_eq_true] at h
      exact ⟨⟨⟨a, hh, h.1.1.1⟩, ⟨b, hl, h.1.1.2⟩⟩, fun c hc => h.2 c hc, by rw [hh]; simpa using h.1.2⟩

def LT.units : LT → Str → List (Str × Str)
  | .leaf s, w => [(w, s)]
  | .paren wl wr t, w => (w, ['(']) :: t.units wl ++ [(wr, [')'])]
  | .not w' t, w => (w, ['!']) :: t.units w'
  | .ex wl wr t, w => (w, sExists) :: t.units wl ++ [(wr, [')'])]
  | .fa wl wr t, w => (w, sForall) :: t.units wl ++ [(wr, [')'])]
  | .or l wl wr r, w => l.units w ++ (wl, ['|', '|']) :: r.units wr
  | .and l wl wr r, w => l.units w ++ (wl, ['&', '&']) :: r.units wr

theorem LT.flat_units (t : LT) (w : Str) : flatU (t.units w) = w ++ t.render := by
  induction t generalizing w with
  | leaf s => simp [LT.units, flatU_cons, flatU_nil, LT.render]
  | paren wl wr t ih => simp [LT.units, flatU_cons, flatU_append, flatU_nil, ih, LT.render]
  | not w' t ih => simp [LT.units, flatU_cons, ih, LT.render]
  | ex wl wr t ih => simp [LT.units, flatU_cons, flatU_append, flatU_nil, ih, LT.render]
  | fa wl wr t ih => simp [LT.units, flatU_cons, flatU_append, flatU_nil, ih, LT.render]
  | or l wl wr r ihl ihr => simp [LT.units, flatU_cons, flatU_append, ihl, ihr, LT.render]
  | and l wl wr r ihl ihr => simp [LT.units, flatU_cons, flatU_append, ihl, ihr, LT.render]

theorem LT.units_mapW (σ : Str → Str) (t : LT) (w : Str) : (t.mapW σ).units (σ w) = (t.units w).map (mapU σ) := by
  induction t generalizing w with
  | leaf s => rfl
  | paren wl wr t ih => simp [LT.units, LT.mapW, ih, mapU]
  | not w' t ih => simp [LT.units, LT.mapW, ih, mapU]
  | ex wl wr t ih => simp [LT.units, LT.mapW, ih, mapU]
  | fa wl wr t ih => simp [LT.units, LT.mapW, ih, mapU]
  | or l wl wr r ihl ihr => simp [LT.units, LT.mapW, ihl, ihr, mapU]
  | and l wl wr r ihl ihr => simp [LT.units, LT.mapW, ihl, ihr, mapU]

theorem LT.mapW_sem (σ : Str → Str) (t : LT) : (t.mapW σ).sem = t.sem := by
  induction t <;> simp_all [LT.mapW, LT.sem]
theorem LT.mapW_leaves (σ : Str → Str) (t : LT) : (t.mapW σ).leaves = t.leaves := by
  induction t <;> simp_all [LT.mapW, LT.leaves]
theorem LT.mapW_atomLevel (σ : Str → Str) (t : LT) : (t.mapW σ).atomLevel = t.atomLevel := by cases t <;> rfl
theorem LT.mapW_conjLevel (σ : Str → Str) (t : LT) : (t.mapW σ).conjLevel = t.conjLevel := by cases t <;> rfl

theorem LT.mapW_WFo (σ : Str → Str) (hσ : ∀ w, Ws w → Ws (σ w)) (t : LT) (h : t.WFo) : (t.mapW σ).WFo := by
  induction t with
  | leaf s => exact h
  | paren wl wr t ih => exact ⟨hσ _ h.1, hσ _ h.2.1, ih h.2.2⟩
  | not w t ih => exact ⟨hσ _ h.1, by rw [LT.mapW_atomLevel]; exact h.2.1, ih h.2.2⟩
  | ex wl wr t ih => exact ⟨hσ _ h.1, hσ _ h.2.1, ih h.2.2⟩
  | fa wl wr t ih => exact ⟨hσ _ h.1, hσ _ h.2.1, ih h.2.2⟩
  | or l wl wr r ihl ihr =>
    exact ⟨hσ _ h.1, hσ _ h.2.1, ihl h.2.2.1, ihr h.2.2.2.1, by rw [LT.mapW_conjLevel]; exact h.2.2.2.2⟩
  | and l wl wr r ihl ihr =>
    exact ⟨hσ _ h.1, hσ _ h.2.1, ihl h.2.2.1, ihr h.2.2.2.1, by rw [LT.mapW_conjLevel]; exact h.2.2.2.2.1,
      by rw [LT.mapW_atomLevel]; exact h.2.2.2.2.2⟩

/-- the literal table of a laid-out condition is that of its leaves, in order: the layout does not matter -/
theorem LT.lits_render (t : LT) (h : t.WFo) : lits t.render = t.leaves.flatMap lits := by
  obtain ⟨qo, qc, qb, qor, qand⟩ := quoteFree_tokens
  induction t with
  | leaf s => simp [LT.render, LT.leaves]
  | paren wl wr t ih =>
    obtain ⟨h1, h2, h3⟩ := h
    have p := (((Piece.code qo).append (Piece.code h1.quoteFree)).append (LT.render_masked t h3)).append
      ((Piece.code h2.quoteFree).append (Piece.code qc))
    have e : (LT.paren wl wr t).render = ['('] ++ wl ++ t.render ++ (wr ++ [')']) := by simp [LT.render]
    rw [e, p.2.2]; simp [ih h3, LT.leaves]
  | not w t ih =>
    obtain ⟨h1, _, h3⟩ := h
    have p := ((Piece.code qb).append (Piece.code h1.quoteFree)).append (LT.render_masked t h3)
    have e : (LT.not w t).render = ['!'] ++ w ++ t.render := by simp [LT.render]
    rw [e, p.2.2]; simp [ih h3, LT.leaves]
  | ex wl wr t ih =>
    obtain ⟨h1, h2, h3⟩ := h
    have p := (((Piece.code quoteFree_words.1).append (Piece.code h1.quoteFree)).append (LT.render_masked t h3)).append
      ((Piece.code h2.quoteFree).append (Piece.code qc))
    have e : (LT.ex wl wr t).render = sExists ++ wl ++ t.render ++ (wr ++ [')']) := by simp [LT.render]
    rw [e, p.2.2]; simp [ih h3, LT.leaves]
  | fa wl wr t ih =>
    obtain ⟨h1, h2, h3⟩ := h
    have p := (((Piece.code quoteFree_words.2.1).append (Piece.code h1.quoteFree)).append (LT.render_masked t h3)).append
      ((Piece.code h2.quoteFree).append (Piece.code qc))
    have e : (LT.fa wl wr t).render = sForall ++ wl ++ t.render ++ (wr ++ [')']) := by simp [LT.render]
    rw [e, p.2.2]; simp [ih h3, LT.leaves]
  | or l wl wr r ihl ihr =>
    obtain ⟨h1, h2, h3, h4, _⟩ := h
    have p := ((LT.render_masked l h3).append (((Piece.code h1.quoteFree).append (Piece.code qor)).append (Piece.code h2.quoteFree))).append
      (LT.render_masked r h4)
    have e : (LT.or l wl wr r).render = l.render ++ (wl ++ ['|', '|'] ++ wr) ++ r.render := by simp [LT.render]
    rw [e, p.2.2]; simp [ihl h3, ihr h4, LT.leaves]
  | and l wl wr r ihl ihr =>
    obtain ⟨h1, h2, h3, h4, _⟩ := h
    have p := ((LT.render_masked l h3).append (((Piece.code h1.quoteFree).append (Piece.code qand)).append (Piece.code h2.quoteFree))).append
      (LT.render_masked r h4)
    have e : (LT.and l wl wr r).render = l.render ++ (wl ++ ['&', '&'] ++ wr) ++ r.render := by simp [LT.render]
    rw [e, p.2.2]; simp [ihl h3, ihr h4, LT.leaves]

theorem LT.mapW_lits (σ : Str → Str) (hσ : ∀ w, Ws w → Ws (σ w)) (t : LT) (h : t.WFo) :
    lits (t.mapW σ).render = lits t.render := by
  rw [LT.lits_render _ (LT.mapW_WFo σ hσ t h), LT.lits_render t h, LT.mapW_leaves]

theorem LT.mapW_cnt (σ : Str → Str) (hσ : ∀ w, Ws w → Ws (σ w)) (t : LT) (h : t.WFo) : (t.mapW σ).cnt = t.cnt := by
  unfold LT.cnt; rw [LT.mapW_lits σ hσ t h]

theorem LT.mapW_maskAt (σ : Str → Str) (hσ : ∀ w, Ws w → Ws (σ w)) (t : LT) (h : t.WFo) (n : Nat) :
    (t.mapW σ).maskAt n = (t.maskAt n).mapW σ := by
  induction t generalizing n with
  | leaf s => rfl
  | paren wl wr t ih => simp [LT.mapW, LT.maskAt, ih h.2.2]
  | not w t ih => simp [LT.mapW, LT.maskAt, ih h.2.2]
  | ex wl wr t ih => simp [LT.mapW, LT.maskAt, ih h.2.2]
  | fa wl wr t ih => simp [LT.mapW, LT.maskAt, ih h.2.2]
  | or l wl wr r ihl ihr => simp [LT.mapW, LT.maskAt, ihl h.2.2.1, ihr h.2.2.2.1, LT.mapW_cnt σ hσ l h.2.2.1]
  | and l wl wr r ihl ihr => simp [LT.mapW, LT.maskAt, ihl h.2.2.1, ihr h.2.2.2.1, LT.mapW_cnt σ hσ l h.2.2.1]

theorem tok_fixed : Tok ['('] ∧ Tok [')'] ∧ Tok ['!'] ∧ Tok sExists ∧ Tok sForall ∧ Tok ['|', '|'] ∧ Tok ['&', '&']
    ∧ Tok sRule ∧ Tok sOpen ∧ Tok sWhen ∧ Tok sThen ∧ Tok sClose ∧ Tok [';'] := by
  refine ⟨?_, ?_, ?_, ?_, ?_, ?_, ?_, ?_, ?_, ?_, ?_, ?_, ?_⟩ <;> exact tok_dec _ (by decide +kernel)

/-- the units of a (masked) condition: white space in the slots, tokens in between -/
theorem LT.units_ok (t : LT) (h : t.WF) (hl : ∀ s ∈ t.leaves, (∀ c ∈ s, c ≠ '\n') ∧ s.head? ≠ some '/') (w : Str) (hw : Ws w) :
    ∀ u ∈ t.units w, Ws u.1 ∧ Tok u.2 := by
  obtain ⟨t1, t2, t3, t4, t5, t6, t7, _⟩ := tok_fixed
  induction t generalizing w with
  | leaf s =>
    intro u hu; simp only [LT.units, List.mem_cons, List.mem_nil_iff, or_false] at hu; subst hu
    have := hl s (by simp [LT.leaves])
    exact ⟨hw, ⟨h.edges, this.1, this.2⟩⟩
  | paren wl wr t ih =>
    intro u hu; simp only [LT.units, List.mem_cons, List.mem_append, List.mem_nil_iff, or_false] at hu
    rcases hu with (rfl | hu) | rfl
    · exact ⟨hw, t1⟩
    · exact ih h.2.2 (fun s hs => hl s (by simpa [LT.leaves] using hs)) wl h.1 u hu
    · exact ⟨h.2.1, t2⟩
  | not w' t ih =>
    intro u hu; simp only [LT.units, List.mem_cons] at hu
    rcases hu with rfl | hu
    · exact ⟨hw, t3⟩
    · exact ih h.2.2 (fun s hs => hl s (by simpa [LT.leaves] using hs)) w' h.1 u hu
  | ex wl wr t ih =>
    intro u hu; simp only [LT.units, List.mem_cons, List.mem_append, List.mem_nil_iff, or_false] at hu
    rcases hu with (rfl | hu) | rfl
    · exact ⟨hw, t4⟩
    · exact ih h.2.2 (fun s hs => hl s (by simpa [LT.leaves] using hs)) wl h.1 u hu
    · exact ⟨h.2.1, t2⟩
  | fa wl wr t ih =>
    intro u hu; simp only [LT.units, List.mem_cons, List.mem_append, List.mem_nil_iff, or_false] at hu
    rcases hu with (rfl | hu) | rfl
    · exact ⟨hw, t5⟩
    · exact ih h.2.2 (fun s hs => hl s (by simpa [LT.leaves] using hs)) wl h.1 u hu
    · exact ⟨h.2.1, t2⟩
  | or l wl wr r ihl ihr =>
    intro u hu; simp only [LT.units, List.mem_cons, List.mem_append] at hu
    rcases hu with hu | rfl | hu
    · exact ihl h.2.2.1 (fun s hs => hl s (by simp [LT.leaves, hs])) w hw u hu
    · exact ⟨h.1, t6⟩
    · exact ihr h.2.2.2.1 (fun s hs => hl s (by simp [LT.leaves, hs])) wr h.2.1 u hu
  | and l wl wr r ihl ihr =>
    intro u hu; simp only [LT.units, List.mem_cons, List.mem_append] at hu
    rcases hu with hu | rfl | hu
    · exact ihl h.2.2.1 (fun s hs => hl s (by simp [LT.leaves, hs])) w hw u hu
    · exact ⟨h.1, t7⟩
    · exact ihr h.2.2.2.1 (fun s hs => hl s (by simp [LT.leaves, hs])) wr h.2.1 u hu

/-! #### attributes -/

def HAttr.mtok (n : Nat) (a : HAttr) : Str := if a.kind.quoted then '"' :: maskBodyAt n a.val ++ ['"'] else intShow a.sal

/-- the units of the attribute section after the pending slot `p`, and the slot left pending before `{` -/
def mattrUnits : Nat → List HAttr → Str → List (Str × Str) × Str
  | _, [], p => ([], p)
  | n, a :: as, p =>
    ((p, a.kind.kw) :: (if a.kind.flag then [] else [(a.w1, a.mtok n)]) ++ (mattrUnits (n + a.lits.length) as a.w2).1,
     (mattrUnits (n + a.lits.length) as a.w2).2)

theorem mattrUnits_flat (n : Nat) (as : List HAttr) (p : Str) :
    flatU (mattrUnits n as p).1 ++ (mattrUnits n as p).2 = p ++ mattrs n as := by
  induction as generalizing n p with
  | nil => simp [mattrUnits, mattrs, flatU_nil]
  | cons a as ih =>
    have := ih (n + a.lits.length) a.w2
    simp only [mattrUnits, mattrs, flatU_cons, flatU_append, List.append_assoc]
    rw [this]
    unfold HAttr.mtail HAttr.mtok
    cases hf : a.kind.flag <;> cases hq : a.kind.quoted <;> simp [flatU_cons, flatU_nil]


theorem mattrUnits_mapW (σ : Str → Str) (n : Nat) (as : List HAttr) (p : Str) :
    mattrUnits n (as.map (HAttr.mapW σ)) (σ p) = ((mattrUnits n as p).1.map (mapU σ), σ (mattrUnits n as p).2) := by
  induction as generalizing n p with
  | nil => rfl
  | cons a as ih =>
    have := ih (n + a.lits.length) a.w2
    simp only [List.map_cons, mattrUnits]
    have e1 : (HAttr.mapW σ a).kind = a.kind := rfl
    have e2 : (HAttr.mapW σ a).lits = a.lits := rfl
    have e3 : (HAttr.mapW σ a).mtok n = a.mtok n := rfl
    have e4 : (HAttr.mapW σ a).w2 = σ a.w2 := rfl
    have e5 : (HAttr.mapW σ a).w1 = σ a.w1 := rfl
    rw [e1, e2, e3, e4, e5, this]
    cases hf : a.kind.flag <;> simp [mapU]

theorem AKind.kw_tok (k : AKind) : Tok k.kw := by cases k <;> exact tok_dec _ (by decide +kernel)

theorem inert_noNL {c : Char} (h : InertChar c) : c ≠ '\n' := by
  intro e; subst e; exact absurd h.ne.2.2.2.2.2.2.2 (by decide)

theorem intShow_chars (i : Int) : ∀ c ∈ intShow i, isDigit c = true ∨ c = '-' := by
  intro c hc; rw [intShow_cases] at hc; split at hc
  · exact Or.inl (toDigits_isDigit _ c hc)
  · simp only [List.mem_cons] at hc
    rcases hc with rfl | hc
    · exact Or.inr rfl
    · exact Or.inl (toDigits_isDigit _ c hc)

theorem HAttr.mtok_tok (n : Nat) (a : HAttr) (h : a.Ok) (hf : a.kind.flag = false) : Tok (a.mtok n) := by
  unfold HAttr.mtok
  split
  · refine ⟨⟨⟨'"', rfl, by decide⟩, ⟨'"', ?_, by decide⟩⟩, ?_, by simp⟩
    · rw [show '"' :: maskBodyAt n a.val ++ ['"'] = ('"' :: maskBodyAt n a.val) ++ ['"'] by simp]
      exact getLast_append_some _ _ _ rfl
    · intro c hc
      simp only [List.cons_append, List.mem_cons, List.mem_append, List.mem_nil_iff, or_false] at hc
      rcases hc with rfl | hc | rfl
      · decide
      · exact inert_noNL (maskBodyAt_mem hc)
      · decide
  · obtain ⟨⟨ih, hih, hihd⟩, ⟨il, hil, hild⟩⟩ := intShow_edges a.sal
    have hihw : isWs ih = false := by rcases hihd with h | h; exact isDigit_notWs h; subst h; decide
    refine ⟨⟨⟨ih, hih, hihw⟩, ⟨il, hil, isDigit_notWs hild⟩⟩, ?_, ?_⟩
    · intro c hc e; subst e
      rcases intShow_chars a.sal _ hc with h | h
      · exact absurd (isDigit_notWs h) (by decide)
      · exact absurd h (by decide)
    · rw [hih]
      rcases hihd with h | h
      · intro e; simp only [Option.some.injEq] at e; subst e; revert h; decide
      · subst h; decide

theorem mattrUnits_ok (n : Nat) (as : List HAttr) (has : ∀ a ∈ as, a.Ok) (p : Str) (hp : Ws p) :
    (∀ u ∈ (mattrUnits n as p).1, Ws u.1 ∧ Tok u.2) ∧ Ws (mattrUnits n as p).2 := by
  induction as generalizing n p with
  | nil => exact ⟨by intro u hu; simp [mattrUnits] at hu, hp⟩
  | cons a as ih =>
    have ha := has a (by simp)
    obtain ⟨i1, i2⟩ := ih (n + a.lits.length) (fun b hb => has b (by simp [hb])) a.w2 ha.w2.1
    refine ⟨?_, i2⟩
    intro u hu
    simp only [mattrUnits, List.cons_append, List.mem_cons, List.mem_append] at hu
    rcases hu with rfl | hu | hu
    · exact ⟨hp, a.kind.kw_tok⟩
    · cases hf : a.kind.flag with
      | true => simp [hf] at hu
      | false =>
        simp only [hf, Bool.false_eq_true, if_false, List.mem_cons, List.mem_nil_iff, or_false] at hu
        subst hu
        exact ⟨ha.w1.1, a.mtok_tok n ha hf⟩
    · exact i1 u hu

/-! #### statements and the whole rule -/

def stmtUnits : List (Str × Str × Str) → List (Str × Str)
  | [] => []
  | (a, s, b) :: xs => (a, s) :: (b, [';']) :: stmtUnits xs

theorem stmtUnits_flat (xs : List (Str × Str × Str)) (w : Str) : flatU (stmtUnits xs) ++ w = renderStmts xs w := by
  induction xs with
  | nil => rfl
  | cons x xs ih => obtain ⟨a, s, b⟩ := x; simp [stmtUnits, flatU_cons, renderStmts, ← ih]


theorem stmtUnits_mapW (σ : Str → Str) (xs : List (Str × Str × Str)) :
    stmtUnits (xs.map (mapStmtW σ)) = (stmtUnits xs).map (mapU σ) := by
  induction xs with
  | nil => rfl
  | cons x xs ih => obtain ⟨a, s, b⟩ := x; simp [stmtUnits, mapStmtW, mapU, ih]

theorem maskStmtsAt_mapW (σ : Str → Str) (n : Nat) (xs : List (Str × Str × Str)) :
    maskStmtsAt n (xs.map (mapStmtW σ)) = (maskStmtsAt n xs).map (mapStmtW σ) := by
  induction xs generalizing n with
  | nil => rfl
  | cons x xs ih => obtain ⟨a, s, b⟩ := x; simp [maskStmtsAt, mapStmtW, ih]

/-- the statement list after the slot `w5` (the slot after `then` and the slot before the first statement are ONE slot) -/
def stmtUnits1 (w5 : Str) : List (Str × Str × Str) → List (Str × Str)
  | [] => []
  | (a, s, b) :: xs => (w5 ++ a, s) :: (b, [';']) :: stmtUnits xs

theorem stmtUnits1_flat (w5 : Str) (xs : List (Str × Str × Str)) (hne : xs ≠ []) (w : Str) :
    flatU (stmtUnits1 w5 xs) ++ w = w5 ++ renderStmts xs w := by
  cases xs with
  | nil => exact absurd rfl hne
  | cons x xs => obtain ⟨a, s, b⟩ := x; simp [stmtUnits1, flatU_cons, renderStmts, ← stmtUnits_flat xs w]

/-- the masked rule text after the keyword `rule`, as units -/
def RuleSrc.munits (n : Nat) (r : RuleSrc) : List (Str × Str) :=
  (r.w0, r.mnameText n) :: (mattrUnits (r.nA n) r.attrs r.w1).1 ++ ((mattrUnits (r.nA n) r.attrs r.w1).2, sOpen) :: (r.w2, sWhen)
    :: (r.cond.maskAt (r.nC n)).units r.w3 ++ (r.w4, sThen) :: stmtUnits1 r.w5 (maskStmtsAt (r.nS n) r.stmts) ++ [(r.w6, sClose)]

theorem maskStmtsAt_ne (n : Nat) (xs : List (Str × Str × Str)) (h : xs ≠ []) : maskStmtsAt n xs ≠ [] := by
  cases xs with
  | nil => exact absurd rfl h
  | cons x xs => obtain ⟨a, s, b⟩ := x; simp [maskStmtsAt]

theorem RuleSrc.mrender_units (n : Nat) (r : RuleSrc) (hne : r.stmts ≠ []) : r.mrender n = sRule ++ flatU (r.munits n) := by
  have h1 := mattrUnits_flat (r.nA n) r.attrs r.w1
  have h2 := stmtUnits1_flat r.w5 (maskStmtsAt (r.nS n) r.stmts) (maskStmtsAt_ne _ _ hne) (r.w6 ++ sClose)
  simp only [RuleSrc.munits, flatU_cons, flatU_append, flatU_nil, LT.flat_units, List.append_assoc, List.append_nil]
  rw [h2]
  have e : flatU (mattrUnits (r.nA n) r.attrs r.w1).1 ++ ((mattrUnits (r.nA n) r.attrs r.w1).2 ++ (sOpen ++ (r.w2 ++ (sWhen ++ (r.w3 ++
      ((r.cond.maskAt (r.nC n)).render ++ (r.w4 ++ (sThen ++ (r.w5 ++ renderStmts (maskStmtsAt (r.nS n) r.stmts) (r.w6 ++ sClose))))))))))
      = (flatU (mattrUnits (r.nA n) r.attrs r.w1).1 ++ (mattrUnits (r.nA n) r.attrs r.w1).2) ++ (sOpen ++ (r.w2 ++ (sWhen ++ (r.w3 ++
      ((r.cond.maskAt (r.nC n)).render ++ (r.w4 ++ (sThen ++ (r.w5 ++ renderStmts (maskStmtsAt (r.nS n) r.stmts) (r.w6 ++ sClose))))))))) := by
    simp
  rw [e, h1]
  simp [RuleSrc.mrender, renderStmts_ws _ (r.w6 ++ sClose), renderStmts_ws _ r.w6, List.append_assoc]

structure SlotMap (σ : Str → Str) : Prop where
  ws : ∀ w, Ws w → Ws (σ w)
  ne : ∀ w, w ≠ [] → σ w ≠ []
  nil : σ [] = []

theorem norm_slotMap : SlotMap norm := by
  refine ⟨?_, ?_, rfl⟩
  · intro w hw; unfold norm; split
    · intro c hc; simp at hc; subst hc; rfl
    · exact hw
  · intro w hw; unfold norm; split
    · simp
    · exact hw

theorem litsAttrs_mapW (σ : Str → Str) (as : List HAttr) : litsAttrs (as.map (HAttr.mapW σ)) = litsAttrs as := by
  induction as with
  | nil => rfl
  | cons a as ih =>
    simp only [litsAttrs, List.map_cons, List.flatMap_cons] at ih ⊢
    rw [ih]; rfl

theorem stmtLits_mapW (σ : Str → Str) (xs : List (Str × Str × Str)) :
    ((xs.map (mapStmtW σ)).flatMap fun x => lits x.2.1) = xs.flatMap fun x => lits x.2.1 := by
  induction xs with
  | nil => rfl
  | cons x xs ih => simp only [List.map_cons, List.flatMap_cons, ih]; rfl

theorem RuleSrc.mapW_nA (σ : Str → Str) (r : RuleSrc) (n : Nat) : (r.mapW σ).nA n = r.nA n := rfl
theorem RuleSrc.mapW_nC (σ : Str → Str) (r : RuleSrc) (n : Nat) : (r.mapW σ).nC n = r.nC n := by
  show r.nA n + (litsAttrs (r.attrs.map (HAttr.mapW σ))).length = _
  rw [litsAttrs_mapW]; rfl
theorem RuleSrc.mapW_nS (σ : Str → Str) (hσ : SlotMap σ) (r : RuleSrc) (h : r.cond.WFo) (n : Nat) : (r.mapW σ).nS n = r.nS n := by
  show (r.mapW σ).nC n + (r.cond.mapW σ).cnt = _
  rw [RuleSrc.mapW_nC, LT.mapW_cnt σ hσ.ws r.cond h]; rfl
theorem RuleSrc.mapW_lits (σ : Str → Str) (hσ : SlotMap σ) (r : RuleSrc) (h : r.cond.WFo) : (r.mapW σ).lits = r.lits := by
  show r.nameLits ++ litsAttrs (r.attrs.map (HAttr.mapW σ)) ++ C04.lits (r.cond.mapW σ).render
      ++ ((r.stmts.map (mapStmtW σ)).flatMap fun x => C04.lits x.2.1) = _
  rw [litsAttrs_mapW, LT.mapW_lits σ hσ.ws r.cond h, stmtLits_mapW]; rfl

/-- the first statement directly follows the slot after `then` (no restriction: that slot absorbs the white space) -/
def RuleSrc.Tight (r : RuleSrc) : Prop := ∃ s b xs, r.stmts = ([], s, b) :: xs

theorem RuleSrc.munits_mapW (σ : Str → Str) (hσ : SlotMap σ) (r : RuleSrc) (h : r.cond.WFo) (ht : r.Tight) (n : Nat) :
    (r.mapW σ).munits n = (r.munits n).map (mapU σ) := by
  obtain ⟨s0, b0, xs0, hst⟩ := ht
  have e1 := mattrUnits_mapW σ (r.nA n) r.attrs r.w1
  have e2 : (r.cond.mapW σ).maskAt (r.nC n) = (r.cond.maskAt (r.nC n)).mapW σ := LT.mapW_maskAt σ hσ.ws r.cond h _
  have e3 := LT.units_mapW σ (r.cond.maskAt (r.nC n)) r.w3
  have e4 := maskStmtsAt_mapW σ (r.nS n) r.stmts
  unfold RuleSrc.munits
  rw [RuleSrc.mapW_nA, RuleSrc.mapW_nC, RuleSrc.mapW_nS σ hσ r h]
  show (σ r.w0, r.mnameText n) :: (mattrUnits (r.nA n) (r.attrs.map (HAttr.mapW σ)) (σ r.w1)).1
      ++ ((mattrUnits (r.nA n) (r.attrs.map (HAttr.mapW σ)) (σ r.w1)).2, sOpen) :: (σ r.w2, sWhen)
      :: ((r.cond.mapW σ).maskAt (r.nC n)).units (σ r.w3) ++ (σ r.w4, sThen)
      :: stmtUnits1 (σ r.w5) (maskStmtsAt (r.nS n) (r.stmts.map (mapStmtW σ))) ++ [(σ r.w6, sClose)] = _
  rw [e1, e2, e3, e4, hst]
  simp [maskStmtsAt, stmtUnits1, mapStmtW, mapU, hσ.nil, stmtUnits_mapW]

theorem tok_quoted (n : Nat) (b : Str) : Tok ('"' :: maskBodyAt n b ++ ['"']) := by
  refine ⟨⟨⟨'"', rfl, by decide⟩, ⟨'"', ?_, by decide⟩⟩, ?_, by simp⟩
  · rw [show '"' :: maskBodyAt n b ++ ['"'] = ('"' :: maskBodyAt n b) ++ ['"'] by simp]
    exact getLast_append_some _ _ _ rfl
  · intro c hc
    simp only [List.cons_append, List.mem_cons, List.mem_append, List.mem_nil_iff, or_false] at hc
    rcases hc with rfl | hc | rfl
    · decide
    · exact inert_noNL (maskBodyAt_mem hc)
    · decide

theorem RuleSrc.mnameText_tok (n : Nat) (r : RuleSrc) (h : r.Ok) : Tok (r.mnameText n) := by
  have hn := h.name
  unfold RuleSrc.mnameText
  by_cases hq : r.quoted = true
  · simp only [hq, if_true]
    have := tok_quoted n r.name
    simpa using this
  · have hq' : r.quoted = false := by simpa using hq
    simp only [hq', Bool.false_eq_true, if_false] at hn ⊢
    obtain ⟨⟨c, cs, hname, hid⟩, hword⟩ := hn
    have hlast : ∃ l, r.name.getLast? = some l ∧ l ∈ r.name := by
      rw [hname]; exact ⟨(c :: cs).getLast (by simp), List.getLast?_eq_some_getLast (by simp), List.getLast_mem _⟩
    obtain ⟨l, hl1, hl2⟩ := hlast
    refine ⟨⟨⟨c, by rw [hname]; rfl, (isIdStart_ne hid).2⟩, ⟨l, hl1, (isWord_props (hword l hl2)).1⟩⟩, ?_, ?_⟩
    · intro d hd e; subst e; exact absurd (isWord_props (hword _ hd)).1 (by decide)
    · rw [hname]; simp only [List.head?_cons, ne_eq, Option.some.injEq]
      intro e; subst e; revert hid; decide

/-- no line break inside a leaf or a statement, none of them starts with `/` (stated on the masked text, i.e. outside string
literals — a literal body has no line break anyway), and the first statement directly follows the slot after `then` -/
structure RuleSrc.LineOk (n : Nat) (r : RuleSrc) : Prop where
  leaves : ∀ s ∈ (r.cond.maskAt (r.nC n)).leaves, (∀ c ∈ s, c ≠ '\n') ∧ s.head? ≠ some '/'
  stmts : ∀ x ∈ maskStmtsAt (r.nS n) r.stmts, (∀ c ∈ x.2.1, c ≠ '\n') ∧ x.2.1.head? ≠ some '/'
  tight : r.Tight

theorem stmtUnits_ok (ys : List (Str × Str × Str))
    (h : ∀ y ∈ ys, Ws y.1 ∧ Ws y.2.2 ∧ Edges y.2.1 ∧ (∀ c ∈ y.2.1, c ≠ '\n') ∧ y.2.1.head? ≠ some '/') :
    ∀ u ∈ stmtUnits ys, Ws u.1 ∧ Tok u.2 := by
  induction ys with
  | nil => intro u hu; simp [stmtUnits] at hu
  | cons y ys ih =>
    obtain ⟨a, s, b⟩ := y
    obtain ⟨h1, h2, h3, h4, h5⟩ := h (a, s, b) (by simp)
    intro u hu
    simp only [stmtUnits, List.mem_cons] at hu
    rcases hu with rfl | rfl | hu
    · exact ⟨h1, ⟨h3, h4, h5⟩⟩
    · exact ⟨h2, tok_fixed.2.2.2.2.2.2.2.2.2.2.2.2⟩
    · exact ih (fun z hz => h z (by simp [hz])) u hu

theorem RuleSrc.munits_ok (n : Nat) (r : RuleSrc) (h : r.Ok) (hl : r.LineOk n) : ∀ u ∈ r.munits n, Ws u.1 ∧ Tok u.2 := by
  obtain ⟨_, _, _, _, _, _, _, _, tOpen, tWhen, tThen, tClose, tSemi⟩ := tok_fixed
  obtain ⟨a1, a2⟩ := mattrUnits_ok (r.nA n) r.attrs h.attrs r.w1 h.w1.1
  have hC : (r.cond.maskAt (r.nC n)).WF := LT.WFo.masked r.cond h.cond _
  have c1 := LT.units_ok _ hC hl.leaves r.w3 h.w3.1
  have hok := maskStmtsAt_ok r.stmts (r.nS n) h.stmts.2
  have hall : ∀ y ∈ maskStmtsAt (r.nS n) r.stmts, Ws y.1 ∧ Ws y.2.2 ∧ Edges y.2.1 ∧ (∀ c ∈ y.2.1, c ≠ '\n') ∧ y.2.1.head? ≠ some '/' :=
    fun y hy => ⟨(hok y hy).1, (hok y hy).2.1, (hok y hy).2.2.1, (hl.stmts y hy).1, (hl.stmts y hy).2⟩
  intro u hu
  simp only [RuleSrc.munits, List.mem_cons, List.mem_append, List.mem_nil_iff, or_false] at hu
  rcases hu with (((rfl | hu) | rfl | rfl | hu) | rfl | hu) | rfl
  · exact ⟨h.w0.1, r.mnameText_tok n h⟩
  · exact a1 u hu
  · exact ⟨a2, tOpen⟩
  · exact ⟨h.w2, tWhen⟩
  · exact c1 u hu
  · exact ⟨h.w4.1, tThen⟩
  · cases hm : maskStmtsAt (r.nS n) r.stmts with
    | nil => rw [hm] at hu; simp [stmtUnits1] at hu
    | cons y ys =>
      obtain ⟨a, s, b⟩ := y
      rw [hm] at hu hall
      obtain ⟨h1, h2, h3, h4, h5⟩ := hall (a, s, b) (by simp)
      simp only [stmtUnits1, List.mem_cons] at hu
      rcases hu with rfl | rfl | hu
      · refine ⟨?_, ⟨h3, h4, h5⟩⟩
        intro c hc; simp only [List.mem_append] at hc
        rcases hc with hc | hc
        · exact h.w5.1 c hc
        · exact h1 c hc
      · exact ⟨h2, tSemi⟩
      · exact stmtUnits_ok ys (fun z hz => hall z (by simp [hz])) u hu
  · exact ⟨h.w6, tClose⟩

theorem RuleSrc.mapW_ok (σ : Str → Str) (hσ : SlotMap σ) (r : RuleSrc) (h : r.Ok) : (r.mapW σ).Ok := by
  refine ⟨h.name, ⟨hσ.ws _ h.w0.1, hσ.ne _ h.w0.2⟩, ⟨hσ.ws _ h.w1.1, hσ.ne _ h.w1.2⟩, ?_, hσ.ws _ h.w2, ⟨hσ.ws _ h.w3.1, hσ.ne _ h.w3.2⟩,
    LT.mapW_WFo σ hσ.ws r.cond h.cond, ⟨hσ.ws _ h.w4.1, hσ.ne _ h.w4.2⟩, ⟨hσ.ws _ h.w5.1, hσ.ne _ h.w5.2⟩, ⟨?_, ?_⟩, hσ.ws _ h.w6⟩
  · intro a ha
    simp only [RuleSrc.mapW, List.mem_map] at ha
    obtain ⟨a0, ha0, rfl⟩ := ha
    have := h.attrs a0 ha0
    exact ⟨⟨hσ.ws _ this.w2.1, hσ.ne _ this.w2.2⟩, ⟨hσ.ws _ this.w1.1, hσ.ne _ this.w1.2⟩, this.val, this.sal⟩
  · have := h.stmts.1
    simp only [RuleSrc.mapW]
    intro e; exact this (List.map_eq_nil_iff.mp e)
  · intro x hx
    simp only [RuleSrc.mapW, List.mem_map] at hx
    obtain ⟨x0, hx0, rfl⟩ := hx
    have := h.stmts.2 x0 hx0
    exact ⟨hσ.ws _ this.1, hσ.ws _ this.2.1, this.2.2⟩

/-- **`clean_text` on a rule in any layout** is the same rule with every white-space slot that contains a line break
replaced by one blank: tokens (name, attributes, leaves, operators, statements) untouched, the other slots untouched. -/
theorem cleanText_layout (n : Nat) (r : RuleSrc) (h : r.Ok) (hl : r.LineOk n) :
    cleanText (r.mrender n) = (r.mapW norm).mrender n := by
  have hne : (r.mapW norm).stmts ≠ [] := (r.mapW_ok norm norm_slotMap h).stmts.1
  rw [r.mrender_units n h.stmts.1, cleanText_units sRule _ tok_fixed.2.2.2.2.2.2.2.1 (r.munits_ok n h hl),
    (r.mapW norm).mrender_units n hne, r.munits_mapW norm norm_slotMap h.cond hl.tight]

/-! ### the parsed rule does not depend on the layout -/

theorem firstOf_mapW (σ : Str → Str) (k : AKind) (as : List HAttr) :
    firstOf k (as.map (HAttr.mapW σ)) = (firstOf k as).map (HAttr.mapW σ) := by
  induction as with
  | nil => rfl
  | cons a as ih =>
    simp only [firstOf, List.map_cons, List.find?_cons] at ih ⊢
    have : (HAttr.mapW σ a).kind = a.kind := rfl
    rw [this]
    split
    · rfl
    · exact ih

theorem firstVal_mapW (σ : Str → Str) (k : AKind) (as : List HAttr) : firstVal k (as.map (HAttr.mapW σ)) = firstVal k as := by
  unfold firstVal; rw [firstOf_mapW]; cases firstOf k as <;> rfl

theorem firstSal_mapW (σ : Str → Str) (as : List HAttr) : firstSal (as.map (HAttr.mapW σ)) = firstSal as := by
  unfold firstSal; rw [firstOf_mapW]; cases firstOf .sal as <;> rfl

theorem hasKind_mapW (σ : Str → Str) (k : AKind) (as : List HAttr) : hasKind k (as.map (HAttr.mapW σ)) = hasKind k as := by
  unfold hasKind
  induction as with
  | nil => rfl
  | cons a as ih => simp only [List.map_cons, List.any_cons, ih]; rfl

theorem expectedAttrs_mapW (X : Ext) (σ : Str → Str) (as : List HAttr) :
    expectedAttrs X (as.map (HAttr.mapW σ)) = expectedAttrs X as := by
  unfold expectedAttrs
  simp only [firstVal_mapW, hasKind_mapW]

/-- the expected rule is that of the rule with any other white space in its slots -/
theorem ruleOf_mapW (X : Ext) (σ : Str → Str) (hσ : SlotMap σ) (r : RuleSrc) (h : r.cond.WFo) (n : Nat) (gc : Str → Condition)
    (ga : Str → Action) : ruleOf X (r.mapW σ) n gc ga = ruleOf X r n gc ga := by
  unfold ruleOf
  rw [RuleSrc.mapW_nC, RuleSrc.mapW_nS σ hσ r h]
  show (expectedAttrs X (r.attrs.map (HAttr.mapW σ))).map (fun ats =>
    ({ name := r.name, salience := firstSal (r.attrs.map (HAttr.mapW σ)), noLoop := ats.noLoop, lockOnActive := ats.lockOnActive,
       agendaGroup := ats.agendaGroup, activationGroup := ats.activationGroup, dateEffective := ats.dateEffective,
       dateExpires := ats.dateExpires, cond := ((r.cond.mapW σ).maskAt (r.nC n)).sem.map gc,
       actions := (maskStmtsAt (r.nS n) (r.stmts.map (mapStmtW σ))).map fun x => ga x.2.1 } : Rule)) = _
  rw [expectedAttrs_mapW, firstSal_mapW, LT.mapW_maskAt σ hσ.ws r.cond h, LT.mapW_sem, maskStmtsAt_mapW, List.map_map]
  rfl

/-- **One rule, any layout.** `parse_prepared_rule` on the masked text of a rule whose white-space slots contain line breaks
returns the rule as written. `hc`: the code hypothesis (`CodeOk`: no `}` / ` then ` outside literals) is required of the
rule in the slot-normalised layout (for a rule on one line: the rule itself). -/
theorem parsePreparedRule_layout (X : Ext) (r : RuleSrc) (h : r.Ok) (T P Q : List Str) (hT : T = P ++ r.lits ++ Q)
    (hl : r.LineOk P.length) (hc : (r.mapW norm).CodeOk P.length) (gc : Str → Condition) (ga : Str → Action)
    (hA : ∀ s ∈ (r.cond.maskAt (r.nC P.length)).leaves, parseSingleCondition X T s = .ok (gc s))
    (hP : ∀ x ∈ maskStmtsAt (r.nS P.length) r.stmts, parseAction X T x.2.1 = .ok (ga x.2.1)) :
    parsePreparedRule X T (r.mrender P.length) = ruleOf X r P.length gc ga := by
  have hσ := norm_slotMap
  rw [parsePreparedRule_eq, cleanText_layout _ r h hl, ← ruleOf_mapW X norm hσ r h.cond]
  apply parseCleaned_mrender X (r.mapW norm) (r.mapW_ok norm hσ h) T P Q (by rw [RuleSrc.mapW_lits norm hσ r h.cond]; exact hT) hc
  · rw [RuleSrc.mapW_nC]
    show ∀ s ∈ ((r.cond.mapW norm).maskAt (r.nC P.length)).leaves, _
    rw [LT.mapW_maskAt norm hσ.ws r.cond h.cond, LT.mapW_leaves]
    exact hA
  · rw [RuleSrc.mapW_nS norm hσ r h.cond]
    show ∀ x ∈ maskStmtsAt (r.nS P.length) (r.stmts.map (mapStmtW norm)), _
    rw [maskStmtsAt_mapW]
    intro x hx
    simp only [List.mem_map] at hx
    obtain ⟨y, hy, rfl⟩ := hx
    exact hP y hy

theorem mapM_blocks_layout (X : Ext) (gc : Str → Condition) (ga : Str → Action) (rs : List (RuleSrc × Str)) (T P Q : List Str)
    (hT : T = P ++ litsFile rs ++ Q) (h : ∀ x ∈ rs, x.1.Ok) (hl : ∀ k, ∀ x ∈ rs, x.1.LineOk k)
    (hc : ∀ k, ∀ x ∈ rs, (x.1.mapW norm).CodeOk k) (hL : LeavesOk X T gc ga P.length rs) :
    (mblocks P.length rs).mapM (parsePreparedRule X T) = (rulesOf X gc ga P.length rs).mapM id := by
  induction rs generalizing P with
  | nil => rfl
  | cons x xs ih =>
    have e : litsFile (x :: xs) = x.1.lits ++ litsFile xs := by simp [litsFile]
    obtain ⟨⟨hA, hP⟩, hL'⟩ := hL
    have hr : parsePreparedRule X T (x.1.mrender P.length) = ruleOf X x.1 P.length gc ga :=
      parsePreparedRule_layout X x.1 (h x (by simp)) T P (litsFile xs ++ Q) (by rw [hT, e]; simp [List.append_assoc])
        (hl _ x (by simp)) (hc _ x (by simp)) gc ga hA hP
    have ih' := ih (P ++ x.1.lits) (by rw [hT, e]; simp [List.append_assoc]) (fun y hy => h y (by simp [hy]))
      (fun k y hy => hl k y (by simp [hy])) (fun k y hy => hc k y (by simp [hy])) (by simpa using hL')
    simp only [List.length_append] at ih'
    simp only [mblocks, rulesOf, List.mapM_cons, hr, ih', id]

/-- **The property, for whole files in any layout.** As `parseRules_render`, WITHOUT the one-line hypothesis: every white-space
slot of every rule — after `rule`, around the name, around every attribute and its value, after `{`, around `when` / `then`,
around every `&&` `||` `!` `(` `)` `exists(`, around every statement and `;`, before `}` — is any mix of blanks, tabs, CR and
LF (non-empty where the grammar needs white space).  `GRLParser::parse_rules` returns exactly the rules written.
Hypotheses: `hl` no line break INSIDE a leaf / statement text and none starts with `/`; `hc` the splitter's code hypothesis on
the text as written, `hc'` the same on the slot-normalised rules (what `clean_text` hands on); `hnc` no comments (comments:
`parseRules_render_layout_comments`); `hL` the leaf parsers accept the leaves. -/
theorem parseRules_render_full (X : Ext) (g0 : Str) (rs : List (RuleSrc × Str)) (hg : Ws g0)
    (h : ∀ x ∈ rs, x.1.Ok ∧ Ws x.2 ∧ x.2 ≠ []) (hc : ∀ k, ∀ x ∈ rs, x.1.CodeOk k)
    (hc' : ∀ k, ∀ x ∈ rs, (x.1.mapW norm).CodeOk k) (hl : ∀ k, ∀ x ∈ rs, x.1.LineOk k)
    (hnc : stripComments (renderFile g0 rs) none = renderFile g0 rs)
    (gc : Str → Condition) (ga : Str → Action) (hL : LeavesOk X (litsFile rs) gc ga 0 rs) :
    parseRules X (renderFile g0 rs) = (rulesOf X gc ga 0 rs).mapM id := by
  obtain ⟨_, hlits, hs, _⟩ := splitRules_render g0 rs hg h hc
  unfold parseRules parsePreparedRules prepare prepareLits
  rw [hnc, hs, hlits]
  exact mapM_blocks_layout X gc ga rs (litsFile rs) [] [] (by simp) (fun x hx => (h x hx).1) hl hc' hL

/-- **… with comments anywhere white space may stand.** If the text `x` strips (`strip_comments`) to a rendered file — `SC`,
built with `SC.append` from `SC.code` / `SC.lit` for the tokens and `gap_sc` (white space, block comments, line comments with
arbitrary text) for EVERY slot, inside and between rules — then `parse_rules` on `x` returns the rules written. -/
theorem parseRules_render_layout_comments (X : Ext) (x g0 : Str) (rs : List (RuleSrc × Str)) (hx : SC x (renderFile g0 rs))
    (hg : Ws g0) (h : ∀ x ∈ rs, x.1.Ok ∧ Ws x.2 ∧ x.2 ≠ []) (hc : ∀ k, ∀ x ∈ rs, x.1.CodeOk k)
    (hc' : ∀ k, ∀ x ∈ rs, (x.1.mapW norm).CodeOk k) (hl : ∀ k, ∀ x ∈ rs, x.1.LineOk k)
    (hnc : stripComments (renderFile g0 rs) none = renderFile g0 rs)
    (gc : Str → Condition) (ga : Str → Action) (hL : LeavesOk X (litsFile rs) gc ga 0 rs) :
    parseRules X x = (rulesOf X gc ga 0 rs).mapM id := by
  have hsame : parseRules X x = parseRules X (renderFile g0 rs) := by
    unfold parseRules prepare prepareLits
    rw [hx.strip, hnc]
  rw [hsame]
  exact parseRules_render_full X g0 rs hg h hc hc' hl hnc gc ga hL

/-! ### non-vacuity: a rule spread over eight lines

```
rule R4
salience
 3<CR>
{
  when<CR>
<TAB>U.k >= 0
 && U.a > 1
then
  U.x = 7
;
}
``` -/

def exR4 : RuleSrc :=
  { name := ['R', '4'], quoted := false, w0 := [' '], w1 := ['\n'],
    attrs := [{ kind := .sal, sal := 3, w1 := ['\n', ' '], w2 := ['\r', '\n'] }],
    w2 := ['\n', ' ', ' '], w3 := ['\r', '\n', '\t'],
    cond := .and (.leaf exLeafK) ['\n', ' '] [' '] (.leaf exLeafA), w4 := ['\n'], w5 := ['\n', ' ', ' '],
    stmts := [([], ['U', '.', 'x', ' ', '=', ' ', '7'], ['\n'])], w6 := ['\n'] }

theorem exR4_ok : exR4.Ok := by
  obtain ⟨la, _, _, lk⟩ := exLeaf_opaque
  refine ⟨?_, ⟨ws_dec _ rfl, by decide⟩, ⟨ws_dec _ rfl, by decide⟩, ?_, ws_dec _ rfl, ⟨ws_dec _ rfl, by decide⟩, ?_,
    ⟨ws_dec _ rfl, by decide⟩, ⟨ws_dec _ rfl, by decide⟩, ⟨by decide, ?_⟩, ws_dec _ rfl⟩
  · show (∃ c cs, ['R', '4'] = c :: cs ∧ isIdStart c = true) ∧ ∀ c ∈ ['R', '4'], isWord c = true
    exact ⟨⟨'R', ['4'], rfl, by decide⟩, by decide⟩
  · intro a ha
    simp only [exR4, List.mem_cons, List.mem_nil_iff, or_false] at ha
    subst ha
    exact ⟨⟨ws_dec _ rfl, by decide⟩, ⟨ws_dec _ rfl, by decide⟩, by intro h; exact absurd h (by decide), by decide⟩
  · exact ⟨ws_dec _ rfl, ws_dec _ rfl, lk, la, rfl, rfl⟩
  · intro x hx
    simp only [exR4, List.mem_cons, List.mem_nil_iff, or_false] at hx
    subst hx
    exact ⟨ws_dec _ rfl, ws_dec _ rfl, exStmt_opaque _ (by decide +kernel) (by decide +kernel) (by decide +kernel)⟩

theorem exR4_int : IntGrammar exR4 := by
  constructor
  · intro s hs
    simp only [exR4, LT.leaves, List.mem_append, List.mem_cons, List.mem_nil_iff, or_false] at hs
    rcases hs with rfl | rfl
    · exact ⟨⟨['U'], ['k'], .ge, ['>', '='], 0⟩,
        ⟨⟨⟨'U', [], rfl, by decide⟩, by decide⟩, ⟨⟨'k', [], rfl, by decide⟩, by decide⟩, rfl, by decide, by decide, by decide +kernel⟩,
        by decide +kernel⟩
    · exact ⟨⟨['U'], ['a'], .gt, ['>'], 1⟩,
        ⟨⟨⟨'U', [], rfl, by decide⟩, by decide⟩, ⟨⟨'a', [], rfl, by decide⟩, by decide⟩, rfl, by decide, by decide, by decide +kernel⟩,
        by decide +kernel⟩
  · intro st hs
    simp only [exR4, List.mem_cons, List.mem_nil_iff, or_false] at hs
    subst hs
    exact ⟨⟨['U', '.', 'x'], 7⟩, ⟨by decide +kernel, by decide, by decide, by decide⟩, by decide +kernel⟩

theorem intGrammar_qf (r : RuleSrc) (h : IntGrammar r) : (∀ s ∈ r.cond.leaves, QuoteFree s) ∧ (∀ x ∈ r.stmts, QuoteFree x.2.1) := by
  constructor
  · intro s hs; obtain ⟨y, hy, rfl⟩ := h.1 s hs; exact y.quoteFree hy
  · intro st hs; obtain ⟨y, hy, he⟩ := h.2 st hs; rw [he]; exact y.quoteFree hy

/-- `LineOk` for a rule without string literals: a statement about the text as written -/
theorem RuleSrc.LineOk.ofCode (r : RuleSrc) (hq : (∀ s ∈ r.cond.leaves, QuoteFree s) ∧ (∀ x ∈ r.stmts, QuoteFree x.2.1))
    (h1 : ∀ s ∈ r.cond.leaves, (∀ c ∈ s, c ≠ '\n') ∧ s.head? ≠ some '/')
    (h2 : ∀ x ∈ r.stmts, (∀ c ∈ x.2.1, c ≠ '\n') ∧ x.2.1.head? ≠ some '/') (ht : r.Tight) (k : Nat) : r.LineOk k :=
  ⟨by rw [LT.maskAt_code _ hq.1]; exact h1, by rw [maskStmtsAt_code _ hq.2]; exact h2, ht⟩

theorem exR4_line (k : Nat) : exR4.LineOk k := by
  apply RuleSrc.LineOk.ofCode exR4 (intGrammar_qf _ exR4_int)
  · intro s hs
    simp only [exR4, LT.leaves, List.mem_append, List.mem_cons, List.mem_nil_iff, or_false] at hs
    rcases hs with rfl | rfl <;> exact ⟨by decide +kernel, by decide +kernel⟩
  · intro st hs
    simp only [exR4, List.mem_cons, List.mem_nil_iff, or_false] at hs
    subst hs; exact ⟨by decide +kernel, by decide +kernel⟩
  · exact ⟨_, _, _, rfl⟩

theorem exR4_code (k : Nat) : exR4.CodeOk k ∧ (exR4.mapW norm).CodeOk k := by
  have q := intGrammar_qf _ exR4_int
  constructor
  · apply RuleSrc.CodeOk.ofCode exR4 q.1 q.2
    · exact all_dec (p := fun c => c != '}') _ (by decide +kernel) (fun c h => by simpa using h)
    · decide +kernel
    · exact ⟨'1', by decide +kernel, by decide⟩
  · apply RuleSrc.CodeOk.ofCode
    · show ∀ s ∈ (exR4.cond.mapW norm).leaves, QuoteFree s
      rw [LT.mapW_leaves]; exact q.1
    · intro x hx
      simp only [RuleSrc.mapW, List.mem_map] at hx
      obtain ⟨y, hy, rfl⟩ := hx
      exact q.2 y hy
    · exact all_dec (p := fun c => c != '}') _ (by decide +kernel) (fun c h => by simpa using h)
    · decide +kernel
    · exact ⟨'1', by decide +kernel, by decide⟩

/-- the file `exR4` + line break parses to the rule written … -/
example : parseRules exX (renderFile ['\n'] [(exR4, ['\n'])])
    = (rulesOf exX (gcOf exX (litsFile [(exR4, ['\n'])])) (gaOf exX (litsFile [(exR4, ['\n'])])) 0 [(exR4, ['\n'])]).mapM id :=
  parseRules_render_full exX ['\n'] [(exR4, ['\n'])] (ws_dec _ rfl)
    (by intro x hx; simp only [List.mem_cons, List.mem_nil_iff, or_false] at hx; subst hx; exact ⟨exR4_ok, ws_dec _ rfl, by decide⟩)
    (by intro k x hx; simp only [List.mem_cons, List.mem_nil_iff, or_false] at hx; subst hx; exact (exR4_code k).1)
    (by intro k x hx; simp only [List.mem_cons, List.mem_nil_iff, or_false] at hx; subst hx; exact (exR4_code k).2)
    (by intro k x hx; simp only [List.mem_cons, List.mem_nil_iff, or_false] at hx; subst hx; exact exR4_line k)
    (by decide +kernel) _ _
    (leavesOk_int exX _ _ (by intro x hx; simp only [List.mem_cons, List.mem_nil_iff, or_false] at hx; subst hx; exact exR4_int) 0)

/-- … spelled out: `R4`, salience 3, `U.k >= 0 && U.a > 1`, `U.x = 7`; and `clean_text` of its eight lines is one line -/
example : ((parseRules exX (renderFile ['\n'] [(exR4, ['\n'])])).toOption.map (fun rs => rs.map fun r =>
      (r.name, r.salience, (match r.cond with | .and (.single ⟨.field f, .ge, .int 0⟩) (.single ⟨.field g, .gt, .int 1⟩) => f ++ g | _ => []),
        (match r.actions with | [.set f (.int 7)] => f | _ => [])))
    == some [(['R', '4'], (3 : Int), ['U', '.', 'k', 'U', '.', 'a'], ['U', '.', 'x'])]) = true := by decide +kernel

example : cleanText (exR4.mrender 0) = "rule R4 salience 3 { when U.k >= 0 && U.a > 1 then U.x = 7 ; }".toList := by
  rw [cleanText_layout 0 exR4 exR4_ok (exR4_line 0)]; decide +kernel

/-- non-vacuity of `parseRules_render_layout_comments`: `exR4` with a block comment after `{` and a line comment before `then` -/
example : SC (gapText [.ws ['\n'], .block ['}', ' ', 't', 'h', 'e', 'n'], .line ['x', ' ', '{']]) ['\n', ' ', '\n'] :=
  gap_sc _ (by
    intro i hi
    simp only [List.mem_cons, List.mem_nil_iff, or_false] at hi
    rcases hi with rfl | rfl | rfl
    · exact ws_dec _ rfl
    · show noClose _ ' ' = true; decide
    · show ∀ c ∈ _, c ≠ '\n'; decide)

/-! non-vacuity of `parseRules_render_layout_comments`: the eight-line rule `exR4` with the line comment `// c } then {` INSIDE
the rule (in the slot after `{`) -/

def exF : Str := renderFile ['\n'] [(exR4, ['\n'])]
def exA : Str := exF.take (exF.idxOf '{' + 1)
def exB : Str := exF.drop (exF.idxOf '{' + 1 + 3)
def exSlot : List GapItem := [.line [' ', 'c', ' ', '}', ' ', 't', 'h', 'e', 'n', ' ', '{'], .ws [' ', ' ']]

theorem sc_code_dec (x : Str) (h : (x.all fun c => c != '"' && c != '\'' && c != '/') = true) : SC x x := by
  apply SC.code
  intro c hc
  have := List.all_eq_true.mp h c hc
  simp at this
  exact ⟨this.1.1, this.1.2, this.2⟩

example : parseRules exX (exA ++ gapText exSlot ++ exB)
    = (rulesOf exX (gcOf exX (litsFile [(exR4, ['\n'])])) (gaOf exX (litsFile [(exR4, ['\n'])])) 0 [(exR4, ['\n'])]).mapM id := by
  have e : renderFile ['\n'] [(exR4, ['\n'])] = exA ++ gapStrip exSlot ++ exB := by decide +kernel
  have hsc : SC (exA ++ gapText exSlot ++ exB) (renderFile ['\n'] [(exR4, ['\n'])]) := by
    rw [e]
    refine ((sc_code_dec exA (by decide +kernel)).append (gap_sc exSlot ?_)).append (sc_code_dec exB (by decide +kernel))
    intro i hi
    simp only [exSlot, List.mem_cons, List.mem_nil_iff, or_false] at hi
    rcases hi with rfl | rfl
    · show ∀ c ∈ _, c ≠ '\n'; decide
    · exact ws_dec _ rfl
  exact parseRules_render_layout_comments exX _ ['\n'] [(exR4, ['\n'])] hsc (ws_dec _ rfl)
    (by intro x hx; simp only [List.mem_cons, List.mem_nil_iff, or_false] at hx; subst hx; exact ⟨exR4_ok, ws_dec _ rfl, by decide⟩)
    (by intro k x hx; simp only [List.mem_cons, List.mem_nil_iff, or_false] at hx; subst hx; exact (exR4_code k).1)
    (by intro k x hx; simp only [List.mem_cons, List.mem_nil_iff, or_false] at hx; subst hx; exact (exR4_code k).2)
    (by intro k x hx; simp only [List.mem_cons, List.mem_nil_iff, or_false] at hx; subst hx; exact exR4_line k)
    (by decide +kernel) _ _
    (leavesOk_int exX _ _ (by intro x hx; simp only [List.mem_cons, List.mem_nil_iff, or_false] at hx; subst hx; exact exR4_int) 0)

/-- the text really contains the comment, with `}` and ` then ` in it -/
example : containsSub (exA ++ gapText exSlot ++ exB) "{// c } then {\n  when".toList = true := by decide +kernel

end C04
