import RreModel.C04.Theorems6
/-
C04 — property theorems, part 7: LEAF-LEVEL ROUND TRIPS.  The leaf parsers `parse_single_condition` / `parse_action_statement`
are followed on leaves AS WRITTEN AND MASKED (what they really see: every string-literal body replaced by its placeholder, the
table `T` holding the bodies), class by class:
* `parseSingleCondition_cmp` — `Object.field OP value` for all ELEVEN operators the code's patterns know (six symbolic ones and the
  words `contains` `startsWith` `endsWith` `matches` `in`) and ANY value text (trimmed, no parenthesis): the comparison that was
  written, with `parse_value` of the value text;
* `Lit` / `Lit.parse` — the right-hand literals: integers (whole `i64`), strings with ARBITRARY bodies at any table offset, booleans,
  `null`, floats (the abstract parameter `Ext.parseF64`), dotted field references;
* `parseAction_assign` (`field = value`, any value text), `parseAction_append` (`+=`), `parseAction_minus_assign` (`-=` as the code
  classifies it), the call forms `Log` `Retract` `ScheduleRule` `ActivateAgendaGroup` `CompleteWorkflow` `SetWorkflowData` and
  function calls.
-/
namespace C04

/-! ### characters -/

theorem isPrefixOf_mem (p s : Str) (h : p.isPrefixOf s = true) : ∀ d ∈ p, d ∈ s := by
  induction p generalizing s with
  | nil => intro d hd; simp at hd
  | cons k ks ih =>
    cases s with
    | nil => simp [List.isPrefixOf] at h
    | cons c cs =>
      simp only [List.isPrefixOf, Bool.and_eq_true, beq_iff_eq] at h
      intro d hd
      simp only [List.mem_cons] at hd ⊢
      rcases hd with rfl | hd
      · exact Or.inl h.1
      · exact Or.inr (ih cs h.2 d hd)

/-- a pattern with a character that does not occur in the text is not found -/
theorem findSub_absent (p s : Str) (d : Char) (hd : d ∈ p) (hs : d ∉ s) : findSub p s = none := by
  induction s with
  | nil =>
    cases p with
    | nil => simp at hd
    | cons _ _ => simp [findSub]
  | cons c cs ih =>
    have h0 : p.isPrefixOf (c :: cs) = false := by
      cases h : p.isPrefixOf (c :: cs) with
      | false => rfl
      | true => exact absurd (isPrefixOf_mem p _ h d hd) hs
    simp only [findSub, h0, Bool.false_eq_true, if_false]
    rw [ih (fun h => hs (by simp [h]))]; rfl

theorem noStream_of_noParen (c : Str) (h : ∀ x ∈ c, x ≠ '(') : containsSub c sFromStream = false := by
  unfold containsSub
  rw [findSub_absent sFromStream c '(' (by decide) (fun hm => h _ hm rfl)]; rfl

/-! ### the eleven operators -/

/-- the operators of `condition_regex` / `function_call_regex`, as written (`not_contains` is not among them) -/
def opText : Op → Option Str
  | .ge => some ['>', '='] | .le => some ['<', '='] | .eq => some ['=', '='] | .ne => some ['!', '=']
  | .gt => some ['>'] | .lt => some ['<']
  | .contains => some ['c', 'o', 'n', 't', 'a', 'i', 'n', 's']
  | .startsWith => some ['s', 't', 'a', 'r', 't', 's', 'W', 'i', 't', 'h']
  | .endsWith => some ['e', 'n', 'd', 's', 'W', 'i', 't', 'h']
  | .matches_ => some ['m', 'a', 't', 'c', 'h', 'e', 's']
  | .in_ => some ['i', 'n']
  | .notContains => none

theorem opTable_true_chars : opTable true =
    [(['>', '='], .ge), (['<', '='], .le), (['=', '='], .eq), (['!', '='], .ne), (['>'], .gt), (['<'], .lt),
     (['c', 'o', 'n', 't', 'a', 'i', 'n', 's'], .contains), (['s', 't', 'a', 'r', 't', 's', 'W', 'i', 't', 'h'], .startsWith),
     (['e', 'n', 'd', 's', 'W', 'i', 't', 'h'], .endsWith), (['m', 'a', 't', 'c', 'h', 'e', 's'], .matches_), (['i', 'n'], .in_)] := by
  decide +kernel

theorem matchOp_text (o : Op) (sym : Str) (h : opText o = some sym) (rest : Str) :
    matchOp true (sym ++ ' ' :: rest) = some (sym, o, ' ' :: rest) := by
  unfold matchOp
  rw [opTable_true_chars]
  cases o <;> simp [opText] at h <;> subst h <;> simp [List.findSome?, List.isPrefixOf]

theorem opText_head (o : Op) (sym : Str) (h : opText o = some sym) :
    ∃ c t, sym = c :: t ∧ isWs c = false ∧ isArith c = false := by
  cases o <;> simp [opText] at h <;> subst h <;> exact ⟨_, _, rfl, by decide, by decide⟩

theorem opText_chars (o : Op) (sym : Str) (h : opText o = some sym) :
    ∀ c ∈ sym, c ≠ '(' ∧ c ≠ ')' ∧ c ≠ '"' ∧ c ≠ '\'' ∧ c ≠ mStart ∧ c ≠ '&' ∧ c ≠ '|' ∧ c ≠ '}' ∧ c ≠ '\n' ∧ isWs c = false := by
  cases o <;> simp [opText] at h <;> subst h <;> decide

theorem matchMultifield_op (X : Ext) (T : List Str) (a b : Str) (ha : Ident a) (hb : Ident b) (o : Op) (sym : Str)
    (h : opText o = some sym) (rest : Str) :
    matchMultifield X T (a ++ '.' :: (b ++ ' ' :: (sym ++ ' ' :: rest))) = none := by
  unfold matchMultifield takeDotted2
  rw [takeIdent_hit a ha '.' _ (by decide)]
  simp only [Option.bind_eq_bind, Option.bind_some]
  rw [takeIdent_hit b hb ' ' _ (by decide)]
  simp only [Option.bind_some]
  obtain ⟨k1, k2, k3, k4, k5⟩ := kwlits
  cases o <;> simp [opText] at h <;> subst h <;>
    simp [List.takeWhile_cons, List.dropWhile_cons, isWs, k1, k2, k3, k4, k5, startsWith, List.isPrefixOf]

theorem matchCondAt_op (a b : Str) (ha : Ident a) (hb : Ident b) (o : Op) (sym : Str) (ho : opText o = some sym) (v : Str)
    (hv : ∃ c, v.head? = some c ∧ isWs c = false) :
    matchCondAt (a ++ '.' :: (b ++ ' ' :: (sym ++ ' ' :: v))) = some (a ++ '.' :: b, sym, o, v) := by
  obtain ⟨c0, t0, rfl, hw, har⟩ := opText_head o _ ho
  unfold matchCondAt
  rw [takeIdent_hit a ha '.' _ (by decide)]
  simp only [Option.bind_eq_bind, Option.bind_some]
  have hdots : takeDots ('.' :: (b ++ ' ' :: (c0 :: t0 ++ ' ' :: v))).length ('.' :: (b ++ ' ' :: (c0 :: t0 ++ ' ' :: v)))
      = ('.' :: b, ' ' :: (c0 :: t0 ++ ' ' :: v)) := by
    simp only [List.length_cons, takeDots]
    rw [takeIdent_hit b hb ' ' _ (by decide)]
    simp only
    cases hl : (b ++ ' ' :: (c0 :: t0 ++ ' ' :: v)).length with
    | zero => simp [takeDots]
    | succ n => simp [takeDots]
  rw [hdots]
  simp only
  have htail : takeArithTail (' ' :: (c0 :: t0 ++ ' ' :: v)).length (' ' :: (c0 :: t0 ++ ' ' :: v)) = ([], ' ' :: (c0 :: t0 ++ ' ' :: v)) := by
    simp only [List.length_cons, takeArithTail, List.takeWhile_cons, List.dropWhile_cons, show isWs ' ' = true from rfl, if_true,
      List.cons_append, hw, Bool.false_eq_true, if_false, har]
  rw [htail]
  simp only [trimStart, List.dropWhile_cons, show isWs ' ' = true from rfl, if_true, List.cons_append, hw, Bool.false_eq_true, if_false]
  have hm := matchOp_text o (c0 :: t0) ho v
  simp only [List.cons_append] at hm
  rw [hm]
  simp only [Option.bind_some]
  obtain ⟨c, hc, hcw⟩ := hv
  cases v with
  | nil => simp at hc
  | cons d ds =>
    simp at hc; subst hc
    simp [List.dropWhile_cons, hcw, show isWs ' ' = true from rfl]

/-- the text of a comparison leaf: `Object.field OP value` with one blank around the operator -/
def cmpText (a b sym v : Str) : Str := a ++ '.' :: (b ++ ' ' :: (sym ++ ' ' :: v))

/-- **`parse_single_condition` on `Object.field OP value`**: any two identifiers, any of the ELEVEN operators the patterns know
(`>= <= == != > <`, `contains`, `startsWith`, `endsWith`, `matches`, `in`), ANY value text that is trimmed and has no `(` (a
masked literal, a number, a reference, an array …): through the whole dispatch (stream pattern, multifield patterns, `test(…)`,
function-call pattern, condition pattern) the result is the comparison that was written, its value `parse_value` of the value text. -/
theorem parseSingleCondition_cmp (X : Ext) (T : List Str) (a b : Str) (ha : Ident a) (hb : Ident b) (o : Op) (sym : Str)
    (ho : opText o = some sym) (v : Str) (hvE : Edges v) (hvp : ∀ c ∈ v, c ≠ '(') :
    parseSingleCondition X T (cmpText a b sym v) = .ok ⟨.field (a ++ '.' :: b), o, parseValue X T v⟩ := by
  obtain ⟨⟨vh, hvh, hvhw⟩, ⟨vl, hvl, hvlw⟩⟩ := hvE
  obtain ⟨a0, as, hae, ha0⟩ := ha.head
  unfold cmpText
  generalize hc : a ++ '.' :: (b ++ ' ' :: (sym ++ ' ' :: v)) = c
  have hE : Edges c := by
    rw [← hc, hae]
    refine ⟨⟨a0, rfl, (isIdStart_ne ha0).2⟩, ⟨vl, ?_, hvlw⟩⟩
    rw [show a0 :: as ++ '.' :: (b ++ ' ' :: (sym ++ ' ' :: v)) = (a0 :: as ++ '.' :: (b ++ ' ' :: (sym ++ [' ']))) ++ v by simp]
    exact getLast_append_some _ _ _ hvl
  have hnp : ∀ x ∈ c, x ≠ '(' := by
    intro x hx
    rw [← hc] at hx
    simp only [List.mem_append, List.mem_cons] at hx
    rcases hx with h | rfl | h | rfl | h | rfl | h
    · exact (isWord_props (ha.word x h)).2.2.1
    · decide
    · exact (isWord_props (hb.word x h)).2.2.1
    · decide
    · exact (opText_chars o sym ho x h).1
    · decide
    · exact hvp x h
  have hhead : c.head? = some a0 := by rw [← hc, hae]; rfl
  unfold parseSingleCondition
  simp only [trim_self hE, hhead]
  have hne : (some a0 == some '(') = false := by
    have : a0 ≠ '(' := by intro e; subst e; revert ha0; decide
    simpa using this
  simp only [hne, Bool.false_and, Bool.false_eq_true, if_false, noStream_of_noParen c hnp]
  have hmf : matchMultifield X T c = none := by
    rw [← hc]; exact matchMultifield_op X T a b ha hb o sym ho v
  rw [hmf, matchTest_noParen T c hnp]
  simp only
  rw [searchFrom_none matchCallAt c (fun x y hxy => matchCallAt_noParen y (fun z hz => hnp z (by rw [hxy]; simp [hz])))]
  simp only
  have hhit : searchFrom matchCondAt c = some (a ++ '.' :: b, sym, o, v) := by
    apply searchFrom_hit
    · rw [← hc, hae]; simp
    · rw [← hc]; exact matchCondAt_op a b ha hb o sym ho v ⟨vh, hvh, hvhw⟩
  rw [hhit]
  simp only
  have hfE : Edges (a ++ '.' :: b) := by
    obtain ⟨b0, bs, hbe, hb0⟩ := hb.head
    refine ⟨⟨a0, by rw [hae]; rfl, (isIdStart_ne ha0).2⟩, ?_⟩
    have : ∃ l, (a ++ '.' :: b).getLast? = some l ∧ l ∈ b := by
      rw [hbe]
      refine ⟨(b0 :: bs).getLast (by simp), ?_, List.getLast_mem _⟩
      rw [show a ++ '.' :: b0 :: bs = (a ++ ['.']) ++ (b0 :: bs) by simp]
      exact getLast_append_some _ _ _ (List.getLast?_eq_some_getLast (by simp))
    obtain ⟨l, hl, hlb⟩ := this
    exact ⟨l, hl, (isWord_props (hb.word l (hbe ▸ hlb))).1⟩
  have hnoar : (a ++ '.' :: b).any isArith = false := by
    rw [List.any_eq_false]
    intro x hx
    simp only [List.mem_append, List.mem_cons] at hx
    rcases hx with h | rfl | h
    · simp [(isWord_props (ha.word x h)).2.2.2.1]
    · decide
    · simp [(isWord_props (hb.word x h)).2.2.2.1]
  rw [trim_self hfE, trim_self ⟨⟨vh, hvh, hvhw⟩, ⟨vl, hvl, hvlw⟩⟩, hnoar]
  simp only [Bool.false_eq_true, if_false]


/-! ### right-hand literals (what `parse_value` makes of the masked value text) -/

/-- none of the characters the leaf and statement parsers scan for -/
def VPlain (c : Char) : Prop := c ≠ '(' ∧ c ≠ ')' ∧ c ≠ '=' ∧ c ≠ '+' ∧ c ≠ ',' ∧ c ≠ ';'

instance (c : Char) : Decidable (VPlain c) := by unfold VPlain; infer_instance

theorem VPlain.ofInert {c : Char} (h : InertChar c) : VPlain c := by
  rcases h with h | h | h
  · subst h; decide
  · subst h; decide
  · refine ⟨?_, ?_, ?_, ?_, ?_, ?_⟩ <;> (intro e; subst e; revert h; decide)

theorem VPlain.ofWord {c : Char} (h : isWord c = true) : VPlain c := by
  refine ⟨?_, ?_, ?_, ?_, ?_, ?_⟩ <;> (intro e; subst e; revert h; decide)

theorem VPlain.ofIntShow (i : Int) : ∀ c ∈ intShow i, VPlain c := by
  intro c hc
  rcases intShow_chars i c hc with h | h
  · exact VPlain.ofInert (Or.inr (Or.inr h))
  · subst h; decide

theorem parseValue_scalar (X : Ext) (T : List Str) (t : Str) (hE : Edges t) (hb : t.head? ≠ some '[') :
    parseValue X T t = parseScalar X T t := by
  have hb' : (t.head? == some '[') = false := by
    cases h : t.head? with
    | none => rfl
    | some c => rw [h] at hb; simpa using fun e => hb (by rw [e])
  unfold parseValue
  cases hf : t.length with
  | zero => simp only [parseValueF]; rw [trim_self hE]
  | succ n => simp only [parseValueF]; rw [trim_self hE, hb']; simp

/-- **a string literal at ANY table offset**: the masked literal `q <placeholder n> q` is read back as the body the table holds -/
theorem parseValue_str_at (X : Ext) (T : List Str) (q : Char) (b : Str) (n : Nat) (hq : q = '"' ∨ q = '\'')
    (hT : b ≠ [] → T[n]? = some b) : parseValue X T (q :: maskBodyAt n b ++ [q]) = .str b := by
  have hqw : isWs q = false := by rcases hq with rfl | rfl <;> rfl
  have hed : Edges (q :: maskBodyAt n b ++ [q]) := ⟨⟨q, rfl, hqw⟩, ⟨q, getLast_append_some _ _ q rfl, hqw⟩⟩
  have hmem : q ∉ maskBodyAt n b := by
    intro hm
    have := (maskBodyAt_mem hm).ne
    rcases hq with rfl | rfl
    · exact this.2.2.2.2.2.1 rfl
    · exact this.2.2.2.2.2.2.1 rfl
  have hinner : ((q :: maskBodyAt n b ++ [q]).drop 1).dropLast = maskBodyAt n b := by simp
  have hlast : (q :: maskBodyAt n b ++ [q]).getLast? = some q := getLast_append_some _ _ q rfl
  have hun : unmask T (maskBodyAt n b) = b := by
    have := unmask_maskBodyAt T n b [] hT
    simpa [unmask_nil] using this
  rw [parseValue_scalar X T _ hed (by rcases hq with rfl | rfl <;> simp)]
  unfold parseScalar
  simp only [hinner, hlast, hun]
  rcases hq with rfl | rfl
  · simp [hmem]
  · simp [hmem]

/-- what the classification chain of `parse_value` needs to get past strings and constants -/
structure NotConst (t : Str) : Prop where
  edges : Edges t
  head : ∀ c, t.head? = some c → c ≠ '[' ∧ c ≠ '"' ∧ c ≠ '\''
  noTrue : lower t ≠ "true".toList
  noFalse : lower t ≠ "false".toList
  noNull : lower t ≠ "null".toList

theorem parseScalar_notConst (X : Ext) (T : List Str) (t : Str) (h : NotConst t) :
    parseValue X T t = (match parseI64 t with
      | some i => .int i
      | none => match X.parseF64 t with
        | some b => .num b
        | none => if isExpression t then .expr (unmask T t) else if t.contains '.' then .expr (unmask T t)
                  else if isIdentifier t then .expr (unmask T t) else .str (unmask T t)) := by
  obtain ⟨⟨c, hc, hcw⟩, _⟩ := h.edges
  have hh := h.head c hc
  rw [parseValue_scalar X T t h.edges (by rw [hc]; simpa using hh.1)]
  unfold parseScalar
  have h1 : (t.head? == some '"') = false := by rw [hc]; simpa using hh.2.1
  have h2 : (t.head? == some '\'') = false := by rw [hc]; simpa using hh.2.2
  have l1 : (lower t == "true".toList) = false := by simpa using h.noTrue
  have l2 : (lower t == "false".toList) = false := by simpa using h.noFalse
  have l3 : (lower t == "null".toList) = false := by simpa using h.noNull
  simp only [h1, h2, Bool.false_and, Bool.or_self, Bool.and_false, Bool.false_eq_true, if_false, l1, l2, l3]
  rfl

/-- **floats** (`str::parse::<f64>` is the parameter `Ext.parseF64`): a text that is no string, constant or `i64` and that
`parse::<f64>` accepts with bit pattern `bits` is `Value::Number(bits)` -/
theorem parseValue_float (X : Ext) (T : List Str) (t : Str) (bits : Nat) (h : NotConst t) (hi : parseI64 t = none)
    (hf : X.parseF64 t = some bits) : parseValue X T t = .num bits := by
  rw [parseScalar_notConst X T t h, hi, hf]

theorem lower_dot_ne (t w : Str) (ht : '.' ∈ t) (hw : '.' ∉ w) : lower t ≠ w := by
  intro e
  apply hw
  rw [← e]
  unfold lower
  exact List.mem_map.mpr ⟨'.', ht, by decide⟩

theorem parseI64_idStart (c : Char) (r : Str) (h : isIdStart c = true) : parseI64 (c :: r) = none := by
  have h1 : c ≠ '-' := by intro e; subst e; revert h; decide
  have h2 : c ≠ '+' := by intro e; subst e; revert h; decide
  have h3 : isDigit c = false := by
    cases hd : isDigit c with
    | false => rfl
    | true =>
      exfalso
      have h' : 48 ≤ c.toNat ∧ c.toNat ≤ 57 := by
        unfold isDigit at hd
        simp [Char.le_def, UInt32.le_iff_toNat_le] at hd
        exact hd
      unfold isIdStart isAlpha at h
      simp [Char.le_def, UInt32.le_iff_toNat_le] at h
      have : c.val.toNat = c.toNat := rfl
      rcases h with (h | h) | h
      · omega
      · omega
      · subst h; revert hd; decide
  unfold parseI64 parseIntIn
  have : signSplit (c :: r) = (false, c :: r) := by
    unfold signSplit
    split
    · rename_i heq; simp at heq; exact absurd heq.1 h1
    · rename_i heq; simp at heq; exact absurd heq.1 h2
    · rfl
  rw [this]
  simp [h3]

/-- **a dotted field reference** `Object.field` on the right-hand side is `Value::Expression("Object.field")` (given that
`parse::<f64>` rejects it — it does for every dotted name) -/
theorem parseValue_ref (X : Ext) (T : List Str) (a b : Str) (ha : Ident a) (hb : Ident b) (hf : X.parseF64 (a ++ '.' :: b) = none) :
    parseValue X T (a ++ '.' :: b) = .expr (a ++ '.' :: b) := by
  obtain ⟨a0, as, hae, ha0⟩ := ha.head
  obtain ⟨b0, bs, hbe, hb0⟩ := hb.head
  have hdot : '.' ∈ a ++ '.' :: b := by simp
  have hE : Edges (a ++ '.' :: b) := by
    refine ⟨⟨a0, by rw [hae]; rfl, (isIdStart_ne ha0).2⟩, ?_⟩
    have : ∃ l, (a ++ '.' :: b).getLast? = some l ∧ l ∈ b := by
      rw [hbe]
      refine ⟨(b0 :: bs).getLast (by simp), ?_, List.getLast_mem _⟩
      rw [show a ++ '.' :: b0 :: bs = (a ++ ['.']) ++ (b0 :: bs) by simp]
      exact getLast_append_some _ _ _ (List.getLast?_eq_some_getLast (by simp))
    obtain ⟨l, hl, hlb⟩ := this
    exact ⟨l, hl, (isWord_props (hb.word l (hbe ▸ hlb))).1⟩
  have hN : NotConst (a ++ '.' :: b) := by
    refine ⟨hE, ?_, lower_dot_ne _ _ hdot (by decide), lower_dot_ne _ _ hdot (by decide), lower_dot_ne _ _ hdot (by decide)⟩
    intro c hc
    rw [hae] at hc; simp at hc; subst hc
    refine ⟨?_, ?_, ?_⟩ <;> (intro e; subst e; revert ha0; decide)
  have hi : parseI64 (a ++ '.' :: b) = none := by rw [hae]; exact parseI64_idStart a0 _ ha0
  have hm : ∀ c ∈ a ++ '.' :: b, c ≠ mStart := by
    intro c hc
    simp only [List.mem_append, List.mem_cons] at hc
    rcases hc with h | rfl | h
    · exact (isWord_props (ha.word c h)).2.2.2.2.1
    · decide
    · exact (isWord_props (hb.word c h)).2.2.2.2.1
  have hun : unmask T (a ++ '.' :: b) = a ++ '.' :: b := by
    have := unmask_plain T (a ++ '.' :: b) [] hm
    simpa [unmask_nil] using this
  have hcd : (a ++ '.' :: b).contains '.' = true := by simp
  rw [parseScalar_notConst X T _ hN, hi, hf]
  simp only [hcd, hun, if_true]
  split <;> rfl

/-- a right-hand literal of the documented grammar -/
inductive Lit where
  | int (i : Int)
  | str (q : Char) (body : Str)
  | bool (b : Bool)
  | null
  | float (text : Str) (bits : Nat)
  | ref (a b : Str)
deriving Repr

/-- as written -/
def Lit.segs : Lit → List Seg
  | .int i => [.code (intShow i)]
  | .str q b => [.lit q b]
  | .bool b => [.code (if b then ['t', 'r', 'u', 'e'] else ['f', 'a', 'l', 's', 'e'])]
  | .null => [.code ['n', 'u', 'l', 'l']]
  | .float t _ => [.code t]
  | .ref a b => [.code (a ++ '.' :: b)]

def Lit.text (l : Lit) : Str := renderSegs l.segs

/-- after `mask_string_literals`, `n` table entries before it -/
def Lit.masked (n : Nat) : Lit → Str
  | .str q b => q :: maskBodyAt n b ++ [q]
  | l => l.text

/-- the documented value -/
def Lit.val : Lit → Value
  | .int i => .int i
  | .str _ b => .str b
  | .bool b => .bool b
  | .null => .null
  | .float _ bits => .num bits
  | .ref a b => .expr (a ++ '.' :: b)

/-- admissible literals: every `i64`; a string body is ARBITRARY but for its own quote character and a line break; a float is any
text `parse::<f64>` accepts (and `parse::<i64>` does not) made of plain characters; a reference is two identifiers -/
def Lit.Ok (X : Ext) : Lit → Prop
  | .int i => -9223372036854775808 ≤ i ∧ i ≤ 9223372036854775807
  | .str q b => (q = '"' ∨ q = '\'') ∧ ∀ c ∈ b, c ≠ q ∧ c ≠ '\n'
  | .bool _ => True
  | .null => True
  | .float t bits => NotConst t ∧ parseI64 t = none ∧ X.parseF64 t = some bits
      ∧ ∀ c ∈ t, VPlain c ∧ c ≠ '"' ∧ c ≠ '\'' ∧ c ≠ mStart
  | .ref a b => Ident a ∧ Ident b ∧ X.parseF64 (a ++ '.' :: b) = none

theorem Lit.masked_eq (n : Nat) (l : Lit) : maskedSegsAt n l.segs = l.masked n := by
  cases l <;> simp [Lit.segs, Lit.masked, Lit.text, maskedSegsAt, Seg.maskedAt, renderSegs, Seg.render]

theorem wordDot_plain (a b : Str) (ha : Ident a) (hb : Ident b) : ∀ c ∈ a ++ '.' :: b, VPlain c ∧ c ≠ '"' ∧ c ≠ '\'' ∧ c ≠ mStart := by
  intro c hc
  simp only [List.mem_append, List.mem_cons] at hc
  rcases hc with h | rfl | h
  · exact ⟨VPlain.ofWord (ha.word c h), (isWord_quoteFree ha.word c h).1, (isWord_quoteFree ha.word c h).2, (isWord_props (ha.word c h)).2.2.2.2.1⟩
  · decide
  · exact ⟨VPlain.ofWord (hb.word c h), (isWord_quoteFree hb.word c h).1, (isWord_quoteFree hb.word c h).2, (isWord_props (hb.word c h)).2.2.2.2.1⟩

theorem Lit.segs_ok (X : Ext) (l : Lit) (h : l.Ok X) : ∀ x ∈ l.segs, x.Ok := by
  intro x hx
  cases l with
  | int i =>
    simp only [Lit.segs, List.mem_cons, List.mem_nil_iff, or_false] at hx; subst hx
    exact ⟨intShow_quoteFree i, fun c hc => by
      rcases intShow_chars i c hc with h | h
      · exact (isDigit_ne h).2.2.2
      · subst h; decide⟩
  | str q b => simp only [Lit.segs, List.mem_cons, List.mem_nil_iff, or_false] at hx; subst hx; exact h
  | bool b =>
    simp only [Lit.segs, List.mem_cons, List.mem_nil_iff, or_false] at hx; subst hx
    cases b <;> exact ⟨by intro c hc; revert c; decide, by decide⟩
  | null =>
    simp only [Lit.segs, List.mem_cons, List.mem_nil_iff, or_false] at hx; subst hx
    exact ⟨by intro c hc; revert c; decide, by decide⟩
  | float t bits =>
    simp only [Lit.segs, List.mem_cons, List.mem_nil_iff, or_false] at hx; subst hx
    exact ⟨fun c hc => ⟨(h.2.2.2 c hc).2.1, (h.2.2.2 c hc).2.2.1⟩, fun c hc => (h.2.2.2 c hc).2.2.2⟩
  | ref a b =>
    simp only [Lit.segs, List.mem_cons, List.mem_nil_iff, or_false] at hx; subst hx
    exact ⟨fun c hc => ⟨(wordDot_plain a b h.1 h.2.1 c hc).2.1, (wordDot_plain a b h.1 h.2.1 c hc).2.2.1⟩,
      fun c hc => (wordDot_plain a b h.1 h.2.1 c hc).2.2.2⟩

/-- the masked literal is trimmed and has none of the characters the leaf / statement parsers scan for -/
theorem Lit.masked_plain (X : Ext) (l : Lit) (h : l.Ok X) (n : Nat) : Edges (l.masked n) ∧ ∀ c ∈ l.masked n, VPlain c := by
  cases l with
  | int i =>
    obtain ⟨⟨ih, hih, hihd⟩, ⟨il, hil, hild⟩⟩ := intShow_edges i
    have hihw : isWs ih = false := by rcases hihd with h | h; exact isDigit_notWs h; subst h; decide
    have e : (Lit.int i).masked n = intShow i := by simp [Lit.masked, Lit.text, Lit.segs, renderSegs, Seg.render]
    rw [e]; exact ⟨⟨⟨ih, hih, hihw⟩, ⟨il, hil, isDigit_notWs hild⟩⟩, VPlain.ofIntShow i⟩
  | str q b =>
    have hqw : isWs q = false := by rcases h.1 with rfl | rfl <;> rfl
    refine ⟨⟨⟨q, rfl, hqw⟩, ⟨q, getLast_append_some _ _ q rfl, hqw⟩⟩, ?_⟩
    intro c hc
    simp only [Lit.masked, List.cons_append, List.mem_cons, List.mem_append, List.mem_nil_iff, or_false] at hc
    rcases hc with rfl | hc | rfl
    · rcases h.1 with rfl | rfl <;> decide
    · exact VPlain.ofInert (maskBodyAt_mem hc)
    · rcases h.1 with rfl | rfl <;> decide
  | bool b =>
    cases b
    · have e : (Lit.bool false).masked n = ['f', 'a', 'l', 's', 'e'] := rfl
      rw [e]; exact ⟨by decide +kernel, by decide +kernel⟩
    · have e : (Lit.bool true).masked n = ['t', 'r', 'u', 'e'] := rfl
      rw [e]; exact ⟨by decide +kernel, by decide +kernel⟩
  | null =>
    have e : Lit.null.masked n = ['n', 'u', 'l', 'l'] := rfl
    rw [e]; exact ⟨by decide +kernel, by decide +kernel⟩
  | float t bits =>
    have e : (Lit.float t bits).masked n = t := by simp [Lit.masked, Lit.text, Lit.segs, renderSegs, Seg.render]
    rw [e]; exact ⟨h.1.edges, fun c hc => (h.2.2.2 c hc).1⟩
  | ref a b =>
    have e : (Lit.ref a b).masked n = a ++ '.' :: b := by simp [Lit.masked, Lit.text, Lit.segs, renderSegs, Seg.render]
    rw [e]
    obtain ⟨a0, as, hae, ha0⟩ := h.1.head
    obtain ⟨b0, bs, hbe, hb0⟩ := h.2.1.head
    refine ⟨⟨⟨a0, by rw [hae]; rfl, (isIdStart_ne ha0).2⟩, ?_⟩, fun c hc => (wordDot_plain a b h.1 h.2.1 c hc).1⟩
    have : ∃ l, (a ++ '.' :: b).getLast? = some l ∧ l ∈ b := by
      rw [hbe]
      refine ⟨(b0 :: bs).getLast (by simp), ?_, List.getLast_mem _⟩
      rw [show a ++ '.' :: b0 :: bs = (a ++ ['.']) ++ (b0 :: bs) by simp]
      exact getLast_append_some _ _ _ (List.getLast?_eq_some_getLast (by simp))
    obtain ⟨l, hl, hlb⟩ := this
    exact ⟨l, hl, (isWord_props (h.2.1.word l (hbe ▸ hlb))).1⟩

/-- **every right-hand literal round-trips through mask / `parse_value`**: with the table holding the literal's body at its
offset (`T = pre ++ lits ++ post`), the masked text is read back as the documented value -/
theorem Lit.parse (X : Ext) (l : Lit) (h : l.Ok X) (T pre post : List Str) (hT : T = pre ++ litsSegs l.segs ++ post) :
    parseValue X T (l.masked pre.length) = l.val := by
  cases l with
  | int i =>
    have e : (Lit.int i).masked pre.length = intShow i := by simp [Lit.masked, Lit.text, Lit.segs, renderSegs, Seg.render]
    rw [e]; exact parseValue_intShow X T i h.1 h.2
  | str q b =>
    apply parseValue_str_at X T q b pre.length h.1
    intro hb
    have hl : litsSegs (Lit.str q b).segs = [b] := by
      cases b with
      | nil => exact absurd rfl hb
      | cons _ _ => simp [litsSegs, Lit.segs, Seg.lits]
    rw [hT, hl]; simp
  | bool b => cases b <;> rfl
  | null => rfl
  | float t bits =>
    have e : (Lit.float t bits).masked pre.length = t := by simp [Lit.masked, Lit.text, Lit.segs, renderSegs, Seg.render]
    rw [e]; exact parseValue_float X T t bits h.1 h.2.1 h.2.2.1
  | ref a b =>
    have e : (Lit.ref a b).masked pre.length = a ++ '.' :: b := by simp [Lit.masked, Lit.text, Lit.segs, renderSegs, Seg.render]
    rw [e]; exact parseValue_ref X T a b h.1 h.2.1 h.2.2


/-! ### statements: assignments -/

theorem Ws.noEqPlus {w : Str} (hw : Ws w) : ∀ c ∈ w, c ≠ '=' ∧ c ≠ '+' := by
  intro c hc; constructor <;> (intro e; subst e; exact absurd (hw _ hc) (by decide))

/-- **`parse_action_statement` on `field = value`** — any field text (trimmed, no `=`, `+`, placeholder delimiter), any white space
around the `=`, ANY value text (trimmed, no `=`, `+`): the assignment that was written, its value `parse_value` of the value text -/
theorem parseAction_assign (X : Ext) (T : List Str) (f wl wr v : Str) (hf : Edges f)
    (hc : ∀ c ∈ f, c ≠ '=' ∧ c ≠ '+' ∧ c ≠ mStart) (hwl : Ws wl) (hwr : Ws wr) (hvE : Edges v) (hv : ∀ c ∈ v, c ≠ '=' ∧ c ≠ '+') :
    parseAction X T (f ++ wl ++ '=' :: (wr ++ v)) = .ok (.set f (parseValue X T v)) := by
  obtain ⟨⟨vh, hvh, hvhw⟩, ⟨vl, hvl, hvlw⟩⟩ := hvE
  have hE : Edges (f ++ wl ++ '=' :: (wr ++ v)) := by
    obtain ⟨⟨c, hc1, hc2⟩, _⟩ := hf
    refine ⟨⟨c, by rw [List.append_assoc]; exact head_append_some _ _ _ hc1, hc2⟩, ⟨vl, ?_, hvlw⟩⟩
    rw [show f ++ wl ++ '=' :: (wr ++ v) = (f ++ wl ++ '=' :: wr) ++ v by simp]
    exact getLast_append_some _ _ _ hvl
  have hnoPlus : ∀ c ∈ f ++ wl ++ '=' :: (wr ++ v), c ≠ '+' := by
    intro c hcm
    simp only [List.mem_append, List.mem_cons] at hcm
    rcases hcm with (h | h) | rfl | h | h
    · exact (hc c h).2.1
    · exact (hwl.noEqPlus c h).2
    · decide
    · exact (hwr.noEqPlus c h).2
    · exact (hv c h).2
  unfold parseAction
  simp only [trim_self hE]
  rw [findSub_dead ['+', '='] _ (by simp) (Dead.ofHead '+' ['='] _ hnoPlus)]
  have hd : Dead ['='] (f ++ wl) := Dead.ofHead '=' [] _ (by
    intro c hcm; simp only [List.mem_append] at hcm
    rcases hcm with h | h
    · exact (hc c h).1
    · exact (hwl.noEqPlus c h).1)
  have e : f ++ wl ++ '=' :: (wr ++ v) = (f ++ wl) ++ (['='] ++ (wr ++ v)) := by simp
  have hfs := findSub_hit ['='] (f ++ wl) (wr ++ v) (by simp) hd
  rw [← e] at hfs
  simp only [hfs]
  have ht : (f ++ wl ++ '=' :: (wr ++ v)).take (f ++ wl).length = f ++ wl := by rw [e]; exact List.take_left
  have hdr : (f ++ wl ++ '=' :: (wr ++ v)).drop ((f ++ wl).length + 1) = wr ++ v := by
    rw [e, ← List.drop_drop, List.drop_left]; rfl
  rw [ht, hdr]
  have t1 : trim (f ++ wl) = f := by
    have := trim_pad [] f wl Ws.nil hwl hf; simpa using this
  have t2 : trim (wr ++ v) = v := by
    have := trim_pad wr v [] hwr Ws.nil ⟨⟨vh, hvh, hvhw⟩, ⟨vl, hvl, hvlw⟩⟩; simpa using this
  rw [t1, t2]
  have := unmask_plain T f [] (fun c hcm => (hc c hcm).2.2)
  simp only [List.append_nil, unmask_nil] at this
  rw [this]

/-- **`field += value`**: `ActionType::Append` of the value written (the `+=` is looked for before the `=`) -/
theorem parseAction_append (X : Ext) (T : List Str) (f wl wr v : Str) (hf : Edges f)
    (hc : ∀ c ∈ f, c ≠ '=' ∧ c ≠ '+' ∧ c ≠ mStart) (hwl : Ws wl) (hwr : Ws wr) (hvE : Edges v) :
    parseAction X T (f ++ wl ++ '+' :: '=' :: (wr ++ v)) = .ok (.append f (parseValue X T v)) := by
  obtain ⟨⟨vh, hvh, hvhw⟩, ⟨vl, hvl, hvlw⟩⟩ := hvE
  have hE : Edges (f ++ wl ++ '+' :: '=' :: (wr ++ v)) := by
    obtain ⟨⟨c, hc1, hc2⟩, _⟩ := hf
    refine ⟨⟨c, by rw [List.append_assoc]; exact head_append_some _ _ _ hc1, hc2⟩, ⟨vl, ?_, hvlw⟩⟩
    rw [show f ++ wl ++ '+' :: '=' :: (wr ++ v) = (f ++ wl ++ '+' :: '=' :: wr) ++ v by simp]
    exact getLast_append_some _ _ _ hvl
  unfold parseAction
  simp only [trim_self hE]
  have hd : Dead ['+', '='] (f ++ wl) := Dead.ofHead '+' ['='] _ (by
    intro c hcm; simp only [List.mem_append] at hcm
    rcases hcm with h | h
    · exact (hc c h).2.1
    · exact (hwl.noEqPlus c h).2)
  have e : f ++ wl ++ '+' :: '=' :: (wr ++ v) = (f ++ wl) ++ (['+', '='] ++ (wr ++ v)) := by simp
  have hfs := findSub_hit ['+', '='] (f ++ wl) (wr ++ v) (by simp) hd
  rw [← e] at hfs
  simp only [hfs]
  have ht : (f ++ wl ++ '+' :: '=' :: (wr ++ v)).take (f ++ wl).length = f ++ wl := by rw [e]; exact List.take_left
  have hdr : (f ++ wl ++ '+' :: '=' :: (wr ++ v)).drop ((f ++ wl).length + 2) = wr ++ v := by
    rw [e, ← List.drop_drop, List.drop_left]; rfl
  rw [ht, hdr]
  have t1 : trim (f ++ wl) = f := by
    have := trim_pad [] f wl Ws.nil hwl hf; simpa using this
  have t2 : trim (wr ++ v) = v := by
    have := trim_pad wr v [] hwr Ws.nil ⟨⟨vh, hvh, hvhw⟩, ⟨vl, hvl, hvlw⟩⟩; simpa using this
  rw [t1, t2]
  have := unmask_plain T f [] (fun c hcm => (hc c hcm).2.2)
  simp only [List.append_nil, unmask_nil] at this
  rw [this]

/-- **`field -= value` as the code classifies it**: there is no `-=` form — the statement is the assignment to the field text
`field -` (the `-` stays in the field name) -/
theorem parseAction_minus_assign (X : Ext) (T : List Str) (f wr v : Str) (hf : Edges f)
    (hc : ∀ c ∈ f, c ≠ '=' ∧ c ≠ '+' ∧ c ≠ mStart) (hwr : Ws wr) (hvE : Edges v) (hv : ∀ c ∈ v, c ≠ '=' ∧ c ≠ '+') :
    parseAction X T (f ++ ' ' :: '-' :: '=' :: (wr ++ v)) = .ok (.set (f ++ [' ', '-']) (parseValue X T v)) := by
  have := parseAction_assign X T (f ++ [' ', '-']) [] wr v
    (by
      obtain ⟨⟨c, hc1, hc2⟩, _⟩ := hf
      exact ⟨⟨c, head_append_some _ _ _ hc1, hc2⟩, ⟨'-', getLast_append_some _ _ _ rfl, by decide⟩⟩)
    (by
      intro c hcm; simp only [List.mem_append, List.mem_cons, List.mem_nil_iff, or_false] at hcm
      rcases hcm with h | rfl | rfl
      · exact hc c h
      · decide
      · decide)
    Ws.nil hwr hvE hv
  simpa using this

example : (match parseAction exX [] ("U.x -= 5".toList) with | .ok (.set f (.int 5)) => f | _ => []) = "U.x -".toList := by decide +kernel
example : parseAction exX [] ("U.x += 5".toList) = .ok (.append "U.x".toList (.int 5)) := by
  have := parseAction_append exX [] ['U', '.', 'x'] [' '] [' '] (intShow 5) (by decide +kernel) (by decide) (ws_dec _ rfl) (ws_dec _ rfl)
    (by decide +kernel)
  rw [parseValue_intShow exX [] 5 (by decide) (by decide)] at this
  have e : "U.x += 5".toList = ['U', '.', 'x'] ++ [' '] ++ '+' :: '=' :: ([' '] ++ intShow 5) := by decide +kernel
  have e2 : "U.x".toList = ['U', '.', 'x'] := by decide +kernel
  rw [e, e2]; exact this


/-! ### statements: the call forms -/

/-- what `parse_action_statement` does with `name(args)` once the binding pattern has matched (the dispatch on the lower-cased name) -/
def callDispatch (X : Ext) (T : List Str) (name args : Str) : Except Err Action :=
  let ln := lower name
  if ln == "retract".toList then .ok (.retract (unmask T (stripDollar args)))
  else if ln == "log".toList then
    .ok (.log (if args.isEmpty then "Log message".toList else valueShow X (parseValue X T args)))
  else if ln == "activateagendagroup".toList || ln == "activate_agenda_group".toList then
    if args.isEmpty then .error .parse else .ok (.activate (asName X (parseValue X T args)))
  else if ln == "schedulerule".toList || ln == "schedule_rule".toList then
    match splitCommaGo args [] with
    | [a, b] =>
      let name := asName X (parseValue X T (trim b))
      match parseValue X T (trim a) with
      | .int i => .ok (.schedule name (i % 18446744073709551616).toNat)
      | .num f => .ok (.schedule name (X.f64ToU64 f))
      | _ => .error .parse
    | _ => .error .parse
  else if ln == "completeworkflow".toList || ln == "complete_workflow".toList then
    if args.isEmpty then .error .parse else .ok (.complete (asName X (parseValue X T args)))
  else if ln == "setworkflowdata".toList || ln == "set_workflow_data".toList then
    let data := unmask T (trim args)
    match findSub ['='] data with
    | none => .error .parse
    | some p => .ok (.wfdata (trimQuotes (trim (data.take p))) (parseValue X T (trim (data.drop (p + 1)))))
  else
    .ok (.custom name (if args.isEmpty then [] else indexed ((splitCommaGo args []).map fun a => parseValue X T (trim a))))

theorem matchBindingAt_call (name args : Str) (hn : name ≠ []) (hw : ∀ c ∈ name, isWord c = true) (ha : trimStart args = args) :
    matchBindingAt (name ++ '(' :: (args ++ [')'])) = some (name, args) := by
  have t := takeWhile_stop isWord name '(' (args ++ [')']) hw (by decide)
  unfold matchBindingAt
  simp only [t.1, t.2]
  have hne : name.isEmpty = false := by cases name <;> simp at hn ⊢
  simp only [hne, Bool.false_eq_true, if_false, trimStart, List.dropWhile_cons, show isWs '(' = false from rfl]
  have hc : (args ++ [')']).contains ')' = true := by simp
  have hr : (((args ++ [')']).reverse.dropWhile (· != ')')).drop 1).reverse = args := by simp
  simp only [hc, if_true, hr]
  unfold trimStart at ha
  rw [ha]

/-- **`name(args)` statements**: a word, `(`, an argument text without `=` whose first character is not white space, `)` — the
binding pattern captures exactly the word and the argument text, and the statement is dispatched on the lower-cased word -/
theorem parseAction_call (X : Ext) (T : List Str) (name args : Str) (hn : name ≠ []) (hw : ∀ c ∈ name, isWord c = true)
    (ha : trimStart args = args) (he : ∀ c ∈ args, c ≠ '=') :
    parseAction X T (name ++ '(' :: (args ++ [')'])) = callDispatch X T name args := by
  obtain ⟨n0, ns, rfl⟩ : ∃ n0 ns, name = n0 :: ns := by cases name with | nil => exact absurd rfl hn | cons a b => exact ⟨a, b, rfl⟩
  have hE : Edges (n0 :: ns ++ '(' :: (args ++ [')'])) := by
    refine ⟨⟨n0, rfl, (isWord_props (hw n0 (by simp))).1⟩, ⟨')', ?_, by decide⟩⟩
    rw [show n0 :: ns ++ '(' :: (args ++ [')']) = (n0 :: ns ++ '(' :: args) ++ [')'] by simp]
    exact getLast_append_some _ _ _ rfl
  have hnoEq : '=' ∉ n0 :: ns ++ '(' :: (args ++ [')']) := by
    intro hm
    simp only [List.mem_append, List.mem_cons, List.mem_nil_iff, or_false] at hm
    rcases hm with (h | h) | h | h | h
    · have := hw '=' (List.mem_cons.mpr (Or.inl h)); revert this; decide
    · have := hw '=' (List.mem_cons.mpr (Or.inr h)); revert this; decide
    · revert h; decide
    · exact he _ h rfl
    · revert h; decide
  unfold parseAction
  simp only [trim_self hE]
  rw [findSub_absent ['+', '='] _ '=' (by simp) hnoEq, findSub_absent ['='] _ '=' (by simp) hnoEq]
  simp only
  rw [searchFrom_hit matchBindingAt _ (n0 :: ns, args) (by simp) (matchBindingAt_call (n0 :: ns) args hn hw ha)]
  rfl

theorem lits_kw : "retract".toList = ['r', 'e', 't', 'r', 'a', 'c', 't'] ∧ "log".toList = ['l', 'o', 'g']
    ∧ "activateagendagroup".toList = ['a', 'c', 't', 'i', 'v', 'a', 't', 'e', 'a', 'g', 'e', 'n', 'd', 'a', 'g', 'r', 'o', 'u', 'p']
    ∧ "activate_agenda_group".toList = ['a', 'c', 't', 'i', 'v', 'a', 't', 'e', '_', 'a', 'g', 'e', 'n', 'd', 'a', '_', 'g', 'r', 'o', 'u', 'p']
    ∧ "schedulerule".toList = ['s', 'c', 'h', 'e', 'd', 'u', 'l', 'e', 'r', 'u', 'l', 'e']
    ∧ "schedule_rule".toList = ['s', 'c', 'h', 'e', 'd', 'u', 'l', 'e', '_', 'r', 'u', 'l', 'e']
    ∧ "completeworkflow".toList = ['c', 'o', 'm', 'p', 'l', 'e', 't', 'e', 'w', 'o', 'r', 'k', 'f', 'l', 'o', 'w']
    ∧ "complete_workflow".toList = ['c', 'o', 'm', 'p', 'l', 'e', 't', 'e', '_', 'w', 'o', 'r', 'k', 'f', 'l', 'o', 'w']
    ∧ "setworkflowdata".toList = ['s', 'e', 't', 'w', 'o', 'r', 'k', 'f', 'l', 'o', 'w', 'd', 'a', 't', 'a']
    ∧ "set_workflow_data".toList = ['s', 'e', 't', '_', 'w', 'o', 'r', 'k', 'f', 'l', 'o', 'w', '_', 'd', 'a', 't', 'a'] := by
  decide +kernel

/-- the names `parse_action_statement` treats specially (compared after lower-casing) -/
def callKeywords : List Str :=
  ["retract", "log", "activateagendagroup", "activate_agenda_group", "schedulerule", "schedule_rule", "completeworkflow",
   "complete_workflow", "setworkflowdata", "set_workflow_data"].map String.toList

theorem callDispatch_log (X : Ext) (T : List Str) (name args : Str) (hl : lower name = ['l', 'o', 'g']) :
    callDispatch X T name args = .ok (.log (if args.isEmpty then "Log message".toList else valueShow X (parseValue X T args))) := by
  obtain ⟨k1, k2, _⟩ := lits_kw
  unfold callDispatch
  simp only [hl, k1, k2]
  rfl

theorem callDispatch_retract (X : Ext) (T : List Str) (name args : Str) (hl : lower name = ['r', 'e', 't', 'r', 'a', 'c', 't']) :
    callDispatch X T name args = .ok (.retract (unmask T (stripDollar args))) := by
  obtain ⟨k1, _⟩ := lits_kw
  unfold callDispatch
  simp only [hl, k1]
  rfl


theorem trimStart_edges {m : Str} (h : Edges m) : trimStart m = m := by
  obtain ⟨⟨c, hc, hcw⟩, _⟩ := h
  cases m with
  | nil => simp at hc
  | cons d ds => simp at hc; subst hc; simp [trimStart, List.dropWhile_cons, hcw]

theorem edges_ne_nil {m : Str} (h : Edges m) : m.isEmpty = false := edges_nonempty h

/-- **`Log(<literal>)`**: the message is the text of the literal's value (`Value::to_string`); for a string literal — ANY body —
that is the body -/
theorem parseAction_log (X : Ext) (name : Str) (hn : name ≠ []) (hw : ∀ c ∈ name, isWord c = true) (hl : lower name = ['l', 'o', 'g'])
    (l : Lit) (h : l.Ok X) (T pre post : List Str) (hT : T = pre ++ litsSegs l.segs ++ post) :
    parseAction X T (name ++ '(' :: (l.masked pre.length ++ [')'])) = .ok (.log (valueShow X l.val)) := by
  obtain ⟨hE, hP⟩ := l.masked_plain X h pre.length
  rw [parseAction_call X T name _ hn hw (trimStart_edges hE) (fun c hc => (hP c hc).2.2.1), callDispatch_log X T name _ hl,
    edges_ne_nil hE, l.parse X h T pre post hT]
  rfl

/-- **`Retract($Object)`** -/
theorem parseAction_retract (X : Ext) (T : List Str) (name : Str) (hn : name ≠ []) (hw : ∀ c ∈ name, isWord c = true)
    (hl : lower name = ['r', 'e', 't', 'r', 'a', 'c', 't']) (obj : Str) (ho : ∀ c ∈ obj, isWord c = true) :
    parseAction X T (name ++ '(' :: (('$' :: obj) ++ [')'])) = .ok (.retract obj) := by
  rw [parseAction_call X T name _ hn hw (by simp [trimStart, List.dropWhile_cons, isWs])
    (by
      intro c hc; simp only [List.mem_cons] at hc
      rcases hc with rfl | hc
      · decide
      · intro e; subst e; have := ho _ hc; revert this; decide),
    callDispatch_retract X T name _ hl]
  have := unmask_plain T obj [] (fun c hc => (isWord_props (ho c hc)).2.2.2.2.1)
  simp only [List.append_nil, unmask_nil] at this
  simp only [stripDollar, this]

/-- **`ScheduleRule(<integer>, "rule name")`: the delay is exactly `i as u64`** — for EVERY `i64` literal `i` the delay of the parsed
`ActionType::ScheduleRule` is `i mod 2^64` (a non-negative literal is itself, up to `i64::MAX`, with no detour through `f64`; a
negative one wraps as the cast does); the rule name is the literal's body, ARBITRARY -/
theorem parseAction_schedule_int (X : Ext) (name : Str) (hn : name ≠ []) (hw : ∀ c ∈ name, isWord c = true)
    (hl : lower name = ['s', 'c', 'h', 'e', 'd', 'u', 'l', 'e', 'r', 'u', 'l', 'e']
      ∨ lower name = ['s', 'c', 'h', 'e', 'd', 'u', 'l', 'e', '_', 'r', 'u', 'l', 'e'])
    (i : Int) (hlo : -9223372036854775808 ≤ i) (hhi : i ≤ 9223372036854775807) (q : Char) (b : Str) (hb : (Lit.str q b).Ok X)
    (T pre post : List Str) (hT : T = pre ++ litsSegs (Lit.str q b).segs ++ post) :
    parseAction X T (name ++ '(' :: ((intShow i ++ ',' :: ' ' :: (Lit.str q b).masked pre.length) ++ [')']))
      = .ok (.schedule b (i % 18446744073709551616).toNat) := by
  obtain ⟨hE, hP⟩ := (Lit.str q b).masked_plain X hb pre.length
  obtain ⟨hiE, hiP⟩ := (Lit.int i).masked_plain X ⟨hlo, hhi⟩ 0
  have ei : (Lit.int i).masked 0 = intShow i := by simp [Lit.masked, Lit.text, Lit.segs, renderSegs, Seg.render]
  rw [ei] at hiE hiP
  generalize hm : (Lit.str q b).masked pre.length = m at hE hP
  have hargs : ∀ c ∈ intShow i ++ ',' :: ' ' :: m, c ≠ '=' := by
    intro c hc; simp only [List.mem_append, List.mem_cons] at hc
    rcases hc with h | rfl | rfl | h
    · exact (hiP c h).2.2.1
    · decide
    · decide
    · exact (hP c h).2.2.1
  have hts : trimStart (intShow i ++ ',' :: ' ' :: m) = intShow i ++ ',' :: ' ' :: m := by
    obtain ⟨⟨c, hc, hcw⟩, _⟩ := hiE
    cases hi : intShow i with
    | nil => rw [hi] at hc; simp at hc
    | cons d ds => rw [hi] at hc; simp at hc; subst hc; simp [trimStart, List.dropWhile_cons, hcw]
  have hsplit : splitCommaGo (intShow i ++ ',' :: ' ' :: m) [] = [intShow i, ' ' :: m] := by
    have := splitCommaGo_join (intShow i) [' ' :: m] (by
      intro y hy c hc; simp only [List.mem_cons, List.mem_nil_iff, or_false] at hy
      rcases hy with rfl | rfl
      · exact (hiP c hc).2.2.2.2.1
      · simp only [List.mem_cons] at hc
        rcases hc with rfl | hc
        · decide
        · exact (hP c hc).2.2.2.2.1)
    simpa [joinComma] using this
  have t1 : trim (intShow i) = intShow i := trim_self hiE
  have t2 : trim (' ' :: m) = m := by
    have := trim_pad [' '] m [] (ws_dec _ rfl) Ws.nil hE; simpa using this
  have hv : parseValue X T m = .str b := by rw [← hm]; exact (Lit.str q b).parse X hb T pre post hT
  rw [parseAction_call X T name _ hn hw hts hargs]
  obtain ⟨k1, k2, k3, k4, k5, k6, _⟩ := lits_kw
  unfold callDispatch
  rcases hl with hl | hl <;>
    simp +decide only [hl, k1, k2, k3, k4, k5, k6, hsplit, t1, t2, hv, parseValue_intShow X T i hlo hhi, asName, if_false, if_true]


/-- **`ActivateAgendaGroup(<literal>)`**: the group is the literal's text — for a string literal its body, ARBITRARY -/
theorem parseAction_activate (X : Ext) (name : Str) (hn : name ≠ []) (hw : ∀ c ∈ name, isWord c = true)
    (hl : lower name = ['a', 'c', 't', 'i', 'v', 'a', 't', 'e', 'a', 'g', 'e', 'n', 'd', 'a', 'g', 'r', 'o', 'u', 'p']
      ∨ lower name = ['a', 'c', 't', 'i', 'v', 'a', 't', 'e', '_', 'a', 'g', 'e', 'n', 'd', 'a', '_', 'g', 'r', 'o', 'u', 'p'])
    (l : Lit) (h : l.Ok X) (T pre post : List Str) (hT : T = pre ++ litsSegs l.segs ++ post) :
    parseAction X T (name ++ '(' :: (l.masked pre.length ++ [')'])) = .ok (.activate (asName X l.val)) := by
  obtain ⟨hE, hP⟩ := l.masked_plain X h pre.length
  rw [parseAction_call X T name _ hn hw (trimStart_edges hE) (fun c hc => (hP c hc).2.2.1)]
  obtain ⟨k1, k2, k3, k4, _⟩ := lits_kw
  unfold callDispatch
  rcases hl with hl | hl <;>
    simp +decide only [hl, k1, k2, k3, k4, edges_ne_nil hE, l.parse X h T pre post hT, if_false, if_true, Bool.false_eq_true]

/-- **`CompleteWorkflow(<literal>)`** -/
theorem parseAction_complete (X : Ext) (name : Str) (hn : name ≠ []) (hw : ∀ c ∈ name, isWord c = true)
    (hl : lower name = ['c', 'o', 'm', 'p', 'l', 'e', 't', 'e', 'w', 'o', 'r', 'k', 'f', 'l', 'o', 'w']
      ∨ lower name = ['c', 'o', 'm', 'p', 'l', 'e', 't', 'e', '_', 'w', 'o', 'r', 'k', 'f', 'l', 'o', 'w'])
    (l : Lit) (h : l.Ok X) (T pre post : List Str) (hT : T = pre ++ litsSegs l.segs ++ post) :
    parseAction X T (name ++ '(' :: (l.masked pre.length ++ [')'])) = .ok (.complete (asName X l.val)) := by
  obtain ⟨hE, hP⟩ := l.masked_plain X h pre.length
  rw [parseAction_call X T name _ hn hw (trimStart_edges hE) (fun c hc => (hP c hc).2.2.1)]
  obtain ⟨k1, k2, k3, k4, k5, k6, k7, k8, _⟩ := lits_kw
  unfold callDispatch
  rcases hl with hl | hl <;>
    simp +decide only [hl, k1, k2, k3, k4, k5, k6, k7, k8, edges_ne_nil hE, l.parse X h T pre post hT, if_false, if_true,
      Bool.false_eq_true]

/-- **a function-call statement `f(args)`** whose name is none of the special ones: `ActionType::Custom` with the name as written
and one positional parameter per comma-separated piece, each read by `parse_value` -/
theorem parseAction_custom (X : Ext) (T : List Str) (name args : Str) (hn : name ≠ []) (hw : ∀ c ∈ name, isWord c = true)
    (hk : lower name ∉ callKeywords) (ha : trimStart args = args) (he : ∀ c ∈ args, c ≠ '=') :
    parseAction X T (name ++ '(' :: (args ++ [')']))
      = .ok (.custom name (if args.isEmpty then [] else indexed ((splitCommaGo args []).map fun a => parseValue X T (trim a)))) := by
  rw [parseAction_call X T name args hn hw ha he]
  unfold callDispatch
  have hk' : ∀ k ∈ callKeywords, (lower name == k) = false := by
    intro k hkm
    cases hb : lower name == k with
    | false => rfl
    | true => exact absurd (by rw [beq_iff_eq.mp hb]; exact hkm) hk
  simp only [callKeywords, List.map_cons, List.map_nil, List.mem_cons, List.mem_nil_iff, or_false, forall_eq_or_imp, forall_eq] at hk'
  obtain ⟨h1, h2, h3, h4, h5, h6, h7, h8, h9, h10⟩ := hk'
  simp only [h1, h2, h3, h4, h5, h6, h7, h8, h9, h10, Bool.or_self, Bool.false_eq_true, if_false]

/-- **open finding `setworkflowdata-value-keeps-quote`**: the documented `SetWorkflowData("key=value")` — what is produced is the key
`key` and the value `String("value\"")` (the closing quote stays in the value) -/
theorem parseAction_wfdata_finding :
    (match parseAction exX (lits "SetWorkflowData(\"key=value\")".toList) (mask "SetWorkflowData(\"key=value\")".toList) with
      | .ok (.wfdata k (.str v)) => (k, v) | _ => ([], [])) = ("key".toList, "value\"".toList) := by decide +kernel

/-- **open finding `methodcall-object-dropped`**: `$Car.setSpeed(5)` is `Custom{"setSpeed", 0 ↦ 5}` — the method-call pattern (which
starts with `\$`) never fires and the binding pattern finds `setSpeed(5)`: the object is lost -/
theorem parseAction_methodcall_finding :
    (match parseAction exX [] "$Car.setSpeed(5)".toList with
      | .ok (.custom n [(k, .int 5)]) => (n, k) | _ => ([], [])) = ("setSpeed".toList, "0".toList) := by decide +kernel

/-- `not_contains` (the text of `Operator::NotContains`) is not an operator of the condition pattern: such a leaf is a parse error -/
theorem parseSingleCondition_not_contains_error :
    (match parseSingleCondition exX (lits "U.tags not_contains \"x\"".toList) (mask "U.tags not_contains \"x\"".toList) with
      | .error .parse => true | _ => false) = true := by decide +kernel

/-! ### the core grammar: leaves and statements as written -/

/-- a comparison leaf `Object.field OP <literal>` -/
structure CLeaf where
  a : Str
  b : Str
  o : Op
  sym : Str
  v : Lit

def CLeaf.segs (x : CLeaf) : List Seg := .code (x.a ++ '.' :: (x.b ++ ' ' :: (x.sym ++ [' ']))) :: x.v.segs
/-- the leaf as written -/
def CLeaf.text (x : CLeaf) : Str := renderSegs x.segs
/-- the documented meaning -/
def CLeaf.cond (x : CLeaf) : Condition := ⟨.field (x.a ++ '.' :: x.b), x.o, x.v.val⟩

structure CLeaf.Ok (X : Ext) (x : CLeaf) : Prop where
  a : Ident x.a
  b : Ident x.b
  o : opText x.o = some x.sym
  v : x.v.Ok X

theorem CLeaf.segs_ok (X : Ext) (x : CLeaf) (h : x.Ok X) : ∀ s ∈ x.segs, s.Ok := by
  intro s hs
  simp only [CLeaf.segs, List.mem_cons] at hs
  rcases hs with rfl | hs
  · have : ∀ c ∈ x.a ++ '.' :: (x.b ++ ' ' :: (x.sym ++ [' '])), c ≠ '"' ∧ c ≠ '\'' ∧ c ≠ mStart := by
      intro c hc
      simp only [List.mem_append, List.mem_cons, List.mem_nil_iff, or_false] at hc
      rcases hc with hc | rfl | hc | rfl | hc | rfl
      · exact ⟨(isWord_quoteFree h.a.word c hc).1, (isWord_quoteFree h.a.word c hc).2, (isWord_props (h.a.word c hc)).2.2.2.2.1⟩
      · decide
      · exact ⟨(isWord_quoteFree h.b.word c hc).1, (isWord_quoteFree h.b.word c hc).2, (isWord_props (h.b.word c hc)).2.2.2.2.1⟩
      · decide
      · have := opText_chars x.o x.sym h.o c hc; exact ⟨this.2.2.1, this.2.2.2.1, this.2.2.2.2.1⟩
      · decide
    exact ⟨fun c hc => ⟨(this c hc).1, (this c hc).2.1⟩, fun c hc => (this c hc).2.2⟩
  · exact x.v.segs_ok X h.v s hs

theorem CLeaf.lits_eq (x : CLeaf) : litsSegs x.segs = litsSegs x.v.segs := by simp [CLeaf.segs, litsSegs, Seg.lits]

theorem CLeaf.masked_eq (x : CLeaf) (n : Nat) : maskedSegsAt n x.segs = cmpText x.a x.b x.sym (x.v.masked n) := by
  simp [CLeaf.segs, maskedSegsAt, Seg.maskedAt, Seg.lits, Lit.masked_eq, cmpText]

/-- **a core leaf round-trips**: masked at its table offset, `parse_single_condition` returns the documented comparison -/
theorem CLeaf.parse (X : Ext) (x : CLeaf) (h : x.Ok X) (T pre post : List Str) (hT : T = pre ++ litsSegs x.segs ++ post) :
    parseSingleCondition X T (maskedSegsAt pre.length x.segs) = .ok x.cond := by
  obtain ⟨hE, hP⟩ := x.v.masked_plain X h.v pre.length
  rw [x.masked_eq, parseSingleCondition_cmp X T x.a x.b h.a h.b x.o x.sym h.o _ hE (fun c hc => (hP c hc).1),
    x.v.parse X h.v T pre post (by rw [hT, x.lits_eq])]
  rfl

/-- a statement of the core grammar -/
inductive CStmt where
  | set (f : Str) (v : Lit)
  | append (f : Str) (v : Lit)
  | log (v : Lit)
  | retract (obj : Str)
  | schedule (i : Int) (q : Char) (name : Str)
  | activate (v : Lit)

def CStmt.segs : CStmt → List Seg
  | .set f v => .code (f ++ [' ', '=', ' ']) :: v.segs
  | .append f v => .code (f ++ [' ', '+', '=', ' ']) :: v.segs
  | .log v => .code ['L', 'o', 'g', '('] :: v.segs ++ [.code [')']]
  | .retract o => [.code (['R', 'e', 't', 'r', 'a', 'c', 't', '(', '$'] ++ o ++ [')'])]
  | .schedule i q n => .code (['S', 'c', 'h', 'e', 'd', 'u', 'l', 'e', 'R', 'u', 'l', 'e', '('] ++ intShow i ++ [',', ' ']) :: (Lit.str q n).segs ++ [.code [')']]
  | .activate v => .code ['A', 'c', 't', 'i', 'v', 'a', 't', 'e', 'A', 'g', 'e', 'n', 'd', 'a', 'G', 'r', 'o', 'u', 'p', '('] :: v.segs ++ [.code [')']]

def CStmt.text (x : CStmt) : Str := renderSegs x.segs

/-- the documented meaning -/
def CStmt.action (X : Ext) : CStmt → Action
  | .set f v => .set f v.val
  | .append f v => .append f v.val
  | .log v => .log (valueShow X v.val)
  | .retract o => .retract o
  | .schedule i _ n => .schedule n (i % 18446744073709551616).toNat
  | .activate v => .activate (asName X v.val)

/-- a field text: trimmed, none of `=` `+` `"` `'` and no placeholder delimiter -/
def FieldOk (f : Str) : Prop := Edges f ∧ ∀ c ∈ f, c ≠ '=' ∧ c ≠ '+' ∧ c ≠ mStart ∧ c ≠ '"' ∧ c ≠ '\''

def CStmt.Ok (X : Ext) : CStmt → Prop
  | .set f v => FieldOk f ∧ v.Ok X
  | .append f v => FieldOk f ∧ v.Ok X
  | .log v => v.Ok X
  | .retract o => ∀ c ∈ o, isWord c = true
  | .schedule i q n => (-9223372036854775808 ≤ i ∧ i ≤ 9223372036854775807) ∧ (Lit.str q n).Ok X
  | .activate v => v.Ok X

theorem seg_code_ok (s : Str) (h : ∀ c ∈ s, c ≠ '"' ∧ c ≠ '\'' ∧ c ≠ mStart) : (Seg.code s).Ok :=
  ⟨fun c hc => ⟨(h c hc).1, (h c hc).2.1⟩, fun c hc => (h c hc).2.2⟩

theorem intShow_code (i : Int) : ∀ c ∈ intShow i, c ≠ '"' ∧ c ≠ '\'' ∧ c ≠ mStart := by
  intro c hc
  refine ⟨(intShow_quoteFree i c hc).1, (intShow_quoteFree i c hc).2, ?_⟩
  rcases intShow_chars i c hc with h | h
  · exact (isDigit_ne h).2.2.2
  · subst h; decide

theorem CStmt.segs_ok (X : Ext) (x : CStmt) (h : x.Ok X) : ∀ s ∈ x.segs, s.Ok := by
  intro s hs
  cases x with
  | set f v =>
    simp only [CStmt.segs, List.mem_cons] at hs
    rcases hs with rfl | hs
    · apply seg_code_ok; intro c hc
      simp only [List.mem_append, List.mem_cons, List.mem_nil_iff, or_false] at hc
      rcases hc with hc | rfl | rfl | rfl
      · exact ⟨(h.1.2 c hc).2.2.2.1, (h.1.2 c hc).2.2.2.2, (h.1.2 c hc).2.2.1⟩
      all_goals decide
    · exact v.segs_ok X h.2 s hs
  | append f v =>
    simp only [CStmt.segs, List.mem_cons] at hs
    rcases hs with rfl | hs
    · apply seg_code_ok; intro c hc
      simp only [List.mem_append, List.mem_cons, List.mem_nil_iff, or_false] at hc
      rcases hc with hc | rfl | rfl | rfl | rfl
      · exact ⟨(h.1.2 c hc).2.2.2.1, (h.1.2 c hc).2.2.2.2, (h.1.2 c hc).2.2.1⟩
      all_goals decide
    · exact v.segs_ok X h.2 s hs
  | log v =>
    simp only [CStmt.segs, List.mem_cons, List.mem_append, List.mem_nil_iff, or_false] at hs
    rcases hs with (rfl | hs) | rfl
    · exact seg_code_ok _ (by decide)
    · exact v.segs_ok X h s hs
    · exact seg_code_ok _ (by decide)
  | retract o =>
    simp only [CStmt.segs, List.mem_cons, List.mem_nil_iff, or_false] at hs
    subst hs
    apply seg_code_ok; intro c hc
    simp only [List.mem_append] at hc
    rcases hc with (hc | hc) | hc
    · revert c; decide
    · exact ⟨(isWord_quoteFree h c hc).1, (isWord_quoteFree h c hc).2, (isWord_props (h c hc)).2.2.2.2.1⟩
    · revert c; decide
  | schedule i q n =>
    simp only [CStmt.segs, List.mem_cons, List.mem_append, List.mem_nil_iff, or_false] at hs
    rcases hs with (rfl | hs) | rfl
    · apply seg_code_ok; intro c hc
      simp only [List.mem_append] at hc
      rcases hc with (hc | hc) | hc
      · revert c; decide
      · exact intShow_code i c hc
      · revert c; decide
    · exact (Lit.str q n).segs_ok X h.2 s hs
    · exact seg_code_ok _ (by decide)
  | activate v =>
    simp only [CStmt.segs, List.mem_cons, List.mem_append, List.mem_nil_iff, or_false] at hs
    rcases hs with (rfl | hs) | rfl
    · exact seg_code_ok _ (by decide)
    · exact v.segs_ok X h s hs
    · exact seg_code_ok _ (by decide)

theorem maskedSegsAt_code_cons (n : Nat) (s : Str) (l : List Seg) : maskedSegsAt n (.code s :: l) = s ++ maskedSegsAt n l := by
  simp [maskedSegsAt, Seg.maskedAt, Seg.lits]

theorem maskedSegsAt_snoc_code (n : Nat) (l : List Seg) (s : Str) : maskedSegsAt n (l ++ [.code s]) = maskedSegsAt n l ++ s := by
  rw [maskedSegsAt_append]; simp [maskedSegsAt, Seg.maskedAt]

theorem litsSegs_code_cons (s : Str) (l : List Seg) : litsSegs (.code s :: l) = litsSegs l := by simp [litsSegs, Seg.lits]
theorem litsSegs_snoc_code (l : List Seg) (s : Str) : litsSegs (l ++ [.code s]) = litsSegs l := by simp [litsSegs, Seg.lits]

/-- **a core statement round-trips**: masked at its table offset, `parse_action_statement` returns the documented action -/
theorem CStmt.parse (X : Ext) (x : CStmt) (h : x.Ok X) (T pre post : List Str) (hT : T = pre ++ litsSegs x.segs ++ post) :
    parseAction X T (maskedSegsAt pre.length x.segs) = .ok (x.action X) := by
  cases x with
  | set f v =>
    obtain ⟨hE, hP⟩ := v.masked_plain X h.2 pre.length
    simp only [CStmt.segs, litsSegs_code_cons] at hT
    have := parseAction_assign X T f [' '] [' '] (v.masked pre.length) h.1.1
      (fun c hc => ⟨(h.1.2 c hc).1, (h.1.2 c hc).2.1, (h.1.2 c hc).2.2.1⟩) (ws_dec _ rfl) (ws_dec _ rfl) hE
      (fun c hc => ⟨(hP c hc).2.2.1, (hP c hc).2.2.2.1⟩)
    rw [v.parse X h.2 T pre post hT] at this
    simp only [CStmt.segs, maskedSegsAt_code_cons, Lit.masked_eq, CStmt.action]
    simpa using this
  | append f v =>
    obtain ⟨hE, hP⟩ := v.masked_plain X h.2 pre.length
    simp only [CStmt.segs, litsSegs_code_cons] at hT
    have := parseAction_append X T f [' '] [' '] (v.masked pre.length) h.1.1
      (fun c hc => ⟨(h.1.2 c hc).1, (h.1.2 c hc).2.1, (h.1.2 c hc).2.2.1⟩) (ws_dec _ rfl) (ws_dec _ rfl) hE
    rw [v.parse X h.2 T pre post hT] at this
    simp only [CStmt.segs, maskedSegsAt_code_cons, Lit.masked_eq, CStmt.action]
    simpa using this
  | log v =>
    simp only [CStmt.segs, litsSegs_code_cons, litsSegs_snoc_code] at hT
    have := parseAction_log X ['L', 'o', 'g'] (by simp) (by decide) (by decide) v h T pre post hT
    simp only [CStmt.segs, maskedSegsAt_code_cons, maskedSegsAt_snoc_code, Lit.masked_eq, CStmt.action]
    simpa using this
  | retract o =>
    have := parseAction_retract X T ['R', 'e', 't', 'r', 'a', 'c', 't'] (by simp) (by decide) (by decide) o h
    simp only [CStmt.segs, maskedSegsAt_code_cons, maskedSegsAt, CStmt.action]
    simpa using this
  | schedule i q n =>
    simp only [CStmt.segs, litsSegs_code_cons, litsSegs_snoc_code] at hT
    have := parseAction_schedule_int X ['S', 'c', 'h', 'e', 'd', 'u', 'l', 'e', 'R', 'u', 'l', 'e'] (by simp) (by decide)
      (Or.inl (by decide)) i h.1.1 h.1.2 q n h.2 T pre post hT
    simp only [CStmt.segs, maskedSegsAt_code_cons, maskedSegsAt_snoc_code, Lit.masked_eq, CStmt.action]
    simpa using this
  | activate v =>
    simp only [CStmt.segs, litsSegs_code_cons, litsSegs_snoc_code] at hT
    have := parseAction_activate X ['A', 'c', 't', 'i', 'v', 'a', 't', 'e', 'A', 'g', 'e', 'n', 'd', 'a', 'G', 'r', 'o', 'u', 'p']
      (by simp) (by decide) (Or.inl (by decide)) v h T pre post hT
    simp only [CStmt.segs, maskedSegsAt_code_cons, maskedSegsAt_snoc_code, Lit.masked_eq, CStmt.action]
    simpa using this

end C04
