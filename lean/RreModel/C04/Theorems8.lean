import RreModel.C04.Theorems7
/-
C04 — property theorems, part 8: THE CORE GRAMMAR END TO END.  `parseRules_render_core`: for files whose leaves are comparisons
`Object.field OP <literal>` (eleven operators; integers, strings with ARBITRARY bodies, booleans, `null`, floats, dotted
references) and whose statements are `field = <literal>`, `field += <literal>`, `Log(<literal>)`, `Retract($Object)`,
`ScheduleRule(<i64>, "name")`, `ActivateAgendaGroup(<literal>)`, `GRLParser::parse_rules` returns exactly the DOCUMENTED rules:
the expected result (`ruleDoc`) is computed from the source alone — no masked text, no table offset and no leaf parser occurs in it.
-/
namespace C04

theorem LT.cnt_leaves (t : LT) (h : t.WFo) : t.cnt = (t.leaves.flatMap lits).length := by
  unfold LT.cnt; rw [LT.lits_render t h]

/-- what a function computes on the masked leaves (each at its offset, the table holding its literals there) carries over to the
masked tree -/
theorem LT.sem_map_leaves {α : Type} (t : LT) (h : t.WFo) (T : List Str) (G D : Str → α)
    (hleaf : ∀ s ∈ t.leaves, ∀ pre post, T = pre ++ lits s ++ post → G (maskGo s none pre.length) = D s)
    (pre post : List Str) (hT : T = pre ++ t.leaves.flatMap lits ++ post) :
    (t.maskAt pre.length).sem.map G = t.sem.map D := by
  induction t generalizing pre post with
  | leaf s =>
    simp only [LT.maskAt, LT.sem, Cond.map]
    rw [hleaf s (by simp [LT.leaves]) pre post (by simpa [LT.leaves] using hT)]
  | paren wl wr t ih => exact ih h.2.2 hleaf pre post hT
  | not w t ih =>
    simp only [LT.maskAt, LT.sem, Cond.map]
    rw [ih h.2.2 hleaf pre post hT]
  | ex wl wr t ih =>
    simp only [LT.maskAt, LT.sem, Cond.map]
    rw [ih h.2.2 hleaf pre post hT]
  | fa wl wr t ih =>
    simp only [LT.maskAt, LT.sem, Cond.map]
    rw [ih h.2.2 hleaf pre post hT]
  | or l wl wr r ihl ihr =>
    obtain ⟨h1, h2, h3, h4, _⟩ := h
    have hl : (LT.or l wl wr r).leaves = l.leaves ++ r.leaves := rfl
    rw [hl, List.flatMap_append] at hT
    simp only [LT.maskAt, LT.sem, Cond.map]
    rw [ihl h3 (fun s hs => hleaf s (by simp [LT.leaves, hs])) pre (r.leaves.flatMap lits ++ post) (by rw [hT]; simp [List.append_assoc])]
    have := ihr h4 (fun s hs => hleaf s (by simp [LT.leaves, hs])) (pre ++ l.leaves.flatMap lits) post (by rw [hT]; simp [List.append_assoc])
    simp only [List.length_append] at this
    rw [LT.cnt_leaves l h3, this]
  | and l wl wr r ihl ihr =>
    obtain ⟨h1, h2, h3, h4, _⟩ := h
    have hl : (LT.and l wl wr r).leaves = l.leaves ++ r.leaves := rfl
    rw [hl, List.flatMap_append] at hT
    simp only [LT.maskAt, LT.sem, Cond.map]
    rw [ihl h3 (fun s hs => hleaf s (by simp [LT.leaves, hs])) pre (r.leaves.flatMap lits ++ post) (by rw [hT]; simp [List.append_assoc])]
    have := ihr h4 (fun s hs => hleaf s (by simp [LT.leaves, hs])) (pre ++ l.leaves.flatMap lits) post (by rw [hT]; simp [List.append_assoc])
    simp only [List.length_append] at this
    rw [LT.cnt_leaves l h3, this]

theorem LT.leaves_masked (t : LT) (h : t.WFo) (T : List Str) (P : Str → Prop)
    (hleaf : ∀ s ∈ t.leaves, ∀ pre post, T = pre ++ lits s ++ post → P (maskGo s none pre.length))
    (pre post : List Str) (hT : T = pre ++ t.leaves.flatMap lits ++ post) :
    ∀ s ∈ (t.maskAt pre.length).leaves, P s := by
  induction t generalizing pre post with
  | leaf s =>
    intro x hx
    simp only [LT.maskAt, LT.leaves, List.mem_cons, List.mem_nil_iff, or_false] at hx
    subst hx
    exact hleaf s (by simp [LT.leaves]) pre post (by simpa [LT.leaves] using hT)
  | paren wl wr t ih => exact ih h.2.2 hleaf pre post hT
  | not w t ih => exact ih h.2.2 hleaf pre post hT
  | ex wl wr t ih => exact ih h.2.2 hleaf pre post hT
  | fa wl wr t ih => exact ih h.2.2 hleaf pre post hT
  | or l wl wr r ihl ihr =>
    obtain ⟨h1, h2, h3, h4, _⟩ := h
    have hl : (LT.or l wl wr r).leaves = l.leaves ++ r.leaves := rfl
    rw [hl, List.flatMap_append] at hT
    have i1 := ihl h3 (fun s hs => hleaf s (by simp [LT.leaves, hs])) pre (r.leaves.flatMap lits ++ post) (by rw [hT]; simp [List.append_assoc])
    have i2 := ihr h4 (fun s hs => hleaf s (by simp [LT.leaves, hs])) (pre ++ l.leaves.flatMap lits) post (by rw [hT]; simp [List.append_assoc])
    simp only [List.length_append] at i2
    intro x hx
    simp only [LT.maskAt, LT.leaves, List.mem_append] at hx
    rcases hx with hx | hx
    · exact i1 x hx
    · rw [LT.cnt_leaves l h3] at hx; exact i2 x hx
  | and l wl wr r ihl ihr =>
    obtain ⟨h1, h2, h3, h4, _⟩ := h
    have hl : (LT.and l wl wr r).leaves = l.leaves ++ r.leaves := rfl
    rw [hl, List.flatMap_append] at hT
    have i1 := ihl h3 (fun s hs => hleaf s (by simp [LT.leaves, hs])) pre (r.leaves.flatMap lits ++ post) (by rw [hT]; simp [List.append_assoc])
    have i2 := ihr h4 (fun s hs => hleaf s (by simp [LT.leaves, hs])) (pre ++ l.leaves.flatMap lits) post (by rw [hT]; simp [List.append_assoc])
    simp only [List.length_append] at i2
    intro x hx
    simp only [LT.maskAt, LT.leaves, List.mem_append] at hx
    rcases hx with hx | hx
    · exact i1 x hx
    · rw [LT.cnt_leaves l h3] at hx; exact i2 x hx

theorem maskStmtsAt_map {β : Type} (xs : List (Str × Str × Str)) (T : List Str) (G D : Str → β)
    (h : ∀ x ∈ xs, ∀ pre post, T = pre ++ lits x.2.1 ++ post → G (maskGo x.2.1 none pre.length) = D x.2.1)
    (pre post : List Str) (hT : T = pre ++ (xs.flatMap fun x => lits x.2.1) ++ post) :
    (maskStmtsAt pre.length xs).map (fun x => G x.2.1) = xs.map (fun x => D x.2.1) := by
  induction xs generalizing pre with
  | nil => rfl
  | cons x xs ih =>
    obtain ⟨a, s, b⟩ := x
    have h0 := h (a, s, b) (by simp) pre ((xs.flatMap fun x => lits x.2.1) ++ post) (by rw [hT]; simp [List.append_assoc])
    have := ih (fun y hy => h y (by simp [hy])) (pre ++ lits s) (by rw [hT]; simp [List.append_assoc])
    simp only [List.length_append] at this
    simp only [maskStmtsAt, List.map_cons]
    rw [this]
    simp only at h0
    rw [h0]

theorem maskStmtsAt_all (xs : List (Str × Str × Str)) (T : List Str) (P : Str → Prop)
    (h : ∀ x ∈ xs, ∀ pre post, T = pre ++ lits x.2.1 ++ post → P (maskGo x.2.1 none pre.length))
    (pre post : List Str) (hT : T = pre ++ (xs.flatMap fun x => lits x.2.1) ++ post) :
    ∀ y ∈ maskStmtsAt pre.length xs, P y.2.1 := by
  induction xs generalizing pre with
  | nil => intro y hy; simp [maskStmtsAt] at hy
  | cons x xs ih =>
    obtain ⟨a, s, b⟩ := x
    have h0 := h (a, s, b) (by simp) pre ((xs.flatMap fun x => lits x.2.1) ++ post) (by rw [hT]; simp [List.append_assoc])
    have := ih (fun y hy => h y (by simp [hy])) (pre ++ lits s) (by rw [hT]; simp [List.append_assoc])
    simp only [List.length_append] at this
    intro y hy
    simp only [maskStmtsAt, List.mem_cons] at hy
    rcases hy with rfl | hy
    · exact h0
    · exact this y hy

/-! ### the documented rule, computed from the source alone -/

/-- the rule a `RuleSrc` denotes, given the documented meaning of its leaf texts (`D`) and statement texts (`E`) AS WRITTEN -/
def ruleDoc (X : Ext) (r : RuleSrc) (D : Str → Condition) (E : Str → Action) : Except Err Rule :=
  (expectedAttrs X r.attrs).map fun ats =>
    { name := r.name, salience := firstSal r.attrs, noLoop := ats.noLoop, lockOnActive := ats.lockOnActive,
      agendaGroup := ats.agendaGroup, activationGroup := ats.activationGroup,
      dateEffective := ats.dateEffective, dateExpires := ats.dateExpires,
      cond := r.cond.sem.map D, actions := r.stmts.map fun x => E x.2.1 }

/-- every leaf is a core comparison, every statement a core statement; `D` / `E` give them their documented meaning -/
structure CoreGrammar (X : Ext) (D : Str → Condition) (E : Str → Action) (r : RuleSrc) : Prop where
  leaves : ∀ s ∈ r.cond.leaves, ∃ y : CLeaf, y.Ok X ∧ s = y.text ∧ D s = y.cond
  stmts : ∀ st ∈ r.stmts, ∃ y : CStmt, y.Ok X ∧ st.2.1 = y.text ∧ E st.2.1 = y.action X

theorem ruleOf_core (X : Ext) (r : RuleSrc) (h : r.Ok) (D : Str → Condition) (E : Str → Action) (hg : CoreGrammar X D E r)
    (T P Q : List Str) (hT : T = P ++ r.lits ++ Q) :
    ruleOf X r P.length (gcOf X T) (gaOf X T) = ruleDoc X r D E
    ∧ (∀ s ∈ (r.cond.maskAt (r.nC P.length)).leaves, parseSingleCondition X T s = .ok (gcOf X T s))
    ∧ (∀ y ∈ maskStmtsAt (r.nS P.length) r.stmts, parseAction X T y.2.1 = .ok (gaOf X T y.2.1)) := by
  have hlr := LT.lits_render r.cond h.cond
  -- the table around the condition and around the statements
  have hTc : T = (P ++ r.nameLits ++ litsAttrs r.attrs) ++ r.cond.leaves.flatMap lits ++ ((r.stmts.flatMap fun x => lits x.2.1) ++ Q) := by
    rw [hT, RuleSrc.lits, hlr]; simp [List.append_assoc]
  have hTs : T = (P ++ r.nameLits ++ litsAttrs r.attrs ++ r.cond.leaves.flatMap lits) ++ (r.stmts.flatMap fun x => lits x.2.1) ++ Q := by
    rw [hT, RuleSrc.lits, hlr]; simp [List.append_assoc]
  have hnC : (P ++ r.nameLits ++ litsAttrs r.attrs).length = r.nC P.length := by
    simp only [RuleSrc.nC, RuleSrc.nA, List.length_append]
  have hnS : (P ++ r.nameLits ++ litsAttrs r.attrs ++ r.cond.leaves.flatMap lits).length = r.nS P.length := by
    simp only [RuleSrc.nS, RuleSrc.nC, RuleSrc.nA, List.length_append, LT.cnt_leaves r.cond h.cond]
  -- every leaf, masked at its offset
  have leaf : ∀ s ∈ r.cond.leaves, ∀ pre post, T = pre ++ lits s ++ post →
      parseSingleCondition X T (maskGo s none pre.length) = .ok (D s) := by
    intro s hs pre post hTl
    obtain ⟨y, hy, rfl, hD⟩ := hg.leaves s hs
    obtain ⟨_, m, lt⟩ := renderSegs_closed y.segs (y.segs_ok X hy)
    rw [hD]
    unfold CLeaf.text at hTl ⊢
    rw [m]
    exact y.parse X hy T pre post (by rw [hTl, lt])
  have stmt : ∀ x ∈ r.stmts, ∀ pre post, T = pre ++ lits x.2.1 ++ post →
      parseAction X T (maskGo x.2.1 none pre.length) = .ok (E x.2.1) := by
    intro x hx pre post hTl
    obtain ⟨y, hy, he, hE⟩ := hg.stmts x hx
    obtain ⟨_, m, lt⟩ := renderSegs_closed y.segs (y.segs_ok X hy)
    rw [hE, he]
    rw [he] at hTl
    unfold CStmt.text at hTl ⊢
    rw [m]
    exact y.parse X hy T pre post (by rw [hTl, lt])
  refine ⟨?_, ?_, ?_⟩
  · unfold ruleOf ruleDoc
    have e1 := LT.sem_map_leaves r.cond h.cond T (gcOf X T) D
      (fun s hs pre post hTl => gcOf_eq X T _ _ (leaf s hs pre post hTl)) _ _ hTc
    have e2 := maskStmtsAt_map r.stmts T (gaOf X T) E
      (fun x hx pre post hTl => gaOf_eq X T _ _ (stmt x hx pre post hTl)) _ _ hTs
    rw [hnC] at e1; rw [hnS] at e2
    rw [e1, e2]
  · have := LT.leaves_masked r.cond h.cond T (fun s => parseSingleCondition X T s = .ok (gcOf X T s))
      (fun s hs pre post hTl => by
        show parseSingleCondition X T _ = .ok (gcOf X T _)
        rw [gcOf_eq X T _ _ (leaf s hs pre post hTl)]; exact leaf s hs pre post hTl) _ _ hTc
    rw [hnC] at this; exact this
  · have := maskStmtsAt_all r.stmts T (fun s => parseAction X T s = .ok (gaOf X T s))
      (fun x hx pre post hTl => by
        show parseAction X T _ = .ok (gaOf X T _)
        rw [gaOf_eq X T _ _ (stmt x hx pre post hTl)]; exact stmt x hx pre post hTl) _ _ hTs
    rw [hnS] at this; exact this

/-- **the leaf parsers accept every leaf and statement of a core-grammar file** (what `parseRules_render_full` assumes as `hL`),
and what they return is the documented meaning -/
theorem leavesOk_core (X : Ext) (D : Str → Condition) (E : Str → Action) (rs : List (RuleSrc × Str)) (h : ∀ x ∈ rs, x.1.Ok)
    (hg : ∀ x ∈ rs, CoreGrammar X D E x.1) (T P Q : List Str) (hT : T = P ++ litsFile rs ++ Q) :
    LeavesOk X T (gcOf X T) (gaOf X T) P.length rs
    ∧ rulesOf X (gcOf X T) (gaOf X T) P.length rs = rs.map fun x => ruleDoc X x.1 D E := by
  induction rs generalizing P with
  | nil => exact ⟨trivial, rfl⟩
  | cons x xs ih =>
    have e : litsFile (x :: xs) = x.1.lits ++ litsFile xs := by simp [litsFile]
    obtain ⟨r1, r2, r3⟩ := ruleOf_core X x.1 (h x (by simp)) D E (hg x (by simp)) T P (litsFile xs ++ Q)
      (by rw [hT, e]; simp [List.append_assoc])
    obtain ⟨i1, i2⟩ := ih (fun y hy => h y (by simp [hy])) (fun y hy => hg y (by simp [hy])) (P ++ x.1.lits)
      (by rw [hT, e]; simp [List.append_assoc])
    simp only [List.length_append] at i1 i2
    exact ⟨⟨⟨r2, r3⟩, i1⟩, by simp only [rulesOf, List.map_cons, r1, i2]⟩

/-- **The property's sentence for the core grammar, nothing abstract.** Every file of rules — names, attributes, condition trees
and ANY layout as in `parseRules_render_full` — whose leaves are `Object.field OP <literal>` (OP one of `>= <= == != > <`
`contains` `startsWith` `endsWith` `matches` `in`; the literal an `i64`, a string with an ARBITRARY body, `true`/`false`, `null`, a
float, a dotted reference) and whose statements are `field = <literal>`, `field += <literal>`, `Log(<literal>)`,
`Retract($Object)`, `ScheduleRule(<i64>, "name")`, `ActivateAgendaGroup(<literal>)` parses to exactly the documented rules
(`ruleDoc`: computed from the source alone). -/
theorem parseRules_render_core (X : Ext) (g0 : Str) (rs : List (RuleSrc × Str)) (hg : Ws g0)
    (h : ∀ x ∈ rs, x.1.Ok ∧ Ws x.2 ∧ x.2 ≠ []) (hc : ∀ k, ∀ x ∈ rs, x.1.CodeOk k)
    (hc' : ∀ k, ∀ x ∈ rs, (x.1.mapW norm).CodeOk k) (hl : ∀ k, ∀ x ∈ rs, x.1.LineOk k)
    (hnc : stripComments (renderFile g0 rs) none = renderFile g0 rs)
    (D : Str → Condition) (E : Str → Action) (hG : ∀ x ∈ rs, CoreGrammar X D E x.1) :
    parseRules X (renderFile g0 rs) = (rs.map fun x => ruleDoc X x.1 D E).mapM id := by
  obtain ⟨hL, hR⟩ := leavesOk_core X D E rs (fun x hx => (h x hx).1) hG (litsFile rs) [] [] (by simp)
  rw [parseRules_render_full X g0 rs hg h hc hc' hl hnc _ _ hL]
  simp only [List.length_nil] at hR
  rw [hR]


/-! ### the leaf-level round trips, through `mask_string_literals` itself -/

/-- **a core leaf, as written → masked → parsed**: `parse_single_condition` on `mask(text)` with the table `lits(text)` returns the
documented comparison (string bodies ARBITRARY) -/
theorem CLeaf.roundtrip (X : Ext) (y : CLeaf) (h : y.Ok X) : parseSingleCondition X (lits y.text) (mask y.text) = .ok y.cond := by
  obtain ⟨_, m, lt⟩ := renderSegs_closed y.segs (y.segs_ok X h)
  unfold mask CLeaf.text
  rw [m, lt]
  exact y.parse X h (litsSegs y.segs) [] [] (by simp)

/-- **a core statement, as written → masked → parsed** -/
theorem CStmt.roundtrip (X : Ext) (y : CStmt) (h : y.Ok X) : parseAction X (lits y.text) (mask y.text) = .ok (y.action X) := by
  obtain ⟨_, m, lt⟩ := renderSegs_closed y.segs (y.segs_ok X h)
  unfold mask CStmt.text
  rw [m, lt]
  exact y.parse X h (litsSegs y.segs) [] [] (by simp)

/-! non-vacuity: leaves and statements with metacharacter bodies -/

def exBody : Str := "a } then (b && c) ; d = e, f".toList
def exCL : CLeaf := ⟨['U'], ['n'], .contains, ['c', 'o', 'n', 't', 'a', 'i', 'n', 's'], .str '"' exBody⟩

theorem exCL_ok : exCL.Ok exX :=
  ⟨⟨⟨'U', [], rfl, by decide⟩, by decide⟩, ⟨⟨'n', [], rfl, by decide⟩, by decide⟩, rfl, ⟨Or.inl rfl, by decide +kernel⟩⟩

example : exCL.text = "U.n contains \"a } then (b && c) ; d = e, f\"".toList := by decide +kernel
example : parseSingleCondition exX (lits exCL.text) (mask exCL.text) = .ok ⟨.field "U.n".toList, .contains, .str exBody⟩ := by
  have := exCL.roundtrip exX exCL_ok
  have e : "U.n".toList = ['U'] ++ '.' :: ['n'] := by decide +kernel
  rw [e]; exact this

/-- `parseSingleCondition_cmp`: `U.n in [1, 2]` — the value text is ANY trimmed text without `(` -/
example : parseSingleCondition exX [] (cmpText ['U'] ['n'] ['i', 'n'] "[1, 2]".toList)
    = .ok ⟨.field (['U'] ++ '.' :: ['n']), .in_, parseValue exX [] "[1, 2]".toList⟩ :=
  parseSingleCondition_cmp exX [] ['U'] ['n'] ⟨⟨'U', [], rfl, by decide⟩, by decide⟩ ⟨⟨'n', [], rfl, by decide⟩, by decide⟩ .in_ _ rfl _
    (by decide +kernel) (by decide +kernel)

def exSched : CStmt := .schedule (-1) '"' "R } ; x".toList
theorem exSched_ok : exSched.Ok exX := ⟨⟨by decide, by decide⟩, Or.inl rfl, by decide +kernel⟩

/-- `ScheduleRule(-1, "R } ; x")`: the delay is `-1 as u64 = 2^64 - 1`, the name the body -/
example : exSched.text = "ScheduleRule(-1, \"R } ; x\")".toList := by decide +kernel
example : parseAction exX (lits exSched.text) (mask exSched.text) = .ok (.schedule "R } ; x".toList 18446744073709551615) :=
  exSched.roundtrip exX exSched_ok

/-- … and `i64::MAX` is itself (no detour through `f64`) -/
example : parseAction exX (lits (CStmt.schedule 9223372036854775807 '"' ['R']).text) (mask (CStmt.schedule 9223372036854775807 '"' ['R']).text)
    = .ok (.schedule ['R'] 9223372036854775807) :=
  (CStmt.schedule 9223372036854775807 '"' ['R']).roundtrip exX ⟨⟨by decide, by decide⟩, Or.inl rfl, by decide⟩

example : parseAction exX (lits (CStmt.log (.str '\'' exBody)).text) (mask (CStmt.log (.str '\'' exBody)).text) = .ok (.log exBody) :=
  (CStmt.log (.str '\'' exBody)).roundtrip exX ⟨Or.inr rfl, by decide +kernel⟩

example : parseAction exX (lits (CStmt.set "U.msg".toList (.str '"' exBody)).text) (mask (CStmt.set "U.msg".toList (.str '"' exBody)).text)
    = .ok (.set "U.msg".toList (.str exBody)) :=
  (CStmt.set "U.msg".toList (.str '"' exBody)).roundtrip exX ⟨⟨by decide +kernel, by decide +kernel⟩, Or.inl rfl, by decide +kernel⟩

/-- a float: the text `1e21` with whatever bit pattern `parse::<f64>` gives it -/
example (X : Ext) (bits : Nat) (hf : X.parseF64 "1e21".toList = some bits) :
    parseAction X [] "U.w = 1e21".toList = .ok (.set "U.w".toList (.num bits)) := by
  have := (CStmt.set "U.w".toList (.float "1e21".toList bits)).parse X
    ⟨⟨by decide +kernel, by decide +kernel⟩, ⟨by decide +kernel, by decide +kernel, by decide +kernel, by decide +kernel, by decide +kernel⟩,
      by decide +kernel, hf, by decide +kernel⟩ [] [] [] (by simp [CStmt.segs, Lit.segs, litsSegs, Seg.lits])
  have e : maskedSegsAt ([] : List Str).length (CStmt.set "U.w".toList (.float "1e21".toList bits)).segs
      = "U.w".toList ++ [' ', '=', ' '] ++ "1e21".toList := by
    simp [CStmt.segs, Lit.segs, maskedSegsAt, Seg.maskedAt]
  have e2 : "U.w".toList ++ [' ', '=', ' '] ++ "1e21".toList = "U.w = 1e21".toList := by decide +kernel
  rw [e, e2] at this; exact this

/-! non-vacuity of `parseRules_render_core`: `rule R5 { when U.k in 5 && U.a != V.b then U.x = true; U.n += -1; Retract($U); }` spread
over several lines -/

def exL1 : CLeaf := ⟨['U'], ['k'], .in_, ['i', 'n'], .int 5⟩
def exL2 : CLeaf := ⟨['U'], ['a'], .ne, ['!', '='], .ref ['V'] ['b']⟩
def exS1 : CStmt := .set ['U', '.', 'x'] (.bool true)
def exS2 : CStmt := .append ['U', '.', 'n'] (.int (-1))
def exS3 : CStmt := .retract ['U']

def exR5 : RuleSrc :=
  { name := ['R', '5'], quoted := false, w0 := [' '], w1 := ['\n'], attrs := [], w2 := ['\n', ' '], w3 := [' '],
    cond := .and (.leaf exL1.text) ['\n', ' '] [' '] (.leaf exL2.text), w4 := ['\n'], w5 := [' '],
    stmts := [([], exS1.text, []), ([' '], exS2.text, []), (['\n'], exS3.text, [' '])], w6 := ['\n'] }

theorem exR5_leaf (s : Str) (hs : s = exL1.text ∨ s = exL2.text) : OpaqueLeaf s := by
  rcases hs with rfl | rfl <;>
    exact OpaqueLeaf.ofCode _ (leafOk_dec _ (by decide +kernel) (by decide +kernel) (by decide +kernel) (by decide +kernel)
      (by decide +kernel) (by decide +kernel) (by decide +kernel) (by decide +kernel))
      (codeChars_dec _ (by decide +kernel)).1 (codeChars_dec _ (by decide +kernel)).2

theorem exR5_ok : exR5.Ok := by
  refine ⟨?_, ⟨ws_dec _ rfl, by decide⟩, ⟨ws_dec _ rfl, by decide⟩, ?_, ws_dec _ rfl, ⟨ws_dec _ rfl, by decide⟩, ?_,
    ⟨ws_dec _ rfl, by decide⟩, ⟨ws_dec _ rfl, by decide⟩, ⟨by decide, ?_⟩, ws_dec _ rfl⟩
  · show (∃ c cs, ['R', '5'] = c :: cs ∧ isIdStart c = true) ∧ ∀ c ∈ ['R', '5'], isWord c = true
    exact ⟨⟨'R', ['5'], rfl, by decide⟩, by decide⟩
  · intro a ha; simp [exR5] at ha
  · exact ⟨ws_dec _ rfl, ws_dec _ rfl, exR5_leaf _ (Or.inl rfl), exR5_leaf _ (Or.inr rfl), rfl, rfl⟩
  · intro x hx
    simp only [exR5, List.mem_cons, List.mem_nil_iff, or_false] at hx
    rcases hx with rfl | rfl | rfl <;>
      exact ⟨ws_dec _ rfl, ws_dec _ rfl, exStmt_opaque _ (by decide +kernel) (by decide +kernel) (by decide +kernel)⟩

def exD : Str → Condition := fun s => if s = exL1.text then exL1.cond else exL2.cond
def exE : Str → Action := fun s => if s = exS1.text then exS1.action exX else if s = exS2.text then exS2.action exX else exS3.action exX

theorem exR5_core : CoreGrammar exX exD exE exR5 := by
  have i : Ident ['U'] := ⟨⟨'U', [], rfl, by decide⟩, by decide⟩
  constructor
  · intro s hs
    simp only [exR5, LT.leaves, List.mem_append, List.mem_cons, List.mem_nil_iff, or_false] at hs
    rcases hs with rfl | rfl
    · exact ⟨exL1, ⟨i, ⟨⟨'k', [], rfl, by decide⟩, by decide⟩, rfl, by decide, by decide⟩, rfl, by simp [exD]⟩
    · exact ⟨exL2, ⟨i, ⟨⟨'a', [], rfl, by decide⟩, by decide⟩, rfl,
        ⟨⟨'V', [], rfl, by decide⟩, by decide⟩, ⟨⟨'b', [], rfl, by decide⟩, by decide⟩, rfl⟩, rfl,
        by have : exL2.text ≠ exL1.text := by decide +kernel
           simp [exD, this]⟩
  · intro st hs
    simp only [exR5, List.mem_cons, List.mem_nil_iff, or_false] at hs
    have n21 : exS2.text ≠ exS1.text := by decide +kernel
    have n31 : exS3.text ≠ exS1.text := by decide +kernel
    have n32 : exS3.text ≠ exS2.text := by decide +kernel
    rcases hs with rfl | rfl | rfl
    · exact ⟨exS1, ⟨⟨by decide +kernel, by decide +kernel⟩, trivial⟩, rfl, by simp [exE]⟩
    · exact ⟨exS2, ⟨⟨by decide +kernel, by decide +kernel⟩, by decide, by decide⟩, rfl, by simp [exE, n21]⟩
    · exact ⟨exS3, (by decide : ∀ c ∈ ['U'], isWord c = true), rfl, by simp [exE, n31, n32]⟩

theorem exR5_qf : (∀ s ∈ exR5.cond.leaves, QuoteFree s) ∧ (∀ x ∈ exR5.stmts, QuoteFree x.2.1) := by
  constructor
  · intro s hs
    simp only [exR5, LT.leaves, List.mem_append, List.mem_cons, List.mem_nil_iff, or_false] at hs
    rcases hs with rfl | rfl <;> exact (codeChars_dec _ (by decide +kernel)).1
  · intro st hs
    simp only [exR5, List.mem_cons, List.mem_nil_iff, or_false] at hs
    rcases hs with rfl | rfl | rfl <;> exact (codeChars_dec _ (by decide +kernel)).1

theorem exR5_line (k : Nat) : exR5.LineOk k := by
  apply RuleSrc.LineOk.ofCode exR5 exR5_qf
  · intro s hs
    simp only [exR5, LT.leaves, List.mem_append, List.mem_cons, List.mem_nil_iff, or_false] at hs
    rcases hs with rfl | rfl <;> exact ⟨by decide +kernel, by decide +kernel⟩
  · intro st hs
    simp only [exR5, List.mem_cons, List.mem_nil_iff, or_false] at hs
    rcases hs with rfl | rfl | rfl <;> exact ⟨by decide +kernel, by decide +kernel⟩
  · exact ⟨_, _, _, rfl⟩

theorem exR5_code (k : Nat) : exR5.CodeOk k ∧ (exR5.mapW norm).CodeOk k := by
  have q := exR5_qf
  constructor
  · apply RuleSrc.CodeOk.ofCode exR5 q.1 q.2
    · exact all_dec (p := fun c => c != '}') _ (by decide +kernel) (fun c h => by simpa using h)
    · decide +kernel
    · exact ⟨'b', by decide +kernel, by decide⟩
  · apply RuleSrc.CodeOk.ofCode
    · show ∀ s ∈ (exR5.cond.mapW norm).leaves, QuoteFree s
      rw [LT.mapW_leaves]; exact q.1
    · intro x hx
      simp only [RuleSrc.mapW, List.mem_map] at hx
      obtain ⟨y, hy, rfl⟩ := hx
      exact q.2 y hy
    · exact all_dec (p := fun c => c != '}') _ (by decide +kernel) (fun c h => by simpa using h)
    · decide +kernel
    · exact ⟨'b', by decide +kernel, by decide⟩

/-- the file parses to the documented rule: `U.k in 5 && U.a != V.b`; `U.x = true`, `U.n += -1`, `Retract(U)` -/
example : parseRules exX (renderFile ['\n'] [(exR5, ['\n'])]) = ([(exR5, ['\n'])].map fun x => ruleDoc exX x.1 exD exE).mapM id :=
  parseRules_render_core exX ['\n'] [(exR5, ['\n'])] (ws_dec _ rfl)
    (by intro x hx; simp only [List.mem_cons, List.mem_nil_iff, or_false] at hx; subst hx; exact ⟨exR5_ok, ws_dec _ rfl, by decide⟩)
    (by intro k x hx; simp only [List.mem_cons, List.mem_nil_iff, or_false] at hx; subst hx; exact (exR5_code k).1)
    (by intro k x hx; simp only [List.mem_cons, List.mem_nil_iff, or_false] at hx; subst hx; exact (exR5_code k).2)
    (by intro k x hx; simp only [List.mem_cons, List.mem_nil_iff, or_false] at hx; subst hx; exact exR5_line k)
    (by decide +kernel) exD exE
    (by intro x hx; simp only [List.mem_cons, List.mem_nil_iff, or_false] at hx; subst hx; exact exR5_core)

example : ((parseRules exX (renderFile ['\n'] [(exR5, ['\n'])])).toOption.map (fun rs => rs.map fun r =>
      (r.name, (match r.cond with | .and (.single ⟨.field f, .in_, .int 5⟩) (.single ⟨.field g, .ne, .expr e⟩) => f ++ g ++ e | _ => []),
        (match r.actions with | [.set f (.bool true), .append g (.int (-1)), .retract o] => f ++ g ++ o | _ => [])))
    == some [(['R', '5'], "U.kU.aV.b".toList, "U.xU.nU".toList)]) = true := by decide +kernel


/-! non-vacuity of the remaining call forms -/

example : parseAction exX (lits (CStmt.activate (.str '"' "g } x".toList)).text) (mask (CStmt.activate (.str '"' "g } x".toList)).text)
    = .ok (.activate "g } x".toList) :=
  (CStmt.activate (.str '"' "g } x".toList)).roundtrip exX ⟨Or.inl rfl, by decide +kernel⟩

example : parseAction exX ["wf; 1".toList] ("CompleteWorkflow".toList ++ '(' :: ((Lit.str '"' "wf; 1".toList).masked 0 ++ [')']))
    = .ok (.complete "wf; 1".toList) :=
  parseAction_complete exX "CompleteWorkflow".toList (by decide +kernel) (by decide +kernel) (Or.inl (by decide +kernel))
    (.str '"' "wf; 1".toList) ⟨Or.inl rfl, by decide +kernel⟩ ["wf; 1".toList] [] [] (by decide +kernel)

example : parseAction exX [] ("notify".toList ++ '(' :: ("1, U.x".toList ++ [')']))
    = .ok (.custom "notify".toList (if "1, U.x".toList.isEmpty then []
        else indexed ((splitCommaGo "1, U.x".toList []).map fun a => parseValue exX [] (trim a)))) :=
  parseAction_custom exX [] "notify".toList "1, U.x".toList (by decide +kernel) (by decide +kernel) (by decide +kernel)
    (by decide +kernel) (by decide +kernel)

example : parseValue exX ["it's } ; && ||".toList] ('"' :: maskBodyAt 0 "it's } ; && ||".toList ++ ['"']) = .str "it's } ; && ||".toList :=
  parseValue_str_at exX _ '"' _ 0 (Or.inl rfl) (fun _ => rfl)

example : parseValue exX [] (['U', 's', 'e', 'r'] ++ '.' :: ['n', 'a', 'm', 'e']) = .expr (['U', 's', 'e', 'r'] ++ '.' :: ['n', 'a', 'm', 'e']) :=
  parseValue_ref exX [] ['U', 's', 'e', 'r'] ['n', 'a', 'm', 'e'] ⟨⟨'U', _, rfl, by decide⟩, by decide⟩ ⟨⟨'n', _, rfl, by decide⟩, by decide⟩ rfl

end C04
