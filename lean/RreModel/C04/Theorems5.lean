import RreModel.C04.Theorems4
/-
C04 — property theorems, part 5: COMMENTS.  `strip_comments` (model `stripComments`) followed through a file:
`SC x y` = "the text `x` strips to `y` and ends outside a literal and outside a comment" is closed under concatenation
(`SC.append`); code without quote / slash, string literals, block comments and line comments are `SC` (`SC.code`, `SC.lit`,
`SC.block`, `SC.line`).  `parseRules_render_comments`: a file whose gaps contain comments with ARBITRARY text parses to exactly
the rules written.  Comments INSIDE a rule (in its white-space slots) strip the same way by `SC.append` and leave line breaks
inside the rule: `parseRules_render_layout_comments` (Theorems6).
-/
namespace C04

/-- `x` strips to `y` and ends outside a literal and outside a comment -/
def SC (x y : Str) : Prop := ∀ r, stripComments (x ++ r) none = y ++ stripComments r none

theorem SC.nil : SC [] [] := fun _ => rfl

theorem SC.append {x y x' y' : Str} (h : SC x y) (h' : SC x' y') : SC (x ++ x') (y ++ y') := by
  intro r; rw [List.append_assoc, h, h', List.append_assoc]

theorem stripComments_plain (c : Char) (cs : Str) (h1 : c ≠ '"') (h2 : c ≠ '\'') (h3 : c ≠ '/') :
    stripComments (c :: cs) none = c :: stripComments cs none := by
  rw [stripComments]
  simp [h1, h2, h3]

theorem SC.code (x : Str) (h : ∀ c ∈ x, c ≠ '"' ∧ c ≠ '\'' ∧ c ≠ '/') : SC x x := by
  induction x with
  | nil => exact SC.nil
  | cons c cs ih =>
    intro r
    have hc := h c (by simp)
    simp only [List.cons_append]
    rw [stripComments_plain c _ hc.1 hc.2.1 hc.2.2, ih (fun d hd => h d (by simp [hd]))]


/-- the comment text does not contain its own terminator: no `/` directly after a `*` (`p` = the character before the text) -/
def noClose : Str → Char → Bool
  | [], _ => true
  | c :: cs, p => !(p == '*' && c == '/') && noClose cs c

theorem skipBlock_close (b r : Str) (p : Char) (h : noClose b p = true) : skipBlock (b ++ '*' :: '/' :: r) p = r := by
  induction b generalizing p with
  | nil => simp [skipBlock]
  | cons c cs ih =>
    simp only [noClose, Bool.and_eq_true, Bool.not_eq_true'] at h
    simp only [List.cons_append, skipBlock, h.1, Bool.false_eq_true, if_false]
    exact ih _ h.2

theorem skipLine_close (b r : Str) (h : ∀ c ∈ b, c ≠ '\n') : skipLine (b ++ '\n' :: r) = '\n' :: r := by
  induction b with
  | nil => simp [skipLine]
  | cons c cs ih =>
    have hc : (c == '\n') = false := by simpa using h c (by simp)
    simp only [List.cons_append, skipLine, hc, Bool.false_eq_true, if_false]
    exact ih (fun d hd => h d (by simp [hd]))

/-- a block comment becomes one blank; its text may start with `/` (`/*/ … */` is ONE comment: the `*` of the opener is not
the `*` of a terminator) and contain `/` and `*` anywhere but as `*/` -/
theorem SC.block (b : Str) (h : noClose b ' ' = true) : SC ('/' :: '*' :: b ++ ['*', '/']) [' '] := by
  intro r
  simp only [List.cons_append, List.append_assoc, List.nil_append]
  rw [stripComments]
  simp only [List.head?_cons, List.drop_one, List.tail_cons]
  have := skipBlock_close b r ' ' h
  simp [this]

/-- a line comment disappears, its line break stays -/
theorem SC.line (b : Str) (h : ∀ c ∈ b, c ≠ '\n') : SC ('/' :: '/' :: b ++ ['\n']) ['\n'] := by
  intro r
  have h1 : skipLine ('/' :: (b ++ '\n' :: r)) = '\n' :: r := by
    have := skipLine_close ('/' :: b) r (by
      intro c hc; simp only [List.mem_cons] at hc; rcases hc with rfl | hc
      · decide
      · exact h c hc)
    simpa using this
  simp only [List.cons_append, List.append_assoc, List.nil_append]
  rw [stripComments]
  simp [h1, stripComments_plain '\n' r (by decide) (by decide) (by decide)]

/-- a string literal is kept as written -/
theorem SC.lit (q : Char) (b : Str) (hq : q = '"' ∨ q = '\'') (h : ∀ c ∈ b, c ≠ q ∧ c ≠ '\n') : SC (q :: b ++ [q]) (q :: b ++ [q]) := by
  intro r
  have body : ∀ (b : Str), (∀ c ∈ b, c ≠ q ∧ c ≠ '\n') →
      stripComments (b ++ q :: r) (some q) = b ++ q :: stripComments r none := by
    intro b
    induction b with
    | nil => intro _; rw [List.nil_append, stripComments]; simp
    | cons c cs ih =>
      intro hb
      have hc := hb c (by simp)
      rw [List.cons_append, stripComments]
      have e1 : (c == q) = false := by simpa using hc.1
      have e2 : (c == '\n') = false := by simpa using hc.2
      simp only [e1, e2, Bool.or_self, Bool.false_eq_true, if_false]
      rw [ih (fun d hd => hb d (by simp [hd]))]; rfl
  simp only [List.cons_append, List.append_assoc, List.nil_append]
  rw [stripComments]
  have hqq : (q == '"' || q == '\'') = true := by rcases hq with rfl | rfl <;> rfl
  simp only [hqq, if_true]
  rw [body b h]



/-! ### comments between the rules -/

/-- what may stand between two rules: white space, a block comment, a line comment -/
inductive GapItem where
  | ws (w : Str)
  | block (b : Str)
  | line (b : Str)
deriving Repr

def GapItem.render : GapItem → Str
  | .ws w => w
  | .block b => '/' :: '*' :: b ++ ['*', '/']
  | .line b => '/' :: '/' :: b ++ ['\n']

/-- after `strip_comments` -/
def GapItem.strip : GapItem → Str
  | .ws w => w
  | .block _ => [' ']
  | .line _ => ['\n']

/-- the comment text is ARBITRARY — `}`, `rule x {`, quotes, `then` … — but for what would end it early (`*/` in a block comment, a line break in a line comment) -/
def GapItem.Ok : GapItem → Prop
  | .ws w => Ws w
  | .block b => noClose b ' ' = true
  | .line b => ∀ c ∈ b, c ≠ '\n'

def gapText (g : List GapItem) : Str := g.flatMap GapItem.render
def gapStrip (g : List GapItem) : Str := g.flatMap GapItem.strip

theorem Ws.plain {w : Str} (h : Ws w) : ∀ c ∈ w, c ≠ '"' ∧ c ≠ '\'' ∧ c ≠ '/' := by
  intro c hc
  have := h c hc
  refine ⟨?_, ?_, ?_⟩ <;> (intro e; subst e; revert this; decide)

theorem GapItem.sc (i : GapItem) (h : i.Ok) : SC i.render i.strip := by
  cases i with
  | ws w => exact SC.code w (Ws.plain h)
  | block b => exact SC.block b h
  | line b => exact SC.line b h

theorem GapItem.strip_ws (i : GapItem) (h : i.Ok) : Ws i.strip := by
  cases i with
  | ws w => exact h
  | block b => intro c hc; simp [GapItem.strip] at hc; subst hc; rfl
  | line b => intro c hc; simp [GapItem.strip] at hc; subst hc; rfl

theorem gap_sc (g : List GapItem) (h : ∀ i ∈ g, i.Ok) : SC (gapText g) (gapStrip g) := by
  induction g with
  | nil => exact SC.nil
  | cons i is ih =>
    simp only [gapText, gapStrip, List.flatMap_cons]
    exact (i.sc (h i (by simp))).append (ih (fun j hj => h j (by simp [hj])))

theorem gapStrip_ws (g : List GapItem) (h : ∀ i ∈ g, i.Ok) : Ws (gapStrip g) := by
  intro c hc
  simp only [gapStrip, List.mem_flatMap] at hc
  obtain ⟨i, hi, hci⟩ := hc
  exact i.strip_ws (h i hi) c hci

/-- a file with comments between its rules -/
def renderFileG (G0 : List GapItem) (rs : List (RuleSrc × List GapItem)) : Str :=
  gapText G0 ++ rs.flatMap fun x => x.1.render ++ gapText x.2

def stripGaps (rs : List (RuleSrc × List GapItem)) : List (RuleSrc × Str) := rs.map fun x => (x.1, gapStrip x.2)

theorem renderFileG_sc (G0 : List GapItem) (rs : List (RuleSrc × List GapItem)) (hG0 : ∀ i ∈ G0, i.Ok)
    (h : ∀ x ∈ rs, SC x.1.render x.1.render ∧ ∀ i ∈ x.2, i.Ok) :
    SC (renderFileG G0 rs) (renderFile (gapStrip G0) (stripGaps rs)) := by
  have key : SC (rs.flatMap fun x => x.1.render ++ gapText x.2) ((stripGaps rs).flatMap fun x => x.1.render ++ x.2) := by
    induction rs with
    | nil => exact SC.nil
    | cons x xs ih =>
      obtain ⟨h1, h2⟩ := h x (by simp)
      simp only [stripGaps, List.flatMap_cons, List.map_cons] at *
      exact (h1.append (gap_sc x.2 h2)).append (ih (fun y hy => h y (by simp [hy])))
  exact (gap_sc G0 hG0).append key

theorem renderFile_sc (g0 : Str) (rs : List (RuleSrc × Str)) (hg : Ws g0) (h : ∀ x ∈ rs, SC x.1.render x.1.render ∧ Ws x.2) :
    SC (renderFile g0 rs) (renderFile g0 rs) := by
  have key : SC (rs.flatMap fun x => x.1.render ++ x.2) (rs.flatMap fun x => x.1.render ++ x.2) := by
    induction rs with
    | nil => exact SC.nil
    | cons x xs ih =>
      obtain ⟨h1, h2⟩ := h x (by simp)
      simp only [List.flatMap_cons]
      exact (h1.append (SC.code _ (Ws.plain h2))).append (ih (fun y hy => h y (by simp [hy])))
  exact (SC.code _ (Ws.plain hg)).append key

theorem SC.strip {x y : Str} (h : SC x y) : stripComments x none = y := by
  have := h []
  simp only [List.append_nil] at this
  rw [this]
  rw [stripComments]
  simp

/-- **Comments between the rules do not matter.** A file whose gaps (before the first rule, between the rules, after the last
one) are any sequences of white space, block comments and line comments with ARBITRARY text (`}`, `rule x {`, quotes, `then`,
`salience 99` …) parses to exactly the rules written: the same result as the file with every comment replaced by white space.
`hsc`: each rule text itself is comment-free (`SC r.render r.render`; `SC.code`, `SC.lit`, `SC.append` build it). -/
theorem parseRules_render_comments (X : Ext) (G0 : List GapItem) (rs : List (RuleSrc × List GapItem)) (hG0 : ∀ i ∈ G0, i.Ok)
    (h : ∀ x ∈ rs, x.1.Ok ∧ (∀ i ∈ x.2, i.Ok) ∧ gapStrip x.2 ≠ [] ∧ SC x.1.render x.1.render)
    (hc : ∀ k, ∀ x ∈ rs, x.1.CodeOk k) (hl : ∀ b ∈ mblocks 0 (stripGaps rs), ∀ c ∈ b, c ≠ '\n')
    (gc : Str → Condition) (ga : Str → Action) (hL : LeavesOk X (litsFile (stripGaps rs)) gc ga 0 (stripGaps rs)) :
    parseRules X (renderFileG G0 rs) = (rulesOf X gc ga 0 (stripGaps rs)).mapM id := by
  have h' : ∀ x ∈ stripGaps rs, x.1.Ok ∧ Ws x.2 ∧ x.2 ≠ [] := by
    intro x hx
    simp only [stripGaps, List.mem_map] at hx
    obtain ⟨y, hy, rfl⟩ := hx
    exact ⟨(h y hy).1, gapStrip_ws y.2 (h y hy).2.1, (h y hy).2.2.1⟩
  have hc' : ∀ k, ∀ x ∈ stripGaps rs, x.1.CodeOk k := by
    intro k x hx
    simp only [stripGaps, List.mem_map] at hx
    obtain ⟨y, hy, rfl⟩ := hx
    exact hc k y hy
  have hsc' : ∀ x ∈ stripGaps rs, SC x.1.render x.1.render ∧ Ws x.2 := by
    intro x hx
    have := h' x hx
    simp only [stripGaps, List.mem_map] at hx
    obtain ⟨y, hy, rfl⟩ := hx
    exact ⟨(h y hy).2.2.2, this.2.1⟩
  have e1 := (renderFileG_sc G0 rs hG0 (fun x hx => ⟨(h x hx).2.2.2, (h x hx).2.1⟩)).strip
  have e2 := (renderFile_sc (gapStrip G0) (stripGaps rs) (gapStrip_ws G0 hG0) hsc').strip
  have hsame : parseRules X (renderFileG G0 rs) = parseRules X (renderFile (gapStrip G0) (stripGaps rs)) := by
    unfold parseRules prepare prepareLits
    rw [e1, e2]
  rw [hsame]
  exact parseRules_render X _ _ (gapStrip_ws G0 hG0) h' hc' e2 hl gc ga hL


/-- non-vacuity: `// rule x { }` and `/*/ } then * " */` around `exR3` -/
def exGap0 : List GapItem := [.line ['r', 'u', 'l', 'e', ' ', 'x', ' ', '{', ' ', '}'], .ws [' ']]
def exGap1 : List GapItem := [.ws ['\n'], .block ['/', ' ', '}', ' ', 't', 'h', 'e', 'n', ' ', '*', ' ', '"', ' '], .line ['d', 'o', 'n', '\'', 't']]

example : parseRules exX (renderFileG exGap0 [(exR3, exGap1)])
    = (rulesOf exX (gcOf exX (litsFile (stripGaps [(exR3, exGap1)]))) (gaOf exX (litsFile (stripGaps [(exR3, exGap1)]))) 0
        (stripGaps [(exR3, exGap1)])).mapM id := by
  apply parseRules_render_comments exX exGap0 [(exR3, exGap1)]
  · intro i hi
    simp only [exGap0, List.mem_cons, List.mem_nil_iff, or_false] at hi
    rcases hi with rfl | rfl
    · show ∀ c ∈ _, c ≠ '\n'; decide
    · exact ws_dec _ rfl
  · intro x hx
    simp only [List.mem_cons, List.mem_nil_iff, or_false] at hx
    subst hx
    refine ⟨exR3_ok, ?_, by decide +kernel, ?_⟩
    · intro i hi
      simp only [exGap1, List.mem_cons, List.mem_nil_iff, or_false] at hi
      rcases hi with rfl | rfl | rfl
      · exact ws_dec _ rfl
      · show noClose _ ' ' = true; decide
      · show ∀ c ∈ _, c ≠ '\n'; decide
    · apply SC.code
      have : (exR3.render.all fun c => c != '"' && c != '\'' && c != '/') = true := by decide +kernel
      intro c hc
      have := List.all_eq_true.mp this c hc
      simp at this
      exact ⟨this.1.1, this.1.2, this.2⟩
  · intro k x hx
    simp only [List.mem_cons, List.mem_nil_iff, or_false] at hx
    subst hx
    apply RuleSrc.CodeOk.ofCode
    · intro s hs
      obtain ⟨y, hy, rfl⟩ := exR3_int.1 s hs; exact y.quoteFree hy
    · intro st hs
      obtain ⟨y, hy, he⟩ := exR3_int.2 st hs; rw [he]; exact y.quoteFree hy
    · exact all_dec (p := fun c => c != '}') _ (by decide +kernel) (fun c h => by simpa using h)
    · decide +kernel
    · exact ⟨')', by decide +kernel, by decide⟩
  · have : ((mblocks 0 (stripGaps [(exR3, exGap1)])).all fun b => b.all fun c => c != '\n') = true := by decide +kernel
    intro b hb c hc; simpa using List.all_eq_true.mp (List.all_eq_true.mp this b hb) c hc
  · exact leavesOk_int exX _ _ (by
      intro x hx
      simp only [stripGaps, List.map_cons, List.map_nil, List.mem_cons, List.mem_nil_iff, or_false] at hx
      subst hx; exact exR3_int) 0

end C04
