/-
C04 — model of the GRL parser `src/parser/grl.rs` (after the fixes F-C04a,c,d,e,g,h and the string
literal masking F-C04b), on `List Char`.

Every entry point first runs `prepare` = `mask_string_literals ∘ strip_comments`: the body of every
complete string literal is moved into a table (`lits`) and replaced by a metacharacter-free placeholder
(`maskBodyAt`: `MASK_START index MASK_END`); the existing pipeline runs on the masked text; `unmask`
restores the bodies at the leaves where text goes into the AST (`T` = the table).

The parser is regex driven (crate `rexile`).  Its *algorithmic layers* are mirrored here:
comment stripping / `clean_text`, the capture steps (rule split, header/body, `when … then …`),
attribute extraction, `parse_when_clause` (outer parenthesis stripping with balance check, top-level
split on `||` then `&&` by parenthesis counting, `!`, `exists(`/`forall(`), the dispatch order of
`parse_single_condition`, the classification chain of `parse_value`, `parse_then_clause` (split on
`;`) and the dispatch of `parse_action_statement`.  Every regular expression is modelled by a small
scanning function (leftmost match, greedy pieces, no backtracking into a shorter greedy piece);
their agreement with `rexile` is covered by the correspondence check only (trusted base).
Two `rexile` behaviours that are visible through the parser are mirrored as observed:
a pattern that starts with `\$` never matches (so `method_call_regex` and
`typed_test_condition_regex` never fire) and a capture group inside an optional group is not
reported (`first $v` / `last $v` lose the variable).
Floats and dates are parameters (`Ext`): the model never looks inside them.
-/
namespace C04

abbrev Str := List Char

/-! ## characters and trimming -/

/-- `\s` of the regex engine and the white space `str::trim` removes in generated inputs -/
def isWs (c : Char) : Bool := c == ' ' || c == '\t' || c == '\n' || c == '\r'

def isDigit (c : Char) : Bool := '0' ≤ c && c ≤ '9'
def isAlpha (c : Char) : Bool := ('a' ≤ c && c ≤ 'z') || ('A' ≤ c && c ≤ 'Z')
/-- `[a-zA-Z_]` -/
def isIdStart (c : Char) : Bool := isAlpha c || c == '_'
/-- `\w` -/
def isWord (c : Char) : Bool := isAlpha c || isDigit c || c == '_'

def trimStart (s : Str) : Str := s.dropWhile isWs
def trimEnd (s : Str) : Str := (s.reverse.dropWhile isWs).reverse
/-- `str::trim` -/
def trim (s : Str) : Str := trimEnd (trimStart s)

def startsWith (s p : Str) : Bool := p.isPrefixOf s
def endsWith (s p : Str) : Bool := p.isSuffixOf s

/-- `str::find(pat)`: index of the first occurrence -/
def findSub (p : Str) : Str → Option Nat
  | [] => if p.isEmpty then some 0 else none
  | c :: cs => if p.isPrefixOf (c :: cs) then some 0 else (findSub p cs).map (· + 1)

def containsSub (s p : Str) : Bool := (findSub p s).isSome

def lower (s : Str) : Str := s.map Char.toLower

/-! ## comments and `clean_text` -/

/-- skip to the end of the line (the line break is kept) -/
def skipLine : Str → Str
  | [] => []
  | c :: cs => if c == '\n' then c :: cs else skipLine cs

/-- skip to just after the closing `*/`; `prev` is the previous comment character -/
def skipBlock : Str → Char → Str
  | [], _ => []
  | c :: cs, prev => if prev == '*' && c == '/' then cs else skipBlock cs c

theorem skipLine_len (s : Str) : (skipLine s).length ≤ s.length := by
  induction s with
  | nil => simp [skipLine]
  | cons c cs ih => simp only [skipLine]; split <;> simp <;> omega

theorem skipBlock_len (s : Str) (p : Char) : (skipBlock s p).length ≤ s.length := by
  induction s generalizing p with
  | nil => simp [skipBlock]
  | cons c cs ih => simp only [skipBlock]; split <;> simp; exact Nat.le_succ_of_le (ih c)

/-- `GRLParser::strip_comments` (fix F-C04c/d/h): `//…` and `/*…*/` outside string literals;
a string literal never spans a line -/
def stripComments : Str → Option Char → Str
  | [], _ => []
  | c :: cs, some q =>
    c :: stripComments cs (if c == q || c == '\n' then none else some q)
  | c :: cs, none =>
    if c == '"' || c == '\'' then c :: stripComments cs (some c)
    else if c == '/' && cs.head? == some '/' then
      have := skipLine_len cs
      stripComments (skipLine cs) none
    else if c == '/' && cs.head? == some '*' then
      have := skipBlock_len (cs.drop 1) ' '
      ' ' :: stripComments (skipBlock (cs.drop 1) ' ') none
    else c :: stripComments cs none
termination_by s => s.length
decreasing_by
  all_goals simp_wf
  all_goals (try omega)
  · have := skipBlock_len (cs.drop 1) ' '
    simp at this ⊢; omega

/-- `str::lines()` -/
def splitLines : Str → Str → List Str
  | [], cur => if cur.isEmpty then [] else [cur]
  | c :: cs, cur =>
    if c == '\n' then (if cur.getLast? == some '\r' then cur.dropLast else cur) :: splitLines cs []
    else splitLines cs (cur ++ [c])

/-- `GRLParser::clean_text` -/
def cleanText (s : Str) : Str :=
  let ls := (splitLines s []).map trim |>.filter (fun l => !l.isEmpty && !startsWith l ['/', '/'])
  (ls.intersperse [' ']).flatten

/-! ## string literal masking (`mask_string_literals`, `unmask`) -/

/-- `MASK_START`, `MASK_END` -/
def mStart : Char := Char.ofNat 1
def mEnd : Char := Char.ofNat 2

/-- `usize::to_string` -/
def natDigits (n : Nat) : Str := (toString n).toList

/-- the placeholder of the literal body with table index `n` (an empty body stays empty and has no entry) -/
def maskBodyAt (n : Nat) (b : Str) : Str := if b.isEmpty then [] else mStart :: natDigits n ++ [mEnd]

/-- the number of table entries a body takes -/
def bodyCnt (b : Str) : Nat := if b.isEmpty then 0 else 1

/-- `GRLParser::mask_string_literals`, the masked text: the state is `none` outside a literal and
`some (q, buf)` after an opening quote `q` with `buf` read so far; `n` = the number of table entries so
far; a literal closes at the same quote character on the same line, otherwise the text is kept as written -/
def maskGo : Str → Option (Char × Str) → Nat → Str
  | [], none, _ => []
  | [], some (q, buf), _ => q :: buf
  | c :: cs, none, n => if c == '"' || c == '\'' then maskGo cs (some (c, [])) n else c :: maskGo cs none n
  | c :: cs, some (q, buf), n =>
    if c == q then q :: maskBodyAt n buf ++ q :: maskGo cs none (n + bodyCnt buf)
    else if c == '\n' then q :: buf ++ '\n' :: maskGo cs none n
    else maskGo cs (some (q, buf ++ [c])) n

/-- `GRLParser::mask_string_literals`, the table: the non-empty bodies of the complete literals, in order -/
def litsGo : Str → Option (Char × Str) → List Str
  | [], _ => []
  | c :: cs, none => if c == '"' || c == '\'' then litsGo cs (some (c, [])) else litsGo cs none
  | c :: cs, some (q, buf) =>
    if c == q then (if buf.isEmpty then [] else [buf]) ++ litsGo cs none
    else if c == '\n' then litsGo cs none
    else litsGo cs (some (q, buf ++ [c]))

def mask (s : Str) : Str := maskGo s none 0
def lits (s : Str) : List Str := litsGo s none

def digitsVal (s : Str) : Nat := s.foldl (fun n c => 10 * n + (c.toNat - '0'.toNat)) 0

def stripPlus : Str → Str
  | '+' :: r => r
  | r => r

/-- `str::parse::<usize>` (an index beyond the `usize` range is beyond the table as well) -/
def parseUsize (s : Str) : Option Nat :=
  if (stripPlus s).isEmpty || !(stripPlus s).all isDigit then none else some (digitsVal (stripPlus s))

/-- the text between `MASK_START` and the next `MASK_END` as a table index: the body, and the rest after `MASK_END` -/
def decodeRun (T : List Str) (after : Str) : Option (Str × Str) :=
  match after.dropWhile (· != mEnd) with
  | [] => none
  | _ :: rest => ((parseUsize (after.takeWhile (· != mEnd))).bind (T[·]?)).map (·, rest)

/-- `GRLParser::unmask` (every step consumes at least one character; the fuel is the length) -/
def unmaskF (T : List Str) : Nat → Str → Str
  | 0, s => s
  | _ + 1, [] => []
  | f + 1, c :: cs =>
    if c == mStart then
      match decodeRun T cs with
      | some (body, rest) => body ++ unmaskF T f rest
      | none => c :: unmaskF T f cs
    else c :: unmaskF T f cs

def unmask (T : List Str) (s : Str) : Str := unmaskF T s.length s

/-! ## external functions (parameters of the model) -/

structure Ext where
  /-- `str::parse::<f64>` as a bit pattern -/
  parseF64 : Str → Option Nat
  /-- `f as u64` -/
  f64ToU64 : Nat → Nat
  /-- `f64::to_string` -/
  f64Show : Nat → Str
  /-- `parse_date_string`, seconds since the epoch -/
  parseDate : Str → Option Int

/-! ## data model (mirrors `types.rs`, `engine/rule.rs`) -/

inductive Value where
  | str (s : Str) | num (bits : Nat) | int (i : Int) | bool (b : Bool)
  | arr (vs : List Value) | null | expr (s : Str)
deriving Repr, BEq, Inhabited

inductive Op where
  | eq | ne | gt | ge | lt | le | contains | notContains | startsWith | endsWith | matches_ | in_
deriving Repr, BEq, DecidableEq, Inhabited

inductive CExpr where
  | field (f : Str)
  | call (name : Str) (args : List Str)
  | test (name : Str) (args : List Str)
  | multi (field op : Str) (var : Option Str)
deriving Repr, BEq, Inhabited

structure Condition where
  expr : CExpr
  op : Op
  value : Value
deriving Repr, BEq, Inhabited

/-- `ConditionGroup` over an arbitrary leaf type -/
inductive Cond (α : Type) where
  | single (a : α)
  | and (l r : Cond α)
  | or (l r : Cond α)
  | not (c : Cond α)
  | ex (c : Cond α)
  | fa (c : Cond α)
deriving Repr, BEq, DecidableEq, Inhabited

inductive Action where
  | set (field : Str) (v : Value)
  | log (msg : Str)
  | method (obj meth : Str) (args : List Value)
  | retract (obj : Str)
  | custom (ty : Str) (params : List (Str × Value))   -- positional: keys "0","1",…
  | activate (g : Str)
  | schedule (rule : Str) (delay : Nat)
  | complete (w : Str)
  | wfdata (k : Str) (v : Value)
  | append (field : Str) (v : Value)
deriving Repr, BEq, Inhabited

structure Rule where
  name : Str
  salience : Int
  noLoop : Bool
  lockOnActive : Bool
  agendaGroup : Option Str
  activationGroup : Option Str
  dateEffective : Option Int
  dateExpires : Option Int
  cond : Cond Condition
  actions : List Action
deriving Repr, BEq, Inhabited

inductive Err where
  | parse        -- `RuleEngineError::ParseError`
  | badOp        -- `RuleEngineError::InvalidOperator`
  | unmodelled   -- accumulate / stream patterns: outside the modelled grammar
  | fuel
deriving Repr, BEq, DecidableEq, Inhabited

/-! ## `parse_when_clause` -/

/-- `is_balanced_parentheses` -/
def balancedGo : Str → Int → Bool
  | [], n => n == 0
  | c :: cs, n =>
    if c == '(' then balancedGo cs (n + 1)
    else if c == ')' then (if n - 1 < 0 then false else balancedGo cs (n - 1))
    else balancedGo cs n

def balanced (s : Str) : Bool := balancedGo s 0

/-- the scanning loop of `split_logical_operator` for the operator `op op` (`op` is `&` or `|`):
the raw pieces between top-level occurrences (`cur` = `current_part`, `d` = `paren_count`) -/
def splitRaw (op : Char) : Str → Str → Int → List Str
  | [], cur, _ => [cur]
  | c :: rest, cur, d =>
    if c == '(' then splitRaw op rest (cur ++ [c]) (d + 1)
    else if c == ')' then splitRaw op rest (cur ++ [c]) (d - 1)
    else if c == op && d == 0 then
      match rest with
      | c2 :: rest' =>
        if c2 == op then cur :: splitRaw op rest' [] d
        else splitRaw op (c2 :: rest') (cur ++ [c]) d
      | [] => [cur ++ [c]]
    else splitRaw op rest (cur ++ [c]) d

/-- `split_logical_operator`: every piece before an operator is pushed trimmed (even if empty),
the last one only if it is not blank; `None` unless there are at least two parts -/
def splitLogical (op : Char) (s : Str) : Option (List Str) :=
  let raw := splitRaw op s [] 0
  let parts := (raw.dropLast.map trim) ++ (if (trim (raw.getLast?.getD [])).isEmpty then [] else [trim (raw.getLast?.getD [])])
  if parts.length > 1 then some parts else none

def foldCond (f : Cond α → Cond α → Cond α) : List (Cond α) → Except Err (Cond α)
  | [] => .error .parse
  | c :: cs => .ok (cs.foldl f c)

def sExists : Str := "exists(".toList
def sForall : Str := "forall(".toList
def sAccumulate : Str := "accumulate(".toList

/-- `parse_when_clause`, parametric in the leaf parser (`parse_single_condition`).
Every recursive call is on a strictly shorter string; the fuel is that bound. -/
def parseWhenF (A : Str → Except Err α) : Nat → Str → Except Err (Cond α)
  | 0, _ => .error .fuel
  | f + 1, s =>
    let t := trim s
    if t.head? == some '(' && t.getLast? == some ')' && balanced (t.drop 1).dropLast then
      parseWhenF A f (t.drop 1).dropLast                       -- fix F-C04g: strip again
    else
      match splitLogical '|' t with
      | some parts => do
        let cs ← parts.mapM (parseWhenF A f)
        foldCond Cond.or cs
      | none =>
        match splitLogical '&' t with
        | some parts => do
          let cs ← parts.mapM (parseWhenF A f)
          foldCond Cond.and cs
        | none =>
          if t.head? == some '!' then
            (parseWhenF A f (trim (t.drop 1))).map Cond.not
          else if startsWith t sExists then
            if t.getLast? == some ')' then (parseWhenF A f (t.drop 7).dropLast).map Cond.ex else .error .parse
          else if startsWith t sForall then
            if t.getLast? == some ')' then (parseWhenF A f (t.drop 7).dropLast).map Cond.fa else .error .parse
          else if startsWith t sAccumulate then .error .unmodelled
          else (A t).map Cond.single

def parseWhen (A : Str → Except Err α) (s : Str) : Except Err (Cond α) := parseWhenF A (s.length + 1) s

/-! ## `parse_value` -/

/-- `str::parse::<i64>` / `<i32>`: optional sign, at least one digit, range check -/
def signSplit : Str → Bool × Str
  | '-' :: r => (true, r)
  | '+' :: r => (false, r)
  | r => (false, r)

def parseIntIn (lo hi : Int) (s : Str) : Option Int :=
  let (neg, ds) := signSplit s
  if ds.isEmpty || !ds.all isDigit then none
  else
    let v : Int := if neg then -(digitsVal ds : Int) else (digitsVal ds : Int)
    if lo ≤ v && v ≤ hi then some v else none

def parseI64 : Str → Option Int := parseIntIn (-9223372036854775808) 9223372036854775807
def parseI32 : Str → Option Int := parseIntIn (-2147483648) 2147483647

def isArith (c : Char) : Bool := c == '+' || c == '-' || c == '*' || c == '/' || c == '%'

/-- `is_expression` -/
def isExpression (s : Str) : Bool := s.any isArith && (s.contains '.' || s.contains ' ')

/-- `is_identifier` (ASCII inputs) -/
def isIdentifier (s : Str) : Bool :=
  match s with
  | [] => false
  | c :: _ => isIdStart c && s.all isWord

/-- element splitting of `parse_array_literal`: commas outside quotes; blank elements dropped -/
def splitArray : Str → Str → Option Char → List Str
  | [], cur, _ => if (trim cur).isEmpty then [] else [trim cur]
  | c :: cs, cur, none =>
    if c == '"' || c == '\'' then splitArray cs (cur ++ [c]) (some c)
    else if c == ',' then (if (trim cur).isEmpty then [] else [trim cur]) ++ splitArray cs [] none
    else splitArray cs (cur ++ [c]) none
  | c :: cs, cur, some q =>
    if c == q then splitArray cs (cur ++ [c]) none else splitArray cs (cur ++ [c]) (some q)

/-- the scalar part of `parse_value`'s classification chain (everything but arrays) -/
def parseScalar (X : Ext) (T : List Str) (t : Str) : Value :=
  let inner := (t.drop 1).dropLast
  if t.length ≥ 2 && ((t.head? == some '"' && t.getLast? == some '"' && !inner.contains '"')
      || (t.head? == some '\'' && t.getLast? == some '\'' && !inner.contains '\'')) then .str (unmask T inner)
  else if lower t == "true".toList then .bool true
  else if lower t == "false".toList then .bool false
  else if lower t == "null".toList then .null
  else match parseI64 t with
    | some i => .int i
    | none =>
      match X.parseF64 t with
      | some b => .num b
      | none =>
        if isExpression t then .expr (unmask T t)
        else if t.contains '.' then .expr (unmask T t)
        else if isIdentifier t then .expr (unmask T t)
        else .str (unmask T t)

/-- `parse_value` (fuel = nesting depth of array literals; elements are strictly shorter) -/
def parseValueF (X : Ext) (T : List Str) : Nat → Str → Value
  | 0, s => parseScalar X T (trim s)
  | f + 1, s =>
    let t := trim s
    if t.head? == some '[' && t.getLast? == some ']' then
      let inner := trim (t.drop 1).dropLast
      if inner.isEmpty then .arr []
      else .arr ((splitArray inner [] none).map (parseValueF X T f))
    else parseScalar X T t

def parseValue (X : Ext) (T : List Str) (s : Str) : Value := parseValueF X T s.length s

/-! ## `Value::to_string` -/

def intShow (i : Int) : Str := (toString i).toList

def valueShow (X : Ext) : Value → Str
  | .str s => s
  | .num b => X.f64Show b
  | .int i => intShow i
  | .bool b => if b then "true".toList else "false".toList
  | .arr _ => "[Array]".toList
  | .null => "null".toList
  | .expr e => "[Expr: ".toList ++ e ++ [']']

/-! ## regex pieces -/

/-- the comparison operator alternation, in the order of the pattern; `words` adds the word operators -/
def opTable (words : Bool) : List (Str × Op) :=
  [(">=".toList, .ge), ("<=".toList, .le), ("==".toList, .eq), ("!=".toList, .ne), (">".toList, .gt), ("<".toList, .lt)] ++
  (if words then [("contains".toList, .contains), ("startsWith".toList, .startsWith), ("endsWith".toList, .endsWith),
                  ("matches".toList, .matches_), ("in".toList, .in_)] else [])

/-- first alternative that is a prefix: (operator text, operator, rest) -/
def matchOp (words : Bool) (s : Str) : Option (Str × Op × Str) :=
  (opTable words).findSome? fun (t, o) => if t.isPrefixOf s then some (t, o, s.drop t.length) else none

/-- `[a-zA-Z_]\w*` at the head: (identifier, rest) -/
def takeIdent (s : Str) : Option (Str × Str) :=
  match s with
  | c :: _ => if isIdStart c then some (s.takeWhile isWord, s.dropWhile isWord) else none
  | [] => none

/-- `[a-zA-Z_]\w*\.[a-zA-Z_]\w*` at the head (multifield patterns) -/
def takeDotted2 (s : Str) : Option (Str × Str) := do
  let (a, r) ← takeIdent s
  match r with
  | '.' :: r' =>
    let (b, r'') ← takeIdent r'
    some (a ++ ['.'] ++ b, r'')
  | _ => none

/-- `(?:\.[a-zA-Z_][a-zA-Z0-9_]*)*` -/
def takeDots : Nat → Str → Str × Str
  | 0, s => ([], s)
  | f + 1, s =>
    match s with
    | '.' :: r =>
      match takeIdent r with
      | some (b, r') => let (more, r'') := takeDots f r'; ('.' :: b ++ more, r'')
      | none => ([], s)
    | _ => ([], s)

def isArithOperand (c : Char) : Bool := isWord c || c == '.'

/-- `(?:\s*[+\-*/%]\s*[a-zA-Z0-9_\.]+)*` -/
def takeArithTail : Nat → Str → Str × Str
  | 0, s => ([], s)
  | f + 1, s =>
    let ws1 := s.takeWhile isWs
    match s.dropWhile isWs with
    | o :: r =>
      if isArith o then
        let ws2 := r.takeWhile isWs
        let r2 := r.dropWhile isWs
        let operand := r2.takeWhile isArithOperand
        if operand.isEmpty then ([], s)
        else
          let (more, rest) := takeArithTail f (r2.dropWhile isArithOperand)
          (ws1 ++ [o] ++ ws2 ++ operand ++ more, rest)
      else ([], s)
    | [] => ([], s)

/-- leftmost match of a pattern given as a matcher at a position -/
def searchFrom (m : Str → Option β) : Str → Option β
  | [] => m []
  | c :: cs => match m (c :: cs) with
    | some r => some r
    | none => searchFrom m cs

/-- split `a, b, c` on every comma and trim (not quote aware, as the code) -/
def splitCommaGo : Str → Str → List Str
  | [], cur => [cur]
  | c :: cs, cur => if c == ',' then cur :: splitCommaGo cs [] else splitCommaGo cs (cur ++ [c])

def splitArgs (T : List Str) (s : Str) : List Str :=
  if (trim s).isEmpty then [] else (splitCommaGo s []).map fun a => unmask T (trim a)

/-! ## `parse_single_condition` -/

def bTrue : Value := .bool true

/-- the anchored multi-field patterns 1,3–7 -/
def matchMultifield (X : Ext) (T : List Str) (c : Str) : Option (Except Err Condition) := do
  let (field, r) ← takeDotted2 c
  -- every pattern continues with `\s+`
  if r.takeWhile isWs |>.isEmpty then none else
  let r := r.dropWhile isWs
  -- 1: `(\$\?[a-zA-Z_]\w*)$`
  match r with
  | '$' :: '?' :: r' =>
    match takeIdent r' with
    | some (v, []) => some (.ok ⟨.multi field "collect".toList (some ('$' :: '?' :: v)), .eq, bTrue⟩)
    | _ => none
  | _ =>
    if startsWith r "count".toList then
      -- 3: `count\s*(>=|<=|==|!=|>|<)\s*(.+)$`
      let r1 := trimStart (r.drop 5)
      match matchOp false r1 with
      | some (_, o, r2) =>
        let v := trimStart r2
        if v.isEmpty then none else some (.ok ⟨.multi field "count".toList none, o, parseValue X T v⟩)
      | none => none
    else if r == "first".toList then some (.ok ⟨.multi field "first".toList none, .eq, bTrue⟩)
    else if r == "last".toList then some (.ok ⟨.multi field "last".toList none, .eq, bTrue⟩)
    else if startsWith r "first".toList || startsWith r "last".toList then
      -- 4,5: `(?:\s+(\$[a-zA-Z_]\w*))?$` — the variable capture is not reported by `rexile`
      let k := if startsWith r "first".toList then 5 else 4
      let r1 := r.drop k
      if (r1.takeWhile isWs).isEmpty then none else
      match r1.dropWhile isWs with
      | '$' :: r2 =>
        match takeIdent r2 with
        | some (_, []) => some (.ok ⟨.multi field (r.take k) none, .eq, bTrue⟩)
        | _ => none
      | _ => none
    else if r == "empty".toList then some (.ok ⟨.multi field "empty".toList none, .eq, bTrue⟩)
    else if r == "not_empty".toList then some (.ok ⟨.multi field "not_empty".toList none, .eq, bTrue⟩)
    else none

/-- `^test\s*\(\s*([a-zA-Z_]\w*)\s*\(([^)]*)\)\s*\)$` -/
def matchTest (T : List Str) (c : Str) : Option Condition :=
  if !startsWith c "test".toList then none else
  match trimStart (c.drop 4) with
  | '(' :: r =>
    match takeIdent (trimStart r) with
    | some (name, r1) =>
      match trimStart r1 with
      | '(' :: r2 =>
        let args := r2.takeWhile (· != ')')
        match r2.dropWhile (· != ')') with
        | ')' :: r3 =>
          if trimStart r3 == [')'] then some ⟨.test name (splitArgs T args), .eq, bTrue⟩ else none
        | _ => none
      | _ => none
    | none => none
  | _ => none

/-- `([a-zA-Z_]\w*)\s*\(([^)]*)\)\s*(op)\s*(.+)` at a position -/
def matchCallAt (s : Str) : Option (Str × Str × Str × Op × Str) := do
  let (name, r) ← takeIdent s
  match trimStart r with
  | '(' :: r1 =>
    let args := r1.takeWhile (· != ')')
    match r1.dropWhile (· != ')') with
    | ')' :: r2 =>
      let (ot, o, r3) ← matchOp true (trimStart r2)
      let v := trimStart r3
      if v.isEmpty then none else some (name, args, ot, o, v)
    | _ => none
  | _ => none

/-- `condition_regex` at a position: (left side, operator text, operator, value text) -/
def matchCondAt (s : Str) : Option (Str × Str × Op × Str) := do
  let (a, r) ← takeIdent s
  let (dots, r1) := takeDots r.length r
  let (tail, r2) := takeArithTail r1.length r1
  let (ot, o, r3) ← matchOp true (trimStart r2)
  let v := trimStart r3
  if v.isEmpty then none else some (a ++ dots ++ tail, ot, o, v)

def sFromStream : Str := "from stream(".toList

/-- `parse_single_condition` -/
def parseSingleCondition (X : Ext) (T : List Str) (clause : Str) : Except Err Condition :=
  let t := trim clause
  let c := if t.head? == some '(' && t.getLast? == some ')' then trim (t.drop 1).dropLast else t
  if containsSub c sFromStream then .error .unmodelled else
  match matchMultifield X T c with
  | some r => r
  | none =>
    match matchTest T c with
    | some r => .ok r
    | none =>
      -- typed_test_condition_regex starts with `\$`: never matches under `rexile`
      match searchFrom matchCallAt c with
      | some (name, args, _, o, v) => .ok ⟨.call name (splitArgs T args), o, parseValue X T (trim v)⟩
      | none =>
        match searchFrom matchCondAt c with
        | none => .error .parse
        | some (left, ot, o, v) =>
          let left := trim left
          let v := trim v
          if left.any isArith then
            .ok ⟨.test (left ++ [' '] ++ ot ++ [' '] ++ unmask T v) [], .eq, bTrue⟩
          else .ok ⟨.field left, o, parseValue X T v⟩

/-! ## `parse_then_clause`, `parse_action_statement` -/

/-- `str::split(';')` -/
def splitOnChar (d : Char) : Str → Str → List Str
  | [], cur => [cur]
  | c :: cs, cur => if c == d then cur :: splitOnChar d cs [] else splitOnChar d cs (cur ++ [c])

/-- the statements of a `then` part -/
def statements (s : Str) : List Str :=
  ((splitOnChar ';' s []).map trim).filter (fun p => !p.isEmpty)

/-- `(\w+)\s*\(\s*(.+?)?\s*\)` at a position: (name, argument text).  Under `rexile` the lazy optional
group behaves greedily: the text runs to the *last* `)`, leading white space removed, trailing kept -/
def matchBindingAt (s : Str) : Option (Str × Str) :=
  let w := s.takeWhile isWord
  if w.isEmpty then none else
  match trimStart (s.dropWhile isWord) with
  | '(' :: r =>
    if r.contains ')' then some (w, trimStart ((r.reverse.dropWhile (· != ')')).drop 1).reverse) else none
  | _ => none

def indexed (vs : List Value) : List (Str × Value) :=
  (List.range vs.length).zip vs |>.map fun (i, v) => (natDigits i, v)

def stripDollar (s : Str) : Str := match s with | '$' :: r => r | r => r

/-- `str::trim_matches('"')` -/
def trimQuotes (s : Str) : Str := ((s.dropWhile (· == '"')).reverse.dropWhile (· == '"')).reverse

def asName (X : Ext) (v : Value) : Str := match v with | .str s => s | v => valueShow X v

/-- `parse_action_statement` -/
def parseAction (X : Ext) (T : List Str) (statement : Str) : Except Err Action :=
  let t := trim statement
  -- method_call_regex starts with `\$`: never matches under `rexile`
  match findSub ['+', '='] t with
  | some p => .ok (.append (unmask T (trim (t.take p))) (parseValue X T (trim (t.drop (p + 2)))))
  | none =>
    match findSub ['='] t with
    | some p => .ok (.set (unmask T (trim (t.take p))) (parseValue X T (trim (t.drop (p + 1)))))
    | none =>
      match searchFrom matchBindingAt t with
      | none => .ok (.custom "statement".toList [("statement".toList, .str (unmask T t))])
      | some (name, args) =>
        let ln := lower name
        if ln == "retract".toList then .ok (.retract (unmask T (stripDollar args)))
        else if ln == "log".toList then
          .ok (.log (if args.isEmpty then "Log message".toList else valueShow X (parseValue X T args)))
        else if ln == "activateagendagroup".toList || ln == "activate_agenda_group".toList then
          if args.isEmpty then .error .parse else .ok (.activate (asName X (parseValue X T args)))
        else if ln == "schedulerule".toList || ln == "schedule_rule".toList then
          match splitCommaGo args [] with
          | [a, b] =>
            let name := asName X (parseValue X T (trim b))
            match parseValue X T (trim a) with
            | .int i => .ok (.schedule name (i % 18446744073709551616).toNat)
            | .num f => .ok (.schedule name (X.f64ToU64 f))
            | _ => .error .parse
          | _ => .error .parse
        else if ln == "completeworkflow".toList || ln == "complete_workflow".toList then
          if args.isEmpty then .error .parse else .ok (.complete (asName X (parseValue X T args)))
        else if ln == "setworkflowdata".toList || ln == "set_workflow_data".toList then
          -- reachable since the masking: the `=` of `SetWorkflowData("key=value")` is inside a literal
          let data := unmask T (trim args)
          match findSub ['='] data with
          | none => .error .parse
          | some p => .ok (.wfdata (trimQuotes (trim (data.take p))) (parseValue X T (trim (data.drop (p + 1)))))
        else
          .ok (.custom name (if args.isEmpty then [] else indexed ((splitCommaGo args []).map fun a => parseValue X T (trim a))))

/-- `parse_then_clause`, parametric in the statement parser -/
def parseThenWith (P : Str → Except Err β) (s : Str) : Except Err (List β) := (statements s).mapM P

def parseThen (X : Ext) (T : List Str) (s : Str) : Except Err (List Action) := parseThenWith (parseAction X T) s

/-! ## header, body, attributes -/

/-- `"[^"]+"` or `[a-zA-Z_]\w*` at the head: (name, rest) -/
def takeRuleName (s : Str) : Option (Str × Str) :=
  match s with
  | '"' :: r =>
    let n := r.takeWhile (· != '"')
    match r.dropWhile (· != '"') with
    | '"' :: r' => if n.isEmpty then none else some (n, r')
    | _ => none
  | _ => takeIdent s

def sRule : Str := "rule".toList

/-- `rule\s+NAME` at a position: (name, rest after the name) -/
def matchRuleHeadAt (s : Str) : Option (Str × Str) :=
  if !startsWith s sRule then none else
  let r := s.drop 4
  if (r.takeWhile isWs).isEmpty then none else takeRuleName (r.dropWhile isWs)

/-- `rule_regex` at a position: (name, attribute section, body); the body runs to the last `}` -/
def matchRuleAt (s : Str) : Option (Str × Str × Str) := do
  let (name, r) ← matchRuleHeadAt s
  let r := trimStart r
  let attrs := r.takeWhile (· != '{')
  match r.dropWhile (· != '{') with
  | '{' :: b =>
    -- `(.+)\}` greedy: up to the last `}`
    let rev := b.reverse.dropWhile (· != '}')
    match rev with
    | '}' :: body => if body.isEmpty then none else some (name, attrs, body.reverse)
    | _ => none
  | _ => none

/-- `rule_split_regex` + `find_iter`: the rule texts, each up to its first `}` -/
def splitRulesF : Nat → Str → List Str
  | 0, _ => []
  | f + 1, s =>
    match s with
    | [] => []
    | _ :: cs =>
      match matchRuleHeadAt s with
      | some (_, r) =>
        if r.contains '}' then
          let body := r.takeWhile (· != '}')
          let rest := (r.dropWhile (· != '}')).drop 1
          (s.take (s.length - r.length) ++ body ++ ['}']) :: splitRulesF f rest
        else splitRulesF f cs
      | none => splitRulesF f cs

def splitRules (s : Str) : List Str := splitRulesF (s.length + 1) s

def sWhen : Str := "when".toList
def sThen : Str := "then".toList

/-- `\s+then\s+(.+)` at a position: the text after it -/
def matchThenAt (s : Str) : Option Str :=
  if (s.takeWhile isWs).isEmpty then none else
  let r := s.dropWhile isWs
  if !startsWith r sThen then none else
  let r1 := r.drop 4
  if (r1.takeWhile isWs).isEmpty then none else
  let r2 := r1.dropWhile isWs
  if r2.isEmpty then none else some r2

/-- lazy `(.+?)` followed by `\s+then\s+(.+)`: (when text, then text) -/
def lazyThen : Str → Str → Option (Str × Str)
  | [], _ => none
  | c :: cs, acc =>
    -- group 1 has at least one character
    match (if acc.isEmpty then none else matchThenAt (c :: cs)) with
    | some th => some (acc, th)
    | none => lazyThen cs (acc ++ [c])

/-- `when_then_regex` at a position -/
def matchWhenAt (s : Str) : Option (Str × Str) :=
  if !startsWith s sWhen then none else
  let r := s.drop 4
  if (r.takeWhile isWs).isEmpty then none else lazyThen (r.dropWhile isWs) []

/-- remove every `"[^"]*"` (an unterminated quote is kept with what follows it);
`buf` = the text since an opening quote -/
def removeQuotedGo : Str → Option Str → Str
  | [], none => []
  | [], some buf => '"' :: buf
  | c :: cs, none => if c == '"' then removeQuotedGo cs (some []) else c :: removeQuotedGo cs none
  | c :: cs, some buf => if c == '"' then removeQuotedGo cs none else removeQuotedGo cs (some (buf ++ [c]))

def removeQuoted (s : Str) : Str := removeQuotedGo s none

def sSalience : Str := "salience".toList

/-- `salience\s+(-?\d+)` at a position: the number text -/
def matchSalienceAt (s : Str) : Option Str :=
  if !startsWith s sSalience then none else
  let r := s.drop 8
  if (r.takeWhile isWs).isEmpty then none else
  let r := r.dropWhile isWs
  let (sign, ds) := match r with | '-' :: r' => (['-'], r') | r' => ([], r')
  let d := ds.takeWhile isDigit
  if d.isEmpty then none else some (sign ++ d)

/-- `extract_salience` (fixes F-C04a, F-C04e) -/
def extractSalience (attrs : Str) : Except Err Int :=
  match searchFrom matchSalienceAt (removeQuoted attrs) with
  | none => .ok 0
  | some t => match parseI32 t with
    | some v => .ok v
    | none => .error .parse

/-- `\bKW\b` somewhere in `s` (`prev` = the character before the current position) -/
def hasWordGo (kw : Str) : Str → Option Char → Bool
  | [], _ => false
  | c :: cs, prev =>
    (kw.isPrefixOf (c :: cs) && !(prev.map isWord).getD false
      && !((((c :: cs).drop kw.length).head?.map isWord).getD false))
    || hasWordGo kw cs (some c)

def hasWord (kw s : Str) : Bool := hasWordGo kw s none

/-- `KW\s+"([^"]+)"` at a position -/
def matchQuotedAttrAt (kw : Str) (s : Str) : Option Str :=
  if !startsWith s kw then none else
  let r := s.drop kw.length
  if (r.takeWhile isWs).isEmpty then none else
  match r.dropWhile isWs with
  | '"' :: r' =>
    let v := r'.takeWhile (· != '"')
    match r'.dropWhile (· != '"') with
    | '"' :: _ => if v.isEmpty then none else some v
    | _ => none
  | _ => none

def quotedAttr (T : List Str) (kw : String) (header : Str) : Option Str := (searchFrom (matchQuotedAttrAt kw.toList) header).map (unmask T)

def attrKeywords : List Str :=
  ["salience", "no-loop", "lock-on-active", "agenda-group", "activation-group", "date-effective", "date-expires"].map String.toList

/-- the section `parse_rule_attributes` searches for the boolean attributes -/
def boolAttrSection (header : Str) : Str :=
  let s := removeQuoted header
  match findSub sRule s with
  | none => s
  | some p =>
    let after := s.drop (p + 4)
    match attrKeywords.findSome? (fun k => findSub k after) with
    | some k => after.drop k
    | none => s

structure Attrs where
  noLoop : Bool
  lockOnActive : Bool
  agendaGroup : Option Str
  activationGroup : Option Str
  dateEffective : Option Int
  dateExpires : Option Int
deriving Repr, BEq

def parseDateOpt (X : Ext) (o : Option Str) : Except Err (Option Int) :=
  match o with
  | none => .ok none
  | some d => match X.parseDate d with
    | some t => .ok (some t)
    | none => .error .parse

/-- `parse_rule_attributes` -/
def parseAttrs (X : Ext) (T : List Str) (header : Str) : Except Err Attrs := do
  let sec := boolAttrSection header
  let de ← parseDateOpt X (quotedAttr T "date-effective" header)
  let dx ← parseDateOpt X (quotedAttr T "date-expires" header)
  pure { noLoop := hasWord "no-loop".toList sec, lockOnActive := hasWord "lock-on-active".toList sec,
         agendaGroup := quotedAttr T "agenda-group" header, activationGroup := quotedAttr T "activation-group" header,
         dateEffective := de, dateExpires := dx }

/-! ## entry points -/

/-- `parse_prepared_rule`: one rule from prepared text (`T` = the literal table) -/
def parsePreparedRule (X : Ext) (T : List Str) (text : Str) : Except Err Rule := do
  let cleaned := cleanText text
  match searchFrom matchRuleAt cleaned with
  | none => .error .parse
  | some (name, attrs, body) =>
    let sal ← extractSalience attrs
    match searchFrom matchWhenAt body with
    | none => .error .parse
    | some (w, th) =>
      let cond ← parseWhen (parseSingleCondition X T) (trim w)
      let acts ← parseThen X T (trim th)
      let ats ← parseAttrs X T attrs
      pure { name := unmask T name, salience := sal, noLoop := ats.noLoop, lockOnActive := ats.lockOnActive,
             agendaGroup := ats.agendaGroup, activationGroup := ats.activationGroup,
             dateEffective := ats.dateEffective, dateExpires := ats.dateExpires, cond := cond, actions := acts }

/-- `GRLParser::prepare`: the masked text (the table is `lits` of the same text) -/
def prepare (s : Str) : Str := mask (stripComments s none)
def prepareLits (s : Str) : List Str := lits (stripComments s none)

/-- `parse_single_rule` (= `GRLParser::parse_rule`) -/
def parseSingleRule (X : Ext) (text : Str) : Except Err Rule := parsePreparedRule X (prepareLits text) (prepare text)

/-- `parse_prepared_rules` -/
def parsePreparedRules (X : Ext) (T : List Str) (text : Str) : Except Err (List Rule) :=
  (splitRules text).mapM (parsePreparedRule X T)

/-- `parse_multiple_rules` (= `GRLParser::parse_rules`) -/
def parseRules (X : Ext) (text : Str) : Except Err (List Rule) := parsePreparedRules X (prepareLits text) (prepare text)

def sDefmodule : Str := "defmodule".toList

/-- `defmodule\s+[A-Z_]\w*\s*\{[^}]*\}` at a position: the rest after the block -/
def matchDefmoduleAt (s : Str) : Option Str :=
  if !startsWith s sDefmodule then none else
  let r := s.drop 9
  if (r.takeWhile isWs).isEmpty then none else
  match r.dropWhile isWs with
  | c :: r1 =>
    if (('A' ≤ c && c ≤ 'Z') || c == '_') then
      match trimStart (r1.dropWhile isWord) with
      | '{' :: r2 =>
        match r2.dropWhile (· != '}') with
        | '}' :: r3 => some r3
        | _ => none
      | _ => none
    else none
  | [] => none

/-- `defmodule_split_regex().replace_all(text, "")` -/
def removeDefmodulesF : Nat → Str → Str
  | 0, s => s
  | f + 1, s =>
    match s with
    | [] => []
    | c :: cs =>
      match matchDefmoduleAt s with
      | some rest => removeDefmodulesF f rest
      | none => c :: removeDefmodulesF f cs

/-- the rules returned by `GRLParser::parse_with_modules` -/
def parseWithModules (X : Ext) (text : Str) : Except Err (List Rule) :=
  let t := prepare text
  parsePreparedRules X (prepareLits text) (removeDefmodulesF (t.length + 1) t)

end C04
