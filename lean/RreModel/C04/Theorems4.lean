import RreModel.C04.Theorems3
/-
C04 — property theorems, part 4: LEAVES.  The whole-file theorems of part 3 return, at every leaf, "what the leaf parser
returns on the leaf text".  Here the leaf parsers are followed on leaves AS WRITTEN for a first class of leaves:
* `parseSingleCondition_cmp_int` — `Object.field op <i64>` (six symbolic operators) is the comparison that was written: through
  the whole dispatch of `parse_single_condition` (multifield patterns, `test(…)`, function-call regex, condition regex);
* `parseAction_set_int` (part 3) — `field = <i64>` is the assignment that was written;
* `parseRules_render_int` — the property's own sentence with NOTHING left abstract for files over this sub-grammar.
The other leaf forms (strings, floats, arrays, calls, multifield patterns, the other actions) are exercised by the
correspondence check; their leaf-level round trips are not proved.
-/
namespace C04

/-- the six symbolic comparison operators -/
def symOp : Op → Option Str
  | .ge => some ['>', '='] | .le => some ['<', '='] | .eq => some ['=', '='] | .ne => some ['!', '=']
  | .gt => some ['>'] | .lt => some ['<'] | _ => none

theorem searchFrom_none (m : Str → Option β) (s : Str) (h : ∀ a b, s = a ++ b → m b = none) : searchFrom m s = none := by
  induction s with
  | nil => simp only [searchFrom]; exact h [] [] rfl
  | cons c cs ih =>
    simp only [searchFrom, h [] (c :: cs) rfl]
    exact ih (fun a b hab => h (c :: a) b (by simp [hab]))

theorem dropWhile_subset (p : Char → Bool) (s : Str) : ∀ c ∈ s.dropWhile p, c ∈ s := by
  intro c hc; exact (List.dropWhile_sublist p).subset hc

theorem matchCallAt_noParen (s : Str) (h : ∀ c ∈ s, c ≠ '(') : matchCallAt s = none := by
  unfold matchCallAt
  cases hi : takeIdent s with
  | none => rfl
  | some nr =>
    obtain ⟨name, r⟩ := nr
    have hr : r = s.dropWhile isWord := by
      unfold takeIdent at hi
      cases s with
      | nil => simp at hi
      | cons c cs => simp only at hi; split at hi <;> simp at hi; exact hi.2.symm
    simp only [Option.bind_eq_bind, Option.bind_some]
    have : ∀ c ∈ trimStart r, c ≠ '(' := by
      intro c hc; exact h c (by rw [hr] at hc; exact dropWhile_subset _ _ c (dropWhile_subset _ _ c hc))
    split
    · rename_i heq; exact absurd rfl (this '(' (by rw [heq]; simp))
    · rfl

theorem isWord_props {c : Char} (h : isWord c = true) :
    isWs c = false ∧ c ≠ '.' ∧ c ≠ '(' ∧ isArith c = false ∧ c ≠ mStart ∧ c ≠ '"' := by
  refine ⟨?_, ?_, ?_, ?_, ?_, ?_⟩
  · cases hw : isWs c with
    | false => rfl
    | true => rw [isWord_ws_false hw] at h; exact absurd h (by simp)
  · intro e; subst e; revert h; decide
  · intro e; subst e; revert h; decide
  · cases ha : isArith c with
    | false => rfl
    | true =>
      unfold isArith at ha
      simp only [Bool.or_eq_true, beq_iff_eq] at ha
      rcases ha with (((rfl | rfl) | rfl) | rfl) | rfl <;> (revert h; decide)
  · intro e; subst e; revert h; decide
  · intro e; subst e; revert h; decide

theorem matchTest_noParen (T : List Str) (s : Str) (h : ∀ c ∈ s, c ≠ '(') : matchTest T s = none := by
  unfold matchTest
  split
  · rfl
  · have : ∀ c ∈ trimStart (s.drop 4), c ≠ '(' := by
      intro c hc; exact h c (List.mem_of_mem_drop (dropWhile_subset _ _ c hc))
    split
    · rename_i heq; exact absurd rfl (this '(' (by rw [heq]; simp))
    · rfl

structure Ident (a : Str) : Prop where
  head : ∃ c cs, a = c :: cs ∧ isIdStart c = true
  word : ∀ c ∈ a, isWord c = true

theorem takeIdent_hit (a : Str) (ha : Ident a) (d : Char) (r : Str) (hd : isWord d = false) :
    takeIdent (a ++ d :: r) = some (a, d :: r) := by
  obtain ⟨⟨c, cs, rfl, hc⟩, hw⟩ := ha
  have t := takeWhile_stop isWord (c :: cs) d r hw hd
  simp only [List.cons_append] at t ⊢
  simp only [takeIdent, hc, if_true, t.1, t.2]

theorem opTable_true_eq : opTable true =
    [(['>', '='], .ge), (['<', '='], .le), (['=', '='], .eq), (['!', '='], .ne), (['>'], .gt), (['<'], .lt),
     ("contains".toList, .contains), ("startsWith".toList, .startsWith), ("endsWith".toList, .endsWith),
     ("matches".toList, .matches_), ("in".toList, .in_)] := by decide +kernel

theorem matchOp_sym (o : Op) (sym : Str) (h : symOp o = some sym) (rest : Str) :
    matchOp true (sym ++ ' ' :: rest) = some (sym, o, ' ' :: rest) := by
  unfold matchOp
  rw [opTable_true_eq]
  cases o <;> simp [symOp] at h <;> subst h <;> simp [List.findSome?, List.isPrefixOf]

theorem symOp_head (o : Op) (sym : Str) (h : symOp o = some sym) :
    ∃ c t, sym = c :: t ∧ (c = '>' ∨ c = '<' ∨ c = '=' ∨ c = '!') := by
  cases o <;> simp [symOp] at h <;> subst h <;> exact ⟨_, _, rfl, by simp⟩


theorem kwlits : "count".toList = ['c', 'o', 'u', 'n', 't'] ∧ "first".toList = ['f', 'i', 'r', 's', 't'] ∧ "last".toList = ['l', 'a', 's', 't']
    ∧ "empty".toList = ['e', 'm', 'p', 't', 'y'] ∧ "not_empty".toList = ['n', 'o', 't', '_', 'e', 'm', 'p', 't', 'y'] := by decide +kernel

/-- the text after the field: ` op <rest>` -/
theorem matchMultifield_sym (X : Ext) (T : List Str) (a b : Str) (ha : Ident a) (hb : Ident b) (c0 : Char) (t rest : Str)
    (hc0 : c0 = '>' ∨ c0 = '<' ∨ c0 = '=' ∨ c0 = '!') :
    matchMultifield X T (a ++ '.' :: (b ++ ' ' :: (c0 :: t ++ rest))) = none := by
  unfold matchMultifield takeDotted2
  rw [takeIdent_hit a ha '.' _ (by decide)]
  simp only [Option.bind_eq_bind, Option.bind_some]
  rw [takeIdent_hit b hb ' ' _ (by decide)]
  simp only [Option.bind_some]
  obtain ⟨k1, k2, k3, k4, k5⟩ := kwlits
  have hw : isWs c0 = false := by rcases hc0 with rfl | rfl | rfl | rfl <;> decide
  simp only [List.takeWhile_cons, List.dropWhile_cons, show isWs ' ' = true from rfl, if_true, List.cons_append, hw,
    Bool.false_eq_true, if_false, List.isEmpty_cons, k1, k2, k3, k4, k5]
  rcases hc0 with rfl | rfl | rfl | rfl <;> simp [startsWith, List.isPrefixOf]

theorem matchCondAt_hit (a b : Str) (ha : Ident a) (hb : Ident b) (o : Op) (sym : Str) (ho : symOp o = some sym) (v : Str)
    (hv : ∃ c, v.head? = some c ∧ isWs c = false) :
    matchCondAt (a ++ '.' :: (b ++ ' ' :: (sym ++ ' ' :: v))) = some (a ++ '.' :: b, sym, o, v) := by
  obtain ⟨c0, t0, rfl, hc0⟩ := symOp_head o _ ho
  have hw : isWs c0 = false := by rcases hc0 with rfl | rfl | rfl | rfl <;> decide
  have har : isArith c0 = false := by rcases hc0 with rfl | rfl | rfl | rfl <;> decide
  unfold matchCondAt
  rw [takeIdent_hit a ha '.' _ (by decide)]
  simp only [Option.bind_eq_bind, Option.bind_some]
  -- the dotted tail
  have hdots : takeDots ('.' :: (b ++ ' ' :: (c0 :: t0 ++ ' ' :: v))).length ('.' :: (b ++ ' ' :: (c0 :: t0 ++ ' ' :: v)))
      = ('.' :: b, ' ' :: (c0 :: t0 ++ ' ' :: v)) := by
    simp only [List.length_cons, takeDots]
    rw [takeIdent_hit b hb ' ' _ (by decide)]
    simp only
    cases hl : (b ++ ' ' :: (c0 :: t0 ++ ' ' :: v)).length with
    | zero => simp [takeDots]
    | succ n => simp [takeDots]
  rw [hdots]
  simp only
  have htail : takeArithTail (' ' :: (c0 :: t0 ++ ' ' :: v)).length (' ' :: (c0 :: t0 ++ ' ' :: v)) = ([], ' ' :: (c0 :: t0 ++ ' ' :: v)) := by
    simp only [List.length_cons, takeArithTail, List.takeWhile_cons, List.dropWhile_cons, show isWs ' ' = true from rfl, if_true,
      List.cons_append, hw, Bool.false_eq_true, if_false, har]
  rw [htail]
  simp only [trimStart, List.dropWhile_cons, show isWs ' ' = true from rfl, if_true, List.cons_append, hw, Bool.false_eq_true, if_false]
  have hm := matchOp_sym o (c0 :: t0) ho v
  simp only [List.cons_append] at hm
  rw [hm]
  simp only [Option.bind_some]
  obtain ⟨c, hc, hcw⟩ := hv
  cases v with
  | nil => simp at hc
  | cons d ds =>
    simp at hc; subst hc
    simp [List.dropWhile_cons, hcw, show isWs ' ' = true from rfl]

/-- **`parse_single_condition` on `Object.field op <integer>`** (any two identifiers, the six symbolic comparison operators,
any `i64`, one blank around the operator): the comparison that was written — field `Object.field`, that operator, that integer. -/
theorem parseSingleCondition_cmp_int (X : Ext) (T : List Str) (a b : Str) (ha : Ident a) (hb : Ident b) (o : Op) (sym : Str)
    (ho : symOp o = some sym) (i : Int) (hlo : -9223372036854775808 ≤ i) (hhi : i ≤ 9223372036854775807)
    (hfs : containsSub (a ++ '.' :: (b ++ ' ' :: (sym ++ ' ' :: intShow i))) sFromStream = false) :
    parseSingleCondition X T (a ++ '.' :: (b ++ ' ' :: (sym ++ ' ' :: intShow i))) = .ok ⟨.field (a ++ '.' :: b), o, .int i⟩ := by
  obtain ⟨⟨ih, hih, hihd⟩, ⟨il, hil, hild⟩⟩ := intShow_edges i
  have hihw : isWs ih = false := by rcases hihd with h | h; exact isDigit_notWs h; subst h; decide
  have hiE : Edges (intShow i) := ⟨⟨ih, hih, hihw⟩, ⟨il, hil, isDigit_notWs hild⟩⟩
  obtain ⟨a0, as, hae, ha0⟩ := ha.head
  obtain ⟨c0, t0, hsym, hc0⟩ := symOp_head o _ ho
  generalize hc : a ++ '.' :: (b ++ ' ' :: (sym ++ ' ' :: intShow i)) = c at hfs ⊢
  have hE : Edges c := by
    rw [← hc, hae]
    refine ⟨⟨a0, rfl, (isIdStart_ne ha0).2⟩, ⟨il, ?_, isDigit_notWs hild⟩⟩
    rw [show a0 :: as ++ '.' :: (b ++ ' ' :: (sym ++ ' ' :: intShow i)) = (a0 :: as ++ '.' :: (b ++ ' ' :: (sym ++ [' ']))) ++ intShow i by simp]
    exact getLast_append_some _ _ _ hil
  have hnp : ∀ x ∈ c, x ≠ '(' := by
    intro x hx
    rw [← hc] at hx
    simp only [List.mem_append, List.mem_cons] at hx
    rcases hx with h | rfl | h | rfl | h | rfl | h
    · exact (isWord_props (ha.word x h)).2.2.1
    · decide
    · exact (isWord_props (hb.word x h)).2.2.1
    · decide
    · cases o <;> simp [symOp] at ho <;> subst ho <;> (revert x; decide)
    · decide
    · have := intShow_kinert i x h
      rcases this with h1 | h1 | h1 | h1
      · intro e; subst e; revert h1; decide
      · subst h1; decide
      · subst h1; decide
      · exact h1.ne.1
  have hhead : c.head? = some a0 := by rw [← hc, hae]; rfl
  unfold parseSingleCondition
  simp only [trim_self hE, hhead]
  have hne : (some a0 == some '(') = false := by
    have : a0 ≠ '(' := by intro e; subst e; revert ha0; decide
    simpa using this
  simp only [hne, Bool.false_and, Bool.false_eq_true, if_false, hfs]
  have hmf : matchMultifield X T c = none := by
    rw [← hc, hsym]; exact matchMultifield_sym X T a b ha hb c0 t0 (' ' :: intShow i) hc0
  rw [hmf, matchTest_noParen T c hnp]
  simp only
  rw [searchFrom_none matchCallAt c (fun x y hxy => matchCallAt_noParen y (fun z hz => hnp z (by rw [hxy]; simp [hz])))]
  simp only
  have hhit : searchFrom matchCondAt c = some (a ++ '.' :: b, sym, o, intShow i) := by
    apply searchFrom_hit
    · rw [← hc, hae]; simp
    · rw [← hc]; exact matchCondAt_hit a b ha hb o sym ho (intShow i) ⟨ih, hih, hihw⟩
  rw [hhit]
  simp only
  have hfE : Edges (a ++ '.' :: b) := by
    obtain ⟨b0, bs, hbe, hb0⟩ := hb.head
    refine ⟨⟨a0, by rw [hae]; rfl, (isIdStart_ne ha0).2⟩, ?_⟩
    have : ∃ l, (a ++ '.' :: b).getLast? = some l ∧ l ∈ b := by
      rw [hbe]
      refine ⟨(b0 :: bs).getLast (by simp), ?_, List.getLast_mem _⟩
      rw [show a ++ '.' :: b0 :: bs = (a ++ ['.']) ++ (b0 :: bs) by simp]
      exact getLast_append_some _ _ _ (List.getLast?_eq_some_getLast (by simp))
    obtain ⟨l, hl, hlb⟩ := this
    exact ⟨l, hl, (isWord_props (hb.word l (hbe ▸ hlb))).1⟩
  have hnoar : (a ++ '.' :: b).any isArith = false := by
    rw [List.any_eq_false]
    intro x hx
    simp only [List.mem_append, List.mem_cons] at hx
    rcases hx with h | rfl | h
    · simp [(isWord_props (ha.word x h)).2.2.2.1]
    · decide
    · simp [(isWord_props (hb.word x h)).2.2.2.1]
  rw [trim_self hfE, trim_self hiE, hnoar]
  simp only [Bool.false_eq_true, if_false]
  rw [parseValue_intShow X T i hlo hhi]

example : parseSingleCondition exX [] ("User.Age >= 18".toList) = .ok ⟨.field "User.Age".toList, .ge, .int 18⟩ := by
  have := parseSingleCondition_cmp_int exX [] ['U', 's', 'e', 'r'] ['A', 'g', 'e'] ⟨⟨'U', _, rfl, by decide⟩, by decide⟩
    ⟨⟨'A', _, rfl, by decide⟩, by decide⟩ .ge ['>', '='] rfl 18 (by decide) (by decide) (by decide +kernel)
  have e : "User.Age >= 18".toList = ['U', 's', 'e', 'r'] ++ '.' :: (['A', 'g', 'e'] ++ ' ' :: (['>', '='] ++ ' ' :: intShow 18)) := by
    decide +kernel
  have e2 : "User.Age".toList = ['U', 's', 'e', 'r'] ++ '.' :: ['A', 'g', 'e'] := by decide +kernel
  rw [e, e2]; exact this

/-! ### the property's sentence, fully concrete, for a sub-grammar: comparisons with integers, assignments of integers -/

/-- a condition atom `Object.field op <integer>` -/
structure CmpInt where
  a : Str
  b : Str
  o : Op
  sym : Str
  i : Int

def CmpInt.text (x : CmpInt) : Str := x.a ++ '.' :: (x.b ++ ' ' :: (x.sym ++ ' ' :: intShow x.i))
/-- the documented meaning -/
def CmpInt.cond (x : CmpInt) : Condition := ⟨.field (x.a ++ '.' :: x.b), x.o, .int x.i⟩

structure CmpInt.Ok (x : CmpInt) : Prop where
  a : Ident x.a
  b : Ident x.b
  o : symOp x.o = some x.sym
  lo : -9223372036854775808 ≤ x.i
  hi : x.i ≤ 9223372036854775807
  noStream : containsSub x.text sFromStream = false

/-- a statement `field = <integer>` -/
structure SetInt where
  f : Str
  i : Int

def SetInt.text (x : SetInt) : Str := x.f ++ (' ' :: '=' :: ' ' :: intShow x.i)
def SetInt.action (x : SetInt) : Action := .set x.f (.int x.i)

structure SetInt.Ok (x : SetInt) : Prop where
  edges : Edges x.f
  chars : ∀ c ∈ x.f, c ≠ '=' ∧ c ≠ '+' ∧ c ≠ mStart ∧ c ≠ '"' ∧ c ≠ '\''
  lo : -9223372036854775808 ≤ x.i
  hi : x.i ≤ 9223372036854775807

theorem CmpInt.parse (X : Ext) (T : List Str) (x : CmpInt) (h : x.Ok) : parseSingleCondition X T x.text = .ok x.cond :=
  parseSingleCondition_cmp_int X T x.a x.b h.a h.b x.o x.sym h.o x.i h.lo h.hi h.noStream

theorem SetInt.parse (X : Ext) (T : List Str) (x : SetInt) (h : x.Ok) : parseAction X T x.text = .ok x.action :=
  parseAction_set_int X T x.f x.i h.edges (fun c hc => ⟨(h.chars c hc).1, (h.chars c hc).2.1, (h.chars c hc).2.2.1⟩) h.lo h.hi

theorem gcOf_eq (X : Ext) (T : List Str) (s : Str) (c : Condition) (h : parseSingleCondition X T s = .ok c) : gcOf X T s = c := by
  unfold gcOf; rw [h]
theorem gaOf_eq (X : Ext) (T : List Str) (s : Str) (c : Action) (h : parseAction X T s = .ok c) : gaOf X T s = c := by
  unfold gaOf; rw [h]

theorem symOp_quoteFree (o : Op) (sym : Str) (h : symOp o = some sym) : QuoteFree sym := by
  cases o <;> simp [symOp] at h <;> subst h <;> (intro c hc; revert c; decide)

theorem CmpInt.quoteFree (x : CmpInt) (h : x.Ok) : QuoteFree x.text := by
  intro c hc
  simp only [CmpInt.text, List.mem_append, List.mem_cons] at hc
  rcases hc with hc | rfl | hc | rfl | hc | rfl | hc
  · exact isWord_quoteFree h.a.word c hc
  · decide
  · exact isWord_quoteFree h.b.word c hc
  · decide
  · exact symOp_quoteFree _ _ h.o c hc
  · decide
  · exact intShow_quoteFree _ c hc

theorem SetInt.quoteFree (x : SetInt) (h : x.Ok) : QuoteFree x.text := by
  intro c hc
  simp only [SetInt.text, List.mem_append, List.mem_cons] at hc
  rcases hc with hc | rfl | rfl | rfl | hc
  · exact ⟨(h.chars c hc).2.2.2.1, (h.chars c hc).2.2.2.2⟩
  · decide
  · decide
  · decide
  · exact intShow_quoteFree _ c hc

/-- every leaf is a rendered `CmpInt`, every statement a rendered `SetInt` -/
def IntGrammar (r : RuleSrc) : Prop :=
  (∀ s ∈ r.cond.leaves, ∃ y : CmpInt, y.Ok ∧ s = y.text) ∧ (∀ st ∈ r.stmts, ∃ y : SetInt, y.Ok ∧ st.2.1 = y.text)

theorem leavesOk_int (X : Ext) (T : List Str) (rs : List (RuleSrc × Str)) (h : ∀ x ∈ rs, IntGrammar x.1) (n : Nat) :
    LeavesOk X T (gcOf X T) (gaOf X T) n rs := by
  induction rs generalizing n with
  | nil => trivial
  | cons x xs ih =>
    obtain ⟨hl, hs⟩ := h x (by simp)
    have q1 : ∀ s ∈ x.1.cond.leaves, QuoteFree s := by
      intro s hsm; obtain ⟨y, hy, rfl⟩ := hl s hsm; exact y.quoteFree hy
    have q2 : ∀ st ∈ x.1.stmts, QuoteFree st.2.1 := by
      intro st hsm; obtain ⟨y, hy, he⟩ := hs st hsm; rw [he]; exact y.quoteFree hy
    refine ⟨⟨?_, ?_⟩, ih (fun y hy => h y (by simp [hy])) _⟩
    · rw [LT.maskAt_code _ q1]
      intro s hsm
      obtain ⟨y, hy, rfl⟩ := hl s hsm
      rw [y.parse X T hy, gcOf_eq X T _ _ (y.parse X T hy)]
    · rw [maskStmtsAt_code _ q2]
      intro st hsm
      obtain ⟨y, hy, he⟩ := hs st hsm
      rw [he, y.parse X T hy, gaOf_eq X T _ _ (y.parse X T hy)]

/-- **The property's sentence for the integer sub-grammar, with nothing left abstract.** Every file of rules — quoted / bare
names, every attribute in every order, salience over `i32`, every condition tree in every admissible layout, leaves
`Object.field op <i64>` (six symbolic operators), statements `field = <i64>`; one line per rule, no comments — parses to
exactly the rules written: `rulesOf` with, at every leaf, the documented comparison (`CmpInt.cond`) and, for every statement,
the documented assignment (`SetInt.action`). -/
theorem parseRules_render_int (X : Ext) (g0 : Str) (rs : List (RuleSrc × Str)) (hg : Ws g0)
    (h : ∀ x ∈ rs, x.1.Ok ∧ Ws x.2 ∧ x.2 ≠ []) (hc : ∀ k, ∀ x ∈ rs, x.1.CodeOk k)
    (hnc : stripComments (renderFile g0 rs) none = renderFile g0 rs)
    (hl : ∀ b ∈ mblocks 0 rs, ∀ c ∈ b, c ≠ '\n') (hi : ∀ x ∈ rs, IntGrammar x.1) :
    parseRules X (renderFile g0 rs) = (rulesOf X (gcOf X (litsFile rs)) (gaOf X (litsFile rs)) 0 rs).mapM id
    ∧ (∀ y : CmpInt, y.Ok → gcOf X (litsFile rs) y.text = y.cond)
    ∧ (∀ y : SetInt, y.Ok → gaOf X (litsFile rs) y.text = y.action) :=
  ⟨parseRules_render X g0 rs hg h hc hnc hl _ _ (leavesOk_int X _ rs hi 0),
    fun y hy => gcOf_eq X _ _ _ (y.parse X _ hy), fun y hy => gaOf_eq X _ _ _ (y.parse X _ hy)⟩


/-! non-vacuity: `rule R3 {when exists(U.k >= 0) then U.x = 7;}` -/

def exR3 : RuleSrc := { exR2 with name := ['R', '3'], stmts := [([], ['U', '.', 'x', ' ', '=', ' ', '7'], [])] }

theorem exR3_ok : exR3.Ok := by
  obtain ⟨_, _, _, lk⟩ := exLeaf_opaque
  refine ⟨?_, ⟨ws_dec _ rfl, by decide⟩, ⟨ws_dec _ rfl, by decide⟩, ?_, ws_dec _ rfl, ⟨ws_dec _ rfl, by decide⟩, ?_,
    ⟨ws_dec _ rfl, by decide⟩, ⟨ws_dec _ rfl, by decide⟩, ⟨by decide, ?_⟩, ws_dec _ rfl⟩
  · show (∃ c cs, ['R', '3'] = c :: cs ∧ isIdStart c = true) ∧ ∀ c ∈ ['R', '3'], isWord c = true
    exact ⟨⟨'R', ['3'], rfl, by decide⟩, by decide⟩
  · intro a ha; simp [exR3, exR2] at ha
  · exact ⟨ws_dec _ rfl, ws_dec _ rfl, lk⟩
  · intro x hx
    simp only [exR3, List.mem_cons, List.mem_nil_iff, or_false] at hx
    subst hx
    exact ⟨ws_dec _ rfl, ws_dec _ rfl, exStmt_opaque _ (by decide +kernel) (by decide +kernel) (by decide +kernel)⟩

theorem exR3_int : IntGrammar exR3 := by
  constructor
  · intro s hs
    simp only [exR3, exR2, LT.leaves, List.mem_cons, List.mem_nil_iff, or_false] at hs
    subst hs
    exact ⟨⟨['U'], ['k'], .ge, ['>', '='], 0⟩,
      ⟨⟨⟨'U', [], rfl, by decide⟩, by decide⟩, ⟨⟨'k', [], rfl, by decide⟩, by decide⟩, rfl, by decide, by decide, by decide +kernel⟩,
      by decide +kernel⟩
  · intro st hs
    simp only [exR3, List.mem_cons, List.mem_nil_iff, or_false] at hs
    subst hs
    exact ⟨⟨['U', '.', 'x'], 7⟩, ⟨by decide +kernel, by decide, by decide, by decide⟩, by decide +kernel⟩

example : parseRules exX (renderFile [] [(exR3, ['\n'])])
    = (rulesOf exX (gcOf exX (litsFile [(exR3, ['\n'])])) (gaOf exX (litsFile [(exR3, ['\n'])])) 0 [(exR3, ['\n'])]).mapM id :=
  (parseRules_render_int exX [] [(exR3, ['\n'])] Ws.nil
    (by intro x hx; simp only [List.mem_cons, List.mem_nil_iff, or_false] at hx; subst hx; exact ⟨exR3_ok, ws_dec _ rfl, by decide⟩)
    (by
      intro k x hx; simp only [List.mem_cons, List.mem_nil_iff, or_false] at hx; subst hx
      apply RuleSrc.CodeOk.ofCode
      · intro s hs
        obtain ⟨y, hy, rfl⟩ := exR3_int.1 s hs; exact y.quoteFree hy
      · intro st hs
        obtain ⟨y, hy, he⟩ := exR3_int.2 st hs; rw [he]; exact y.quoteFree hy
      · exact all_dec (p := fun c => c != '}') _ (by decide +kernel) (fun c h => by simpa using h)
      · decide +kernel
      · exact ⟨')', by decide +kernel, by decide⟩)
    (by decide +kernel)
    (by
      have : ((mblocks 0 [(exR3, ['\n'])]).all fun b => b.all fun c => c != '\n') = true := by decide +kernel
      intro b hb c hc; simpa using List.all_eq_true.mp (List.all_eq_true.mp this b hb) c hc)
    (by intro x hx; simp only [List.mem_cons, List.mem_nil_iff, or_false] at hx; subst hx; exact exR3_int)).1

/-- … and the result, spelled out: one rule `R3`, `exists(U.k >= 0)`, `U.x = 7` -/
example : ((parseRules exX (renderFile [] [(exR3, ['\n'])])).toOption.map (fun rs => rs.map fun r =>
      (r.name, (match r.cond with | .ex (.single ⟨.field f, .ge, .int 0⟩) => f | _ => []),
        (match r.actions with | [.set f (.int 7)] => f | _ => [])))
    == some [(['R', '3'], ['U', '.', 'k'], ['U', '.', 'x'])]) = true := by decide +kernel

end C04
