import RreModel.C06.Exact
/-
C06 — lemmas for the action write-back clause (`writesOk` / `action_write_lost`): field maps (`Data.get` / `Data.set`,
`canonData` as the unique sorted listing of a map), what `writeBack` does to the only live fact of a type, what one loop
body does to working memory, and the walk of `writesOk` along the `fire_all` loop.
-/
namespace C06
open C07 (Act Agenda)

/-! ### field maps -/

theorem get_set (d : Data) (f k : Nat) (v : Val) : (Data.set d f v).get k = if k = f then some v else d.get k := by
  induction d with
  | nil =>
    simp only [Data.set, Data.get]
    by_cases h : k = f
    · subst h; simp
    · have : (f == k) = false := by simpa using fun e => h e.symm
      simp [h, this]
  | cons x t ih =>
    obtain ⟨a, w⟩ := x
    simp only [Data.set]
    by_cases ha : a = f
    · subst ha
      simp only [beq_self_eq_true, if_true, Data.get]
      by_cases h : k = a
      · subst h; simp
      · have : (a == k) = false := by simpa using fun e => h e.symm
        simp [h, this]
    · have hb : (a == f) = false := by simpa using ha
      simp only [hb, Bool.false_eq_true, if_false, Data.get]
      by_cases hk : a = k
      · subst hk; simp [ha]
      · have : (a == k) = false := by simpa using hk
        simp only [this, Bool.false_eq_true, if_false]
        exact ih

theorem get_mem : ∀ (d : Data) (k : Nat) (v : Val), d.get k = some v → (k, v) ∈ d := by
  intro d
  induction d with
  | nil => intro k v h; simp [Data.get] at h
  | cons x t ih =>
    intro k v h
    obtain ⟨a, w⟩ := x
    simp only [Data.get] at h
    by_cases ha : a = k
    · subst ha; simp at h; subst h; simp
    · have : (a == k) = false := by simpa using ha
      simp only [this] at h
      exact List.mem_cons_of_mem _ (ih k v h)

theorem get_none_of_not_mem : ∀ (d : Data) (k : Nat), k ∉ d.map (·.1) → d.get k = none := by
  intro d k hk
  cases h : d.get k with
  | none => rfl
  | some v => exact absurd (List.mem_map.2 ⟨(k, v), get_mem d k v h, rfl⟩) hk

theorem get_iff_mem (d : Data) (hn : (d.map (·.1)).Nodup) (k : Nat) (v : Val) : d.get k = some v ↔ (k, v) ∈ d :=
  ⟨get_mem d k v, fun h => data_get_of_mem d hn (k, v) h⟩

theorem keys_set (d : Data) (f : Nat) (v : Val) :
    (Data.set d f v).map (·.1) = if f ∈ d.map (·.1) then d.map (·.1) else d.map (·.1) ++ [f] := by
  induction d with
  | nil => simp [Data.set]
  | cons x t ih =>
    obtain ⟨a, w⟩ := x
    simp only [Data.set]
    by_cases ha : a = f
    · subst ha; simp
    · have hb : (a == f) = false := by simpa using ha
      simp only [hb, Bool.false_eq_true, if_false, List.map_cons, List.mem_cons]
      rw [ih]
      have : ¬ f = a := fun e => ha e.symm
      by_cases hm : f ∈ t.map (·.1) <;> simp [hm, this]

theorem nodup_set (d : Data) (f : Nat) (v : Val) (hn : (d.map (·.1)).Nodup) : ((Data.set d f v).map (·.1)).Nodup := by
  rw [keys_set]
  split
  · exact hn
  · rename_i hm
    refine List.nodup_append.2 ⟨hn, by simp, ?_⟩
    intro a ha b hb
    simp only [List.mem_singleton] at hb
    subst hb
    intro e
    subst e
    exact hm ha

theorem nodup_foldl_set (c : List (Nat × Val)) : ∀ (d : Data), (d.map (·.1)).Nodup →
    ((c.foldl (fun d kv => Data.set d kv.1 kv.2) d).map (·.1)).Nodup := by
  induction c with
  | nil => intro d h; exact h
  | cons x c ih => intro d h; exact ih _ (nodup_set d x.1 x.2 h)

/-- applying the bindings of a map `c` (one binding per field) onto `d`: `c` wins -/
theorem get_foldl_set (c : Data) (hc : (c.map (·.1)).Nodup) : ∀ (d : Data) (k : Nat),
    (c.foldl (fun d kv => Data.set d kv.1 kv.2) d).get k = (c.get k).or (d.get k) := by
  induction c with
  | nil => intro d k; simp [Data.get]
  | cons x c ih =>
    intro d k
    obtain ⟨a, w⟩ := x
    simp only [List.map_cons, List.nodup_cons] at hc
    simp only [List.foldl_cons, ih hc.2, get_set, Data.get]
    by_cases ha : a = k
    · subst ha
      simp [get_none_of_not_mem c a hc.1]
    · have hb : (a == k) = false := by simpa using ha
      have : ¬ k = a := fun e => ha e.symm
      simp [hb, this]

/-- `get` after a run of assignments depends on the `get` before it only -/
theorem get_foldl_congr (c : List (Nat × Val)) : ∀ (d d' : Data), (∀ k, d.get k = d'.get k) →
    ∀ k, (c.foldl (fun d kv => Data.set d kv.1 kv.2) d).get k = (c.foldl (fun d kv => Data.set d kv.1 kv.2) d').get k := by
  induction c with
  | nil => intro d d' h; exact h
  | cons x c ih =>
    intro d d' h
    apply ih
    intro k
    rw [get_set, get_set, h]

theorem get_foldl_none (c : List (Nat × Val)) : ∀ (d : Data) (k : Nat),
    (c.foldl (fun d kv => Data.set d kv.1 kv.2) d).get k = none → d.get k = none := by
  induction c with
  | nil => intro d k h; exact h
  | cons x c ih =>
    intro d k h
    have := ih _ k h
    rw [get_set] at this
    split at this
    · cases this
    · exact this

theorem get_filter (p : Nat × Val → Bool) : ∀ (l : Data), (l.map (·.1)).Nodup → ∀ k,
    Data.get (l.filter p) k = (Data.get l k).filter (fun v => p (k, v)) := by
  intro l
  induction l with
  | nil => intro _ k; simp [Data.get]
  | cons x t ih =>
    intro hn k
    obtain ⟨a, w⟩ := x
    simp only [List.map_cons, List.nodup_cons] at hn
    by_cases ha : a = k
    · subst ha
      have ht : Data.get t a = none := get_none_of_not_mem t a hn.1
      cases hp : p (a, w)
      · simp [Data.get, hp, ih hn.2, ht, Option.filter]
      · simp [Data.get, hp, Option.filter]
    · have hb : (a == k) = false := by simpa using ha
      cases hp : p (a, w)
      · simp [Data.get, hp, hb, ih hn.2]
      · simp [Data.get, hp, hb, ih hn.2]

/-- the data part of `writeBack` on the fact whose fields are the flattened original: assigning only the bindings that differ
gives the map that assigning all of them gives -/
theorem get_writeback (D : Data) (hD : (D.map (·.1)).Nodup) (sets : List (Nat × Val)) (k : Nat) :
    (((sets.foldl (fun d kv => Data.set d kv.1 kv.2) D).filter (fun kv => D.get kv.1 != some kv.2)).foldl
        (fun d kv => Data.set d kv.1 kv.2) D).get k
      = (sets.foldl (fun d kv => Data.set d kv.1 kv.2) D).get k := by
  have hF := nodup_foldl_set sets D hD
  generalize hfin : sets.foldl (fun d kv => Data.set d kv.1 kv.2) D = final at hF ⊢
  have hC : ((final.filter (fun kv => D.get kv.1 != some kv.2)).map (·.1)).Nodup :=
    List.Nodup.sublist (List.Sublist.map _ List.filter_sublist) hF
  rw [get_foldl_set _ hC, get_filter _ final hF]
  cases hg : Data.get final k with
  | none =>
    simp only [Option.filter_none, Option.none_or]
    exact get_foldl_none sets D k (by rw [hfin]; exact hg)
  | some v =>
    by_cases hv : Data.get D k = some v
    · simp [Option.filter, hv]
    · simp [Option.filter, hv]

/-! ### `canonData`: the sorted listing of a map -/

theorem dedup_sub : ∀ (l : List Nat) (x : Nat), x ∈ dedup l → x ∈ l := by
  intro l
  induction l with
  | nil => intro x h; simp [dedup] at h
  | cons a t ih =>
    intro x h
    simp only [dedup] at h
    split at h
    · exact List.mem_cons_of_mem _ (ih x h)
    · rcases List.mem_cons.1 h with h1 | h1
      · subst h1; simp
      · exact List.mem_cons_of_mem _ (ih x h1)

theorem dedup_nodup : ∀ (l : List Nat), (dedup l).Nodup := by
  intro l
  induction l with
  | nil => simp [dedup]
  | cons a t ih =>
    simp only [dedup]
    split
    · exact ih
    · rename_i hc
      exact List.nodup_cons.2 ⟨by simpa using hc, ih⟩

def insKV (acc : Data) (kv : Nat × Val) : Data :=
  (acc.filter (·.1 < kv.1)) ++ [kv] ++ (acc.filter (fun y => !(y.1 < kv.1)))

theorem sortData_eq (d : Data) : sortData d = d.foldl insKV [] := rfl

theorem mem_insKV (acc : Data) (kv y : Nat × Val) : y ∈ insKV acc kv ↔ y ∈ acc ∨ y = kv := by
  simp only [insKV, List.mem_append, List.mem_filter, List.mem_singleton, decide_eq_true_eq, Bool.not_eq_true',
    decide_eq_false_iff_not]
  constructor
  · rintro ((h | h) | h)
    · exact Or.inl h.1
    · exact Or.inr h
    · exact Or.inl h.1
  · rintro (h | h)
    · by_cases hl : y.1 < kv.1
      · exact Or.inl (Or.inl ⟨h, hl⟩)
      · exact Or.inr ⟨h, hl⟩
    · exact Or.inl (Or.inr h)

def KSorted (d : Data) : Prop := d.Pairwise (fun a b => a.1 < b.1)

theorem sorted_insKV (acc : Data) (kv : Nat × Val) (hs : KSorted acc) (hk : kv.1 ∉ acc.map (·.1)) :
    KSorted (insKV acc kv) := by
  unfold KSorted insKV
  have hne : ∀ y ∈ acc, y.1 ≠ kv.1 := fun y hy e => hk (List.mem_map.2 ⟨y, hy, e⟩)
  rw [List.pairwise_append, List.pairwise_append]
  refine ⟨⟨hs.sublist List.filter_sublist, List.pairwise_singleton _ _, ?_⟩, hs.sublist List.filter_sublist, ?_⟩
  · intro a ha b hb
    simp only [List.mem_singleton] at hb
    subst hb
    simpa using (List.mem_filter.1 ha).2
  · intro a ha b hb
    have hb2 := List.mem_filter.1 hb
    have hb3 : ¬ b.1 < kv.1 := by simpa using hb2.2
    have hb4 := hne b hb2.1
    rcases List.mem_append.1 ha with h | h
    · have : a.1 < kv.1 := by simpa using (List.mem_filter.1 h).2
      omega
    · simp only [List.mem_singleton] at h
      subst h
      omega

theorem sortData_spec : ∀ (l acc : Data), KSorted acc → (l.map (·.1)).Nodup → (∀ k ∈ l.map (·.1), k ∉ acc.map (·.1)) →
    KSorted (l.foldl insKV acc) ∧ ∀ y, y ∈ l.foldl insKV acc ↔ (y ∈ acc ∨ y ∈ l) := by
  intro l
  induction l with
  | nil => intro acc hs _ _; exact ⟨hs, by simp⟩
  | cons x t ih =>
    intro acc hs hn hd
    simp only [List.map_cons, List.nodup_cons] at hn
    have hx : x.1 ∉ acc.map (·.1) := hd x.1 (by simp)
    have h1 := sorted_insKV acc x hs hx
    have h2 : ∀ k ∈ t.map (·.1), k ∉ (insKV acc x).map (·.1) := by
      intro k hk hm
      obtain ⟨y, hy, e⟩ := List.mem_map.1 hm
      rcases (mem_insKV acc x y).1 hy with h | h
      · exact hd k (by simp [hk]) (List.mem_map.2 ⟨y, h, e⟩)
      · subst h; subst e; exact hn.1 hk
    obtain ⟨h3, h4⟩ := ih (insKV acc x) h1 hn.2 h2
    refine ⟨h3, ?_⟩
    intro y
    simp only [List.foldl_cons]
    rw [h4, mem_insKV, List.mem_cons]
    constructor
    · rintro ((h | h) | h)
      · exact Or.inl h
      · exact Or.inr (Or.inl h)
      · exact Or.inr (Or.inr h)
    · rintro (h | h | h)
      · exact Or.inl (Or.inl h)
      · exact Or.inl (Or.inr h)
      · exact Or.inr h

/-- the listing before the sort: one binding per field, the first wins -/
def firstBindings (d : Data) : Data := (dedup (d.map (·.1))).filterMap (fun k => (d.get k).map (fun v => (k, v)))

theorem canonData_eq (d : Data) : canonData d = sortData (firstBindings d) := rfl

theorem mem_firstBindings (d : Data) (k : Nat) (v : Val) : (k, v) ∈ firstBindings d ↔ d.get k = some v := by
  simp only [firstBindings, List.mem_filterMap, Option.map_eq_some_iff, Prod.mk.injEq]
  constructor
  · rintro ⟨a, _, w, h1, h2, h3⟩
    subst h2; subst h3; exact h1
  · intro h
    refine ⟨k, ?_, v, h, rfl, rfl⟩
    exact mem_dedup _ _ (List.mem_map.2 ⟨(k, v), get_mem d k v h, rfl⟩)

theorem nodup_firstBindings (d : Data) : ((firstBindings d).map (·.1)).Nodup := by
  unfold firstBindings
  rw [List.Nodup, List.pairwise_map]
  refine List.Pairwise.filterMap _ ?_ (dedup_nodup _)
  intro a a' hne b hb b' hb'
  simp only [Option.map_eq_some_iff] at hb hb'
  obtain ⟨_, _, rfl⟩ := hb
  obtain ⟨_, _, rfl⟩ := hb'
  exact hne

theorem canon_spec (d : Data) : KSorted (canonData d) ∧ ∀ k v, (k, v) ∈ canonData d ↔ d.get k = some v := by
  obtain ⟨h1, h2⟩ := sortData_spec (firstBindings d) [] List.Pairwise.nil (nodup_firstBindings d) (by simp)
  rw [canonData_eq, sortData_eq]
  refine ⟨h1, fun k v => ?_⟩
  rw [h2, ← mem_firstBindings]
  simp

theorem ksorted_nodup {d : Data} (h : KSorted d) : (d.map (·.1)).Nodup := by
  rw [List.Nodup, List.pairwise_map]
  exact h.imp (fun hab => Nat.ne_of_lt hab)

theorem canon_get (d : Data) (k : Nat) : (canonData d).get k = d.get k := by
  obtain ⟨h1, h2⟩ := canon_spec d
  have hn := ksorted_nodup h1
  cases hg : d.get k with
  | some v => exact (get_iff_mem _ hn k v).2 ((h2 k v).2 hg)
  | none =>
    cases hc : (canonData d).get k with
    | none => rfl
    | some v =>
      have := (h2 k v).1 (get_mem _ k v hc)
      rw [hg] at this; cases this

/-- maps with the same lookups have the same canonical listing -/
theorem canon_ext (d d' : Data) (h : ∀ k, d.get k = d'.get k) : canonData d = canonData d' := by
  obtain ⟨h1, h2⟩ := canon_spec d
  obtain ⟨h1', h2'⟩ := canon_spec d'
  have nd : ∀ {l : Data}, KSorted l → l.Nodup := fun hl => hl.imp (fun hab e => by subst e; omega)
  apply List.Perm.eq_of_pairwise (le := fun (a b : Nat × Val) => a.1 < b.1) _ (by exact h1) (by exact h1')
  · rw [List.perm_ext_iff_of_nodup (nd h1) (nd h1')]
    rintro ⟨k, v⟩
    rw [h2, h2', h]
  · intro a b _ _ hab hba
    omega

theorem canon_idem (d : Data) : canonData (canonData d) = canonData d := canon_ext _ _ (canon_get d)

/-! ### what one loop body does to working memory -/

/-- a fact with this handle and type was inserted (live or not) -/
def Known (w : WM) (h ty : Nat) : Prop := ∃ g ∈ w.facts, g.handle = h ∧ g.ty = ty

theorem known_of_keys {w w' : WM} (hk : w'.facts.map fkey = w.facts.map fkey) {h ty : Nat} (hK : Known w h ty) :
    Known w' h ty := by
  obtain ⟨g, hg, e1, e2⟩ := hK
  have : fkey g ∈ w'.facts.map fkey := by rw [hk]; exact List.mem_map.2 ⟨g, hg, rfl⟩
  obtain ⟨g', hg', e⟩ := List.mem_map.1 this
  simp only [fkey, Prod.mk.injEq] at e
  exact ⟨g', hg', e.1.trans e1, e.2.1.trans e2⟩

theorem live_of_keys {w w' : WM} (hk : w'.facts.map fkey = w.facts.map fkey) (h ty : Nat) : Live w' h ty ↔ Live w h ty := by
  rw [live_iff_key, live_iff_key, hk]

theorem known_mapFact (h : Nat) (g : Fact → Fact) (hg : ∀ x, (g x).handle = x.handle ∧ (g x).ty = x.ty) :
    ∀ (l : List Fact), ∀ x ∈ l, ∃ y ∈ mapFact h g l, y.handle = x.handle ∧ y.ty = x.ty := by
  intro l
  induction l with
  | nil => intro x hx; cases hx
  | cons a t ih =>
    intro x hx
    simp only [mapFact]
    split
    · rcases List.mem_cons.1 hx with e | e
      · subst e; exact ⟨g x, by simp, hg x⟩
      · exact ⟨x, by simp [e], rfl, rfl⟩
    · rcases List.mem_cons.1 hx with e | e
      · subst e; exact ⟨x, by simp, rfl, rfl⟩
      · obtain ⟨y, hy, e1⟩ := ih x e
        exact ⟨y, by simp [hy], e1⟩

theorem wb_keys (w : WM) (ty : Nat) (sets : List (Nat × Val)) :
    (writeBack w ty sets).facts.map fkey = w.facts.map fkey ∧ (writeBack w ty sets).index = w.index
      ∧ (writeBack w ty sets).nextId = w.nextId := by
  unfold writeBack
  simp only
  split
  · exact ⟨rfl, rfl, rfl⟩
  · refine ⟨?_, rfl, rfl⟩
    simp only [List.map_map]
    apply List.map_congr_left
    intro x _
    simp only [Function.comp]
    split <;> rfl

theorem wb_dataOK (w : WM) (ty : Nat) (sets : List (Nat × Val)) (hd : DataOK w) : DataOK (writeBack w ty sets) := by
  unfold writeBack
  simp only
  split
  · exact hd
  · intro f hf
    simp only [List.mem_map] at hf
    obtain ⟨x, hx, e⟩ := hf
    split at e
    · subst e; exact nodup_foldl_set _ _ (hd x hx)
    · subst e; exact hd x hx

theorem flatOf_sole (w : WM) (ty : Nat) (f : Fact) (hf : f ∈ w.getAllFacts) (ht : f.ty = ty)
    (hs : ∀ g ∈ w.getAllFacts, g.ty = ty → g = f) : flatOf w ty = f.data := by
  unfold flatOf
  cases hl : (w.getAllFacts.filter (·.ty == ty)).getLast? with
  | none =>
    have : w.getAllFacts.filter (·.ty == ty) = [] := List.getLast?_eq_none_iff.1 hl
    have hm : f ∈ w.getAllFacts.filter (·.ty == ty) := List.mem_filter.2 ⟨hf, by simpa using ht⟩
    rw [this] at hm; cases hm
  | some g =>
    have hm := List.mem_filter.1 (List.mem_of_getLast? hl)
    rw [hs g hm.1 (by simpa using hm.2)]

/-- `writeBack` on the only live fact of the type: afterwards the fact holds what it held plus all the assignments -/
theorem wb_sole (w : WM) (hi : WMInv w) (hd : DataOK w) (ty : Nat) (sets : List (Nat × Val)) (f : Fact)
    (hf : f ∈ w.getAllFacts) (ht : f.ty = ty) (hs : ∀ g ∈ w.getAllFacts, g.ty = ty → g = f) :
    ∃ f1, (writeBack w ty sets).get f.handle = some f1 ∧ ∀ k, f1.data.get k = (applySets f.data sets).get k := by
  have hi1 : WMInv (writeBack w ty sets) := wminv_pres.wb w ty sets hi
  obtain ⟨hfm, hfr⟩ := (getAllFacts_iff w f).1 hf
  have hD := hd f hfm
  have hflat := flatOf_sole w ty f hf ht hs
  let f1 : Fact := { f with data := ((sets.foldl (fun d kv => Data.set d kv.1 kv.2) f.data).filter
      (fun kv => f.data.get kv.1 != some kv.2)).foldl (fun d kv => Data.set d kv.1 kv.2) f.data }
  have hdata : ∀ k, f1.data.get k = (applySets f.data sets).get k := fun k => get_writeback f.data hD sets k
  have hmem : f1 ∈ (writeBack w ty sets).getAllFacts := by
    rw [getAllFacts_iff]
    refine ⟨?_, hfr⟩
    unfold writeBack
    simp only [hflat]
    split
    · rename_i hc
      have : f1 = f := by
        have hc' : (sets.foldl (fun d kv => Data.set d kv.1 kv.2) f.data).filter
            (fun kv => f.data.get kv.1 != some kv.2) = [] := by simpa using hc
        show ({ f with data := _ } : Fact) = f
        rw [hc']; rfl
      rw [this]; exact hfm
    · simp only [List.mem_map]
      refine ⟨f, hfm, ?_⟩
      simp [ht, hfr, f1]
  exact ⟨f1, get_of_live hi1 hmem, hdata⟩

theorem retract_wm (e : Engine) (t : Nat) :
    ((e.retract t).1.wm = e.wm ∨ e.wm.retract t = some (e.retract t).1.wm) ∧ (e.retract t).1.rules = e.rules := by
  unfold Engine.retract
  cases e.wm.get t with
  | none => exact ⟨Or.inl rfl, rfl⟩
  | some f =>
    simp only
    cases hr : e.wm.retract t with
    | none => exact ⟨Or.inl rfl, rfl⟩
    | some w => exact ⟨Or.inr rfl, rfl⟩

theorem retract_live_iff {w w' : WM} {t : Nat} (hi : WMInv w) (hu : w.retract t = some w') (h ty : Nat) :
    Live w' h ty ↔ Live w h ty ∧ h ≠ t := by
  unfold Live
  rw [(retract_facts hu).1]
  exact mapFact_retract_live hi.nodup h ty

theorem retract_known {w w' : WM} {t : Nat} (hu : w.retract t = some w') {h ty : Nat} (hK : Known w h ty) : Known w' h ty := by
  obtain ⟨g, hg, e1, e2⟩ := hK
  rw [Known, (retract_facts hu).1]
  obtain ⟨y, hy, e3, e4⟩ := known_mapFact t (fun x => { x with retracted := true }) (fun _ => ⟨rfl, rfl⟩) w.facts g hg
  exact ⟨y, hy, e3.trans e1, e4.trans e2⟩

/-- the engine retracts a live handle -/
theorem retract_live_handle (e : Engine) (_hi : WMInv e.wm) (t : Nat) (g : Fact) (hg : e.wm.get t = some g) :
    e.wm.retract t = some (e.retract t).1.wm := by
  unfold Engine.retract
  simp only [hg]
  unfold WM.get at hg
  unfold WM.retract
  cases hf : e.wm.find t with
  | none => simp [hf] at hg
  | some f =>
    simp only [hf] at hg ⊢
    cases hr : f.retracted with
    | true => simp [hr] at hg
    | false => simp [propagateType_wm]

theorem engine_retract_post (e1 : Engine) (hi1 : WMInv e1.wm) (hd1 : DataOK e1.wm) (t : Nat) :
    WMInv (e1.retract t).1.wm ∧ DataOK (e1.retract t).1.wm ∧ (e1.retract t).1.rules = e1.rules
      ∧ (∀ h ty, Known e1.wm h ty → Known (e1.retract t).1.wm h ty)
      ∧ (∀ h ty, Live (e1.retract t).1.wm h ty → Live e1.wm h ty) := by
  obtain ⟨hw, hr⟩ := retract_wm e1 t
  rcases hw with hw | hw
  · rw [hw]; exact ⟨hi1, hd1, hr, fun _ _ h => h, fun _ _ h => h⟩
  · exact ⟨wminv_pres.ret _ _ _ hi1 hw, dataOK_retract hd1 hw, hr, fun _ _ h => retract_known hw h,
      fun h ty hl => ((retract_live_iff hi1 hw h ty).1 hl).1⟩


/-! ### expression assignments: `resolve` depends on the contents only through `Data.get`, and — for expressions that read fields
of the rule's own type only — not on the facts of other types -/

theorem mem_of_mem_take {α : Type} {x : α} {l : List α} {n : Nat} (h : x ∈ l.take n) : x ∈ l := List.mem_of_mem_take h

theorem evalSplit_congr {R : Type} (classes : List (AOp → Bool)) (leaf leaf' : Atom → R) (app : AOp → R → R → R) :
    ∀ (fuel : Nat) (a : Atom) (tail : List (AOp × Atom)), leaf a = leaf' a → (∀ p ∈ tail, leaf p.2 = leaf' p.2) →
      evalSplit classes leaf app fuel a tail = evalSplit classes leaf' app fuel a tail := by
  intro fuel
  induction fuel with
  | zero => intro a tail ha _; simp only [evalSplit, ha]
  | succ n ih =>
    intro a tail ha ht
    simp only [evalSplit]
    cases splitIdx classes tail with
    | none => exact ha
    | some i =>
      simp only
      cases hd : tail.drop i with
      | nil => exact ha
      | cons ob rest =>
        obtain ⟨o, b⟩ := ob
        simp only
        have hb : (o, b) ∈ tail := List.mem_of_mem_drop (by rw [hd]; simp)
        rw [ih a (tail.take i) ha (fun p hp => ht p (List.mem_of_mem_take hp)),
            ih b rest (ht _ hb) (fun p hp => ht p (List.mem_of_mem_drop (by rw [hd]; exact List.mem_cons_of_mem _ hp)))]

theorem atom_xv_local (ty : Nat) (look look' : Nat → Nat → Option Val) (h : ∀ k, look ty k = look' ty k) (a : Atom)
    (ha : a.localTo ty = true) : Atom.xv look a = Atom.xv look' a := by
  cases a with
  | num t => rfl
  | word s => rfl
  | fld t f =>
    have : t = ty := by simpa [Atom.localTo] using ha
    subst this
    simp only [Atom.xv, h]

theorem actVal_local (ty : Nat) (look look' : Nat → Nat → Option Val) (h : ∀ k, look ty k = look' ty k) (e : Expr) (sid : Nat)
    (he : e.localTo ty = true) : e.actVal look sid = e.actVal look' sid := by
  simp only [Expr.localTo, Bool.and_eq_true, List.all_eq_true] at he
  unfold Expr.actVal Expr.actXV Expr.evalWith
  rw [evalSplit_congr stdClasses _ (Atom.xv look') XV.apply _ _ _ (atom_xv_local ty look look' h _ he.1)
    (fun p hp => atom_xv_local ty look look' h _ (he.2 p hp))]

/-- two copies of the contents that agree field by field, any facts of the other types: the same assignments -/
theorem resolveX_congr (ty : Nat) (other other' : Nat → Data) : ∀ (xs : List (Nat × Expr × Nat)) (d d' : Data),
    (∀ k, d.get k = d'.get k) → (xs.all (fun p => p.2.1.localTo ty)) = true → resolveX ty other d xs = resolveX ty other' d' xs := by
  intro xs
  induction xs with
  | nil => intro _ _ _ _; rfl
  | cons x t ih =>
    intro d d' hg hl
    obtain ⟨f, e, sid⟩ := x
    simp only [List.all_cons, Bool.and_eq_true] at hl
    have hv : e.actVal (fun t k => if t == ty then d.get k else (other t).get k) sid =
        e.actVal (fun t k => if t == ty then d'.get k else (other' t).get k) sid :=
      actVal_local ty _ _ (fun k => by simp [hg k]) e sid hl.1
    simp only [resolveX, hv]
    congr 1
    exact ih _ _ (fun k => by rw [get_set, get_set, hg k]) hl.2

theorem resolve_congr (a : Action) (ty : Nat) (other other' : Nat → Data) (d d' : Data) (hg : ∀ k, d.get k = d'.get k)
    (hl : a.localTo ty = true) : a.resolve ty other d = a.resolve ty other' d' := by
  unfold Action.resolve
  congr 1
  exact resolveX_congr ty other other' a.xsets _ _ (fun k => get_foldl_congr a.sets d d' hg k) hl

/-- the same without the locality hypothesis when the other types are the same -/
theorem resolveX_congr_data (ty : Nat) (other : Nat → Data) : ∀ (xs : List (Nat × Expr × Nat)) (d d' : Data),
    (∀ k, d.get k = d'.get k) → resolveX ty other d xs = resolveX ty other d' xs := by
  intro xs
  induction xs with
  | nil => intro _ _ _; rfl
  | cons x t ih =>
    intro d d' hg
    obtain ⟨f, e, sid⟩ := x
    have hl : (fun t k => if t == ty then d.get k else (other t).get k) = (fun t k => if t == ty then d'.get k else (other t).get k) := by
      funext t k; rw [hg k]
    simp only [resolveX, hl]
    congr 1
    exact ih _ _ (fun k => by rw [get_set, get_set, hg k])

theorem resolve_nil_xsets (a : Action) (ty : Nat) (other : Nat → Data) (d : Data) (h : a.xsets = []) :
    a.resolve ty other d = a.sets := by
  simp [Action.resolve, h, resolveX]

/-- what the loop body (`fireOne`) guarantees when it fires -/
structure BodyPost (e e' : Engine) (x : Firing) (rule : Rule) (f : Fact) : Prop where
  rule_found : e.rules.find? (·.name == x.rule) = some rule
  got : e.wm.get x.handle = some f
  data : x.data = f.data
  wminv : WMInv e'.wm
  dataOK : DataOK e'.wm
  rules : e'.rules = e.rules
  known : ∀ h ty, Known e.wm h ty → Known e'.wm h ty
  live : ∀ h ty, Live e'.wm h ty → Live e.wm h ty
  retracted : rule.action.retract = true → f.ty = rule.ty → ∀ ty, ¬ Live e'.wm x.handle ty
  kept : rule.action.retract = false → f.ty = rule.ty → (∀ g ∈ e.wm.getAllFacts, g.ty = f.ty → g = f) →
    ∃ f', e'.wm.get x.handle = some f' ∧
      ∀ k, f'.data.get k = (applySets f.data (rule.action.resolve rule.ty (fun t => flatOf e.wm t) f.data)).get k

theorem fireOne_post (e e' : Engine) (a : Act) (x : Firing) (hi : WMInv e.wm) (hd : DataOK e.wm)
    (h : e.fireOne a = (e', some x)) : ∃ rule f, BodyPost e e' x rule f := by
  unfold Engine.fireOne at h
  cases hr : e.rules.find? (·.name == a.rule) with
  | none => simp [hr] at h
  | some rule =>
    simp only [hr] at h
    cases hh : a.handle with
    | none => simp [hh] at h
    | some hd' =>
      simp only [hh] at h
      cases hg : e.wm.get hd' with
      | none => simp [hg] at h
      | some f =>
        simp only [hg] at h
        split at h
        · simp at h
        · simp only [Prod.mk.injEq, Option.some.injEq] at h
          obtain ⟨he', hx⟩ := h
          subst hx
          refine ⟨rule, f, ?_⟩
          have hname : rule.name = a.rule := by simpa using List.find?_some hr
          have hfound : e.rules.find? (·.name == rule.name) = some rule := by rw [hname]; exact hr
          -- the engine after write-back and re-propagation
          have hk := wb_keys e.wm rule.ty (e.setsOf rule)
          have hi1 : WMInv (writeBack e.wm rule.ty (e.setsOf rule)) := wminv_pres.wb _ _ _ hi
          have hd1 : DataOK (writeBack e.wm rule.ty (e.setsOf rule)) := wb_dataOK _ _ _ hd
          obtain ⟨hfl, hfh⟩ := live_of_get hg
          by_cases hret : rule.action.retract = true
          · simp only [hret, if_true] at he'
            by_cases hty : f.ty = rule.ty
            · have hb : (f.ty == rule.ty) = true := by simpa using hty
              simp only [hb, if_true] at he'
              -- the matched fact itself is retracted
              have hlive1 : Live (writeBack e.wm rule.ty (e.setsOf rule)) hd' f.ty :=
                (live_of_keys hk.1 hd' f.ty).2 ⟨f, ((getAllFacts_iff _ f).1 hfl).1, hfh, rfl, ((getAllFacts_iff _ f).1 hfl).2⟩
              have hsome : ((writeBack e.wm rule.ty (e.setsOf rule)).get hd').isSome = true :=
                (get_isSome_iff hi1 hd').2 (by obtain ⟨g, h1, h2, _, h4⟩ := hlive1; exact ⟨g, h1, h2, h4⟩)
              obtain ⟨g1, hg1⟩ := Option.isSome_iff_exists.1 hsome
              let e1 : Engine := ({ e with wm := writeBack e.wm rule.ty (e.setsOf rule) } : Engine).propagateAll
              have hu : e1.wm.retract hd' = some (e1.retract hd').1.wm := retract_live_handle e1 hi1 hd' g1 hg1
              obtain ⟨p1, p2, p3, p4, p5⟩ := engine_retract_post e1 hi1 hd1 hd'
              subst he'
              exact { rule_found := hfound, got := hg, data := rfl, wminv := p1, dataOK := p2, rules := p3,
                      known := fun h ty hK => p4 h ty (known_of_keys hk.1 hK),
                      live := fun h ty hl => (live_of_keys hk.1 h ty).1 (p5 h ty hl),
                      retracted := fun _ _ ty hl => ((retract_live_iff hi1 hu hd' ty).1 hl).2 rfl,
                      kept := fun hn => (by rw [hret] at hn; cases hn) }
            · have hb : (f.ty == rule.ty) = false := by simpa using hty
              simp only [hb, Bool.false_eq_true, if_false] at he'
              cases htg : ((e.wm.getAllFacts.filter (·.ty == rule.ty)).getLast?.map (·.handle)) with
              | none =>
                simp only [htg] at he'
                subst he'
                exact { rule_found := hfound, got := hg, data := rfl, wminv := hi1, dataOK := hd1, rules := rfl,
                        known := fun h ty hK => known_of_keys hk.1 hK,
                        live := fun h ty hl => (live_of_keys hk.1 h ty).1 hl,
                        retracted := fun _ ht => absurd ht hty,
                        kept := fun hn => (by rw [hret] at hn; cases hn) }
              | some t =>
                simp only [htg] at he'
                let e1 : Engine := ({ e with wm := writeBack e.wm rule.ty (e.setsOf rule) } : Engine).propagateAll
                obtain ⟨p1, p2, p3, p4, p5⟩ := engine_retract_post e1 hi1 hd1 t
                subst he'
                exact { rule_found := hfound, got := hg, data := rfl, wminv := p1, dataOK := p2, rules := p3,
                        known := fun h ty hK => p4 h ty (known_of_keys hk.1 hK),
                        live := fun h ty hl => (live_of_keys hk.1 h ty).1 (p5 h ty hl),
                        retracted := fun _ ht => absurd ht hty,
                        kept := fun hn => (by rw [hret] at hn; cases hn) }
          · have hret' : rule.action.retract = false := by simpa using hret
            simp only [hret', Bool.false_eq_true, if_false] at he'
            subst he'
            exact { rule_found := hfound, got := hg, data := rfl, wminv := hi1, dataOK := hd1, rules := rfl,
                    known := fun h ty hK => known_of_keys hk.1 hK,
                    live := fun h ty hl => (live_of_keys hk.1 h ty).1 hl,
                    retracted := fun hn => (by rw [hret'] at hn; cases hn),
                    kept := fun _ hty hs => (by
                      have := wb_sole e.wm hi hd rule.ty (e.setsOf rule) f hfl hty (fun g hg' hgt => hs g hg' (hgt.trans hty.symm))
                      rw [hfh] at this
                      have hflat := flatOf_sole e.wm rule.ty f hfl hty (fun g hg' hgt => hs g hg' (hgt.trans hty.symm))
                      obtain ⟨f1, h1, h2⟩ := this
                      refine ⟨f1, h1, fun k => ?_⟩
                      rw [h2 k]
                      simp only [Engine.setsOf, hflat]) }

theorem fireOne_none (e e' : Engine) (a : Act) (h : e.fireOne a = (e', none)) : e' = e := by
  unfold Engine.fireOne at h
  cases hr : e.rules.find? (·.name == a.rule) with
  | none => simp only [hr, Prod.mk.injEq] at h; exact h.1.symm
  | some rule =>
    simp only [hr] at h
    cases hh : a.handle with
    | none => simp only [hh, Prod.mk.injEq] at h; exact h.1.symm
    | some hd' =>
      simp only [hh] at h
      cases hg : e.wm.get hd' with
      | none => simp only [hg, Prod.mk.injEq] at h; exact h.1.symm
      | some f =>
        simp only [hg] at h
        split at h
        · simp only [Prod.mk.injEq] at h; exact h.1.symm
        · simp at h

/-! ### the `fire_all` loop, firing by firing -/

theorem fireLoop_out : ∀ (fuel : Nat) (e : Engine) (out : List Firing),
    fireLoop fuel e out = ((fireLoop fuel e []).1, out ++ (fireLoop fuel e []).2) := by
  intro fuel
  induction fuel with
  | zero =>
    intro e out
    unfold fireLoop
    rcases C07.incSkip firePop Engine.skips e.ag.acts.length e with ⟨_ | a, e'⟩ <;> simp
  | succ n ih =>
    intro e out
    unfold fireLoop
    rcases C07.incSkip firePop Engine.skips e.ag.acts.length e with ⟨_ | a, e'⟩
    · simp
    · simp only
      cases (Engine.fireOne e' a).2 with
      | none => simp only; rw [ih _ out]
      | some x =>
        simp only
        rw [ih _ (out ++ [x]), ih _ ([] ++ [x])]
        simp

theorem fireLoop_zero (e : Engine) : (fireLoop 0 e []).2 = [] := by
  unfold fireLoop
  rcases C07.incSkip firePop Engine.skips e.ag.acts.length e with ⟨_ | a, e'⟩ <;> rfl

/-- one round of the loop: nothing left to pop, or the body runs on the popped activation and the loop goes on -/
theorem fireLoop_succ (n : Nat) (e : Engine) :
    ((C07.incSkip firePop Engine.skips e.ag.acts.length e).1 = none ∧ (fireLoop (n + 1) e []).2 = []
        ∧ (fireLoop (n + 1) e []).1.wm = e.wm) ∨
    (∃ (a : Act) (e' : Engine), e'.wm = e.wm ∧ e'.rules = e.rules ∧
        (fireLoop (n + 1) e []).1 = (fireLoop n (e'.fireOne a).1 []).1 ∧
        (fireLoop (n + 1) e []).2 = (match (e'.fireOne a).2 with | some x => [x] | none => []) ++ (fireLoop n (e'.fireOne a).1 []).2) := by
  have hw := incSkip_wm e.ag.acts.length e
  have key : fireLoop (n + 1) e [] = (match C07.incSkip firePop Engine.skips e.ag.acts.length e with
      | (none, e') => (e', [])
      | (some a, e') => fireLoop n (e'.fireOne a).1 (match (e'.fireOne a).2 with | some x => [] ++ [x] | none => [])) := by
    rw [fireLoop]
    rcases C07.incSkip firePop Engine.skips e.ag.acts.length e with ⟨_ | a, e'⟩ <;> rfl
  rw [key]
  rcases hsk : C07.incSkip firePop Engine.skips e.ag.acts.length e with ⟨_ | a, e'⟩
  · rw [hsk] at hw
    exact Or.inl ⟨rfl, rfl, hw.1⟩
  · rw [hsk] at hw
    refine Or.inr ⟨a, e', hw.1, hw.2, ?_, ?_⟩
    · simp only
      rw [fireLoop_out]
    · simp only
      rw [fireLoop_out]
      cases (Engine.fireOne e' a).2 <;> simp

theorem fireLoop_first : ∀ (fuel : Nat) (e : Engine),
    ((fireLoop fuel e []).2 = [] → (fireLoop fuel e []).1.wm = e.wm) ∧
    (∀ y ys, (fireLoop fuel e []).2 = y :: ys → ∃ g, e.wm.get y.handle = some g ∧ y.data = g.data) := by
  intro fuel
  induction fuel with
  | zero =>
    intro e
    refine ⟨fun _ => ?_, fun y ys h => by rw [fireLoop_zero] at h; cases h⟩
    have hw := (incSkip_wm e.ag.acts.length e).1
    unfold fireLoop
    rcases hsk : C07.incSkip firePop Engine.skips e.ag.acts.length e with ⟨_ | a, e'⟩ <;>
      (rw [hsk] at hw; exact hw)
  | succ n ih =>
    intro e
    rcases fireLoop_succ n e with ⟨_, h2, h3⟩ | ⟨a, e', hw, _, h1, h2⟩
    · exact ⟨fun _ => h3, fun y ys h => by rw [h2] at h; cases h⟩
    · cases hr : (e'.fireOne a).2 with
      | none =>
        have he : (e'.fireOne a).1 = e' := fireOne_none e' _ a (by rw [← hr])
        rw [hr, he] at h2
        rw [he] at h1
        simp only [List.nil_append] at h2
        rw [h1, h2, ← hw]
        exact ih e'
      | some x =>
        rw [hr] at h2
        refine ⟨fun h => (by rw [h2] at h; cases h), fun y ys h => ?_⟩
        rw [h2] at h
        simp only [List.singleton_append, List.cons.injEq] at h
        obtain ⟨rule, f, _, _, _, hg, _, hd⟩ := fireOne_valid e' (e'.fireOne a).1 a x (by rw [← hr])
        rw [← h.1, ← hw]
        exact ⟨f, hg, hd⟩

/-! ### the clause `writesOk` along the loop -/

/-- the log entry the oracle sees (`toORes`): contents in canonical form -/
def canonF (x : Firing) : Firing := { x with data := canonData x.data }

/-- the oracle's evolving live list `L` covers working memory: every entry names a fact that was inserted with that type, and
every live fact has an entry (entries of facts that are gone may remain) -/
structure Sup (L : List (Nat × Nat × Data)) (w : WM) : Prop where
  known : ∀ t ∈ L, Known w t.1 t.2.1
  live : ∀ h ty, Live w h ty → ∃ d, (h, ty, d) ∈ L

/-- every entry of the view after the call shows the canonical contents of a live fact -/
def FinalOf (final : List (Nat × Nat × Data)) (w : WM) : Prop :=
  ∀ t ∈ final, ∃ f', w.get t.1 = some f' ∧ t.2.2 = canonData f'.data

theorem writesOk_nil (rules : List Rule) (final L : List (Nat × Nat × Data)) : writesOk rules final L [] = true := by
  unfold writesOk; rfl

theorem writesOk_noentry (rules : List Rule) (final L : List (Nat × Nat × Data)) (x : Firing) (xs : List Firing)
    (hL : L.find? (·.1 == x.handle) = none) : writesOk rules final L (x :: xs) = true := by
  unfold writesOk
  simp only [hL]
  split <;> first | rfl | contradiction

theorem writesOk_cons (rules : List Rule) (final L : List (Nat × Nat × Data)) (x : Firing) (xs : List Firing)
    (r : Rule) (h' ty : Nat) (d0 : Data) (hr : rules.find? (·.name == x.rule) = some r)
    (hL : L.find? (·.1 == x.handle) = some (h', ty, d0)) :
    writesOk rules final L (x :: xs) =
      ((if (ty == r.ty && !r.action.retract && (hasAssigns r && exprOk r x.data) && ((L.filter (·.2.1 == ty)).length == 1)) = true then
          (match xs with
           | [] => (match final.find? (·.1 == x.handle) with
                    | some (_, _, d) => canonData d == canonData (applySets x.data (assignsOn r x.data))
                    | none => true)
           | y :: _ => y.handle != x.handle || canonData y.data == canonData (applySets x.data (assignsOn r x.data)))
        else true)
       && writesOk rules final (if (r.action.retract && ty == r.ty) = true then L.filter (·.1 != x.handle) else L) xs) := by
  rw [writesOk]
  simp only [hr, hL]
  cases xs with
  | nil => cases final.find? (·.1 == x.handle) <;> rfl
  | cons y ys => rfl

theorem fact_unique {w : WM} (hi : WMInv w) {f g : Fact} (hf : f ∈ w.facts) (hg : g ∈ w.facts) (h : g.handle = f.handle) :
    g = f := by
  have h1 := wm_find_of_mem hi hf
  have h2 := wm_find_of_mem hi hg
  rw [h, h1] at h2
  exact (Option.some.inj h2).symm

/-- the expected contents: what the closure saw (canonical form) plus the assignments = the canonical form of the fact afterwards -/
theorem expected_eq (f f' : Fact) (sets : List (Nat × Val))
    (h : ∀ k, f'.data.get k = (applySets f.data sets).get k) :
    canonData f'.data = canonData (applySets (canonData f.data) sets) := by
  apply canon_ext
  intro k
  rw [h k]
  exact get_foldl_congr sets f.data (canonData f.data) (fun k => (canon_get f.data k).symm) k

theorem fireLoop_writes (rules : List Rule) (final : List (Nat × Nat × Data)) :
    ∀ (fuel : Nat) (e : Engine) (L : List (Nat × Nat × Data)),
      WMInv e.wm → DataOK e.wm → e.rules = rules → Sup L e.wm → FinalOf final (fireLoop fuel e []).1.wm →
      writesOk rules final L ((fireLoop fuel e []).2.map canonF) = true := by
  intro fuel
  induction fuel with
  | zero => intro e L _ _ _ _ _; rw [fireLoop_zero]; exact writesOk_nil _ _ _
  | succ n ih =>
    intro e L hi hd hrules hsup hfin
    rcases fireLoop_succ n e with ⟨_, h2, _⟩ | ⟨a, e', hw, hru, h1, h2⟩
    · rw [h2]; exact writesOk_nil _ _ _
    · cases hr : (e'.fireOne a).2 with
      | none =>
        have he : (e'.fireOne a).1 = e' := fireOne_none e' _ a (by rw [← hr])
        rw [hr, he] at h2
        rw [he] at h1
        simp only [List.nil_append] at h2
        rw [h2]
        exact ih e' L (by rw [hw]; exact hi) (by rw [hw]; exact hd) (by rw [hru]; exact hrules) (by rw [hw]; exact hsup)
          (by rw [← h1]; exact hfin)
      | some x =>
        rw [hr] at h2
        simp only [List.singleton_append] at h2
        rw [h2, List.map_cons]
        obtain ⟨rule, f, post⟩ := fireOne_post e' (e'.fireOne a).1 a x (by rw [hw]; exact hi) (by rw [hw]; exact hd)
          (by rw [← hr])
        generalize hE1 : (e'.fireOne a).1 = e1 at post h1 h2
        have pgot : e.wm.get x.handle = some f := by rw [← hw]; exact post.got
        have pknown : ∀ h ty, Known e.wm h ty → Known e1.wm h ty := by rw [← hw]; exact post.known
        have plive : ∀ h ty, Live e1.wm h ty → Live e.wm h ty := by rw [← hw]; exact post.live
        have pkept : rule.action.retract = false → f.ty = rule.ty → (∀ g ∈ e.wm.getAllFacts, g.ty = f.ty → g = f) →
            ∃ f', e1.wm.get x.handle = some f' ∧
              ∀ k, f'.data.get k = (applySets f.data (rule.action.resolve rule.ty (fun t => flatOf e.wm t) f.data)).get k := by
          rw [← hw]; exact post.kept
        have hfin1 : FinalOf final (fireLoop n e1 []).1.wm := by rw [← h1]; exact hfin
        cases hL : L.find? (·.1 == (canonF x).handle) with
        | none => exact writesOk_noentry _ _ _ _ _ hL
        | some t =>
          obtain ⟨h', ty, d0⟩ := t
          have hrf : rules.find? (·.name == (canonF x).rule) = some rule := by
            rw [← hrules, ← hru]; exact post.rule_found
          rw [writesOk_cons rules final L (canonF x) _ rule h' ty d0 hrf hL]
          have hmemL : (h', ty, d0) ∈ L := List.mem_of_find?_eq_some hL
          have hh' : h' = x.handle := by simpa [canonF] using List.find?_some hL
          obtain ⟨hfl, hfh⟩ := live_of_get pgot
          obtain ⟨hfm, hfr⟩ := (getAllFacts_iff _ f).1 hfl
          -- the entry's type is the matched fact's type
          have hty : ty = f.ty := by
            obtain ⟨g, hg, e1', e2'⟩ := hsup.known _ hmemL
            simp only at e1' e2'
            have : g = f := fact_unique hi hfm hg (by rw [e1', hh', hfh])
            rw [← e2', this]
          rw [Bool.and_eq_true]
          constructor
          · -- the clause for this firing
            split
            · rename_i hc
              simp only [Bool.and_eq_true, beq_iff_eq, Bool.not_eq_true'] at hc
              obtain ⟨⟨⟨c1, c2⟩, _, cx⟩, c4⟩ := hc
              have cloc : rule.action.localTo rule.ty = true := by
                simp only [exprOk, Bool.and_eq_true] at cx; exact cx.1
              have hsole : ∀ g ∈ e.wm.getAllFacts, g.ty = f.ty → g = f := by
                intro g hg hgt
                obtain ⟨hgm, hgr⟩ := (getAllFacts_iff _ g).1 hg
                obtain ⟨dg, hdg⟩ := hsup.live g.handle g.ty ⟨g, hgm, rfl, rfl, hgr⟩
                obtain ⟨df, hdf⟩ := hsup.live f.handle f.ty ⟨f, hfm, rfl, rfl, hfr⟩
                have m1 : (g.handle, g.ty, dg) ∈ L.filter (·.2.1 == ty) := List.mem_filter.2 ⟨hdg, by simp [hgt, hty]⟩
                have m2 : (f.handle, f.ty, df) ∈ L.filter (·.2.1 == ty) := List.mem_filter.2 ⟨hdf, by simp [hty]⟩
                obtain ⟨z, hz⟩ := List.length_eq_one_iff.1 c4
                rw [hz] at m1 m2
                simp only [List.mem_singleton] at m1 m2
                have : g.handle = f.handle := by
                  have := m1.trans m2.symm
                  simp only [Prod.mk.injEq] at this
                  exact this.1
                exact fact_unique hi hfm hgm this
              obtain ⟨f', hg', hdata⟩ := pkept c2 (by rw [← hty, c1]) hsole
              have hexp : canonData f'.data = canonData (applySets (canonF x).data (assignsOn rule (canonF x).data)) := by
                simp only [canonF, post.data, assignsOn]
                rw [resolve_congr rule.action rule.ty (fun _ => []) (fun t => flatOf e.wm t) (canonData f.data) f.data
                  (canon_get f.data) cloc]
                exact expected_eq f f' _ hdata
              cases hrest : (fireLoop n e1 []).2 with
              | nil =>
                simp only [List.map_nil]
                cases hff : final.find? (·.1 == (canonF x).handle) with
                | none => rfl
                | some t2 =>
                  obtain ⟨h2', ty2, d2⟩ := t2
                  simp only
                  have hm2 : (h2', ty2, d2) ∈ final := List.mem_of_find?_eq_some hff
                  have hh2 : h2' = x.handle := by simpa [canonF] using List.find?_some hff
                  obtain ⟨f'', hg'', hd''⟩ := hfin1 _ hm2
                  simp only at hg'' hd''
                  rw [((fireLoop_first n e1).1 hrest), hh2, hg'] at hg''
                  cases hg''
                  rw [hd'', canon_idem, hexp]
                  simp
              | cons y ys =>
                simp only [List.map_cons]
                obtain ⟨g, hgy, hdy⟩ := (fireLoop_first n e1).2 y ys hrest
                by_cases hyh : y.handle = x.handle
                · rw [hyh, hg'] at hgy
                  cases hgy
                  have : canonData (canonF y).data = canonData (applySets (canonF x).data (assignsOn rule (canonF x).data)) := by
                    rw [← hexp]; simp only [canonF, hdy]; exact canon_idem _
                  simp [this]
                · have : ((canonF y).handle != (canonF x).handle) = true := by simpa [canonF] using hyh
                  simp [this]
            · rfl
          · -- the rest of the log
            apply ih e1 _ post.wminv post.dataOK (by rw [post.rules, hru]; exact hrules) _ hfin1
            split
            · rename_i hc
              simp only [Bool.and_eq_true, beq_iff_eq] at hc
              constructor
              · intro t ht
                have := hsup.known t (List.mem_filter.1 ht).1
                exact pknown _ _ this
              · intro h ty' hl
                obtain ⟨d, hdm⟩ := hsup.live h ty' (plive h ty' hl)
                refine ⟨d, List.mem_filter.2 ⟨hdm, ?_⟩⟩
                have hne : h ≠ x.handle := by
                  intro e0
                  subst e0
                  exact post.retracted hc.1 (by rw [← hty, hc.2]) ty' hl
                simpa [canonF] using hne
            · exact ⟨fun t ht => pknown _ _ (hsup.known t ht), fun h ty' hl => hsup.live h ty' (plive h ty' hl)⟩

/-! ### the views around a call, and histories -/

theorem mem_insN (acc : List Nat) (a x : Nat) :
    x ∈ (acc.filter (· < a)) ++ [a] ++ (acc.filter (fun y => !(y < a))) ↔ (x ∈ acc ∨ x = a) := by
  simp only [List.mem_append, List.mem_filter, List.mem_singleton, decide_eq_true_eq, Bool.not_eq_true',
    decide_eq_false_iff_not]
  constructor
  · rintro ((h | h) | h)
    · exact Or.inl h.1
    · exact Or.inr h
    · exact Or.inl h.1
  · rintro (h | h)
    · by_cases hl : x < a
      · exact Or.inl (Or.inl ⟨h, hl⟩)
      · exact Or.inr ⟨h, hl⟩
    · exact Or.inl (Or.inr h)

theorem mem_sortNat_foldl : ∀ (l acc : List Nat) (x : Nat),
    x ∈ l.foldl (fun acc x => (acc.filter (· < x)) ++ [x] ++ (acc.filter (fun y => !(y < x)))) acc ↔ (x ∈ acc ∨ x ∈ l) := by
  intro l
  induction l with
  | nil => intro acc x; simp
  | cons a t ih =>
    intro acc x
    simp only [List.foldl_cons]
    rw [ih, mem_insN, List.mem_cons]
    constructor
    · rintro ((h | h) | h)
      · exact Or.inl h
      · exact Or.inr (Or.inl h)
      · exact Or.inr (Or.inr h)
    · rintro (h | h | h)
      · exact Or.inl (Or.inl h)
      · exact Or.inl (Or.inr h)
      · exact Or.inr h

theorem mem_sortNat (l : List Nat) (x : Nat) : x ∈ sortNat l ↔ x ∈ l := by
  unfold sortNat
  rw [mem_sortNat_foldl]
  simp

theorem mem_contents (w : WM) (t : Nat × Nat × Data) (ht : t ∈ w.view.contents) :
    ∃ f, w.get t.1 = some f ∧ t = (t.1, f.ty, canonData f.data) := by
  simp only [WM.view, List.mem_filterMap, Option.map_eq_some_iff] at ht
  obtain ⟨h, _, f, hg, e⟩ := ht
  subst e
  exact ⟨f, hg, rfl⟩

theorem sup_contents (w : WM) (hi : WMInv w) : Sup w.view.contents w := by
  constructor
  · intro t ht
    obtain ⟨f, hg, e⟩ := mem_contents w t ht
    obtain ⟨hfl, hfh⟩ := live_of_get hg
    refine ⟨f, ((getAllFacts_iff w f).1 hfl).1, hfh, ?_⟩
    rw [e]
  · rintro h ty ⟨f, hf, e1, e2, e3⟩
    have hfl : f ∈ w.getAllFacts := (getAllFacts_iff w f).2 ⟨hf, e3⟩
    refine ⟨canonData f.data, ?_⟩
    simp only [WM.view, List.mem_filterMap, Option.map_eq_some_iff]
    refine ⟨h, (mem_sortNat _ _).2 (List.mem_map.2 ⟨f, hfl, e1⟩), f, ?_, by rw [e2]⟩
    rw [← e1]; exact get_of_live hi hfl

theorem final_contents (w : WM) : FinalOf w.view.contents w := by
  intro t ht
  obtain ⟨f, hg, e⟩ := mem_contents w t ht
  exact ⟨f, hg, by rw [e]⟩

/-- `fire_all` keeps the working-memory invariant, the one-binding-per-field form of the contents, and the rule set -/
theorem fireLoop_inv : ∀ (fuel : Nat) (e : Engine), WMInv e.wm → DataOK e.wm →
    WMInv (fireLoop fuel e []).1.wm ∧ DataOK (fireLoop fuel e []).1.wm ∧ (fireLoop fuel e []).1.rules = e.rules := by
  intro fuel
  induction fuel with
  | zero =>
    intro e hi hd
    have hw := incSkip_wm e.ag.acts.length e
    unfold fireLoop
    rcases hsk : C07.incSkip firePop Engine.skips e.ag.acts.length e with ⟨_ | a, e'⟩ <;>
      (rw [hsk] at hw; simp only at hw ⊢; rw [hw.1, hw.2]; exact ⟨hi, hd, rfl⟩)
  | succ n ih =>
    intro e hi hd
    have hw0 := incSkip_wm e.ag.acts.length e
    rcases fireLoop_succ n e with ⟨hnone, _, _⟩ | ⟨a, e', hw, hru, h1, _⟩
    · have key : (fireLoop (n + 1) e []).1 = (C07.incSkip firePop Engine.skips e.ag.acts.length e).2 := by
        rw [fireLoop]
        rcases hsk : C07.incSkip firePop Engine.skips e.ag.acts.length e with ⟨_ | a, e'⟩
        · rfl
        · rw [hsk] at hnone; cases hnone
      rw [key, hw0.1, hw0.2]; exact ⟨hi, hd, rfl⟩
    · rw [h1]
      cases hr : (e'.fireOne a).2 with
      | none =>
        have he : (e'.fireOne a).1 = e' := fireOne_none e' _ a (by rw [← hr])
        rw [he]
        obtain ⟨p1, p2, p3⟩ := ih e' (by rw [hw]; exact hi) (by rw [hw]; exact hd)
        exact ⟨p1, p2, p3.trans hru⟩
      | some x =>
        obtain ⟨rule, f, post⟩ := fireOne_post e' (e'.fireOne a).1 a x (by rw [hw]; exact hi) (by rw [hw]; exact hd)
          (by rw [← hr])
        obtain ⟨p1, p2, p3⟩ := ih _ post.wminv post.dataOK
        exact ⟨p1, p2, p3.trans (post.rules.trans hru)⟩

theorem step_inv (e : Engine) (o : Op) (ho : o.WF) (hi : WMInv e.wm) (hd : DataOK e.wm) :
    WMInv (e.step o).1.wm ∧ DataOK (e.step o).1.wm ∧ (e.step o).1.rules = e.rules := by
  refine ⟨step_pres wminv_pres e o hi, ?_⟩
  cases o with
  | insert ty d =>
    simp only [Engine.step, Engine.insert, propagateType_wm]
    refine ⟨?_, rfl⟩
    intro f hf
    simp only [WM.insert, List.mem_append, List.mem_singleton] at hf
    rcases hf with h1 | h1
    · exact hd f h1
    · subst h1; exact ho
  | update hdl d =>
    simp only [Engine.step, Engine.update]
    cases hg : e.wm.get hdl with
    | none => exact ⟨hd, rfl⟩
    | some g =>
      simp only
      cases hu : e.wm.update hdl d with
      | none => exact ⟨hd, rfl⟩
      | some w => exact ⟨dataOK_update hd ho hu, rfl⟩
  | retract hdl =>
    simp only [Engine.step]
    obtain ⟨_, p2, p3, _, _⟩ := engine_retract_post e hi hd hdl
    exact ⟨p2, p3⟩
  | fire =>
    simp only [Engine.step, Engine.fireAll]
    exact (fireLoop_inv _ e hi hd).2
  | reset => exact ⟨hd, rfl⟩

theorem ite_some {α : Type} {c : Prop} [Decidable c] {a b : α} (h : (if c then some a else none) = some b) : c ∧ a = b := by
  split at h
  · exact ⟨by assumption, Option.some.inj h⟩
  · cases h

/-- a passing oracle step leaves the reference live list equal to the view's contents -/
theorem ostep_live (rules : List Rule) (r r' : Ref) (op : Op) (o : Obs) (h : ostep rules r op o = some r') :
    r'.live = o.view.contents := by
  cases op <;> cases hres : o.res <;> simp only [ostep, hres] at h <;>
    first
    | (cases h; done)
    | (obtain ⟨hc, rfl⟩ := ite_some h
       simp only [Bool.and_eq_true, contentsOk, beq_iff_eq] at hc
       exact hc.2.symm)
    | (split at h
       · cases h
       · split at h
         · cases h
         · obtain ⟨_, rfl⟩ := ite_some h; rfl)

/-- one `fire_all` call of the model, as the oracle sees it: the view before, the log, the view after -/
theorem fireAll_writes (e : Engine) (hi : WMInv e.wm) (hd : DataOK e.wm) :
    writesOk e.rules e.fireAll.1.wm.view.contents e.wm.view.contents (e.fireAll.2.map canonF) = true :=
  fireLoop_writes e.rules _ C07.incBound e _ hi hd rfl (sup_contents e.wm hi) (final_contents _)

theorem writeBackBad_trace (rules : List Rule) : ∀ (ops : List Op) (e : Engine) (r : Ref) (i : Nat),
    WMInv e.wm → DataOK e.wm → e.rules = rules → r.live = e.wm.view.contents → (∀ o ∈ ops, o.WF) →
    writeBackBad rules i r ops (trace e ops) = none := by
  intro ops
  induction ops with
  | nil => intro e r i _ _ _ _ _; simp [writeBackBad]
  | cons op ops ih =>
    intro e r i hi hd hr hl hwf
    have hstep := step_inv e op (hwf op (by simp)) hi hd
    simp only [trace, writeBackBad]
    split
    · rename_i r' hos
      have hl' : r'.live = (e.step op).1.wm.view.contents := ostep_live _ _ _ _ _ hos
      have hrec := ih (e.step op).1 r' (i + 1) hstep.1 hstep.2.1 (hstep.2.2.trans hr) hl'
        (fun o ho => hwf o (by simp [ho]))
      cases op with
      | fire =>
        have hw := fireAll_writes e hi hd
        rw [hr, ← hl] at hw
        have hw' : writesOk rules e.fireAll.1.wm.view.contents r.live
            (e.fireAll.2.map (fun f => { f with data := canonData f.data })) = true := hw
        simp only [Engine.step, toORes] at hrec ⊢
        simp only [hw', Bool.not_true, Bool.false_eq_true, if_false]
        exact hrec
      | insert ty d => simp only [Engine.step, Bool.false_eq_true, if_false] at hrec ⊢; exact hrec
      | update h d => simp only [Engine.step, Bool.false_eq_true, if_false] at hrec ⊢; exact hrec
      | retract h => simp only [Engine.step, Bool.false_eq_true, if_false] at hrec ⊢; exact hrec
      | reset => simp only [Engine.step, Bool.false_eq_true, if_false] at hrec ⊢; exact hrec
    · rfl

end C06
