import RreModel.C06.Model
/-
C06 — the property as decidable predicates over API-level observations: the result of every call, the recorder log of
`fire_all` (rule, matched handle, contents of the matched fact as the action closure saw them), and the four views of
working memory after every call.  The oracle keeps a *reference* working memory (what was inserted and not retracted,
with its latest contents) computed from the calls and the observed results only.
-/
namespace C06

def NTYPES : Nat := 3

/-- the rule's action assigns something (a literal or an expression) -/
def hasAssigns (r : Rule) : Bool := !(r.action.sets.isEmpty && r.action.xsets.isEmpty)

/-- the views of working memory after a call (handle lists sorted ascending by the harness) -/
structure View where
  get : List Nat                       -- handles h in 1..max+1 with `get(h).is_some()`
  byType : List (List Nat)             -- `get_by_type("T<k>")`, k = 0..NTYPES-1
  allFacts : List Nat                  -- `get_all_facts()`
  allHandles : List Nat                -- `get_all_handles()`
  contents : List (Nat × Nat × Data)   -- (handle, type, fields sorted) of `get_all_facts()`
deriving Repr, DecidableEq

inductive ORes where
  | handle (h : Nat)
  | ok (b : Bool)
  | fired (names : List Nat) (log : List Firing)
  | unit
deriving Repr, DecidableEq

structure Obs where
  res : ORes
  view : View
deriving Repr, DecidableEq

def sortNat (l : List Nat) : List Nat := l.foldl (fun acc x => (acc.filter (· < x)) ++ [x] ++ (acc.filter (fun y => !(y < x)))) []

def sortData (d : Data) : Data :=
  d.foldl (fun acc kv => (acc.filter (·.1 < kv.1)) ++ [kv] ++ (acc.filter (fun y => !(y.1 < kv.1)))) []

/-- canonical contents of a fact: one binding per field (the first wins), sorted by field -/
def canonData (d : Data) : Data :=
  sortData ((C06.dedup (d.map (·.1))).filterMap (fun k => (d.get k).map (fun v => (k, v))))

def WM.view (w : WM) : View :=
  let live := w.getAllFacts
  let maxH := w.nextId
  { get := (List.range (maxH + 1)).filter (fun h => (w.get h).isSome),
    byType := (List.range NTYPES).map (fun k => sortNat ((w.getByType k).map (·.handle))),
    allFacts := sortNat (live.map (·.handle)),
    allHandles := sortNat w.getAllHandles,
    contents := (sortNat (live.map (·.handle))).filterMap (fun h => (w.get h).map (fun f => (h, f.ty, canonData f.data))) }

def toORes : Res → ORes
  | .handle h => .handle h
  | .ok b => .ok b
  | .fired fs => .fired (fs.map (·.rule)) (fs.map (fun f => { f with data := canonData f.data }))
  | .unit => .unit

/-- the model's observation sequence -/
def trace (e : Engine) : List Op → List Obs
  | [] => []
  | o :: os => { res := toORes (e.step o).2, view := (e.step o).1.wm.view } :: trace (e.step o).1 os

/-! ### the oracle -/

/-- reference working memory: what is inserted and not retracted, with its latest contents -/
structure Ref where
  live : List (Nat × Nat × Data) := []     -- (handle, type, canonical data), ascending handles
  nextId : Nat := 1
  firedSince : List Nat := []              -- rules fired since the last reset
  fresh : List Nat := []                   -- handles inserted / updated since the last fire_all
  freshTypes : List Nat := []              -- fact types touched (insert / successful update / successful retract) since the last fire_all
deriving Repr, DecidableEq

def Ref.has (r : Ref) (h : Nat) : Bool := r.live.any (·.1 == h)

/-- **view agreement**: by handle, under its type, in both full listings — exactly the reference live set -/
def viewsOk (live : List (Nat × Nat × Data)) (v : View) : Bool :=
  let hs := live.map (·.1)
  v.get == hs && v.allFacts == hs && v.allHandles == hs &&
  v.byType == (List.range NTYPES).map (fun k => (live.filter (·.2.1 == k)).map (·.1))

def contentsOk (live : List (Nat × Nat × Data)) (v : View) : Bool := v.contents == live

/-- **per-firing clauses**, walking through the recorder log with the live set `L` as it evolves -/
def firingsOk (rules : List Rule) : List (Nat × Nat × Data) → List Nat → List Firing → Option (List (Nat × Nat × Data) × List Nat)
  | L, fs, [] => some (L, fs)
  | L, fs, x :: xs =>
    match rules.find? (·.name == x.rule), L.find? (·.1 == x.handle) with
    | some r, some (_, ty, _) =>
      -- retracted_never_fires: the matched handle is live; fires_only_if_true_now: the rule node is true of the
      -- contents the closure saw; no-loop: at most once between resets
      if r.node.eval ty x.data && !(r.noLoop && fs.contains r.name) then
        firingsOk rules (if r.action.retract && ty == r.ty then L.filter (·.1 != x.handle) else L) (fs ++ [r.name]) xs
      else none
    | _, _ => none

/-- which clause of `firingsOk` fails first (for the replay file) -/
def firingsBad (rules : List Rule) : List (Nat × Nat × Data) → List Nat → List Firing → String
  | _, _, [] => "?"
  | L, fs, x :: xs =>
    match rules.find? (·.name == x.rule), L.find? (·.1 == x.handle) with
    | some r, some (_, ty, _) =>
      if !r.node.eval ty x.data then "fires_only_if_true_now"
      else if r.noLoop && fs.contains r.name then "no_loop_twice"
      else firingsBad rules (if r.action.retract && ty == r.ty then L.filter (·.1 != x.handle) else L) (fs ++ [r.name]) xs
    | none, _ => "unknown_rule"
    | _, none => "retracted_never_fires"

def quietRules (rules : List Rule) : Bool :=
  rules.all (fun r => r.action.sets.isEmpty && !r.action.retract && r.noLoop && r.action.xsets.isEmpty)

/-- rules the exactness clause expects to fire: no-loop, not fired since the last reset, satisfied by a live fact of
their type -/
def expectedRules (rules : List Rule) (r : Ref) : List Nat :=
  (rules.filter (fun rule => rule.noLoop && !r.firedSince.contains rule.name &&
    r.live.any (fun f => f.2.1 == rule.ty && rule.node.eval f.2.1 f.2.2))).map (·.name)

/-- **exactness** (actions leave working memory unchanged; every live fact inserted/updated since the last fire_all):
every expected rule fired; "exactly once and no other" is `firingsOk` (no-loop once, condition true of a live fact) -/
def exactOk (rules : List Rule) (r : Ref) (names : List Nat) : Bool :=
  !(quietRules rules && r.live.all (fun f => r.fresh.contains f.1)) || (expectedRules rules r).all names.contains

/-- **exactness after a firing** (`quiescent_fire_all_exact_after_firing`): whether or not the live facts were touched since the
last fire_all, a call that fires anything fires every expected rule (after the first firing the engine re-evaluates every
unfired rule on every live fact of its type) -/
def exactAfterOk (rules : List Rule) (r : Ref) (names : List Nat) : Bool :=
  !(quietRules rules && !names.isEmpty) || (expectedRules rules r).all names.contains

/-- **exactness, by type** (seeded change C06-13): insert, update and retract re-evaluate EVERY live fact of the touched type, so the
clause applies as soon as the TYPE of every live fact was touched since the last fire_all — e.g. reset, then an update of one of
two facts of a type to contents that no longer satisfy a rule the other fact still satisfies: the rule must fire (for the other). -/
def exactTypeOk (rules : List Rule) (r : Ref) (names : List Nat) : Bool :=
  !(quietRules rules && r.live.all (fun f => r.freshTypes.contains f.2.1)) || (expectedRules rules r).all names.contains

def tyOfLive (r : Ref) (h : Nat) : List Nat := (r.live.filter (·.1 == h)).map (·.2.1)

def setData (h : Nat) (d : Data) : List (Nat × Nat × Data) → List (Nat × Nat × Data)
  | [] => []
  | (k, ty, x) :: t => if k == h then (k, ty, d) :: t else (k, ty, x) :: setData h d t

/-- one step of the oracle: `none` = a clause is violated -/
def ostep (rules : List Rule) (r : Ref) (op : Op) (o : Obs) : Option Ref :=
  match op, o.res with
  | .insert ty d, .handle h =>
    -- handles_fresh: insert returns next_id (strictly increasing, never an earlier handle)
    let r' := { r with live := r.live ++ [(h, ty, canonData d)], nextId := r.nextId + 1, fresh := r.fresh ++ [h],
                       freshTypes := r.freshTypes ++ [ty] }
    if h == r.nextId && viewsOk r'.live o.view && contentsOk r'.live o.view then some r' else none
  | .update h d, .ok b =>
    let r' := if b then { r with live := setData h (canonData d) r.live, fresh := r.fresh ++ [h],
                                 freshTypes := r.freshTypes ++ tyOfLive r h } else r
    if b == r.has h && viewsOk r'.live o.view && contentsOk r'.live o.view then some r' else none
  | .retract h, .ok b =>
    let r' := if b then { r with live := r.live.filter (·.1 != h), freshTypes := r.freshTypes ++ tyOfLive r h } else r
    if b == r.has h && viewsOk r'.live o.view && contentsOk r'.live o.view then some r' else none
  | .reset, .unit =>
    if viewsOk r.live o.view && contentsOk r.live o.view then some { r with firedSince := [] } else none
  | .fire, .fired names log =>
    if names != log.map (·.rule) then none else
    match firingsOk rules r.live r.firedSince log with
    | none => none
    | some (L, fs) =>
      -- contents after the run are taken from the view (write-back is order dependent); handles/types must be `L`
      let live' := o.view.contents
      if viewsOk L o.view && live'.map (fun f => (f.1, f.2.1)) == L.map (fun f => (f.1, f.2.1)) &&
         (!(rules.all (fun rule => !hasAssigns rule)) || live' == L) && exactOk rules r names &&
         exactAfterOk rules r names && exactTypeOk rules r names then
        some { r with live := live', firedSince := fs, fresh := [], freshTypes := [] }
      else none
  | _, _ => none

/-! ### the loader path: an engine whose rules came through `GrlReteLoader` (their closures carry no recorder)

The same clauses, as far as they can be evaluated without the recorder log: results of insert / update / retract / reset and the
views after them as in `ostep`; for `fire_all` the returned names only. -/

/-- names returned by one `fire_all`: every rule is known, a no-loop rule fires at most once between resets; returns the
rules fired since the last reset -/
def namesOk (rules : List Rule) : List Nat → List Nat → Option (List Nat)
  | fs, [] => some fs
  | fs, n :: ns =>
    match rules.find? (·.name == n) with
    | some r => if r.noLoop && fs.contains n then none else namesOk rules (fs ++ [n]) ns
    | none => none

/-- no action changes or retracts anything: working memory is the same before, during and after `fire_all` -/
def inertRules (rules : List Rule) : Bool := rules.all (fun r => !hasAssigns r && !r.action.retract)

/-- "fires no other rule" when working memory cannot change during the call: every fired rule is satisfied by a live fact of
its type -/
def firedSatisfied (rules : List Rule) (live : List (Nat × Nat × Data)) (names : List Nat) : Bool :=
  names.all (fun n => rules.any (fun r => r.name == n && live.any (fun f => f.2.1 == r.ty && r.node.eval f.2.1 f.2.2)))

def ostepG (rules : List Rule) (r : Ref) (op : Op) (o : Obs) : Option Ref :=
  match op, o.res with
  | .fire, .fired names [] =>
    match namesOk rules r.firedSince names with
    | none => none
    | some fs =>
      let live' := o.view.contents
      -- the views agree among themselves; actions never insert: every live fact was live before with the same type; without
      -- a retracting rule the live set is unchanged, without any assignment the contents are
      if viewsOk live' o.view &&
         live'.all (fun f => r.live.any (fun g => g.1 == f.1 && g.2.1 == f.2.1)) &&
         (rules.any (·.action.retract) || live'.map (·.1) == r.live.map (·.1)) &&
         (!(rules.all (fun rule => !hasAssigns rule)) ||
            live'.all (fun f => r.live.any (fun g => g == f))) &&
         (!inertRules rules || firedSatisfied rules r.live names) &&
         exactOk rules r names && exactAfterOk rules r names && exactTypeOk rules r names then
        some { r with live := live', firedSince := fs, fresh := [], freshTypes := [] }
      else none
  | .fire, _ => none
  | _, _ => ostep rules r op o

def orunG (rules : List Rule) : Ref → List Op → List Obs → Bool
  | _, [], [] => true
  | r, op :: ops, o :: os =>
    match ostepG rules r op o with
    | some r' => orunG rules r' ops os
    | none => false
  | _, _, _ => false

/-- the two engines side by side: for quiet rule sets that the GRL round trip leaves unchanged, every `fire_all` call fires the
same set of rules in both (the order among equal saliences comes from `Instant`s and hash iteration) -/
def sameFired : List Obs → List Obs → Bool
  | [], [] => true
  | a :: as, b :: bs =>
    (match a.res, b.res with
     | .fired n1 _, .fired n2 _ => sortNat n1 == sortNat n2
     | _, _ => true) && sameFired as bs
  | _, _ => false

def orun (rules : List Rule) : Ref → List Op → List Obs → Bool
  | _, [], [] => true
  | r, op :: ops, o :: os =>
    match ostep rules r op o with
    | some r' => orun rules r' ops os
    | none => false
  | _, _, _ => false

/-! ### action write-back (clause `action_write_lost`, evaluated after `orun` passed)

"including actions that modify the matched fact": what an action assigns IS the fact's contents from then on.  When the matched
fact is the only live fact of its type (then the un-prefixed `Type.field` keys of the flattened copy are its own and the
write-back by type reaches it alone, whatever the hash order), a non-retracting rule with assignments leaves the fact with the
contents the closure saw plus its assignments — typed values, not their printed form.  Checked against the contents the NEXT
firing on the same handle saw, or, for the last firing of the call, against the view after the call. -/
def applySets (d : Data) (sets : List (Nat × Val)) : Data := sets.foldl (fun d kv => d.set kv.1 kv.2) d

/-- every field an expression reads is a field of type `ty` (then its value on a fact of that type depends on that fact alone) -/
def Atom.localTo (ty : Nat) : Atom → Bool
  | .fld t _ => t == ty
  | _ => true

def Expr.localTo (ty : Nat) (e : Expr) : Bool := e.head.localTo ty && e.tail.all (fun p => p.2.localTo ty)

def Action.localTo (ty : Nat) (a : Action) : Bool := a.xsets.all (fun p => p.2.1.localTo ty)

/-- **what a rule assigns when it fires on contents `d`**: the literal assignments, then every `T.f = <expr>` with the value the
expression has on the contents at that moment (earlier assignments of the same firing included) -/
def assignsOn (r : Rule) (d : Data) : List (Nat × Val) := r.action.resolve r.ty (fun _ => []) d

/-- every expression HAS a value on the contents when its turn comes: all fields present, operands numeric (or two words for
`+`), no division by zero, the result inside the modelled value domain.  (When it has none the code stores the expression's text
— `evaluate_expression_for_rete`, "silently fallback" — which the model mirrors and the property does not speak about.) -/
def definedX (ty : Nat) : Data → List (Nat × Expr × Nat) → Bool
  | _, [] => true
  | d, (f, e, sid) :: rest =>
    let look := fun (t k : Nat) => if t == ty then d.get k else none
    let xv := e.actXV look
    xv != .err && xv != .inexact && xv.store sid != unmodelled && definedX ty (d.set f (xv.store sid)) rest

def definedOn (r : Rule) (d : Data) : Bool := definedX r.ty (applySets d r.action.sets) r.action.xsets

/-- the clause speaks about this firing: local expressions that all have a value -/
def exprOk (r : Rule) (d : Data) : Bool := r.action.localTo r.ty && definedOn r d

def writesOk (rules : List Rule) (final : List (Nat × Nat × Data)) : List (Nat × Nat × Data) → List Firing → Bool
  | _, [] => true
  | L, x :: xs =>
    match rules.find? (·.name == x.rule), L.find? (·.1 == x.handle) with
    | some r, some (_, ty, _) =>
      let L' := if r.action.retract && ty == r.ty then L.filter (·.1 != x.handle) else L
      let sole := (L.filter (·.2.1 == ty)).length == 1
      let ok :=
        if ty == r.ty && !r.action.retract && (hasAssigns r && exprOk r x.data) && sole then
          let E := canonData (applySets x.data (assignsOn r x.data))
          match xs with
          | [] => (match final.find? (·.1 == x.handle) with | some (_, _, d) => canonData d == E | none => true)
          | y :: _ => y.handle != x.handle || canonData y.data == E
        else true
      ok && writesOk rules final L' xs
    | _, _ => true

def writeBackBad (rules : List Rule) : Nat → Ref → List Op → List Obs → Option String
  | i, r, op :: ops, o :: os =>
    match ostep rules r op o with
    | some r' =>
      let bad := match op, o.res with
        | .fire, .fired _ log => !writesOk rules o.view.contents r.live log
        | _, _ => false
      if bad then some ("action_write_lost@" ++ toString i) else writeBackBad rules (i + 1) r' ops os
    | none => none
  | _, _, _, _ => none

end C06
