import RreModel.C06.Spec
namespace C06
open C07 (Act Agenda)

/-! ### every engine operation acts on working memory through insert / update / retract / writeBack only -/

theorem propagateType_wm (e : Engine) (ty : Nat) : (e.propagateType ty).wm = e.wm := rfl
theorem propagateAll_wm (e : Engine) : e.propagateAll.wm = e.wm := rfl

/-- a property of working memory preserved by the four primitive updates -/
structure Pres (P : WM → Prop) : Prop where
  ins : ∀ w ty d, P w → P (w.insert ty d).1
  upd : ∀ w h d w', P w → w.update h d = some w' → P w'
  ret : ∀ w h w', P w → w.retract h = some w' → P w'
  wb : ∀ w ty sets, P w → P (writeBack w ty sets)

theorem retract_pres {P : WM → Prop} (hp : Pres P) (e : Engine) (h : Nat) (he : P e.wm) : P (e.retract h).1.wm := by
  unfold Engine.retract
  cases e.wm.get h with
  | none => exact he
  | some f =>
    simp only
    cases hr : e.wm.retract h with
    | none => exact he
    | some w => simp only [propagateType_wm]; exact hp.ret _ _ _ he hr

theorem update_pres {P : WM → Prop} (hp : Pres P) (e : Engine) (h : Nat) (d : Data) (he : P e.wm) : P (e.update h d).1.wm := by
  unfold Engine.update
  cases e.wm.get h with
  | none => exact he
  | some f =>
    simp only
    cases hr : e.wm.update h d with
    | none => exact he
    | some w => simp only [propagateType_wm]; exact hp.upd _ _ _ _ he hr

theorem fireOne_pres {P : WM → Prop} (hp : Pres P) (e : Engine) (a : Act) (he : P e.wm) : P (e.fireOne a).1.wm := by
  unfold Engine.fireOne
  cases e.rules.find? (·.name == a.rule) with
  | none => exact he
  | some rule =>
    simp only
    cases a.handle with
    | none => exact he
    | some h =>
      simp only
      cases e.wm.get h with
      | none => exact he
      | some f =>
        simp only
        split
        · exact he
        · have h1 : P ({ e with wm := writeBack e.wm rule.ty (e.setsOf rule) } : Engine).propagateAll.wm := by
            rw [propagateAll_wm]; exact hp.wb _ _ _ he
          simp only
          split
          · split
            · exact retract_pres hp _ _ h1
            · exact h1
          · exact h1

theorem incSkip_wm : ∀ (k : Nat) (e : Engine),
    (C07.incSkip firePop Engine.skips k e).2.wm = e.wm ∧ (C07.incSkip firePop Engine.skips k e).2.rules = e.rules := by
  intro k
  induction k with
  | zero => intro e; exact ⟨rfl, rfl⟩
  | succ k ih =>
    intro e
    simp only [C07.incSkip, firePop]
    cases e.ag.getNext.1 with
    | none => exact ⟨rfl, rfl⟩
    | some a =>
      simp only
      split
      · exact ih _
      · exact ⟨rfl, rfl⟩

theorem fireLoop_pres {P : WM → Prop} (hp : Pres P) : ∀ (fuel : Nat) (e : Engine) (out : List Firing),
    P e.wm → P (fireLoop fuel e out).1.wm := by
  intro fuel
  induction fuel with
  | zero =>
    intro e out he
    unfold fireLoop
    have hw := (incSkip_wm e.ag.acts.length e).1
    rcases hsk : C07.incSkip firePop Engine.skips e.ag.acts.length e with ⟨_ | a, e'⟩ <;>
      (rw [hsk] at hw; simp only at hw ⊢; rw [hw]; exact he)
  | succ n ih =>
    intro e out he
    unfold fireLoop
    have hw := (incSkip_wm e.ag.acts.length e).1
    rcases hsk : C07.incSkip firePop Engine.skips e.ag.acts.length e with ⟨_ | a, e'⟩
    · rw [hsk] at hw; simp only at hw ⊢; rw [hw]; exact he
    · rw [hsk] at hw; simp only at hw ⊢
      exact ih _ _ (fireOne_pres hp _ a (by rw [hw]; exact he))

theorem step_pres {P : WM → Prop} (hp : Pres P) (e : Engine) (op : Op) (he : P e.wm) : P (e.step op).1.wm := by
  cases op with
  | insert ty d => simp only [Engine.step, Engine.insert, propagateType_wm]; exact hp.ins _ _ _ he
  | update h d => exact update_pres hp e h d he
  | retract h => exact retract_pres hp e h he
  | fire => exact fireLoop_pres hp _ _ _ he
  | reset => exact he

theorem run_pres {P : WM → Prop} (hp : Pres P) (ops : List Op) (e : Engine) (he : P e.wm) : P (e.run ops).wm := by
  induction ops generalizing e with
  | nil => exact he
  | cons op ops ih => exact ih _ (step_pres hp e op he)

/-! ### facts keep their handle, type and position; only data / retracted change -/

theorem mapFact_handles (h : Nat) (f : Fact → Fact) (hf : ∀ x, (f x).handle = x.handle) (l : List Fact) :
    (mapFact h f l).map (·.handle) = l.map (·.handle) := by
  induction l with
  | nil => rfl
  | cons x t ih => simp only [mapFact]; split <;> simp [hf, ih]

theorem mem_mapFact {h : Nat} {f : Fact → Fact} {l : List Fact} {y : Fact} (hy : y ∈ mapFact h f l) :
    y ∈ l ∨ ∃ x ∈ l, y = f x ∧ x.handle = h := by
  induction l with
  | nil => simp [mapFact] at hy
  | cons x t ih =>
    simp only [mapFact] at hy
    split at hy
    · rename_i hx
      simp only [List.mem_cons] at hy
      cases hy with
      | inl h1 => exact Or.inr ⟨x, by simp, h1, by simpa using hx⟩
      | inr h1 => exact Or.inl (by simp [h1])
    · simp only [List.mem_cons] at hy
      cases hy with
      | inl h1 => exact Or.inl (by simp [h1])
      | inr h1 =>
        cases ih h1 with
        | inl h2 => exact Or.inl (by simp [h2])
        | inr h2 => obtain ⟨z, hz, e1, e2⟩ := h2; exact Or.inr ⟨z, by simp [hz], e1, e2⟩

/-- handles below `next_id` -/
def HInv (w : WM) : Prop := ∀ f ∈ w.facts, f.handle < w.nextId

theorem hinv_pres : Pres HInv := by
  constructor
  · intro w ty d h f hf
    simp only [WM.insert, List.mem_append, List.mem_singleton] at hf ⊢
    cases hf with
    | inl h1 => have := h f h1; omega
    | inr h1 => subst h1; simp
  · intro w h d w' hw hu f hf
    unfold WM.update at hu
    cases hfind : w.find h with
    | none => simp [hfind] at hu
    | some g =>
      simp only [hfind] at hu
      split at hu
      · simp at hu
      · simp only [Option.some.injEq] at hu
        subst hu
        simp only at hf ⊢
        cases mem_mapFact hf with
        | inl h1 => exact hw f h1
        | inr h1 => obtain ⟨x, hx, e1, _⟩ := h1; subst e1; exact hw x hx
  · intro w h w' hw hu f hf
    unfold WM.retract at hu
    cases hfind : w.find h with
    | none => simp [hfind] at hu
    | some g =>
      simp only [hfind] at hu
      split at hu
      · simp at hu
      · simp only [Option.some.injEq] at hu
        subst hu
        simp only at hf ⊢
        cases mem_mapFact hf with
        | inl h1 => exact hw f h1
        | inr h1 => obtain ⟨x, hx, e1, _⟩ := h1; subst e1; exact hw x hx
  · intro w ty sets hw f hf
    unfold writeBack at hf ⊢
    simp only at hf ⊢
    split at hf
    · split
      · exact hw f hf
      · rename_i h1 h2; exact absurd h1 h2
    · split
      · rename_i h1 h2; exact absurd h2 h1
      · simp only [List.mem_map] at hf
        obtain ⟨x, hx, e1⟩ := hf
        subst e1
        simp only
        split <;> exact hw x hx

/-- `next_id` never decreases -/
theorem nextId_mono_pres (n : Nat) : Pres (fun w => n ≤ w.nextId) := by
  constructor
  · intro w ty d h; simp only [WM.insert]; omega
  · intro w h d w' hw hu
    unfold WM.update at hu
    cases hfind : w.find h with
    | none => simp [hfind] at hu
    | some g =>
      simp only [hfind] at hu
      split at hu
      · simp at hu
      · simp only [Option.some.injEq] at hu; subst hu; exact hw
  · intro w h w' hw hu
    unfold WM.retract at hu
    cases hfind : w.find h with
    | none => simp [hfind] at hu
    | some g =>
      simp only [hfind] at hu
      split at hu
      · simp at hu
      · simp only [Option.some.injEq] at hu; subst hu; exact hw
  · intro w ty sets hw
    unfold writeBack
    simp only
    split <;> exact hw

/-! ### the loop body -/

theorem fireOne_valid (e e' : Engine) (a : Act) (x : Firing) (h : e.fireOne a = (e', some x)) :
    ∃ rule f, e.rules.find? (·.name == a.rule) = some rule ∧ x.rule = rule.name ∧ a.handle = some x.handle ∧
      e.wm.get x.handle = some f ∧ rule.node.eval f.ty f.data = true ∧ x.data = f.data := by
  unfold Engine.fireOne at h
  cases hr : e.rules.find? (·.name == a.rule) with
  | none => simp [hr] at h
  | some rule =>
    simp only [hr] at h
    cases hh : a.handle with
    | none => simp [hh] at h
    | some hd =>
      simp only [hh] at h
      cases hg : e.wm.get hd with
      | none => simp [hg] at h
      | some f =>
        simp only [hg] at h
        split at h
        · simp at h
        · rename_i hev
          simp only [Prod.mk.injEq, Option.some.injEq] at h
          obtain ⟨_, rfl⟩ := h
          exact ⟨rule, f, rfl, rfl, rfl, hg, by simpa using hev, rfl⟩

/-- every firing collected by the loop was produced by the loop body at some engine state -/
theorem fireLoop_firings (P : Firing → Prop)
    (hP : ∀ (e e' : Engine) (a : Act) (x : Firing), e.fireOne a = (e', some x) → P x) :
    ∀ (fuel : Nat) (e : Engine) (out : List Firing), (∀ x ∈ out, P x) → ∀ x ∈ (fireLoop fuel e out).2, P x := by
  intro fuel
  induction fuel with
  | zero =>
    intro e out ho
    unfold fireLoop
    rcases C07.incSkip firePop Engine.skips e.ag.acts.length e with ⟨_ | a, e'⟩ <;> exact ho
  | succ n ih =>
    intro e out ho
    unfold fireLoop
    rcases C07.incSkip firePop Engine.skips e.ag.acts.length e with ⟨_ | a, e'⟩
    · exact ho
    · simp only
      apply ih
      cases hr : (Engine.fireOne e' a).2 with
      | none => exact ho
      | some y =>
        intro x hx
        simp only [List.mem_append, List.mem_singleton] at hx
        cases hx with
        | inl h1 => exact ho x h1
        | inr h1 =>
          subst h1
          exact hP _ (Engine.fireOne e' a).1 a x (by rw [← hr])

theorem fireLoop_length : ∀ (fuel : Nat) (e : Engine) (out : List Firing),
    (fireLoop fuel e out).2.length ≤ out.length + fuel := by
  intro fuel
  induction fuel with
  | zero =>
    intro e out
    unfold fireLoop
    rcases C07.incSkip firePop Engine.skips e.ag.acts.length e with ⟨_ | a, e'⟩ <;> simp
  | succ n ih =>
    intro e out
    unfold fireLoop
    rcases C07.incSkip firePop Engine.skips e.ag.acts.length e with ⟨_ | a, e'⟩
    · simp
    · simp only
      refine Nat.le_trans (ih _ _) ?_
      cases (Engine.fireOne e' a).2 <;> simp <;> omega

/-! ### the working-memory invariant: handles unique and below next_id, the type index lists exactly the live facts -/

def Live (w : WM) (h ty : Nat) : Prop := ∃ f ∈ w.facts, f.handle = h ∧ f.ty = ty ∧ f.retracted = false

structure WMInv (w : WM) : Prop where
  hinv : HInv w
  nodup : (w.facts.map (·.handle)).Nodup
  idx : ∀ ty h, h ∈ indexGet ty w.index ↔ Live w h ty

theorem indexGet_add (ty h ty' : Nat) (idx : List (Nat × List Nat)) :
    indexGet ty' (indexAdd ty h idx) = if ty' = ty then indexGet ty' idx ++ [h] else indexGet ty' idx := by
  induction idx with
  | nil =>
    simp only [indexAdd, indexGet, beq_iff_eq]
    by_cases h1 : ty' = ty
    · simp [h1]
    · have : ¬ ty = ty' := fun h2 => h1 h2.symm
      simp [h1, this]
  | cons x rest ih =>
    obtain ⟨t, hs⟩ := x
    simp only [indexAdd, beq_iff_eq]
    by_cases h1 : t = ty
    · subst h1
      simp only [if_true, indexGet, beq_iff_eq]
      by_cases h2 : t = ty'
      · subst h2; simp
      · have : ¬ ty' = t := fun h3 => h2 h3.symm
        simp [h2, this]
    · simp only [h1, if_false, indexGet, beq_iff_eq, ih]
      by_cases h2 : t = ty'
      · subst h2; simp [h1]
      · simp [h2]

theorem indexGet_remove (ty h ty' : Nat) (idx : List (Nat × List Nat)) :
    indexGet ty' (indexRemove ty h idx) = if ty' = ty then (indexGet ty' idx).filter (· != h) else indexGet ty' idx := by
  induction idx with
  | nil => simp [indexRemove, indexGet]
  | cons x rest ih =>
    obtain ⟨t, hs⟩ := x
    simp only [indexRemove, beq_iff_eq]
    by_cases h1 : t = ty
    · subst h1
      simp only [if_true, indexGet, beq_iff_eq]
      by_cases h2 : t = ty'
      · subst h2; simp
      · have : ¬ ty' = t := fun h3 => h2 h3.symm
        simp [h2, this]
    · simp only [h1, if_false, indexGet, beq_iff_eq, ih]
      by_cases h2 : t = ty'
      · subst h2; simp [h1]
      · simp [h2]

theorem find_mem {w : WM} {h : Nat} {f : Fact} (hf : w.find h = some f) : f ∈ w.facts ∧ f.handle = h := by
  unfold WM.find at hf
  exact ⟨List.mem_of_find?_eq_some hf, by simpa using List.find?_some hf⟩

theorem find_of_mem : ∀ (l : List Fact) (f : Fact), (l.map (·.handle)).Nodup → f ∈ l →
    l.find? (·.handle == f.handle) = some f := by
  intro l
  induction l with
  | nil => intro f _ hf; simp at hf
  | cons x t ih =>
    intro f hn hf
    simp only [List.map_cons, List.nodup_cons] at hn
    simp only [List.mem_cons] at hf
    simp only [List.find?_cons]
    cases hf with
    | inl h1 => subst h1; simp
    | inr h1 =>
      have : x.handle ≠ f.handle := by
        intro he
        apply hn.1
        rw [he]
        exact List.mem_map.2 ⟨f, h1, rfl⟩
      have hb : (x.handle == f.handle) = false := by simpa using this
      rw [hb]
      exact ih f hn.2 h1

theorem wm_find_of_mem {w : WM} (hi : WMInv w) {f : Fact} (hf : f ∈ w.facts) : w.find f.handle = some f :=
  find_of_mem w.facts f hi.nodup hf

/-- facts of a list obtained by changing data / the retracted flag in place -/
theorem live_congr {w w' : WM} (hsame : ∀ h ty, Live w' h ty ↔ Live w h ty) (hidx : w'.index = w.index)
    (hh : w'.facts.map (·.handle) = w.facts.map (·.handle)) (hn : w'.nextId = w.nextId) (hi : WMInv w) : WMInv w' := by
  constructor
  · intro f hf
    have : f.handle ∈ w'.facts.map (·.handle) := List.mem_map.2 ⟨f, hf, rfl⟩
    rw [hh] at this
    obtain ⟨g, hg, e1⟩ := List.mem_map.1 this
    have := hi.hinv g hg
    rw [hn]; omega
  · rw [hh]; exact hi.nodup
  · intro ty h; rw [hidx, hsame]; exact hi.idx ty h

def fkey (f : Fact) : Nat × Nat × Bool := (f.handle, f.ty, f.retracted)

theorem live_iff_key (w : WM) (h ty : Nat) : Live w h ty ↔ (h, ty, false) ∈ w.facts.map fkey := by
  simp only [Live, List.mem_map, fkey, Prod.mk.injEq]

theorem mapFact_key (h : Nat) (g : Fact → Fact) (hg : ∀ x, fkey (g x) = fkey x) (l : List Fact) :
    (mapFact h g l).map fkey = l.map fkey := by
  induction l with
  | nil => rfl
  | cons x t ih => simp only [mapFact]; split <;> simp [hg, ih]

theorem key_handles (l l' : List Fact) (h : l'.map fkey = l.map fkey) : l'.map (·.handle) = l.map (·.handle) := by
  have : ∀ m : List Fact, m.map (·.handle) = (m.map fkey).map (·.1) := by
    intro m; simp [List.map_map, fkey, Function.comp_def]
  rw [this l', this l, h]

theorem key_congr {w w' : WM} (hk : w'.facts.map fkey = w.facts.map fkey) (hidx : w'.index = w.index)
    (hn : w'.nextId = w.nextId) (hi : WMInv w) : WMInv w' :=
  live_congr (w := w) (w' := w') (fun h ty => by rw [live_iff_key, live_iff_key, hk]) hidx (key_handles _ _ hk) hn hi

/-- after `retract h`: the facts live are the ones that were, except `h` -/
theorem mapFact_retract_live {l : List Fact} {h : Nat} (hn : (l.map (·.handle)).Nodup) (h' ty : Nat) :
    (∃ f ∈ mapFact h (fun x => { x with retracted := true }) l, f.handle = h' ∧ f.ty = ty ∧ f.retracted = false) ↔
    (∃ f ∈ l, f.handle = h' ∧ f.ty = ty ∧ f.retracted = false) ∧ h' ≠ h := by
  induction l with
  | nil => simp [mapFact]
  | cons x t ih =>
    simp only [List.map_cons, List.nodup_cons] at hn
    simp only [mapFact]
    by_cases hx : x.handle = h
    · simp only [beq_iff_eq, hx, if_true, List.mem_cons, exists_eq_or_imp]
      constructor
      · rintro (h1 | ⟨f, hf, e1, e2, e3⟩)
        · simp at h1
        · refine ⟨Or.inr ⟨f, hf, e1, e2, e3⟩, ?_⟩
          intro he
          apply hn.1
          rw [hx, ← he, ← e1]
          exact List.mem_map.2 ⟨f, hf, rfl⟩
      · rintro ⟨h1 | h1, h2⟩
        · first | exact absurd h1.1.symm h2 | exact absurd (h1.1.symm.trans hx) h2
        · exact Or.inr h1
    · simp only [beq_iff_eq, hx, if_false, List.mem_cons, exists_eq_or_imp, ih hn.2]
      constructor
      · rintro (h1 | h1)
        · exact ⟨Or.inl h1, fun he => hx (h1.1.trans he)⟩
        · exact ⟨Or.inr h1.1, h1.2⟩
      · rintro ⟨h1 | h1, h2⟩
        · exact Or.inl h1
        · exact Or.inr ⟨h1, h2⟩

theorem wminv_pres : Pres WMInv := by
  constructor
  · -- insert
    intro w ty d hi
    have hlive : ∀ ty' h, Live (w.insert ty d).1 h ty' ↔ (Live w h ty' ∨ (h = w.nextId ∧ ty' = ty)) := by
      intro ty' h
      simp only [Live, WM.insert, List.mem_append, List.mem_singleton]
      constructor
      · rintro ⟨f, hf | hf, e1, e2, e3⟩
        · exact Or.inl ⟨f, hf, e1, e2, e3⟩
        · subst hf; simp only at e1 e2; exact Or.inr ⟨e1.symm, e2.symm⟩
      · rintro (⟨f, hf, e1, e2, e3⟩ | ⟨e1, e2⟩)
        · exact ⟨f, Or.inl hf, e1, e2, e3⟩
        · exact ⟨_, Or.inr rfl, e1.symm, e2.symm, rfl⟩
    constructor
    · exact hinv_pres.ins w ty d hi.hinv
    · simp only [WM.insert, List.map_append, List.map_cons, List.map_nil]
      rw [List.nodup_append]
      refine ⟨hi.nodup, by simp, ?_⟩
      intro a ha b hb
      simp only [List.mem_singleton] at hb
      subst hb
      obtain ⟨f, hf, e1⟩ := List.mem_map.1 ha
      have := hi.hinv f hf
      omega
    · intro ty' h
      rw [hlive]
      simp only [WM.insert, indexGet_add]
      by_cases h1 : ty' = ty
      · simp only [h1, if_true, List.mem_append, List.mem_singleton, and_true]
        rw [hi.idx]
      · simp only [h1, if_false, and_false, or_false]
        exact hi.idx ty' h
  · -- update
    intro w h d w' hi hu
    unfold WM.update at hu
    cases hfind : w.find h with
    | none => simp [hfind] at hu
    | some g =>
      simp only [hfind] at hu
      split at hu
      · simp at hu
      · simp only [Option.some.injEq] at hu
        subst hu
        exact key_congr (w := w) (mapFact_key h (fun x => { x with data := d }) (fun _ => rfl) w.facts) rfl rfl hi
  · -- retract
    intro w h w' hi hu
    unfold WM.retract at hu
    cases hfind : w.find h with
    | none => simp [hfind] at hu
    | some g =>
      simp only [hfind] at hu
      split at hu
      · simp at hu
      · rename_i hnr
        simp only [Option.some.injEq] at hu
        subst hu
        obtain ⟨hg1, hg2⟩ := find_mem hfind
        constructor
        · exact hinv_pres.ret w h _ hi.hinv (by unfold WM.retract; simp [hfind, hnr])
        · show ((mapFact h (fun x => { x with retracted := true }) w.facts).map (·.handle)).Nodup
          rw [mapFact_handles h (fun x => { x with retracted := true }) (fun _ => rfl)]; exact hi.nodup
        · intro ty' h'
          simp only [Live, indexGet_remove]
          rw [mapFact_retract_live hi.nodup]
          by_cases h1 : ty' = g.ty
          · simp only [h1, if_true, List.mem_filter, bne_iff_ne, ne_eq]
            rw [hi.idx]; rfl
          · simp only [h1, if_false]
            rw [hi.idx]
            constructor
            · intro hl
              refine ⟨hl, ?_⟩
              intro he
              obtain ⟨f, hf, e1, e2, _⟩ := hl
              have h3 := wm_find_of_mem hi hf
              rw [e1, he, hfind] at h3
              simp only [Option.some.injEq] at h3
              subst h3
              exact h1 e2.symm
            · exact fun hl => hl.1
  · -- writeBack
    intro w ty sets hi
    unfold writeBack
    simp only
    split
    · exact hi
    · refine key_congr (w := w) ?_ rfl rfl hi
      simp only [List.map_map]
      apply List.map_congr_left
      intro x _
      simp only [Function.comp]
      split <;> rfl

/-! ### the four views -/

theorem get_isSome_iff {w : WM} (hi : WMInv w) (h : Nat) :
    (w.get h).isSome = true ↔ ∃ f ∈ w.facts, f.handle = h ∧ f.retracted = false := by
  unfold WM.get
  constructor
  · intro hs
    cases hf : w.find h with
    | none => simp [hf] at hs
    | some f =>
      simp only [hf] at hs
      obtain ⟨h1, h2⟩ := find_mem hf
      cases hr : f.retracted with
      | true => simp [hr] at hs
      | false => exact ⟨f, h1, h2, hr⟩
  · rintro ⟨f, hf, e1, e2⟩
    have := wm_find_of_mem hi hf
    rw [e1] at this
    simp [this, e2]

theorem getAllHandles_iff (w : WM) (h : Nat) :
    h ∈ w.getAllHandles ↔ ∃ f ∈ w.facts, f.handle = h ∧ f.retracted = false := by
  simp only [WM.getAllHandles, List.mem_map, List.mem_filter, Bool.not_eq_true']
  constructor
  · rintro ⟨f, ⟨h1, h2⟩, h3⟩; exact ⟨f, h1, h3, h2⟩
  · rintro ⟨f, h1, h3, h2⟩; exact ⟨f, ⟨h1, h2⟩, h3⟩

theorem getAllFacts_iff (w : WM) (f : Fact) : f ∈ w.getAllFacts ↔ f ∈ w.facts ∧ f.retracted = false := by
  simp [WM.getAllFacts]

theorem getByType_iff {w : WM} (hi : WMInv w) (ty : Nat) (f : Fact) :
    f ∈ w.getByType ty ↔ f ∈ w.facts ∧ f.ty = ty ∧ f.retracted = false := by
  simp only [WM.getByType, List.mem_filter, List.mem_filterMap, Bool.not_eq_true']
  constructor
  · rintro ⟨⟨h, hidx, hf⟩, hr⟩
    obtain ⟨h1, h2⟩ := find_mem hf
    obtain ⟨g, hg, e1, e2, e3⟩ := (hi.idx ty h).1 hidx
    have := wm_find_of_mem hi hg
    rw [e1, hf] at this
    simp only [Option.some.injEq] at this
    subst this
    exact ⟨h1, e2, hr⟩
  · rintro ⟨h1, h2, h3⟩
    exact ⟨⟨f.handle, (hi.idx ty f.handle).2 ⟨f, h1, rfl, h2, h3⟩, wm_find_of_mem hi h1⟩, h3⟩

theorem wminv_init : WMInv {} := by
  constructor
  · intro f hf; simp at hf
  · simp
  · intro ty h; simp [indexGet, Live]

end C06
