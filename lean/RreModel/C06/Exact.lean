import RreModel.C06.Lemmas
import RreModel.C07.Lemmas
/-
C06 — lemmas for the exactness clause (`quiescent_fire_all_exact`): the agenda restricted to the activations this engine
creates, what propagation adds, the pop of `get_next_activation` as a permutation step, the loop invariant
"pending activations are complete", the iteration measure, and the history lemmas.
-/
namespace C06
open C07 (Act Agenda)

/-! ### the activations this engine creates: default group, no activation/ruleflow group, no-loop -/

def Plain (a : Act) : Prop :=
  a.ag = 0 ∧ a.actg = none ∧ a.rfg = none ∧ a.noLoop = true ∧ a.lock = false ∧ a.autoFocus = false

theorem eligible_plain {g : Agenda} {a : Act} (h : Plain a) : C07.eligible g a = !g.fired.contains a.rule := by
  obtain ⟨_, h2, _, h4, h5, _⟩ := h
  simp [C07.eligible, h2, h4, h5, C07.optIn]

theorem add_plain (g : Agenda) {a : Act} (h : Plain a) :
    g.add a = { g with acts := g.acts ++ [{ a with id := g.nextId }], nextId := g.nextId + 1 } := by
  obtain ⟨_, h2, h3, _, _, h6⟩ := h
  simp [Agenda.add, Agenda.addCore, h2, h3, h6, C07.optIn, C07.optNotIn]

theorem mkAct_plain (r : Rule) (hr : r.noLoop = true) (h c id : Nat) : Plain { mkAct r h c with id := id } := by
  simp [Plain, mkAct, hr]

/-- `g'` is `g` with activations appended, all satisfying `P`; focus, stack and the fired set are untouched -/
def Ext (P : Act → Prop) (g g' : Agenda) : Prop :=
  g'.focus = g.focus ∧ g'.stack = g.stack ∧ g'.fired = g.fired ∧ ∃ new, g'.acts = g.acts ++ new ∧ ∀ a ∈ new, P a

theorem Ext.refl (P : Act → Prop) (g : Agenda) : Ext P g g := ⟨rfl, rfl, rfl, [], by simp, by simp⟩

theorem Ext.trans {P : Act → Prop} {g1 g2 g3 : Agenda} (h1 : Ext P g1 g2) (h2 : Ext P g2 g3) : Ext P g1 g3 := by
  obtain ⟨a1, a2, a3, n1, a4, a5⟩ := h1
  obtain ⟨b1, b2, b3, n2, b4, b5⟩ := h2
  refine ⟨b1.trans a1, b2.trans a2, b3.trans a3, n1 ++ n2, by rw [b4, a4, List.append_assoc], ?_⟩
  intro a ha
  rcases List.mem_append.1 ha with h | h
  · exact a5 a h
  · exact b5 a h

theorem Ext.mono {P : Act → Prop} {g g' : Agenda} (h : Ext P g g') : ∀ a ∈ g.acts, a ∈ g'.acts := by
  obtain ⟨_, _, _, n, h4, _⟩ := h
  intro a ha; rw [h4]; exact List.mem_append.2 (Or.inl ha)

theorem Ext.mem {P : Act → Prop} {g g' : Agenda} (h : Ext P g g') : ∀ a ∈ g'.acts, a ∈ g.acts ∨ P a := by
  obtain ⟨_, _, _, n, h4, h5⟩ := h
  intro a ha; rw [h4] at ha
  rcases List.mem_append.1 ha with h | h
  · exact Or.inl h
  · exact Or.inr (h5 a h)

theorem addMatches_ext (P : Act → Prop) (r : Rule) (hr : r.noLoop = true) (fs : List Fact)
    (hP : ∀ f ∈ fs, r.node.eval f.ty f.data = true → ∀ c id, P { mkAct r f.handle c with id := id }) :
    ∀ p : Agenda × Nat, Ext P p.1 (addMatches r fs p).1 := by
  induction fs with
  | nil => intro p; exact Ext.refl P _
  | cons f fs ih =>
    intro p
    simp only [addMatches]
    have ih' := ih (fun f' hf' => hP f' (List.mem_cons_of_mem _ hf'))
    split
    · rename_i hev
      refine Ext.trans ?_ (ih' _)
      have hpl : Plain (mkAct r f.handle p.2) := by simp [Plain, mkAct, hr]
      rw [add_plain _ hpl]
      exact ⟨rfl, rfl, rfl, [{ mkAct r f.handle p.2 with id := p.1.nextId }], rfl,
        by intro a ha; simp only [List.mem_singleton] at ha; subst ha; exact hP f (by simp) hev _ _⟩
    · exact ih' _

theorem addMatches_complete (r : Rule) (hr : r.noLoop = true) (fs : List Fact) :
    ∀ (p : Agenda × Nat), ∀ f ∈ fs, r.node.eval f.ty f.data = true →
      ∃ a ∈ (addMatches r fs p).1.acts, a.rule = r.name ∧ a.handle = some f.handle := by
  induction fs with
  | nil => intro p f hf; simp at hf
  | cons f0 fs ih =>
    intro p f hf hev
    simp only [addMatches]
    rcases List.mem_cons.1 hf with h | h
    · subst h
      rw [if_pos hev]
      have hpl : Plain (mkAct r f.handle p.2) := by simp [Plain, mkAct, hr]
      have hx := (addMatches_ext (fun _ => True) r hr fs (fun _ _ _ _ _ => trivial)
        (p.1.add (mkAct r f.handle p.2), p.2 + 1)).mono
      refine ⟨{ mkAct r f.handle p.2 with id := p.1.nextId }, hx _ ?_, rfl, rfl⟩
      rw [add_plain _ hpl]; simp
    · split
      · exact ih _ f h hev
      · exact ih _ f h hev

theorem foldl_ext {α : Type} (P : Act → Prop) (step : Agenda × Nat → α → Agenda × Nat) (l : List α)
    (hstep : ∀ p, ∀ x ∈ l, Ext P p.1 (step p x).1) : ∀ p, Ext P p.1 (l.foldl step p).1 := by
  induction l with
  | nil => intro p; exact Ext.refl P _
  | cons x xs ih =>
    intro p
    simp only [List.foldl_cons]
    exact Ext.trans (hstep p x (by simp)) (ih (fun p y hy => hstep p y (List.mem_cons_of_mem _ hy)) _)

theorem foldl_complete {α : Type} (P : Act → Prop) (step : Agenda × Nat → α → Agenda × Nat) (l : List α)
    (hstep : ∀ p, ∀ x ∈ l, Ext P p.1 (step p x).1) (Q : Act → Prop) (x : α) (hx : x ∈ l)
    (hq : ∀ p, ∃ a ∈ (step p x).1.acts, Q a) : ∀ p, ∃ a ∈ (l.foldl step p).1.acts, Q a := by
  induction l with
  | nil => simp at hx
  | cons y ys ih =>
    intro p
    simp only [List.foldl_cons]
    rcases List.mem_cons.1 hx with h | h
    · subst h
      obtain ⟨a, ha, hqa⟩ := hq p
      exact ⟨a, (foldl_ext P step ys (fun p y hy => hstep p y (List.mem_cons_of_mem _ hy)) _).mono a ha, hqa⟩
    · exact ih (fun p y hy => hstep p y (List.mem_cons_of_mem _ hy)) h _

/-! ### `get_next_activation` on such an agenda: one permutation step of the pending list -/

theorem extractBest_perm {l : List Act} {m : Act} {r : List Act} (h : C07.extractBest l = some (m, r)) :
    l.Perm (m :: r) := by
  induction l generalizing m r with
  | nil => simp [C07.extractBest] at h
  | cons a t ih =>
    simp only [C07.extractBest] at h
    cases ht : C07.extractBest t with
    | none =>
      have := C07.extractBest_none ht
      subst this
      simp [ht] at h
      obtain ⟨rfl, rfl⟩ := h
      exact List.Perm.refl _
    | some p =>
      obtain ⟨m', r'⟩ := p
      have hp := ih ht
      simp only [ht] at h
      by_cases hc : C07.rank a m' = true
      · rw [if_pos hc] at h
        simp at h
        obtain ⟨rfl, rfl⟩ := h
        exact List.Perm.cons _ hp
      · rw [if_neg hc] at h
        simp at h
        obtain ⟨rfl, rfl⟩ := h
        exact (List.Perm.cons _ hp).trans (List.Perm.swap _ _ _)

theorem popEligibleF_keep (g : Agenda) (n : Nat) : ∀ (heap : List Act), heap.length ≤ n →
    ∀ a rest, C07.popEligibleF g n heap = (some a, rest) →
      (∀ x ∈ heap, x = a ∨ x ∈ rest ∨ C07.eligible g x = false) ∧
      (∀ p : Act → Bool, rest.countP p + (if p a then 1 else 0) ≤ heap.countP p) := by
  induction n with
  | zero => intro heap _ a rest h; simp [C07.popEligibleF] at h
  | succ n ih =>
    intro heap hl a rest h
    simp only [C07.popEligibleF] at h
    cases hb : C07.extractBest heap with
    | none => simp [hb] at h
    | some q =>
      obtain ⟨m, rest0⟩ := q
      have hperm := extractBest_perm hb
      have hlen := C07.extractBest_length hb
      simp only [hb] at h
      by_cases he : C07.eligible g m = true
      · rw [if_pos he] at h
        simp only [Prod.mk.injEq, Option.some.injEq] at h
        obtain ⟨rfl, rfl⟩ := h
        constructor
        · intro x hx
          rcases List.mem_cons.1 (hperm.mem_iff.1 hx) with h1 | h1
          · exact Or.inl h1
          · exact Or.inr (Or.inl h1)
        · intro p
          rw [hperm.countP_eq p, List.countP_cons]
          exact Nat.le_refl _
      · rw [if_neg he] at h
        obtain ⟨k1, k2⟩ := ih rest0 (by omega) a rest h
        constructor
        · intro x hx
          rcases List.mem_cons.1 (hperm.mem_iff.1 hx) with h1 | h1
          · subst h1; exact Or.inr (Or.inr (by simpa using he))
          · exact k1 x h1
        · intro p
          rw [hperm.countP_eq p, List.countP_cons]
          have := k2 p
          omega

def popRest : Option Act × List Act → List Act
  | (some _, rest) => rest
  | (none, _) => []

theorem getNext_default (g : Agenda) (hf : g.focus = 0) (hs : g.stack = []) (hag : ∀ a ∈ g.acts, a.ag = 0) :
    g.getNext = ((C07.popEligible g g.acts).1, { g with acts := popRest (C07.popEligible g g.acts) }) := by
  have h1 : g.acts.filter (C07.inGroup 0) = g.acts := by
    rw [List.filter_eq_self]; intro a ha; simp [C07.inGroup, hag a ha]
  have h2 : g.acts.filter (fun x => !C07.inGroup 0 x) = [] := by
    rw [List.filter_eq_nil_iff]; intro a ha; simp [C07.inGroup, hag a ha]
  unfold Agenda.getNext
  simp only [hf, hs, C07.getNextAux, h1, h2]
  rcases hp : C07.popEligible g g.acts with ⟨_ | a, rest⟩
  · simp [popRest]
  · simp [popRest]

theorem getNext_some (g : Agenda) (hf : g.focus = 0) (hs : g.stack = []) (hag : ∀ a ∈ g.acts, a.ag = 0)
    (a : Act) (h : g.getNext.1 = some a) :
    a ∈ g.acts ∧ C07.eligible g a = true ∧ g.getNext.2.focus = 0 ∧ g.getNext.2.stack = [] ∧
    g.getNext.2.fired = g.fired ∧ (∀ x ∈ g.getNext.2.acts, x ∈ g.acts) ∧
    (∀ x ∈ g.acts, x = a ∨ x ∈ g.getNext.2.acts ∨ C07.eligible g x = false) ∧
    (∀ p : Act → Bool, g.getNext.2.acts.countP p + (if p a then 1 else 0) ≤ g.acts.countP p) := by
  rw [getNext_default g hf hs hag] at h ⊢
  simp only at h ⊢
  rcases hp : C07.popEligible g g.acts with ⟨_ | a', rest⟩
  · simp [hp] at h
  · simp only [hp, Option.some.injEq] at h
    subst h
    obtain ⟨k1, k2, _, k4, _⟩ := (C07.popEligible_spec g g.acts).1 a' rest hp
    obtain ⟨k5, k6⟩ := popEligibleF_keep g g.acts.length g.acts (Nat.le_refl _) a' rest hp
    exact ⟨k1, k2, hf, hs, trivial, fun x hx => (k4 x hx).1, k5, k6⟩

theorem getNext_none (g : Agenda) (hf : g.focus = 0) (hs : g.stack = []) (hag : ∀ a ∈ g.acts, a.ag = 0)
    (h : g.getNext.1 = none) :
    (∀ x ∈ g.acts, C07.eligible g x = false) ∧ g.getNext.2.focus = 0 ∧ g.getNext.2.stack = [] ∧
    g.getNext.2.fired = g.fired ∧ g.getNext.2.acts = [] := by
  rw [getNext_default g hf hs hag] at h ⊢
  simp only at h ⊢
  rcases hp : C07.popEligible g g.acts with ⟨_ | a', rest⟩
  · obtain ⟨_, k2⟩ := (C07.popEligible_spec g g.acts).2 rest hp
    exact ⟨k2, hf, hs, trivial, rfl⟩
  · simp [hp] at h

/-! ### the engine with quiet rules: the loop body -/

/-- `TypedFacts` is a map: one binding per field -/
def DataOK (w : WM) : Prop := ∀ f ∈ w.facts, (f.data.map (·.1)).Nodup

def Quiet (rules : List Rule) : Prop :=
  ∀ r ∈ rules, r.action.sets = [] ∧ r.action.retract = false ∧ r.noLoop = true ∧ r.action.xsets = []

theorem quiet_of {rules : List Rule} (h : quietRules rules = true) : Quiet rules := by
  intro r hr
  simp only [quietRules, List.all_eq_true, Bool.and_eq_true, List.isEmpty_iff, Bool.not_eq_true'] at h
  exact ⟨(h r hr).1.1.1, (h r hr).1.1.2, (h r hr).1.2, (h r hr).2⟩

structure AgInv (rules : List Rule) (g : Agenda) : Prop where
  focus : g.focus = 0
  stack : g.stack = []
  plain : ∀ a ∈ g.acts, Plain a
  named : ∀ a ∈ g.acts, ∃ r ∈ rules, a.rule = r.name

theorem AgInv.ext {rules : List Rule} {g g' : Agenda} {P : Act → Prop} (h : AgInv rules g) (he : Ext P g g')
    (hP : ∀ a, P a → Plain a ∧ ∃ r ∈ rules, a.rule = r.name) : AgInv rules g' := by
  refine ⟨he.1.trans h.focus, he.2.1.trans h.stack, ?_, ?_⟩
  · intro a ha
    rcases he.mem a ha with h1 | h1
    · exact h.plain a h1
    · exact (hP a h1).1
  · intro a ha
    rcases he.mem a ha with h1 | h1
    · exact h.named a h1
    · exact (hP a h1).2

theorem AgInv.ag0 {rules : List Rule} {g : Agenda} (h : AgInv rules g) : ∀ a ∈ g.acts, a.ag = 0 :=
  fun a ha => (h.plain a ha).1

theorem data_get_of_mem : ∀ (d : Data), (d.map (·.1)).Nodup → ∀ kv ∈ d, Data.get d kv.1 = some kv.2 := by
  intro d
  induction d with
  | nil => intro _ kv hkv; simp at hkv
  | cons x t ih =>
    intro hn kv hkv
    obtain ⟨k, v⟩ := x
    simp only [List.map_cons, List.nodup_cons] at hn
    simp only [Data.get]
    rcases List.mem_cons.1 hkv with h | h
    · subst h; simp
    · have : k ≠ kv.1 := by
        intro he; apply hn.1; rw [he]; exact List.mem_map.2 ⟨kv, h, rfl⟩
      have hb : (k == kv.1) = false := by simpa using this
      rw [hb]; exact ih hn.2 kv h

theorem flatOf_ok (w : WM) (hd : DataOK w) (ty : Nat) : ((flatOf w ty).map (·.1)).Nodup := by
  unfold flatOf
  cases hl : (w.getAllFacts.filter (·.ty == ty)).getLast? with
  | none => simp
  | some f =>
    simp only
    have h1 := List.mem_of_getLast? hl
    exact hd f ((getAllFacts_iff w f).1 (List.mem_filter.1 h1).1).1

theorem writeBack_nil (w : WM) (hd : DataOK w) (ty : Nat) : writeBack w ty [] = w := by
  unfold writeBack
  simp only [List.foldl_nil]
  have : ((flatOf w ty).filter (fun kv => Data.get (flatOf w ty) kv.1 != some kv.2)) = [] := by
    rw [List.filter_eq_nil_iff]
    intro kv hkv
    simp [data_get_of_mem _ (flatOf_ok w hd ty) kv hkv]
  simp [this]

/-- the re-validation of `fire_all` fails for this activation (rule unknown, matched fact gone, or node false now) -/
def stale (w : WM) (rules : List Rule) (a : Act) : Bool :=
  match rules.find? (·.name == a.rule) with
  | none => true
  | some r =>
    match a.handle with
    | none => true
    | some h =>
      match w.get h with
      | none => true
      | some f => !r.node.eval f.ty f.data

theorem fireOne_stale (e : Engine) (a : Act) (h : stale e.wm e.rules a = true) : e.fireOne a = (e, none) := by
  unfold stale at h
  unfold Engine.fireOne
  cases hr : e.rules.find? (·.name == a.rule) with
  | none => rfl
  | some r =>
    simp only [hr] at h ⊢
    cases hh : a.handle with
    | none => rfl
    | some hd =>
      simp only [hh] at h ⊢
      cases hg : e.wm.get hd with
      | none => rfl
      | some f =>
        simp only [hg] at h ⊢
        rw [if_pos h]

theorem fireOne_fresh (e : Engine) (a : Act) (hq : Quiet e.rules) (hd : DataOK e.wm)
    (h : stale e.wm e.rules a = false) :
    ∃ r hdl f, e.rules.find? (·.name == a.rule) = some r ∧ a.handle = some hdl ∧ e.wm.get hdl = some f ∧
      r.node.eval f.ty f.data = true ∧
      e.fireOne a = ({ e.propagateAll with ag := e.propagateAll.ag.mark a }, some { rule := r.name, handle := hdl, data := f.data }) := by
  unfold stale at h
  unfold Engine.fireOne
  cases hr : e.rules.find? (·.name == a.rule) with
  | none => simp [hr] at h
  | some r =>
    simp only [hr] at h ⊢
    cases hh : a.handle with
    | none => simp [hh] at h
    | some hdl =>
      simp only [hh] at h ⊢
      cases hg : e.wm.get hdl with
      | none => simp [hg] at h
      | some f =>
        simp only [hg] at h ⊢
        have hev : r.node.eval f.ty f.data = true := by simpa using h
        obtain ⟨q1, q2, _, q4⟩ := hq r (List.mem_of_find?_eq_some hr)
        refine ⟨r, hdl, f, rfl, rfl, hg, hev, ?_⟩
        have q5 : e.setsOf r = [] := by simp [Engine.setsOf, Action.resolve, q1, q4, resolveX]
        simp only [hev, Bool.not_true, Bool.false_eq_true, if_false, q5, q2, writeBack_nil e.wm hd]

theorem find_rule_of_mem : ∀ (l : List Rule) (r : Rule), (l.map (·.name)).Nodup → r ∈ l →
    l.find? (·.name == r.name) = some r := by
  intro l
  induction l with
  | nil => intro r _ hr; simp at hr
  | cons x t ih =>
    intro r hn hr
    simp only [List.map_cons, List.nodup_cons] at hn
    simp only [List.find?_cons]
    rcases List.mem_cons.1 hr with h1 | h1
    · subst h1; simp
    · have : x.name ≠ r.name := by
        intro he; apply hn.1; rw [he]; exact List.mem_map.2 ⟨r, h1, rfl⟩
      have hb : (x.name == r.name) = false := by simpa using this
      rw [hb]; exact ih r hn.2 h1

theorem get_of_live {w : WM} (hi : WMInv w) {f : Fact} (hf : f ∈ w.getAllFacts) : w.get f.handle = some f := by
  obtain ⟨h1, h2⟩ := (getAllFacts_iff w f).1 hf
  unfold WM.get
  rw [wm_find_of_mem hi h1]
  simp [h2]

theorem live_of_get {w : WM} {h : Nat} {f : Fact} (hg : w.get h = some f) : f ∈ w.getAllFacts ∧ f.handle = h := by
  unfold WM.get at hg
  cases hf : w.find h with
  | none => simp [hf] at hg
  | some g =>
    simp only [hf] at hg
    obtain ⟨h1, h2⟩ := find_mem hf
    cases hr : g.retracted with
    | true => simp [hr] at hg
    | false =>
      simp [hr] at hg
      subst hg
      exact ⟨(getAllFacts_iff w g).2 ⟨h1, hr⟩, h2⟩

/-- an activation of a rule of the set on a live fact that satisfies it now -/
def GoodAct (w : WM) (rules : List Rule) (a : Act) : Prop :=
  Plain a ∧ ∃ r ∈ rules, ∃ f ∈ w.getAllFacts, a.rule = r.name ∧ a.handle = some f.handle ∧ f.ty = r.ty ∧
    r.node.eval f.ty f.data = true

/-- the matched fact of the activation (whatever has happened to it since) has the type the rule depends on -/
def TypedAct (w : WM) (rules : List Rule) (a : Act) : Prop :=
  ∃ r ∈ rules, a.rule = r.name ∧ ∃ h, a.handle = some h ∧ h < w.nextId ∧ ∀ f ∈ w.facts, f.handle = h → f.ty = r.ty

theorem good_not_stale {w : WM} {rules : List Rule} (hi : WMInv w) (hn : (rules.map (·.name)).Nodup) {a : Act}
    (r : Rule) (hr : r ∈ rules) (f : Fact) (hf : f ∈ w.getAllFacts) (h1 : a.rule = r.name) (h2 : a.handle = some f.handle)
    (h3 : r.node.eval f.ty f.data = true) : stale w rules a = false := by
  unfold stale
  rw [h1, find_rule_of_mem rules r hn hr]
  simp only [h2, get_of_live hi hf, h3, Bool.not_true]

theorem good_named {w : WM} {rules : List Rule} {a : Act} (h : GoodAct w rules a) :
    Plain a ∧ ∃ r ∈ rules, a.rule = r.name := by
  obtain ⟨h1, r, hr, _, _, h2, _⟩ := h
  exact ⟨h1, r, hr, h2⟩

theorem good_typed {w : WM} {rules : List Rule} {a : Act} (hi : WMInv w) (h : GoodAct w rules a) : TypedAct w rules a := by
  obtain ⟨_, r, hr, f, hf, h2, h3, h4, _⟩ := h
  have hfm := ((getAllFacts_iff w f).1 hf).1
  refine ⟨r, hr, h2, f.handle, h3, hi.hinv f hfm, ?_⟩
  intro f' hf' he
  have k1 := wm_find_of_mem hi hf'
  have k2 := wm_find_of_mem hi hfm
  rw [he, k2] at k1
  simp only [Option.some.injEq] at k1
  rw [← k1]; exact h4

/-- facts keep their handle and type; new facts get handles from `next_id` on -/
theorem typed_mono {w w' : WM} {rules : List Rule} {a : Act} (h : TypedAct w rules a) (hn : w.nextId ≤ w'.nextId)
    (hf : ∀ f' ∈ w'.facts, (∃ f ∈ w.facts, f.handle = f'.handle ∧ f.ty = f'.ty) ∨ w.nextId ≤ f'.handle) :
    TypedAct w' rules a := by
  obtain ⟨r, hr, h1, hd, h2, h3, h4⟩ := h
  refine ⟨r, hr, h1, hd, h2, by omega, ?_⟩
  intro f' hf' he
  rcases hf f' hf' with ⟨f, hfm, e1, e2⟩ | h5
  · rw [← e2]; exact h4 f hfm (e1.trans he)
  · omega

theorem addMatches_good (w : WM) (hi : WMInv w) (rules : List Rule) (hq : Quiet rules) (r : Rule) (hr : r ∈ rules) (ty : Nat)
    (hty : r.ty = ty) (p : Agenda × Nat) : Ext (GoodAct w rules) p.1 (addMatches r (w.getByType ty) p).1 := by
  apply addMatches_ext _ r (hq r hr).2.2.1
  intro f hf hev c id
  obtain ⟨h1, h2, h3⟩ := (getByType_iff hi ty f).1 hf
  exact ⟨mkAct_plain r (hq r hr).2.2.1 _ _ _, r, hr, f, (getAllFacts_iff w f).2 ⟨h1, h3⟩, rfl, rfl, h2.trans hty.symm, hev⟩

theorem propagateAll_ext (e : Engine) (hi : WMInv e.wm) (hq : Quiet e.rules) :
    Ext (GoodAct e.wm e.rules) e.ag e.propagateAll.ag := by
  unfold Engine.propagateAll
  simp only
  apply foldl_ext (GoodAct e.wm e.rules) _ _ _ (e.ag, e.clock)
  intro p ty _
  apply foldl_ext (GoodAct e.wm e.rules) _ _ _ p
  intro p' rule hrule
  have hm := List.mem_filter.1 hrule
  have hty := hm.2
  simp only [Bool.and_eq_true, beq_iff_eq] at hty
  exact addMatches_good e.wm hi e.rules hq rule hm.1 ty hty.1 p'

theorem mem_dedup : ∀ (l : List Nat) (x : Nat), x ∈ l → x ∈ dedup l := by
  intro l
  induction l with
  | nil => intro x hx; simp at hx
  | cons y t ih =>
    intro x hx
    simp only [dedup]
    rcases List.mem_cons.1 hx with h | h
    · subst h
      split
      · rename_i hc; simpa using hc
      · simp
    · split
      · exact ih x h
      · exact List.mem_cons_of_mem _ (ih x h)

/-- `foldl_complete` for a step that looks at the fired set (which no step changes) -/
theorem foldl_complete_fired {α : Type} (P : Act → Prop) (step : Agenda × Nat → α → Agenda × Nat) (l : List α)
    (hstep : ∀ p, ∀ x ∈ l, Ext P p.1 (step p x).1) (F : List Nat) (Q : Act → Prop) (x : α) (hx : x ∈ l)
    (hq : ∀ p, p.1.fired = F → ∃ a ∈ (step p x).1.acts, Q a) :
    ∀ p, p.1.fired = F → ∃ a ∈ (l.foldl step p).1.acts, Q a := by
  induction l with
  | nil => simp at hx
  | cons y ys ih =>
    intro p hp
    simp only [List.foldl_cons]
    rcases List.mem_cons.1 hx with h | h
    · subst h
      obtain ⟨a, ha, hqa⟩ := hq p hp
      exact ⟨a, (foldl_ext P step ys (fun p y hy => hstep p y (List.mem_cons_of_mem _ hy)) _).mono a ha, hqa⟩
    · exact ih (fun p y hy => hstep p y (List.mem_cons_of_mem _ hy)) h _ ((hstep p y (by simp)).2.2.1.trans hp)

/-- the global re-propagation after a firing is complete: every rule that has not fired, on every live fact of its type that
satisfies it, gets a pending activation -/
theorem propagateAll_complete (e : Engine) (hi : WMInv e.wm) (hq : Quiet e.rules) :
    ∀ r ∈ e.rules, r.name ∉ e.ag.fired → ∀ f ∈ e.wm.getAllFacts, f.ty = r.ty → r.node.eval f.ty f.data = true →
      ∃ a ∈ e.propagateAll.ag.acts, a.rule = r.name ∧ a.handle = some f.handle := by
  intro r hr hnf f hf hty hev
  unfold Engine.propagateAll
  simp only
  have hstep : ∀ (p : Agenda × Nat), ∀ ty ∈ dedup (e.wm.getAllFacts.map (·.ty)),
      Ext (GoodAct e.wm e.rules) p.1
        ((e.rules.filter (fun rule => rule.ty == ty && !(rule.noLoop && p.1.fired.contains rule.name))).foldl
          (fun p rule => addMatches rule (e.wm.getByType ty) p) p).1 := by
    intro p ty _
    apply foldl_ext (GoodAct e.wm e.rules) _ _ _ p
    intro p' rule hrule
    have hm := List.mem_filter.1 hrule
    have hty := hm.2
    simp only [Bool.and_eq_true, beq_iff_eq] at hty
    exact addMatches_good e.wm hi e.rules hq rule hm.1 ty hty.1 p'
  apply foldl_complete_fired (GoodAct e.wm e.rules) _ _ hstep e.ag.fired
    (fun a => a.rule = r.name ∧ a.handle = some f.handle) f.ty
    (mem_dedup _ _ (List.mem_map.2 ⟨f, hf, rfl⟩)) _ (e.ag, e.clock) rfl
  intro p hp
  have hmem : r ∈ e.rules.filter (fun rule => rule.ty == f.ty && !(rule.noLoop && p.1.fired.contains rule.name)) := by
    apply List.mem_filter.2
    refine ⟨hr, ?_⟩
    have hc : r.name ∉ p.1.fired := by rw [hp]; exact hnf
    simp [hty, hc]
  apply foldl_complete (fun _ => True) _ _ _ (fun a => a.rule = r.name ∧ a.handle = some f.handle) r hmem _ p
  · intro p' rule hrule
    exact addMatches_ext _ rule (hq rule (List.mem_filter.1 hrule).1).2.2.1 _ (fun _ _ _ _ _ => trivial) p'
  · intro p'
    obtain ⟨k1, k2⟩ := (getAllFacts_iff e.wm f).1 hf
    exact addMatches_complete r (hq r hr).2.2.1 _ p' f ((getByType_iff hi f.ty f).2 ⟨k1, rfl, k2⟩) hev

theorem propagateType_ext (e : Engine) (hi : WMInv e.wm) (hq : Quiet e.rules) (ty : Nat) :
    Ext (GoodAct e.wm e.rules) e.ag (e.propagateType ty).ag := by
  unfold Engine.propagateType
  simp only
  apply foldl_ext (GoodAct e.wm e.rules) _ _ _ (e.ag, e.clock)
  intro p' rule hrule
  have hm := List.mem_filter.1 hrule
  exact addMatches_good e.wm hi e.rules hq rule hm.1 ty (by simpa using hm.2) p'

/-! ### the iteration measure: stale pending activations + rules that have not fired -/

def unfired (rules : List Rule) (fired : List Nat) : Nat := (rules.filter (fun r => !fired.contains r.name)).length

theorem filter_length_mono {α : Type} (p q : α → Bool) (l : List α) (hpq : ∀ x ∈ l, q x = true → p x = true) :
    (l.filter q).length ≤ (l.filter p).length := by
  induction l with
  | nil => simp
  | cons y ys ih =>
    have ih' := ih (fun x hx => hpq x (List.mem_cons_of_mem _ hx))
    have hy := hpq y (by simp)
    simp only [List.filter_cons]
    cases hqy : q y <;> cases hpy : p y <;> simp <;> first | omega | (simp [hqy, hpy] at hy)

theorem filter_length_lt {α : Type} (p q : α → Bool) (l : List α) (hpq : ∀ x ∈ l, q x = true → p x = true)
    (x : α) (hx : x ∈ l) (hp : p x = true) (hqx : q x = false) : (l.filter q).length + 1 ≤ (l.filter p).length := by
  induction l with
  | nil => simp at hx
  | cons y ys ih =>
    have hpq' : ∀ x ∈ ys, q x = true → p x = true := fun x hx => hpq x (List.mem_cons_of_mem _ hx)
    simp only [List.filter_cons]
    rcases List.mem_cons.1 hx with h | h
    · subst h
      have := filter_length_mono p q ys hpq'
      simp [hp, hqx]; omega
    · have := ih hpq' h
      have hy := hpq y (by simp)
      cases hqy : q y <;> cases hpy : p y <;> simp <;> first | omega | (simp [hqy, hpy] at hy)

theorem unfired_mark (rules : List Rule) (fired : List Nat) (r : Rule) (hr : r ∈ rules) (hf : r.name ∉ fired) :
    unfired rules (C07.setInsert r.name fired) + 1 ≤ unfired rules fired := by
  unfold unfired
  apply filter_length_lt _ _ rules _ r hr
  · simpa using hf
  · simp [C07.mem_setInsert]
  · intro x _ hx
    simp only [Bool.not_eq_true', List.contains_eq_mem, decide_eq_false_iff_not, C07.mem_setInsert, not_or] at hx ⊢
    exact hx.2

theorem unfired_pos (rules : List Rule) (fired : List Nat) (r : Rule) (hr : r ∈ rules) (hf : r.name ∉ fired) :
    1 ≤ unfired rules fired := by
  unfold unfired
  apply List.length_pos_of_mem (a := r)
  exact List.mem_filter.2 ⟨hr, by simpa using hf⟩

/-! ### the loop -/

structure LoopPost (rules : List Rule) (w : WM) (e e' : Engine) (new : List Firing) : Prop where
  wm : e'.wm = w
  rules_eq : e'.rules = rules
  ag : AgInv rules e'.ag
  drained : e'.ag.acts = []
  nodup : (new.map (·.rule)).Nodup
  fired_iff : ∀ n, n ∈ e'.ag.fired ↔ n ∈ e.ag.fired ∨ n ∈ new.map (·.rule)
  fresh : ∀ x ∈ new, x.rule ∉ e.ag.fired
  validf : ∀ x ∈ new, ∃ r ∈ rules, ∃ f ∈ w.getAllFacts, x.rule = r.name ∧ x.handle = f.handle ∧ x.data = f.data ∧
    f.ty = r.ty ∧ r.node.eval f.ty f.data = true
  cover : ∀ r ∈ rules, ∀ f ∈ w.getAllFacts, r.node.eval f.ty f.data = true →
    (∃ a ∈ e.ag.acts, a.rule = r.name ∧ a.handle = some f.handle) → r.name ∈ e'.ag.fired
  first : new ≠ [] → ∃ y ∈ new, ∃ a ∈ e.ag.acts, a.rule = y.rule ∧ a.handle = some y.handle
  after : new ≠ [] → ∀ r ∈ rules, ∀ f ∈ w.getAllFacts, f.ty = r.ty → r.node.eval f.ty f.data = true → r.name ∈ e'.ag.fired

theorem not_fired_of_eligible {g : Agenda} {a : Act} (hp : Plain a) (he : C07.eligible g a = true) : a.rule ∉ g.fired := by
  rw [eligible_plain hp] at he
  simpa using he

theorem fired_of_not_eligible {g : Agenda} {a : Act} (hp : Plain a) (he : C07.eligible g a = false) : a.rule ∈ g.fired := by
  rw [eligible_plain hp] at he
  simpa using he

theorem skips_eq (e : Engine) (a : Act) : e.skips a = stale e.wm e.rules a := rfl

theorem eligible_fired {g g' : Agenda} {a : Act} (hp : Plain a) (h : g'.fired = g.fired) :
    C07.eligible g' a = C07.eligible g a := by
  rw [eligible_plain hp, eligible_plain hp, h]

/-- the skipping steps (`C07.incSkip`) on an agenda of plain activations: what is returned, what is kept, what is dropped -/
theorem incSkip_spec (rules : List Rule) : ∀ (k : Nat) (e : Engine), AgInv rules e.ag → e.ag.acts.length ≤ k →
    (C07.incSkip firePop Engine.skips k e).2.wm = e.wm ∧ (C07.incSkip firePop Engine.skips k e).2.rules = e.rules ∧
    AgInv rules (C07.incSkip firePop Engine.skips k e).2.ag ∧
    (C07.incSkip firePop Engine.skips k e).2.ag.fired = e.ag.fired ∧
    (∀ x ∈ (C07.incSkip firePop Engine.skips k e).2.ag.acts, x ∈ e.ag.acts) ∧
    ((C07.incSkip firePop Engine.skips k e).1 = none → (C07.incSkip firePop Engine.skips k e).2.ag.acts = [] ∧
      ∀ x ∈ e.ag.acts, C07.eligible e.ag x = false ∨ stale e.wm e.rules x = true) ∧
    (∀ a, (C07.incSkip firePop Engine.skips k e).1 = some a → a ∈ e.ag.acts ∧ C07.eligible e.ag a = true ∧
      stale e.wm e.rules a = false ∧
      ∀ x ∈ e.ag.acts, x = a ∨ x ∈ (C07.incSkip firePop Engine.skips k e).2.ag.acts ∨ C07.eligible e.ag x = false ∨
        stale e.wm e.rules x = true) := by
  intro k
  induction k with
  | zero =>
    intro e hag hk
    have hnil : e.ag.acts = [] := List.eq_nil_of_length_eq_zero (by omega)
    simp only [C07.incSkip, firePop]
    cases hp : e.ag.getNext.1 with
    | none =>
      obtain ⟨k1, k2, k3, k4, k5⟩ := getNext_none e.ag hag.focus hag.stack hag.ag0 hp
      exact ⟨by trivial, by trivial, ⟨k2, k3, by simp [k5], by simp [k5]⟩, k4, by simp [k5],
        fun _ => ⟨k5, fun x hx => Or.inl (k1 x hx)⟩, by intro a ha; simp at ha⟩
    | some a =>
      obtain ⟨k1, _⟩ := getNext_some e.ag hag.focus hag.stack hag.ag0 a hp
      rw [hnil] at k1; simp at k1
  | succ k ih =>
    intro e hag hk
    simp only [C07.incSkip, firePop]
    cases hp : e.ag.getNext.1 with
    | none =>
      obtain ⟨k1, k2, k3, k4, k5⟩ := getNext_none e.ag hag.focus hag.stack hag.ag0 hp
      exact ⟨by trivial, by trivial, ⟨k2, k3, by simp [k5], by simp [k5]⟩, k4, by simp [k5],
        fun _ => ⟨k5, fun x hx => Or.inl (k1 x hx)⟩, by intro a ha; simp at ha⟩
    | some a =>
      obtain ⟨k1, k2, k3, k4, k5, k6, k7, k8⟩ := getNext_some e.ag hag.focus hag.stack hag.ag0 a hp
      have hag1 : AgInv rules e.ag.getNext.2 :=
        ⟨k3, k4, fun x hx => hag.plain x (k6 x hx), fun x hx => hag.named x (k6 x hx)⟩
      simp only
      by_cases hs : Engine.skips { e with ag := e.ag.getNext.2 } a = true
      · rw [if_pos hs]
        have hlen : e.ag.getNext.2.acts.length ≤ k := by
          have := k8 (fun _ => true)
          simp only [List.countP_true, if_true] at this
          omega
        obtain ⟨i1, i2, i3, i4, i5, i6, i7⟩ := ih { e with ag := e.ag.getNext.2 } hag1 hlen
        have hconv : ∀ x ∈ e.ag.acts, x = a ∨ x ∈ e.ag.getNext.2.acts ∨ C07.eligible e.ag x = false :=  k7
        refine ⟨i1, i2, i3, i4.trans k5, fun x hx => k6 x (i5 x hx), ?_, ?_⟩
        · intro hnone
          obtain ⟨j1, j2⟩ := i6 hnone
          refine ⟨j1, ?_⟩
          intro x hx
          rcases hconv x hx with h | h | h
          · subst h; exact Or.inr hs
          · rcases j2 x h with h2 | h2
            · left; rw [← eligible_fired (hag.plain x hx) k5]; exact h2
            · exact Or.inr h2
          · exact Or.inl h
        · intro b hb
          obtain ⟨j1, j2, j3, j4⟩ := i7 b hb
          refine ⟨k6 b j1, ?_, j3, ?_⟩
          · rw [← eligible_fired (hag.plain b (k6 b j1)) k5]; exact j2
          · intro x hx
            rcases hconv x hx with h | h | h
            · subst h; exact Or.inr (Or.inr (Or.inr hs))
            · rcases j4 x h with h2 | h2 | h2 | h2
              · exact Or.inl h2
              · exact Or.inr (Or.inl h2)
              · right; right; left; rw [← eligible_fired (hag.plain x hx) k5]; exact h2
              · exact Or.inr (Or.inr (Or.inr h2))
            · exact Or.inr (Or.inr (Or.inl h))
      · rw [if_neg hs]
        refine ⟨by trivial, by trivial, hag1, k5, k6, by intro h; simp at h, ?_⟩
        intro b hb
        simp only [Option.some.injEq] at hb
        subst hb
        have hst : stale e.wm e.rules a = false := by
          have : Engine.skips { e with ag := e.ag.getNext.2 } a = stale e.wm e.rules a := rfl
          rw [← this]; simpa using hs
        refine ⟨k1, k2, hst, ?_⟩
        intro x hx
        rcases k7 x hx with h | h | h
        · exact Or.inl h
        · exact Or.inr (Or.inl h)
        · exact Or.inr (Or.inr (Or.inl h))

theorem fireLoop_exact (rules : List Rule) (w : WM) (hq : Quiet rules) (hn : (rules.map (·.name)).Nodup)
    (hi : WMInv w) (hd : DataOK w) :
    ∀ (fuel : Nat) (e : Engine) (out : List Firing), e.wm = w → e.rules = rules → AgInv rules e.ag →
      (∀ a ∈ e.ag.acts, TypedAct w rules a) → unfired rules e.ag.fired ≤ fuel →
      ∃ new, (fireLoop fuel e out).2 = out ++ new ∧ LoopPost rules w e (fireLoop fuel e out).1 new := by
  -- the two ways the loop ends without (further) firings
  have hend : ∀ (e e1 : Engine), e.wm = w → e.rules = rules → AgInv rules e.ag →
      C07.incSkip firePop Engine.skips e.ag.acts.length e = (none, e1) → LoopPost rules w e e1 [] := by
    intro e e1 hw hr hag hsk
    obtain ⟨i1, i2, i3, i4, _, i6, _⟩ := incSkip_spec rules e.ag.acts.length e hag (Nat.le_refl _)
    rw [hsk] at i1 i2 i3 i4 i6
    simp only at i1 i2 i3 i4
    obtain ⟨j1, j2⟩ := i6 rfl
    refine ⟨i1.trans hw, i2.trans hr, i3, j1, by simp, by simp [i4], by simp, by simp, ?_, by simp, by simp⟩
    intro r hr' f hf hev ⟨x, hx, h2, h3⟩
    rcases j2 x hx with h | h
    · rw [i4, ← h2]; exact fired_of_not_eligible (hag.plain x hx) h
    · rw [hw, hr, good_not_stale hi hn r hr' f hf h2 h3 hev] at h; simp at h
  intro fuel
  induction fuel with
  | zero =>
    intro e out hw hr hag _ hm
    unfold fireLoop
    rcases hsk : C07.incSkip firePop Engine.skips e.ag.acts.length e with ⟨_ | a, e1⟩
    · exact ⟨[], by simp, hend e e1 hw hr hag hsk⟩
    · exfalso
      obtain ⟨_, _, _, _, _, _, i7⟩ := incSkip_spec rules e.ag.acts.length e hag (Nat.le_refl _)
      rw [hsk] at i7
      obtain ⟨k1, k2, _⟩ := i7 a rfl
      obtain ⟨r, hr', hname⟩ := hag.named a k1
      have := unfired_pos rules e.ag.fired r hr' (by rw [← hname]; exact not_fired_of_eligible (hag.plain a k1) k2)
      omega
  | succ n ih =>
    intro e out hw hr hag htyp hm
    unfold fireLoop
    rcases hsk : C07.incSkip firePop Engine.skips e.ag.acts.length e with ⟨_ | a, e1⟩
    · exact ⟨[], by simp, hend e e1 hw hr hag hsk⟩
    · obtain ⟨i1, i2, hag1, i4, i5, _, i7⟩ := incSkip_spec rules e.ag.acts.length e hag (Nat.le_refl _)
      rw [hsk] at i1 i2 hag1 i4 i5 i7
      simp only at i1 i2 hag1 i4 i5
      obtain ⟨k1, k2, k3, k7⟩ := i7 a rfl
      simp only at k7
      have hw1 : e1.wm = w := i1.trans hw
      have hr1 : e1.rules = rules := i2.trans hr
      have hpa := hag.plain a k1
      have hnf : a.rule ∉ e.ag.fired := not_fired_of_eligible hpa k2
      simp only
      obtain ⟨r, hdl, f, q1, q2, q3, q4, hfo⟩ := fireOne_fresh e1 a (by rw [hr1]; exact hq) (by rw [hw1]; exact hd)
        (by rw [hw1, hr1, ← hw, ← hr]; exact k3)
      rw [hfo]
      simp only
      have hrm : r ∈ rules := by rw [← hr1]; exact List.mem_of_find?_eq_some q1
      have hrn : r.name = a.rule := by simpa using List.find?_some q1
      obtain ⟨hfl, hfh⟩ := live_of_get q3
      rw [hw1] at hfl
      have hext : Ext (GoodAct w rules) e1.ag e1.propagateAll.ag := by
        have := propagateAll_ext e1 (by rw [hw1]; exact hi) (by rw [hr1]; exact hq)
        rw [hw1, hr1] at this; exact this
      have hag2 : AgInv rules (e1.propagateAll.ag.mark a) := by
        have := hag1.ext hext (fun _ h => good_named h)
        obtain ⟨m1, m2, m3, _, _⟩ := C07.mark_focus e1.propagateAll.ag a
        exact ⟨m1.trans this.focus, m3.trans this.stack, by rw [m2]; exact this.plain, by rw [m2]; exact this.named⟩
      have hfired2 : (e1.propagateAll.ag.mark a).fired = C07.setInsert a.rule e.ag.fired := by
        simp only [Agenda.mark]; rw [hext.2.2.1, i4]
      have hacts2 : (e1.propagateAll.ag.mark a).acts = e1.propagateAll.ag.acts := (C07.mark_focus _ a).2.1
      have hm' : unfired rules (e1.propagateAll.ag.mark a).fired ≤ n := by
        rw [hfired2]
        have hu := unfired_mark rules e.ag.fired r hrm (by rw [hrn]; exact hnf)
        rw [hrn] at hu
        omega
      have htyp2 : ∀ x ∈ (e1.propagateAll.ag.mark a).acts, TypedAct w rules x := by
        intro x hx
        rw [hacts2] at hx
        rcases hext.mem x hx with h | h
        · exact htyp x (i5 x h)
        · exact good_typed hi h
      have hfty : f.ty = r.ty := by
        obtain ⟨r', hr', t1, h', t2, _, t4⟩ := htyp a k1
        have e1' := find_rule_of_mem rules r' hn hr'
        rw [← t1, ← hr1, q1] at e1'
        simp only [Option.some.injEq] at e1'
        rw [e1']
        apply t4 f ((getAllFacts_iff w f).1 hfl).1
        rw [q2] at t2
        simp only [Option.some.injEq] at t2
        rw [hfh, t2]
      obtain ⟨new, h1, P⟩ := ih { e1.propagateAll with ag := e1.propagateAll.ag.mark a }
        (out ++ [{ rule := r.name, handle := hdl, data := f.data }]) hw1 hr1 hag2 htyp2 hm'
      have hfi : ∀ m, m ∈ (fireLoop n { e1.propagateAll with ag := e1.propagateAll.ag.mark a }
          (out ++ [{ rule := r.name, handle := hdl, data := f.data }])).1.ag.fired ↔
          m ∈ e.ag.fired ∨ m = a.rule ∨ m ∈ new.map (·.rule) := by
        intro m
        rw [P.fired_iff m]
        simp only [hfired2, C07.mem_setInsert]
        constructor
        · rintro ((h | h) | h)
          · exact Or.inr (Or.inl h)
          · exact Or.inl h
          · exact Or.inr (Or.inr h)
        · rintro (h | h | h)
          · exact Or.inl (Or.inr h)
          · exact Or.inl (Or.inl h)
          · exact Or.inr h
      refine ⟨{ rule := r.name, handle := hdl, data := f.data } :: new, by rw [h1]; simp, P.wm, P.rules_eq, P.ag,
        P.drained, ?_, ?_, ?_, ?_, ?_, ?_, ?_⟩
      · simp only [List.map_cons, List.nodup_cons]
        refine ⟨?_, P.nodup⟩
        intro hmem
        obtain ⟨y, hy, hy2⟩ := List.mem_map.1 hmem
        apply P.fresh y hy
        simp only [hfired2, C07.mem_setInsert]
        left; rw [hy2, hrn]
      · intro m
        rw [hfi m]
        simp only [List.map_cons, List.mem_cons, hrn]
      · intro x hx
        rcases List.mem_cons.1 hx with h | h
        · subst h; simpa only [hrn] using hnf
        · intro hc
          apply P.fresh x h
          simp only [hfired2, C07.mem_setInsert]
          exact Or.inr hc
      · intro x hx
        rcases List.mem_cons.1 hx with h | h
        · subst h
          exact ⟨r, hrm, f, hfl, rfl, hfh.symm, rfl, hfty, q4⟩
        · exact P.validf x h
      · intro r' hr' f' hf' hev ⟨x, hx, h2, h3⟩
        rw [hfi]
        rcases k7 x hx with h4 | h4 | h4 | h4
        · subst h4; exact Or.inr (Or.inl h2.symm)
        · have := P.cover r' hr' f' hf' hev ⟨x, by rw [hacts2]; exact hext.mono x h4, h2, h3⟩
          exact (hfi _).1 this
        · left; rw [← h2]; exact fired_of_not_eligible (hag.plain x hx) h4
        · rw [hw, hr, good_not_stale hi hn r' hr' f' hf' h2 h3 hev] at h4; simp at h4
      · intro _
        exact ⟨{ rule := r.name, handle := hdl, data := f.data }, by simp, a, k1, hrn.symm, q2⟩
      · -- after this firing the global re-propagation has queued every unfired rule on every live fact that satisfies it
        intro _ r' hr' f' hf' hty' hev'
        rw [hfi]
        by_cases hfd : r'.name ∈ (e1.propagateAll.ag.mark a).fired
        · rw [hfired2, C07.mem_setInsert] at hfd
          rcases hfd with h | h
          · exact Or.inr (Or.inl h)
          · exact Or.inl h
        · have hnf1 : r'.name ∉ e1.ag.fired := by
            intro hc; apply hfd; rw [hfired2, C07.mem_setInsert]; right; rw [← i4]; exact hc
          obtain ⟨x, hx, h2, h3⟩ := propagateAll_complete e1 (by rw [hw1]; exact hi) (by rw [hr1]; exact hq) r'
            (by rw [hr1]; exact hr') hnf1 f' (by rw [hw1]; exact hf') hty' hev'
          have := P.cover r' hr' f' hf' hev' ⟨x, by rw [hacts2]; exact hx, h2, h3⟩
          exact (hfi _).1 this

/-! ### histories: the structural invariant (all operations, `fire_all` included) -/

structure Inv (rules : List Rule) (e : Engine) : Prop where
  rules_eq : e.rules = rules
  wm : WMInv e.wm
  data : DataOK e.wm
  ag : AgInv rules e.ag
  typed : ∀ a ∈ e.ag.acts, TypedAct e.wm rules a

/-- the contents an operation writes -/
def Op.data? : Op → Option Data
  | .insert _ d => some d
  | .update _ d => some d
  | _ => none

/-- contents are maps (one binding per field), as `TypedFacts` is -/
def Op.WF (o : Op) : Prop :=
  match o.data? with
  | some d => (d.map (·.1)).Nodup
  | none => True

instance : DecidablePred Op.WF := fun o => by
  unfold Op.WF
  cases o.data? <;> simp only <;> infer_instance

theorem inv_propagateType {rules : List Rule} (hq : Quiet rules) (e : Engine) (ty : Nat) (h : Inv rules e) :
    Inv rules (e.propagateType ty) := by
  obtain ⟨h1, h2, h3, h4, h5⟩ := h
  subst h1
  refine ⟨rfl, h2, h3, h4.ext (propagateType_ext e h2 hq ty) (fun _ h => good_named h), ?_⟩
  intro a ha
  rcases (propagateType_ext e h2 hq ty).mem a ha with h | h
  · exact h5 a h
  · exact good_typed h2 h

/-- a working memory obtained by changing data / the retracted flag of facts in place, or by appending a fact with handle
`next_id`, keeps every activation typed -/
theorem typed_mapFact {w : WM} {rules : List Rule} {a : Act} {h : Nat} (g : Fact → Fact)
    (hg : ∀ x, (g x).handle = x.handle ∧ (g x).ty = x.ty) {w' : WM} (hf : w'.facts = mapFact h g w.facts)
    (hn : w'.nextId = w.nextId) (ht : TypedAct w rules a) : TypedAct w' rules a := by
  apply typed_mono ht (by omega)
  intro f' hf'
  rw [hf] at hf'
  left
  rcases mem_mapFact hf' with h1 | ⟨x, hx, e1, _⟩
  · exact ⟨f', h1, rfl, rfl⟩
  · subst e1; exact ⟨x, hx, (hg x).1.symm, (hg x).2.symm⟩

theorem update_facts {w w' : WM} {h : Nat} {d : Data} (hu : w.update h d = some w') :
    w'.facts = mapFact h (fun x => { x with data := d }) w.facts ∧ w'.nextId = w.nextId := by
  unfold WM.update at hu
  cases hfind : w.find h with
  | none => simp [hfind] at hu
  | some g =>
    simp only [hfind] at hu
    split at hu
    · simp at hu
    · simp only [Option.some.injEq] at hu; subst hu; exact ⟨rfl, rfl⟩

theorem retract_facts {w w' : WM} {h : Nat} (hu : w.retract h = some w') :
    w'.facts = mapFact h (fun x => { x with retracted := true }) w.facts ∧ w'.nextId = w.nextId := by
  unfold WM.retract at hu
  cases hfind : w.find h with
  | none => simp [hfind] at hu
  | some g =>
    simp only [hfind] at hu
    split at hu
    · simp at hu
    · simp only [Option.some.injEq] at hu; subst hu; exact ⟨rfl, rfl⟩

theorem update_some_of_get {w : WM} {h : Nat} {g : Fact} (d : Data) (hg : w.get h = some g) :
    ∃ w', w.update h d = some w' := by
  unfold WM.get at hg
  unfold WM.update
  cases hfind : w.find h with
  | none => simp [hfind] at hg
  | some f =>
    simp only [hfind] at hg ⊢
    cases hr : f.retracted with
    | true => simp [hr] at hg
    | false => simp

theorem dataOK_update {w w' : WM} {h : Nat} {d : Data} (hd : DataOK w) (hn : (d.map (·.1)).Nodup)
    (hu : w.update h d = some w') : DataOK w' := by
  intro f hf
  rw [(update_facts hu).1] at hf
  rcases mem_mapFact hf with h1 | ⟨x, _, e1, _⟩
  · exact hd f h1
  · subst e1; exact hn

theorem dataOK_retract {w w' : WM} {h : Nat} (hd : DataOK w) (hu : w.retract h = some w') : DataOK w' := by
  intro f hf
  rw [(retract_facts hu).1] at hf
  rcases mem_mapFact hf with h1 | ⟨x, hx, e1, _⟩
  · exact hd f h1
  · subst e1; exact hd x hx

theorem inv_fireOne {rules : List Rule} (hq : Quiet rules) (e : Engine) (a : Act) (h : Inv rules e) :
    Inv rules (e.fireOne a).1 := by
  by_cases hs : stale e.wm e.rules a = true
  · rw [fireOne_stale e a hs]; exact h
  · obtain ⟨h1, h2, h3, h4, h5⟩ := h
    subst h1
    obtain ⟨r, hdl, f, _, _, _, _, hfo⟩ := fireOne_fresh e a hq h3 (by simpa using hs)
    rw [hfo]
    have := h4.ext (propagateAll_ext e h2 hq) (fun _ h => good_named h)
    obtain ⟨m1, m2, m3, _, _⟩ := C07.mark_focus e.propagateAll.ag a
    refine ⟨rfl, h2, h3, ⟨m1.trans this.focus, m3.trans this.stack, by rw [m2]; exact this.plain, by rw [m2]; exact this.named⟩, ?_⟩
    intro x hx
    simp only at hx
    rw [m2] at hx
    rcases (propagateAll_ext e h2 hq).mem x hx with h | h
    · exact h5 x h
    · exact good_typed h2 h

theorem inv_skip {rules : List Rule} (e : Engine) (h : Inv rules e) :
    Inv rules (C07.incSkip firePop Engine.skips e.ag.acts.length e).2 := by
  obtain ⟨i1, i2, i3, _, i5, _⟩ := incSkip_spec rules e.ag.acts.length e h.ag (Nat.le_refl _)
  exact ⟨i2.trans h.rules_eq, by rw [i1]; exact h.wm, by rw [i1]; exact h.data, i3,
    fun x hx => by rw [i1]; exact h.typed x (i5 x hx)⟩

theorem inv_fireLoop {rules : List Rule} (hq : Quiet rules) : ∀ (fuel : Nat) (e : Engine) (out : List Firing),
    Inv rules e → Inv rules (fireLoop fuel e out).1 := by
  intro fuel
  induction fuel with
  | zero =>
    intro e out he
    unfold fireLoop
    have := inv_skip e he
    rcases hsk : C07.incSkip firePop Engine.skips e.ag.acts.length e with ⟨_ | a, e1⟩ <;>
      (rw [hsk] at this; exact this)
  | succ n ih =>
    intro e out he
    unfold fireLoop
    have := inv_skip e he
    rcases hsk : C07.incSkip firePop Engine.skips e.ag.acts.length e with ⟨_ | a, e1⟩
    · rw [hsk] at this; exact this
    · rw [hsk] at this; exact ih _ _ (inv_fireOne hq _ a this)

theorem inv_step {rules : List Rule} (hq : Quiet rules) (e : Engine) (o : Op) (ho : o.WF) (h : Inv rules e) :
    Inv rules (e.step o).1 := by
  cases o with
  | insert ty d =>
    simp only [Engine.step, Engine.insert]
    apply inv_propagateType hq
    refine ⟨h.rules_eq, wminv_pres.ins _ ty d h.wm, ?_, h.ag, ?_⟩
    · intro f hf
      simp only [WM.insert, List.mem_append, List.mem_singleton] at hf
      rcases hf with h1 | h1
      · exact h.data f h1
      · subst h1; exact ho
    · intro a ha
      apply typed_mono (h.typed a ha) (by simp [WM.insert])
      intro f' hf'
      simp only [WM.insert, List.mem_append, List.mem_singleton] at hf'
      rcases hf' with h1 | h1
      · exact Or.inl ⟨f', h1, rfl, rfl⟩
      · subst h1; exact Or.inr (Nat.le_refl _)
  | update hdl d =>
    simp only [Engine.step, Engine.update]
    cases hg : e.wm.get hdl with
    | none => exact h
    | some g =>
      simp only
      cases hu : e.wm.update hdl d with
      | none => exact h
      | some w' =>
        simp only
        apply inv_propagateType hq
        exact ⟨h.rules_eq, wminv_pres.upd _ _ _ _ h.wm hu, dataOK_update h.data ho hu, h.ag,
          fun a ha => typed_mapFact (w := e.wm) (w' := w') (h := hdl) (fun x => { x with data := d }) (fun _ => ⟨rfl, rfl⟩)
            (update_facts hu).1 (update_facts hu).2 (h.typed a ha)⟩
  | retract hdl =>
    simp only [Engine.step, Engine.retract]
    cases hg : e.wm.get hdl with
    | none => exact h
    | some g =>
      simp only
      cases hu : e.wm.retract hdl with
      | none => exact h
      | some w' =>
        simp only
        apply inv_propagateType hq
        exact ⟨h.rules_eq, wminv_pres.ret _ _ _ h.wm hu, dataOK_retract h.data hu, h.ag,
          fun a ha => typed_mapFact (w := e.wm) (w' := w') (h := hdl) (fun x => { x with retracted := true }) (fun _ => ⟨rfl, rfl⟩)
            (retract_facts hu).1 (retract_facts hu).2 (h.typed a ha)⟩
  | fire => exact inv_fireLoop hq _ _ _ h
  | reset =>
    exact ⟨h.rules_eq, h.wm, h.data, ⟨h.ag.focus, h.ag.stack, h.ag.plain, h.ag.named⟩, h.typed⟩

theorem inv_run {rules : List Rule} (hq : Quiet rules) : ∀ (ops : List Op) (e : Engine), (∀ o ∈ ops, o.WF) →
    Inv rules e → Inv rules (e.run ops) := by
  intro ops
  induction ops with
  | nil => intro e _ h; exact h
  | cons o os ih =>
    intro e ho h
    exact ih _ (fun o' ho' => ho o' (List.mem_cons_of_mem _ ho')) (inv_step hq e o (ho o (by simp)) h)

theorem inv_init (rules : List Rule) : Inv rules ({ rules := rules } : Engine) :=
  ⟨rfl, wminv_init, by intro f hf; simp at hf, ⟨rfl, rfl, by intro a ha; simp at ha, by intro a ha; simp at ha⟩,
    by intro a ha; simp at ha⟩

/-! ### histories: insert / update / retract establish "pending activations are complete" -/

/-- every (rule, live fact of its type with a handle in `S`) pair whose node is true on the fact's current contents has a
pending activation (whether or not the rule has fired: propagation by type does not look at the fired set) -/
def Compl (S : Nat → Prop) (e : Engine) : Prop :=
  ∀ r ∈ e.rules, ∀ f ∈ e.wm.getAllFacts, S f.handle → f.ty = r.ty → r.node.eval f.ty f.data = true →
    ∃ a ∈ e.ag.acts, a.rule = r.name ∧ a.handle = some f.handle

theorem propagateType_complete (e : Engine) (hq : Quiet e.rules) (ty : Nat) :
    ∀ r ∈ e.rules, r.ty = ty → ∀ f ∈ e.wm.getByType ty, r.node.eval f.ty f.data = true →
      ∃ a ∈ (e.propagateType ty).ag.acts, a.rule = r.name ∧ a.handle = some f.handle := by
  intro r hr hty f hf hev
  unfold Engine.propagateType
  simp only
  apply foldl_complete (fun _ => True) _ _ _ (fun a => a.rule = r.name ∧ a.handle = some f.handle) r
    (List.mem_filter.2 ⟨hr, by simpa using hty⟩) _ (e.ag, e.clock)
  · intro p rule hrule
    exact addMatches_ext _ rule (hq rule (List.mem_filter.1 hrule).1).2.2.1 _ (fun _ _ _ _ _ => trivial) p
  · intro p
    exact addMatches_complete r (hq r hr).2.2.1 _ p f hf hev

theorem compl_propagate {rules : List Rule} (hq : Quiet rules) (S S' : Nat → Prop) (e : Engine) (w' : WM) (ty : Nat)
    (hinv : Inv rules e) (hw' : WMInv w')
    (hlive : ∀ f' ∈ w'.getAllFacts, f'.ty = ty ∨ (f' ∈ e.wm.getAllFacts ∧ (S' f'.handle → S f'.handle)))
    (hc : Compl S e) : Compl S' (({ e with wm := w' } : Engine).propagateType ty) := by
  have hr0 := hinv.rules_eq
  subst hr0
  intro r hr f' hf' hS hty hev
  have hr' : r ∈ e.rules := hr
  have hf'' : f' ∈ w'.getAllFacts := hf'
  rcases hlive f' hf'' with h1 | ⟨h1, h2⟩
  · apply propagateType_complete ({ e with wm := w' } : Engine) hq ty r hr' (by rw [← hty, h1]) f' _ hev
    obtain ⟨k1, k2⟩ := (getAllFacts_iff w' f').1 hf''
    exact (getByType_iff hw' ty f').2 ⟨k1, h1, k2⟩
  · obtain ⟨a, ha, hp⟩ := hc r hr' f' h1 (h2 hS) hty hev
    exact ⟨a, (propagateType_ext ({ e with wm := w' } : Engine) hw' hq ty).mono a ha, hp⟩

theorem compl_weaken {S S' : Nat → Prop} {e : Engine} (h : ∀ f ∈ e.wm.getAllFacts, S' f.handle → S f.handle)
    (hc : Compl S e) : Compl S' e :=
  fun r hr f hf hS hty hev => hc r hr f hf (h f hf hS) hty hev

theorem live_lt {w : WM} (hi : WMInv w) {f : Fact} (hf : f ∈ w.getAllFacts) : f.handle < w.nextId :=
  hi.hinv f ((getAllFacts_iff w f).1 hf).1

theorem update_live {w w' : WM} {h : Nat} {d : Data} {g : Fact} (hi : WMInv w) (hg : w.get h = some g)
    (hu : w.update h d = some w') : ∀ f' ∈ w'.getAllFacts, f'.ty = g.ty ∨ (f' ∈ w.getAllFacts ∧ f'.handle ≠ h) := by
  intro f' hf'
  obtain ⟨k1, k2⟩ := (getAllFacts_iff w' f').1 hf'
  obtain ⟨hgl, hgh⟩ := live_of_get hg
  rw [(update_facts hu).1] at k1
  by_cases hh : f'.handle = h
  · left
    rcases mem_mapFact k1 with h1 | ⟨x, hx, e1, e2⟩
    · have h3 := get_of_live hi ((getAllFacts_iff w f').2 ⟨h1, k2⟩)
      rw [hh, hg] at h3
      simp only [Option.some.injEq] at h3; rw [h3]
    · have h3 := wm_find_of_mem hi hx
      have h4 := wm_find_of_mem hi ((getAllFacts_iff w g).1 hgl).1
      rw [e2] at h3; rw [hgh, h3] at h4
      simp only [Option.some.injEq] at h4
      subst e1; subst h4; rfl
  · right
    rcases mem_mapFact k1 with h1 | ⟨x, hx, e1, e2⟩
    · exact ⟨(getAllFacts_iff w f').2 ⟨h1, k2⟩, hh⟩
    · subst e1; exact absurd e2 hh

theorem retract_live {w w' : WM} {h : Nat} (hu : w.retract h = some w') :
    ∀ f' ∈ w'.getAllFacts, f' ∈ w.getAllFacts := by
  intro f' hf'
  obtain ⟨k1, k2⟩ := (getAllFacts_iff w' f').1 hf'
  rw [(retract_facts hu).1] at k1
  rcases mem_mapFact k1 with h1 | ⟨x, hx, e1, e2⟩
  · exact (getAllFacts_iff w f').2 ⟨h1, k2⟩
  · subst e1; simp at k2

/-- one call other than `fire_all`: the pairs covered are the old ones, every fact inserted by the call, and the fact
updated by the call -/
theorem compl_step {rules : List Rule} (hq : Quiet rules) (S : Nat → Prop) (e : Engine) (o : Op) (ho : o ≠ .fire)
    (hinv : Inv rules e) (hc : Compl S e) :
    Compl (fun h => S h ∨ e.wm.nextId ≤ h ∨ ∃ d, o = .update h d) (e.step o).1 := by
  have hold : ∀ f ∈ e.wm.getAllFacts, ¬ e.wm.nextId ≤ f.handle := fun f hf => by have := live_lt hinv.wm hf; omega
  cases o with
  | insert ty d =>
    simp only [Engine.step, Engine.insert]
    apply compl_propagate hq S _ e _ ty hinv (wminv_pres.ins _ ty d hinv.wm) _ hc
    intro f' hf'
    obtain ⟨k1, k2⟩ := (getAllFacts_iff _ f').1 hf'
    simp only [WM.insert, List.mem_append, List.mem_singleton] at k1
    rcases k1 with h1 | h1
    · right
      have hl := (getAllFacts_iff e.wm f').2 ⟨h1, k2⟩
      refine ⟨hl, ?_⟩
      rintro (h2 | h2 | ⟨_, h2⟩)
      · exact h2
      · exact absurd h2 (hold f' hl)
      · simp at h2
    · left; subst h1; rfl
  | update hdl d =>
    simp only [Engine.step, Engine.update]
    cases hg : e.wm.get hdl with
    | none =>
      apply compl_weaken _ hc
      rintro f hf (h2 | h2 | ⟨d', h2⟩)
      · exact h2
      · exact absurd h2 (hold f hf)
      · simp only [Op.update.injEq] at h2
        have := get_of_live hinv.wm hf
        rw [← h2.1, hg] at this; simp at this
    | some g =>
      simp only
      obtain ⟨w', hu⟩ := update_some_of_get d hg
      simp only [hu]
      apply compl_propagate hq S _ e _ g.ty hinv (wminv_pres.upd _ _ _ _ hinv.wm hu) _ hc
      intro f' hf'
      rcases update_live hinv.wm hg hu f' hf' with h1 | ⟨h1, h2⟩
      · exact Or.inl h1
      · right
        refine ⟨h1, ?_⟩
        rintro (h3 | h3 | ⟨d', h3⟩)
        · exact h3
        · exact absurd h3 (hold f' h1)
        · simp only [Op.update.injEq] at h3; exact absurd h3.1.symm h2
  | retract hdl =>
    simp only [Engine.step, Engine.retract]
    have hweak : ∀ f ∈ e.wm.getAllFacts, (S f.handle ∨ e.wm.nextId ≤ f.handle ∨ ∃ d, Op.retract hdl = .update f.handle d) →
        S f.handle := by
      rintro f hf (h2 | h2 | ⟨d', h2⟩)
      · exact h2
      · exact absurd h2 (hold f hf)
      · simp at h2
    cases hg : e.wm.get hdl with
    | none => exact compl_weaken hweak hc
    | some g =>
      simp only
      cases hu : e.wm.retract hdl with
      | none => exact compl_weaken hweak hc
      | some w' =>
        simp only
        apply compl_propagate hq S _ e _ g.ty hinv (wminv_pres.ret _ _ _ hinv.wm hu) _ hc
        intro f' hf'
        right
        have hl := retract_live hu f' hf'
        exact ⟨hl, hweak f' hl⟩
  | fire => exact absurd rfl ho
  | reset =>
    have hweak : ∀ f ∈ e.wm.getAllFacts, (S f.handle ∨ e.wm.nextId ≤ f.handle ∨ ∃ d, Op.reset = .update f.handle d) →
        S f.handle := by
      rintro f hf (h2 | h2 | ⟨d', h2⟩)
      · exact h2
      · exact absurd h2 (hold f hf)
      · simp at h2
    exact compl_weaken (e := e.reset) hweak hc

theorem compl_run {rules : List Rule} (hq : Quiet rules) : ∀ (ops : List Op) (S : Nat → Prop) (e : Engine),
    (∀ o ∈ ops, o ≠ .fire ∧ o.WF) → Inv rules e → Compl S e →
    Compl (fun h => S h ∨ e.wm.nextId ≤ h ∨ ∃ d, Op.update h d ∈ ops) (e.run ops) := by
  intro ops
  induction ops with
  | nil =>
    intro S e _ hinv hc
    apply compl_weaken _ hc
    rintro f hf (h2 | h2 | ⟨d', h2⟩)
    · exact h2
    · have := live_lt hinv.wm hf; omega
    · simp at h2
  | cons o os ih =>
    intro S e ho hinv hc
    have h1 := compl_step hq S e o (ho o (by simp)).1 hinv hc
    have h2 := ih _ (e.step o).1 (fun o' ho' => ho o' (List.mem_cons_of_mem _ ho')) (inv_step hq e o (ho o (by simp)).2 hinv) h1
    have hmono : e.wm.nextId ≤ (e.step o).1.wm.nextId := step_pres (nextId_mono_pres e.wm.nextId) e o (Nat.le_refl _)
    intro r hr f hf hS
    apply h2 r hr f hf
    rcases hS with h3 | h3 | ⟨d, h3⟩
    · exact Or.inl (Or.inl h3)
    · exact Or.inl (Or.inr (Or.inl h3))
    · rcases List.mem_cons.1 h3 with h4 | h4
      · exact Or.inl (Or.inr (Or.inr ⟨d, h4.symm⟩))
      · exact Or.inr (Or.inr ⟨d, h4⟩)

/-! ### the fired set along calls other than `fire_all` -/

theorem run_append (e : Engine) (a b : List Op) : e.run (a ++ b) = (e.run a).run b := by
  induction a generalizing e with
  | nil => rfl
  | cons o os ih => simp only [List.cons_append, Engine.run]; exact ih _

theorem fired_step_nil {rules : List Rule} (hq : Quiet rules) (e : Engine) (o : Op) (ho : o ≠ .fire) (hinv : Inv rules e)
    (hf : e.ag.fired = []) : (e.step o).1.ag.fired = [] := by
  have hr0 := hinv.rules_eq
  subst hr0
  cases o with
  | insert ty d =>
    simp only [Engine.step, Engine.insert]
    exact (propagateType_ext ({ e with wm := (e.wm.insert ty d).1 } : Engine) (wminv_pres.ins _ ty d hinv.wm) hq ty).2.2.1.trans hf
  | update hdl d =>
    simp only [Engine.step, Engine.update]
    cases hg : e.wm.get hdl with
    | none => exact hf
    | some g =>
      simp only
      cases hu : e.wm.update hdl d with
      | none => exact hf
      | some w' =>
        simp only
        exact (propagateType_ext ({ e with wm := w' } : Engine) (wminv_pres.upd _ _ _ _ hinv.wm hu) hq g.ty).2.2.1.trans hf
  | retract hdl =>
    simp only [Engine.step, Engine.retract]
    cases hg : e.wm.get hdl with
    | none => exact hf
    | some g =>
      simp only
      cases hu : e.wm.retract hdl with
      | none => exact hf
      | some w' =>
        simp only
        exact (propagateType_ext ({ e with wm := w' } : Engine) (wminv_pres.ret _ _ _ hinv.wm hu) hq g.ty).2.2.1.trans hf
  | fire => exact absurd rfl ho
  | reset => rfl

theorem fired_run_nil {rules : List Rule} (hq : Quiet rules) : ∀ (ops : List Op) (e : Engine),
    (∀ o ∈ ops, o ≠ .fire ∧ o.WF) → Inv rules e → e.ag.fired = [] → (e.run ops).ag.fired = [] := by
  intro ops
  induction ops with
  | nil => intro e _ _ h; exact h
  | cons o os ih =>
    intro e ho hinv hf
    exact ih _ (fun o' ho' => ho o' (List.mem_cons_of_mem _ ho')) (inv_step hq e o (ho o (by simp)).2 hinv)
      (fired_step_nil hq e o (ho o (by simp)).1 hinv hf)

end C06
