import RreModel.C06.Spec
/-
C06 — the other public ways facts enter `IncrementalEngine` and the other read-outs of `WorkingMemory` (reach audit):
  * `insert_explicit`            — the twin of `insert` (same three statements)
  * `insert_with_template`       — `TemplateRegistry::validate`, then `insert`; an `Err` leaves the engine untouched
  * `load_deffacts` / `load_deffacts_by_name` — a registered list of facts through `insert` / `insert_with_template`
  * `reset_with_deffacts`        — a NEW `WorkingMemory` (handle numbering restarts at 1: a new epoch), `agenda.clear()`, `load_deffacts`
  * `set_conflict_resolution_strategy` / `conflict_resolution_strategy` — `AdvancedAgenda::set_strategy` re-sorts the pending
    activations and collects them into the same `BinaryHeap` (same `Ord`): no observable change (C07's model: `Op.strategy`)
  * `IncrementalEngine::stats()` / `WorkingMemory::stats()` — the counting twins of the listings
Every extended operation except `reset_with_deffacts` IS a (possibly empty) list of `insert` calls: `XOp.lower`, theorem
`C06.xrun_eq_run_lower` — so every theorem about histories of insert / update / retract / fire_all / reset holds of the extended
histories as well (`C06.handles_fresh_xhistory`, `C06.wm_views_agree_xhistory`).

Harness configuration (harness/src/bin/c06.rs `new_engine`; fixed for every case, both engines):
  template  `T1`: `f0` Integer, required; `f1` String, optional            (`templateOk`)
  deffacts  `d0`: T0 {f0 = 25}; T1 {f0 = 1, f1 = "s1"}; T1 {f0 = "s0"} (violates the template); T2 {f1 = true}    (`deffacts`)
-/
namespace C06

def hasTemplate (ty : Nat) : Bool := ty == 1

/-- `TemplateRegistry::validate` for the registered template (an unknown template name is an `Err` as well) -/
def templateOk (ty : Nat) (d : Data) : Bool :=
  hasTemplate ty &&
  (match d.get 0 with | some (.int _) => true | _ => false) &&
  (match d.get 1 with | none => true | some (.str _) => true | _ => false)

def deffacts : List (Nat × Data) :=
  [(0, [(0, .int 25)]), (1, [(0, .int 1), (1, .str 1)]), (1, [(0, .str 0)]), (2, [(1, .bool true)])]

/-- a fact of a deffacts set is inserted through `insert_with_template` when its type has a template, through `insert` otherwise -/
def deffactOk (p : Nat × Data) : Bool := !hasTemplate p.1 || templateOk p.1 p.2

/-- `load_deffacts`: invalid facts are skipped (`Err(_) => continue`) -/
def loadAllOps : List Op := (deffacts.filter deffactOk).map (fun p => .insert p.1 p.2)

/-- `load_deffacts_by_name`: the first invalid fact ends the call with `Err` (`?`) — the facts before it stay inserted -/
def loadNamedPrefix : List (Nat × Data) → List Op × Bool
  | [] => ([], true)
  | p :: ps => if deffactOk p then ((Op.insert p.1 p.2) :: (loadNamedPrefix ps).1, (loadNamedPrefix ps).2) else ([], false)

/-- a node whose alpha nodes were built with `AlphaNode::with_typed_value` (harness flag `v`): a literal goes through
`FactValue::as_string` — an integral float prints without its fraction and is parsed back as an integer, exactly as after the
trip through GRL text (`loaderVal`); variable references and array literals go in as text and are untouched -/
def typedNode : Node → Node
  | .alpha ty f op (.lit v) => .alpha ty f op (.lit (loaderVal v))
  | .alpha ty f op rhs => .alpha ty f op rhs
  | .and l r => .and (typedNode l) (typedNode r)
  | .or l r => .or (typedNode l) (typedNode r)
  | .not n => .not (typedNode n)
  | .test e op rhs => .test e op rhs

inductive XOp where
  | base (o : Op)
  | insertExplicit (ty : Nat) (d : Data)
  | insertTemplate (ty : Nat) (d : Data)
  | strategy (k : Nat)
  | loadDeffacts
  | loadByName (k : Nat)          -- 0 = the registered set `d0`, anything else = an unknown name
  | resetDeffacts
deriving Repr, DecidableEq

/-- what an extended operation is in terms of the five operations of the property's quantifier (for `resetDeffacts`: AFTER the
re-initialisation `Engine.resetForDeffacts`) -/
def XOp.lower : XOp → List Op
  | .base o => [o]
  | .insertExplicit ty d => [.insert ty d]
  | .insertTemplate ty d => if templateOk ty d then [.insert ty d] else []
  | .strategy _ => []
  | .loadDeffacts => loadAllOps
  | .loadByName k => if k == 0 then (loadNamedPrefix deffacts).1 else []
  | .resetDeffacts => loadAllOps

inductive XRes where
  | res (r : Res)
  | rejected                              -- `insert_with_template` returned `Err`
  | strat (k : Nat)                       -- `conflict_resolution_strategy()` read back after the setter
  | loaded (ok : Bool) (hs : List Nat)    -- `Ok(handles)` / `Err`, and the handles that are new in working memory
deriving Repr, DecidableEq

/-- a list of base operations, collecting the results -/
def Engine.runRes (e : Engine) : List Op → Engine × List Res
  | [] => (e, [])
  | o :: os => let r := Engine.runRes (e.step o).1 os; (r.1, (e.step o).2 :: r.2)

def handlesOf (rs : List Res) : List Nat := rs.filterMap (fun r => match r with | .handle h => some h | _ => none)

/-- `reset_with_deffacts`, first half: `self.working_memory = WorkingMemory::new(); self.agenda.clear();` -/
def Engine.resetForDeffacts (e : Engine) : Engine := { e with wm := {}, ag := e.ag.clear }

def Engine.xstep (e : Engine) : XOp → Engine × XRes
  | .base o => ((e.step o).1, .res (e.step o).2)
  | .insertExplicit ty d => ((e.insert ty d).1, .res (.handle (e.insert ty d).2))
  | .insertTemplate ty d => if templateOk ty d then ((e.insert ty d).1, .res (.handle (e.insert ty d).2)) else (e, .rejected)
  | .strategy k => (e, .strat k)
  | .loadDeffacts => ((e.runRes loadAllOps).1, .loaded true (handlesOf (e.runRes loadAllOps).2))
  | .loadByName k =>
    if k == 0 then ((e.runRes (loadNamedPrefix deffacts).1).1,
                    .loaded (loadNamedPrefix deffacts).2 (handlesOf (e.runRes (loadNamedPrefix deffacts).1).2))
    else (e, .loaded false [])
  | .resetDeffacts => ((e.resetForDeffacts.runRes loadAllOps).1, .loaded true (handlesOf (e.resetForDeffacts.runRes loadAllOps).2))

def Engine.xrun (e : Engine) : List XOp → Engine
  | [] => e
  | x :: xs => Engine.xrun (e.xstep x).1 xs

/-! ### observations -/

/-- `IncrementalEngine::stats()`: rules, total / active / retracted facts, types ever indexed, fact types some rule depends on -/
def Engine.stats (e : Engine) : List Nat :=
  [e.rules.length, e.wm.facts.length, (e.wm.facts.filter (fun f => !f.retracted)).length,
   (e.wm.facts.filter (fun f => f.retracted)).length, e.wm.index.length, (dedup (e.rules.map (·.ty))).length]

inductive XORes where
  | res (r : ORes)
  | rejected
  | strat (k : Nat)
  | loaded (ok : Bool) (hs : List Nat)
deriving Repr, DecidableEq

structure XObs where
  res : XORes
  view : View
  stats : List Nat
deriving Repr, DecidableEq

def toXORes : XRes → XORes
  | .res r => .res (toORes r)
  | .rejected => .rejected
  | .strat k => .strat k
  | .loaded ok hs => .loaded ok hs

def xtrace (e : Engine) : List XOp → List XObs
  | [] => []
  | x :: xs => { res := toXORes (e.xstep x).2, view := (e.xstep x).1.wm.view, stats := (e.xstep x).1.stats } :: xtrace (e.xstep x).1 xs

def XObs.toObs? (o : XObs) : Option Obs :=
  match o.res with
  | .res r => some { res := r, view := o.view }
  | _ => none

/-! ### the oracle on extended histories -/

/-- the reference working memory after a list of inserts whose returned handles are `hs` (each must be `next_id`) -/
def refInserts : Ref → List Op → List Nat → Option Ref
  | r, [], [] => some r
  | r, .insert ty d :: ops, h :: hs =>
    if h == r.nextId then
      refInserts { r with live := r.live ++ [(h, ty, canonData d)], nextId := r.nextId + 1, fresh := r.fresh ++ [h], freshTypes := r.freshTypes ++ [ty] } ops hs
    else none
  | _, _, _ => none

def unchangedOk (r : Ref) (v : View) : Bool := viewsOk r.live v && contentsOk r.live v

/-- one step; `base` = `ostep` for the engine with the recorder, `ostepG` for the loader engine -/
def oxstep (base : List Rule → Ref → Op → Obs → Option Ref) (rules : List Rule) (r : Ref) (x : XOp) (o : XObs) : Option Ref :=
  match x, o.res with
  | .base op, .res r0 => base rules r op { res := r0, view := o.view }
  | .insertExplicit ty d, .res r0 => base rules r (.insert ty d) { res := r0, view := o.view }
  | .insertTemplate ty d, .res r0 =>
    -- template_checked: a fact the template forbids must not enter working memory
    if templateOk ty d then base rules r (.insert ty d) { res := r0, view := o.view } else none
  | .insertTemplate ty d, .rejected => if !templateOk ty d && unchangedOk r o.view then some r else none
  | .strategy k, .strat k' => if k == k' && unchangedOk r o.view then some r else none
  | .loadDeffacts, .loaded true hs =>
    (refInserts r loadAllOps hs).bind (fun r' => if unchangedOk r' o.view then some r' else none)
  | .loadByName k, .loaded ok hs =>
    let ops := if k == 0 then (loadNamedPrefix deffacts).1 else []
    if ok != (k == 0 && (loadNamedPrefix deffacts).2) then none
    else (refInserts r ops hs).bind (fun r' => if unchangedOk r' o.view then some r' else none)
  | .resetDeffacts, .loaded true hs =>
    -- a new working memory: nothing of the old one is live, numbering restarts, the agenda (fired flags included) is cleared
    (refInserts {} loadAllOps hs).bind (fun r' => if unchangedOk r' o.view then some r' else none)
  | _, _ => none

/-- the counting twins: `stats()` after the call against the reference working memory after the call -/
def statsOk (rules : List Rule) (r : Ref) (st : List Nat) : Bool :=
  match st with
  | [nr, total, active, retracted, _types, deps] =>
    nr == rules.length && total + 1 == r.nextId && active == r.live.length && retracted + active == total &&
    deps == (dedup (rules.map (·.ty))).length
  | _ => false

def oxrun (base : List Rule → Ref → Op → Obs → Option Ref) (rules : List Rule) : Ref → List XOp → List XObs → Bool
  | _, [], [] => true
  | r, x :: xs, o :: os =>
    match oxstep base rules r x o with
    | some r' => statsOk rules r' o.stats && oxrun base rules r' xs os
    | none => false
  | _, _, _ => false

/-- clause `action_write_lost` on extended histories (as `writeBackBad`) -/
def xwriteBackBad (rules : List Rule) : Nat → Ref → List XOp → List XObs → Option String
  | i, r, x :: xs, o :: os =>
    match oxstep ostep rules r x o with
    | some r' =>
      let bad := match x, o.res with
        | .base .fire, .res (.fired _ log) => !writesOk rules o.view.contents r.live log
        | _, _ => false
      if bad then some ("action_write_lost@" ++ toString i) else xwriteBackBad rules (i + 1) r' xs os
    | none => none
  | _, _, _, _ => none

end C06
