import RreModel.C06.Lemmas
/-
C06 — property theorems (only).  "RETE engine fires a rule exactly for live facts that satisfy it."
Histories are arbitrary lists of insert / update / retract / fire_all / reset (any length, any handles, any data),
rule sets are arbitrary lists of single-type rules of the typed core (any node, any assignments, retract or not).
-/
namespace C06
open C07 (Act Agenda)

/-- **handles_fresh** (one call): `insert` returns `next_id` and advances it. -/
theorem handles_fresh (w : WM) (ty : Nat) (d : Data) :
    (w.insert ty d).2 = w.nextId ∧ (w.insert ty d).1.nextId = w.nextId + 1 := ⟨rfl, rfl⟩

/-- **handles_fresh** (histories): after any history, the handle the next `insert` returns is larger than the handle
of every fact ever inserted (retracted facts included — they stay in the map), so no handle is ever reused; and
`next_id` never decreases along a history. -/
theorem handles_fresh_history (rules : List Rule) (ops ops' : List Op) (ty : Nat) (d : Data) :
    let e := ({ rules := rules } : Engine).run ops
    (∀ f ∈ e.wm.facts, f.handle < (e.insert ty d).2) ∧ e.wm.nextId ≤ (e.run ops').wm.nextId := by
  intro e
  constructor
  · have : HInv e.wm := run_pres hinv_pres ops _ (by intro f hf; simp at hf)
    intro f hf
    exact this f hf
  · exact run_pres (nextId_mono_pres e.wm.nextId) ops' e (Nat.le_refl _)

/-- **retracted_never_fires** (loop body): when an activation leads to a firing, its matched handle is live
(`get` finds it: inserted and not retracted) at that moment. -/
theorem retracted_never_fires (e e' : Engine) (a : Act) (x : Firing) (h : e.fireOne a = (e', some x)) :
    a.handle = some x.handle ∧ (e.wm.get x.handle).isSome = true := by
  obtain ⟨_, f, _, _, h3, h4, _, _⟩ := fireOne_valid e e' a x h
  exact ⟨h3, by simp [h4]⟩

/-- **fires_only_if_true_now** (loop body, with fix-C06): when an activation leads to a firing, the rule's node
evaluates to true on the matched fact's *current* contents, which are the contents the action sees. -/
theorem fires_only_if_true_now (e e' : Engine) (a : Act) (x : Firing) (h : e.fireOne a = (e', some x)) :
    ∃ rule f, e.rules.find? (·.name == a.rule) = some rule ∧ x.rule = rule.name ∧ e.wm.get x.handle = some f ∧
      x.data = f.data ∧ rule.node.eval f.ty f.data = true := by
  obtain ⟨rule, f, h1, h2, _, h4, h5, h6⟩ := fireOne_valid e e' a x h
  exact ⟨rule, f, h1, h2, h4, h6, h5⟩

/-- … and so for **every firing of every `fire_all`**, whatever happened before and whatever earlier firings of the
same run did to working memory: at the engine state `e0` in which the firing happened the matched fact was live and
satisfied the rule. -/
theorem fire_all_firings_valid (e : Engine) : ∀ x ∈ e.fireAll.2,
    ∃ (e0 : Engine) (rule : Rule) (f : Fact), rule ∈ e0.rules ∧ x.rule = rule.name ∧ e0.wm.get x.handle = some f ∧
      f.retracted = false ∧ x.data = f.data ∧ rule.node.eval f.ty f.data = true := by
  refine fireLoop_firings (fun x => ∃ (e0 : Engine) (rule : Rule) (f : Fact), rule ∈ e0.rules ∧ x.rule = rule.name ∧
      e0.wm.get x.handle = some f ∧ f.retracted = false ∧ x.data = f.data ∧ rule.node.eval f.ty f.data = true)
    ?_ C07.incBound e [] (by simp)
  intro e0 e1 a x h
  obtain ⟨rule, f, h1, h2, _, h4, h5, h6⟩ := fireOne_valid e0 e1 a x h
  refine ⟨e0, rule, f, List.mem_of_find?_eq_some h1, h2, h4, ?_, h6, h5⟩
  unfold WM.get at h4
  cases hf : e0.wm.find x.handle with
  | none => simp [hf] at h4
  | some g =>
    simp only [hf] at h4
    cases hr : g.retracted with
    | true => simp [hr] at h4
    | false => simp only [hr] at h4; simp at h4; subst h4; exact hr

/-- **wm_views_agree** (invariant form): in a working memory satisfying the invariant, a handle is found by `get` iff it
is in `get_all_handles` iff its fact is in `get_all_facts` iff its fact is in `get_by_type` of its type iff it was
inserted and not retracted; and `get_by_type ty` returns facts of type `ty` only. -/
theorem wm_views_agree (w : WM) (hi : WMInv w) (h : Nat) :
    ((w.get h).isSome = true ↔ ∃ f ∈ w.facts, f.handle = h ∧ f.retracted = false) ∧
    (h ∈ w.getAllHandles ↔ ∃ f ∈ w.facts, f.handle = h ∧ f.retracted = false) ∧
    ((∃ f ∈ w.getAllFacts, f.handle = h) ↔ ∃ f ∈ w.facts, f.handle = h ∧ f.retracted = false) ∧
    ((∃ ty, ∃ f ∈ w.getByType ty, f.handle = h ∧ f.ty = ty) ↔ ∃ f ∈ w.facts, f.handle = h ∧ f.retracted = false) ∧
    (∀ ty, ∀ f ∈ w.getByType ty, f.ty = ty) := by
  refine ⟨get_isSome_iff hi h, getAllHandles_iff w h, ?_, ?_, ?_⟩
  · constructor
    · rintro ⟨f, hf, e1⟩; exact ⟨f, ((getAllFacts_iff w f).1 hf).1, e1, ((getAllFacts_iff w f).1 hf).2⟩
    · rintro ⟨f, hf, e1, e2⟩; exact ⟨f, (getAllFacts_iff w f).2 ⟨hf, e2⟩, e1⟩
  · constructor
    · rintro ⟨ty, f, hf, e1, _⟩
      obtain ⟨h1, _, h3⟩ := (getByType_iff hi ty f).1 hf
      exact ⟨f, h1, e1, h3⟩
    · rintro ⟨f, hf, e1, e2⟩
      exact ⟨f.ty, f, (getByType_iff hi f.ty f).2 ⟨hf, rfl, e2⟩, e1, rfl⟩
  · intro ty f hf; exact ((getByType_iff hi ty f).1 hf).2.1

/-- **wm_views_agree** (histories): the invariant holds after every history of engine operations from the empty
engine, for every rule set — including `fire_all` runs whose actions modify or retract facts. -/
theorem wm_views_agree_history (rules : List Rule) (ops : List Op) :
    WMInv (({ rules := rules } : Engine).run ops).wm :=
  run_pres wminv_pres ops _ wminv_init

/-- `fire_all` executes at most 1000 actions (C07's bound, for this engine's concrete loop). -/
theorem fire_all_bounded (e : Engine) : e.fireAll.2.length ≤ 1000 := by
  have := fireLoop_length C07.incBound e []
  simpa [Engine.fireAll, C07.incBound] using this

/-- **quiescent_fire_all_exact — full statement (NOT proved; evaluated by the oracle `exactOk` on every applicable run).**
For rule sets whose actions leave working memory unchanged and whose rules are all no-loop, in a state reached by a
history after whose last `fire_all` every live fact was inserted or updated and no rule fired since the last reset,
`fire_all` fires every rule satisfied by a live fact of its type exactly once, and fires no rule that no live fact
satisfies. -/
def quiescent_fire_all_exact_full : Prop :=
  ∀ (rules : List Rule) (ops touch : List Op),
    quietRules rules = true → (rules.map (·.name)).Nodup →
    (∀ o ∈ touch, ∃ h d, o = .update h d ∨ ∃ ty, o = .insert ty d) →
    let e0 := (({ rules := rules } : Engine).run (ops ++ [.fire, .reset])).run touch
    (∀ f ∈ e0.wm.getAllFacts, ∃ o ∈ touch, o = .update f.handle f.data ∨ o = .insert f.ty f.data) →
    e0.ag.acts.length + rules.length * (rules.length * e0.wm.getAllFacts.length) ≤ 1000 →
    let fired := e0.fireAll.2.map (·.rule)
    fired.Nodup ∧
    ∀ r ∈ rules, (r.name ∈ fired ↔ ∃ f ∈ e0.wm.getAllFacts, r.node.eval f.ty f.data = true ∧
      (f.ty = r.ty ∨ ∃ r' ∈ rules, ∃ f' ∈ e0.wm.getAllFacts, f'.ty = r'.ty ∧ r'.node.eval f'.ty f'.data = true))

/-! Non-vacuity, and the defect in proof form. -/
def adult : Rule := { name := 0, ty := 0, node := .alpha 0 0 .gt (.lit (.int 18)), prio := 0, noLoop := true }

/-- F-C06's history on the model of the fixed code: insert age=25, update age=15, fire_all — nothing fires -/
example : ((({ rules := [adult] } : Engine).run [.insert 0 [(0, .int 25)], .update 1 [(0, .int 15)]]).fireAll).2 = [] := by
  decide +kernel
/-- … and without the update the rule fires once, seeing age=25 -/
example : ((({ rules := [adult] } : Engine).run [.insert 0 [(0, .int 25)]]).fireAll).2 =
    [{ rule := 0, handle := 1, data := [(0, .int 25)] }] := by decide +kernel
/-- a retracted fact does not fire; the next insert gets a new handle -/
example : ((({ rules := [adult] } : Engine).run [.insert 0 [(0, .int 25)], .retract 1, .insert 0 [(0, .int 30)]]).fireAll).2.map (·.handle) = [2] := by
  decide +kernel

end C06
