import RreModel.C06.Lemmas
import RreModel.C06.Exact
import RreModel.C06.Writes
/-
C06 — property theorems (only).  "RETE engine fires a rule exactly for live facts that satisfy it."
Histories are arbitrary lists of insert / update / retract / fire_all / reset (any length, any handles, any data),
rule sets are arbitrary lists of single-type rules of the typed core (any node, any assignments, retract or not).
-/
namespace C06
open C07 (Act Agenda)

/-- **handles_fresh** (one call): `insert` returns `next_id` and advances it. -/
theorem handles_fresh (w : WM) (ty : Nat) (d : Data) :
    (w.insert ty d).2 = w.nextId ∧ (w.insert ty d).1.nextId = w.nextId + 1 := ⟨rfl, rfl⟩

/-- **handles_fresh** (histories): after any history, the handle the next `insert` returns is larger than the handle
of every fact ever inserted (retracted facts included — they stay in the map), so no handle is ever reused; and
`next_id` never decreases along a history. -/
theorem handles_fresh_history (rules : List Rule) (ops ops' : List Op) (ty : Nat) (d : Data) :
    let e := ({ rules := rules } : Engine).run ops
    (∀ f ∈ e.wm.facts, f.handle < (e.insert ty d).2) ∧ e.wm.nextId ≤ (e.run ops').wm.nextId := by
  intro e
  constructor
  · have : HInv e.wm := run_pres hinv_pres ops _ (by intro f hf; simp at hf)
    intro f hf
    exact this f hf
  · exact run_pres (nextId_mono_pres e.wm.nextId) ops' e (Nat.le_refl _)

/-- **retracted_never_fires** (loop body): when an activation leads to a firing, its matched handle is live
(`get` finds it: inserted and not retracted) at that moment. -/
theorem retracted_never_fires (e e' : Engine) (a : Act) (x : Firing) (h : e.fireOne a = (e', some x)) :
    a.handle = some x.handle ∧ (e.wm.get x.handle).isSome = true := by
  obtain ⟨_, f, _, _, h3, h4, _, _⟩ := fireOne_valid e e' a x h
  exact ⟨h3, by simp [h4]⟩

/-- **fires_only_if_true_now** (loop body, with fix-C06): when an activation leads to a firing, the rule's node
evaluates to true on the matched fact's *current* contents, which are the contents the action sees. -/
theorem fires_only_if_true_now (e e' : Engine) (a : Act) (x : Firing) (h : e.fireOne a = (e', some x)) :
    ∃ rule f, e.rules.find? (·.name == a.rule) = some rule ∧ x.rule = rule.name ∧ e.wm.get x.handle = some f ∧
      x.data = f.data ∧ rule.node.eval f.ty f.data = true := by
  obtain ⟨rule, f, h1, h2, _, h4, h5, h6⟩ := fireOne_valid e e' a x h
  exact ⟨rule, f, h1, h2, h4, h6, h5⟩

/-- … and so for **every firing of every `fire_all`**, whatever happened before and whatever earlier firings of the
same run did to working memory: at the engine state `e0` in which the firing happened the matched fact was live and
satisfied the rule. -/
theorem fire_all_firings_valid (e : Engine) : ∀ x ∈ e.fireAll.2,
    ∃ (e0 : Engine) (rule : Rule) (f : Fact), rule ∈ e0.rules ∧ x.rule = rule.name ∧ e0.wm.get x.handle = some f ∧
      f.retracted = false ∧ x.data = f.data ∧ rule.node.eval f.ty f.data = true := by
  refine fireLoop_firings (fun x => ∃ (e0 : Engine) (rule : Rule) (f : Fact), rule ∈ e0.rules ∧ x.rule = rule.name ∧
      e0.wm.get x.handle = some f ∧ f.retracted = false ∧ x.data = f.data ∧ rule.node.eval f.ty f.data = true)
    ?_ C07.incBound e [] (by simp)
  intro e0 e1 a x h
  obtain ⟨rule, f, h1, h2, _, h4, h5, h6⟩ := fireOne_valid e0 e1 a x h
  refine ⟨e0, rule, f, List.mem_of_find?_eq_some h1, h2, h4, ?_, h6, h5⟩
  unfold WM.get at h4
  cases hf : e0.wm.find x.handle with
  | none => simp [hf] at h4
  | some g =>
    simp only [hf] at h4
    cases hr : g.retracted with
    | true => simp [hr] at h4
    | false => simp only [hr] at h4; simp at h4; subst h4; exact hr

/-- **wm_views_agree** (invariant form): in a working memory satisfying the invariant, a handle is found by `get` iff it
is in `get_all_handles` iff its fact is in `get_all_facts` iff its fact is in `get_by_type` of its type iff it was
inserted and not retracted; and `get_by_type ty` returns facts of type `ty` only. -/
theorem wm_views_agree (w : WM) (hi : WMInv w) (h : Nat) :
    ((w.get h).isSome = true ↔ ∃ f ∈ w.facts, f.handle = h ∧ f.retracted = false) ∧
    (h ∈ w.getAllHandles ↔ ∃ f ∈ w.facts, f.handle = h ∧ f.retracted = false) ∧
    ((∃ f ∈ w.getAllFacts, f.handle = h) ↔ ∃ f ∈ w.facts, f.handle = h ∧ f.retracted = false) ∧
    ((∃ ty, ∃ f ∈ w.getByType ty, f.handle = h ∧ f.ty = ty) ↔ ∃ f ∈ w.facts, f.handle = h ∧ f.retracted = false) ∧
    (∀ ty, ∀ f ∈ w.getByType ty, f.ty = ty) := by
  refine ⟨get_isSome_iff hi h, getAllHandles_iff w h, ?_, ?_, ?_⟩
  · constructor
    · rintro ⟨f, hf, e1⟩; exact ⟨f, ((getAllFacts_iff w f).1 hf).1, e1, ((getAllFacts_iff w f).1 hf).2⟩
    · rintro ⟨f, hf, e1, e2⟩; exact ⟨f, (getAllFacts_iff w f).2 ⟨hf, e2⟩, e1⟩
  · constructor
    · rintro ⟨ty, f, hf, e1, _⟩
      obtain ⟨h1, _, h3⟩ := (getByType_iff hi ty f).1 hf
      exact ⟨f, h1, e1, h3⟩
    · rintro ⟨f, hf, e1, e2⟩
      exact ⟨f.ty, f, (getByType_iff hi f.ty f).2 ⟨hf, rfl, e2⟩, e1, rfl⟩
  · intro ty f hf; exact ((getByType_iff hi ty f).1 hf).2.1

/-- **wm_views_agree** (histories): the invariant holds after every history of engine operations from the empty
engine, for every rule set — including `fire_all` runs whose actions modify or retract facts. -/
theorem wm_views_agree_history (rules : List Rule) (ops : List Op) :
    WMInv (({ rules := rules } : Engine).run ops).wm :=
  run_pres wminv_pres ops _ wminv_init

/-- `fire_all` executes at most 1000 actions (C07's bound, for this engine's concrete loop; after fix-C06b only executed
activations are counted). -/
theorem fire_all_bounded (e : Engine) : e.fireAll.2.length ≤ 1000 := by
  have := fireLoop_length C07.incBound e []
  simpa [Engine.fireAll, C07.incBound] using this

/-- … and the skipped (retracted / stale) activations, which are not counted, cannot keep the loop running: every pop removes
an activation, so the skipping steps run with any fuel of at least the number of pending activations give the same result as
with exactly that number — the fuel of the inner loop of the model is never what stops it. -/
theorem fire_all_skips_terminate (e : Engine) (k : Nat) (h : e.ag.acts.length ≤ k) :
    C07.incSkip firePop Engine.skips k e = C07.incSkip firePop Engine.skips e.ag.acts.length e := by
  apply C07.incSkip_fuel firePop Engine.skips (fun e => e.ag.acts.length) _ _ k e h
  · intro s a s' hp
    simp only [firePop, Prod.mk.injEq] at hp
    obtain ⟨h1, h2⟩ := hp
    subst h2
    exact ((C07.getNext_spec s.ag).some_ a h1).2.2.2.2.2.2
  · intro s hs
    have hnil : s.ag.acts = [] := List.eq_nil_of_length_eq_zero hs
    simp only [firePop]
    cases hn : s.ag.getNext.1 with
    | none => rfl
    | some a =>
      have := ((C07.getNext_spec s.ag).some_ a hn).2.1
      rw [hnil] at this; simp at this

/-- the exactness clause for the loop of `fire_all` run with an arbitrary iteration bound `B` (the code: `B = 1000`), under the
hypothesis that the rules fit into the bound — see `quiescent_fire_all_exact` for the reading -/
theorem quiescent_fire_all_exact_bound (B : Nat) (rules : List Rule) (ops touch : List Op)
    (hq : quietRules rules = true) (hn : (rules.map (·.name)).Nodup)
    (hwf : ∀ o ∈ ops ++ touch, o.WF) (ht : ∀ o ∈ touch, o ≠ .fire) :
    let e1 := ({ rules := rules } : Engine).run ops
    let e0 := e1.run touch
    (∀ f ∈ e0.wm.getAllFacts, e1.wm.nextId ≤ f.handle ∨ ∃ d, Op.update f.handle d ∈ touch) →
    rules.length ≤ B →
    let res := fireLoop B e0 []
    let fired := res.2.map (·.rule)
    fired.Nodup ∧
    (∀ n ∈ fired, n ∉ e0.ag.fired) ∧
    (∀ r ∈ rules, r.name ∉ e0.ag.fired →
      (∃ f ∈ e0.wm.getAllFacts, f.ty = r.ty ∧ r.node.eval f.ty f.data = true) → r.name ∈ fired) ∧
    (∀ x ∈ res.2, ∃ r ∈ rules, ∃ f ∈ e0.wm.getAllFacts, x.rule = r.name ∧ x.handle = f.handle ∧ x.data = f.data ∧
      f.ty = r.ty ∧ r.node.eval f.ty f.data = true) ∧
    res.1.wm = e0.wm ∧ res.1.ag.acts = [] := by
  intro e1 e0 hfresh hbound res fired
  have hQ := quiet_of hq
  have hinv1 : Inv rules e1 :=
    inv_run hQ ops _ (fun o ho => hwf o (List.mem_append.2 (Or.inl ho))) (inv_init rules)
  have hinv0 : Inv rules e0 := inv_run hQ touch _ (fun o ho => hwf o (List.mem_append.2 (Or.inr ho))) hinv1
  have hc : Compl (fun h => False ∨ e1.wm.nextId ≤ h ∨ ∃ d, Op.update h d ∈ touch) e0 :=
    compl_run hQ touch (fun _ => False) e1 (fun o ho => ⟨ht o ho, hwf o (List.mem_append.2 (Or.inr ho))⟩) hinv1
      (fun _ _ _ _ hS => absurd hS id)
  obtain ⟨new, h1, P⟩ := fireLoop_exact rules e0.wm hQ hn hinv0.wm hinv0.data B e0 [] rfl hinv0.rules_eq hinv0.ag hinv0.typed (by
    have h3 : unfired rules e0.ag.fired ≤ rules.length := List.length_filter_le _ _
    omega)
  have hnew : res.2 = new := by simpa using h1
  have hfired : fired = new.map (·.rule) := by simp only [fired, hnew]
  refine ⟨by rw [hfired]; exact P.nodup, ?_, ?_, by rw [hnew]; exact P.validf, P.wm, P.drained⟩
  · intro n hn'
    rw [hfired] at hn'
    obtain ⟨x, hx, rfl⟩ := List.mem_map.1 hn'
    exact P.fresh x hx
  · intro r hr hnf ⟨f, hf, hty, hev⟩
    have hact := hc r (by rw [hinv0.rules_eq]; exact hr) f hf (Or.inr (hfresh f hf)) hty hev
    rcases (P.fired_iff r.name).1 (P.cover r hr f hf hev hact) with h | h
    · exact absurd h hnf
    · rw [hfired]; exact h

/-- **quiescent_fire_all_exact.**  "When actions leave working memory unchanged, fire_all fires every no-loop rule that some live
fact satisfies exactly once and fires no other rule."

Rule set: any list of single-type rules that are all no-loop and whose actions neither assign nor retract (`quietRules`), with
distinct names.  History: rules are loaded first; then `ops` — ANY calls, of any number (insert / update / retract / reset and
also earlier `fire_all` calls, even ones that ran into the iteration bound); then `touch` — any calls except `fire_all`
(insert / update / retract / reset) — such that every fact that is live at the end was inserted or updated during `touch`
(scope of the clause, DESIGN §6 C06: activations are created by propagation only).  Then, provided there are at most
`max_iterations = 1000` rules (after fix-C06b only executed activations are counted, and a no-loop rule is executed at most once;
however many stale or duplicate activations are pending), the `fire_all` that follows
  * fires no rule twice (`Nodup`) and no rule that already fired since the last `reset` (`e0.ag.fired`, the `fired_rules` set),
  * fires EVERY rule that has not fired since the last `reset` and whose node is true on the current contents of some live fact
    of the rule's type,
  * fires NO OTHER rule: each firing's matched fact is live, has the rule's type (fix-C06c) and the rule's node is true on its
    current contents, which are the contents the action sees,
  * leaves working memory unchanged and the agenda empty.
Contents written by insert/update are maps (one binding per field, as `TypedFacts` is a `HashMap`): `Op.WF`. -/
theorem quiescent_fire_all_exact (rules : List Rule) (ops touch : List Op)
    (hq : quietRules rules = true) (hn : (rules.map (·.name)).Nodup)
    (hwf : ∀ o ∈ ops ++ touch, o.WF) (ht : ∀ o ∈ touch, o ≠ .fire) :
    let e1 := ({ rules := rules } : Engine).run ops
    let e0 := e1.run touch
    (∀ f ∈ e0.wm.getAllFacts, e1.wm.nextId ≤ f.handle ∨ ∃ d, Op.update f.handle d ∈ touch) →
    rules.length ≤ 1000 →
    let fired := e0.fireAll.2.map (·.rule)
    fired.Nodup ∧
    (∀ n ∈ fired, n ∉ e0.ag.fired) ∧
    (∀ r ∈ rules, r.name ∉ e0.ag.fired →
      (∃ f ∈ e0.wm.getAllFacts, f.ty = r.ty ∧ r.node.eval f.ty f.data = true) → r.name ∈ fired) ∧
    (∀ x ∈ e0.fireAll.2, ∃ r ∈ rules, ∃ f ∈ e0.wm.getAllFacts, x.rule = r.name ∧ x.handle = f.handle ∧ x.data = f.data ∧
      f.ty = r.ty ∧ r.node.eval f.ty f.data = true) ∧
    e0.fireAll.1.wm = e0.wm ∧ e0.fireAll.1.ag.acts = [] :=
  quiescent_fire_all_exact_bound 1000 rules ops touch hq hn hwf ht

/-- the clause below for the loop run with an arbitrary iteration bound `B` (the code: `B = 1000`) -/
theorem quiescent_fire_all_exact_after_firing_bound (B : Nat) (rules : List Rule) (ops : List Op)
    (hq : quietRules rules = true) (hn : (rules.map (·.name)).Nodup) (hwf : ∀ o ∈ ops, o.WF) (hb : rules.length ≤ B) :
    let e0 := ({ rules := rules } : Engine).run ops
    let fired := (fireLoop B e0 []).2.map (·.rule)
    fired ≠ [] →
    ∀ r ∈ rules, r.name ∉ e0.ag.fired →
      (∃ f ∈ e0.wm.getAllFacts, f.ty = r.ty ∧ r.node.eval f.ty f.data = true) → r.name ∈ fired := by
  intro e0 fired hne r hr hnf ⟨f, hf, hty, hev⟩
  have hQ := quiet_of hq
  have hinv0 : Inv rules e0 := inv_run hQ ops _ hwf (inv_init rules)
  obtain ⟨new, h1, P⟩ := fireLoop_exact rules e0.wm hQ hn hinv0.wm hinv0.data B e0 [] rfl hinv0.rules_eq hinv0.ag hinv0.typed (by
    have h3 : unfired rules e0.ag.fired ≤ rules.length := List.length_filter_le _ _
    omega)
  have hnew : (fireLoop B e0 []).2 = new := by simpa using h1
  have hfired : fired = new.map (·.rule) := by simp only [fired, hnew]
  have hnn : new ≠ [] := by
    intro h; apply hne; rw [hfired, h]; rfl
  rcases (P.fired_iff r.name).1 (P.after hnn r hr f hf hty hev) with h | h
  · exact absurd h hnf
  · rw [hfired]; exact h

/-- **quiescent_fire_all_exact, for every `fire_all` call that fires anything.**  The freshness hypothesis of
`quiescent_fire_all_exact` (every live fact inserted or updated since the last `fire_all`) is only needed to get the FIRST
activation: activations are created by propagation, and `reset` creates none.  Once one rule has fired, the engine re-evaluates
every rule that has not fired since the last `reset` on every live fact of its type (`propagate_changes`), so — for quiet rule
sets with distinct names, at most 1000 of them, after ANY history `ops` (earlier `fire_all` calls and resets included, facts of
other types inserted long ago, …) — a `fire_all` call that fires at least one rule fires EVERY rule that has not fired since the
last `reset` and whose node is true on the current contents of some live fact of its type.  ("No rule twice, no other rule" hold
for every call: `fire_all_firings_valid` and the `Nodup` part of `quiescent_fire_all_exact`.) -/
theorem quiescent_fire_all_exact_after_firing (rules : List Rule) (ops : List Op)
    (hq : quietRules rules = true) (hn : (rules.map (·.name)).Nodup) (hwf : ∀ o ∈ ops, o.WF) (hb : rules.length ≤ 1000) :
    let e0 := ({ rules := rules } : Engine).run ops
    let fired := e0.fireAll.2.map (·.rule)
    fired ≠ [] →
    ∀ r ∈ rules, r.name ∉ e0.ag.fired →
      (∃ f ∈ e0.wm.getAllFacts, f.ty = r.ty ∧ r.node.eval f.ty f.data = true) → r.name ∈ fired :=
  quiescent_fire_all_exact_after_firing_bound 1000 rules ops hq hn hwf hb

/-- **quiescent_fire_all_exact, as an equivalence** for the histories in which the last `reset` (or the creation of the engine)
comes after the last `fire_all` (so that no rule has fired since the last reset): the rules `fire_all` fires are exactly — and
each exactly once — the rules whose node is true on the current contents of some live fact of the rule's type.
(Before fix-C06c this needed the extra hypothesis that no node is true on a fact of a foreign type: the re-propagation inside
`fire_all` evaluated every rule on the facts of every type, and `!(T.x > 5)` is true when `T.x` is missing.) -/
theorem quiescent_fire_all_exact_iff (rules : List Rule) (ops touch : List Op)
    (hq : quietRules rules = true) (hn : (rules.map (·.name)).Nodup)
    (hwf : ∀ o ∈ ops ++ touch, o.WF) (ht : ∀ o ∈ touch, o ≠ .fire) :
    let e1 := (({ rules := rules } : Engine).run ops).reset
    let e0 := e1.run touch
    (∀ f ∈ e0.wm.getAllFacts, e1.wm.nextId ≤ f.handle ∨ ∃ d, Op.update f.handle d ∈ touch) →
    rules.length ≤ 1000 →
    let fired := e0.fireAll.2.map (·.rule)
    fired.Nodup ∧
    ∀ r ∈ rules, (r.name ∈ fired ↔ ∃ f ∈ e0.wm.getAllFacts, f.ty = r.ty ∧ r.node.eval f.ty f.data = true) := by
  intro e1 e0 hfresh hbound fired
  have hQ := quiet_of hq
  have he1 : e1 = ({ rules := rules } : Engine).run (ops ++ [.reset]) := by rw [run_append]; rfl
  have hwf' : ∀ o ∈ (ops ++ [.reset]) ++ touch, o.WF := by
    intro o ho
    rcases List.mem_append.1 ho with h | h
    · rcases List.mem_append.1 h with h | h
      · exact hwf o (List.mem_append.2 (Or.inl h))
      · simp only [List.mem_singleton] at h; subst h; exact trivial
    · exact hwf o (List.mem_append.2 (Or.inr h))
  have hinv1 : Inv rules e1 := by
    rw [he1]; exact inv_run hQ _ _ (fun o ho => hwf' o (List.mem_append.2 (Or.inl ho))) (inv_init rules)
  have hnil : e0.ag.fired = [] :=
    fired_run_nil hQ touch e1 (fun o ho => ⟨ht o ho, hwf o (List.mem_append.2 (Or.inr ho))⟩) hinv1 rfl
  have main := quiescent_fire_all_exact rules (ops ++ [.reset]) touch hq hn hwf' ht
  simp only [← he1] at main
  obtain ⟨m1, _, m3, m4, _, _⟩ := main hfresh hbound
  refine ⟨m1, ?_⟩
  intro r hr
  constructor
  · intro hf
    obtain ⟨x, hx, hxr⟩ := List.mem_map.1 hf
    obtain ⟨r', hr', f, hfl, h1, _, _, h3, h4⟩ := m4 x hx
    have : r' = r := by
      have h5 := find_rule_of_mem rules r' hn hr'
      have h6 := find_rule_of_mem rules r hn hr
      rw [← h1, hxr] at h5
      rw [h6] at h5
      simpa using h5.symm
    subst this
    exact ⟨f, hfl, h3, h4⟩
  · rintro ⟨f, hfl, hty, hev⟩
    exact m3 r hr (by rw [hnil]; simp) ⟨f, hfl, hty, hev⟩

/-- the exactness clause for the loop run with bound `B` WITHOUT the size hypothesis (`fire_all` is `B = 1000`) -/
def quiescent_fire_all_exact_no_size_hypothesis (B : Nat) : Prop :=
  ∀ (rules : List Rule) (ops touch : List Op),
    quietRules rules = true → (rules.map (·.name)).Nodup → (∀ o ∈ ops ++ touch, o.WF) → (∀ o ∈ touch, o ≠ .fire) →
    let e1 := ({ rules := rules } : Engine).run ops
    let e0 := e1.run touch
    (∀ f ∈ e0.wm.getAllFacts, e1.wm.nextId ≤ f.handle ∨ ∃ d, Op.update f.handle d ∈ touch) →
    ∀ r ∈ rules, r.name ∉ e0.ag.fired →
      (∃ f ∈ e0.wm.getAllFacts, f.ty = r.ty ∧ r.node.eval f.ty f.data = true) → r.name ∈ (fireLoop B e0 []).2.map (·.rule)

def adult : Rule := { name := 0, ty := 0, node := .alpha 0 0 .gt (.lit (.int 18)), prio := 0, noLoop := true }
def grownUp : Rule := { name := 1, ty := 0, node := .alpha 0 0 .ge (.lit (.int 21)), prio := 0, noLoop := true }

/-- **a size hypothesis is still needed** (the bound itself): with more satisfied rules than executions allowed, the last ones do
not fire — two rules, one fact that satisfies both, bound 1.  (For `fire_all` this takes more than 1000 satisfied rules.) -/
theorem quiescent_fire_all_exact_no_size_hypothesis_counterexample : ¬ quiescent_fire_all_exact_no_size_hypothesis 1 := by
  intro h
  have hfacts : ((({ rules := [adult, grownUp] } : Engine).run []).run [.insert 0 [(0, .int 25)]]).wm.getAllFacts =
      [{ handle := 1, ty := 0, data := [(0, .int 25)] }] := by decide +kernel
  have := h [adult, grownUp] [] [.insert 0 [(0, .int 25)]] (by decide) (by decide) (by decide) (by decide)
    (by
      intro f hf
      rw [hfacts] at hf
      simp only [List.mem_singleton] at hf
      subst hf
      exact Or.inl (by decide))
    grownUp (by simp) (by decide +kernel) (by rw [hfacts]; exact ⟨_, List.mem_singleton.2 rfl, by decide⟩)
  revert this
  decide +kernel

/-- `B + 1` activations of fact 1 (one insert, `B` updates), fact 1 retracted, a second adult inserted: the stale activations
are older, so they are popped first -/
def staleHistory (B : Nat) : List Op :=
  [.insert 0 [(0, .int 25)]] ++ List.replicate B (.update 1 [(0, .int 25)]) ++ [.retract 1, .insert 0 [(0, .int 30)]]

/-- F-C06b's history shape on the model of the fixed code: more stale activations than the bound no longer starve the live
fact's activation (before fix-C06b the loop with bound 3 returned `[]` here, and `fire_all` returned `[]` on `staleHistory 1000`,
see corpus/C06) -/
example : (fireLoop 3 (({ rules := [adult] } : Engine).run (staleHistory 3)) []).2.map (fun x => (x.rule, x.handle)) = [(0, 2)] := by
  decide +kernel
example : ((({ rules := [adult] } : Engine).run (staleHistory 40)).fireAll).2.map (fun x => (x.rule, x.handle)) = [(0, 2)] := by
  decide +kernel

/-! Non-vacuity, and the defect in proof form. -/

/-- F-C06c's history on the model of the fixed code: `!(T0.f0 > 18)` is vacuously true on the T1 fact, but the rule depends on T0
only, so after `adult` has fired the re-propagation no longer matches it against the T1 fact (the unfixed code fired both) -/
example : ((({ rules := [adult, { name := 1, ty := 0, node := .not (.alpha 0 0 .gt (.lit (.int 18))), prio := 0, noLoop := true }] } : Engine).run
    [.insert 0 [(0, .int 25)], .insert 1 [(0, .int 1)]]).fireAll).2.map (·.rule) = [0] := by decide +kernel

/-- F-C06's history on the model of the fixed code: insert age=25, update age=15, fire_all — nothing fires -/
example : ((({ rules := [adult] } : Engine).run [.insert 0 [(0, .int 25)], .update 1 [(0, .int 15)]]).fireAll).2 = [] := by
  decide +kernel
/-- … and without the update the rule fires once, seeing age=25 -/
example : ((({ rules := [adult] } : Engine).run [.insert 0 [(0, .int 25)]]).fireAll).2 =
    [{ rule := 0, handle := 1, data := [(0, .int 25)] }] := by decide +kernel
/-- a retracted fact does not fire; the next insert gets a new handle -/
example : ((({ rules := [adult] } : Engine).run [.insert 0 [(0, .int 25)], .retract 1, .insert 0 [(0, .int 30)]]).fireAll).2.map (·.handle) = [2] := by
  decide +kernel

/-! Non-vacuity of `quiescent_fire_all_exact` / `_iff`: a history with an earlier `fire_all`, a `reset`, an update that turns the
fact from an adult into a minor, a fact of a type no rule depends on, and a fact that is retracted again.  It meets every
hypothesis (4 pending activations, one of them stale); `fire_all` fires `minor` once and nothing else. -/
def minor : Rule := { name := 1, ty := 0, node := .alpha 0 0 .le (.lit (.int 18)), prio := 0, noLoop := true }
def exOps : List Op := [.insert 0 [(0, .int 25)], .fire]
def exTouch : List Op := [.update 1 [(0, .int 15)], .insert 1 [(1, .bool true)], .insert 0 [(0, .int 30)], .retract 3]

example :
    let e1 := (({ rules := [adult, minor] } : Engine).run exOps).reset
    let e0 := e1.run exTouch
    quietRules [adult, minor] = true ∧ ([adult, minor].map (·.name)).Nodup ∧ (∀ o ∈ exOps ++ exTouch, o.WF) ∧
    (∀ o ∈ exTouch, o ≠ .fire) ∧
    (∀ f ∈ e0.wm.getAllFacts, e1.wm.nextId ≤ f.handle ∨ ∃ d, Op.update f.handle d ∈ exTouch) ∧
    e0.ag.acts.length = 4 ∧ e0.wm.getAllHandles = [1, 2] ∧
    (({ rules := [adult, minor] } : Engine).run exOps).ag.fired = [0] ∧ e0.fireAll.2.map (·.rule) = [1] := by
  intro e1 e0
  have hfacts : e0.wm.getAllFacts = [{ handle := 1, ty := 0, data := [(0, .int 15)] }, { handle := 2, ty := 1, data := [(1, .bool true)] }] := by
    decide +kernel
  refine ⟨by decide, by decide, by decide, by decide, ?_, by decide +kernel, by decide +kernel, by decide +kernel, by decide +kernel⟩
  · intro f hf
    rw [hfacts] at hf
    simp only [List.mem_cons, List.not_mem_nil, or_false] at hf
    rcases hf with rfl | rfl
    · exact Or.inr ⟨[(0, .int 15)], by simp [exTouch]⟩
    · exact Or.inl (by decide +kernel)

/-! ### the loader path (`GrlReteLoader`) -/

/-- **the loader builds the node that was written**: a condition whose float literals all have a fractional part comes out of
`loaderNode` (GRL text → `convert_condition_group`) unchanged, so the rule loaded from GRL is the rule built directly. -/
theorem loader_exact_on_grl_literals (n : Node) (h : n.grlExact = true) : loaderNode n = n := by
  induction n with
  | alpha ty f op rhs =>
    cases rhs with
    | lit v =>
      cases v with
      | flt t =>
        simp only [Node.grlExact, Val.grlExact, bne_iff_ne, ne_eq] at h
        simp [loaderNode, loaderVal, h]
      | _ => rfl
    | var t2 f2 => rfl
    | arr vs =>
      simp only [Node.grlExact, List.all_eq_true] at h
      have : vs.map loaderVal = vs := by
        induction vs with
        | nil => rfl
        | cons v vs ih =>
          have hv := h v (by simp)
          have hvs := ih (fun x hx => h x (by simp [hx]))
          cases v with
          | flt t =>
            simp only [Val.grlExact, bne_iff_ne, ne_eq] at hv
            simp [loaderVal, hv, hvs]
          | _ => simp [loaderVal, hvs]
      simp [loaderNode, this]
  | and l r ihl ihr =>
    simp only [Node.grlExact, Bool.and_eq_true] at h
    simp [loaderNode, ihl h.1, ihr h.2]
  | or l r ihl ihr =>
    simp only [Node.grlExact, Bool.and_eq_true] at h
    simp [loaderNode, ihl h.1, ihr h.2]
  | not n ih =>
    simp only [Node.grlExact] at h
    simp [loaderNode, ih h]
  | test e op rhs => rfl

/-- **a negation stays a negation**: the loaded node of `!(c)` is true exactly when the loaded node of `c` is false — in
particular `!(T.f <op> x)` is TRUE of a fact in which `T.f` is absent (the comparison is false there, whatever the operator;
the complementary comparison would be false as well). -/
theorem loader_negation_kept (n : Node) (ty : Nat) (d : Data) :
    (loaderNode (.not n)).eval ty d = !(loaderNode n).eval ty d := rfl

theorem loader_negated_comparison_on_absent_field (ty f : Nat) (op : Cmp) (rhs : Rhs) (d : Data) (h : d.get f = none) :
    (loaderNode (.not (.alpha ty f op rhs))).eval ty d = true := by
  cases rhs <;> simp [loaderNode, Node.eval, h]

/-- non-vacuity: `!(T0.f0 > 5)` on a fact without `f0`, with `f0 = null`, with a non-numeric string, and with 9 -/
example : (loaderNode (.not (.alpha 0 0 .gt (.lit (.int 5))))).eval 0 [(1, .int 3)] = true := by decide
example : (loaderNode (.not (.alpha 0 0 .gt (.lit (.int 5))))).eval 0 [(0, .null)] = true := by decide
example : (loaderNode (.not (.alpha 0 0 .gt (.lit (.int 5))))).eval 0 [(0, .str 1)] = true := by decide
example : (loaderNode (.not (.alpha 0 0 .gt (.lit (.int 5))))).eval 0 [(0, .int 9)] = false := by decide
/-- the one literal the round trip changes: 15.0 comes back as the integer 15 (`==` is structural) -/
example : loaderNode (.alpha 0 0 .eq (.lit (.flt 30))) = .alpha 0 0 .eq (.lit (.int 15)) := by decide

/-- non-vacuity (the history of seeded change C06-6): Customer rule, Order rule; insert a customer, fire_all, reset, insert an
order, fire_all — the customer was not touched since the last fire_all, yet both rules fire, because `bigOrder` fires first -/
example :
    let rules : List Rule := [adult, { name := 1, ty := 1, node := .alpha 1 0 .gt (.lit (.int 100)), prio := 0, noLoop := true }]
    let ops : List Op := [.insert 0 [(0, .int 30)], .fire, .reset, .insert 1 [(0, .int 500)]]
    quietRules rules = true ∧ (rules.map (·.name)).Nodup ∧ (∀ o ∈ ops, o.WF) ∧
    ((({ rules := rules } : Engine).run ops).fireAll.2.map (·.rule)) = [1, 0] := by
  refine ⟨by decide, by decide, by decide, by decide +kernel⟩

/-! ### actions that modify the matched fact: clause `action_write_lost` (`writesOk` / `writeBackBad`, Spec.lean) -/

/-- **action_writes_kept** (one call): for EVERY engine state whose working memory satisfies the invariant and whose facts carry
one binding per field (every state reachable by a history, `action_writes_kept_history`), every rule set (any conditions,
assignments, retractions, saliences, no-loop flags, duplicate names) — one `fire_all` call of the model, seen as the oracle sees
it (the view before the call, the recorder log in canonical form, the view after the call), satisfies the clause `writesOk`:
whenever a firing's matched fact is the only live fact of its type and its rule assigns without retracting, the NEXT firing on
the same handle — or, for the last firing of the call, the view after the call — shows the contents the closure saw plus the
rule's typed assignments (and nothing else changed them in between). -/
theorem action_writes_kept (e : Engine) (hi : WMInv e.wm) (hd : DataOK e.wm) :
    writesOk e.rules e.fireAll.1.wm.view.contents e.wm.view.contents
      (e.fireAll.2.map (fun f => { f with data := canonData f.data })) = true :=
  fireAll_writes e hi hd

/-- **action_writes_kept** (histories): on the model's observation of ANY history (any length, any mix of insert / update /
retract / fire_all / reset, any handles incl. unknown and retracted ones) under ANY rule set, the driver's clause never fails:
`writeBackBad` — the function `drv_c06 oracle` evaluates after `orun`, which answers `action_write_lost@i` — is `none`.
The one hypothesis is the representation invariant of `Data` as a map (`Op.WF`: inserted / updated contents carry one binding per
field, as a `TypedFacts` HashMap does and as every case line parses); `action_writes_kept_needs_map_data` shows it is needed. -/
theorem action_writes_kept_history (rules : List Rule) (ops : List Op) (hwf : ∀ o ∈ ops, o.WF) :
    writeBackBad rules 0 {} ops (trace { rules := rules } ops) = none :=
  writeBackBad_trace rules ops { rules := rules } {} 0 wminv_init (fun _ hf => by cases hf) rfl rfl hwf

/-- what the write-back does to the matched fact, stated on the model directly: if the loop body fires rule `rule` (no retraction)
on a fact `f` of the rule's type that is the only live fact of that type, the fact is live afterwards and every field reads what
assigning ALL of the rule's assignments, in order, onto the contents the closure saw reads — typed values, later assignments to
the same field winning, untouched fields kept.  EXTENDED LANGUAGE: the assignments are the literal ones followed by every
`T.f = <expr>` with the value the expression has AT THE MOMENT OF FIRING — on the contents the closure saw, as the earlier
assignments of the same firing left them (`Action.resolve`; fields of other types are read from the flattened copy); when the
expressions read fields of the rule's own type only, that is `assignsOn rule` (Spec.lean) of the recorded contents. -/
theorem fire_one_applies_assignments (e e' : Engine) (a : Act) (x : Firing) (hi : WMInv e.wm) (hd : DataOK e.wm)
    (h : e.fireOne a = (e', some x)) :
    ∃ rule f, e.rules.find? (·.name == x.rule) = some rule ∧ e.wm.get x.handle = some f ∧ x.data = f.data ∧
      (rule.action.retract = false → f.ty = rule.ty → (∀ g ∈ e.wm.getAllFacts, g.ty = f.ty → g = f) →
        ∃ f', e'.wm.get x.handle = some f' ∧ f'.ty = f.ty ∧
          (∀ k, f'.data.get k = (applySets f.data (rule.action.resolve rule.ty (fun t => flatOf e.wm t) f.data)).get k) ∧
          (rule.action.localTo rule.ty = true →
            canonData f'.data = canonData (applySets (canonData f.data) (assignsOn rule (canonData f.data))))) := by
  obtain ⟨rule, f, post⟩ := fireOne_post e e' a x hi hd h
  refine ⟨rule, f, post.rule_found, post.got, post.data, fun h1 h2 h3 => ?_⟩
  obtain ⟨f', hg, hk⟩ := post.kept h1 h2 h3
  refine ⟨f', hg, ?_, hk, fun hloc => (by
    unfold assignsOn
    rw [resolve_congr rule.action rule.ty (fun _ => []) (fun t => flatOf e.wm t) (canonData f.data) f.data
      (canon_get f.data) hloc]
    exact expected_eq f f' _ hk)⟩
  -- the type of a handle never changes
  obtain ⟨hfl, hfh⟩ := live_of_get post.got
  obtain ⟨hfl', hfh'⟩ := live_of_get hg
  obtain ⟨g, hgm, e1, e2⟩ := post.known f.handle f.ty ⟨f, ((getAllFacts_iff _ f).1 hfl).1, rfl, rfl⟩
  have : g = f' := fact_unique post.wminv ((getAllFacts_iff _ f').1 hfl').1 hgm (by rw [e1, hfh, hfh'])
  rw [← this, e2]

/-- a rule that raises a counter and sets a flag, and one that fires on the flag: both fire in one `fire_all`, the second sees
(and the view after the call shows) the contents the first one left -/
def bump : Rule := { name := 0, ty := 0, node := .alpha 0 0 .lt (.lit (.int 10)), prio := 5, noLoop := true,
                     action := { sets := [(0, .int 10), (1, .bool true), (0, .int 11)] } }
def flagged : Rule := { name := 1, ty := 0, node := .alpha 0 1 .eq (.lit (.bool true)), prio := 0, noLoop := true,
                        action := { sets := [(2, .str 7)] } }

example :
    (trace { rules := [bump, flagged] } [.insert 0 [(3, .null), (0, .int 1)], .insert 1 [(0, .int 1)], .fire]).map (·.res)
      = [.handle 1, .handle 2,
         .fired [0, 1] [{ rule := 0, handle := 1, data := [(0, .int 1), (3, .null)] },
                        { rule := 1, handle := 1, data := [(0, .int 11), (1, .bool true), (3, .null)] }]]
    ∧ ((({ rules := [bump, flagged] } : Engine).run [.insert 0 [(3, .null), (0, .int 1)], .insert 1 [(0, .int 1)], .fire]).wm.view.contents
      = [(1, 0, [(0, .int 11), (1, .bool true), (2, .str 7), (3, .null)]), (2, 1, [(0, .int 1)])])
    ∧ writeBackBad [bump, flagged] 0 {} [.insert 0 [(3, .null), (0, .int 1)], .insert 1 [(0, .int 1)], .fire]
        (trace { rules := [bump, flagged] } [.insert 0 [(3, .null), (0, .int 1)], .insert 1 [(0, .int 1)], .fire]) = none := by
  decide +kernel

-- the clause is not vacuous: it rejects a log whose second firing does not see the first one's assignment, a final view that
-- lost it, and one that shows the printed form of the value instead of the typed value
example :
    writesOk [bump, flagged] [(1, 0, [(0, .int 11), (1, .bool true), (2, .str 7)])] [(1, 0, [(0, .int 1)])]
      [{ rule := 0, handle := 1, data := [(0, .int 1)] }, { rule := 1, handle := 1, data := [(0, .int 1), (1, .bool true)] }] = false
    ∧ writesOk [bump] [(1, 0, [(0, .int 1)])] [(1, 0, [(0, .int 1)])] [{ rule := 0, handle := 1, data := [(0, .int 1)] }] = false
    ∧ writesOk [bump] [(1, 0, [(0, .str 11), (1, .bool true)])] [(1, 0, [(0, .int 1)])]
      [{ rule := 0, handle := 1, data := [(0, .int 1)] }] = false
    ∧ writesOk [bump] [(1, 0, [(0, .int 11), (1, .bool true)])] [(1, 0, [(0, .int 1)])]
      [{ rule := 0, handle := 1, data := [(0, .int 1)] }] = true := by
  decide +kernel

/-- the statement without the map-form hypothesis on the contents -/
def action_writes_kept_any_data : Prop :=
  ∀ (rules : List Rule) (ops : List Op), writeBackBad rules 0 {} ops (trace { rules := rules } ops) = none

/-- it fails for contents that bind a field twice — a list that is not a map, which neither a `TypedFacts` HashMap nor a case line
can express: `Data.set` (the model of `HashMap::insert`) rewrites the first binding only. The hypothesis `Op.WF` of
`action_writes_kept_history` is the representation invariant, not a restriction of the histories. -/
theorem action_writes_kept_needs_map_data : ¬ action_writes_kept_any_data := by
  intro h
  have := h [bump] [.insert 0 [(0, .int 1), (0, .int 2)], .fire]
  revert this
  decide +kernel

end C06
