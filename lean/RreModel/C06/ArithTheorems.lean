import RreModel.C06.Theorems
/-
C06 — reach audit 2: assignments with EXPRESSION right-hand sides (`GrlReteLoader::execute_action` →
`evaluate_expression_for_rete` → `src/expression.rs`) and arithmetic `test(...)` conditions (`AlphaNode::matches_typed` →
`evaluate_arithmetic_rete` / `evaluate_arithmetic_expr`).  The write-back and exactness theorems of Theorems.lean
(`action_writes_kept`, `action_writes_kept_history`, `fire_one_applies_assignments`, `fires_only_if_true_now`,
`quiescent_fire_all_exact*`) are stated over `Rule` / `Node` / `Action` and are re-proved for the extended language there (a
`Node.test` is one more node, `Action.xsets` are resolved to literal assignments AT FIRING TIME by `Action.resolve`); the theorems
here say what the extension means.
-/
namespace C06
open C07 (Act)

/-- **conservative extension**: an action without expression assignments assigns exactly its literal list (what the theorems said
before the extension) -/
theorem resolve_literal_only (a : Action) (ty : Nat) (other : Nat → Data) (d : Data) (h : a.xsets = []) :
    a.resolve ty other d = a.sets := resolve_nil_xsets a ty other d h

/-- **the value stored is the value the expression has at the moment of firing**: the expression assignments are executed in order,
each one evaluated (`Expr.actVal`) on the contents AS THE EARLIER ASSIGNMENTS OF THE SAME FIRING LEFT THEM — not on the contents
at activation time, not on the contents before the first assignment. -/
theorem assignments_see_earlier_writes (ty : Nat) (other : Nat → Data) (d : Data) (f : Nat) (e : Expr) (sid : Nat)
    (rest : List (Nat × Expr × Nat)) :
    resolveX ty other d ((f, e, sid) :: rest) =
      (f, e.actVal (fun t k => if t == ty then d.get k else (other t).get k) sid) ::
        resolveX ty other (d.set f (e.actVal (fun t k => if t == ty then d.get k else (other t).get k) sid)) rest := rfl

/-- non-vacuity: `T0.f1 = T0.f0 + 1; T0.f3 = T0.f1 * 2.5` on f0 = 7: the second reads 8, and the product 20.0 is stored as the
Integer 20 (`value_to_fact_value`); `T0.f1 = T0.f0 / 2` on 7 stores the Float 3.5 (Integer → Float) -/
example : resolveX 0 (fun _ => []) [(0, .int 7)] [(1, ⟨.fld 0 0, [(.add, .num 2)]⟩, 900), (3, ⟨.fld 0 1, [(.mul, .num 5)]⟩, 901)]
    = [(1, .int 8), (3, .int 20)] := by decide +kernel
example : resolveX 0 (fun _ => []) [(0, .int 7)] [(1, ⟨.fld 0 0, [(.div, .num 4)]⟩, 900)] = [(1, .flt 7)] := by decide +kernel

/-- **what an assignment depends on**: for an action whose expressions read fields of the rule's own type only, the assignments
are a function of the matched fact's contents FIELD BY FIELD — the facts of other types, the order of the bindings and shadowed
bindings do not matter. -/
theorem resolve_reads_contents_only (a : Action) (ty : Nat) (other other' : Nat → Data) (d d' : Data)
    (hg : ∀ k, d.get k = d'.get k) (hl : a.localTo ty = true) : a.resolve ty other d = a.resolve ty other' d' :=
  resolve_congr a ty other other' d d' hg hl

example : (⟨[], false, [(1, ⟨.fld 0 0, [(.add, .num 2)]⟩, 900)]⟩ : Action).localTo 0 = true := by decide

/-- **fire_one stores the expression's value**: if the loop body fires a rule whose action is the single assignment
`T.k = <expr>` (no retraction) on a fact `f` of the rule's type that is the only live fact of that type, then afterwards field `k`
of the fact reads the value the expression has on the contents the closure saw (`x.data = f.data`), every other field is
unchanged. -/
theorem fire_one_stores_expression_value (e e' : Engine) (a : Act) (x : Firing) (hi : WMInv e.wm) (hd : DataOK e.wm)
    (h : e.fireOne a = (e', some x)) :
    ∃ rule f, e.rules.find? (·.name == x.rule) = some rule ∧ e.wm.get x.handle = some f ∧ x.data = f.data ∧
      ∀ k ex sid, rule.action = { sets := [], retract := false, xsets := [(k, ex, sid)] } → f.ty = rule.ty →
        (∀ g ∈ e.wm.getAllFacts, g.ty = f.ty → g = f) →
        ∃ f', e'.wm.get x.handle = some f' ∧
          f'.data.get k = some (ex.actVal (fun t j => if t == rule.ty then x.data.get j else (flatOf e.wm t).get j) sid) ∧
          ∀ j, j ≠ k → f'.data.get j = x.data.get j := by
  obtain ⟨rule, f, h1, h2, h3, h4⟩ := fire_one_applies_assignments e e' a x hi hd h
  refine ⟨rule, f, h1, h2, h3, fun k ex sid ha hty hs => ?_⟩
  obtain ⟨f', hg, _, hk, _⟩ := h4 (by rw [ha]) hty hs
  refine ⟨f', hg, ?_, fun j hj => ?_⟩
  · rw [hk k, ha, h3]
    simp [Action.resolve, resolveX, applySets, get_set]
  · rw [hk j, ha, h3]
    simp [Action.resolve, resolveX, applySets, get_set, hj]

/-- non-vacuity: the rule `when T0.f0 > 0 then T0.f0 = T0.f0 + 1` (no-loop) on the fact f0 = 7, f1 = true: the view afterwards
shows f0 = 8, f1 untouched; a second `fire_all` does not fire it again; after `reset` and an update it fires on the NEW contents -/
def incr : Rule := { name := 0, ty := 0, node := .alpha 0 0 .gt (.lit (.int 0)), prio := 5, noLoop := true,
                     action := { xsets := [(0, ⟨.fld 0 0, [(.add, .num 2)]⟩, 900)] } }
example :
    (({ rules := [incr] } : Engine).run [.insert 0 [(0, .int 7), (1, .bool true)], .fire, .fire]).wm.view.contents
      = [(1, 0, [(0, .int 8), (1, .bool true)])]
    ∧ (trace { rules := [incr] } [.insert 0 [(0, .int 7)], .fire, .fire, .reset, .update 1 [(0, .int 20)], .fire]).map (·.res)
      = [.handle 1, .fired [0] [⟨0, 1, [(0, .int 7)]⟩], .fired [] [], .unit, .ok true, .fired [0] [⟨0, 1, [(0, .int 20)]⟩]] := by
  decide +kernel

/-- a re-firing rule (`no-loop` absent) that raises the field its condition reads stops when the condition — re-evaluated on the
contents the last firing left — is false: `when T0.f0 < 3 then T0.f0 = T0.f0 + 1` on f0 = 0 fires three times, each firing sees
what the previous one wrote -/
def climb : Rule := { name := 0, ty := 0, node := .alpha 0 0 .lt (.lit (.int 3)), prio := 5, noLoop := false,
                      action := { xsets := [(0, ⟨.fld 0 0, [(.add, .num 2)]⟩, 900)] } }
example : (trace { rules := [climb] } [.insert 0 [(0, .int 0)], .fire]).map (·.res)
    = [.handle 1, .fired [0, 0, 0] [⟨0, 1, [(0, .int 0)]⟩, ⟨0, 1, [(0, .int 1)]⟩, ⟨0, 1, [(0, .int 2)]⟩]] := by decide +kernel

/-! ### what the evaluators do at the edges (the code's behaviour, mirrored) -/

/-- a failed evaluation (unknown field, non-numeric operand, division by zero) stores the expression's own text -/
theorem failed_expression_stores_its_text (look : Nat → Nat → Option Val) (e : Expr) (sid : Nat) (h : e.actXV look = .err) :
    e.actVal look sid = .str sid := by simp [Expr.actVal, h, XV.store]

example : (⟨.fld 0 0, [(.div, .num 0)]⟩ : Expr).actXV (fun _ k => Data.get [(0, Val.int 7)] k) = .err := by decide +kernel
example : (⟨.fld 0 0, [(.add, .fld 0 4)]⟩ : Expr).actXV (fun _ k => Data.get [(0, Val.int 7)] k) = .err := by decide +kernel
example : (⟨.fld 0 0, [(.add, .num 2)]⟩ : Expr).actXV (fun _ k => Data.get [(0, Val.bool true)] k) = .err := by decide +kernel

/-- i64 bounds: `MAX + 1` and `MAX * 2.5` stay `MAX` (the f64 result is cast back saturating), `MIN - 1` stays `MIN`, and
`(2^53 + 1) + 1` is `2^53` (the operand is rounded to f64 first, and so is the sum: ties to even) -/
example : (⟨.fld 0 0, [(.add, .num 2)]⟩ : Expr).actVal (fun _ k => Data.get [(0, Val.int (2 ^ 63 - 1))] k) 900 = .int (2 ^ 63 - 1) := by
  decide +kernel
example : (⟨.fld 0 0, [(.mul, .num 5)]⟩ : Expr).actVal (fun _ k => Data.get [(0, Val.int (2 ^ 63 - 1))] k) 900 = .int (2 ^ 63 - 1) := by
  decide +kernel
example : (⟨.fld 0 0, [(.sub, .num 2)]⟩ : Expr).actVal (fun _ k => Data.get [(0, Val.int (-(2 ^ 63)))] k) 900 = .int (-(2 ^ 63)) := by
  decide +kernel
example : (⟨.fld 0 0, [(.add, .num 2)]⟩ : Expr).actVal (fun _ k => Data.get [(0, Val.int (2 ^ 53 + 1))] k) 900 = .int (2 ^ 53) := by
  decide +kernel

/-- **an arithmetic condition over a missing field is false** (so its negation is true), whatever the operator and the rest of the
expression: `evaluate_arithmetic_expr` gives up (`None`) -/
theorem test_missing_head_false (ty t f : Nat) (d : Data) (op : Cmp) (rhs : Atom)
    (h : (if t == ty then d.get f else none) = none) :
    (Node.test ⟨.fld t f, []⟩ op rhs).eval ty d = false := by
  simp only [Node.eval, testEval, Expr.evalWith, evalSplit, Atom.tv, List.length_nil, h]

example : (Node.test ⟨.fld 0 0, [(.add, .fld 0 1)]⟩ .gt (.num 20)).eval 0 [(0, .int 7)] = false := by decide +kernel
example : (Node.not (.test ⟨.fld 0 0, [(.add, .fld 0 1)]⟩ .gt (.num 20))).eval 0 [(0, .int 7)] = true := by decide +kernel
example : (Node.test ⟨.fld 0 0, [(.add, .fld 0 1)]⟩ .gt (.num 20)).eval 0 [(0, .int 7), (1, .int 5)] = true := by decide +kernel
/-- division by zero: the test is false; remainder by zero is NaN: only `!=` is true of it -/
example : (Node.test ⟨.fld 0 0, [(.div, .num 0)]⟩ .ne (.num 20)).eval 0 [(0, .int 7)] = false := by decide +kernel
example : (Node.test ⟨.fld 0 0, [(.mod, .num 0)]⟩ .ne (.num 20)).eval 0 [(0, .int 7)] = true := by decide +kernel
example : (Node.test ⟨.fld 0 0, [(.mod, .num 0)]⟩ .le (.num 20)).eval 0 [(0, .int 7)] = false := by decide +kernel

/-- `fires_only_if_true_now` covers arithmetic conditions: an update that makes `T0.f0 + T0.f1 > 10` false between activation
and `fire_all` leaves a stale activation that is NOT fired -/
def sumRule : Rule := { name := 0, ty := 0, node := .test ⟨.fld 0 0, [(.add, .fld 0 1)]⟩ .gt (.num 20), prio := 0, noLoop := true }
example : (trace { rules := [sumRule] } [.insert 0 [(0, .int 7), (1, .int 5)], .update 1 [(0, .int 2), (1, .int 5)], .fire,
      .update 1 [(0, .int 6), (1, .int 5)], .fire]).map (·.res)
    = [.handle 1, .ok true, .fired [] [], .ok true, .fired [0] [⟨0, 1, [(0, .int 6), (1, .int 5)]⟩]] := by decide +kernel

/-! ### F-C06e: the precedence of `%` and `/` in arithmetic conditions -/

/-- [after fix-C06e] arithmetic conditions are read with the precedence of `src/expression.rs` (what the right-hand sides of
assignments and the non-RETE engine use): `+ -` below `* / %`, left to right -/
theorem test_uses_standard_precedence : alphaClasses = stdClasses := rfl

/-- the statement that failed before the fix: the condition evaluator agrees with the standard reading -/
def test_precedence_prefix_full : Prop :=
  ∀ (look : Nat → Nat → Option Val) (e : Expr) (op : Cmp) (rhs : Atom),
    testEval alphaClassesPreFix look e op rhs = testEval stdClasses look e op rhs

/-- **F-C06e** (replayed on the unchanged code: corpus/C06/defects.case): `T0.f0 * 2 % 4 == 6` was true of f0 = 3 — the text was
split at `*` first, i.e. read as `f0 * (2 % 4)` = 6, while (3 * 2) % 4 = 2 -/
theorem test_precedence_prefix_counterexample : ¬ test_precedence_prefix_full := by
  intro h
  have := h (fun _ k => Data.get [(0, Val.int 3)] k) ⟨.fld 0 0, [(.mul, .num 4), (.mod, .num 8)]⟩ .eq (.num 12)
  revert this
  decide +kernel

/-! ### seeded change C06-13: a touch re-propagates every fact of the TYPE -/

/-- the fact types touched by a list of calls: an insert of the type, an update / retract of a LIVE fact of the type (the calls
after which the code runs `propagate_changes_for_type`) — the scope of the clause `exactTypeOk` (Spec.lean): the exactness
statement of `quiescent_fire_all_exact` with the freshness hypothesis weakened from "every live fact was inserted or updated during
`touch`" to "the TYPE of every live fact was touched during `touch`" (`quiescent_fire_all_exact_by_type`, proved below). -/
def touched (e : Engine) : List Op → List Nat
  | [] => []
  | o :: os =>
    (match o with
     | .insert ty _ => [ty]
     | .update h _ => (match e.wm.get h with | some g => [g.ty] | none => [])
     | .retract h => (match e.wm.get h with | some g => [g.ty] | none => [])
     | _ => []) ++ touched (e.step o).1 os

def quiescent_fire_all_exact_by_type_full : Prop :=
  ∀ (rules : List Rule) (ops touch : List Op), quietRules rules = true → (rules.map (·.name)).Nodup →
    (∀ o ∈ ops ++ touch, o.WF) → (∀ o ∈ touch, o ≠ .fire) →
    let e1 := ({ rules := rules } : Engine).run ops
    let e0 := e1.run touch
    (∀ f ∈ e0.wm.getAllFacts, f.ty ∈ touched e1 touch) → rules.length ≤ 1000 →
    ∀ r ∈ rules, r.name ∉ e0.ag.fired →
      (∃ f ∈ e0.wm.getAllFacts, f.ty = r.ty ∧ r.node.eval f.ty f.data = true) → r.name ∈ e0.fireAll.2.map (·.rule)

/-- from "every (rule of type `ty`, live fact it satisfies) pair has a pending activation" to "every such unfired rule fires" -/
theorem fires_of_pending (rules : List Rule) (e0 : Engine) (ty : Nat) (hq : quietRules rules = true)
    (hn : (rules.map (·.name)).Nodup) (hinv0 : Inv rules e0) (hb : rules.length ≤ 1000)
    (hpend : ∀ r ∈ rules, r.ty = ty → ∀ f ∈ e0.wm.getAllFacts, f.ty = r.ty → r.node.eval f.ty f.data = true →
      ∃ a ∈ e0.ag.acts, a.rule = r.name ∧ a.handle = some f.handle) :
    ∀ r ∈ rules, r.ty = ty → r.name ∉ e0.ag.fired →
      (∃ f ∈ e0.wm.getAllFacts, f.ty = r.ty ∧ r.node.eval f.ty f.data = true) → r.name ∈ e0.fireAll.2.map (·.rule) := by
  intro r hr hrt hnf ⟨f, hf, hty, hev⟩
  have hQ := quiet_of hq
  obtain ⟨new, h1, P⟩ := fireLoop_exact rules e0.wm hQ hn hinv0.wm hinv0.data 1000 e0 [] rfl hinv0.rules_eq hinv0.ag hinv0.typed (by
    have h3 : unfired rules e0.ag.fired ≤ rules.length := List.length_filter_le _ _
    omega)
  have hnew : e0.fireAll.2 = new := by simpa [Engine.fireAll, C07.incBound] using h1
  rcases (P.fired_iff r.name).1 (P.cover r hr f hf hev (hpend r hr hrt f hf hty hev)) with h' | h'
  · exact absurd h' hnf
  · rw [hnew]; exact h'

/-- `propagate_changes_for_type` on an engine whose working memory was just replaced: every live fact of the type is evaluated -/
theorem pending_after_propagateType (rules : List Rule) (e1 : Engine) (w' : WM) (ty : Nat) (hq : Quiet rules)
    (hr1 : e1.rules = rules) (hi' : WMInv w') :
    ∀ r ∈ rules, r.ty = ty → ∀ f ∈ (({ e1 with wm := w' } : Engine).propagateType ty).wm.getAllFacts, f.ty = r.ty →
      r.node.eval f.ty f.data = true →
      ∃ a ∈ (({ e1 with wm := w' } : Engine).propagateType ty).ag.acts, a.rule = r.name ∧ a.handle = some f.handle := by
  intro r hr hrt f hf hty hev
  have hf' : f ∈ w'.getAllFacts := hf
  obtain ⟨k1, k2⟩ := (getAllFacts_iff _ f).1 hf'
  apply propagateType_complete ({ e1 with wm := w' } : Engine)
    (by rw [show ({ e1 with wm := w' } : Engine).rules = e1.rules from rfl, hr1]; exact hq) ty r
    (by rw [show ({ e1 with wm := w' } : Engine).rules = e1.rules from rfl, hr1]; exact hr) hrt f _ hev
  exact (getByType_iff hi' ty f).2 ⟨k1, hty.trans hrt, k2⟩

/-- **partial** (the histories of seeded change C06-13 and its siblings): after ANY history, ONE call that touches fact type `ty`
— an insert of the type, an update of a live fact of the type to ANY contents (satisfying or not), a retract of a live fact of the
type — then `fire_all`: every rule of type `ty` that has not fired since the last reset and that SOME live fact of the type
satisfies (the touched one or any other) fires.  insert / update / retract re-evaluate every live fact of the type. -/
theorem one_touch_repropagates_type_partial (rules : List Rule) (ops : List Op) (o : Op) (ty : Nat)
    (hq : quietRules rules = true) (hn : (rules.map (·.name)).Nodup)
    (hwf : ∀ o' ∈ ops, o'.WF) (how : o.WF) (hb : rules.length ≤ 1000) :
    let e1 := ({ rules := rules } : Engine).run ops
    let e0 := (e1.step o).1
    ty ∈ touched e1 [o] →
    ∀ r ∈ rules, r.ty = ty → r.name ∉ e0.ag.fired →
      (∃ f ∈ e0.wm.getAllFacts, f.ty = r.ty ∧ r.node.eval f.ty f.data = true) → r.name ∈ e0.fireAll.2.map (·.rule) := by
  intro e1 e0 hto
  have hQ := quiet_of hq
  have hinv1 : Inv rules e1 := inv_run hQ ops _ hwf (inv_init rules)
  have hinv0 : Inv rules e0 := inv_step hQ e1 _ how hinv1
  apply fires_of_pending rules e0 ty hq hn hinv0 hb
  cases o with
  | insert t d =>
    have : t = ty := by simp [touched] at hto; exact hto.symm
    subst this
    have he0 : e0 = (({ e1 with wm := (e1.wm.insert t d).1 } : Engine).propagateType t) := by
      simp only [e0, Engine.step, Engine.insert]
    rw [he0]
    exact pending_after_propagateType rules e1 _ t hQ hinv1.rules_eq (wminv_pres.ins _ t d hinv1.wm)
  | update h d =>
    cases hg : e1.wm.get h with
    | none => simp [touched, hg] at hto
    | some g =>
      have : g.ty = ty := by simp [touched, hg] at hto; exact hto.symm
      subst this
      obtain ⟨w', hu⟩ := update_some_of_get d hg
      have he0 : e0 = (({ e1 with wm := w' } : Engine).propagateType g.ty) := by
        simp only [e0, Engine.step, Engine.update, hg, hu]
      rw [he0]
      exact pending_after_propagateType rules e1 w' g.ty hQ hinv1.rules_eq (wminv_pres.upd _ _ _ _ hinv1.wm hu)
  | retract h =>
    cases hg : e1.wm.get h with
    | none => simp [touched, hg] at hto
    | some g =>
      have : g.ty = ty := by simp [touched, hg] at hto; exact hto.symm
      subst this
      have hu0 := retract_live_handle e1 hinv1.wm h g hg
      cases hu : e1.wm.retract h with
      | none => rw [hu] at hu0; cases hu0
      | some w' =>
        have he0 : e0 = (({ e1 with wm := w' } : Engine).propagateType g.ty) := by
          simp only [e0, Engine.step, Engine.retract, hg, hu]
        rw [he0]
        exact pending_after_propagateType rules e1 w' g.ty hQ hinv1.rules_eq (wminv_pres.ret _ _ _ hinv1.wm hu)
  | fire => simp [touched] at hto
  | reset => simp [touched] at hto


/-! ### the by-type exactness statement in full -/

/-- "handle `h` belongs to a live fact of type `ty`" -/
def STy (w : WM) (ty : Nat) : Nat → Prop := fun h => ∃ f ∈ w.getAllFacts, f.handle = h ∧ f.ty = ty

theorem live_unique {w : WM} (hi : WMInv w) {f g : Fact} (hf : f ∈ w.getAllFacts) (hg : g ∈ w.getAllFacts)
    (h : g.handle = f.handle) : g = f :=
  fact_unique hi ((getAllFacts_iff _ f).1 hf).1 ((getAllFacts_iff _ g).1 hg).1 h

theorem sty_back {w w' : WM} {ty : Nat} (hi' : WMInv w') {f' : Fact} (hf' : f' ∈ w'.getAllFacts) (hold : f' ∈ w.getAllFacts) :
    STy w' ty f'.handle → STy w ty f'.handle := by
  rintro ⟨f2, h2, hh, ht⟩
  have := live_unique hi' hf' h2 hh
  subst this
  exact ⟨f2, hold, rfl, ht⟩

/-- a call that touches type `ty`: afterwards every (rule, live fact of type `ty` it satisfies) pair has a pending activation -/
theorem pending_of_touch (rules : List Rule) (e1 : Engine) (o : Op) (ty : Nat) (hQ : Quiet rules) (hinv1 : Inv rules e1)
    (hto : ty ∈ touched e1 [o]) :
    ∀ r ∈ rules, r.ty = ty → ∀ f ∈ (e1.step o).1.wm.getAllFacts, f.ty = r.ty → r.node.eval f.ty f.data = true →
      ∃ a ∈ (e1.step o).1.ag.acts, a.rule = r.name ∧ a.handle = some f.handle := by
  cases o with
  | insert t d =>
    have : t = ty := by simp [touched] at hto; exact hto.symm
    subst this
    have he0 : (e1.step (.insert t d)).1 = (({ e1 with wm := (e1.wm.insert t d).1 } : Engine).propagateType t) := by
      simp only [Engine.step, Engine.insert]
    rw [he0]
    exact pending_after_propagateType rules e1 _ t hQ hinv1.rules_eq (wminv_pres.ins _ t d hinv1.wm)
  | update h d =>
    cases hg : e1.wm.get h with
    | none => simp [touched, hg] at hto
    | some g =>
      have : g.ty = ty := by simp [touched, hg] at hto; exact hto.symm
      subst this
      obtain ⟨w', hu⟩ := update_some_of_get d hg
      have he0 : (e1.step (.update h d)).1 = (({ e1 with wm := w' } : Engine).propagateType g.ty) := by
        simp only [Engine.step, Engine.update, hg, hu]
      rw [he0]
      exact pending_after_propagateType rules e1 w' g.ty hQ hinv1.rules_eq (wminv_pres.upd _ _ _ _ hinv1.wm hu)
  | retract h =>
    cases hg : e1.wm.get h with
    | none => simp [touched, hg] at hto
    | some g =>
      have : g.ty = ty := by simp [touched, hg] at hto; exact hto.symm
      subst this
      have hu0 := retract_live_handle e1 hinv1.wm h g hg
      cases hu : e1.wm.retract h with
      | none => rw [hu] at hu0; cases hu0
      | some w' =>
        have he0 : (e1.step (.retract h)).1 = (({ e1 with wm := w' } : Engine).propagateType g.ty) := by
          simp only [Engine.step, Engine.retract, hg, hu]
        rw [he0]
        exact pending_after_propagateType rules e1 w' g.ty hQ hinv1.rules_eq (wminv_pres.ret _ _ _ hinv1.wm hu)
  | fire => simp [touched] at hto
  | reset => simp [touched] at hto

/-- … in the form of `Exact.Compl` -/
theorem compl_of_touch (rules : List Rule) (e1 : Engine) (o : Op) (ty : Nat) (hQ : Quiet rules) (how : o.WF)
    (hinv1 : Inv rules e1) (hto : ty ∈ touched e1 [o]) : Compl (STy (e1.step o).1.wm ty) (e1.step o).1 := by
  have hinv0 : Inv rules (e1.step o).1 := inv_step hQ e1 _ how hinv1
  intro r hr f hf hS hty hev
  obtain ⟨f2, h2, hh, ht⟩ := hS
  have := live_unique hinv0.wm hf h2 hh
  subst this
  exact pending_of_touch rules e1 o ty hQ hinv1 hto r (by rw [← hinv0.rules_eq]; exact hr) (hty.symm.trans ht) f2 hf hty hev

/-- a call (other than `fire_all`) that does NOT touch type `ty` keeps the pending activations of the live facts of type `ty`, and
does not change which facts of type `ty` are live or what they hold -/
theorem compl_keep (rules : List Rule) (e : Engine) (o : Op) (ty : Nat) (hQ : Quiet rules) (ho : o ≠ .fire)
    (hinv : Inv rules e) (hnt : ty ∉ touched e [o]) (hc : Compl (STy e.wm ty) e) : Compl (STy (e.step o).1.wm ty) (e.step o).1 := by
  cases o with
  | insert t d =>
    have hne : t ≠ ty := by simp [touched] at hnt; exact fun h => hnt h.symm
    simp only [Engine.step, Engine.insert]
    have hw' := wminv_pres.ins _ t d hinv.wm
    apply compl_propagate hQ (STy e.wm ty) _ e _ t hinv hw' _ hc
    intro f' hf'
    obtain ⟨k1, k2⟩ := (getAllFacts_iff _ f').1 hf'
    simp only [WM.insert, List.mem_append, List.mem_singleton] at k1
    rcases k1 with h1 | h1
    · right
      have hl := (getAllFacts_iff e.wm f').2 ⟨h1, k2⟩
      exact ⟨hl, sty_back hw' hf' hl⟩
    · left; subst h1; rfl
  | update hdl d =>
    simp only [Engine.step, Engine.update]
    cases hg : e.wm.get hdl with
    | none => exact hc
    | some g =>
      have hne : g.ty ≠ ty := by simp [touched, hg] at hnt; exact fun h => hnt h.symm
      simp only
      obtain ⟨w', hu⟩ := update_some_of_get d hg
      simp only [hu]
      have hw' := wminv_pres.upd _ _ _ _ hinv.wm hu
      apply compl_propagate hQ (STy e.wm ty) _ e _ g.ty hinv hw' _ hc
      intro f' hf'
      rcases update_live hinv.wm hg hu f' hf' with h1 | ⟨h1, _⟩
      · exact Or.inl h1
      · exact Or.inr ⟨h1, sty_back hw' hf' h1⟩
  | retract hdl =>
    simp only [Engine.step, Engine.retract]
    cases hg : e.wm.get hdl with
    | none => exact hc
    | some g =>
      simp only
      cases hu : e.wm.retract hdl with
      | none => exact hc
      | some w' =>
        simp only
        have hw' := wminv_pres.ret _ _ _ hinv.wm hu
        apply compl_propagate hQ (STy e.wm ty) _ e _ g.ty hinv hw' _ hc
        intro f' hf'
        have hl := retract_live hu f' hf'
        exact Or.inr ⟨hl, sty_back hw' hf' hl⟩
  | fire => exact absurd rfl ho
  | reset => exact compl_weaken (e := e.reset) (fun _ _ h => h) hc

theorem touched_cons (e : Engine) (o : Op) (os : List Op) : touched e (o :: os) = touched e [o] ++ touched (e.step o).1 os := by
  simp [touched]

/-- histories: after `touch` (no `fire_all` in it), if type `ty` was touched, every live fact of type `ty` has its pending
activations — the LAST call that touched the type created them, the calls after it kept them -/
theorem compl_touched (rules : List Rule) (ty : Nat) (hQ : Quiet rules) : ∀ (touch : List Op) (e : Engine),
    (∀ o ∈ touch, o ≠ .fire ∧ o.WF) → Inv rules e → (ty ∈ touched e touch ∨ Compl (STy e.wm ty) e) →
    Compl (STy (e.run touch).wm ty) (e.run touch) := by
  intro touch
  induction touch with
  | nil =>
    intro e _ _ h
    rcases h with h | h
    · simp [touched] at h
    · exact h
  | cons o os ih =>
    intro e ho hinv h
    have hinv' : Inv rules (e.step o).1 := inv_step hQ e o (ho o (by simp)).2 hinv
    have hos : ∀ o' ∈ os, o' ≠ .fire ∧ o'.WF := fun o' h' => ho o' (List.mem_cons_of_mem _ h')
    show Compl (STy ((e.step o).1.run os).wm ty) ((e.step o).1.run os)
    by_cases h1 : ty ∈ touched e [o]
    · exact ih _ hos hinv' (Or.inr (compl_of_touch rules e o ty hQ (ho o (by simp)).2 hinv h1))
    · rcases h with h | h
      · rw [touched_cons, List.mem_append] at h
        rcases h with h | h
        · exact absurd h h1
        · exact ih _ hos hinv' (Or.inl h)
      · exact ih _ hos hinv' (Or.inr (compl_keep rules e o ty hQ (ho o (by simp)).1 hinv h1 h))

/-- **quiescent_fire_all_exact_by_type** — `quiescent_fire_all_exact_by_type_full` holds: for quiet rule sets with distinct names, after
ANY history `ops` and then calls `touch` (no `fire_all`) such that the TYPE of every live fact was touched during `touch` (an insert
of the type, an update or a retract of a live fact of the type — of THAT fact or of any other fact of the type), `fire_all` fires
every rule that has not fired since the last reset and that some live fact of its type satisfies (at most 1000 rules). -/
theorem quiescent_fire_all_exact_by_type : quiescent_fire_all_exact_by_type_full := by
  intro rules ops touch hq hn hwf ht e1 e0 htouched hb r hr hnf ⟨f, hf, hty, hev⟩
  have hQ := quiet_of hq
  have hinv1 : Inv rules e1 :=
    inv_run hQ ops _ (fun o ho => hwf o (List.mem_append.2 (Or.inl ho))) (inv_init rules)
  have hinv0 : Inv rules e0 := inv_run hQ touch _ (fun o ho => hwf o (List.mem_append.2 (Or.inr ho))) hinv1
  have hc : Compl (STy e0.wm f.ty) e0 :=
    compl_touched rules f.ty hQ touch e1 (fun o ho => ⟨ht o ho, hwf o (List.mem_append.2 (Or.inr ho))⟩) hinv1
      (Or.inl (htouched f hf))
  have hact := hc r (by rw [hinv0.rules_eq]; exact hr) f hf ⟨f, hf, rfl, rfl⟩ hty hev
  obtain ⟨new, h1, P⟩ := fireLoop_exact rules e0.wm hQ hn hinv0.wm hinv0.data 1000 e0 [] rfl hinv0.rules_eq hinv0.ag hinv0.typed (by
    have h3 : unfired rules e0.ag.fired ≤ rules.length := List.length_filter_le _ _
    omega)
  have hnew : e0.fireAll.2 = new := by simpa [Engine.fireAll, C07.incBound] using h1
  rcases (P.fired_iff r.name).1 (P.cover r hr f hf hev hact) with h' | h'
  · exact absurd h' hnf
  · rw [hnew]; exact h'

/-- non-vacuity — the history of the seeded change: two facts satisfy `adult`; fire_all; reset; the SECOND is updated to contents
that do not satisfy the rule (the type of both live facts is touched, the first fact itself is not); fire_all fires the rule for
the first -/
example :
    touched (({ rules := [adult] } : Engine).run [.insert 0 [(0, .int 25)], .insert 0 [(0, .int 30)], .fire, .reset])
      [.update 2 [(0, .int 3)]] = [0] := by decide +kernel
example :
    (trace { rules := [adult] } [.insert 0 [(0, .int 25)], .insert 0 [(0, .int 30)], .fire, .reset, .update 2 [(0, .int 3)], .fire]).map
      (fun o => match o.res with | .fired names _ => names | _ => []) = [[], [], [0], [], [], [0]] := by decide +kernel

end C06
