import RreModel.C06.Ext
import RreModel.C06.Theorems
/-
C06 — property theorems for the extended histories (insert_explicit, insert_with_template, load_deffacts, load_deffacts_by_name,
reset_with_deffacts, set_conflict_resolution_strategy interleaved with insert / update / retract / fire_all / reset).
-/
namespace C06

theorem runRes_fst (ops : List Op) (e : Engine) : (e.runRes ops).1 = e.run ops := by
  induction ops generalizing e with
  | nil => rfl
  | cons o os ih => simp only [Engine.runRes, Engine.run]; exact ih _

/-- **insert_explicit is insert**: same engine state, same handle. -/
theorem insert_explicit_is_insert (e : Engine) (ty : Nat) (d : Data) :
    (e.xstep (.insertExplicit ty d)).1 = (e.step (.insert ty d)).1 ∧
    (e.xstep (.insertExplicit ty d)).2 = .res (e.step (.insert ty d)).2 := ⟨rfl, rfl⟩

/-- **the strategy setter is transparent**: the engine state (working memory, agenda, fired flags) is unchanged. -/
theorem strategy_transparent (e : Engine) (k : Nat) : (e.xstep (.strategy k)).1 = e := rfl

/-- **a rejected template insert is transparent**: nothing enters working memory, no handle is consumed, nothing is activated;
an accepted one is `insert`. -/
theorem insert_template_checked (e : Engine) (ty : Nat) (d : Data) :
    (templateOk ty d = false → e.xstep (.insertTemplate ty d) = (e, .rejected)) ∧
    (templateOk ty d = true → (e.xstep (.insertTemplate ty d)).1 = (e.step (.insert ty d)).1) := by
  constructor <;> intro h <;> simp [Engine.xstep, Engine.step, h]

/-- every extended operation except `reset_with_deffacts` is the list `XOp.lower` of base operations … -/
theorem xstep_eq_run_lower (e : Engine) (x : XOp) (hx : x ≠ .resetDeffacts) : (e.xstep x).1 = e.run x.lower := by
  cases x with
  | base o => rfl
  | insertExplicit ty d => rfl
  | insertTemplate ty d =>
    by_cases h : templateOk ty d = true
    · simp [Engine.xstep, XOp.lower, h, Engine.run, Engine.step]
    · simp [Engine.xstep, XOp.lower, h, Engine.run]
  | strategy k => rfl
  | loadDeffacts => simp only [Engine.xstep, XOp.lower]; exact runRes_fst _ _
  | loadByName k =>
    by_cases h : (k == 0) = true
    · simp only [Engine.xstep, XOp.lower, h, if_true]; exact runRes_fst _ _
    · simp [Engine.xstep, XOp.lower, h, Engine.run]
  | resetDeffacts => exact absurd rfl hx

/-- … and `reset_with_deffacts` is the re-initialisation (empty working memory, cleared agenda, same rules) followed by the
inserts of `load_deffacts`. -/
theorem xstep_resetDeffacts (e : Engine) :
    (e.xstep .resetDeffacts).1 = e.resetForDeffacts.run loadAllOps ∧
    e.resetForDeffacts.wm = {} ∧ e.resetForDeffacts.rules = e.rules ∧ e.resetForDeffacts.ag.acts = [] ∧
    e.resetForDeffacts.ag.fired = [] := by
  refine ⟨?_, rfl, rfl, rfl, rfl⟩
  simp only [Engine.xstep]; exact runRes_fst _ _

/-- **extended histories are histories of the five operations**: an extended history without `reset_with_deffacts` reaches
exactly the state of the base history obtained by lowering every call — so every theorem of Theorems.lean about
`({ rules := rules } : Engine).run ops` speaks about these histories too. -/
theorem xrun_eq_run_lower (xs : List XOp) (e : Engine) (h : XOp.resetDeffacts ∉ xs) :
    e.xrun xs = e.run (xs.flatMap XOp.lower) := by
  induction xs generalizing e with
  | nil => rfl
  | cons x xs ih =>
    simp only [List.mem_cons, not_or] at h
    simp only [Engine.xrun, List.flatMap_cons, run_append]
    rw [xstep_eq_run_lower e x (fun hx => h.1 hx.symm)]
    exact ih _ h.2

theorem xstep_pres {P : WM → Prop} (hp : Pres P) (h0 : P {}) (e : Engine) (x : XOp) (he : P e.wm) : P (e.xstep x).1.wm := by
  by_cases hx : x = .resetDeffacts
  · subst hx
    rw [(xstep_resetDeffacts e).1]
    exact run_pres hp _ _ h0
  · rw [xstep_eq_run_lower e x hx]; exact run_pres hp _ _ he

theorem xrun_pres {P : WM → Prop} (hp : Pres P) (h0 : P {}) (xs : List XOp) (e : Engine) (he : P e.wm) : P (e.xrun xs).wm := by
  induction xs generalizing e with
  | nil => exact he
  | cons x xs ih => exact ih _ (xstep_pres hp h0 e x he)

/-- **wm_views_agree** on extended histories — `reset_with_deffacts` included: by handle, under its type, in both listings. -/
theorem wm_views_agree_xhistory (rules : List Rule) (xs : List XOp) :
    WMInv (({ rules := rules } : Engine).xrun xs).wm :=
  xrun_pres wminv_pres wminv_init xs _ wminv_init

/-- **handles_fresh** on extended histories: within one working memory (no `reset_with_deffacts`, which installs a NEW working
memory whose numbering restarts at 1) the next handle is larger than the handle of every fact ever inserted, through whichever
entry point; and for ALL extended histories every stored fact's handle is below `next_id`. -/
theorem handles_fresh_xhistory (rules : List Rule) (xs : List XOp) (ty : Nat) (d : Data) :
    (∀ f ∈ (({ rules := rules } : Engine).xrun xs).wm.facts, f.handle < ((({ rules := rules } : Engine).xrun xs).insert ty d).2) ∧
    (XOp.resetDeffacts ∉ xs → ∀ xs', XOp.resetDeffacts ∉ xs' →
      (({ rules := rules } : Engine).xrun xs).wm.nextId ≤ ((({ rules := rules } : Engine).xrun xs).xrun xs').wm.nextId) := by
  constructor
  · have : HInv (({ rules := rules } : Engine).xrun xs).wm :=
      xrun_pres hinv_pres (by intro f hf; simp at hf) xs _ (by intro f hf; simp at hf)
    intro f hf
    exact this f hf
  · intro h xs' h'
    rw [xrun_eq_run_lower xs' _ h']
    exact run_pres (nextId_mono_pres _) _ _ (Nat.le_refl _)

/-- `reset_with_deffacts` restarts the numbering (the statement "handles are never reused" is about one working memory):
non-vacuity of the epoch boundary — the first deffact gets handle 1 again. -/
example : ((({ rules := [] } : Engine).xrun [.insertExplicit 0 [(0, .int 1)], .resetDeffacts]).wm.facts.map (·.handle)) = [1, 2, 3] := by
  decide
example : ((({ rules := [] } : Engine).xrun [.loadDeffacts, .loadByName 0, .insertTemplate 1 [(0, .str 0)], .insertTemplate 1 [(0, .int 3)],
    .strategy 3]).wm.facts.map (·.handle)) = [1, 2, 3, 4, 5, 6] := by decide

/-! ### string operators and `in` (typed core): the comparison kernels -/

/-- `contains` / `startsWith` / `endsWith` are false unless both sides are strings; `in` is false against anything but an array,
and membership by structural equality against an array (so `Integer 1` is not in `[Float 1.0]`). -/
theorem string_ops_need_strings (a b : Val) (op : Cmp) (hop : op = .contains ∨ op = .startsWith ∨ op = .endsWith)
    (h : (∀ s, a ≠ .str s) ∨ (∀ s, b ≠ .str s)) : a.compare op b = false := by
  rcases hop with rfl | rfl | rfl <;> cases a <;> cases b <;> simp_all [Val.compare]

theorem in_is_membership (a : Val) (vs : List Val) (b : Val) :
    a.compareArr .isIn vs = vs.contains a ∧ a.compare .isIn b = false := ⟨rfl, rfl⟩

example : (Val.str 10006).compare .contains (.str 10002) = true := by decide        -- "ab" contains "b"
example : (Val.str 10006).compare .startsWith (.str 10002) = false := by decide     -- "ab" startsWith "b"
example : (Val.str 10006).compare .endsWith (.str 10002) = true := by decide        -- "ab" endsWith "b"
example : (Val.int 1).compareArr .isIn [.flt 2, .int 3] = false := by decide
example : (Val.int 3).compareArr .isIn [.flt 2, .int 3] = true := by decide

end C06
