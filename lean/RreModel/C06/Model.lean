import RreModel.C07.Model
/-
C06 — model of the incremental RETE engine:
  * `src/rete/working_memory.rs`  `WorkingMemory` (facts by handle, type index, retracted flag, next_id)
  * `src/rete/propagation.rs`     `IncrementalEngine` insert / update / retract / reset, `propagate_changes_for_type`,
                                   `propagate_changes`, `fire_all` ([fix-C06b] only executed activations are counted; liveness check, [fix-C06] re-validation of the rule node on the
                                   matched fact, action on the flattened copy, write-back by type, re-propagation, action results)
  * `src/rete/network.rs` `evaluate_rete_ul_node_typed`, `src/rete/alpha.rs` `AlphaNode::matches_typed`,
    `src/rete/facts.rs` `FactValue::compare` — restricted to the typed core GRL produces for single-type rules
    (`src/rete/grl_loader.rs`: UlAlpha / UlAnd / UlOr / UlNot over `Type.field <op> literal | Type.other_field`).
The agenda is C07's model.  Fact types, field names, rule names and string values are `Nat` identifiers.
Where the Rust code iterates a `HashMap`/`HashSet` (order of rules/facts during propagation; which fact of a type
"wins" the un-prefixed `Type.field` keys of the flattened copy) the model uses ascending order / the last live fact;
the theorems below do not depend on that choice, and the correspondence check compares complete observations only on
histories where the choice cannot matter (at most one live fact per type), the oracle being evaluated on all.
-/
namespace C06
open C07 (Act Agenda)

inductive Val where
  | int (i : Int)
  | bool (b : Bool)
  | str (s : Nat)
  | flt (twice : Int)       -- `FactValue::Float(twice / 2)`: halves are exact in f64, so no rounding is modelled
  | null                    -- `FactValue::Null`: equal to itself only, no float value
deriving Repr, DecidableEq

def log2f : Nat → Nat → Nat
  | 0, _ => 0
  | fuel + 1, n => if n ≥ 2 then log2f fuel (n / 2) + 1 else 0

/-- round an integer significand to 53 bits, ties to even (`i64 as f64`, and the rounding of every f64 operation) -/
def round53 (m : Int) : Int :=
  let n := m.natAbs
  if n < 2 ^ 53 then m else
    let e := log2f n n - 52
    let q := n / 2 ^ e
    let r := n % 2 ^ e
    let half := 2 ^ (e - 1)
    let q' := if r > half || (r == half && q % 2 == 1) then q + 1 else q
    (if m < 0 then -1 else 1) * ((q' * 2 ^ e : Nat) : Int)

inductive Cmp where
  | eq | ne | lt | le | gt | ge
  | contains | startsWith | endsWith   -- string operators of the typed core (`FactValue::contains` / `starts_with` / `ends_with`)
  | isIn                               -- `in` (`FactValue::in_array`): only an array on the right-hand side can make it true
deriving Repr, DecidableEq

/-- the text of the string with identifier `k` (harness/src/bin/c06.rs): `k ≥ 10000` = the word over {a, b, c} whose letters are
the base-4 digits (1, 2, 3) of `k - 10000`, most significant first (`wab` = 10000 + 4·1 + 2); `1000 ≤ k < 10000` = the text
`T<ty>.f<field>` of a dangling variable reference (`danglingVar`); otherwise `s<k>`.  Distinct identifiers have distinct texts
(words use a–c only and never the digit 0 of base 4; the other two classes start with `T` / `s`). -/
def wordLetters : Nat → Nat → List Char
  | 0, _ => []
  | fuel + 1, n => if n == 0 then [] else wordLetters fuel (n / 4) ++ [Char.ofNat (96 + n % 4)]

/-- the strings `5000 + i` (harness table `QS`): leading / trailing / only blanks, the empty string, and texts that read as a
number, a boolean or null — with and without blanks around them -/
def oddStrings : List String := ["", " ", "  ", "7 ", " 7", "7", " 7 ", "1.5", "1.5 ", "true", " true", "null", "null ", "a ", " a",
  "a b", " a ", "a\t", "-4", "15", "b ", " ab"]

def strChars (k : Nat) : List Char :=
  if k ≥ 10000 then wordLetters (k - 10000 + 1) (k - 10000)
  else if k ≥ 5000 then (oddStrings.getD (k - 5000) "?").toList
  else if k ≥ 1000 then ("T" ++ toString ((k - 1000) / 100) ++ ".f" ++ toString ((k - 1000) % 100)).toList
  else ("s" ++ toString k).toList

/-- value of a non-empty run of ASCII digits -/
def digitsVal (cs : List Char) : Option Nat :=
  if cs.isEmpty || !cs.all Char.isDigit then none else some (cs.foldl (fun n c => 10 * n + (c.toNat - 48)) 0)

/-- the classification chain of `AlphaNode::parse_value_string` on a stand-alone literal TEXT — and of `str::parse::<i64>` /
`::<f64>` / `::<bool>`, none of which trims: `[+-]digits` is an Integer (beyond i64: the Float), `[+-]digits.digits` a Float (only
values that are exact halves are in the modelled domain: anything else reads as `none` here and the generator stays clear of it;
exponents, `inf`, `nan` likewise), `true` / `false` a Boolean, `null` Null; every other text — in particular every text with a
blank in front of or behind the number — stays a String (`none`). -/
def classifyText (cs : List Char) : Option Val :=
  let neg := cs.head? == some '-'
  let body := if cs.head? == some '-' || cs.head? == some '+' then cs.drop 1 else cs
  let sgn : Int := if neg then -1 else 1
  match digitsVal body with
  | some n =>
    let i : Int := sgn * (n : Int)
    if -(2 ^ 63 : Int) ≤ i && i < (2 ^ 63 : Int) then some (.int i) else some (.flt (2 * round53 i))
  | none =>
    let ip := body.takeWhile Char.isDigit
    match body.dropWhile Char.isDigit with
    | '.' :: fp =>
      (match digitsVal (if ip.isEmpty then ['0'] else ip), digitsVal (if fp.isEmpty then ['0'] else fp) with
       | some a, some f =>
         if ip.isEmpty && fp.isEmpty then none
         else if (2 * f) % (10 ^ fp.length) == 0 && a < 2 ^ 52 then some (.flt (sgn * ((2 * a + 2 * f / 10 ^ fp.length : Nat) : Int)))
         else none
       | _, _ => none)
    | _ =>
      if cs == "true".toList then some (.bool true) else if cs == "false".toList then some (.bool false)
      else if cs == "null".toList then some .null else none

/-- the value an alpha node compares against when its value text is the text of `v` (`parse_value_string`, not an array, not a
key of the fact view): a string literal whose text reads as a number / boolean / null loses its type -/
def classifyLit : Val → Val
  | .str k => (classifyText (strChars k)).getD (.str k)
  | v => v

/-- `FactValue::as_float`, scaled by two (integers — `*i as f64`, rounded to 53 bits beyond 2^53 —, exact half-integer floats, and
strings whose text parses as a number: `s.parse::<f64>()`, no trimming) -/
def Val.twice? : Val → Option Int
  | .int i => some (2 * round53 i)
  | .flt t => some t
  | .str k => (match classifyText (strChars k) with | some (.int i) => some (2 * round53 i) | some (.flt t) => some t | _ => none)
  | _ => none

/-- `str::contains` on character lists -/
def isInfix (p s : List Char) : Bool := (List.range (s.length + 1)).any (fun i => p.isPrefixOf (s.drop i))

/-- `FactValue::compare` on the typed core: `==`/`!=` structural (so `Integer(1) ≠ Float(1.0)`); ordering
through `as_float` (integers and floats compare numerically across the two representations — booleans, nulls and
non-numeric strings have no float value: `<`,`>` are false, `<=`,`>=` fall back to `==`) -/
def Val.compare (a : Val) (op : Cmp) (b : Val) : Bool :=
  match op with
  | .contains => (match a, b with | .str s, .str p => isInfix (strChars p) (strChars s) | _, _ => false)
  | .startsWith => (match a, b with | .str s, .str p => (strChars p).isPrefixOf (strChars s) | _, _ => false)
  | .endsWith => (match a, b with | .str s, .str p => (strChars p).reverse.isPrefixOf (strChars s).reverse | _, _ => false)
  | .isIn => false                    -- the right-hand side is not an array (`Rhs.arr` is handled by `Val.compareArr`)
  | .eq => a == b
  | .ne => a != b
  | .lt => (match a.twice?, b.twice? with | some x, some y => decide (x < y) | _, _ => false)
  | .gt => (match a.twice?, b.twice? with | some x, some y => decide (x > y) | _, _ => false)
  | .le => (match a.twice?, b.twice? with | some x, some y => decide (x ≤ y) | _, _ => a == b)
  | .ge => (match a.twice?, b.twice? with | some x, some y => decide (x ≥ y) | _, _ => a == b)

/-- `FactValue::compare` against an array literal `[v, …]` (no fact of the typed core holds an array): `in` is membership by
structural equality; `!=` is true (different variants); everything else is false (`==`; the orderings have no float value and
fall back to `==`; `contains` / `startsWith` / `endsWith` need a string pattern) -/
def Val.compareArr (a : Val) (op : Cmp) (vs : List Val) : Bool :=
  match op with
  | .isIn => vs.contains a
  | .ne => true
  | _ => false

abbrev Data := List (Nat × Val)       -- `TypedFacts` of one fact: field ↦ value (first binding wins)

def Data.get (d : Data) (f : Nat) : Option Val :=
  match d with
  | [] => none
  | (k, v) :: t => if k == f then some v else Data.get t f

def Data.set (d : Data) (f : Nat) (v : Val) : Data :=
  match d with
  | [] => [(f, v)]
  | (k, w) :: t => if k == f then (k, v) :: t else (k, w) :: Data.set t f v


/-! ### arithmetic (`src/expression.rs` for the right-hand sides of assignments, `src/rete/alpha.rs`
`evaluate_arithmetic_rete` / `evaluate_arithmetic_expr` for `test(...)` conditions)

Both evaluators work on `f64`.  The model computes on dyadic rationals `m / 2^k` and rounds the significand to 53 bits after
every conversion and operation (`round53`: round-to-nearest-even, exponent range not modelled), which is what IEEE arithmetic does
for `+ - *`, for `%` (`fmod` is exact) and for a division whose exact quotient is dyadic; a quotient that is not dyadic
(`1 / 3`), NaN stored into a fact (`x % 0`) and floats that are not multiples of 1/2 as *stored* values are outside the modelled
value domain (`inexact` — the harness flags runs in which such a value shows up, the generator stays clear of them). -/

inductive AOp where
  | add | sub | mul | div | mod
deriving Repr, DecidableEq

/-- an operand as it is written in the text: a non-negative number (`twice / 2`, printed `n` or `n.5`), a field reference
`T<ty>.f<field>`, or a quoted word (string identifier) -/
inductive Atom where
  | num (twice : Nat)
  | fld (ty field : Nat)
  | word (s : Nat)
deriving Repr, DecidableEq

/-- a flat expression `a₀ op₁ a₁ op₂ a₂ …` (neither evaluator knows parentheses) -/
structure Expr where
  head : Atom
  tail : List (AOp × Atom) := []
deriving Repr, DecidableEq

structure Dy where
  m : Int
  k : Nat := 0
deriving Repr, DecidableEq

/-- `f64 as i64` (saturating) -/
def clampI64 (i : Int) : Int := if i < -(2 ^ 63) then -(2 ^ 63) else if i > 2 ^ 63 - 1 then 2 ^ 63 - 1 else i

def Dy.whole (a : Dy) : Bool := a.m % ((2 ^ a.k : Nat) : Int) == 0
def Dy.toInt (a : Dy) : Int := a.m / ((2 ^ a.k : Nat) : Int)
def Dy.rnd (a : Dy) : Dy := { a with m := round53 a.m }
/-- twice the value, when that is an integer (the value is a multiple of 1/2) -/
def Dy.twice? (a : Dy) : Option Int :=
  if (2 * a.m) % ((2 ^ a.k : Nat) : Int) == 0 then some ((2 * a.m) / ((2 ^ a.k : Nat) : Int)) else none

/-- `n = 2^j · g`, `g` odd (for `n > 0`) -/
def oddPart : Nat → Nat → Nat × Nat
  | 0, n => (0, n)
  | fuel + 1, n => if n % 2 == 0 && n != 0 then let r := oddPart fuel (n / 2); (r.1 + 1, r.2) else (0, n)

inductive ARes where
  | fin (d : Dy)
  | divZero
  | nan
  | inexact
deriving Repr, DecidableEq

/-- one f64 operation -/
def arith (op : AOp) (a b : Dy) : ARes :=
  let k := max a.k b.k
  let am := a.m * ((2 ^ (k - a.k) : Nat) : Int)
  let bm := b.m * ((2 ^ (k - b.k) : Nat) : Int)
  match op with
  | .add => .fin (Dy.rnd { m := am + bm, k := k })
  | .sub => .fin (Dy.rnd { m := am - bm, k := k })
  | .mul => .fin (Dy.rnd { m := a.m * b.m, k := a.k + b.k })
  | .mod => if b.m == 0 then .nan else .fin { m := Int.tmod am bm, k := k }
  | .div =>
    if b.m == 0 then .divZero else
      -- value = am / bm;  |bm| = 2^j · g with g odd: dyadic iff g divides am
      let jg := oddPart bm.natAbs bm.natAbs
      let g : Int := (jg.2 : Int) * (if bm < 0 then -1 else 1)
      if am % g == 0 then .fin (Dy.rnd { m := am / g, k := jg.1 }) else .inexact

def isAddSub : AOp → Bool
  | .add | .sub => true
  | _ => false

/-- index of the last operator of the tail that satisfies `p` (`rfind` / `find_operator`) -/
def lastIdx (p : AOp → Bool) : List (AOp × Atom) → Nat → Option Nat → Option Nat
  | [], _, acc => acc
  | (o, _) :: t, i, acc => lastIdx p t (i + 1) (if p o then some i else acc)

/-- where the text is split: the operator classes are tried in order, the rightmost operator of the first class that occurs
wins.  `src/expression.rs`: `+ -`, then `* / %` (the usual precedence, left-associative).  `src/rete/alpha.rs` before fix-C06e:
`+`, then `-`, then `*`, then `/`, then `%`, each on its own — `a * b % c` was read as `a * (b % c)`. -/
def splitIdx (classes : List (AOp → Bool)) (tail : List (AOp × Atom)) : Option Nat :=
  classes.findSome? (fun p => lastIdx p tail 0 none)

def stdClasses : List (AOp → Bool) := [isAddSub, fun o => !isAddSub o]
/-- `evaluate_arithmetic_expr` BEFORE fix-C06e: every operator a class of its own (`a * b % c` = `a * (b % c)`, `a / b % c` =
`a / (b % c)`) -/
def alphaClassesPreFix : List (AOp → Bool) := [(· == .add), (· == .sub), (· == .mul), (· == .div), (· == .mod)]
/-- `evaluate_arithmetic_expr` [after fix-C06e]: the two classes of `src/expression.rs` -/
def alphaClasses : List (AOp → Bool) := stdClasses

/-- the recursive descent both evaluators share (`fuel` = number of operators: every split leaves fewer on either side) -/
def evalSplit {R : Type} (classes : List (AOp → Bool)) (leaf : Atom → R) (app : AOp → R → R → R) : Nat → Atom → List (AOp × Atom) → R
  | 0, a, _ => leaf a
  | fuel + 1, a, tail =>
    match splitIdx classes tail with
    | none => leaf a
    | some i =>
      match tail.drop i with
      | (o, b) :: rest => app o (evalSplit classes leaf app fuel a (tail.take i)) (evalSplit classes leaf app fuel b rest)
      | [] => leaf a

def Expr.evalWith {R : Type} (classes : List (AOp → Bool)) (leaf : Atom → R) (app : AOp → R → R → R) (e : Expr) : R :=
  evalSplit classes leaf app e.tail.length e.head e.tail

/-- text of the word `a ++ b` for two words over {a, b, c} (identifiers ≥ 10000) -/
def wordConcat (a b : Nat) : Nat :=
  10000 + (a - 10000) * 4 ^ (wordLetters (b - 10000 + 1) (b - 10000)).length + (b - 10000)

/-- the string that stands for a value outside the modelled domain (never produced by the generator) -/
def unmodelled : Val := .str 999

/-- a `types::Value` during the evaluation of a right-hand side: `Integer`, `Number` (dyadic), or anything else -/
inductive XV where
  | int (i : Int)
  | num (d : Dy)
  | other (v : Val)
  | err                      -- `Err(_)`: unknown field, non-numeric operand, division by zero
  | inexact
deriving Repr, DecidableEq

/-- `fact_value_to_value` (strings of the typed core never parse as numbers or booleans) -/
def XV.ofVal : Val → XV
  | .int i => .int i
  | .flt t => .num { m := t, k := 1 }
  | v => .other v

/-- `value_to_number` -/
def XV.num? : XV → Option Dy
  | .int i => some { m := round53 i }
  | .num d => some d
  | _ => none

/-- `apply_operator` -/
def XV.apply (op : AOp) (l r : XV) : XV :=
  match l, r with
  | .err, _ => .err                         -- `evaluate_expression(left)?` / `(right)?`
  | _, .err => .err
  | .inexact, _ => .inexact
  | _, .inexact => .inexact
  | _, _ =>
    match l.num?, r.num? with
    | some a, some b =>
      (match arith op a b with
       | .fin d =>
         (match l, r with
          | .int _, .int _ => if d.whole then .int (clampI64 d.toInt) else .num d
          | _, _ => .num d)
       | .divZero => .err
       | .nan => .inexact
       | .inexact => .inexact)
    | _, _ =>
      if op == .add then
        (match l, r with
         | .other (.str a), .other (.str b) => if a ≥ 10000 && b ≥ 10000 then .other (.str (wordConcat a b)) else .inexact
         | _, _ => .err)
      else .err

/-- `value_to_fact_value` of the result; `sid` = identifier of the expression's own text, which is what an `Err` stores
(`evaluate_expression_for_rete`: "silently fallback") -/
def XV.store (sid : Nat) : XV → Val
  | .int i => .int i
  | .num d =>
    if d.whole then .int (clampI64 d.toInt)
    else (match d.twice? with | some t => .flt t | none => unmodelled)
  | .other v => v
  | .err => .str sid
  | .inexact => unmodelled

/-- `look t f` = the key `T<t>.f<f>` of the flattened copy -/
def Atom.xv (look : Nat → Nat → Option Val) : Atom → XV
  | .num t => if t % 2 == 0 then .int (t / 2 : Nat) else .num { m := t, k := 1 }
  | .fld t f => (match look t f with | some v => XV.ofVal v | none => .err)
  | .word s => .other (.str s)

/-- `evaluate_expression_for_rete` + `value_to_fact_value`: the value an assignment `T.f = <expr>` stores -/
def Expr.actXV (look : Nat → Nat → Option Val) (e : Expr) : XV := e.evalWith stdClasses (Atom.xv look) XV.apply

def Expr.actVal (look : Nat → Nat → Option Val) (sid : Nat) (e : Expr) : Val := (e.actXV look).store sid

/-- the value of a `test(...)` left-hand side: `fail` = the evaluator gave up (`None`) (the test is false) -/
inductive TV where
  | val (v : Val)            -- `Integer` (whole results), `Float` (multiples of 1/2), or a field's value as it is (no operator)
  | frac (d : Dy)            -- a `Float` that is not a multiple of 1/2
  | nan
  | fail
deriving Repr, DecidableEq

/-- `FactValue::as_number` -/
def TV.num? : TV → Option (Option Dy)     -- `some none` = NaN
  | .val (.int i) => some (some { m := round53 i })
  | .val (.flt t) => some (some { m := t, k := 1 })
  | .frac d => some (some d)
  | .nan => some none
  | _ => none

/-- "Return Integer if result is whole number, otherwise Float" -/
def TV.ofDy (d : Dy) : TV :=
  if d.whole then .val (.int (clampI64 d.toInt)) else (match d.twice? with | some t => .val (.flt t) | none => .frac d)

/-- one step of `evaluate_arithmetic_expr` -/
def TV.apply (op : AOp) (l r : TV) : TV :=
  match l.num?, r.num? with
  | some a, some b =>
    (match a, b with
     | some x, some y =>
       (match arith op x y with
        | .fin d => TV.ofDy d
        | .divZero => .fail              -- `"/" if right_val != 0.0`, otherwise `_ => return None`
        | .nan => .nan
        | .inexact => .fail)             -- outside the modelled domain
     | _, some y => if op == .div && y.m == 0 then .fail else .nan
     | _, none => .nan)
  | _, _ => .fail

def Atom.tv (look : Nat → Nat → Option Val) : Atom → TV
  | .num t => if t % 2 == 0 then .val (.int (t / 2 : Nat)) else .val (.flt t)
  | .fld t f => (match look t f with | some v => .val v | none => .fail)
  | .word _ => .fail

/-- `left_val.compare(op, &right_val)` for a computed left-hand side -/
def TV.compare (l : TV) (op : Cmp) (r : Val) : Bool :=
  match l with
  | .val v => v.compare op r
  | .nan => op == .ne
  | .frac d =>
    (match op with
     | .ne => true
     | .lt => (match r.twice? with | some y => decide (2 * d.m < y * ((2 ^ d.k : Nat) : Int)) | none => false)
     | .le => (match r.twice? with | some y => decide (2 * d.m ≤ y * ((2 ^ d.k : Nat) : Int)) | none => false)
     | .gt => (match r.twice? with | some y => decide (2 * d.m > y * ((2 ^ d.k : Nat) : Int)) | none => false)
     | .ge => (match r.twice? with | some y => decide (2 * d.m ≥ y * ((2 ^ d.k : Nat) : Int)) | none => false)
     | _ => false)
  | .fail => false

/-- an arithmetic condition `<expr> <cmp> <rhs>` (`Condition::with_test`: the alpha node `test(<text>) == true`);
`classes` = how the text is split (the code: `alphaClasses`) -/
def testEval (classes : List (AOp → Bool)) (look : Nat → Nat → Option Val) (e : Expr) (op : Cmp) (rhs : Atom) : Bool :=
  match e.evalWith classes (Atom.tv look) TV.apply with
  | .fail => false
  | l =>
    match rhs with
    | .num t => l.compare op (if t % 2 == 0 then .int (t / 2 : Nat) else .flt t)
    | .fld t f => (match look t f with | some v => l.compare op v | none => false)
    | .word _ => false

/-- right-hand side of an alpha node: a literal, or a variable reference `Type.field` -/
inductive Rhs where
  | lit (v : Val)
  | var (ty field : Nat)
  | arr (vs : List Val)     -- array literal `[v, …]` (`parse_value_string`, array branch)
deriving Repr, DecidableEq

inductive Node where
  | alpha (ty field : Nat) (op : Cmp) (rhs : Rhs)
  | and (l r : Node)
  | or (l r : Node)
  | not (n : Node)
  | test (e : Expr) (op : Cmp) (rhs : Atom)   -- `test(<expr> <op> <rhs>)` (an arithmetic left-hand side in GRL)
deriving Repr, DecidableEq

/-- the literal string "Type.field" a dangling variable reference degrades to (`parse_value_string`) -/
def danglingVar (ty field : Nat) : Val := .str (1000 + 100 * ty + field)

/-- `evaluate_rete_ul_node_typed` on the single-fact view built by the propagation functions: only the keys
`<ty>.<field>` of the one fact (`ty`, `d`) exist.  A missing left-hand field makes the alpha node false. -/
def Node.eval (ty : Nat) (d : Data) : Node → Bool
  | .alpha t f op rhs =>
    match (if t == ty then d.get f else none) with
    | none => false
    | some v =>
      match rhs with
      | .lit w => v.compare op w
      | .var t2 f2 => v.compare op (match (if t2 == ty then d.get f2 else none) with | some w => w | none => danglingVar t2 f2)
      | .arr vs => v.compareArr op vs
  | .and l r => l.eval ty d && r.eval ty d
  | .or l r => l.eval ty d || r.eval ty d
  | .not n => !n.eval ty d
  | .test e op rhs => testEval alphaClasses (fun t f => if t == ty then d.get f else none) e op rhs

/-- actions GRL produces for a single-type rule: assignments of literals to fields of the rule's type, optionally
followed by `retract(Type)` -/
structure Action where
  sets : List (Nat × Val) := []
  retract : Bool := false
  /-- assignments `T.f = <expr>` (executed after the literal ones, in order): field, expression, identifier of the expression's
  text as a string (what is stored when the evaluation fails) -/
  xsets : List (Nat × Expr × Nat) := []
deriving Repr, DecidableEq

/-- the expression assignments one after the other on the flattened copy: each is evaluated on the contents as the earlier
assignments left them (`execute_action`: `evaluate_expression_for_rete(expr, facts)` then `facts.set`).  `d` = the fields of the
rule's own type, `other t` = the fields of type `t ≠ ty` (assignments only write fields of the rule's type). -/
def resolveX (ty : Nat) (other : Nat → Data) : Data → List (Nat × Expr × Nat) → List (Nat × Val)
  | _, [] => []
  | d, (f, e, sid) :: rest =>
    let v := e.actVal (fun t k => if t == ty then d.get k else (other t).get k) sid
    (f, v) :: resolveX ty other (d.set f v) rest

/-- everything the action assigns, as literal assignments, when it runs on the flattened copy whose fields of the rule's type
are `orig` -/
def Action.resolve (a : Action) (ty : Nat) (other : Nat → Data) (orig : Data) : List (Nat × Val) :=
  a.sets ++ resolveX ty other (a.sets.foldl (fun d kv => Data.set d kv.1 kv.2) orig) a.xsets

structure Rule where
  name : Nat
  ty : Nat
  node : Node
  prio : Int
  noLoop : Bool
  action : Action := {}
deriving Repr, DecidableEq

structure Fact where
  handle : Nat
  ty : Nat
  data : Data
  retracted : Bool := false
deriving Repr, DecidableEq

/-- `WorkingMemory`: `facts` (the HashMap, in insertion order; retracted facts stay), `index` (type ↦ handles) -/
structure WM where
  facts : List Fact := []
  index : List (Nat × List Nat) := []
  nextId : Nat := 1
deriving Repr, DecidableEq

def indexAdd (ty h : Nat) : List (Nat × List Nat) → List (Nat × List Nat)
  | [] => [(ty, [h])]
  | (t, hs) :: rest => if t == ty then (t, hs ++ [h]) :: rest else (t, hs) :: indexAdd ty h rest

def indexRemove (ty h : Nat) : List (Nat × List Nat) → List (Nat × List Nat)
  | [] => []
  | (t, hs) :: rest => if t == ty then (t, hs.filter (· != h)) :: rest else (t, hs) :: indexRemove ty h rest

def indexGet (ty : Nat) : List (Nat × List Nat) → List Nat
  | [] => []
  | (t, hs) :: rest => if t == ty then hs else indexGet ty rest

def WM.find (w : WM) (h : Nat) : Option Fact := w.facts.find? (·.handle == h)

/-- `WorkingMemory::insert` -/
def WM.insert (w : WM) (ty : Nat) (d : Data) : WM × Nat :=
  ({ facts := w.facts ++ [{ handle := w.nextId, ty := ty, data := d }], index := indexAdd ty w.nextId w.index,
     nextId := w.nextId + 1 }, w.nextId)

def mapFact (h : Nat) (f : Fact → Fact) : List Fact → List Fact
  | [] => []
  | x :: t => if x.handle == h then f x :: t else x :: mapFact h f t

/-- `WorkingMemory::update` (`none` = `Err`: unknown or retracted handle) -/
def WM.update (w : WM) (h : Nat) (d : Data) : Option WM :=
  match w.find h with
  | none => none
  | some f => if f.retracted then none else some { w with facts := mapFact h (fun x => { x with data := d }) w.facts }

/-- `WorkingMemory::retract` -/
def WM.retract (w : WM) (h : Nat) : Option WM :=
  match w.find h with
  | none => none
  | some f =>
    if f.retracted then none
    else some { w with facts := mapFact h (fun x => { x with retracted := true }) w.facts,
                       index := indexRemove f.ty h w.index }

/-- `WorkingMemory::get` -/
def WM.get (w : WM) (h : Nat) : Option Fact :=
  match w.find h with
  | some f => if f.retracted then none else some f
  | none => none

/-- `WorkingMemory::get_by_type` -/
def WM.getByType (w : WM) (ty : Nat) : List Fact :=
  ((indexGet ty w.index).filterMap w.find).filter (fun f => !f.retracted)

/-- `WorkingMemory::get_all_facts` -/
def WM.getAllFacts (w : WM) : List Fact := w.facts.filter (fun f => !f.retracted)

/-- `WorkingMemory::get_all_handles` -/
def WM.getAllHandles (w : WM) : List Nat := (w.facts.filter (fun f => !f.retracted)).map (·.handle)

structure Engine where
  wm : WM := {}
  rules : List Rule := []
  ag : Agenda := {}
  clock : Nat := 0
deriving Repr, DecidableEq

def mkAct (r : Rule) (h : Nat) (clock : Nat) : Act :=
  { rule := r.name, sal := r.prio, noLoop := r.noLoop, created := clock, handle := some h }

/-- one rule against a list of facts: an activation per fact whose contents satisfy the rule node -/
def addMatches (r : Rule) : List Fact → Agenda × Nat → Agenda × Nat
  | [], p => p
  | f :: fs, p =>
    if r.node.eval f.ty f.data then addMatches r fs (p.1.add (mkAct r f.handle p.2), p.2 + 1) else addMatches r fs p

/-- `propagate_changes_for_type`: the rules that depend on the type, against every live fact of the type -/
def Engine.propagateType (e : Engine) (ty : Nat) : Engine :=
  let facts := e.wm.getByType ty
  let r := (e.rules.filter (·.ty == ty)).foldl (fun p rule => addMatches rule facts p) (e.ag, e.clock)
  { e with ag := r.1, clock := r.2 }

def dedup : List Nat → List Nat
  | [] => []
  | x :: t => if (dedup t).contains x then dedup t else x :: dedup t

/-- `propagate_changes`: every type that has a live fact, every rule that depends on the type ([fix-C06c]: as in
`propagate_changes_for_type`; before the fix every rule was evaluated on the facts of every type, and a negated condition is
vacuously true on a fact of a foreign type) except the no-loop rules that already fired, every live fact of the type -/
def Engine.propagateAll (e : Engine) : Engine :=
  let types := dedup (e.wm.getAllFacts.map (·.ty))
  let r := types.foldl (fun p ty =>
      (e.rules.filter (fun rule => rule.ty == ty && !(rule.noLoop && p.1.fired.contains rule.name))).foldl
        (fun p rule => addMatches rule (e.wm.getByType ty) p) p) (e.ag, e.clock)
  { e with ag := r.1, clock := r.2 }

/-- `IncrementalEngine::insert` -/
def Engine.insert (e : Engine) (ty : Nat) (d : Data) : Engine × Nat :=
  let r := e.wm.insert ty d
  (({ e with wm := r.1 }).propagateType ty, r.2)

/-- `IncrementalEngine::update` (`false` = `Err`) -/
def Engine.update (e : Engine) (h : Nat) (d : Data) : Engine × Bool :=
  match e.wm.get h with
  | none => (e, false)
  | some f =>
    match e.wm.update h d with
    | none => (e, false)
    | some w => (({ e with wm := w }).propagateType f.ty, true)

/-- `IncrementalEngine::retract` (all facts are explicit assertions: the TMS cascade is empty) -/
def Engine.retract (e : Engine) (h : Nat) : Engine × Bool :=
  match e.wm.get h with
  | none => (e, false)
  | some f =>
    match e.wm.retract h with
    | none => (e, false)
    | some w => (({ e with wm := w }).propagateType f.ty, true)

/-- `IncrementalEngine::reset` -/
def Engine.reset (e : Engine) : Engine := { e with ag := e.ag.reset }

/-- the un-prefixed view `Type.field` of the flattened copy: the fields of the last live fact of the type -/
def flatOf (w : WM) (ty : Nat) : Data :=
  match (w.getAllFacts.filter (·.ty == ty)).getLast? with
  | some f => f.data
  | none => []

/-- write-back: assignments whose value differs from the flattened original (or that create the key) are applied to
*every* live fact of the type -/
def writeBack (w : WM) (ty : Nat) (sets : List (Nat × Val)) : WM :=
  let orig := flatOf w ty
  let final := sets.foldl (fun d kv => Data.set d kv.1 kv.2) orig
  let changed := final.filter (fun kv => orig.get kv.1 != some kv.2)
  if changed.isEmpty then w
  else { w with facts := w.facts.map (fun f =>
    if f.ty == ty && !f.retracted then { f with data := changed.foldl (fun d kv => Data.set d kv.1 kv.2) f.data } else f) }

/-- what the action of `rule` assigns when it runs now (the expressions read the flattened copy of working memory) -/
def Engine.setsOf (e : Engine) (rule : Rule) : List (Nat × Val) :=
  rule.action.resolve rule.ty (fun t => flatOf e.wm t) (flatOf e.wm rule.ty)

/-- a firing as seen by the action closure: rule, matched handle, contents of the matched fact in the flattened copy -/
structure Firing where
  rule : Nat
  handle : Nat
  data : Data
deriving Repr, DecidableEq

/-- body of the `fire_all` loop for one popped activation -/
def Engine.fireOne (e : Engine) (a : Act) : Engine × Option Firing :=
  match e.rules.find? (·.name == a.rule) with
  | none => (e, none)
  | some rule =>
    match a.handle with
    | none => (e, none)
    | some h =>
      match e.wm.get h with
      | none => (e, none)                                 -- matched fact retracted: skip
      | some f =>
        if !rule.node.eval f.ty f.data then (e, none)     -- fix-C06: stale activation, the condition is no longer true
        else
          let w1 := writeBack e.wm rule.ty (e.setsOf rule)
          let e1 := ({ e with wm := w1 }).propagateAll
          -- action results: `retract(Type)` resolves to the matched handle when the matched fact has the rule's type
          let target := if f.ty == rule.ty then some h else (e.wm.getAllFacts.filter (·.ty == rule.ty)).getLast?.map (·.handle)
          let e2 := if rule.action.retract then
              (match target with | some t => (e1.retract t).1 | none => e1) else e1
          ({ e2 with ag := e2.ag.mark a }, some { rule := rule.name, handle := h, data := f.data })

/-- the tests of `fire_all` that `continue` (the same tests as in `fireOne`): rule unknown, matched fact retracted, or the
re-validation of fix-C06 fails.  [fix-C06b] such an activation is dropped WITHOUT being counted against `max_iterations`. -/
def Engine.skips (e : Engine) (a : Act) : Bool :=
  match e.rules.find? (·.name == a.rule) with
  | none => true
  | some rule =>
    match a.handle with
    | none => true
    | some h =>
      match e.wm.get h with
      | none => true
      | some f => !rule.node.eval f.ty f.data

/-- `self.agenda.get_next_activation()`: skipped activations are discarded even when nothing is returned -/
def firePop (e : Engine) : Option Act × Engine := (e.ag.getNext.1, { e with ag := e.ag.getNext.2 })

/-- `IncrementalEngine::fire_all` [after fix-C06b]: C07's loop — pop until an activation passes the tests (`C07.incSkip`: the
skipping steps are bounded by the number of pending activations, which is the fuel of that inner loop), then count it against
`max_iterations = 1000` (`fuel` = executions still allowed; the valid activation that exceeds the bound is consumed and the
loop breaks) and execute it, collecting the firings. -/
def fireLoop : Nat → Engine → List Firing → Engine × List Firing
  | fuel, e, out =>
    match C07.incSkip firePop Engine.skips e.ag.acts.length e with
    | (none, e') => (e', out)
    | (some a, e') =>
      match fuel with
      | 0 => (e', out)
      | n + 1 =>
        let r := e'.fireOne a
        fireLoop n r.1 (match r.2 with | some x => out ++ [x] | none => out)

def Engine.fireAll (e : Engine) : Engine × List Firing := fireLoop C07.incBound e []

inductive Op where
  | insert (ty : Nat) (d : Data)
  | update (h : Nat) (d : Data)
  | retract (h : Nat)
  | fire
  | reset
deriving Repr, DecidableEq

/-- result of one API call -/
inductive Res where
  | handle (h : Nat)
  | ok (b : Bool)
  | fired (fs : List Firing)
  | unit
deriving Repr, DecidableEq

def Engine.step (e : Engine) : Op → Engine × Res
  | .insert ty d => let r := e.insert ty d; (r.1, .handle r.2)
  | .update h d => let r := e.update h d; (r.1, .ok r.2)
  | .retract h => let r := e.retract h; (r.1, .ok r.2)
  | .fire => let r := e.fireAll; (r.1, .fired r.2)
  | .reset => (e.reset, .unit)

def Engine.run (e : Engine) : List Op → Engine
  | [] => e
  | o :: os => Engine.run (e.step o).1 os

/-! ### `GrlReteLoader` (`src/rete/grl_loader.rs`) on the typed core

A rule of the typed core written as GRL text (`rule "R" salience p [no-loop] { when <node> then <T.f = literal;>* [retract(T);] }`)
and loaded by `load_from_string`: `convert_condition_group` maps `Single` ↦ `UlAlpha`, `Compound And/Or` ↦ `UlAnd`/`UlOr` and
`Not(inner)` ↦ `UlNot(convert inner)` — the negation stays a node of its own, it is NOT folded into the comparison (a
comparison on an absent / null / non-numeric field is false, so its negation is true, whereas the complementary comparison is
false as well).  `create_action_closure` executes `Set` as `facts.set` and `Retract` through the matched handle, which is what
`writeBack` / `fireOne` model.  The one thing the text round trip changes is a float literal with an integral value:
`value_to_string(Value::Number(15.0))` prints "15", which the alpha node parses back as `Integer(15)`, and
`value_to_fact_value(Value::Number(15.0))` stores `Integer(15)` (`n.fract() == 0.0`). -/

/-- a literal after the trip through GRL text and the loader -/
def loaderVal : Val → Val
  | .flt t => if t % 2 == 0 then .int (t / 2) else .flt t
  | v => v

/-- `convert_condition_group` / `convert_condition` -/
def loaderNode : Node → Node
  | .alpha ty f op (.lit v) => .alpha ty f op (.lit (loaderVal v))
  | .alpha ty f op (.var t2 f2) => .alpha ty f op (.var t2 f2)
  | .alpha ty f op (.arr vs) => .alpha ty f op (.arr (vs.map loaderVal))   -- `value_to_string` element by element
  | .and l r => .and (loaderNode l) (loaderNode r)
  | .or l r => .or (loaderNode l) (loaderNode r)
  | .not n => .not (loaderNode n)
  | .test e op rhs => .test e op rhs       -- the text of the expression is carried as it is

/-- `convert_rule_to_rete`: name, salience, no-loop are copied -/
def loaderRule (r : Rule) : Rule :=
  { r with node := loaderNode r.node,
           action := { r.action with sets := r.action.sets.map (fun kv => (kv.1, loaderVal kv.2)) } }

/-- literals that the round trip leaves alone -/
def Val.grlExact : Val → Bool
  | .flt t => t % 2 != 0
  | _ => true

def Node.grlExact : Node → Bool
  | .alpha _ _ _ (.lit v) => v.grlExact
  | .alpha _ _ _ (.var _ _) => true
  | .alpha _ _ _ (.arr vs) => vs.all Val.grlExact
  | .and l r => l.grlExact && r.grlExact
  | .or l r => l.grlExact && r.grlExact
  | .not n => n.grlExact
  | .test _ _ _ => true

end C06
