import RreModel.C07.Model
/-
C06 — model of the incremental RETE engine:
  * `src/rete/working_memory.rs`  `WorkingMemory` (facts by handle, type index, retracted flag, next_id)
  * `src/rete/propagation.rs`     `IncrementalEngine` insert / update / retract / reset, `propagate_changes_for_type`,
                                   `propagate_changes`, `fire_all` ([fix-C06b] only executed activations are counted; liveness check, [fix-C06] re-validation of the rule node on the
                                   matched fact, action on the flattened copy, write-back by type, re-propagation, action results)
  * `src/rete/network.rs` `evaluate_rete_ul_node_typed`, `src/rete/alpha.rs` `AlphaNode::matches_typed`,
    `src/rete/facts.rs` `FactValue::compare` — restricted to the typed core GRL produces for single-type rules
    (`src/rete/grl_loader.rs`: UlAlpha / UlAnd / UlOr / UlNot over `Type.field <op> literal | Type.other_field`).
The agenda is C07's model.  Fact types, field names, rule names and string values are `Nat` identifiers.
Where the Rust code iterates a `HashMap`/`HashSet` (order of rules/facts during propagation; which fact of a type
"wins" the un-prefixed `Type.field` keys of the flattened copy) the model uses ascending order / the last live fact;
the theorems below do not depend on that choice, and the correspondence check compares complete observations only on
histories where the choice cannot matter (at most one live fact per type), the oracle being evaluated on all.
-/
namespace C06
open C07 (Act Agenda)

inductive Val where
  | int (i : Int)
  | bool (b : Bool)
  | str (s : Nat)
  | flt (twice : Int)       -- `FactValue::Float(twice / 2)`: halves are exact in f64, so no rounding is modelled
  | null                    -- `FactValue::Null`: equal to itself only, no float value
deriving Repr, DecidableEq

/-- `FactValue::as_float`, scaled by two (integers and exact half-integer floats) -/
def Val.twice? : Val → Option Int
  | .int i => some (2 * i)
  | .flt t => some t
  | _ => none

inductive Cmp where
  | eq | ne | lt | le | gt | ge
  | contains | startsWith | endsWith   -- string operators of the typed core (`FactValue::contains` / `starts_with` / `ends_with`)
  | isIn                               -- `in` (`FactValue::in_array`): only an array on the right-hand side can make it true
deriving Repr, DecidableEq

/-- the text of the string with identifier `k` (harness/src/bin/c06.rs): `k ≥ 10000` = the word over {a, b, c} whose letters are
the base-4 digits (1, 2, 3) of `k - 10000`, most significant first (`wab` = 10000 + 4·1 + 2); `1000 ≤ k < 10000` = the text
`T<ty>.f<field>` of a dangling variable reference (`danglingVar`); otherwise `s<k>`.  Distinct identifiers have distinct texts
(words use a–c only and never the digit 0 of base 4; the other two classes start with `T` / `s`). -/
def wordLetters : Nat → Nat → List Char
  | 0, _ => []
  | fuel + 1, n => if n == 0 then [] else wordLetters fuel (n / 4) ++ [Char.ofNat (96 + n % 4)]

def strChars (k : Nat) : List Char :=
  if k ≥ 10000 then wordLetters (k - 10000 + 1) (k - 10000)
  else if k ≥ 1000 then ("T" ++ toString ((k - 1000) / 100) ++ ".f" ++ toString ((k - 1000) % 100)).toList
  else ("s" ++ toString k).toList

/-- `str::contains` on character lists -/
def isInfix (p s : List Char) : Bool := (List.range (s.length + 1)).any (fun i => p.isPrefixOf (s.drop i))

/-- `FactValue::compare` on the typed core: `==`/`!=` structural (so `Integer(1) ≠ Float(1.0)`); ordering
through `as_float` (integers and floats compare numerically across the two representations — booleans, nulls and
non-numeric strings have no float value: `<`,`>` are false, `<=`,`>=` fall back to `==`) -/
def Val.compare (a : Val) (op : Cmp) (b : Val) : Bool :=
  match op with
  | .contains => (match a, b with | .str s, .str p => isInfix (strChars p) (strChars s) | _, _ => false)
  | .startsWith => (match a, b with | .str s, .str p => (strChars p).isPrefixOf (strChars s) | _, _ => false)
  | .endsWith => (match a, b with | .str s, .str p => (strChars p).reverse.isPrefixOf (strChars s).reverse | _, _ => false)
  | .isIn => false                    -- the right-hand side is not an array (`Rhs.arr` is handled by `Val.compareArr`)
  | .eq => a == b
  | .ne => a != b
  | .lt => (match a.twice?, b.twice? with | some x, some y => decide (x < y) | _, _ => false)
  | .gt => (match a.twice?, b.twice? with | some x, some y => decide (x > y) | _, _ => false)
  | .le => (match a.twice?, b.twice? with | some x, some y => decide (x ≤ y) | _, _ => a == b)
  | .ge => (match a.twice?, b.twice? with | some x, some y => decide (x ≥ y) | _, _ => a == b)

/-- `FactValue::compare` against an array literal `[v, …]` (no fact of the typed core holds an array): `in` is membership by
structural equality; `!=` is true (different variants); everything else is false (`==`; the orderings have no float value and
fall back to `==`; `contains` / `startsWith` / `endsWith` need a string pattern) -/
def Val.compareArr (a : Val) (op : Cmp) (vs : List Val) : Bool :=
  match op with
  | .isIn => vs.contains a
  | .ne => true
  | _ => false

abbrev Data := List (Nat × Val)       -- `TypedFacts` of one fact: field ↦ value (first binding wins)

def Data.get (d : Data) (f : Nat) : Option Val :=
  match d with
  | [] => none
  | (k, v) :: t => if k == f then some v else Data.get t f

def Data.set (d : Data) (f : Nat) (v : Val) : Data :=
  match d with
  | [] => [(f, v)]
  | (k, w) :: t => if k == f then (k, v) :: t else (k, w) :: Data.set t f v

/-- right-hand side of an alpha node: a literal, or a variable reference `Type.field` -/
inductive Rhs where
  | lit (v : Val)
  | var (ty field : Nat)
  | arr (vs : List Val)     -- array literal `[v, …]` (`parse_value_string`, array branch)
deriving Repr, DecidableEq

inductive Node where
  | alpha (ty field : Nat) (op : Cmp) (rhs : Rhs)
  | and (l r : Node)
  | or (l r : Node)
  | not (n : Node)
deriving Repr, DecidableEq

/-- the literal string "Type.field" a dangling variable reference degrades to (`parse_value_string`) -/
def danglingVar (ty field : Nat) : Val := .str (1000 + 100 * ty + field)

/-- `evaluate_rete_ul_node_typed` on the single-fact view built by the propagation functions: only the keys
`<ty>.<field>` of the one fact (`ty`, `d`) exist.  A missing left-hand field makes the alpha node false. -/
def Node.eval (ty : Nat) (d : Data) : Node → Bool
  | .alpha t f op rhs =>
    match (if t == ty then d.get f else none) with
    | none => false
    | some v =>
      match rhs with
      | .lit w => v.compare op w
      | .var t2 f2 => v.compare op (match (if t2 == ty then d.get f2 else none) with | some w => w | none => danglingVar t2 f2)
      | .arr vs => v.compareArr op vs
  | .and l r => l.eval ty d && r.eval ty d
  | .or l r => l.eval ty d || r.eval ty d
  | .not n => !n.eval ty d

/-- actions GRL produces for a single-type rule: assignments of literals to fields of the rule's type, optionally
followed by `retract(Type)` -/
structure Action where
  sets : List (Nat × Val) := []
  retract : Bool := false
deriving Repr, DecidableEq

structure Rule where
  name : Nat
  ty : Nat
  node : Node
  prio : Int
  noLoop : Bool
  action : Action := {}
deriving Repr, DecidableEq

structure Fact where
  handle : Nat
  ty : Nat
  data : Data
  retracted : Bool := false
deriving Repr, DecidableEq

/-- `WorkingMemory`: `facts` (the HashMap, in insertion order; retracted facts stay), `index` (type ↦ handles) -/
structure WM where
  facts : List Fact := []
  index : List (Nat × List Nat) := []
  nextId : Nat := 1
deriving Repr, DecidableEq

def indexAdd (ty h : Nat) : List (Nat × List Nat) → List (Nat × List Nat)
  | [] => [(ty, [h])]
  | (t, hs) :: rest => if t == ty then (t, hs ++ [h]) :: rest else (t, hs) :: indexAdd ty h rest

def indexRemove (ty h : Nat) : List (Nat × List Nat) → List (Nat × List Nat)
  | [] => []
  | (t, hs) :: rest => if t == ty then (t, hs.filter (· != h)) :: rest else (t, hs) :: indexRemove ty h rest

def indexGet (ty : Nat) : List (Nat × List Nat) → List Nat
  | [] => []
  | (t, hs) :: rest => if t == ty then hs else indexGet ty rest

def WM.find (w : WM) (h : Nat) : Option Fact := w.facts.find? (·.handle == h)

/-- `WorkingMemory::insert` -/
def WM.insert (w : WM) (ty : Nat) (d : Data) : WM × Nat :=
  ({ facts := w.facts ++ [{ handle := w.nextId, ty := ty, data := d }], index := indexAdd ty w.nextId w.index,
     nextId := w.nextId + 1 }, w.nextId)

def mapFact (h : Nat) (f : Fact → Fact) : List Fact → List Fact
  | [] => []
  | x :: t => if x.handle == h then f x :: t else x :: mapFact h f t

/-- `WorkingMemory::update` (`none` = `Err`: unknown or retracted handle) -/
def WM.update (w : WM) (h : Nat) (d : Data) : Option WM :=
  match w.find h with
  | none => none
  | some f => if f.retracted then none else some { w with facts := mapFact h (fun x => { x with data := d }) w.facts }

/-- `WorkingMemory::retract` -/
def WM.retract (w : WM) (h : Nat) : Option WM :=
  match w.find h with
  | none => none
  | some f =>
    if f.retracted then none
    else some { w with facts := mapFact h (fun x => { x with retracted := true }) w.facts,
                       index := indexRemove f.ty h w.index }

/-- `WorkingMemory::get` -/
def WM.get (w : WM) (h : Nat) : Option Fact :=
  match w.find h with
  | some f => if f.retracted then none else some f
  | none => none

/-- `WorkingMemory::get_by_type` -/
def WM.getByType (w : WM) (ty : Nat) : List Fact :=
  ((indexGet ty w.index).filterMap w.find).filter (fun f => !f.retracted)

/-- `WorkingMemory::get_all_facts` -/
def WM.getAllFacts (w : WM) : List Fact := w.facts.filter (fun f => !f.retracted)

/-- `WorkingMemory::get_all_handles` -/
def WM.getAllHandles (w : WM) : List Nat := (w.facts.filter (fun f => !f.retracted)).map (·.handle)

structure Engine where
  wm : WM := {}
  rules : List Rule := []
  ag : Agenda := {}
  clock : Nat := 0
deriving Repr, DecidableEq

def mkAct (r : Rule) (h : Nat) (clock : Nat) : Act :=
  { rule := r.name, sal := r.prio, noLoop := r.noLoop, created := clock, handle := some h }

/-- one rule against a list of facts: an activation per fact whose contents satisfy the rule node -/
def addMatches (r : Rule) : List Fact → Agenda × Nat → Agenda × Nat
  | [], p => p
  | f :: fs, p =>
    if r.node.eval f.ty f.data then addMatches r fs (p.1.add (mkAct r f.handle p.2), p.2 + 1) else addMatches r fs p

/-- `propagate_changes_for_type`: the rules that depend on the type, against every live fact of the type -/
def Engine.propagateType (e : Engine) (ty : Nat) : Engine :=
  let facts := e.wm.getByType ty
  let r := (e.rules.filter (·.ty == ty)).foldl (fun p rule => addMatches rule facts p) (e.ag, e.clock)
  { e with ag := r.1, clock := r.2 }

def dedup : List Nat → List Nat
  | [] => []
  | x :: t => if (dedup t).contains x then dedup t else x :: dedup t

/-- `propagate_changes`: every type that has a live fact, every rule that depends on the type ([fix-C06c]: as in
`propagate_changes_for_type`; before the fix every rule was evaluated on the facts of every type, and a negated condition is
vacuously true on a fact of a foreign type) except the no-loop rules that already fired, every live fact of the type -/
def Engine.propagateAll (e : Engine) : Engine :=
  let types := dedup (e.wm.getAllFacts.map (·.ty))
  let r := types.foldl (fun p ty =>
      (e.rules.filter (fun rule => rule.ty == ty && !(rule.noLoop && p.1.fired.contains rule.name))).foldl
        (fun p rule => addMatches rule (e.wm.getByType ty) p) p) (e.ag, e.clock)
  { e with ag := r.1, clock := r.2 }

/-- `IncrementalEngine::insert` -/
def Engine.insert (e : Engine) (ty : Nat) (d : Data) : Engine × Nat :=
  let r := e.wm.insert ty d
  (({ e with wm := r.1 }).propagateType ty, r.2)

/-- `IncrementalEngine::update` (`false` = `Err`) -/
def Engine.update (e : Engine) (h : Nat) (d : Data) : Engine × Bool :=
  match e.wm.get h with
  | none => (e, false)
  | some f =>
    match e.wm.update h d with
    | none => (e, false)
    | some w => (({ e with wm := w }).propagateType f.ty, true)

/-- `IncrementalEngine::retract` (all facts are explicit assertions: the TMS cascade is empty) -/
def Engine.retract (e : Engine) (h : Nat) : Engine × Bool :=
  match e.wm.get h with
  | none => (e, false)
  | some f =>
    match e.wm.retract h with
    | none => (e, false)
    | some w => (({ e with wm := w }).propagateType f.ty, true)

/-- `IncrementalEngine::reset` -/
def Engine.reset (e : Engine) : Engine := { e with ag := e.ag.reset }

/-- the un-prefixed view `Type.field` of the flattened copy: the fields of the last live fact of the type -/
def flatOf (w : WM) (ty : Nat) : Data :=
  match (w.getAllFacts.filter (·.ty == ty)).getLast? with
  | some f => f.data
  | none => []

/-- write-back: assignments whose value differs from the flattened original (or that create the key) are applied to
*every* live fact of the type -/
def writeBack (w : WM) (ty : Nat) (sets : List (Nat × Val)) : WM :=
  let orig := flatOf w ty
  let final := sets.foldl (fun d kv => Data.set d kv.1 kv.2) orig
  let changed := final.filter (fun kv => orig.get kv.1 != some kv.2)
  if changed.isEmpty then w
  else { w with facts := w.facts.map (fun f =>
    if f.ty == ty && !f.retracted then { f with data := changed.foldl (fun d kv => Data.set d kv.1 kv.2) f.data } else f) }

/-- a firing as seen by the action closure: rule, matched handle, contents of the matched fact in the flattened copy -/
structure Firing where
  rule : Nat
  handle : Nat
  data : Data
deriving Repr, DecidableEq

/-- body of the `fire_all` loop for one popped activation -/
def Engine.fireOne (e : Engine) (a : Act) : Engine × Option Firing :=
  match e.rules.find? (·.name == a.rule) with
  | none => (e, none)
  | some rule =>
    match a.handle with
    | none => (e, none)
    | some h =>
      match e.wm.get h with
      | none => (e, none)                                 -- matched fact retracted: skip
      | some f =>
        if !rule.node.eval f.ty f.data then (e, none)     -- fix-C06: stale activation, the condition is no longer true
        else
          let w1 := writeBack e.wm rule.ty rule.action.sets
          let e1 := ({ e with wm := w1 }).propagateAll
          -- action results: `retract(Type)` resolves to the matched handle when the matched fact has the rule's type
          let target := if f.ty == rule.ty then some h else (e.wm.getAllFacts.filter (·.ty == rule.ty)).getLast?.map (·.handle)
          let e2 := if rule.action.retract then
              (match target with | some t => (e1.retract t).1 | none => e1) else e1
          ({ e2 with ag := e2.ag.mark a }, some { rule := rule.name, handle := h, data := f.data })

/-- the tests of `fire_all` that `continue` (the same tests as in `fireOne`): rule unknown, matched fact retracted, or the
re-validation of fix-C06 fails.  [fix-C06b] such an activation is dropped WITHOUT being counted against `max_iterations`. -/
def Engine.skips (e : Engine) (a : Act) : Bool :=
  match e.rules.find? (·.name == a.rule) with
  | none => true
  | some rule =>
    match a.handle with
    | none => true
    | some h =>
      match e.wm.get h with
      | none => true
      | some f => !rule.node.eval f.ty f.data

/-- `self.agenda.get_next_activation()`: skipped activations are discarded even when nothing is returned -/
def firePop (e : Engine) : Option Act × Engine := (e.ag.getNext.1, { e with ag := e.ag.getNext.2 })

/-- `IncrementalEngine::fire_all` [after fix-C06b]: C07's loop — pop until an activation passes the tests (`C07.incSkip`: the
skipping steps are bounded by the number of pending activations, which is the fuel of that inner loop), then count it against
`max_iterations = 1000` (`fuel` = executions still allowed; the valid activation that exceeds the bound is consumed and the
loop breaks) and execute it, collecting the firings. -/
def fireLoop : Nat → Engine → List Firing → Engine × List Firing
  | fuel, e, out =>
    match C07.incSkip firePop Engine.skips e.ag.acts.length e with
    | (none, e') => (e', out)
    | (some a, e') =>
      match fuel with
      | 0 => (e', out)
      | n + 1 =>
        let r := e'.fireOne a
        fireLoop n r.1 (match r.2 with | some x => out ++ [x] | none => out)

def Engine.fireAll (e : Engine) : Engine × List Firing := fireLoop C07.incBound e []

inductive Op where
  | insert (ty : Nat) (d : Data)
  | update (h : Nat) (d : Data)
  | retract (h : Nat)
  | fire
  | reset
deriving Repr, DecidableEq

/-- result of one API call -/
inductive Res where
  | handle (h : Nat)
  | ok (b : Bool)
  | fired (fs : List Firing)
  | unit
deriving Repr, DecidableEq

def Engine.step (e : Engine) : Op → Engine × Res
  | .insert ty d => let r := e.insert ty d; (r.1, .handle r.2)
  | .update h d => let r := e.update h d; (r.1, .ok r.2)
  | .retract h => let r := e.retract h; (r.1, .ok r.2)
  | .fire => let r := e.fireAll; (r.1, .fired r.2)
  | .reset => (e.reset, .unit)

def Engine.run (e : Engine) : List Op → Engine
  | [] => e
  | o :: os => Engine.run (e.step o).1 os

/-! ### `GrlReteLoader` (`src/rete/grl_loader.rs`) on the typed core

A rule of the typed core written as GRL text (`rule "R" salience p [no-loop] { when <node> then <T.f = literal;>* [retract(T);] }`)
and loaded by `load_from_string`: `convert_condition_group` maps `Single` ↦ `UlAlpha`, `Compound And/Or` ↦ `UlAnd`/`UlOr` and
`Not(inner)` ↦ `UlNot(convert inner)` — the negation stays a node of its own, it is NOT folded into the comparison (a
comparison on an absent / null / non-numeric field is false, so its negation is true, whereas the complementary comparison is
false as well).  `create_action_closure` executes `Set` as `facts.set` and `Retract` through the matched handle, which is what
`writeBack` / `fireOne` model.  The one thing the text round trip changes is a float literal with an integral value:
`value_to_string(Value::Number(15.0))` prints "15", which the alpha node parses back as `Integer(15)`, and
`value_to_fact_value(Value::Number(15.0))` stores `Integer(15)` (`n.fract() == 0.0`). -/

/-- a literal after the trip through GRL text and the loader -/
def loaderVal : Val → Val
  | .flt t => if t % 2 == 0 then .int (t / 2) else .flt t
  | v => v

/-- `convert_condition_group` / `convert_condition` -/
def loaderNode : Node → Node
  | .alpha ty f op (.lit v) => .alpha ty f op (.lit (loaderVal v))
  | .alpha ty f op (.var t2 f2) => .alpha ty f op (.var t2 f2)
  | .alpha ty f op (.arr vs) => .alpha ty f op (.arr (vs.map loaderVal))   -- `value_to_string` element by element
  | .and l r => .and (loaderNode l) (loaderNode r)
  | .or l r => .or (loaderNode l) (loaderNode r)
  | .not n => .not (loaderNode n)

/-- `convert_rule_to_rete`: name, salience, no-loop are copied -/
def loaderRule (r : Rule) : Rule :=
  { r with node := loaderNode r.node,
           action := { r.action with sets := r.action.sets.map (fun kv => (kv.1, loaderVal kv.2)) } }

/-- literals that the round trip leaves alone -/
def Val.grlExact : Val → Bool
  | .flt t => t % 2 != 0
  | _ => true

def Node.grlExact : Node → Bool
  | .alpha _ _ _ (.lit v) => v.grlExact
  | .alpha _ _ _ (.var _ _) => true
  | .alpha _ _ _ (.arr vs) => vs.all Val.grlExact
  | .and l r => l.grlExact && r.grlExact
  | .or l r => l.grlExact && r.grlExact
  | .not n => n.grlExact

end C06
