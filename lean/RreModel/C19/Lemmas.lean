import RreModel.C19.Spec
/-
C19 — helper lemmas: chunking, grouping, and the invariant of the shared-memory machine.
Core only (no Mathlib).
-/
namespace C19

/-! ### chunking -/

theorem chunksF_flatten (k : Nat) (hk : 0 < k) :
    ∀ (fuel : Nat) (l : List α), l.length ≤ fuel → (chunksF k fuel l).flatten = l := by
  intro fuel
  induction fuel with
  | zero =>
    intro l h
    have : l = [] := List.length_eq_zero_iff.mp (by omega)
    simp [chunksF, this]
  | succ fuel ih =>
    intro l h
    unfold chunksF
    cases l with
    | nil => simp
    | cons a t =>
      have hd : ((a :: t).drop k).length ≤ fuel := by
        simp only [List.length_drop, List.length_cons] at *; omega
      simp [ih _ hd]

theorem chunks_flatten (k : Nat) (hk : 0 < k) (l : List α) : (chunks k l).flatten = l :=
  chunksF_flatten k hk l.length l (Nat.le_refl _)

theorem chunksF_mem (k : Nat) (hk : 0 < k) :
    ∀ (fuel : Nat) (l : List α), ∀ c ∈ chunksF k fuel l, c ≠ [] ∧ c.length ≤ k := by
  intro fuel
  induction fuel with
  | zero => intro l c h; simp [chunksF] at h
  | succ fuel ih =>
    intro l c h
    unfold chunksF at h
    cases l with
    | nil => simp at h
    | cons a t =>
      simp only [List.isEmpty_cons, Bool.false_eq_true, if_false, List.mem_cons] at h
      rcases h with h | h
      · subst h
        constructor
        · cases k with
          | zero => omega
          | succ k => simp
        · simp only [List.length_take]; omega
      · exact ih _ c h

/-- number of chunks: `⌈n / k⌉` -/
theorem chunksF_length (k : Nat) (hk : 0 < k) :
    ∀ (fuel : Nat) (l : List α), l.length ≤ fuel → (chunksF k fuel l).length = divCeil l.length k := by
  intro fuel
  induction fuel with
  | zero =>
    intro l h
    have : l = [] := List.length_eq_zero_iff.mp (by omega)
    subst this
    simp only [chunksF, List.length_nil, divCeil, Nat.zero_add]
    exact (Nat.div_eq_of_lt (by omega)).symm
  | succ fuel ih =>
    intro l h
    unfold chunksF
    cases l with
    | nil =>
      simp only [List.isEmpty_nil, if_true, List.length_nil, divCeil, Nat.zero_add]
      exact (Nat.div_eq_of_lt (by omega)).symm
    | cons a t =>
      have hd : ((a :: t).drop k).length ≤ fuel := by
        simp only [List.length_drop, List.length_cons] at *; omega
      simp only [List.isEmpty_cons, Bool.false_eq_true, if_false, List.length_cons, ih _ hd,
        List.length_drop, divCeil]
      -- ⌈(n+1-k)/k⌉ + 1 = ⌈(n+1)/k⌉
      by_cases hle : t.length + 1 ≤ k
      · have h1 : t.length + 1 - k + k - 1 = k - 1 := by omega
        have h2 : (k - 1) / k = 0 := Nat.div_eq_of_lt (by omega)
        have h3 : (t.length + 1 + k - 1) / k = 1 := by
          apply Nat.div_eq_of_lt_le <;> omega
        rw [h1, h2, h3]
      · have h1 : t.length + 1 + k - 1 = (t.length + 1 - k + k - 1) + k := by omega
        rw [h1, Nat.add_div_right _ hk]

theorem chunks_length (k : Nat) (hk : 0 < k) (l : List α) : (chunks k l).length = divCeil l.length k :=
  chunksF_length k hk l.length l (Nat.le_refl _)

theorem divCeil_pos {n d : Nat} (hn : 0 < n) (hd : 0 < d) : 0 < divCeil n d := by
  unfold divCeil
  exact Nat.div_pos (by omega) hd

/-- `n ≤ d * ⌈n/d⌉` -/
theorem le_mul_divCeil (n d : Nat) (hd : 0 < d) : n ≤ d * divCeil n d := by
  unfold divCeil
  have h := Nat.div_add_mod (n + d - 1) d
  have hm := Nat.mod_lt (n + d - 1) hd
  omega

/-- chunking by `⌈n / max_threads⌉` never makes more than `max_threads` chunks -/
theorem divCeil_divCeil_le (n d : Nat) (hd : 0 < d) (hn : 0 < n) : divCeil n (divCeil n d) ≤ d := by
  have hk := divCeil_pos hn hd
  have h1 := le_mul_divCeil n d hd
  generalize divCeil n d = k at *
  unfold divCeil
  have : (n + k - 1) / k < d + 1 := by
    rw [Nat.div_lt_iff_lt_mul hk]
    have : (d + 1) * k = d * k + k := by rw [Nat.add_mul, Nat.one_mul]
    omega
  omega

/-! ### grouping by salience -/

theorem mem_insertDesc {x y : Int} {l : List Int} : y ∈ insertDesc x l ↔ y = x ∨ y ∈ l := by
  induction l with
  | nil => simp [insertDesc]
  | cons a t ih =>
    unfold insertDesc
    by_cases h1 : a < x
    · simp [h1]
    · by_cases h2 : x = a
      · subst h2; simp
      · simp only [h1, h2, if_false, List.mem_cons, ih]
        constructor
        · rintro (h | h | h) <;> simp [h]
        · rintro (h | h | h) <;> simp [h]

/-- strictly descending -/
def Desc (l : List Int) : Prop := l.Pairwise (fun a b => b < a)

theorem desc_insertDesc {x : Int} {l : List Int} (h : Desc l) : Desc (insertDesc x l) := by
  induction l with
  | nil => simp [insertDesc, Desc]
  | cons a t ih =>
    unfold insertDesc
    simp only [Desc, List.pairwise_cons] at h
    by_cases h1 : a < x
    · simp only [h1, if_true, Desc, List.pairwise_cons, List.mem_cons]
      refine ⟨?_, h.1, h.2⟩
      rintro b (hb | hb)
      · omega
      · have := h.1 b hb; omega
    · by_cases h2 : x = a
      · subst h2
        simp only [h1, if_false, if_true]
        exact List.pairwise_cons.mpr h
      · simp only [h1, h2, if_false, Desc, List.pairwise_cons]
        refine ⟨?_, ih h.2⟩
        intro b hb
        rcases mem_insertDesc.mp hb with hb | hb
        · omega
        · exact h.1 b hb

variable {C A F : Type}

theorem levelKeys_desc (rules : List (Rule C A)) : Desc (levelKeys rules) := by
  induction rules with
  | nil => simp [levelKeys, Desc]
  | cons r t ih =>
    simp only [levelKeys, List.foldr_cons]
    split
    · exact desc_insertDesc ih
    · exact ih

theorem mem_levelKeys {rules : List (Rule C A)} {s : Int} :
    s ∈ levelKeys rules ↔ ∃ r ∈ rules, r.enabled = true ∧ r.salience = s := by
  induction rules with
  | nil => simp [levelKeys]
  | cons r t ih =>
    simp only [levelKeys, List.foldr_cons] at ih ⊢
    split
    · rename_i he
      rw [mem_insertDesc, ih]
      constructor
      · rintro (h | ⟨q, hq, h⟩)
        · exact ⟨r, by simp, he, h.symm⟩
        · exact ⟨q, by simp [hq], h⟩
      · rintro ⟨q, hq, h1, h2⟩
        rcases List.mem_cons.mp hq with hq | hq
        · subst hq; exact Or.inl h2.symm
        · exact Or.inr ⟨q, hq, h1, h2⟩
    · rename_i he
      rw [ih]
      constructor
      · rintro ⟨q, hq, h⟩; exact ⟨q, by simp [hq], h⟩
      · rintro ⟨q, hq, h1, h2⟩
        rcases List.mem_cons.mp hq with hq | hq
        · subst hq; exact absurd h1 he
        · exact ⟨q, hq, h1, h2⟩

theorem desc_nodup {l : List Int} (h : Desc l) : l.Nodup := by
  unfold Desc at h
  exact h.imp (fun hab => by omega)

/-- distributing the members of `l` over a duplicate-free key list that contains every key -/
theorem flatMap_filter_key_perm (key : α → Int) :
    ∀ (l : List α) (keys : List Int), keys.Nodup → (∀ x ∈ l, key x ∈ keys) →
      (keys.flatMap (fun s => l.filter (fun x => key x == s))).Perm l := by
  intro l
  induction l with
  | nil => intro keys _ _; simp
  | cons a t ih =>
    intro keys hnd hall
    have hmem : key a ∈ keys := hall a (by simp)
    have ht : ∀ x ∈ t, key x ∈ keys := fun x hx => hall x (by simp [hx])
    have key_lemma : ∀ (ks : List Int), ks.Nodup → key a ∈ ks →
        (ks.flatMap (fun s => (a :: t).filter (fun x => key x == s))).Perm
          (a :: ks.flatMap (fun s => t.filter (fun x => key x == s))) := by
      intro ks
      induction ks with
      | nil => intro _ h; simp at h
      | cons s ss ihs =>
        intro hnd' hin
        simp only [List.nodup_cons] at hnd'
        simp only [List.flatMap_cons]
        by_cases hs : key a = s
        · -- `a` goes to this key and to no later one
          have hnot : ∀ s' ∈ ss, (a :: t).filter (fun x => key x == s') = t.filter (fun x => key x == s') := by
            intro s' hs'
            have : key a ≠ s' := by intro h; rw [hs] at h; exact hnd'.1 (h ▸ hs')
            simp [this]
          have hrest : ss.flatMap (fun s => (a :: t).filter (fun x => key x == s)) =
              ss.flatMap (fun s => t.filter (fun x => key x == s)) := by
            clear ihs hin
            induction ss with
            | nil => rfl
            | cons s' ss' ih' =>
              simp only [List.flatMap_cons]
              rw [hnot s' (by simp), ih' (by
                simp only [List.mem_cons, not_or, List.nodup_cons] at hnd' ⊢
                exact ⟨hnd'.1.2, hnd'.2.2⟩) (fun s'' h'' => hnot s'' (by simp [h'']))]
          rw [hrest]
          simp [hs]
        · have hin' : key a ∈ ss := by
            rcases List.mem_cons.mp hin with h | h
            · exact absurd h hs
            · exact h
          have h1 : (a :: t).filter (fun x => key x == s) = t.filter (fun x => key x == s) := by
            simp [hs]
          rw [h1]
          have := ihs hnd'.2 hin'
          exact (List.Perm.append_left _ this).trans (List.perm_middle)
    exact (key_lemma keys hnd hmem).trans (List.Perm.cons a (ih keys hnd ht))

/-- the levels partition the enabled rules -/
theorem levels_partition (rules : List (Rule C A)) :
    ((levelKeys rules).flatMap (group rules)).Perm (rules.filter (·.enabled)) := by
  have h := flatMap_filter_key_perm (fun r : Rule C A => r.salience) (rules.filter (·.enabled))
    (levelKeys rules) (desc_nodup (levelKeys_desc rules)) (by
      intro r hr
      simp only [List.mem_filter] at hr
      exact mem_levelKeys.mpr ⟨r, hr.1, hr.2, rfl⟩)
  have hg : ∀ s, group rules s = (rules.filter (·.enabled)).filter (fun r => r.salience == s) := by
    intro s; simp [group, List.filter_filter, Bool.and_comm]
  have : (levelKeys rules).flatMap (group rules) =
      (levelKeys rules).flatMap (fun s => (rules.filter (·.enabled)).filter (fun r => r.salience == s)) := by
    congr 1; funext s; exact hg s
  rw [this]; exact h

/-! ### the evaluator under `ReadOnly` -/

theorem foldl_actEffect_id (sem : Sem C A F) (h : ∀ a f, sem.actEffect a f = f) (as : List A) (f : F) :
    as.foldl (fun g a => sem.actEffect a g) f = f := by
  induction as generalizing f with
  | nil => rfl
  | cons a t ih => rw [List.foldl_cons, h]; exact ih f

theorem evalRule_readOnly (sem : Sem C A F) (h : sem.ReadOnly) (r : Rule C A) (f : F) :
    evalRule sem r f = (⟨r, sem.verdict r f⟩, f) := by
  simp [evalRule, h.1, foldl_actEffect_id sem h.2]

theorem execSequential_readOnly (sem : Sem C A F) (h : sem.ReadOnly) (rs : List (Rule C A)) (f : F) :
    execSequential sem rs f = (rs.map (fun r => ⟨r, sem.verdict r f⟩), f) := by
  induction rs with
  | nil => rfl
  | cons r t ih => simp [execSequential, evalRule_readOnly sem h, ih]

/-! ### `List.set` under `flatMap` -/

theorem flatMap_set_eq (f : α → List β) :
    ∀ (l : List α) (i : Nat) (w w' : α), l[i]? = some w → f w' = f w → (l.set i w').flatMap f = l.flatMap f := by
  intro l
  induction l with
  | nil => intro i w w' h; simp at h
  | cons a t ih =>
    intro i w w' h hf
    cases i with
    | zero => simp at h; subst h; simp [hf]
    | succ i => simp at h; simp [ih i w w' h hf]

theorem flatMap_set_perm (f : α → List β) :
    ∀ (l : List α) (i : Nat) (w w' : α), l[i]? = some w → f w' = [] →
      (f w ++ (l.set i w').flatMap f).Perm (l.flatMap f) := by
  intro l
  induction l with
  | nil => intro i w w' h; simp at h
  | cons a t ih =>
    intro i w w' h hf
    cases i with
    | zero => simp at h; subst h; simp [hf]
    | succ i =>
      simp at h
      simp only [List.set_cons_succ, List.flatMap_cons]
      exact (List.perm_append_comm_assoc _ _ _).trans (List.Perm.append_left _ (ih i w w' h hf))

/-! ### the invariant of the machine -/

/-- the segment worker `w` will contribute, if it has not appended yet (verdicts on the facts `f0`) -/
def pendingBlock (sem : Sem C A F) (f0 : F) (w : Worker C A) : List (List (Ctx C A)) :=
  if w.appended then [] else [w.acc ++ w.todo.map (fun r => ⟨r, sem.verdict r f0⟩)]

structure Inv (sem : Sem C A F) (f0 : F) (target : List (List (Ctx C A))) (st : Shared C A F) : Prop where
  facts : st.facts = f0
  perm : (st.blocks ++ st.workers.flatMap (pendingBlock sem f0)).Perm target

theorem stepOn_inv (sem : Sem C A F) (hro : sem.ReadOnly) {f0 : F} {target} {st : Shared C A F}
    (i : Nat) (w : Worker C A) (hw : st.workers[i]? = some w) (h : Inv sem f0 target st) :
    Inv sem f0 target (stepOn sem i w st) := by
  unfold stepOn
  by_cases ha : w.appended = true
  · simp [ha, h]
  · simp only [ha, Bool.false_eq_true, if_false]
    cases hc : w.todo with
    | nil =>
      simp only
      refine ⟨h.facts, ?_⟩
      have hp : pendingBlock sem f0 w = [w.acc] := by simp [pendingBlock, ha, hc]
      have hB := flatMap_set_perm (pendingBlock sem f0) st.workers i w
        { todo := [], acc := w.acc, appended := true } hw (by simp [pendingBlock])
      rw [hp] at hB
      rw [List.append_assoc]
      exact (List.Perm.append_left _ hB).trans h.perm
    | cons r rest =>
      simp only [evalRule_readOnly sem hro]
      refine ⟨h.facts, ?_⟩
      have hA := flatMap_set_eq (pendingBlock sem f0) st.workers i w
        { todo := rest, acc := w.acc ++ [⟨r, sem.verdict r st.facts⟩], appended := false } hw (by
          simp [pendingBlock, ha, hc, h.facts])
      simp only at hA ⊢
      rw [hA]; exact h.perm

theorem step_inv (sem : Sem C A F) (hro : sem.ReadOnly) {f0 : F} {target} {st : Shared C A F} (i : Nat)
    (h : Inv sem f0 target st) : Inv sem f0 target (step sem st i) := by
  unfold step
  cases hw : st.workers[i]? with
  | none => exact h
  | some w => exact stepOn_inv sem hro i w hw h

theorem run_inv (sem : Sem C A F) (hro : sem.ReadOnly) {f0 : F} {target} (sched : List Nat) :
    ∀ {st : Shared C A F}, Inv sem f0 target st → Inv sem f0 target (run sem sched st) := by
  induction sched with
  | nil => intro st h; exact h
  | cons i t ih => intro st h; exact ih (step_inv sem hro i h)

theorem init_inv (sem : Sem C A F) (f0 : F) (cs : List (List (Rule C A))) :
    Inv sem f0 (cs.map (List.map (fun r => ⟨r, sem.verdict r f0⟩))) (initShared f0 cs) := by
  refine ⟨rfl, ?_⟩
  simp only [initShared, List.nil_append]
  have : (cs.map (fun c => ({ todo := c, acc := [], appended := false } : Worker C A))).flatMap
      (pendingBlock sem f0) = cs.map (List.map (fun r => ⟨r, sem.verdict r f0⟩)) := by
    induction cs with
    | nil => rfl
    | cons c t ih => simp [pendingBlock, ih]
  rw [this]

/-! ### progress: how many steps each worker still owes -/

def needW (w : Worker C A) : Nat := if w.appended then 0 else w.todo.length + 1

def need (st : Shared C A F) (i : Nat) : Nat :=
  match st.workers[i]? with
  | none => 0
  | some w => needW w

theorem need_step (sem : Sem C A F) (st : Shared C A F) (j i : Nat) :
    need (step sem st j) i = if i = j then need st i - 1 else need st i := by
  unfold step
  cases hw : st.workers[j]? with
  | none =>
    simp only
    by_cases hij : i = j
    · subst hij; simp [need, hw]
    · simp [hij]
  | some w =>
    have hlt : j < st.workers.length := by
      rcases List.getElem?_eq_some_iff.mp hw with ⟨h, _⟩; exact h
    simp only [stepOn]
    by_cases ha : w.appended = true
    · simp only [ha, if_true]
      by_cases hij : i = j
      · subst hij; simp [need, hw, needW, ha]
      · simp [hij]
    · simp only [ha, Bool.false_eq_true, if_false]
      cases hc : w.todo with
      | nil =>
        simp only [need]
        by_cases hij : i = j
        · subst hij; simp [List.getElem?_set_self hlt, hw, needW, ha, hc]
        · simp [hij, List.getElem?_set_ne (Ne.symm hij)]
      | cons r rest =>
        simp only [need]
        by_cases hij : i = j
        · subst hij; simp [List.getElem?_set_self hlt, hw, needW, ha, hc]
        · simp [hij, List.getElem?_set_ne (Ne.symm hij)]

theorem need_run (sem : Sem C A F) (sched : List Nat) :
    ∀ (st : Shared C A F) (i : Nat), need (run sem sched st) i = need st i - sched.count i := by
  induction sched with
  | nil => intro st i; simp [run]
  | cons j t ih =>
    intro st i
    have := ih (step sem st j) i
    simp only [run, List.foldl_cons] at this ⊢
    rw [this, need_step, List.count_cons]
    by_cases hij : i = j
    · subst hij; simp; omega
    · have : (j == i) = false := by simp [Ne.symm hij]
      simp [hij, this]

theorem count_fairTailFrom (cs : List (List α)) :
    ∀ (i j : Nat) (c : List α), cs[j]? = some c → c.length + 1 ≤ (fairTailFrom i cs).count (i + j) := by
  induction cs with
  | nil => intro i j c h; simp at h
  | cons a t ih =>
    intro i j c h
    simp only [fairTailFrom, List.count_append]
    cases j with
    | zero =>
      simp at h; subst h
      simp [List.count_replicate_self]
    | succ j =>
      simp at h
      have := ih (i + 1) j c h
      have e : i + 1 + j = i + (j + 1) := by omega
      rw [e] at this
      omega

theorem need_init (f : F) (cs : List (List (Rule C A))) (i : Nat) :
    need (initShared f cs) i = match cs[i]? with | none => 0 | some c => c.length + 1 := by
  simp only [need, initShared, List.getElem?_map]
  cases cs[i]? <;> simp [needW]

/-- after `sched ++ fairTail cs` nobody owes a step -/
theorem need_after_tail (sem : Sem C A F) (f : F) (cs : List (List (Rule C A))) (sched : List Nat) (i : Nat) :
    need (run sem (sched ++ fairTail cs) (initShared f cs)) i = 0 := by
  rw [need_run, need_init]
  cases h : cs[i]? with
  | none => simp
  | some c =>
    have := count_fairTailFrom cs 0 i c h
    simp only [Nat.zero_add] at this
    simp only [fairTail, List.count_append]
    omega

theorem allDone_of_need (st : Shared C A F) (h : ∀ i, need st i = 0) : allDone st = true := by
  simp only [allDone, List.all_eq_true]
  intro w hw
  rcases List.mem_iff_getElem?.mp hw with ⟨i, hi⟩
  have := h i
  simp only [need, hi, needW] at this
  by_cases ha : w.appended = true
  · exact ha
  · simp [ha] at this

theorem pending_nil_of_allDone (sem : Sem C A F) (f0 : F) (st : Shared C A F) (h : allDone st = true) :
    st.workers.flatMap (pendingBlock sem f0) = [] := by
  rw [List.flatMap_eq_nil_iff]
  intro w hw
  simp only [allDone, List.all_eq_true] at h
  simp [pendingBlock, h w hw]

/-! ### the decision procedures of Spec.lean -/

theorem concatOfPermF_complete [DecidableEq α] :
    ∀ (blocks bs : List (List α)) (n : Nat), n = bs.length → blocks.Perm bs →
      concatOfPermF n bs blocks.flatten = true := by
  intro blocks
  induction blocks with
  | nil =>
    intro bs n hn hp
    have : bs = [] := hp.symm.eq_nil
    subst this
    cases n <;> simp [concatOfPermF]
  | cons b t ih =>
    intro bs n hn hp
    have hb : b ∈ bs := hp.subset (by simp)
    have hp' : t.Perm (bs.erase b) := (hp.trans (List.perm_cons_erase hb)).cons_inv
    have hlen : (bs.erase b).length + 1 = bs.length := by
      rw [List.length_erase_of_mem hb]
      have := List.length_pos_of_mem hb
      omega
    cases n with
    | zero => omega
    | succ n =>
      have hn' : n = (bs.erase b).length := by omega
      simp only [concatOfPermF, Bool.or_eq_true, List.any_eq_true, Bool.and_eq_true]
      refine Or.inr ⟨b, hb, ?_, ?_⟩
      · simp only [List.flatten_cons]
        exact List.isPrefixOf_iff_prefix.mpr (List.prefix_append _ _)
      · simp only [List.flatten_cons, List.drop_left]
        exact ih (bs.erase b) n hn' hp'

theorem concatOfPerm_complete [DecidableEq α] (blocks bs : List (List α)) (hp : blocks.Perm bs) :
    concatOfPerm bs blocks.flatten = true :=
  concatOfPermF_complete blocks bs bs.length rfl hp

theorem chunksF_map (g : α → β) (k : Nat) :
    ∀ (fuel : Nat) (l : List α), chunksF k fuel (l.map g) = (chunksF k fuel l).map (List.map g) := by
  intro fuel
  induction fuel with
  | zero => intro l; rfl
  | succ fuel ih =>
    intro l
    cases l with
    | nil => simp [chunksF]
    | cons a t =>
      simp only [chunksF, List.map_cons, List.isEmpty_cons, Bool.false_eq_true, if_false]
      rw [← List.map_cons, ← List.map_take, ← List.map_drop, ih]

theorem chunks_map (g : α → β) (k : Nat) (l : List α) :
    chunks k (l.map g) = (chunks k l).map (List.map g) := by
  simp [chunks, chunksF_map]

/-! ### one level and the level loop (used by the property theorems) -/

section levels
variable {C A F : Type}

/-- the context the one-by-one evaluation on the facts `f` gives rule `r` -/
abbrev ctxOn (sem : Sem C A F) (f : F) (r : Rule C A) : Ctx C A := ⟨r, sem.verdict r f⟩

/-- the typed-core evaluator and every arm of `execute_action_parallel` leave the facts alone -/
theorem coreSem_readOnly : coreSem.ReadOnly := by
  refine ⟨fun _ _ => rfl, ?_⟩
  intro a f
  cases a <;> rfl

theorem allDone_after_join (sem : Sem C A F) (f : F) (cs : List (List (Rule C A))) (sched : List Nat) :
    allDone (run sem (sched ++ fairTail cs) (initShared f cs)) = true :=
  allDone_of_need _ (need_after_tail sem f cs sched)

theorem execLevelParallel_blocks (sem : Sem C A F) (hro : sem.ReadOnly) (cfg : Config)
    (hmt : 1 ≤ cfg.maxThreads) (lvl : List (Rule C A)) (hl : lvl ≠ []) (f : F) (sched : List Nat) :
    ∃ blocks : List (List (Ctx C A)), execLevelParallel sem cfg lvl f sched = .ok (blocks.flatten, f) ∧
      blocks.Perm ((chunks (divCeil lvl.length cfg.maxThreads) lvl).map (List.map (ctxOn sem f))) := by
  have hk : 0 < divCeil lvl.length cfg.maxThreads :=
    divCeil_pos (List.length_pos_iff.mpr hl) (by omega)
  have hinv := run_inv sem hro
    (sched ++ fairTail (chunks (divCeil lvl.length cfg.maxThreads) lvl))
    (init_inv sem f (chunks (divCeil lvl.length cfg.maxThreads) lvl))
  have hdone := allDone_after_join sem f (chunks (divCeil lvl.length cfg.maxThreads) lvl) sched
  have hp := pending_nil_of_allDone sem f _ hdone
  refine ⟨(run sem (sched ++ fairTail (chunks (divCeil lvl.length cfg.maxThreads) lvl))
    (initShared f (chunks (divCeil lvl.length cfg.maxThreads) lvl))).blocks, ?_, ?_⟩
  · have h1 : cfg.maxThreads ≠ 0 := by omega
    have h2 : divCeil lvl.length cfg.maxThreads ≠ 0 := by omega
    simp only [execLevelParallel, h1, h2, if_false, Shared.results, hinv.facts]
  · have := hinv.perm
    rw [hp, List.append_nil] at this
    exact this

/-- one level, either path: a permutation of the level's one-by-one contexts; facts unchanged -/
theorem execLevel_perm (sem : Sem C A F) (hro : sem.ReadOnly) (cfg : Config)
    (hmt : 1 ≤ cfg.maxThreads) (lvl : List (Rule C A)) (f : F) (sched : List Nat) :
    ∃ cs, execLevel sem cfg lvl f sched = .ok (cs, f) ∧ cs.Perm (lvl.map (ctxOn sem f)) := by
  unfold execLevel
  by_cases hp : shouldParallelize cfg lvl.length = true
  · have hl : lvl ≠ [] := by
      intro h; subst h; simp [shouldParallelize] at hp
    obtain ⟨blocks, he, hperm⟩ := execLevelParallel_blocks sem hro cfg hmt lvl hl f sched
    refine ⟨blocks.flatten, by simp [hp, he], ?_⟩
    have hk : 0 < divCeil lvl.length cfg.maxThreads :=
      divCeil_pos (List.length_pos_iff.mpr hl) (by omega)
    have := hperm.flatten
    rw [← List.map_flatten, chunks_flatten _ hk] at this
    exact this
  · refine ⟨lvl.map (ctxOn sem f), ?_, List.Perm.refl _⟩
    simp [hp, execSequential_readOnly sem hro]

/-- the loop over the levels, for any key list -/
theorem runLevels_spec (sem : Sem C A F) (hro : sem.ReadOnly) (cfg : Config) (hmt : 1 ≤ cfg.maxThreads)
    (rules : List (Rule C A)) (sched : Int → List Nat) (f : F) (ks : List Int) :
    ∃ cs, runLevels sem cfg rules sched ks f = .ok (cs, f) ∧
      cs.Perm (ks.flatMap (fun s => (group rules s).map (ctxOn sem f))) ∧
      (∀ c ∈ cs, c.rule.salience ∈ ks) ∧
      (Desc ks → cs.Pairwise (fun a b => b.rule.salience ≤ a.rule.salience)) := by
  induction ks with
  | nil => exact ⟨[], rfl, List.Perm.refl _, by simp, by simp⟩
  | cons s ss ih =>
    obtain ⟨cs1, h1, p1⟩ := execLevel_perm sem hro cfg hmt (group rules s) f (sched s)
    obtain ⟨cs2, h2, p2, m2, d2⟩ := ih
    have hs1 : ∀ c ∈ cs1, c.rule.salience = s := by
      intro c hc
      have := (p1.mem_iff).mp hc
      simp only [List.mem_map, group, List.mem_filter] at this
      obtain ⟨r, ⟨_, hr⟩, rfl⟩ := this
      simp only [Bool.and_eq_true, beq_iff_eq] at hr
      exact hr.2
    refine ⟨cs1 ++ cs2, by simp [runLevels, h1, h2], ?_, ?_, ?_⟩
    · simp only [List.flatMap_cons]; exact p1.append p2
    · intro c hc
      rcases List.mem_append.mp hc with hc | hc
      · simp [hs1 c hc]
      · simp [m2 c hc]
    · intro hd
      simp only [Desc, List.pairwise_cons] at hd
      rw [List.pairwise_append]
      refine ⟨?_, d2 hd.2, ?_⟩
      · have : ∀ a ∈ cs1, ∀ b ∈ cs1, b.rule.salience ≤ a.rule.salience := by
          intro a ha b hb; rw [hs1 a ha, hs1 b hb]; exact Int.le_refl _
        exact List.pairwise_of_forall_mem_list this
      · intro a ha b hb
        have := hd.1 _ (m2 b hb)
        rw [hs1 a ha]; omega

/-- what the API shows of a context -/
abbrev obsPair (c : Ctx Cond Action) : String × Bool := (c.rule.name, c.fired)

/-- one level of the typed-core engine: its segment passes `levelBlockOk` under every schedule -/
theorem execLevel_structure (cfg : Config) (hmt : 1 ≤ cfg.maxThreads) (lvl : List CRule) (f : Facts)
    (sched : List Nat) :
    ∃ cs, execLevel coreSem cfg lvl f sched = .ok (cs, f) ∧ cs.length = lvl.length ∧
      levelBlockOk cfg (lvl.map (pairOf f)) (cs.map obsPair) = true := by
  unfold execLevel
  by_cases hp : shouldParallelize cfg lvl.length = true
  · have hl : lvl ≠ [] := by
      intro h; subst h; simp [shouldParallelize] at hp
    have hk : 0 < divCeil lvl.length cfg.maxThreads :=
      divCeil_pos (List.length_pos_iff.mpr hl) (by omega)
    obtain ⟨blocks, he, hperm⟩ := execLevelParallel_blocks coreSem coreSem_readOnly cfg hmt lvl hl f sched
    refine ⟨blocks.flatten, by simp [hp, he], ?_, ?_⟩
    · have := hperm.flatten
      rw [← List.map_flatten, chunks_flatten _ hk] at this
      simpa using this.length_eq
    · have h1 : (cfg.maxThreads != 0) = true := by simp; omega
      simp only [levelBlockOk, List.length_map, hp, if_true, h1, Bool.true_and]
      rw [List.map_flatten]
      apply concatOfPerm_complete
      rw [chunks_map]
      have e : (List.map obsPair ∘ List.map (ctxOn coreSem f)) = List.map (pairOf f) := by
        funext l; simp only [Function.comp_apply, List.map_map]; rfl
      have := hperm.map (List.map obsPair)
      rw [List.map_map, e] at this
      exact this
  · refine ⟨lvl.map (ctxOn coreSem f), ?_, by simp, ?_⟩
    · simp [hp, execSequential_readOnly coreSem coreSem_readOnly]
    · simp [levelBlockOk, hp, List.map_map, Function.comp_def, pairOf, coreSem]

theorem runLevels_structure (cfg : Config) (hmt : 1 ≤ cfg.maxThreads) (rules : List CRule)
    (sched : Int → List Nat) (f : Facts) (ks : List Int) :
    ∃ cs, runLevels coreSem cfg rules sched ks f = .ok (cs, f) ∧
      structureOk cfg rules f ks (cs.map obsPair) = true := by
  induction ks with
  | nil => exact ⟨[], rfl, by simp [structureOk]⟩
  | cons s ss ih =>
    obtain ⟨cs1, h1, l1, b1⟩ := execLevel_structure cfg hmt (group rules s) f (sched s)
    obtain ⟨cs2, h2, b2⟩ := ih
    refine ⟨cs1 ++ cs2, by simp [runLevels, h1, h2], ?_⟩
    have hl : ((group rules s).map (pairOf f)).length = (cs1.map obsPair).length := by simp [l1]
    simp only [structureOk, List.map_append, Bool.and_eq_true]
    rw [hl, List.take_left', List.drop_left']
    · exact ⟨b1, b2⟩
    · rfl
    · rfl

end levels

end C19
