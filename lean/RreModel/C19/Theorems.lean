import RreModel.C19.Lemmas
/-
C19 — property theorems (only). "Parallel execution gives the sequential verdicts on every schedule."

Every statement quantifies over every evaluator/action semantics `sem` that does not write the shared
facts (`Sem.ReadOnly` — proved for the typed core in `worker_reads_only`), every configuration with
`max_threads ≥ 1`, every rule list (any length, any saliences, enabled or not, names not assumed distinct),
every facts value and **every schedule** (`sched s` is an arbitrary list of worker indices for the level of
salience `s`: which worker performs its next atomic step).  The schedule semantics is the abstract one of
Model.lean; real OS interleavings are only sampled by the correspondence run (hence "partial" in DESIGN §6).
-/
namespace C19

variable {C A F : Type}

/-! ## workers only read -/

/-- **worker_reads_only (typed core).** Neither the typed-core evaluator nor any arm of
`execute_action_parallel` writes the facts. -/
theorem worker_reads_only : coreSem.ReadOnly := coreSem_readOnly

/-- **worker_reads_only (machine).** Under a read-only semantics no step of any worker, hence no schedule,
changes the shared facts. -/
theorem schedule_preserves_facts (sem : Sem C A F) (hro : sem.ReadOnly) (sched : List Nat)
    (st : Shared C A F) : (run sem sched st).facts = st.facts := by
  induction sched generalizing st with
  | nil => rfl
  | cons i t ih =>
    simp only [run, List.foldl_cons] at ih ⊢
    rw [ih]
    unfold step
    cases hw : st.workers[i]? with
    | none => rfl
    | some w =>
      unfold stepOn
      by_cases ha : w.appended = true
      · simp [ha]
      · cases hc : w.todo <;> simp [ha, hc, evalRule_readOnly sem hro]

/-! ## it always returns -/

/-- **returns (join).** Whatever interleaving `sched` the scheduler chose — with or without `ReadOnly` — once
the `join` loop has run, every worker has performed its append; a worker takes exactly `|chunk| + 1`
productive steps (`need` decreases by one per own step: `need_step`), all other steps are stutter. -/
theorem returns (sem : Sem C A F) (f : F) (cs : List (List (Rule C A))) (sched : List Nat) :
    allDone (run sem (sched ++ fairTail cs) (initShared f cs)) = true :=
  allDone_after_join sem f cs sched

/-- **returns (finite schedules suffice).** Any schedule that gives worker `i` at least `|chunk i| + 1`
turns is complete, whatever else it contains. -/
theorem returns_of_fair (sem : Sem C A F) (f : F) (cs : List (List (Rule C A))) (sched : List Nat)
    (hfair : ∀ i c, cs[i]? = some c → c.length + 1 ≤ sched.count i) :
    allDone (run sem sched (initShared f cs)) = true := by
  apply allDone_of_need
  intro i
  rw [need_run, need_init]
  cases h : cs[i]? with
  | none => simp
  | some c => have := hfair i c h; simp only; omega

/-! ## chunking -/

/-- **chunks_cover.** The chunks partition the level: concatenated in order they are exactly the level
(every rule of the level lies in exactly one chunk, once); no chunk is empty or longer than the chunk size;
there are `⌈n / chunk_size⌉ ≤ max_threads` of them. -/
theorem chunks_cover (cfg : Config) (hmt : 1 ≤ cfg.maxThreads) (lvl : List (Rule C A)) (hl : lvl ≠ []) :
    let k := divCeil lvl.length cfg.maxThreads
    0 < k ∧ (chunks k lvl).flatten = lvl ∧ (∀ c ∈ chunks k lvl, c ≠ [] ∧ c.length ≤ k) ∧
      (chunks k lvl).length ≤ cfg.maxThreads := by
  have hn : 0 < lvl.length := List.length_pos_iff.mpr hl
  have hk : 0 < divCeil lvl.length cfg.maxThreads := divCeil_pos hn (by omega)
  refine ⟨hk, chunks_flatten _ hk lvl, chunksF_mem _ hk _ _, ?_⟩
  rw [chunks_length _ hk]
  exact divCeil_divCeil_le _ _ (by omega) hn

/-! ## one level -/

/-- **level result = chunk segments in append order.** For every schedule, `execute_rules_parallel` returns
the concatenation of a permutation of the per-chunk result segments (each segment contiguous and in chunk
order, carrying the verdicts on the *initial* facts), and leaves the facts unchanged. -/
theorem level_parallel_blocks (sem : Sem C A F) (hro : sem.ReadOnly) (cfg : Config)
    (hmt : 1 ≤ cfg.maxThreads) (lvl : List (Rule C A)) (hl : lvl ≠ []) (f : F) (sched : List Nat) :
    ∃ blocks : List (List (Ctx C A)), execLevelParallel sem cfg lvl f sched = .ok (blocks.flatten, f) ∧
      blocks.Perm ((chunks (divCeil lvl.length cfg.maxThreads) lvl).map (List.map (ctxOn sem f))) :=
  execLevelParallel_blocks sem hro cfg hmt lvl hl f sched

/-! ## the whole call -/

/-- **parallel_perm_sequential.** For every read-only semantics, every configuration with
`max_threads ≥ 1`, every rule list, every facts and every schedule, `execute_parallel` returns (no error) a
result whose context vector is a permutation of the one-by-one evaluation of the enabled rules on the same
facts — the same (rule, fired) pairs with the same multiplicities — whose `total_rules_evaluated` and
`total_rules_fired` are the reference's counts, and the facts are unchanged. -/
theorem parallel_perm_sequential (sem : Sem C A F) (hro : sem.ReadOnly) (cfg : Config)
    (hmt : 1 ≤ cfg.maxThreads) (rules : List (Rule C A)) (f : F) (sched : Int → List Nat) :
    ∃ res, executeParallel sem cfg rules f sched = .ok res ∧
      res.contexts.Perm (seqRef sem rules f) ∧
      res.evaluated = (seqRef sem rules f).length ∧
      res.fired = (seqRef sem rules f).countP (·.fired) ∧
      res.facts = f := by
  obtain ⟨cs, h, p, _, _⟩ := runLevels_spec sem hro cfg hmt rules sched f (levelKeys rules)
  have hp : cs.Perm (seqRef sem rules f) := by
    refine p.trans ?_
    have : (levelKeys rules).flatMap (fun s => (group rules s).map (ctxOn sem f)) =
        ((levelKeys rules).flatMap (group rules)).map (ctxOn sem f) := by
      rw [List.map_flatMap]
    rw [this]
    exact (levels_partition rules).map _
  refine ⟨_, by simp only [executeParallel, h]; rfl, hp, hp.length_eq, hp.countP_eq _, rfl⟩

/-- the same fired set: a (rule, fired) pair is reported iff the one-by-one evaluation reports it; in
particular a rule is reported as fired iff it is enabled and its condition is true of the facts -/
theorem same_fired_set (sem : Sem C A F) (hro : sem.ReadOnly) (cfg : Config)
    (hmt : 1 ≤ cfg.maxThreads) (rules : List (Rule C A)) (f : F) (sched : Int → List Nat) :
    ∃ res, executeParallel sem cfg rules f sched = .ok res ∧
      ∀ r b, (⟨r, b⟩ : Ctx C A) ∈ res.contexts ↔ (r ∈ rules ∧ r.enabled = true ∧ b = sem.verdict r f) := by
  obtain ⟨res, h, p, _⟩ := parallel_perm_sequential sem hro cfg hmt rules f sched
  refine ⟨res, h, ?_⟩
  intro r b
  rw [p.mem_iff]
  simp only [seqRef, List.mem_map, List.mem_filter]
  constructor
  · rintro ⟨q, ⟨hq, he⟩, heq⟩
    cases heq
    exact ⟨hq, he, rfl⟩
  · rintro ⟨hq, he, rfl⟩
    exact ⟨r, ⟨hq, he⟩, rfl⟩

/-- every enabled rule is evaluated exactly once, a disabled rule never: the rules of the result vector are
a permutation of the enabled rules -/
theorem evaluated_exactly_once (sem : Sem C A F) (hro : sem.ReadOnly) (cfg : Config)
    (hmt : 1 ≤ cfg.maxThreads) (rules : List (Rule C A)) (f : F) (sched : Int → List Nat) :
    ∃ res, executeParallel sem cfg rules f sched = .ok res ∧
      (res.contexts.map (·.rule)).Perm (rules.filter (·.enabled)) := by
  obtain ⟨res, h, p, _⟩ := parallel_perm_sequential sem hro cfg hmt rules f sched
  refine ⟨res, h, ?_⟩
  have := p.map (·.rule)
  simpa [seqRef, List.map_map, Function.comp_def] using this

/-- **levels_descending.** The level keys are strictly descending, they are exactly the saliences of the
enabled rules, and along the result vector the salience never increases (all of a higher level's contexts
come before any lower level's — the level barrier of the `join`). -/
theorem levels_descending (sem : Sem C A F) (hro : sem.ReadOnly) (cfg : Config)
    (hmt : 1 ≤ cfg.maxThreads) (rules : List (Rule C A)) (f : F) (sched : Int → List Nat) :
    Desc (levelKeys rules) ∧
    (∀ s, s ∈ levelKeys rules ↔ ∃ r ∈ rules, r.enabled = true ∧ r.salience = s) ∧
    ∃ res, executeParallel sem cfg rules f sched = .ok res ∧
      res.contexts.Pairwise (fun a b => b.rule.salience ≤ a.rule.salience) := by
  refine ⟨levelKeys_desc rules, fun s => mem_levelKeys, ?_⟩
  obtain ⟨cs, h, _, _, d⟩ := runLevels_spec sem hro cfg hmt rules sched f (levelKeys rules)
  exact ⟨_, by simp only [executeParallel, h]; rfl, d (levelKeys_desc rules)⟩

/-- the boundary the quantifier excludes: with `max_threads = 0` a level that is parallelised divides by
zero (`usize::div_ceil(0)` panics) -/
theorem max_threads_zero_errors (sem : Sem C A F) (cfg : Config) (h0 : cfg.maxThreads = 0)
    (lvl : List (Rule C A)) (hp : shouldParallelize cfg lvl.length = true) (f : F) (sched : List Nat) :
    execLevel sem cfg lvl f sched = .error .divByZero := by
  simp [execLevel, hp, execLevelParallel, h0]

/-! ## the model meets the observation-level specification (typed core) -/

/-- **model_meets_spec.** For every configuration with `max_threads ≥ 1`, every typed-core rule list, every
facts and every schedule, the model's result satisfies the observation-level specification `runOk` — the very
predicate the driver evaluates on the implementation's observations: counters consistent with the vector,
the same (name, fired) multiset / evaluated / fired as the one-by-one reference, facts unchanged, and the
vector is the level segments in descending order, each segment the chunk segments in some append order. -/
theorem model_meets_spec (cfg : Config) (hmt : 1 ≤ cfg.maxThreads) (rules : List CRule) (f : Facts)
    (sched : Int → List Nat) :
    ∃ res, executeParallel coreSem cfg rules f sched = .ok res ∧ runOk cfg rules f res.obs = true := by
  obtain ⟨cs, hrun, hstruct⟩ := runLevels_structure cfg hmt rules sched f (levelKeys rules)
  obtain ⟨res, hres, hperm, hev, hfi, hfacts⟩ :=
    parallel_perm_sequential coreSem worker_reads_only cfg hmt rules f sched
  have hc : res.contexts = cs := by
    simp only [executeParallel, hrun] at hres
    cases hres; rfl
  have hE : res.evaluated = res.contexts.length := by
    simp only [executeParallel, hrun] at hres
    cases hres; rfl
  have hF : res.fired = res.contexts.countP (·.fired) := by
    simp only [executeParallel, hrun] at hres
    cases hres; rfl
  have href : (seqRef coreSem rules f).map obsPair = refPairs rules f := by
    simp [seqRef, refPairs, List.map_map, Function.comp_def, pairOf, coreSem]
  have hcount : ∀ l : List (Ctx Cond Action), (l.map obsPair).countP (·.2) = l.countP (·.fired) := by
    intro l; rw [List.countP_map]; rfl
  refine ⟨res, hres, ?_⟩
  simp only [runOk, countsOk, sameAsRef, Result.obs, Bool.and_eq_true, beq_iff_eq, List.length_map]
  refine ⟨⟨⟨hE, ?_⟩, ⟨⟨⟨?_, ?_⟩, ?_⟩, hfacts⟩⟩, ?_⟩
  · rw [hcount]; exact hF
  · rw [List.isPerm_iff, ← href]; exact hperm.map _
  · rw [hev, ← href, List.length_map]
  · rw [hfi, ← href, hcount]
  · rw [hc]; exact hstruct

/-! ## the read-only hypothesis is necessary -/

/-- the statement without `ReadOnly`: the fired count does not depend on the schedule -/
def schedule_independent_full : Prop :=
  ∀ (C A F : Type) (sem : Sem C A F) (cfg : Config) (rules : List (Rule C A)) (f : F)
    (s1 s2 : Int → List Nat), 1 ≤ cfg.maxThreads →
    (executeParallel sem cfg rules f s1).toOption.map (·.fired) =
      (executeParallel sem cfg rules f s2).toOption.map (·.fired)

/-- a semantics whose action writes the facts (a counter), as a registered custom function or the
`accumulate` condition of the full language can: rule `p` always fires and increments, rule `q` fires iff
the counter is positive -/
def writingSem : Sem Nat Unit Nat :=
  { verdict := fun r f => decide (r.cond ≤ f), evalEffect := fun _ f => f, actEffect := fun _ f => f + 1 }

def writingRules : List (Rule Nat Unit) :=
  [⟨"p", 0, true, 0, [()]⟩, ⟨"q", 0, true, 1, []⟩]

/-- with a writing action the verdicts depend on the schedule: worker 0 first → both fire; worker 1
first → only `p` fires.  So `ReadOnly` cannot be dropped from `parallel_perm_sequential`. -/
theorem schedule_independent_counterexample : ¬ schedule_independent_full := by
  intro h
  have := h Nat Unit Nat writingSem ⟨true, 2, 1⟩ writingRules 0 (fun _ => [0, 0, 1, 1]) (fun _ => [1, 1, 0, 0])
    (by decide)
  revert this
  decide

/-! ## non-vacuity -/

def exRules : List (Rule Cond Action) :=
  [⟨"r0", 10, true, .leaf "a" .gt (.int 0), [.set "b" 5]⟩,
   ⟨"r1", 0, true, .leaf "b" .eq (.int 5), []⟩,
   ⟨"r2", 10, true, .not (.leaf "zz" .eq (.int 0)), []⟩,
   ⟨"r3", 10, false, .leaf "a" .gt (.int 0), []⟩,
   ⟨"r4", 10, true, .and (.leaf "a" .gt (.int 0)) (.leaf "b" .lt (.int 0)), [.set "a" 0]⟩,
   ⟨"r5", 0, true, .leaf "a" .le (.int 1), []⟩]

def exFacts : Facts := [("a", .int 1), ("b", .int 2)]

def namesOf (r : Except Err (Result Cond Action Facts)) : Option (List (String × Bool) × Nat × Nat) :=
  r.toOption.map (fun x => (x.contexts.map (fun c => (c.rule.name, c.fired)), x.evaluated, x.fired))

-- three workers at level 10 (chunk size 1); worker 2 appends first, then 0, then 1; level 0 sequential
-- (min_rules_per_thread = 3 > 2).  `r0` fired but `b` is still 2 for `r1`: actions do not write.
example : namesOf (executeParallel coreSem ⟨true, 4, 3⟩ exRules exFacts (fun _ => [2, 2, 0, 1, 0])) =
    some ([("r4", false), ("r0", true), ("r2", true), ("r1", false), ("r5", true)], 5, 3) := by decide +kernel
-- the same call under the identity schedule, and the engine's sequential path
example : namesOf (executeParallel coreSem ⟨true, 4, 3⟩ exRules exFacts (fun _ => [])) =
    some ([("r0", true), ("r2", true), ("r4", false), ("r1", false), ("r5", true)], 5, 3) := by decide +kernel
example : namesOf (executeParallel coreSem ⟨false, 4, 3⟩ exRules exFacts (fun _ => [])) =
    some ([("r0", true), ("r2", true), ("r4", false), ("r1", false), ("r5", true)], 5, 3) := by decide +kernel
-- two chunks of sizes 2 and 1 (max_threads = 2), second worker first
example : namesOf (executeParallel coreSem ⟨true, 2, 1⟩ exRules exFacts (fun _ => [1, 1])) =
    some ([("r4", false), ("r0", true), ("r2", true), ("r5", true), ("r1", false)], 5, 3) := by decide +kernel
example : (chunks 2 [1, 2, 3, 4, 5]) = [[1, 2], [3, 4], [5]] := by decide
-- a fair schedule for two workers with chunks of sizes 2 and 1 (3 + 2 turns), interleaved; and an unfair one
example : allDone (run coreSem [1, 0, 0, 1, 0] (initShared exFacts (chunks 2 (group exRules 10)))) = true := by
  decide +kernel
example : allDone (run coreSem [1, 0, 0, 1] (initShared exFacts (chunks 2 (group exRules 10)))) = false := by
  decide +kernel
example : levelKeys exRules = [10, 0] := by decide

/-! the typed core's comparison is type-sensitive for `==` / `!=` and numeric (through `to_number`) for the
ordering operators: constants that *print* alike — `25`, `25.0`, `"25"`; `true`, `"true"` — are different values -/
def tyFacts : Facts := [("q", .int 25), ("g", .bool true), ("w", .str "25")]
def tyRules : List (Rule Cond Action) :=
  [⟨"eq_int", 0, true, .leaf "q" .eq (.int 25), []⟩,
   ⟨"eq_float", 0, true, .leaf "q" .eq (.num 25), []⟩,
   ⟨"eq_str", 0, true, .leafRef "q" .eq "25", []⟩,
   ⟨"ne_float", 0, true, .leaf "q" .ne (.num 25), []⟩,
   ⟨"ge_float", 0, true, .leaf "q" .ge (.num 25), []⟩,
   ⟨"flag_bool", 0, true, .leaf "g" .eq (.bool true), []⟩,
   ⟨"flag_str", 0, true, .leafRef "g" .eq "true", []⟩,
   ⟨"str_eq_str", 0, true, .leafRef "w" .eq "25", []⟩,
   ⟨"str_eq_int", 0, true, .leaf "w" .eq (.int 25), []⟩,
   ⟨"ref_resolved", 0, true, .leafRef "w" .ne "q", []⟩]
-- one worker holds all ten rules (max_threads = 1): each keeps its own verdict
example : namesOf (executeParallel coreSem ⟨true, 1, 1⟩ tyRules tyFacts (fun _ => [])) =
    some ([("eq_int", true), ("eq_float", false), ("eq_str", false), ("ne_float", true), ("ge_float", true),
           ("flag_bool", true), ("flag_str", false), ("str_eq_str", true), ("str_eq_int", false),
           ("ref_resolved", true)], 10, 6) := by decide +kernel
example : Op.eval .le (.str "25") (.int 25) = true ∧ Op.eval .le (.str "true") (.int 25) = false ∧
    Op.eval .lt (.bool true) (.int 25) = false ∧ Op.eval .gt (.num 3) (.str "-4") = true := by decide +kernel

end C19
