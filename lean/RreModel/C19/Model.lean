/-
C19 — model of `src/engine/parallel.rs` (`ParallelRuleEngine::execute_parallel`).

What is modelled
* `group_rules_by_salience` + the descending sort of the level keys (`levelKeys`, `group`);
* `should_parallelize`; `chunk_size = rules.len().div_ceil(max_threads)`; `slice::chunks`;
* `execute_rules_sequential` (`execSequential`) and `execute_rules_parallel` as a **small-step shared-memory
  machine**: the state shared by the workers is the facts (behind `RwLock`s — `Facts::clone` is a shallow
  `Arc` clone, so the workers and the caller see the *same* map) and the mutex-protected result vector;
  a worker owns its chunk and a private `thread_results`; one step of worker `i` is either "evaluate my next
  rule on the shared facts and run its actions if it fired" or — when the chunk is exhausted — the single
  critical section `results.extend(thread_results)`.  A *schedule* is any list of worker indices (which
  worker moves next); the `join` loop is the completion tail `fairTail`.
* the loop over the levels of `execute_parallel`, the counters and the returned vector.

The evaluator and the actions are parameters (`Sem`): `verdict` is `evaluate_rule_conditions`' answer,
`evalEffect` what evaluating does to the shared facts (nothing in the typed core; the `accumulate` condition
of the full language calls `facts.set`), `actEffect` what `execute_action_parallel` does to them (nothing:
every typed-core arm is a stub returning `Ok(())`; only `Custom` with a registered function could write).
The concrete typed-core instance used by the driver is `coreSem` at the end of this file.

Not modelled: `execution_time`, `parallel_speedup`, debug printing, a worker thread that panics
(`join` → `Err(EvaluationError)`; the typed-core evaluator has no panicking path).
-/
namespace C19

/-- `ParallelConfig` (`dependency_analysis` is never read by parallel.rs) -/
structure Config where
  enabled : Bool
  maxThreads : Nat
  minRules : Nat
deriving Repr, DecidableEq

/-- the part of `Rule` the parallel engine looks at; `C` = condition type, `A` = action type -/
structure Rule (C A : Type) where
  name : String
  salience : Int
  enabled : Bool
  cond : C
  actions : List A
deriving Repr, DecidableEq

/-- `RuleExecutionContext` (`error` is always `None`) -/
structure Ctx (C A : Type) where
  rule : Rule C A
  fired : Bool
deriving Repr, DecidableEq

/-- the evaluator and the actions, as the parallel engine uses them, over a facts type `F` -/
structure Sem (C A F : Type) where
  /-- `evaluate_rule_conditions(rule, facts, functions)` -/
  verdict : Rule C A → F → Bool
  /-- what evaluating the condition does to the shared facts -/
  evalEffect : Rule C A → F → F
  /-- what `execute_action_parallel(action, facts, functions)` does to the shared facts -/
  actEffect : A → F → F

/-- explicit error values for the two panics reachable from `execute_rules_parallel` -/
inductive Err where
  | divByZero       -- `usize::div_ceil(0)`  (max_threads = 0)
  | chunkSizeZero   -- `slice::chunks(0)`    (empty level; unreachable through `should_parallelize`)
deriving Repr, DecidableEq

section generic
variable {C A F : Type}

/-! ### grouping by salience -/

/-- insert into a strictly descending list (a key already present is not repeated):
the key set of the `HashMap<i32, Vec<Rule>>` after `sort_by(|a, b| b.cmp(a))` -/
def insertDesc (x : Int) : List Int → List Int
  | [] => [x]
  | y :: ys => if y < x then x :: y :: ys else if x = y then y :: ys else y :: insertDesc x ys

/-- salience levels of the enabled rules, highest first -/
def levelKeys (rules : List (Rule C A)) : List Int :=
  rules.foldr (fun r acc => if r.enabled then insertDesc r.salience acc else acc) []

/-- `salience_groups[&salience]`: the enabled rules of that level in knowledge-base order -/
def group (rules : List (Rule C A)) (s : Int) : List (Rule C A) :=
  rules.filter (fun r => r.enabled && r.salience == s)

/-- `should_parallelize` -/
def shouldParallelize (cfg : Config) (n : Nat) : Bool :=
  cfg.enabled && decide (cfg.minRules ≤ n) && decide (2 ≤ n)

/-- `usize::div_ceil` for a non-zero divisor -/
def divCeil (n d : Nat) : Nat := (n + d - 1) / d

/-- `slice::chunks(k)` for `k > 0` (fuel = length of the slice) -/
def chunksF (k : Nat) : Nat → List α → List (List α)
  | 0, _ => []
  | fuel + 1, l => if l.isEmpty then [] else l.take k :: chunksF k fuel (l.drop k)

def chunks (k : Nat) (l : List α) : List (List α) := chunksF k l.length l

/-! ### one loop iteration (identical in both paths) -/

/-- evaluate one rule on the facts; if it fired run its actions; produce its context -/
def evalRule (sem : Sem C A F) (r : Rule C A) (f : F) : Ctx C A × F :=
  let fired := sem.verdict r f
  let f1 := sem.evalEffect r f
  (⟨r, fired⟩, if fired then r.actions.foldl (fun g a => sem.actEffect a g) f1 else f1)

/-- `execute_rules_sequential` -/
def execSequential (sem : Sem C A F) : List (Rule C A) → F → List (Ctx C A) × F
  | [], f => ([], f)
  | r :: rs, f =>
    let p := evalRule sem r f
    let q := execSequential sem rs p.2
    (p.1 :: q.1, q.2)

/-! ### `execute_rules_parallel` as a shared-memory machine -/

/-- a worker thread: the rest of its chunk, its private `thread_results`, whether it has done its append -/
structure Worker (C A : Type) where
  todo : List (Rule C A)
  acc : List (Ctx C A)
  appended : Bool

/-- everything the workers share: the facts and the mutex-protected vector, kept as the sequence of
segments that were `extend`ed to it (the vector itself is `results`) -/
structure Shared (C A F : Type) where
  facts : F
  blocks : List (List (Ctx C A))
  workers : List (Worker C A)

def Shared.results (st : Shared C A F) : List (Ctx C A) := st.blocks.flatten

/-- one atomic step of worker `i` whose current local state is `w` -/
def stepOn (sem : Sem C A F) (i : Nat) (w : Worker C A) (st : Shared C A F) : Shared C A F :=
  if w.appended then st
  else match w.todo with
    | r :: rest =>
      let p := evalRule sem r st.facts
      { st with facts := p.2,
                workers := st.workers.set i { todo := rest, acc := w.acc ++ [p.1], appended := false } }
    | [] =>
      { st with blocks := st.blocks ++ [w.acc],
                workers := st.workers.set i { todo := [], acc := w.acc, appended := true } }

/-- the scheduler lets worker `i` move (no such worker, or it has finished: nothing happens) -/
def step (sem : Sem C A F) (st : Shared C A F) (i : Nat) : Shared C A F :=
  match st.workers[i]? with
  | none => st
  | some w => stepOn sem i w st

/-- run a schedule -/
def run (sem : Sem C A F) (sched : List Nat) (st : Shared C A F) : Shared C A F :=
  sched.foldl (step sem) st

/-- state right after the `thread::spawn`s -/
def initShared (f : F) (cs : List (List (Rule C A))) : Shared C A F :=
  { facts := f, blocks := [], workers := cs.map (fun c => { todo := c, acc := [], appended := false }) }

/-- the `join` loop: whatever the workers still owe when the given schedule ends is performed
(worker `i` needs at most `|chunk i| + 1` steps; steps of a finished worker do nothing) -/
def fairTailFrom : Nat → List (List α) → List Nat
  | _, [] => []
  | i, c :: cs => List.replicate (c.length + 1) i ++ fairTailFrom (i + 1) cs

def fairTail (cs : List (List α)) : List Nat := fairTailFrom 0 cs

/-- all workers have appended (every `join` returns) -/
def allDone (st : Shared C A F) : Bool := st.workers.all (·.appended)

/-- `execute_rules_parallel(rules, facts)` under the interleaving `sched` -/
def execLevelParallel (sem : Sem C A F) (cfg : Config) (lvl : List (Rule C A)) (f : F) (sched : List Nat) :
    Except Err (List (Ctx C A) × F) :=
  if cfg.maxThreads = 0 then .error .divByZero
  else
    let k := divCeil lvl.length cfg.maxThreads
    if k = 0 then .error .chunkSizeZero
    else
      let cs := chunks k lvl
      let st := run sem (sched ++ fairTail cs) (initShared f cs)
      .ok (st.results, st.facts)

/-- one salience level of `execute_parallel` -/
def execLevel (sem : Sem C A F) (cfg : Config) (lvl : List (Rule C A)) (f : F) (sched : List Nat) :
    Except Err (List (Ctx C A) × F) :=
  if shouldParallelize cfg lvl.length then execLevelParallel sem cfg lvl f sched
  else .ok (execSequential sem lvl f)

/-- the `for salience in salience_levels` loop; `sched s` is the interleaving used at level `s` -/
def runLevels (sem : Sem C A F) (cfg : Config) (rules : List (Rule C A)) (sched : Int → List Nat) :
    List Int → F → Except Err (List (Ctx C A) × F)
  | [], f => .ok ([], f)
  | s :: ss, f =>
    match execLevel sem cfg (group rules s) f (sched s) with
    | .error e => .error e
    | .ok p =>
      match runLevels sem cfg rules sched ss p.2 with
      | .error e => .error e
      | .ok q => .ok (p.1 ++ q.1, q.2)

/-- `ParallelExecutionResult` plus the caller's facts after the call -/
structure Result (C A F : Type) where
  evaluated : Nat
  fired : Nat
  contexts : List (Ctx C A)
  facts : F

/-- `execute_parallel(knowledge_base, facts)`; `rules = knowledge_base.get_rules()` -/
def executeParallel (sem : Sem C A F) (cfg : Config) (rules : List (Rule C A)) (f : F)
    (sched : Int → List Nat) : Except Err (Result C A F) :=
  match runLevels sem cfg rules sched (levelKeys rules) f with
  | .error e => .error e
  | .ok p => .ok { evaluated := p.1.length, fired := p.1.countP (·.fired), contexts := p.1, facts := p.2 }

/-- the reference of the property: the enabled rules evaluated one by one on the same facts -/
def seqRef (sem : Sem C A F) (rules : List (Rule C A)) (f : F) : List (Ctx C A) :=
  (rules.filter (·.enabled)).map (fun r => ⟨r, sem.verdict r f⟩)

/-- neither evaluating a condition nor running an action writes the shared facts -/
def Sem.ReadOnly (sem : Sem C A F) : Prop :=
  (∀ r f, sem.evalEffect r f = f) ∧ (∀ a f, sem.actEffect a f = f)

end generic

/-! ### the typed core: concrete conditions, actions and facts (used by the driver) -/

inductive Op where
  | eq | ne | gt | ge | lt | le
  | contains | notContains | startsWith | endsWith | matches | isIn
deriving Repr, DecidableEq

/-- the scalar `Value`s of the typed core: `Integer(i)`, `Number(i as f64)` for an *integral* float (never a
decimal: the case grammar writes `f<int>`), `String(s)`, `Boolean(b)`.  `|i| ≤ 2^53`, so `i as f64` is exact and
comparing the floats is comparing the integers. -/
inductive Val where
  | int (i : Int)
  | num (i : Int)
  | str (s : String)
  | bool (b : Bool)
deriving Repr, DecidableEq

/-- `s.parse::<f64>()` on the strings of the case grammar: an optional `-` and decimal digits is that number,
any other admitted string is not a number (the grammar excludes every other spelling Rust's float parser accepts) -/
def strNum? (s : String) : Option Int :=
  let cs := s.toList
  let ds := match cs with | '-' :: r => r | r => r
  if !ds.isEmpty && ds.all Char.isDigit then
    let n : Nat := ds.foldl (fun a c => a * 10 + (c.toNat - '0'.toNat)) 0
    some (match cs with | '-' :: _ => -(n : Int) | _ => (n : Int))
  else none

/-- `Value::to_number` -/
def Val.toNumber? : Val → Option Int
  | .int i => some i
  | .num i => some i
  | .str s => strNum? s
  | .bool _ => none

/-- the arithmetic operators of `expression::apply_operator` that the case grammar writes (`/` and `%` are not used) -/
inductive AOp where
  | add | sub | mul
deriving Repr, DecidableEq

def AOp.sym : AOp → String
  | .add => "+" | .sub => "-" | .mul => "*"

def AOp.ap : AOp → Int → Int → Int
  | .add, a, b => a + b
  | .sub, a, b => a - b
  | .mul, a, b => a * b

/-- the text of a `Value::Expression` right-hand side — what the GRL parser makes of a right-hand side that names a
field (`a > b`, `a > U.x`) or computes with one (`a > b + 1`): a bare field name, or `name op k` with an unsigned
integer literal `k` (one operator: no precedence question arises) -/
inductive Rhs where
  | ref (name : String)
  | arith (name : String) (op : AOp) (k : Nat)
deriving Repr, DecidableEq

/-- the expression string itself -/
def Rhs.text : Rhs → String
  | .ref n => n
  | .arith n o k => n ++ o.sym ++ toString k

/-- `ConditionGroup` restricted to `Single(field op scalar-literal)` (integer, integral float or boolean literal),
`Single(field op string-literal)` (`leafRef`: a `Value::String`, which the evaluator first tries to resolve as the
name of a field), `Compound`, `Not`; `xnot` is `Compound { operator: LogicalOperator::Not }`, which the parallel
evaluator answers `false` -/
inductive Cond where
  | leaf (field : String) (op : Op) (lit : Val)
  | leafRef (field : String) (op : Op) (other : String)
  | leafExpr (field : String) (op : Op) (rhs : Rhs)
  | and (l r : Cond)
  | or (l r : Cond)
  | not (c : Cond)
  | xnot (l r : Cond)
deriving Repr, DecidableEq

/-- `ActionType`; `Custom` only with no function registered under its name (no function is registered in the typed core) -/
inductive Action where
  | set (field : String) (value : Int)
  | methodCall | log | retract | activateAgendaGroup | scheduleRule | completeWorkflow
  | setWorkflowData | append
  | customUnregistered     -- `Custom { action_type }` with no function of that name registered: `Ok(())`
deriving Repr, DecidableEq

/-- scalar-valued facts keyed by path.  A key `U.x` is field `x` of the object fact `U` (a plain name is the top-level
fact of that name); a key `~U.x` is the *flat* top-level fact whose name is spelled `U.x` (`facts.add_value("U.x", v)`:
a `HashMap` key that happens to contain a dot).  Both may be present, with different values. -/
abbrev Facts := List (String × Val)

/-- the key under which the flat top-level fact spelled like the dotted path `k` is kept -/
def flatKey (k : String) : String := "~" ++ k

/-- `facts.get_nested(path).or_else(|| facts.get(path))` (src/engine/parallel.rs `evaluate_single_condition`):
`Facts::get_nested` descends from the object `parts[0]` — the nested field wins — and only when that fails
(`None`: no such object / no such field) is the whole path tried as one top-level key (`Facts::get`) -/
def lookup (f : Facts) (k : String) : Option Val :=
  match f.find? (fun p => p.1 == k) with
  | some p => some p.2
  | none =>
    match f.find? (fun p => p.1 == flatKey k) with
    | some p => some p.2
    | none => none

/-- a field reference inside `expression::evaluate_expression`: `facts.get(expr).or_else(|| facts.get_nested(expr))` —
the FLAT key first, the nested path second: the opposite order of `lookup` -/
def lookupFlatFirst (f : Facts) (k : String) : Option Val :=
  match f.find? (fun p => p.1 == flatKey k) with
  | some p => some p.2
  | none =>
    match f.find? (fun p => p.1 == k) with
    | some p => some p.2
    | none => none

/-- `expression::apply_operator(v, op, Integer(k))` for `+ - *`: both operands through `value_to_number` (a numeric
string counts as its number; a boolean or any other string is an error — `+` concatenates only two strings); the
result is `Integer` iff both operands were `Integer`s, otherwise `Number` -/
def applyArith (v : Val) (o : AOp) (k : Nat) : Option Val :=
  match v with
  | .int i => some (.int (o.ap i k))
  | .num i => some (.num (o.ap i k))
  | .str s => (strNum? s).map fun i => .num (o.ap i k)
  | .bool _ => none

/-- `expression::evaluate_expression(text, facts)`; `none` = `Err` (field not found / operand not numeric) -/
def Rhs.eval? (f : Facts) : Rhs → Option Val
  | .ref n => lookupFlatFirst f n
  | .arith n o k =>
    match lookupFlatFirst f n with
    | some v => applyArith v o k
    | none => none

/-- `l.contains(r)` on the characters -/
def infixB (p : List Char) : List Char → Bool
  | [] => p.isEmpty
  | c :: cs => p.isPrefixOf (c :: cs) || infixB p cs

/-- the string arms of `Operator::evaluate`: both sides through `as_string_ref`, otherwise `false` -/
def strCmp (p : List Char → List Char → Bool) (a b : Val) : Bool :=
  match a, b with
  | .str x, .str y => p x.toList y.toList
  | _, _ => false

/-- the ordering arms of `Operator::evaluate`: both sides through `to_number`, otherwise `false` -/
def numCmp (p : Int → Int → Bool) (a b : Val) : Bool :=
  match a.toNumber?, b.toNumber? with
  | some x, some y => p x y
  | _, _ => false

/-- `Operator::evaluate` on two scalars (neither is `Null`): `==` / `!=` are the derived `PartialEq` of `Value` —
**type-sensitive**: `Integer(25)`, `Number(25.0)` and `String("25")` are pairwise different, so are
`Boolean(true)` and `String("true")`; the ordering operators compare `to_number()`s (a numeric-looking string
counts as its number, a boolean or any other string makes the comparison `false`) -/
def Op.eval : Op → Val → Val → Bool
  | .eq, a, b => a == b
  | .ne, a, b => a != b
  | .gt, a, b => numCmp (fun x y => decide (y < x)) a b
  | .ge, a, b => numCmp (fun x y => decide (y ≤ x)) a b
  | .lt, a, b => numCmp (fun x y => decide (x < y)) a b
  | .le, a, b => numCmp (fun x y => decide (x ≤ y)) a b
  | .contains, a, b => strCmp (fun l r => infixB r l) a b
  | .notContains, a, b => strCmp (fun l r => !infixB r l) a b
  | .startsWith, a, b => strCmp (fun l r => r.isPrefixOf l) a b
  | .endsWith, a, b => strCmp (fun l r => r.reverse.isPrefixOf l.reverse) a b
  | .matches, a, b => strCmp (fun l r => infixB r l) a b      -- "just use contains as a simple match"
  | .isIn, _, _ => false                                       -- the right-hand side is never a `Value::Array` here

/-- `Operator::evaluate(v, Value::Expression(_))` for a scalar `v`: the derived `PartialEq` says "different", the
expression has no number, no string and is no array -/
def Op.evalVsExpr : Op → Bool
  | .ne => true
  | _ => false

/-- `evaluate_rule_conditions` / `evaluate_single_condition` (a missing field ⇒ `false`) -/
def Cond.eval : Cond → Facts → Bool
  | .leaf fld op lit, f =>
    match lookup f fld with
    | some v => op.eval v lit
    | none => false
  | .leafRef fld op other, f =>
    -- `rhs = facts.get_nested(s).or_else(get(s)).unwrap_or(Value::String(s))`: the value of the field of that
    -- name if there is one, otherwise the string itself
    match lookup f fld with
    | some v =>
      match lookup f other with
      | some w => op.eval v w
      | none => op.eval v (.str other)
    | none => false
  | .leafExpr fld op rhs, f =>
    -- `Value::Expression(expr)`: `evaluate_expression(expr, facts)`; on `Err` the whole text is looked up as a field
    -- name (nested first), and failing that the comparison is made with the `Value::Expression` itself
    match lookup f fld with
    | some v =>
      match rhs.eval? f with
      | some w => op.eval v w
      | none =>
        match lookup f rhs.text with
        | some w => op.eval v w
        | none => op.evalVsExpr
    | none => false
  | .and l r, f => l.eval f && r.eval f
  | .or l r, f => l.eval f || r.eval f
  | .not c, f => !c.eval f
  | .xnot _ _, _ => false

/-- `execute_action_parallel`: arm by arm, what happens to the facts -/
def Action.effect : Action → Facts → Facts
  | .set _ _, f => f               -- "Simplified assignment handling" → Ok(())
  | .methodCall, f => f
  | .log, f => f                   -- println! only
  | .retract, f => f
  | .activateAgendaGroup, f => f
  | .scheduleRule, f => f
  | .completeWorkflow, f => f
  | .setWorkflowData, f => f
  | .append, f => f
  | .customUnregistered, f => f    -- `functions_guard.get(action_type)` is `None`: nothing is called

def coreSem : Sem Cond Action Facts :=
  { verdict := fun r f => r.cond.eval f, evalEffect := fun _ f => f, actEffect := Action.effect }

end C19
