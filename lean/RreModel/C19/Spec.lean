import RreModel.C19.Model
/-
C19 — the property as decidable predicates over API-level observations
(`ParallelExecutionResult {total_rules_evaluated, total_rules_fired, execution_contexts[].rule.name/fired}`
plus the caller's facts after the call).  The same predicate `runOk` is proved of every model execution —
for every configuration and every schedule — in Theorems.lean (`model_meets_spec`) and evaluated by the
driver on the implementation's observations (oracle mode).
-/
namespace C19

abbrev CRule := Rule Cond Action

/-- what one call of `execute_parallel` shows -/
structure RunObs where
  evaluated : Nat
  fired : Nat
  ctxs : List (String × Bool)       -- execution_contexts[].(rule.name, fired), in vector order
  facts : Facts                      -- the caller's facts after the call
deriving Repr, DecidableEq

def Result.obs (r : Result Cond Action Facts) : RunObs :=
  { evaluated := r.evaluated, fired := r.fired,
    ctxs := r.contexts.map (fun c => (c.rule.name, c.fired)), facts := r.facts }

/-- the verdict pair of a rule on the facts `f` -/
def pairOf (f : Facts) (r : CRule) : String × Bool := (r.name, r.cond.eval f)

/-- the reference of the property: the enabled rules, one by one, on the same facts -/
def refPairs (rules : List CRule) (f : Facts) : List (String × Bool) :=
  (rules.filter (·.enabled)).map (pairOf f)

/-- the counters are the length of the vector and its number of fired entries -/
def countsOk (o : RunObs) : Bool :=
  o.evaluated == o.ctxs.length && o.fired == o.ctxs.countP (·.2)

/-- **the property**: the same (rule, fired) pairs as the one-by-one reference (as a multiset, hence the
same fired set), the same evaluated and fired counts, and the facts are left as they were -/
def sameAsRef (ref : List (String × Bool)) (f : Facts) (o : RunObs) : Bool :=
  o.ctxs.isPerm ref && o.evaluated == ref.length && o.fired == ref.countP (·.2) && o.facts == f

/-- the same, between two observed runs (parallel run `p` against the engine's sequential run `s`) -/
def sameAsRun (s p : RunObs) : Bool :=
  p.ctxs.isPerm s.ctxs && p.evaluated == s.evaluated && p.fired == s.fired && p.facts == s.facts

/-- `obs` is the concatenation of some permutation of the blocks `bs` (fuel = number of blocks) -/
def concatOfPermF [DecidableEq α] : Nat → List (List α) → List α → Bool
  | 0, bs, obs => bs.isEmpty && obs.isEmpty
  | n + 1, bs, obs =>
    (bs.isEmpty && obs.isEmpty) ||
      bs.any (fun b => b.isPrefixOf obs && concatOfPermF n (bs.erase b) (obs.drop b.length))

def concatOfPerm [DecidableEq α] (bs : List (List α)) (obs : List α) : Bool :=
  concatOfPermF bs.length bs obs

/-- one level's segment of the vector: in knowledge-base order if the level ran sequentially, otherwise the
per-chunk segments, each contiguous and in order, in *some* order (the append order of the workers) -/
def levelBlockOk (cfg : Config) (expected got : List (String × Bool)) : Bool :=
  if shouldParallelize cfg expected.length then
    cfg.maxThreads != 0 && concatOfPerm (chunks (divCeil expected.length cfg.maxThreads) expected) got
  else got == expected

/-- the vector is the level segments, highest salience first -/
def structureOk (cfg : Config) (rules : List CRule) (f : Facts) : List Int → List (String × Bool) → Bool
  | [], got => got.isEmpty
  | s :: ss, got =>
    let e := (group rules s).map (pairOf f)
    levelBlockOk cfg e (got.take e.length) && structureOk cfg rules f ss (got.drop e.length)

/-- the whole oracle for one run -/
def runOk (cfg : Config) (rules : List CRule) (f : Facts) (o : RunObs) : Bool :=
  countsOk o && sameAsRef (refPairs rules f) f o && structureOk cfg rules f (levelKeys rules) o.ctxs

end C19
