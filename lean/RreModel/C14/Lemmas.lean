import RreModel.C14.Spec
/-
C14 — helper lemmas: association-list buffers as functions `key ↦ queue`, the state invariant,
its preservation by every call, and what one call emits.
-/
namespace C14

/-! ### generic list facts (core has only a thin `Nodup` library) -/

theorem nodup_of_nodup_map {α β} (f : α → β) {l : List α} (h : (l.map f).Nodup) : l.Nodup := by
  induction l with
  | nil => exact List.nodup_nil
  | cons a l ih =>
    simp only [List.map_cons, List.nodup_cons, List.mem_map, not_exists, not_and] at h ⊢
    exact ⟨fun hm => h.1 a hm rfl, ih h.2⟩

theorem nodup_map_of_inj_on {α β} (f : α → β) {l : List α} (hl : l.Nodup)
    (hinj : ∀ x ∈ l, ∀ y ∈ l, f x = f y → x = y) : (l.map f).Nodup := by
  induction l with
  | nil => exact List.nodup_nil
  | cons a l ih =>
    simp only [List.map_cons, List.nodup_cons, List.mem_map, not_exists, not_and] at hl ⊢
    refine ⟨fun x hx hfx => ?_, ih hl.2 (fun x hx y hy => hinj x (List.mem_cons_of_mem _ hx) y (List.mem_cons_of_mem _ hy))⟩
    have := hinj x (List.mem_cons_of_mem _ hx) a (List.mem_cons_self) hfx
    exact hl.1 (this ▸ hx)

theorem nodup_filter {α} (p : α → Bool) {l : List α} (h : l.Nodup) : (l.filter p).Nodup :=
  List.Nodup.sublist List.filter_sublist h

/-- ids are unique ⇒ an event of the list is determined by its id -/
theorem eq_of_id_eq {l : List Ev} (h : (l.map (·.id)).Nodup) {x y : Ev} (hx : x ∈ l) (hy : y ∈ l)
    (e : x.id = y.id) : x = y := by
  induction l with
  | nil => cases hx
  | cons a l ih =>
    simp only [List.map_cons, List.nodup_cons, List.mem_map, not_exists, not_and] at h
    rcases List.mem_cons.1 hx with rfl | hx' <;> rcases List.mem_cons.1 hy with rfl | hy'
    · rfl
    · exact absurd e.symm (h.1 y hy')
    · exact absurd e (h.1 x hx')
    · exact ih h.2 hx' hy'

theorem foldl_fix {α β} (f : β → α → β) (b : β) (l : List α) (h : ∀ a ∈ l, f b a = b) :
    l.foldl f b = b := by
  induction l with
  | nil => rfl
  | cons a l ih =>
    rw [List.foldl_cons, h a List.mem_cons_self]
    exact ih (fun x hx => h x (List.mem_cons_of_mem _ hx))

theorem dropWhile_eq_self {α} (p : α → Bool) (l : List α) (h : ∀ a ∈ l, p a = false) :
    l.dropWhile p = l := by
  cases l with
  | nil => rfl
  | cons a l => simp [h a List.mem_cons_self]

/-- with no duplicates the popped prefix and the kept suffix are disjoint -/
theorem not_mem_takeWhile_of_mem_dropWhile {α} (p : α → Bool) {l : List α} (hn : l.Nodup) {x : α}
    (hd : x ∈ l.dropWhile p) : x ∉ l.takeWhile p := by
  have h := @List.takeWhile_append_dropWhile α p l
  rw [← h] at hn
  exact fun ht => (List.nodup_append.1 hn).2.2 x ht x hd rfl

/-! ### buffers as functions `key ↦ queue` -/

def KeysNodup (b : Buf) : Prop := (b.map Prod.fst).Nodup

theorem queue_push (k k' : Nat) (e : Ev) (b : Buf) :
    queue k' (push k e b) = if k' = k then queue k b ++ [e] else queue k' b := by
  induction b with
  | nil =>
    by_cases h : k' = k
    · subst h; simp [push, queue]
    · have h' : ¬ k = k' := fun e => h e.symm
      simp [push, queue, h, h']
  | cons kq rest ih =>
    obtain ⟨k0, q⟩ := kq
    by_cases h0 : k0 = k
    · subst h0
      by_cases h : k' = k0
      · subst h; simp [push, queue]
      · have h' : ¬ k0 = k' := fun e => h e.symm
        simp [push, queue, h, h']
    · by_cases h : k' = k
      · subst h
        simp only [push, if_neg h0, queue, if_true] at ih ⊢
        exact ih
      · simp only [push, if_neg h0, queue, if_neg h] at ih ⊢
        by_cases h1 : k0 = k'
        · simp [h1]
        · simp [h1, ih]

theorem keys_push (k : Nat) (e : Ev) (b : Buf) :
    (push k e b).map Prod.fst = if k ∈ b.map Prod.fst then b.map Prod.fst else b.map Prod.fst ++ [k] := by
  induction b with
  | nil => simp [push]
  | cons kq rest ih =>
    obtain ⟨k0, q⟩ := kq
    by_cases h0 : k0 = k
    · subst h0; simp [push]
    · have h0' : ¬ k = k0 := fun e => h0 e.symm
      simp only [push, if_neg h0, List.map_cons, ih, List.mem_cons, h0', false_or]
      by_cases hm : k ∈ rest.map Prod.fst <;> simp [hm]

theorem keysNodup_push {k : Nat} {e : Ev} {b : Buf} (h : KeysNodup b) : KeysNodup (push k e b) := by
  unfold KeysNodup at *
  rw [keys_push]
  by_cases hm : k ∈ b.map Prod.fst
  · simpa [hm] using h
  · rw [if_neg hm]
    refine List.nodup_append.2 ⟨h, List.nodup_cons.2 ⟨List.not_mem_nil, List.nodup_nil⟩, ?_⟩
    intro a ha b' hb'
    rcases List.mem_singleton.1 hb' with rfl
    exact fun hab => hm (hab ▸ ha)

theorem queue_nil_of_not_mem {k : Nat} {b : Buf} (h : k ∉ b.map Prod.fst) : queue k b = [] := by
  induction b with
  | nil => rfl
  | cons kq rest ih =>
    obtain ⟨k0, q⟩ := kq
    simp only [List.map_cons, List.mem_cons, not_or] at h
    have h0 : ¬ k0 = k := fun e => h.1 e.symm
    simp only [queue, if_neg h0]
    exact ih h.2

theorem queue_of_mem {k : Nat} {q : List Ev} {b : Buf} (hk : KeysNodup b) (h : (k, q) ∈ b) :
    queue k b = q := by
  induction b with
  | nil => cases h
  | cons kq rest ih =>
    obtain ⟨k0, q0⟩ := kq
    unfold KeysNodup at hk
    simp only [List.map_cons, List.nodup_cons] at hk
    rcases List.mem_cons.1 h with heq | hr
    · cases heq; simp [queue]
    · have hne : ¬ k0 = k := by
        intro e
        subst e
        exact hk.1 (List.mem_map.2 ⟨(k0, q), hr, rfl⟩)
      simp only [queue, if_neg hne]
      exact ih hk.2 hr

theorem keys_evictBuf_sublist (w : Int) (W : Nat) (b : Buf) :
    ((evictBuf w W b).map Prod.fst).Sublist (b.map Prod.fst) := by
  unfold evictBuf
  have h1 : ((b.map (fun kq => (kq.1, kq.2.dropWhile (expired w W)))).map Prod.fst) = b.map Prod.fst := by
    simp [List.map_map, Function.comp_def]
  rw [← h1]
  exact List.Sublist.map _ List.filter_sublist

theorem keysNodup_evictBuf {w : Int} {W : Nat} {b : Buf} (h : KeysNodup b) :
    KeysNodup (evictBuf w W b) :=
  List.Nodup.sublist (keys_evictBuf_sublist w W b) h

theorem queue_evictBuf {w : Int} {W : Nat} {b : Buf} (hk : KeysNodup b) (k : Nat) :
    queue k (evictBuf w W b) = (queue k b).dropWhile (expired w W) := by
  induction b with
  | nil => rfl
  | cons kq rest ih =>
    obtain ⟨k0, q⟩ := kq
    unfold KeysNodup at hk
    simp only [List.map_cons, List.nodup_cons] at hk
    have ih' := ih hk.2
    have hcons : evictBuf w W ((k0, q) :: rest) =
        (if (q.dropWhile (expired w W)).isEmpty then evictBuf w W rest
         else (k0, q.dropWhile (expired w W)) :: evictBuf w W rest) := by
      unfold evictBuf
      by_cases he : (q.dropWhile (expired w W)).isEmpty <;> simp [he]
    rw [hcons]
    by_cases h0 : k0 = k
    · subst h0
      have hrest : queue k0 rest = [] := queue_nil_of_not_mem hk.1
      simp only [queue, if_true]
      by_cases he : (q.dropWhile (expired w W)).isEmpty
      · rw [if_pos he, ih', hrest]
        simp only [List.dropWhile_nil]
        exact (List.isEmpty_iff.1 he).symm
      · rw [if_neg he]; simp [queue]
    · simp only [queue, if_neg h0]
      by_cases he : (q.dropWhile (expired w W)).isEmpty
      · rw [if_pos he]; exact ih'
      · rw [if_neg he]; simp only [queue, if_neg h0]; exact ih'

/-- an evicted event sat in the popped prefix of some bucket -/
theorem mem_evictedOf {w : Int} {W : Nat} {b : Buf} (hk : KeysNodup b) {x : Ev}
    (h : x ∈ evictedOf w W b) : ∃ k, x ∈ (queue k b).takeWhile (expired w W) := by
  unfold evictedOf at h
  obtain ⟨kq, hkq, hx⟩ := List.mem_flatMap.1 h
  refine ⟨kq.1, ?_⟩
  rw [queue_of_mem hk (q := kq.2) hkq]
  exact hx

/-! ### window arithmetic -/

theorem inWindow_eq (W : Nat) (l r : Ev) : inWindow W l r = closeEnough W l r := by
  unfold inWindow closeEnough
  rw [Bool.eq_iff_iff]
  simp only [Bool.and_eq_true, decide_eq_true_eq]
  omega

theorem mem_refJoin {P : Params} {ls rs : List Ev} {p : Ev × Ev} :
    p ∈ refJoin P ls rs ↔ p.1 ∈ ls ∧ p.2 ∈ rs ∧ isMatch P p.1 p.2 = true := by
  unfold refJoin
  simp only [List.mem_flatMap, List.mem_map, List.mem_filter]
  constructor
  · rintro ⟨l, hl, r, ⟨hr, hm⟩, rfl⟩
    exact ⟨hl, hr, hm⟩
  · rintro ⟨hl, hr, hm⟩
    exact ⟨p.1, hl, p.2, ⟨hr, hm⟩, rfl⟩

theorem nodup_refJoin (P : Params) {ls rs : List Ev} (hl : ls.Nodup) (hr : rs.Nodup) :
    (refJoin P ls rs).Nodup := by
  induction ls with
  | nil => exact List.nodup_nil
  | cons l ls ih =>
    rw [List.nodup_cons] at hl
    have hcons : refJoin P (l :: ls) rs =
        (rs.filter (fun r => isMatch P l r)).map (fun r => (l, r)) ++ refJoin P ls rs := by
      simp [refJoin, List.flatMap_cons]
    rw [hcons]
    refine List.nodup_append.2 ⟨?_, ih hl.2, ?_⟩
    · exact nodup_map_of_inj_on _ (nodup_filter _ hr) (fun x _ y _ h => by cases h; rfl)
    · intro a ha b hb hab
      subst hab
      obtain ⟨r, _, rfl⟩ := List.mem_map.1 ha
      exact hl.1 (mem_refJoin.1 hb).1

/-- same key on both sides, spelled out -/
theorem sameKey_iff {l r : Ev} : sameKey l r = true ↔ ∃ k, l.key = some k ∧ r.key = some k := by
  unfold sameKey
  cases hl : l.key <;> cases hr : r.key <;> simp
  exact eq_comm

/-! ### the state invariant -/

structure Inv (P : Params) (s : St) (ls rs : List Ev) : Prop where
  kl : KeysNodup s.lbuf
  kr : KeysNodup s.rbuf
  subL : ∀ k, (queue k s.lbuf).Sublist ls
  subR : ∀ k, (queue k s.rbuf).Sublist rs
  keyL : ∀ k, ∀ x ∈ queue k s.lbuf, x.key = some k
  keyR : ∀ k, ∀ x ∈ queue k s.rbuf, x.key = some k
  /-- every qualifying pair that is buffered on both sides has both matched flags set
  (this is why the re-scan of `update_watermark` adds nothing) -/
  flg : ∀ k, ∀ l ∈ queue k s.lbuf, ∀ r ∈ queue k s.rbuf, qual P l r = true →
    l.tag ∈ s.lmat ∧ r.tag ∈ s.rmat

theorem inv_init (P : Params) : Inv P init [] [] := by
  refine ⟨List.nodup_nil, List.nodup_nil, ?_, ?_, ?_, ?_, ?_⟩ <;> intro k <;> simp [init, queue]

theorem inv_left {P : Params} {s : St} {ls rs : List Ev} (h : Inv P s ls rs) (e : Ev) :
    Inv P (processLeft P s e).1 (ls ++ [e]) rs := by
  unfold processLeft
  cases hk : e.key with
  | none =>
    exact ⟨h.kl, h.kr, fun k => List.sublist_append_of_sublist_left (h.subL k), h.subR, h.keyL, h.keyR, h.flg⟩
  | some k =>
    refine ⟨keysNodup_push h.kl, h.kr, ?_, h.subR, ?_, h.keyR, ?_⟩
    · intro k'
      simp only [queue_push]
      by_cases hk' : k' = k
      · subst hk'; simp only [if_true]
        exact List.Sublist.append (h.subL _) (List.Sublist.refl _)
      · simp only [if_neg hk']; exact List.sublist_append_of_sublist_left (h.subL k')
    · intro k' x hx
      simp only [queue_push] at hx
      by_cases hk' : k' = k
      · subst hk'
        simp only [if_true, List.mem_append, List.mem_singleton] at hx
        rcases hx with hx | rfl
        · exact h.keyL _ x hx
        · exact hk
      · simp only [if_neg hk'] at hx; exact h.keyL k' x hx
    · intro k' l hl r hr hq
      simp only [queue_push] at hl
      simp only [List.mem_append, List.mem_map, List.mem_filter]
      by_cases hk' : k' = k
      · subst hk'
        simp only [if_true, List.mem_append, List.mem_singleton] at hl
        rcases hl with hl | rfl
        · have := h.flg _ l hl r hr hq
          exact ⟨Or.inr this.1, Or.inr this.2⟩
        · exact ⟨Or.inl ⟨r, ⟨hr, hq⟩, rfl⟩, Or.inl ⟨r, ⟨hr, hq⟩, rfl⟩⟩
      · simp only [if_neg hk'] at hl
        have := h.flg k' l hl r hr hq
        exact ⟨Or.inr this.1, Or.inr this.2⟩

theorem inv_right {P : Params} {s : St} {ls rs : List Ev} (h : Inv P s ls rs) (e : Ev) :
    Inv P (processRight P s e).1 ls (rs ++ [e]) := by
  unfold processRight
  cases hk : e.key with
  | none =>
    exact ⟨h.kl, h.kr, h.subL, fun k => List.sublist_append_of_sublist_left (h.subR k), h.keyL, h.keyR, h.flg⟩
  | some k =>
    refine ⟨h.kl, keysNodup_push h.kr, h.subL, ?_, h.keyL, ?_, ?_⟩
    · intro k'
      simp only [queue_push]
      by_cases hk' : k' = k
      · subst hk'; simp only [if_true]
        exact List.Sublist.append (h.subR _) (List.Sublist.refl _)
      · simp only [if_neg hk']; exact List.sublist_append_of_sublist_left (h.subR k')
    · intro k' x hx
      simp only [queue_push] at hx
      by_cases hk' : k' = k
      · subst hk'
        simp only [if_true, List.mem_append, List.mem_singleton] at hx
        rcases hx with hx | rfl
        · exact h.keyR _ x hx
        · exact hk
      · simp only [if_neg hk'] at hx; exact h.keyR k' x hx
    · intro k' l hl r hr hq
      simp only [queue_push] at hr
      simp only [List.mem_append, List.mem_map, List.mem_filter]
      by_cases hk' : k' = k
      · subst hk'
        simp only [if_true, List.mem_append, List.mem_singleton] at hr
        rcases hr with hr | rfl
        · have := h.flg _ l hl r hr hq
          exact ⟨Or.inr this.1, Or.inr this.2⟩
        · exact ⟨Or.inl ⟨l, ⟨hl, hq⟩, rfl⟩, Or.inl ⟨l, ⟨hl, hq⟩, rfl⟩⟩
      · simp only [if_neg hk'] at hr
        have := h.flg k' l hl r hr hq
        exact ⟨Or.inr this.1, Or.inr this.2⟩

/-- in a state satisfying the invariant the re-scan finds nothing to emit and sets no flag -/
theorem rescan_noop {P : Params} {s : St} {ls rs : List Ev} (h : Inv P s ls rs) :
    rescan P s = (s.lmat, s.rmat, []) := by
  unfold rescan
  apply foldl_fix
  intro kq hkq
  apply foldl_fix
  intro l hl
  apply foldl_fix
  intro r hr
  have hq : queue kq.1 s.lbuf = kq.2 := queue_of_mem h.kl (q := kq.2) hkq
  have hl' : l ∈ queue kq.1 s.lbuf := hq ▸ hl
  unfold rescanStep
  by_cases hqual : qual P l r = true
  · have := h.flg kq.1 l hl' r hr hqual
    simp [hqual, this.1, this.2]
  · simp [hqual]

/-- a flag survives `unflag` when its event stays buffered (ids are unique) -/
theorem tag_mem_unflag {all : List Ev} (hid : (all.map (·.id)).Nodup) {b : Buf} (hk : KeysNodup b)
    (hsub : ∀ k, (queue k b).Sublist all) (hkey : ∀ k, ∀ x ∈ queue k b, x.key = some k)
    {w : Int} {W : Nat} {fl : Flags} {k : Nat} {x : Ev}
    (hx : x ∈ (queue k b).dropWhile (expired w W)) (hf : x.tag ∈ fl) :
    x.tag ∈ unflag fl (evictedOf w W b) := by
  unfold unflag
  refine List.mem_filter.2 ⟨hf, ?_⟩
  rw [Bool.not_eq_true', Bool.eq_false_iff]
  intro hc
  rw [List.contains_iff_mem] at hc
  obtain ⟨y, hy, htag⟩ := List.mem_map.1 hc
  obtain ⟨k2, hy2⟩ := mem_evictedOf hk hy
  have hyq : y ∈ queue k2 b := (List.takeWhile_sublist _).mem hy2
  have hxq : x ∈ queue k b := (List.dropWhile_sublist _).mem hx
  have hyx : y = x := eq_of_id_eq hid ((hsub k2).mem hyq) ((hsub k).mem hxq) (by
    have := congrArg Prod.fst htag
    simpa [Ev.tag] using this)
  subst hyx
  have hkk : k2 = k := by
    have h1 := hkey k2 y hyq
    have h2 := hkey k y hxq
    rw [h1] at h2
    exact Option.some.inj h2
  subst hkk
  have hnd : (queue k2 b).Nodup :=
    List.Nodup.sublist (hsub k2) (nodup_of_nodup_map _ hid)
  exact not_mem_takeWhile_of_mem_dropWhile _ hnd hx hy2

theorem inv_wm {P : Params} {s : St} {ls rs : List Ev} (h : Inv P s ls rs)
    (hl : (ls.map (·.id)).Nodup) (hr : (rs.map (·.id)).Nodup) (w : Int) :
    Inv P (updateWatermark P s w).1 ls rs := by
  unfold updateWatermark
  rw [rescan_noop h]
  refine ⟨keysNodup_evictBuf h.kl, keysNodup_evictBuf h.kr, ?_, ?_, ?_, ?_, ?_⟩
  · intro k; simp only [queue_evictBuf h.kl]
    exact (List.dropWhile_sublist _).trans (h.subL k)
  · intro k; simp only [queue_evictBuf h.kr]
    exact (List.dropWhile_sublist _).trans (h.subR k)
  · intro k x hx; simp only [queue_evictBuf h.kl] at hx
    exact h.keyL k x ((List.dropWhile_sublist _).mem hx)
  · intro k x hx; simp only [queue_evictBuf h.kr] at hx
    exact h.keyR k x ((List.dropWhile_sublist _).mem hx)
  · intro k l hlq r hrq hq
    simp only [queue_evictBuf h.kl] at hlq
    simp only [queue_evictBuf h.kr] at hrq
    have := h.flg k l ((List.dropWhile_sublist _).mem hlq) r ((List.dropWhile_sublist _).mem hrq) hq
    exact ⟨tag_mem_unflag hl h.kl h.subL h.keyL hlq this.1,
           tag_mem_unflag hr h.kr h.subR h.keyR hrq this.2⟩

/-- `update_watermark` returns nothing for an inner join in any reachable state -/
theorem wm_out_nil {P : Params} {s : St} {ls rs : List Ev} (h : Inv P s ls rs) (w : Int) :
    (updateWatermark P s w).2 = [] := by
  unfold updateWatermark
  rw [rescan_noop h]

/-! ### one call: invariant, what is emitted -/

theorem step_inv {P : Params} {s : St} {ls rs : List Ev} (h : Inv P s ls rs) (op : Op)
    (hl : ((ls ++ leftOf op).map (·.id)).Nodup) (hr : ((rs ++ rightOf op).map (·.id)).Nodup) :
    Inv P (step P s op).1 (ls ++ leftOf op) (rs ++ rightOf op) := by
  cases op with
  | left e => simpa [step, leftOf, rightOf] using inv_left h e
  | right e => simpa [step, leftOf, rightOf] using inv_right h e
  | wm w =>
    simp only [leftOf, rightOf, List.append_nil] at hl hr ⊢
    exact inv_wm h hl hr w

theorem qual_isMatch {P : Params} {l r : Ev} {k : Nat} (hl : l.key = some k) (hr : r.key = some k) :
    isMatch P l r = qual P l r := by
  unfold isMatch qual
  rw [inWindow_eq, sameKey_iff.2 ⟨k, hl, hr⟩, Bool.true_and]

theorem buffered_iff {b : Buf} {x : Ev} :
    buffered b x = true ↔ ∃ k, x.key = some k ∧ x ∈ queue k b := by
  unfold buffered
  cases hk : x.key with
  | none => simp
  | some k => simp

/-- soundness of one call: every emitted pair matches, pairs the arriving event with an
earlier-arrived event of the other side that is still buffered -/
theorem step_out_sound {P : Params} {s : St} {ls rs : List Ev} (h : Inv P s ls rs) (op : Op) :
    ∀ p ∈ (step P s op).2, isMatch P p.1 p.2 = true ∧
      ((p.1 ∈ leftOf op ∧ p.2 ∈ rs) ∨ (p.2 ∈ rightOf op ∧ p.1 ∈ ls)) := by
  intro p hp
  cases op with
  | left e =>
    simp only [step, processLeft] at hp
    cases hk : e.key with
    | none => simp [hk] at hp
    | some k =>
      simp only [hk, List.mem_map, List.mem_filter] at hp
      obtain ⟨r, ⟨hr, hq⟩, rfl⟩ := hp
      refine ⟨?_, Or.inl ⟨by simp [leftOf], (h.subR k).mem hr⟩⟩
      rw [qual_isMatch hk (h.keyR k r hr)]; exact hq
  | right e =>
    simp only [step, processRight] at hp
    cases hk : e.key with
    | none => simp [hk] at hp
    | some k =>
      simp only [hk, List.mem_map, List.mem_filter] at hp
      obtain ⟨l, ⟨hl, hq⟩, rfl⟩ := hp
      refine ⟨?_, Or.inr ⟨by simp [rightOf], (h.subL k).mem hl⟩⟩
      rw [qual_isMatch (h.keyL k l hl) hk]; exact hq
  | wm w =>
    simp only [step, wm_out_nil h] at hp
    cases hp

/-- completeness of one call: a matching partner that is still buffered is emitted -/
theorem step_out_complete_left {P : Params} {s : St} (e r : Ev)
    (hb : buffered s.rbuf r = true) (hm : isMatch P e r = true) :
    (e, r) ∈ (step P s (.left e)).2 := by
  obtain ⟨k, hrk, hrq⟩ := buffered_iff.1 hb
  have hsk : sameKey e r = true := by
    unfold isMatch at hm; simp only [Bool.and_eq_true] at hm; exact hm.1.1
  obtain ⟨k', hek, hrk'⟩ := sameKey_iff.1 hsk
  have : k' = k := by rw [hrk] at hrk'; exact (Option.some.inj hrk').symm
  subst this
  simp only [step, processLeft, hek, List.mem_map, List.mem_filter]
  exact ⟨r, ⟨hrq, by rw [← qual_isMatch hek hrk]; exact hm⟩, rfl⟩

theorem step_out_complete_right {P : Params} {s : St} (l e : Ev)
    (hb : buffered s.lbuf l = true) (hm : isMatch P l e = true) :
    (l, e) ∈ (step P s (.right e)).2 := by
  obtain ⟨k, hlk, hlq⟩ := buffered_iff.1 hb
  have hsk : sameKey l e = true := by
    unfold isMatch at hm; simp only [Bool.and_eq_true] at hm; exact hm.1.1
  obtain ⟨k', hlk', hek⟩ := sameKey_iff.1 hsk
  have : k' = k := by rw [hlk] at hlk'; exact (Option.some.inj hlk').symm
  subst this
  simp only [step, processRight, hek, List.mem_map, List.mem_filter]
  exact ⟨l, ⟨hlq, by rw [← qual_isMatch hlk hek]; exact hm⟩, rfl⟩

/-- one call never returns the same pair twice -/
theorem step_out_nodup {P : Params} {s : St} {ls rs : List Ev} (h : Inv P s ls rs) (op : Op)
    (hl : (ls.map (·.id)).Nodup) (hr : (rs.map (·.id)).Nodup) : (step P s op).2.Nodup := by
  cases op with
  | left e =>
    simp only [step, processLeft]
    cases hk : e.key with
    | none => exact List.nodup_nil
    | some k =>
      have hq : (queue k s.rbuf).Nodup := List.Nodup.sublist (h.subR k) (nodup_of_nodup_map _ hr)
      exact nodup_map_of_inj_on _ (nodup_filter _ hq) (fun x _ y _ hxy => by cases hxy; rfl)
  | right e =>
    simp only [step, processRight]
    cases hk : e.key with
    | none => exact List.nodup_nil
    | some k =>
      have hq : (queue k s.lbuf).Nodup := List.Nodup.sublist (h.subL k) (nodup_of_nodup_map _ hl)
      exact nodup_map_of_inj_on _ (nodup_filter _ hq) (fun x _ y _ hxy => by cases hxy; rfl)
  | wm w =>
    simp only [step, wm_out_nil h]
    exact List.nodup_nil

end C14
