/-
C14 — model of `src/rete/stream_join_node.rs` (`StreamJoinNode`, `JoinType::Inner`,
`JoinStrategy::TimeWindow`) and of the routing done by `src/streaming/join_manager.rs`.

* `HashMap<String, VecDeque<StreamEvent>>` (buffer per join key) is an association list
  `key ↦ queue` (oldest first); the invariant "keys are pairwise distinct" is stated and proved
  separately (`KeysNodup`, Lemmas.lean). Iteration order of the map only influences the order of
  the pairs returned by one `update_watermark` call; observations are sorted within a call.
* `HashMap<String, bool>` (`left_matched` / `right_matched`; only the key set is ever consulted)
  is a list of tags read as a set (`contains`, remove-all).
* `generate_event_id` = `"{id}_{timestamp}"` is the pair `(id, ts)`.
* Timestamps are `u64` cast to `i64` (model: `Nat` embedded in `Int`; the i64 range is a
  well-formedness assumption), the watermark is an `i64` (model: `Int`).
* The window is `duration.as_secs()` **in timestamp units** (what the code does): `windowSecs`.
* The join condition and the key extractors are closures in Rust; the model is parametric in the
  condition, and an event carries the *result* of its side's key extractor (`key`).
-/
namespace C14

/-- a stream event as far as the join looks at it -/
structure Ev where
  id : Nat            -- `StreamEvent::id` (caller-chosen)
  ts : Nat            -- `metadata.timestamp`
  key : Option Nat    -- result of the side's key extractor (`none`: event is skipped)
  v : Int             -- payload consulted by the join condition
deriving Repr, DecidableEq

structure Params where
  W : Nat                      -- `duration.as_secs()`
  cond : Ev → Ev → Bool        -- `join_condition(left, right)`

/-- `Duration::as_secs` of a duration given in milliseconds -/
def windowSecs (durMs : Nat) : Nat := durMs / 1000

abbrev Buf := List (Nat × List Ev)
abbrev Flags := List (Nat × Nat)

/-- `generate_event_id` -/
def Ev.tag (e : Ev) : Nat × Nat := (e.id, e.ts)

structure St where
  lbuf : Buf := []
  rbuf : Buf := []
  lmat : Flags := []
  rmat : Flags := []
  wm : Int := 0
deriving Repr, DecidableEq

def init : St := {}

/-- `buffer.get(&key)`; an absent key behaves as an empty queue in every caller -/
def queue (k : Nat) : Buf → List Ev
  | [] => []
  | (k', q) :: rest => if k' = k then q else queue k rest

/-- `buffer.entry(key).or_default().push_back(e)` -/
def push (k : Nat) (e : Ev) : Buf → Buf
  | [] => [(k, [e])]
  | (k', q) :: rest => if k' = k then (k', q ++ [e]) :: rest else (k', q) :: push k e rest

/-- `is_within_window` (TimeWindow): `|l.ts − r.ts| ≤ duration.as_secs()` -/
def inWindow (W : Nat) (l r : Ev) : Bool :=
  decide (((l.ts : Int) - (r.ts : Int)).natAbs ≤ W)

/-- the test guarding every emission: window and join condition -/
def qual (P : Params) (l r : Ev) : Bool := inWindow P.W l r && P.cond l r

/-- `process_left`: skip key-less events; push into the left bucket; probe the right bucket of
the same key; every hit is emitted and both events are flagged as matched. -/
def processLeft (P : Params) (s : St) (e : Ev) : St × List (Ev × Ev) :=
  match e.key with
  | none => (s, [])
  | some k =>
    let hits := (queue k s.rbuf).filter (fun r => qual P e r)
    ({ s with lbuf := push k e s.lbuf,
              lmat := hits.map (fun _ => e.tag) ++ s.lmat,
              rmat := hits.map Ev.tag ++ s.rmat },
     hits.map (fun r => (e, r)))

/-- `process_right` (mirror image) -/
def processRight (P : Params) (s : St) (e : Ev) : St × List (Ev × Ev) :=
  match e.key with
  | none => (s, [])
  | some k =>
    let hits := (queue k s.lbuf).filter (fun l => qual P l e)
    ({ s with rbuf := push k e s.rbuf,
              lmat := hits.map Ev.tag ++ s.lmat,
              rmat := hits.map (fun _ => e.tag) ++ s.rmat },
     hits.map (fun l => (l, e)))

/-- accumulator of the re-scan: (left_matched, right_matched, results) -/
abbrev Acc := Flags × Flags × List (Ev × Ev)

/-- innermost body of the re-scan in `update_watermark`: a qualifying buffered pair is emitted
unless *both* events are already flagged; flags are set as the scan proceeds. -/
def rescanStep (P : Params) (l : Ev) (acc : Acc) (r : Ev) : Acc :=
  if qual P l r && !(acc.1.contains l.tag && acc.2.1.contains r.tag) then
    (l.tag :: acc.1, r.tag :: acc.2.1, acc.2.2 ++ [(l, r)])
  else acc

/-- the three nested loops of the re-scan -/
def rescan (P : Params) (s : St) : Acc :=
  s.lbuf.foldl
    (fun acc kq => kq.2.foldl (fun acc l => (queue kq.1 s.rbuf).foldl (rescanStep P l) acc) acc)
    (s.lmat, s.rmat, [])

/-- the eviction test of `evict_expired_events`: `watermark − ts > window` -/
def expired (wm : Int) (W : Nat) (e : Ev) : Bool := decide (wm - (e.ts : Int) > (W : Int))

/-- front eviction of every queue, then `retain(|_, q| !q.is_empty())` -/
def evictBuf (wm : Int) (W : Nat) (b : Buf) : Buf :=
  (b.map (fun kq => (kq.1, kq.2.dropWhile (expired wm W)))).filter (fun kq => !kq.2.isEmpty)

/-- the events popped by the front eviction -/
def evictedOf (wm : Int) (W : Nat) (b : Buf) : List Ev :=
  b.flatMap (fun kq => kq.2.takeWhile (expired wm W))

/-- `matched.remove(id)` for every evicted event -/
def unflag (fl : Flags) (gone : List Ev) : Flags :=
  fl.filter (fun t => !(gone.map Ev.tag).contains t)

/-- `update_watermark` (Inner): set the watermark, re-scan, evict. -/
def updateWatermark (P : Params) (s : St) (w : Int) : St × List (Ev × Ev) :=
  let acc := rescan P s
  ({ lbuf := evictBuf w P.W s.lbuf,
     rbuf := evictBuf w P.W s.rbuf,
     lmat := unflag acc.1 (evictedOf w P.W s.lbuf),
     rmat := unflag acc.2.1 (evictedOf w P.W s.rbuf),
     wm := w },
   acc.2.2)

/-- one public call on the join node -/
inductive Op where
  | left (e : Ev)
  | right (e : Ev)
  | wm (w : Int)
deriving Repr, DecidableEq

def step (P : Params) (s : St) : Op → St × List (Ev × Ev)
  | .left e => processLeft P s e
  | .right e => processRight P s e
  | .wm w => updateWatermark P s w

/-- state after a history -/
def final (P : Params) (s : St) : List Op → St
  | [] => s
  | op :: ops => final P (step P s op).1 ops

/-- the `Vec<JoinedEvent>` returned by each call of a history -/
def trace (P : Params) (s : St) : List Op → List (List (Ev × Ev))
  | [] => []
  | op :: ops => (step P s op).2 :: trace P (step P s op).1 ops

/-- everything emitted over a run, in emission order -/
def emitted (P : Params) (ops : List Op) : List (Ev × Ev) := (trace P init ops).flatten

/-! ### `StreamJoinManager` with one registered join (streams `left` ≠ `right`) -/

inductive Src where
  | left | right | other
deriving Repr, DecidableEq

/-- a call on the manager: `process_event` (routed by `metadata.source`) or
`update_watermark(stream_id, w)` -/
inductive MOp where
  | ev (src : Src) (e : Ev)
  | wm (src : Src) (w : Int)
deriving Repr, DecidableEq

/-- `stream_to_joins.get(stream)`: only the two input streams reach the join;
`left_stream == source` selects `process_left`, otherwise `process_right`. -/
def route : MOp → Option Op
  | .ev .left e => some (.left e)
  | .ev .right e => some (.right e)
  | .ev .other _ => none
  | .wm .other _ => none
  | .wm _ w => some (.wm w)

/-- `process_event` / `update_watermark` of the manager as seen by ONE registered join whose
routing is `rt` (`none`: the call's stream is not an input of this join, the node is not touched
and its handler receives nothing). -/
def routedTrace {M : Type} (rt : M → Option Op) (P : Params) (s : St) : List M → List (List (Ev × Ev))
  | [] => []
  | m :: ms =>
    match rt m with
    | some op => (step P s op).2 :: routedTrace rt P (step P s op).1 ms
    | none => [] :: routedTrace rt P s ms

/-- what the result handler receives during each manager call (one registered join) -/
def mgrTrace (P : Params) (s : St) (ms : List MOp) : List (List (Ev × Ev)) := routedTrace route P s ms

/-! ### `StreamJoinManager` with several registered joins

`register_join` appends the join id to `stream_to_joins[left_stream]` and to
`stream_to_joins[right_stream]`; `process_event` walks `stream_to_joins[source]` in registration
order and, **per join**, calls `process_left` when `join.left_stream == source`, otherwise
`process_right`; `update_watermark(stream, w)` calls `update_watermark(w)` on every join of
`stream_to_joins[stream]`. Every join has its own node (state) and its own result handler.
Assumptions (the harness generates nothing else): join ids are pairwise distinct and no join has
`left_stream == right_stream` (such a join would be listed twice under its stream). -/

/-- one registered join: its two input streams (names as numbers) and its parameters -/
structure JoinDef where
  l : Nat
  r : Nat
  P : Params

/-- a call on the manager: `process_event` of an event whose `metadata.source` is `stream`, or
`update_watermark(stream, w)` -/
inductive JOp where
  | ev (stream : Nat) (e : Ev)
  | wm (stream : Nat) (w : Int)
deriving Repr, DecidableEq

/-- the routing decision of `process_event` / `update_watermark` for the join with input streams
`l`, `r`: membership in `stream_to_joins[stream]`, then `left_stream == stream` picks the side -/
def routeJ (l r : Nat) : JOp → Option Op
  | .ev s e => if l = s then some (.left e) else if r = s then some (.right e) else none
  | .wm s w => if l = s ∨ r = s then some (.wm w) else none

/-- one manager call as seen by one join: new node state and what its handler receives -/
def stepJ (j : JoinDef) (s : St) (m : JOp) : St × List (Ev × Ev) :=
  match routeJ j.l j.r m with
  | some op => step j.P s op
  | none => (s, [])

/-- the manager's loop: per call (outer list), per registered join in registration order (inner
list), the joined events handed to that join's result handler -/
def multiTrace : List (JoinDef × St) → List JOp → List (List (List (Ev × Ev)))
  | _, [] => []
  | jss, m :: ms =>
    jss.map (fun js => (stepJ js.1 js.2 m).2) ::
      multiTrace (jss.map (fun js => (js.1, (stepJ js.1 js.2 m).1))) ms

/-! ### joins that are unregistered and registered again on a live manager

`unregister_join(id)` removes the id from `stream_to_joins[left_stream]` and
`stream_to_joins[right_stream]` and drops the node and the handler: from then on no call reaches
the join. `register_join(id, node, handler)` with a fresh node files the id under both streams
again: the join restarts from `init` (empty buffers, no flags, watermark 0). Assumption (the
harness generates nothing else): per join id the control calls alternate unregister, register,
unregister, … starting from the registered state — registering an id that is still registered
would list it twice under its streams. -/

/-- a call on a live manager: a routed call, `unregister_join(j<i>)`, or
`register_join(j<i>, fresh node of join i, handler i)` -/
inductive COp where
  | op (m : JOp)
  | unreg (i : Nat)
  | reg (i : Nat)
deriving Repr, DecidableEq

/-- one call as seen by the join with index `i`; `none` = currently not registered -/
def stepC (i : Nat) (j : JoinDef) (s : Option St) : COp → Option St × List (Ev × Ev)
  | .op m =>
    match s with
    | some st => (some (stepJ j st m).1, (stepJ j st m).2)
    | none => (none, [])
  | .unreg k => (if k = i then none else s, [])
  | .reg k => (if k = i then some init else s, [])

/-- the manager's loop with control calls (`multiTrace` when there are none) -/
def multiTraceC : List (Nat × JoinDef × Option St) → List COp → List (List (List (Ev × Ev)))
  | _, [] => []
  | jss, c :: cs =>
    jss.map (fun x => (stepC x.1 x.2.1 x.2.2 c).2) ::
      multiTraceC (jss.map (fun x => (x.1, x.2.1, (stepC x.1 x.2.1 x.2.2 c).1))) cs

/-! ### `clear()` on a live manager, then reuse

`StreamJoinManager::clear` empties `joins`, `stream_to_joins` and `result_handlers`: every join is
unregistered at once (its node is dropped, no stream lists it any more). Afterwards any of the ids
may be registered again with a fresh node (`COp.reg`). -/

/-- a call on a live manager: one of the calls above, or `clear()` -/
inductive XOp where
  | ctl (c : COp)
  | clear
deriving Repr, DecidableEq

/-- one call as seen by the join with index `i` -/
def stepX (i : Nat) (j : JoinDef) (s : Option St) : XOp → Option St × List (Ev × Ev)
  | .ctl c => stepC i j s c
  | .clear => (none, [])

/-- the manager's loop with control calls and `clear()` (`multiTraceC` when there is no `clear`) -/
def multiTraceX : List (Nat × JoinDef × Option St) → List XOp → List (List (List (Ev × Ev)))
  | _, [] => []
  | jss, c :: cs =>
    jss.map (fun x => (stepX x.1 x.2.1 x.2.2 c).2) ::
      multiTraceX (jss.map (fun x => (x.1, x.2.1, (stepX x.1 x.2.1 x.2.2 c).1))) cs

end C14
