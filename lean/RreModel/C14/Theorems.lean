import RreModel.C14.Sound
import RreModel.C14.Lives
/-
C14 — property theorems (only). "For an inner time-window join, the pairs emitted over a run are
exactly the (left, right) pairs with equal join keys, timestamps no further apart than the window
and a true join condition, each emitted once. As long as nothing has been evicted, this result
does not depend on how the arrivals of the two streams are interleaved."

All statements quantify over every window `P.W`, every join condition `P.cond`, and every finite
history `ops` of `process_left` / `process_right` / `update_watermark` calls (any length, any
timestamps, keys, watermark values — including regressing and negative ones). The only
hypothesis on the input is `WF ops`: event ids are unique within each stream.
-/
namespace C14

/-- **Soundness, unconditionally (with eviction).** Every pair ever returned by a call is a pair
of the reference join of the two arrived sequences: equal keys, |Δts| ≤ W, condition true. -/
theorem emitted_subset_reference (P : Params) (ops : List Op) (hwf : WF ops) :
    ∀ p ∈ emitted P ops, p ∈ refJoin P (lefts ops) (rights ops) := by
  intro p hp
  obtain ⟨hm, h1, h2, _⟩ := sound_from (inv_init P) ops (by simpa using hwf.1) (by simpa using hwf.2) p hp
  exact mem_refJoin.2 ⟨by simpa using h1, by simpa using h2, hm⟩

/-- Soundness needs no hypothesis at all — not even unique ids: for **every** history, whatever
any call returns (including whatever the re-scan of `update_watermark` might return) is a pair of
arrived events with equal keys, |Δts| ≤ W and a true join condition. -/
theorem emitted_subset_reference_any_input (P : Params) (ops : List Op) :
    ∀ p ∈ emitted P ops, p ∈ refJoin P (lefts ops) (rights ops) := by
  intro p hp
  obtain ⟨hm, h1, h2⟩ := sound_from0 inv0_init ops p hp
  exact mem_refJoin.2 ⟨by simpa using h1, by simpa using h2, hm⟩

/-- event-pair form of `no_duplicates` -/
theorem emitted_nodup (P : Params) (ops : List Op) (hwf : WF ops) : (emitted P ops).Nodup :=
  nodup_from (inv_init P) ops (by simpa using hwf.1) (by simpa using hwf.2)

/-- **Each pair at most once, unconditionally (with eviction).** Over the whole run no
(left id, right id) pair is returned twice — neither within one call, nor by two arrivals, nor
by the re-scan of `update_watermark`. -/
theorem no_duplicates (P : Params) (ops : List Op) (hwf : WF ops) :
    ((emitted P ops).map idPair).Nodup := by
  refine nodup_map_of_inj_on _ (emitted_nodup P ops hwf) ?_
  intro x hx y hy hxy
  have hx' := mem_refJoin.1 (emitted_subset_reference P ops hwf x hx)
  have hy' := mem_refJoin.1 (emitted_subset_reference P ops hwf y hy)
  simp only [idPair, Prod.mk.injEq] at hxy
  exact Prod.ext (eq_of_id_eq hwf.1 hx'.1 hy'.1 hxy.1) (eq_of_id_eq hwf.2 hx'.2.1 hy'.2.1 hxy.2)

/-- **Main theorem.** For every history in which no event is evicted before its partner arrives,
the emitted pairs are the reference join of the two arrived sequences, each pair exactly once
(`List.Perm`: equal as multisets). -/
theorem emitted_eq_reference (P : Params) (ops : List Op) (hwf : WF ops)
    (hn : noPartnerEvicted P ops = true) :
    (emitted P ops).Perm (refJoin P (lefts ops) (rights ops)) := by
  refine (List.perm_ext_iff_of_nodup (emitted_nodup P ops hwf)
    (nodup_refJoin P (nodup_of_nodup_map _ hwf.1) (nodup_of_nodup_map _ hwf.2))).2 ?_
  intro p
  refine ⟨emitted_subset_reference P ops hwf p, fun hp => ?_⟩
  obtain ⟨h1, h2, hm⟩ := mem_refJoin.1 hp
  rcases complete_from (inv_init P) ops (by simpa using hwf.1) (by simpa using hwf.2) hn p
    (by simpa using h1) (by simpa using h2) hm with ⟨h, _⟩ | h
  · cases h
  · exact h

/-- The invariant behind the main theorem, as the design states it: after every call, "emitted so
far = reference join of the arrived prefixes". -/
theorem emitted_eq_reference_prefix (P : Params) (ops : List Op) (hwf : WF ops)
    (hn : noPartnerEvicted P ops = true) (n : Nat) :
    (emitted P (ops.take n)).Perm (refJoin P (lefts (ops.take n)) (rights (ops.take n))) :=
  emitted_eq_reference P (ops.take n) (wf_take hwf n) (npe_take P init [] [] ops n hn)

/-- **Interleaving independence.** Two histories with the same left sequence and the same right
sequence — i.e. any two merges of the same two arrival orders, with watermark calls anywhere —
emit the same pairs, provided neither evicts an event before its partner arrives. -/
theorem interleaving_independent (P : Params) (ops₁ ops₂ : List Op) (hwf : WF ops₁)
    (hl : lefts ops₁ = lefts ops₂) (hr : rights ops₁ = rights ops₂)
    (h₁ : noPartnerEvicted P ops₁ = true) (h₂ : noPartnerEvicted P ops₂ = true) :
    (emitted P ops₁).Perm (emitted P ops₂) := by
  have hwf₂ : WF ops₂ := by unfold WF at *; rw [← hl, ← hr]; exact hwf
  have e₁ := emitted_eq_reference P ops₁ hwf h₁
  have e₂ := emitted_eq_reference P ops₂ hwf₂ h₂
  rw [hl, hr] at e₁
  exact e₁.trans e₂.symm

/-- The hypothesis of the main theorem follows from an intrinsic condition on the input alone:
if no watermark of the history makes any event of the history expire (`w − ts ≤ W`), nothing is
ever evicted. In particular this covers every history without watermark calls. -/
theorem never_expires_no_partner_evicted (P : Params) (ops : List Op) (hwf : WF ops)
    (hne : neverExpires P ops = true) : noPartnerEvicted P ops = true := by
  refine npe_of_never (inv_init P) ⟨by simp, by simp⟩ ops (by simpa using hwf.1)
    (by simpa using hwf.2) ?_
  intro w hw e he
  simp only [neverExpires, List.all_eq_true, Bool.not_eq_true', List.mem_append] at hne
  rcases he with he | he | he | he
  · cases he
  · exact hne w hw e (Or.inl he)
  · cases he
  · exact hne w hw e (Or.inr he)

/-- Any two merges of the same two sequences emit the same pairs whenever no watermark expires
an event (e.g. pure merges without watermark calls) — no reference to the model's state. -/
theorem merge_independent (P : Params) (ops₁ ops₂ : List Op) (hwf : WF ops₁)
    (hl : lefts ops₁ = lefts ops₂) (hr : rights ops₁ = rights ops₂)
    (h₁ : neverExpires P ops₁ = true) (h₂ : neverExpires P ops₂ = true) :
    (emitted P ops₁).Perm (emitted P ops₂) := by
  have hwf₂ : WF ops₂ := by unfold WF at *; rw [← hl, ← hr]; exact hwf
  exact interleaving_independent P ops₁ ops₂ hwf hl hr
    (never_expires_no_partner_evicted P ops₁ hwf h₁)
    (never_expires_no_partner_evicted P ops₂ hwf₂ h₂)

/-- For an inner join `update_watermark` never returns anything, after any history: every
qualifying buffered pair already has both matched flags set, so the re-scan adds nothing. -/
theorem watermark_emits_nothing (P : Params) (ops : List Op) (hwf : WF ops) (w : Int) :
    (step P (final P init ops) (.wm w)).2 = [] := by
  have h := final_inv (inv_init P) ops (by simpa using hwf.1) (by simpa using hwf.2)
  exact wm_out_nil h w

/-- The code's `i64` window test `|l.ts − r.ts| ≤ W` is the documented "timestamps no further
apart than the window". -/
theorem inWindow_eq_closeEnough (W : Nat) (l r : Ev) : inWindow W l r = closeEnough W l r :=
  inWindow_eq W l r

theorem prefix_ok (P : Params) (pre : List Op) (hwf : WF pre) :
    prefixOk P pre (obsTrace P pre) = true := by
  have hflat : (obsTrace P pre).flatten = (emitted P pre).map idPair := by
    unfold obsTrace emitted; rw [List.map_flatten]
  simp only [prefixOk, prefixSubset, prefixNodup, prefixComplete, Bool.and_eq_true, hflat,
    decide_eq_true_eq, Bool.or_eq_true, Bool.not_eq_true']
  refine ⟨⟨?_, no_duplicates P pre hwf⟩, ?_⟩
  · simp only [subsetB, List.all_eq_true, List.contains_iff_mem]
    intro x hx
    obtain ⟨p, hp, rfl⟩ := List.mem_map.1 hx
    exact List.mem_map.2 ⟨p, emitted_subset_reference P pre hwf p hp, rfl⟩
  · by_cases hn : noPartnerEvicted P pre = true
    · right
      simp only [subsetB, List.all_eq_true, List.contains_iff_mem]
      intro x hx
      obtain ⟨p, hp, rfl⟩ := List.mem_map.1 hx
      exact List.mem_map.2 ⟨p, (emitted_eq_reference P pre hwf hn).mem_iff.2 hp, rfl⟩
    · left; simpa using hn

/-- **Per-call completeness, with eviction.** After any history, a call returns (at least) the
arriving event paired with every earlier-arrived matching partner that is still buffered — also
when other partners have been evicted before. -/
theorem call_returns_what_it_owes (P : Params) (ops : List Op) :
    owedFrom P init [] [] ops (obsTrace P ops) = true :=
  owedFrom_trace P init [] [] ops

/-- **Model meets the observation-level specification.** Every run of the model satisfies
`runOk` — the same predicate the driver evaluates on the implementation's observations: after
every call the pairs returned so far lie in the reference join of what has arrived, no pair
occurs twice, the reference join is complete as long as no partner was evicted, and every call
returns what it owes (pairs with the partners still buffered). -/
theorem model_meets_spec (P : Params) (ops : List Op) (hwf : WF ops) :
    runOk P ops (obsTrace P ops) = true := by
  simp only [runOk, Bool.and_eq_true, beq_iff_eq, List.all_eq_true, List.mem_range]
  refine ⟨⟨by simp [obsTrace, trace_length], fun n _ => ?_⟩, owedFrom_trace P init [] [] ops⟩
  have : (obsTrace P ops).take n = obsTrace P (ops.take n) := by
    unfold obsTrace; rw [← List.map_take, trace_take]
  rw [this]
  exact prefix_ok P (ops.take n) (wf_take hwf n)

/-- **`StreamJoinManager`, one join, any routing.** What the result handler of a registered join
receives during each manager call is what its node returns for the routed call; calls the routing
does not hand to the join deliver nothing; so the manager-level observations of that join satisfy
the specification — whatever the routing function `rt` is. -/
theorem routed_meets_spec {M : Type} (rt : M → Option Op) (P : Params) (ms : List M)
    (hwf : WF (ms.filterMap rt)) :
    mgrOkG rt P ms ((routedTrace rt P init ms).map (fun out => out.map idPair)) = true := by
  simp only [mgrOkG, Bool.and_eq_true]
  refine ⟨unroutedSilentG_routedTrace rt P init ms _ rfl, ?_⟩
  rw [routedObsG_routedTrace]
  exact model_meets_spec P (ms.filterMap rt) hwf

/-- **`StreamJoinManager`.** With one registered join, what the result handler receives during
each manager call is what the node returns for the routed call; calls for other streams deliver
nothing; so the manager-level observations satisfy the specification as well. -/
theorem manager_meets_spec (P : Params) (ms : List MOp) (hwf : WF (ms.filterMap route)) :
    mgrOk P ms (mgrObsTrace P ms) = true :=
  routed_meets_spec route P ms hwf

/-- **`StreamJoinManager` with any number of registered joins.** For every list of joins (any
stream names — shared between joins in the same or in different roles —, any windows, any
conditions) and every history of `process_event` / `update_watermark` calls on the manager: during
each call every join's handler receives exactly one (possibly empty) batch, and the batches of
**each join** satisfy the specification with respect to **that join's own** reference join (events
of its left stream ⋈ events of its right stream): within the reference, no pair twice, complete
while none of its partners was evicted, silent on calls for streams it does not consume.
Hypothesis: event ids are unique within each stream a join consumes. -/
theorem multi_manager_meets_spec (js : List JoinDef) (ms : List JOp)
    (hwf : ∀ j ∈ js, WF (joinOps j ms)) :
    multiOk js ms (multiObsTrace js ms) = true := by
  unfold multiObsTrace
  induction js with
  | nil =>
    simp only [multiOk, List.map_nil, List.length_map, multiTrace_length, beq_self_eq_true,
      Bool.true_and]
    exact multiTrace_nil ms _ rfl
  | cons j js ih =>
    simp only [List.map_cons, multiOk, heads_multiTrace, tails_multiTrace, Bool.and_eq_true]
    exact ⟨routed_meets_spec _ j.P ms (hwf j (by simp)), ih (fun j' hj' => hwf j' (by simp [hj']))⟩

/-- the joins of one manager are independent: the batches of the first registered join are its
single-join trace, whatever else is registered -/
theorem multi_first_column (j : JoinDef) (js : List JoinDef) (ms : List JOp) :
    heads (multiObsTrace (j :: js) ms) =
      some ((routedTrace (routeJ j.l j.r) j.P init ms).map (fun out => out.map idPair)) := by
  unfold multiObsTrace
  simp only [List.map_cons, heads_multiTrace]

/-! ### Non-vacuity: concrete histories meeting the hypotheses, with non-trivial results -/

def exP : Params := { W := 2, cond := fun l r => decide (l.v < r.v) }

def l0 : Ev := ⟨0, 5, some 1, 0⟩
def l1 : Ev := ⟨1, 6, some 1, 1⟩
def l2 : Ev := ⟨2, 5, some 2, 0⟩
def l3 : Ev := ⟨3, 5, none, 0⟩
def r0 : Ev := ⟨0, 7, some 1, 1⟩
def r1 : Ev := ⟨1, 4, some 1, 5⟩
def r2 : Ev := ⟨2, 9, some 1, 5⟩

/-- two merges of the same sequences, one with (harmless) watermark calls in between -/
def exA : List Op := [.left l0, .left l1, .right r0, .wm 7, .left l2, .right r1, .left l3, .right r2]
def exB : List Op := [.right r0, .right r1, .left l0, .right r2, .left l1, .left l2, .left l3]

example : WF exA ∧ WF exB := by decide
example : noPartnerEvicted exP exA = true ∧ noPartnerEvicted exP exB = true := by decide
example : lefts exA = lefts exB ∧ rights exA = rights exB := by decide
example : (emitted exP exA).map idPair = [(0, 0), (0, 1), (1, 1)] := by decide
example : (emitted exP exB).map idPair = [(0, 0), (0, 1), (1, 1)] := by decide
example : (refJoin exP (lefts exA) (rights exA)).map idPair = [(0, 0), (0, 1), (1, 1)] := by decide
example : neverExpires exP exB = true := by decide
example : runOk exP exA (obsTrace exP exA) = true := by decide

/-- The eviction hypothesis of the main theorem cannot be dropped: here the watermark evicts `l0`
before its partner `r0` arrives, and the emitted pairs are a *strict* part of the reference. -/
def exC : List Op := [.left l0, .wm 8, .right r0]

example : WF exC ∧ noPartnerEvicted exP exC = false := by decide
example : emitted exP exC = [] ∧ refJoin exP (lefts exC) (rights exC) = [(l0, r0)] := by decide

/-- after a partner eviction the per-call clause is still in force: `l4` arrives after `l0` was
evicted, and the pair `(l4, r0)` is owed (and returned) by the call that delivers `r0`; a run
that drops it passes the three prefix clauses (completeness is lifted: `l0` was a partner of `r0`)
but not `runOk` -/
def l4 : Ev := ⟨4, 6, some 1, 0⟩
def exE : List Op := [.left l0, .wm 8, .left l4, .right r0]

example : owed exP (final exP init (exE.take 3)) [l0, l4] [] (.right r0) = [(4, 0)] := by decide
example : obsTrace exP exE = [[], [], [], [(4, 0)]] := by decide
example : runOk exP exE [[], [], [], []] = false ∧ prefixOk exP exE [[], [], [], []] = true := by decide

/-- ... stated as a theorem: without the eviction hypothesis the equality fails (the emitted pairs
are then only a part of the reference join, by `emitted_subset_reference`). -/
theorem eviction_hypothesis_needed :
    ∃ (P : Params) (ops : List Op), WF ops ∧ noPartnerEvicted P ops = false ∧
      ¬ (emitted P ops).Perm (refJoin P (lefts ops) (rights ops)) :=
  ⟨exP, exC, by decide, by decide, fun h => by have := h.length_eq; revert this; decide⟩

/-- The well-formedness hypothesis cannot be dropped from `no_duplicates`: the matched flags are
keyed by `(id, timestamp)`, so two events of one stream sharing both share a flag; evicting one
clears the flag of the other, and the next `update_watermark` re-emits its pair. (Replayed on the
implementation: same observation — see corpus/C14/corners.case. `StreamEvent::id` is documented
as a unique identifier, so this input is outside the contract.) -/
def exD : List Op :=
  [.left ⟨7, 9, some 2, 0⟩, .left ⟨0, 5, some 1, 0⟩, .left ⟨0, 5, some 2, 0⟩,
   .right ⟨7, 9, some 2, 0⟩, .right ⟨1, 5, some 1, 0⟩, .right ⟨2, 5, some 2, 0⟩, .wm 8, .wm 8]

theorem no_duplicates_needs_unique_ids :
    ∃ (P : Params) (ops : List Op), ¬ WF ops ∧ ¬ ((emitted P ops).map idPair).Nodup :=
  ⟨{ W := 2, cond := fun _ _ => true }, exD, by decide, by decide⟩

example : (obsTrace { W := 2, cond := fun _ _ => true } exD) =
    [[], [], [], [(7, 7)], [(0, 1)], [(0, 2)], [], [(0, 2)]] := by decide

/-- several joins on one manager sharing streams in different roles: stream 1 is the right input
of join 0, the left input of joins 1 and 2; stream 0 is the left input of join 0 and the right
input of join 2; stream 3 is consumed by nobody -/
def exJ : List JoinDef :=
  [⟨0, 1, exP⟩, ⟨1, 2, { W := 2, cond := fun _ _ => true }⟩, ⟨1, 0, { W := 1, cond := fun _ _ => true }⟩]
def exMs : List JOp :=
  [.ev 0 l0, .ev 1 r0, .ev 2 ⟨0, 8, some 1, 0⟩, .wm 3 100, .ev 1 ⟨5, 6, some 1, 9⟩, .ev 3 l1, .wm 2 7, .ev 0 l1]

example : ∀ j ∈ exJ, WF (joinOps j exMs) := by decide
example : multiObsTrace exJ exMs =
    [[[], [], []], [[(0, 0)], [], []], [[], [(0, 0)], []], [[], [], []],
     [[(0, 5)], [(5, 0)], [(5, 0)]], [[], [], []], [[], [], []], [[(1, 5)], [], [(0, 1), (5, 1)]]] := by decide
example : multiOk exJ exMs (multiObsTrace exJ exMs) = true := by decide
/-- the specification rejects a manager that feeds stream 1 to the right side of every join (the
batches of joins 1 and 2 would be empty although their reference joins are not) -/
example : multiOk exJ exMs
    [[[], [], []], [[(0, 0)], [], []], [[], [], []], [[], [], []],
     [[(0, 5)], [], []], [[], [], []], [[], [], []], [[(1, 5)], [], []]] = false := by decide

/-- manager level: traffic of an unrelated stream is silent -/
example : mgrObsTrace exP [.ev .left l0, .ev .other r0, .wm .other 100, .ev .right r0] =
    [[], [], [], [(0, 0)]] := by decide

/-! ### joins unregistered and registered again on a live manager (round 3)

`multiTraceC` / `multiOkC` extend the manager model and the specification with `unregister_join` and
`register_join(same id, fresh node)`. The extension is conservative: on histories without control
calls it is the loop `multi_manager_meets_spec` speaks about. -/

/-- the extended loop is the proven one when no join is ever unregistered -/
theorem multiTraceC_no_ctl (xs : List (Nat × JoinDef × St)) (ms : List JOp) :
    multiTraceC (xs.map (fun x => (x.1, x.2.1, some x.2.2))) (ms.map COp.op) =
      multiTrace (xs.map (fun x => (x.2.1, x.2.2))) ms := by
  induction ms generalizing xs with
  | nil => rfl
  | cons m ms ih =>
    have := ih (xs.map (fun x => (x.1, x.2.1, (stepJ x.2.1 x.2.2 m).1)))
    simp only [List.map_map] at this
    simp only [List.map_cons, multiTraceC, multiTrace, List.map_map]
    congr 1

theorem idxFrom_map_snd {α : Type} (n : Nat) (xs : List α) : (idxFrom n xs).map (·.2) = xs := by
  induction xs generalizing n with
  | nil => rfl
  | cons x xs ih => simp [idxFrom, ih]

theorem multiObsTraceC_no_ctl (js : List JoinDef) (ms : List JOp) :
    multiObsTraceC js (ms.map COp.op) = multiObsTrace js ms := by
  unfold multiObsTraceC multiObsTrace
  have := multiTraceC_no_ctl ((idxFrom 0 js).map (fun x => (x.1, x.2, init))) ms
  simp only [List.map_map] at this
  have h2 : (idxFrom 0 js).map ((fun x : Nat × JoinDef × St => (x.2.1, x.2.2)) ∘ fun x => (x.1, x.2, init))
      = js.map (fun j => (j, init)) := by
    conv => rhs; rw [← idxFrom_map_snd 0 js]
    simp [List.map_map]

  rw [h2] at this
  rw [← this]
  rfl

/-- **`StreamJoinManager` with joins unregistered and registered again.** For every list of joins
and every history of `process_event` / `update_watermark` / `unregister_join(j<i>)` /
`register_join(j<i>, fresh node)` calls — control calls in any number and any order, for any join
ids (alternation per id, `ctlValid`, is what makes the *model* faithful to the code, it is not
needed for this statement) —: during each call every join's handler receives exactly one
(possibly empty) batch, and each join's column meets the specification **life by life**
(`multiOkC` / `livesOk`, the predicate the driver evaluates on the implementation's observations):
every life — the calls between one registration of the join and its next unregistration — is a run
of a *fresh* join and satisfies the single-join manager specification `mgrOkG` against the
reference join of what arrived **during that life** (within the reference, no pair twice, complete
while no partner was evicted, every call returns what it owes, silent on streams it does not
consume); while a join is away, and during every control call, its handler receives nothing; the
control calls of one join are not noticed by the others.
Hypothesis (`WFC`): within every life of every join, event ids are unique within each stream the
join consumes. -/
theorem multi_manager_ctl_meets_spec (js : List JoinDef) (cs : List COp) (hwf : WFC 0 js cs) :
    multiOkC 0 js cs (multiObsTraceC js cs) = true :=
  multiOkC_multiTraceC (fun out => out.map idPair) rfl
    (fun j ms h => routed_meets_spec (routeJ j.l j.r) j.P ms h) 0 js cs hwf

/-- the same under the input check the driver applies to every case (`bad-case-ids`): event ids
unique, per consumed stream, over the **whole** history -/
theorem multi_manager_ctl_meets_spec_unique_ids (js : List JoinDef) (cs : List COp)
    (hwf : ∀ j ∈ js, WF (joinOps j (opsOf cs))) :
    multiOkC 0 js cs (multiObsTraceC js cs) = true :=
  multi_manager_ctl_meets_spec js cs (wfc_of_unique_ids 0 js cs hwf)

/-- the columns of the loop with control calls are independent: the first registered join's
batches are its own life-by-life trace, whatever else is registered and whichever other joins come
and go -/
theorem multi_ctl_first_column (j : JoinDef) (js : List JoinDef) (cs : List COp) :
    heads (multiObsTraceC (j :: js) cs) =
      some ((colTraceC 0 j (some init) cs).map (fun out => out.map idPair)) := by
  unfold multiObsTraceC
  simp only [idxFrom, List.map_cons, heads_multiTraceC]

def exLiveJoins : List JoinDef := [{ l := 0, r := 1, P := { W := 5, cond := fun _ _ => true } }]
def exLiveOps : List COp :=
  [.op (.ev 0 ⟨0, 1, some 0, 0⟩), .op (.ev 1 ⟨0, 1, some 0, 0⟩), .unreg 0, .op (.ev 1 ⟨1, 1, some 0, 0⟩), .reg 0,
   .op (.ev 0 ⟨1, 2, some 0, 0⟩), .op (.ev 1 ⟨2, 2, some 0, 0⟩)]
example : multiObsTraceC exLiveJoins exLiveOps = [[[]], [[(0, 0)]], [[]], [[]], [[]], [[]], [[(1, 2)]]] := by decide
example : multiOkC 0 exLiveJoins exLiveOps (multiObsTraceC exLiveJoins exLiveOps) = true := by decide
-- the pair delivered twice after registering again (stale routing entry) is rejected
example : multiOkC 0 exLiveJoins exLiveOps [[[]], [[(0, 0)]], [[]], [[]], [[]], [[]], [[(1, 2), (1, 2)]]] = false := by decide
example : WFC 0 exLiveJoins exLiveOps := by decide
example : livesOf 0 true [] exLiveOps =
    [[.ev 0 ⟨0, 1, some 0, 0⟩, .ev 1 ⟨0, 1, some 0, 0⟩], [.ev 0 ⟨1, 2, some 0, 0⟩, .ev 1 ⟨2, 2, some 0, 0⟩]] := by decide
/-- ids need only be unique within a life: here right id 0 is used in both lives of join 0 (the
whole history is not `WF`), join 1 — sharing stream 1 — keeps running meanwhile and does not
notice, and a second join comes and goes as well -/
def exLiveJoins2 : List JoinDef :=
  [{ l := 0, r := 1, P := { W := 5, cond := fun _ _ => true } }, { l := 1, r := 0, P := { W := 5, cond := fun _ _ => true } }]
def exLiveOps2 : List COp :=
  [.op (.ev 0 ⟨0, 1, some 0, 0⟩), .op (.ev 1 ⟨0, 1, some 0, 0⟩), .unreg 0, .op (.ev 1 ⟨1, 1, some 0, 0⟩), .reg 0,
   .unreg 1, .op (.ev 0 ⟨1, 2, some 0, 0⟩), .op (.ev 1 ⟨0, 2, some 0, 0⟩), .reg 1, .op (.ev 0 ⟨2, 3, some 0, 0⟩)]
example : WFC 0 exLiveJoins2 exLiveOps2 ∧ ¬ (∀ j ∈ exLiveJoins2, WF (joinOps j (opsOf exLiveOps2))) := by decide
example : multiObsTraceC exLiveJoins2 exLiveOps2 =
    [[[], []], [[(0, 0)], [(0, 0)]], [[], []], [[], [(1, 0)]], [[], []], [[], []], [[], []], [[(1, 0)], []],
     [[], []], [[(2, 0)], []]] := by decide
-- a join that is away must stay silent
example : multiOkC 0 exLiveJoins exLiveOps [[[]], [[(0, 0)]], [[]], [[(0, 1)]], [[]], [[]], [[(1, 2)]]] = false := by decide

/-! ### `clear()` on a live manager, then reuse -/

/-- **`clear()` and reuse.** For every set of joins on one manager and every history of routed
calls, `unregister_join` / `register_join` calls and `clear()` calls: every column of the model's
observation matrix satisfies the single-join manager specification **life by life**, where
`clear()` ends the current life of every join; after `clear()` every handler stays silent until its
join is registered again, and a join registered again starts from the empty state (no stale
routing entry, no pair twice). Hypothesis (`WFX`): ids unique per consumed stream within each life. -/
theorem multi_manager_clear_meets_spec (js : List JoinDef) (xs : List XOp) (hwf : WFX 0 js xs) :
    multiOkX 0 js xs (multiObsTraceX js xs) = true :=
  multiOkX_multiTraceX (fun out => out.map idPair) rfl
    (fun j ms h => routed_meets_spec (routeJ j.l j.r) j.P ms h) 0 js xs hwf

/-- the same under the driver's input check (ids unique per consumed stream over the whole history) -/
theorem multi_manager_clear_meets_spec_unique_ids (js : List JoinDef) (xs : List XOp)
    (hwf : ∀ j ∈ js, WF (joinOps j (opsOfX xs))) :
    multiOkX 0 js xs (multiObsTraceX js xs) = true :=
  multi_manager_clear_meets_spec js xs (wfx_of_unique_ids 0 js xs hwf)

/-- for the join with index `i`, `clear()` **is** `unregister_join(j<i>)`: same node state
afterwards (none), same batch (nothing) — for every join index at once -/
theorem clear_is_unregister_all (i : Nat) (j : JoinDef) (s : Option St) :
    stepX i j s .clear = stepC i j s (.unreg i) := stepX_view i j s .clear

/-- a history without `clear()` calls is treated exactly as before -/
theorem multiObsTraceX_no_clear (js : List JoinDef) (cs : List COp) :
    multiObsTraceX js (cs.map .ctl) = multiObsTraceC js cs := by
  unfold multiObsTraceX multiObsTraceC
  rw [multiTraceX_ctl]

def exClearJoins : List JoinDef :=
  [{ l := 0, r := 1, P := { W := 5, cond := fun _ _ => true } }, { l := 1, r := 2, P := { W := 5, cond := fun _ _ => true } }]
def exClearOps : List XOp :=
  [.ctl (.op (.ev 0 ⟨0, 1, some 0, 0⟩)), .ctl (.op (.ev 1 ⟨0, 1, some 0, 0⟩)), .clear, .ctl (.op (.ev 1 ⟨1, 1, some 0, 0⟩)),
   .ctl (.reg 1), .ctl (.reg 0), .ctl (.op (.ev 0 ⟨1, 2, some 0, 0⟩)), .ctl (.op (.ev 1 ⟨2, 2, some 0, 0⟩)),
   .ctl (.op (.ev 2 ⟨0, 2, some 0, 0⟩))]
example : multiObsTraceX exClearJoins exClearOps =
    [[[], []], [[(0, 0)], []], [[], []], [[], []], [[], []], [[], []], [[], []], [[(1, 2)], []], [[], [(2, 0)]]] := by decide
example : multiOkX 0 exClearJoins exClearOps (multiObsTraceX exClearJoins exClearOps) = true := by decide
example : WFX 0 exClearJoins exClearOps := by decide
-- a pair delivered twice after clear + register (stale routing entry) is rejected
example : multiOkX 0 exClearJoins exClearOps
    [[[], []], [[(0, 0)], []], [[], []], [[], []], [[], []], [[], []], [[], []], [[(1, 2), (1, 2)]], [[], [(2, 0)]]] = false := by decide
-- a join that keeps its buffers across clear (pairs with an event of the previous life) is rejected
example : multiOkX 0 exClearJoins exClearOps
    [[[], []], [[(0, 0)], []], [[], []], [[], []], [[], []], [[], []], [[], []], [[(0, 2), (1, 2)], []], [[], [(2, 0)]]] = false := by decide
-- a cleared manager that still routes is rejected
example : multiOkX 0 exClearJoins exClearOps
    [[[], []], [[(0, 0)], []], [[], []], [[(0, 1)], []], [[], []], [[], []], [[], []], [[(1, 2)], []], [[], [(2, 0)]]] = false := by decide

end C14
