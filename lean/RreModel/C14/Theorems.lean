import RreModel.C14.Sound
/-
C14 — property theorems (only). "For an inner time-window join, the pairs emitted over a run are
exactly the (left, right) pairs with equal join keys, timestamps no further apart than the window
and a true join condition, each emitted once. As long as nothing has been evicted, this result
does not depend on how the arrivals of the two streams are interleaved."

All statements quantify over every window `P.W`, every join condition `P.cond`, and every finite
history `ops` of `process_left` / `process_right` / `update_watermark` calls (any length, any
timestamps, keys, watermark values — including regressing and negative ones). The only
hypothesis on the input is `WF ops`: event ids are unique within each stream.
-/
namespace C14

/-- **Soundness, unconditionally (with eviction).** Every pair ever returned by a call is a pair
of the reference join of the two arrived sequences: equal keys, |Δts| ≤ W, condition true. -/
theorem emitted_subset_reference (P : Params) (ops : List Op) (hwf : WF ops) :
    ∀ p ∈ emitted P ops, p ∈ refJoin P (lefts ops) (rights ops) := by
  intro p hp
  obtain ⟨hm, h1, h2, _⟩ := sound_from (inv_init P) ops (by simpa using hwf.1) (by simpa using hwf.2) p hp
  exact mem_refJoin.2 ⟨by simpa using h1, by simpa using h2, hm⟩

/-- Soundness needs no hypothesis at all — not even unique ids: for **every** history, whatever
any call returns (including whatever the re-scan of `update_watermark` might return) is a pair of
arrived events with equal keys, |Δts| ≤ W and a true join condition. -/
theorem emitted_subset_reference_any_input (P : Params) (ops : List Op) :
    ∀ p ∈ emitted P ops, p ∈ refJoin P (lefts ops) (rights ops) := by
  intro p hp
  obtain ⟨hm, h1, h2⟩ := sound_from0 inv0_init ops p hp
  exact mem_refJoin.2 ⟨by simpa using h1, by simpa using h2, hm⟩

/-- event-pair form of `no_duplicates` -/
theorem emitted_nodup (P : Params) (ops : List Op) (hwf : WF ops) : (emitted P ops).Nodup :=
  nodup_from (inv_init P) ops (by simpa using hwf.1) (by simpa using hwf.2)

/-- **Each pair at most once, unconditionally (with eviction).** Over the whole run no
(left id, right id) pair is returned twice — neither within one call, nor by two arrivals, nor
by the re-scan of `update_watermark`. -/
theorem no_duplicates (P : Params) (ops : List Op) (hwf : WF ops) :
    ((emitted P ops).map idPair).Nodup := by
  refine nodup_map_of_inj_on _ (emitted_nodup P ops hwf) ?_
  intro x hx y hy hxy
  have hx' := mem_refJoin.1 (emitted_subset_reference P ops hwf x hx)
  have hy' := mem_refJoin.1 (emitted_subset_reference P ops hwf y hy)
  simp only [idPair, Prod.mk.injEq] at hxy
  exact Prod.ext (eq_of_id_eq hwf.1 hx'.1 hy'.1 hxy.1) (eq_of_id_eq hwf.2 hx'.2.1 hy'.2.1 hxy.2)

/-- **Main theorem.** For every history in which no event is evicted before its partner arrives,
the emitted pairs are the reference join of the two arrived sequences, each pair exactly once
(`List.Perm`: equal as multisets). -/
theorem emitted_eq_reference (P : Params) (ops : List Op) (hwf : WF ops)
    (hn : noPartnerEvicted P ops = true) :
    (emitted P ops).Perm (refJoin P (lefts ops) (rights ops)) := by
  refine (List.perm_ext_iff_of_nodup (emitted_nodup P ops hwf)
    (nodup_refJoin P (nodup_of_nodup_map _ hwf.1) (nodup_of_nodup_map _ hwf.2))).2 ?_
  intro p
  refine ⟨emitted_subset_reference P ops hwf p, fun hp => ?_⟩
  obtain ⟨h1, h2, hm⟩ := mem_refJoin.1 hp
  rcases complete_from (inv_init P) ops (by simpa using hwf.1) (by simpa using hwf.2) hn p
    (by simpa using h1) (by simpa using h2) hm with ⟨h, _⟩ | h
  · cases h
  · exact h

/-- The invariant behind the main theorem, as the design states it: after every call, "emitted so
far = reference join of the arrived prefixes". -/
theorem emitted_eq_reference_prefix (P : Params) (ops : List Op) (hwf : WF ops)
    (hn : noPartnerEvicted P ops = true) (n : Nat) :
    (emitted P (ops.take n)).Perm (refJoin P (lefts (ops.take n)) (rights (ops.take n))) :=
  emitted_eq_reference P (ops.take n) (wf_take hwf n) (npe_take P init [] [] ops n hn)

/-- **Interleaving independence.** Two histories with the same left sequence and the same right
sequence — i.e. any two merges of the same two arrival orders, with watermark calls anywhere —
emit the same pairs, provided neither evicts an event before its partner arrives. -/
theorem interleaving_independent (P : Params) (ops₁ ops₂ : List Op) (hwf : WF ops₁)
    (hl : lefts ops₁ = lefts ops₂) (hr : rights ops₁ = rights ops₂)
    (h₁ : noPartnerEvicted P ops₁ = true) (h₂ : noPartnerEvicted P ops₂ = true) :
    (emitted P ops₁).Perm (emitted P ops₂) := by
  have hwf₂ : WF ops₂ := by unfold WF at *; rw [← hl, ← hr]; exact hwf
  have e₁ := emitted_eq_reference P ops₁ hwf h₁
  have e₂ := emitted_eq_reference P ops₂ hwf₂ h₂
  rw [hl, hr] at e₁
  exact e₁.trans e₂.symm

/-- The hypothesis of the main theorem follows from an intrinsic condition on the input alone:
if no watermark of the history makes any event of the history expire (`w − ts ≤ W`), nothing is
ever evicted. In particular this covers every history without watermark calls. -/
theorem never_expires_no_partner_evicted (P : Params) (ops : List Op) (hwf : WF ops)
    (hne : neverExpires P ops = true) : noPartnerEvicted P ops = true := by
  refine npe_of_never (inv_init P) ⟨by simp, by simp⟩ ops (by simpa using hwf.1)
    (by simpa using hwf.2) ?_
  intro w hw e he
  simp only [neverExpires, List.all_eq_true, Bool.not_eq_true', List.mem_append] at hne
  rcases he with he | he | he | he
  · cases he
  · exact hne w hw e (Or.inl he)
  · cases he
  · exact hne w hw e (Or.inr he)

/-- Any two merges of the same two sequences emit the same pairs whenever no watermark expires
an event (e.g. pure merges without watermark calls) — no reference to the model's state. -/
theorem merge_independent (P : Params) (ops₁ ops₂ : List Op) (hwf : WF ops₁)
    (hl : lefts ops₁ = lefts ops₂) (hr : rights ops₁ = rights ops₂)
    (h₁ : neverExpires P ops₁ = true) (h₂ : neverExpires P ops₂ = true) :
    (emitted P ops₁).Perm (emitted P ops₂) := by
  have hwf₂ : WF ops₂ := by unfold WF at *; rw [← hl, ← hr]; exact hwf
  exact interleaving_independent P ops₁ ops₂ hwf hl hr
    (never_expires_no_partner_evicted P ops₁ hwf h₁)
    (never_expires_no_partner_evicted P ops₂ hwf₂ h₂)

/-- For an inner join `update_watermark` never returns anything, after any history: every
qualifying buffered pair already has both matched flags set, so the re-scan adds nothing. -/
theorem watermark_emits_nothing (P : Params) (ops : List Op) (hwf : WF ops) (w : Int) :
    (step P (final P init ops) (.wm w)).2 = [] := by
  have h := final_inv (inv_init P) ops (by simpa using hwf.1) (by simpa using hwf.2)
  exact wm_out_nil h w

/-- The code's `i64` window test `|l.ts − r.ts| ≤ W` is the documented "timestamps no further
apart than the window". -/
theorem inWindow_eq_closeEnough (W : Nat) (l r : Ev) : inWindow W l r = closeEnough W l r :=
  inWindow_eq W l r

theorem prefix_ok (P : Params) (pre : List Op) (hwf : WF pre) :
    prefixOk P pre (obsTrace P pre) = true := by
  have hflat : (obsTrace P pre).flatten = (emitted P pre).map idPair := by
    unfold obsTrace emitted; rw [List.map_flatten]
  simp only [prefixOk, prefixSubset, prefixNodup, prefixComplete, Bool.and_eq_true, hflat,
    decide_eq_true_eq, Bool.or_eq_true, Bool.not_eq_true']
  refine ⟨⟨?_, no_duplicates P pre hwf⟩, ?_⟩
  · simp only [subsetB, List.all_eq_true, List.contains_iff_mem]
    intro x hx
    obtain ⟨p, hp, rfl⟩ := List.mem_map.1 hx
    exact List.mem_map.2 ⟨p, emitted_subset_reference P pre hwf p hp, rfl⟩
  · by_cases hn : noPartnerEvicted P pre = true
    · right
      simp only [subsetB, List.all_eq_true, List.contains_iff_mem]
      intro x hx
      obtain ⟨p, hp, rfl⟩ := List.mem_map.1 hx
      exact List.mem_map.2 ⟨p, (emitted_eq_reference P pre hwf hn).mem_iff.2 hp, rfl⟩
    · left; simpa using hn

/-- **Model meets the observation-level specification.** Every run of the model satisfies
`runOk` — the same predicate the driver evaluates on the implementation's observations: after
every call the pairs returned so far lie in the reference join of what has arrived, no pair
occurs twice, and the reference join is complete as long as no partner was evicted. -/
theorem model_meets_spec (P : Params) (ops : List Op) (hwf : WF ops) :
    runOk P ops (obsTrace P ops) = true := by
  simp only [runOk, Bool.and_eq_true, beq_iff_eq, List.all_eq_true, List.mem_range]
  refine ⟨by simp [obsTrace, trace_length], fun n _ => ?_⟩
  have : (obsTrace P ops).take n = obsTrace P (ops.take n) := by
    unfold obsTrace; rw [← List.map_take, trace_take]
  rw [this]
  exact prefix_ok P (ops.take n) (wf_take hwf n)

/-- **`StreamJoinManager`.** With one registered join, what the result handler receives during
each manager call is what the node returns for the routed call; calls for other streams deliver
nothing; so the manager-level observations satisfy the specification as well. -/
theorem manager_meets_spec (P : Params) (ms : List MOp) (hwf : WF (ms.filterMap route)) :
    mgrOk P ms (mgrObsTrace P ms) = true := by
  simp only [mgrOk, mgrObsTrace, Bool.and_eq_true]
  refine ⟨unroutedSilent_mgrTrace P init ms _ rfl, ?_⟩
  rw [routedObs_mgrTrace]
  exact model_meets_spec P (ms.filterMap route) hwf

/-! ### Non-vacuity: concrete histories meeting the hypotheses, with non-trivial results -/

def exP : Params := { W := 2, cond := fun l r => decide (l.v < r.v) }

def l0 : Ev := ⟨0, 5, some 1, 0⟩
def l1 : Ev := ⟨1, 6, some 1, 1⟩
def l2 : Ev := ⟨2, 5, some 2, 0⟩
def l3 : Ev := ⟨3, 5, none, 0⟩
def r0 : Ev := ⟨0, 7, some 1, 1⟩
def r1 : Ev := ⟨1, 4, some 1, 5⟩
def r2 : Ev := ⟨2, 9, some 1, 5⟩

/-- two merges of the same sequences, one with (harmless) watermark calls in between -/
def exA : List Op := [.left l0, .left l1, .right r0, .wm 7, .left l2, .right r1, .left l3, .right r2]
def exB : List Op := [.right r0, .right r1, .left l0, .right r2, .left l1, .left l2, .left l3]

example : WF exA ∧ WF exB := by decide
example : noPartnerEvicted exP exA = true ∧ noPartnerEvicted exP exB = true := by decide
example : lefts exA = lefts exB ∧ rights exA = rights exB := by decide
example : (emitted exP exA).map idPair = [(0, 0), (0, 1), (1, 1)] := by decide
example : (emitted exP exB).map idPair = [(0, 0), (0, 1), (1, 1)] := by decide
example : (refJoin exP (lefts exA) (rights exA)).map idPair = [(0, 0), (0, 1), (1, 1)] := by decide
example : neverExpires exP exB = true := by decide
example : runOk exP exA (obsTrace exP exA) = true := by decide

/-- The eviction hypothesis of the main theorem cannot be dropped: here the watermark evicts `l0`
before its partner `r0` arrives, and the emitted pairs are a *strict* part of the reference. -/
def exC : List Op := [.left l0, .wm 8, .right r0]

example : WF exC ∧ noPartnerEvicted exP exC = false := by decide
example : emitted exP exC = [] ∧ refJoin exP (lefts exC) (rights exC) = [(l0, r0)] := by decide

/-- ... stated as a theorem: without the eviction hypothesis the equality fails (the emitted pairs
are then only a part of the reference join, by `emitted_subset_reference`). -/
theorem eviction_hypothesis_needed :
    ∃ (P : Params) (ops : List Op), WF ops ∧ noPartnerEvicted P ops = false ∧
      ¬ (emitted P ops).Perm (refJoin P (lefts ops) (rights ops)) :=
  ⟨exP, exC, by decide, by decide, fun h => by have := h.length_eq; revert this; decide⟩

/-- The well-formedness hypothesis cannot be dropped from `no_duplicates`: the matched flags are
keyed by `(id, timestamp)`, so two events of one stream sharing both share a flag; evicting one
clears the flag of the other, and the next `update_watermark` re-emits its pair. (Replayed on the
implementation: same observation — see corpus/C14/corners.case. `StreamEvent::id` is documented
as a unique identifier, so this input is outside the contract.) -/
def exD : List Op :=
  [.left ⟨7, 9, some 2, 0⟩, .left ⟨0, 5, some 1, 0⟩, .left ⟨0, 5, some 2, 0⟩,
   .right ⟨7, 9, some 2, 0⟩, .right ⟨1, 5, some 1, 0⟩, .right ⟨2, 5, some 2, 0⟩, .wm 8, .wm 8]

theorem no_duplicates_needs_unique_ids :
    ∃ (P : Params) (ops : List Op), ¬ WF ops ∧ ¬ ((emitted P ops).map idPair).Nodup :=
  ⟨{ W := 2, cond := fun _ _ => true }, exD, by decide, by decide⟩

example : (obsTrace { W := 2, cond := fun _ _ => true } exD) =
    [[], [], [], [(7, 7)], [(0, 1)], [(0, 2)], [], [(0, 2)]] := by decide

/-- manager level: traffic of an unrelated stream is silent -/
example : mgrObsTrace exP [.ev .left l0, .ev .other r0, .wm .other 100, .ev .right r0] =
    [[], [], [], [(0, 0)]] := by decide

end C14
