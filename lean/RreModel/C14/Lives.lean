import RreModel.C14.Runs
/-
C14 — joins that are unregistered and registered again on a live manager: the loop with control
calls (`multiTraceC`) is, column by column, a sequence of *lives* of the single-join model; a life
starts from `init`, receives exactly the routed calls made while the join is registered, and ends
at the join's next control call. Calls made while the join is away, control calls (of this or of
any other join) and the other columns do not touch the join's node (frame lemmas `stepC_*`).
-/
namespace C14

/-- one join's column of `multiTraceC`: what its handler receives per call -/
def colTraceC (i : Nat) (j : JoinDef) : Option St → List COp → List (List (Ev × Ev))
  | _, [] => []
  | s, c :: cs => (stepC i j s c).2 :: colTraceC i j (stepC i j s c).1 cs

/-- the node of a join after the routed calls `ms` -/
def runJ (j : JoinDef) (s : St) (ms : List JOp) : St := ms.foldl (fun s m => (stepJ j s m).1) s

/-! ### frame lemmas: what does not touch a join -/

/-- a join that is away receives nothing and stays away during a routed call -/
theorem stepC_away (i : Nat) (j : JoinDef) (m : JOp) : stepC i j none (.op m) = (none, []) := rfl

/-- control calls of *other* joins change nothing and deliver nothing -/
theorem stepC_unreg_other {i k : Nat} (j : JoinDef) (s : Option St) (h : k ≠ i) :
    stepC i j s (.unreg k) = (s, []) := by simp [stepC, h]

theorem stepC_reg_other {i k : Nat} (j : JoinDef) (s : Option St) (h : k ≠ i) :
    stepC i j s (.reg k) = (s, []) := by simp [stepC, h]

/-- the join's own control calls deliver nothing; unregistering drops the node, registering
installs a fresh one -/
theorem stepC_unreg_self (i : Nat) (j : JoinDef) (s : Option St) :
    stepC i j s (.unreg i) = (none, []) := by simp [stepC]

theorem stepC_reg_self (i : Nat) (j : JoinDef) (s : Option St) :
    stepC i j s (.reg i) = (some init, []) := by simp [stepC]

/-! ### columns of the loop with control calls -/

theorem multiTraceC_length (xs : List (Nat × JoinDef × Option St)) (cs : List COp) :
    (multiTraceC xs cs).length = cs.length := by
  induction cs generalizing xs with
  | nil => rfl
  | cons c cs ih => simp [multiTraceC, ih]

theorem multiTraceC_nil (cs : List COp) (g : List (List (Ev × Ev)) → List (List (Nat × Nat)))
    (hg : g [] = []) : ((multiTraceC [] cs).map g).all (·.isEmpty) = true := by
  induction cs with
  | nil => rfl
  | cons c cs ih => simp [multiTraceC, hg] at ih ⊢; exact ih

theorem heads_multiTraceC (i : Nat) (j : JoinDef) (s : Option St)
    (xs : List (Nat × JoinDef × Option St)) (cs : List COp) (f : List (Ev × Ev) → List (Nat × Nat)) :
    heads ((multiTraceC ((i, j, s) :: xs) cs).map (fun row => row.map f)) =
      some ((colTraceC i j s cs).map f) := by
  induction cs generalizing s xs with
  | nil => rfl
  | cons c cs ih => simp [multiTraceC, heads, colTraceC, ih]

theorem tails_multiTraceC (i : Nat) (j : JoinDef) (s : Option St)
    (xs : List (Nat × JoinDef × Option St)) (cs : List COp) (f : List (Ev × Ev) → List (Nat × Nat)) :
    tails ((multiTraceC ((i, j, s) :: xs) cs).map (fun row => row.map f)) =
      (multiTraceC xs cs).map (fun row => row.map f) := by
  induction cs generalizing s xs with
  | nil => rfl
  | cons c cs ih => simp [multiTraceC, tails, ih]

/-! ### a life is a run of the single-join model -/

theorem routedTrace_cons_stepJ (j : JoinDef) (s : St) (m : JOp) (ms : List JOp) :
    routedTrace (routeJ j.l j.r) j.P s (m :: ms) =
      (stepJ j s m).2 :: routedTrace (routeJ j.l j.r) j.P (stepJ j s m).1 ms := by
  cases hr : routeJ j.l j.r m <;> simp [routedTrace, stepJ, hr]

theorem runJ_snoc (j : JoinDef) (s : St) (ms : List JOp) (m : JOp) :
    runJ j s (ms ++ [m]) = (stepJ j (runJ j s ms) m).1 := by
  simp [runJ, List.foldl_append]

theorem routedTrace_snoc (j : JoinDef) (s : St) (ms : List JOp) (m : JOp) :
    routedTrace (routeJ j.l j.r) j.P s (ms ++ [m]) =
      routedTrace (routeJ j.l j.r) j.P s ms ++ [(stepJ j (runJ j s ms) m).2] := by
  induction ms generalizing s with
  | nil => simp [routedTrace_cons_stepJ, routedTrace, runJ]
  | cons a ms ih =>
    rw [List.cons_append, routedTrace_cons_stepJ, routedTrace_cons_stepJ, ih]
    simp [runJ]

/-- the batches of the current life, newest first, after one more routed call -/
theorem life_batches_cons (j : JoinDef) (so : List JOp) (m : JOp)
    (f : List (Ev × Ev) → List (Nat × Nat)) :
    ((routedTrace (routeJ j.l j.r) j.P init (m :: so).reverse).map f).reverse =
      f (stepJ j (runJ j init so.reverse) m).2 ::
        ((routedTrace (routeJ j.l j.r) j.P init so.reverse).map f).reverse := by
  simp [List.reverse_cons, routedTrace_snoc]

theorem life_state_cons (j : JoinDef) (so : List JOp) (m : JOp) :
    runJ j init (m :: so).reverse = (stepJ j (runJ j init so.reverse) m).1 := by
  simp [List.reverse_cons, runJ_snoc]

/-- **Life by life.** If every run of the single-join model from `init` meets the manager
specification (`hspec`, = `routed_meets_spec`), then the column of a join under control calls meets
`livesOk`: (1) while the join is registered, with `so` the calls of its current life so far and the
node in the state those calls lead to from `init`; (2) while it is away. -/
theorem livesOk_colTraceC (i : Nat) (j : JoinDef) (f : List (Ev × Ev) → List (Nat × Nat))
    (hf : f [] = [])
    (hspec : ∀ ms, WF (joinOps j ms) →
      mgrOkG (routeJ j.l j.r) j.P ms ((routedTrace (routeJ j.l j.r) j.P init ms).map f) = true)
    (cs : List COp) :
    (∀ so, (∀ life ∈ livesOf i true so cs, WF (joinOps j life)) →
      livesOk i j true so ((routedTrace (routeJ j.l j.r) j.P init so.reverse).map f).reverse cs
        ((colTraceC i j (some (runJ j init so.reverse)) cs).map f) = true) ∧
    (∀ so so' sb, (∀ life ∈ livesOf i false so' cs, WF (joinOps j life)) →
      livesOk i j false so sb cs ((colTraceC i j none cs).map f) = true) := by
  induction cs with
  | nil =>
    refine ⟨fun so h => ?_, fun so so' sb _ => by simp [livesOk, colTraceC]⟩
    simp only [colTraceC, List.map_nil, livesOk, Bool.not_true, Bool.false_or, List.reverse_reverse]
    exact hspec so.reverse (h _ (by simp [livesOf]))
  | cons c cs ih =>
    cases c with
    | op m =>
      refine ⟨fun so h => ?_, fun so so' sb h => ?_⟩
      · simp only [colTraceC, stepC, List.map_cons, livesOk, if_true]
        rw [← life_batches_cons, ← life_state_cons]
        exact ih.1 (m :: so) (by simpa [livesOf] using h)
      · simp only [colTraceC, stepC_away, List.map_cons, livesOk, hf, List.isEmpty_nil,
          Bool.true_and, Bool.false_eq_true, if_false]
        exact ih.2 [] [] [] (by simpa [livesOf] using h)
    | unreg k =>
      by_cases hk : k = i
      · subst hk
        refine ⟨fun so h => ?_, fun so so' sb h => ?_⟩
        · simp only [colTraceC, stepC_unreg_self, List.map_cons, livesOk, hf, List.isEmpty_nil,
            Bool.true_and, if_true, Bool.not_true, Bool.false_or, List.reverse_reverse,
            Bool.and_eq_true]
          simp only [livesOf, if_true, List.singleton_append, List.mem_cons] at h
          exact ⟨hspec so.reverse (h _ (Or.inl rfl)),
            ih.2 [] [] [] (fun life hl => h life (Or.inr hl))⟩
        · simp only [colTraceC, stepC_unreg_self, List.map_cons, livesOk, hf, List.isEmpty_nil,
            Bool.true_and, if_true, Bool.not_false, Bool.true_or]
          exact ih.2 [] [] [] (by simpa [livesOf] using h)
      · refine ⟨fun so h => ?_, fun so so' sb h => ?_⟩
        · simp only [colTraceC, stepC_unreg_other j _ hk, List.map_cons, livesOk, hf,
            List.isEmpty_nil, Bool.true_and, if_neg hk]
          exact ih.1 so (by simpa [livesOf, hk] using h)
        · simp only [colTraceC, stepC_unreg_other j _ hk, List.map_cons, livesOk, hf,
            List.isEmpty_nil, Bool.true_and, if_neg hk]
          exact ih.2 so so' sb (by simpa [livesOf, hk] using h)
    | reg k =>
      by_cases hk : k = i
      · subst hk
        have h0 := ih.1 []
        simp only [List.reverse_nil, routedTrace, List.map_nil, runJ, List.foldl_nil] at h0
        refine ⟨fun so h => ?_, fun so so' sb h => ?_⟩
        · simp only [colTraceC, stepC_reg_self, List.map_cons, livesOk, hf, List.isEmpty_nil,
            Bool.true_and, if_true]
          simp only [livesOf, if_true, List.singleton_append, List.mem_cons] at h
          exact h0 (fun life hl => h life (Or.inr hl))
        · simp only [colTraceC, stepC_reg_self, List.map_cons, livesOk, hf, List.isEmpty_nil,
            Bool.true_and, if_true]
          exact h0 (by simpa [livesOf] using h)
      · refine ⟨fun so h => ?_, fun so so' sb h => ?_⟩
        · simp only [colTraceC, stepC_reg_other j _ hk, List.map_cons, livesOk, hf,
            List.isEmpty_nil, Bool.true_and, if_neg hk]
          exact ih.1 so (by simpa [livesOf, hk] using h)
        · simp only [colTraceC, stepC_reg_other j _ hk, List.map_cons, livesOk, hf,
            List.isEmpty_nil, Bool.true_and, if_neg hk]
          exact ih.2 so so' sb (by simpa [livesOf, hk] using h)

/-- a freshly registered join: its whole column is fine life by life -/
theorem livesOk_column (i : Nat) (j : JoinDef) (f : List (Ev × Ev) → List (Nat × Nat))
    (hf : f [] = [])
    (hspec : ∀ ms, WF (joinOps j ms) →
      mgrOkG (routeJ j.l j.r) j.P ms ((routedTrace (routeJ j.l j.r) j.P init ms).map f) = true)
    (cs : List COp) (h : ∀ life ∈ livesOf i true [] cs, WF (joinOps j life)) :
    livesOk i j true [] [] cs ((colTraceC i j (some init) cs).map f) = true := by
  have := (livesOk_colTraceC i j f hf hspec cs).1 [] h
  simpa [routedTrace, runJ] using this

/-- all columns -/
theorem multiOkC_multiTraceC (f : List (Ev × Ev) → List (Nat × Nat)) (hf : f [] = [])
    (hspec : ∀ (j : JoinDef) ms, WF (joinOps j ms) →
      mgrOkG (routeJ j.l j.r) j.P ms ((routedTrace (routeJ j.l j.r) j.P init ms).map f) = true)
    (n : Nat) (js : List JoinDef) (cs : List COp) (hwf : WFC n js cs) :
    multiOkC n js cs
      ((multiTraceC ((idxFrom n js).map (fun x => (x.1, x.2, some init))) cs).map
        (fun row => row.map f)) = true := by
  induction js generalizing n with
  | nil =>
    simp only [multiOkC, idxFrom, List.map_nil, List.length_map, multiTraceC_length,
      beq_self_eq_true, Bool.true_and]
    exact multiTraceC_nil cs _ rfl
  | cons j js ih =>
    simp only [idxFrom, List.map_cons, multiOkC, heads_multiTraceC, tails_multiTraceC,
      Bool.and_eq_true]
    refine ⟨livesOk_column n j f hf (hspec j) cs (hwf (n, j) (by simp [idxFrom])), ih (n + 1) ?_⟩
    intro x hx
    exact hwf x (by simp [idxFrom, hx])

/-! ### ids unique over the whole history ⇒ unique within every life -/

theorem lefts_sublist {a b : List Op} (h : a.Sublist b) : (lefts a).Sublist (lefts b) := by
  induction h with
  | slnil => exact List.Sublist.refl _
  | cons x _ ih => rw [lefts_cons]; exact List.sublist_append_of_sublist_right ih
  | cons_cons x _ ih => rw [lefts_cons, lefts_cons]; exact List.Sublist.append (List.Sublist.refl _) ih

theorem rights_sublist {a b : List Op} (h : a.Sublist b) : (rights a).Sublist (rights b) := by
  induction h with
  | slnil => exact List.Sublist.refl _
  | cons x _ ih => rw [rights_cons]; exact List.sublist_append_of_sublist_right ih
  | cons_cons x _ ih => rw [rights_cons, rights_cons]; exact List.Sublist.append (List.Sublist.refl _) ih

theorem wf_sublist {a b : List Op} (h : a.Sublist b) (hwf : WF b) : WF a :=
  ⟨List.Pairwise.sublist ((lefts_sublist h).map _) hwf.1,
   List.Pairwise.sublist ((rights_sublist h).map _) hwf.2⟩

/-- every life is a part of the history -/
theorem livesOf_sublist (i : Nat) (cs : List COp) :
    ∀ reg cur, ∀ life ∈ livesOf i reg cur cs, life.Sublist (cur.reverse ++ opsOf cs) := by
  induction cs with
  | nil =>
    intro reg cur life hl
    cases reg <;> simp [livesOf, opsOf] at hl ⊢
    subst hl; exact List.Sublist.refl _
  | cons c cs ih =>
    intro reg cur life hl
    have hnil : ∀ life ∈ livesOf i false [] cs, life.Sublist (cur.reverse ++ opsOf cs) :=
      fun life h => List.sublist_append_of_sublist_right (by simpa using ih false [] life h)
    have hnil' : ∀ life ∈ livesOf i true [] cs, life.Sublist (cur.reverse ++ opsOf cs) :=
      fun life h => List.sublist_append_of_sublist_right (by simpa using ih true [] life h)
    have hcur : cur.reverse.Sublist (cur.reverse ++ opsOf cs) := List.sublist_append_left _ _
    cases c with
    | op m =>
      have e : opsOf (COp.op m :: cs) = m :: opsOf cs := by simp [opsOf, opOf]
      rw [e]
      cases reg
      · simp only [livesOf, Bool.false_eq_true, if_false] at hl
        exact List.sublist_append_of_sublist_right
          (List.Sublist.cons _ (by simpa using ih false [] life hl))
      · simp only [livesOf, if_true] at hl
        have := ih true (m :: cur) life hl
        simpa [List.reverse_cons, List.append_assoc] using this
    | unreg k =>
      have e : opsOf (COp.unreg k :: cs) = opsOf cs := by simp [opsOf, List.filterMap_cons, opOf]
      rw [e]
      by_cases hk : k = i
      · cases reg
        · simp only [livesOf, hk, if_true, Bool.false_eq_true, if_false, List.nil_append] at hl
          exact hnil life hl
        · simp only [livesOf, hk, if_true, List.singleton_append, List.mem_cons] at hl
          rcases hl with rfl | hl
          · exact hcur
          · exact hnil life hl
      · simp only [livesOf, if_neg hk] at hl
        exact ih reg cur life hl
    | reg k =>
      have e : opsOf (COp.reg k :: cs) = opsOf cs := by simp [opsOf, List.filterMap_cons, opOf]
      rw [e]
      by_cases hk : k = i
      · cases reg
        · simp only [livesOf, hk, if_true, Bool.false_eq_true, if_false, List.nil_append] at hl
          exact hnil' life hl
        · simp only [livesOf, hk, if_true, List.singleton_append, List.mem_cons] at hl
          rcases hl with rfl | hl
          · exact hcur
          · exact hnil' life hl
      · simp only [livesOf, if_neg hk] at hl
        exact ih reg cur life hl

theorem mem_idxFrom_snd {α : Type} {n : Nat} {xs : List α} {x : Nat × α} (h : x ∈ idxFrom n xs) :
    x.2 ∈ xs := by
  induction xs generalizing n with
  | nil => cases h
  | cons a xs ih =>
    simp only [idxFrom, List.mem_cons] at h
    rcases h with rfl | h
    · simp
    · exact List.mem_cons_of_mem _ (ih h)

/-- the driver's input check (ids unique per consumed stream over the **whole** history) implies
the per-life well-formedness -/
theorem wfc_of_unique_ids (n : Nat) (js : List JoinDef) (cs : List COp)
    (h : ∀ j ∈ js, WF (joinOps j (opsOf cs))) : WFC n js cs := by
  intro x hx life hl
  have hs := livesOf_sublist x.1 cs true [] life hl
  simp only [List.reverse_nil, List.nil_append] at hs
  exact wf_sublist (hs.filterMap _) (h x.2 (mem_idxFrom_snd hx))

/-! ### `clear()`: for every join it is that join's own `unregister_join` -/

/-- one join's column of `multiTraceX` -/
def colTraceX (i : Nat) (j : JoinDef) : Option St → List XOp → List (List (Ev × Ev))
  | _, [] => []
  | s, c :: cs => (stepX i j s c).2 :: colTraceX i j (stepX i j s c).1 cs

/-- `clear()` drops the node of the join whatever its index, exactly like its own unregistration -/
theorem stepX_view (i : Nat) (j : JoinDef) (s : Option St) (x : XOp) :
    stepX i j s x = stepC i j s (viewX i x) := by
  cases x with
  | ctl c => rfl
  | clear => simp [stepX, viewX, stepC]

theorem colTraceX_eq (i : Nat) (j : JoinDef) (s : Option St) (xs : List XOp) :
    colTraceX i j s xs = colTraceC i j s (xs.map (viewX i)) := by
  induction xs generalizing s with
  | nil => rfl
  | cons x xs ih => simp [colTraceX, colTraceC, stepX_view, ih]

theorem multiTraceX_length (ys : List (Nat × JoinDef × Option St)) (xs : List XOp) :
    (multiTraceX ys xs).length = xs.length := by
  induction xs generalizing ys with
  | nil => rfl
  | cons c cs ih => simp [multiTraceX, ih]

theorem multiTraceX_nil (xs : List XOp) (g : List (List (Ev × Ev)) → List (List (Nat × Nat)))
    (hg : g [] = []) : ((multiTraceX [] xs).map g).all (·.isEmpty) = true := by
  induction xs with
  | nil => rfl
  | cons c cs ih => simp [multiTraceX, hg] at ih ⊢; exact ih

theorem heads_multiTraceX (i : Nat) (j : JoinDef) (s : Option St)
    (ys : List (Nat × JoinDef × Option St)) (xs : List XOp) (f : List (Ev × Ev) → List (Nat × Nat)) :
    heads ((multiTraceX ((i, j, s) :: ys) xs).map (fun row => row.map f)) =
      some ((colTraceX i j s xs).map f) := by
  induction xs generalizing s ys with
  | nil => rfl
  | cons c cs ih => simp [multiTraceX, heads, colTraceX, ih]

theorem tails_multiTraceX (i : Nat) (j : JoinDef) (s : Option St)
    (ys : List (Nat × JoinDef × Option St)) (xs : List XOp) (f : List (Ev × Ev) → List (Nat × Nat)) :
    tails ((multiTraceX ((i, j, s) :: ys) xs).map (fun row => row.map f)) =
      (multiTraceX ys xs).map (fun row => row.map f) := by
  induction xs generalizing s ys with
  | nil => rfl
  | cons c cs ih => simp [multiTraceX, tails, ih]

/-- all columns, with `clear()` calls -/
theorem multiOkX_multiTraceX (f : List (Ev × Ev) → List (Nat × Nat)) (hf : f [] = [])
    (hspec : ∀ (j : JoinDef) ms, WF (joinOps j ms) →
      mgrOkG (routeJ j.l j.r) j.P ms ((routedTrace (routeJ j.l j.r) j.P init ms).map f) = true)
    (n : Nat) (js : List JoinDef) (xs : List XOp) (hwf : WFX n js xs) :
    multiOkX n js xs
      ((multiTraceX ((idxFrom n js).map (fun x => (x.1, x.2, some init))) xs).map
        (fun row => row.map f)) = true := by
  induction js generalizing n with
  | nil =>
    simp only [multiOkX, idxFrom, List.map_nil, List.length_map, multiTraceX_length,
      beq_self_eq_true, Bool.true_and]
    exact multiTraceX_nil xs _ rfl
  | cons j js ih =>
    simp only [idxFrom, List.map_cons, multiOkX, heads_multiTraceX, tails_multiTraceX,
      Bool.and_eq_true, colTraceX_eq]
    refine ⟨livesOk_column n j f hf (hspec j) _ (hwf (n, j) (by simp [idxFrom])), ih (n + 1) ?_⟩
    intro x hx
    exact hwf x (by simp [idxFrom, hx])

theorem opsOf_view (i : Nat) (xs : List XOp) : opsOf (xs.map (viewX i)) = opsOfX xs := by
  induction xs with
  | nil => rfl
  | cons x xs ih =>
    cases x with
    | ctl c => simp only [opsOf, opsOfX, List.map_cons, List.filterMap_cons, viewX, opOfX] at ih ⊢; rw [ih]
    | clear => simp only [opsOf, opsOfX, List.map_cons, List.filterMap_cons, viewX, opOfX, opOf] at ih ⊢; rw [ih]

/-- ids unique over the whole history ⇒ unique within every life, with `clear()` calls -/
theorem wfx_of_unique_ids (n : Nat) (js : List JoinDef) (xs : List XOp)
    (h : ∀ j ∈ js, WF (joinOps j (opsOfX xs))) : WFX n js xs := by
  intro x hx life hl
  have hs := livesOf_sublist x.1 (xs.map (viewX x.1)) true [] life hl
  simp only [List.reverse_nil, List.nil_append, opsOf_view] at hs
  exact wf_sublist (hs.filterMap _) (h x.2 (mem_idxFrom_snd hx))

/-- a history without `clear()` is a history of `multiTraceC` -/
theorem multiTraceX_ctl (ys : List (Nat × JoinDef × Option St)) (cs : List COp) :
    multiTraceX ys (cs.map .ctl) = multiTraceC ys cs := by
  induction cs generalizing ys with
  | nil => rfl
  | cons c cs ih => simp [multiTraceX, multiTraceC, stepX, ih]

end C14
