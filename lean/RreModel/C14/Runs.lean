import RreModel.C14.Lemmas
/-
C14 — run-level lemmas: the one-call facts of Lemmas.lean lifted to arbitrary histories by
induction over the history, from an arbitrary state satisfying the invariant.
-/
namespace C14

theorem lefts_cons (op : Op) (ops : List Op) : lefts (op :: ops) = leftOf op ++ lefts ops := by
  simp [lefts, List.flatMap_cons]

theorem rights_cons (op : Op) (ops : List Op) : rights (op :: ops) = rightOf op ++ rights ops := by
  simp [rights, List.flatMap_cons]

theorem wms_cons (op : Op) (ops : List Op) : wms (op :: ops) = wmOf op ++ wms ops := by
  simp [wms, List.flatMap_cons]

theorem lefts_append (a b : List Op) : lefts (a ++ b) = lefts a ++ lefts b := by
  simp [lefts, List.flatMap_append]

theorem rights_append (a b : List Op) : rights (a ++ b) = rights a ++ rights b := by
  simp [rights, List.flatMap_append]

theorem ids_prefix {a b : List Ev} (h : ((a ++ b).map (·.id)).Nodup) : (a.map (·.id)).Nodup := by
  rw [List.map_append] at h; exact (List.nodup_append.1 h).1

theorem ids_disjoint {x y : List Ev} (h : ((x ++ y).map (·.id)).Nodup) {a : Ev} (hx : a ∈ x)
    (hy : a ∈ y) : False := by
  rw [List.map_append] at h
  exact (List.nodup_append.1 h).2.2 a.id (List.mem_map.2 ⟨a, hx, rfl⟩) a.id
    (List.mem_map.2 ⟨a, hy, rfl⟩) rfl

theorem trace_length (P : Params) (s : St) (ops : List Op) : (trace P s ops).length = ops.length := by
  induction ops generalizing s with
  | nil => rfl
  | cons op ops ih => simp [trace, ih]

theorem trace_take (P : Params) (s : St) (ops : List Op) (n : Nat) :
    (trace P s ops).take n = trace P s (ops.take n) := by
  induction ops generalizing s n with
  | nil => simp [trace]
  | cons op ops ih =>
    cases n with
    | zero => simp [trace]
    | succ n => simp [trace, ih]

/-- the invariant holds after every history with per-stream unique ids -/
theorem final_inv {P : Params} {s : St} {ls rs : List Ev} (h : Inv P s ls rs) (ops : List Op)
    (hl : ((ls ++ lefts ops).map (·.id)).Nodup) (hr : ((rs ++ rights ops).map (·.id)).Nodup) :
    Inv P (final P s ops) (ls ++ lefts ops) (rs ++ rights ops) := by
  induction ops generalizing s ls rs with
  | nil => simpa [final, lefts, rights] using h
  | cons op ops ih =>
    rw [lefts_cons, ← List.append_assoc] at hl ⊢
    rw [rights_cons, ← List.append_assoc] at hr ⊢
    exact ih (step_inv h op (ids_prefix hl) (ids_prefix hr)) hl hr

/-- soundness along a run: every emitted pair matches, consists of arrived events, and involves
an event arriving during this run -/
theorem sound_from {P : Params} {s : St} {ls rs : List Ev} (h : Inv P s ls rs) (ops : List Op)
    (hl : ((ls ++ lefts ops).map (·.id)).Nodup) (hr : ((rs ++ rights ops).map (·.id)).Nodup) :
    ∀ p ∈ (trace P s ops).flatten, isMatch P p.1 p.2 = true ∧ p.1 ∈ ls ++ lefts ops ∧
      p.2 ∈ rs ++ rights ops ∧ (p.1 ∈ lefts ops ∨ p.2 ∈ rights ops) := by
  induction ops generalizing s ls rs with
  | nil => intro p hp; simp [trace] at hp
  | cons op ops ih =>
    intro p hp
    simp only [trace, List.flatten_cons, List.mem_append] at hp
    rw [lefts_cons, rights_cons]
    rcases hp with hp | hp
    · obtain ⟨hm, hcase⟩ := step_out_sound h op p hp
      refine ⟨hm, ?_⟩
      rcases hcase with ⟨h1, h2⟩ | ⟨h2, h1⟩
      · exact ⟨by simp [h1], by simp [h2], Or.inl (by simp [h1])⟩
      · exact ⟨by simp [h1], by simp [h2], Or.inr (by simp [h2])⟩
    · rw [lefts_cons, ← List.append_assoc] at hl
      rw [rights_cons, ← List.append_assoc] at hr
      obtain ⟨hm, h1, h2, h3⟩ :=
        ih (step_inv h op (ids_prefix hl) (ids_prefix hr)) hl hr p hp
      refine ⟨hm, by simpa [List.append_assoc] using h1, by simpa [List.append_assoc] using h2, ?_⟩
      rcases h3 with h3 | h3
      · exact Or.inl (by simp [h3])
      · exact Or.inr (by simp [h3])

/-- no pair is emitted twice along a run -/
theorem nodup_from {P : Params} {s : St} {ls rs : List Ev} (h : Inv P s ls rs) (ops : List Op)
    (hl : ((ls ++ lefts ops).map (·.id)).Nodup) (hr : ((rs ++ rights ops).map (·.id)).Nodup) :
    (trace P s ops).flatten.Nodup := by
  induction ops generalizing s ls rs with
  | nil => simp [trace]
  | cons op ops ih =>
    simp only [trace, List.flatten_cons]
    rw [lefts_cons, ← List.append_assoc] at hl
    rw [rights_cons, ← List.append_assoc] at hr
    have hl0 := ids_prefix hl
    have hr0 := ids_prefix hr
    have hinv := step_inv h op hl0 hr0
    refine List.nodup_append.2 ⟨step_out_nodup h op (ids_prefix hl0) (ids_prefix hr0), ih hinv hl hr, ?_⟩
    intro a ha b hb hab
    subst hab
    obtain ⟨_, hcase⟩ := step_out_sound h op a ha
    obtain ⟨_, _, _, hnew⟩ := sound_from hinv ops hl hr a hb
    rcases hcase with ⟨h1, h2⟩ | ⟨h2, h1⟩
    · rcases hnew with h3 | h3
      · exact ids_disjoint hl (List.mem_append_right _ h1) h3
      · exact ids_disjoint hr (List.mem_append_left _ h2) h3
    · rcases hnew with h3 | h3
      · exact ids_disjoint hl (List.mem_append_left _ h1) h3
      · exact ids_disjoint hr (List.mem_append_right _ h2) h3

/-- completeness along a run in which no event is evicted before its partner arrives -/
theorem complete_from {P : Params} {s : St} {ls rs : List Ev} (h : Inv P s ls rs) (ops : List Op)
    (hl : ((ls ++ lefts ops).map (·.id)).Nodup) (hr : ((rs ++ rights ops).map (·.id)).Nodup)
    (hn : npeFrom P s ls rs ops = true) :
    ∀ p : Ev × Ev, p.1 ∈ ls ++ lefts ops → p.2 ∈ rs ++ rights ops → isMatch P p.1 p.2 = true →
      (p.1 ∈ ls ∧ p.2 ∈ rs) ∨ p ∈ (trace P s ops).flatten := by
  induction ops generalizing s ls rs with
  | nil => intro p h1 h2 _; simp [lefts, rights] at h1 h2; exact Or.inl ⟨h1, h2⟩
  | cons op ops ih =>
    intro p h1 h2 hm
    simp only [npeFrom, Bool.and_eq_true] at hn
    rw [lefts_cons, ← List.append_assoc] at hl h1
    rw [rights_cons, ← List.append_assoc] at hr h2
    simp only [trace, List.flatten_cons, List.mem_append]
    rcases ih (step_inv h op (ids_prefix hl) (ids_prefix hr)) hl hr hn.2 p h1 h2 hm with ⟨g1, g2⟩ | g
    · obtain ⟨pl, pr⟩ := p
      cases op with
      | left e =>
        simp only [leftOf, rightOf, List.append_nil, List.mem_append, List.mem_singleton] at g1 g2
        rcases g1 with g1 | rfl
        · exact Or.inl ⟨g1, g2⟩
        · have hb := hn.1
          simp only [partnersBuffered, List.all_eq_true, Bool.or_eq_true, Bool.not_eq_true'] at hb
          rcases hb pr g2 with hb | hb
          · rw [hm] at hb; cases hb
          · exact Or.inr (Or.inl (step_out_complete_left pl pr hb hm))
      | right e =>
        simp only [leftOf, rightOf, List.append_nil, List.mem_append, List.mem_singleton] at g1 g2
        rcases g2 with g2 | rfl
        · exact Or.inl ⟨g1, g2⟩
        · have hb := hn.1
          simp only [partnersBuffered, List.all_eq_true, Bool.or_eq_true, Bool.not_eq_true'] at hb
          rcases hb pl g1 with hb | hb
          · rw [hm] at hb; cases hb
          · exact Or.inr (Or.inl (step_out_complete_right pl pr hb hm))
      | wm w =>
        simp only [leftOf, rightOf, List.append_nil] at g1 g2
        exact Or.inl ⟨g1, g2⟩
    · exact Or.inr (Or.inr g)

/-! ### prefixes of a history -/

theorem wf_take {ops : List Op} (hwf : WF ops) (n : Nat) : WF (ops.take n) := by
  have h := List.take_append_drop n ops
  constructor
  · have := hwf.1; rw [← h, lefts_append] at this; exact ids_prefix this
  · have := hwf.2; rw [← h, rights_append] at this; exact ids_prefix this

theorem npe_take (P : Params) (s : St) (ls rs : List Ev) (ops : List Op) (n : Nat)
    (h : npeFrom P s ls rs ops = true) : npeFrom P s ls rs (ops.take n) = true := by
  induction ops generalizing s ls rs n with
  | nil => simpa using h
  | cons op ops ih =>
    cases n with
    | zero => rfl
    | succ n =>
      simp only [List.take_succ_cons, npeFrom, Bool.and_eq_true] at h ⊢
      exact ⟨h.1, ih _ _ _ n h.2⟩

/-! ### when nothing ever expires, nothing is evicted -/

/-- every arrived event that has a key is still in its bucket -/
def AllBuf (s : St) (ls rs : List Ev) : Prop :=
  (∀ x ∈ ls, ∀ k, x.key = some k → x ∈ queue k s.lbuf) ∧
  (∀ x ∈ rs, ∀ k, x.key = some k → x ∈ queue k s.rbuf)

theorem allBuf_step {P : Params} {s : St} {ls rs : List Ev} (h : Inv P s ls rs)
    (hb : AllBuf s ls rs) (op : Op)
    (hne : ∀ w ∈ wmOf op, ∀ e ∈ ls ++ rs, expired w P.W e = false) :
    AllBuf (step P s op).1 (ls ++ leftOf op) (rs ++ rightOf op) := by
  cases op with
  | left e =>
    simp only [step, processLeft, leftOf, rightOf, List.append_nil]
    cases hk : e.key with
    | none =>
      refine ⟨fun x hx k hxk => ?_, hb.2⟩
      rcases List.mem_append.1 hx with hx | hx
      · exact hb.1 x hx k hxk
      · rw [List.mem_singleton.1 hx, hk] at hxk; cases hxk
    | some k0 =>
      refine ⟨fun x hx k hxk => ?_, hb.2⟩
      simp only [queue_push]
      rcases List.mem_append.1 hx with hx | hx
      · by_cases hkk : k = k0
        · subst hkk; simp only [if_true]; exact List.mem_append_left _ (hb.1 x hx k hxk)
        · simp only [if_neg hkk]; exact hb.1 x hx k hxk
      · have hxe := List.mem_singleton.1 hx
        subst hxe
        rw [hk] at hxk
        have hkk := Option.some.inj hxk
        subst hkk
        simp
  | right e =>
    simp only [step, processRight, leftOf, rightOf, List.append_nil]
    cases hk : e.key with
    | none =>
      refine ⟨hb.1, fun x hx k hxk => ?_⟩
      rcases List.mem_append.1 hx with hx | hx
      · exact hb.2 x hx k hxk
      · rw [List.mem_singleton.1 hx, hk] at hxk; cases hxk
    | some k0 =>
      refine ⟨hb.1, fun x hx k hxk => ?_⟩
      simp only [queue_push]
      rcases List.mem_append.1 hx with hx | hx
      · by_cases hkk : k = k0
        · subst hkk; simp only [if_true]; exact List.mem_append_left _ (hb.2 x hx k hxk)
        · simp only [if_neg hkk]; exact hb.2 x hx k hxk
      · have hxe := List.mem_singleton.1 hx
        subst hxe
        rw [hk] at hxk
        have hkk := Option.some.inj hxk
        subst hkk
        simp
  | wm w =>
    simp only [step, updateWatermark, leftOf, rightOf, List.append_nil]
    have hw := hne w (by simp [wmOf])
    constructor
    · intro x hx k hxk
      rw [queue_evictBuf h.kl, dropWhile_eq_self]
      · exact hb.1 x hx k hxk
      · intro a ha
        exact hw a (List.mem_append_left _ ((h.subL k).mem ha))
    · intro x hx k hxk
      rw [queue_evictBuf h.kr, dropWhile_eq_self]
      · exact hb.2 x hx k hxk
      · intro a ha
        exact hw a (List.mem_append_right _ ((h.subR k).mem ha))

theorem npe_of_never {P : Params} {s : St} {ls rs : List Ev} (h : Inv P s ls rs)
    (hb : AllBuf s ls rs) (ops : List Op)
    (hl : ((ls ++ lefts ops).map (·.id)).Nodup) (hr : ((rs ++ rights ops).map (·.id)).Nodup)
    (hne : ∀ w ∈ wms ops, ∀ e, (e ∈ ls ∨ e ∈ lefts ops ∨ e ∈ rs ∨ e ∈ rights ops) →
      expired w P.W e = false) :
    npeFrom P s ls rs ops = true := by
  induction ops generalizing s ls rs with
  | nil => rfl
  | cons op ops ih =>
    have hne1 : ∀ w ∈ wmOf op, ∀ e ∈ ls ++ rs, expired w P.W e = false := by
      intro w hw e he
      refine hne w (by rw [wms_cons]; exact List.mem_append_left _ hw) e ?_
      rcases List.mem_append.1 he with he | he
      · exact Or.inl he
      · exact Or.inr (Or.inr (Or.inl he))
    have hne2 : ∀ w ∈ wms ops, ∀ e, (e ∈ ls ++ leftOf op ∨ e ∈ lefts ops ∨ e ∈ rs ++ rightOf op ∨
        e ∈ rights ops) → expired w P.W e = false := by
      intro w hw e he
      refine hne w (by rw [wms_cons]; exact List.mem_append_right _ hw) e ?_
      rw [lefts_cons, rights_cons]
      simp only [List.mem_append] at he ⊢
      rcases he with (h | h) | h | (h | h) | h <;> simp [h]
    rw [lefts_cons, ← List.append_assoc] at hl
    rw [rights_cons, ← List.append_assoc] at hr
    simp only [npeFrom, Bool.and_eq_true]
    constructor
    · cases op with
      | left e =>
        simp only [partnersBuffered, List.all_eq_true, Bool.or_eq_true, Bool.not_eq_true']
        intro r hrm
        by_cases hm : isMatch P e r = true
        · right
          have hsk : sameKey e r = true := by
            unfold isMatch at hm; simp only [Bool.and_eq_true] at hm; exact hm.1.1
          obtain ⟨k, _, hrk⟩ := sameKey_iff.1 hsk
          exact buffered_iff.2 ⟨k, hrk, hb.2 r hrm k hrk⟩
        · left; simpa using hm
      | right e =>
        simp only [partnersBuffered, List.all_eq_true, Bool.or_eq_true, Bool.not_eq_true']
        intro l hlm
        by_cases hm : isMatch P l e = true
        · right
          have hsk : sameKey l e = true := by
            unfold isMatch at hm; simp only [Bool.and_eq_true] at hm; exact hm.1.1
          obtain ⟨k, hlk, _⟩ := sameKey_iff.1 hsk
          exact buffered_iff.2 ⟨k, hlk, hb.1 l hlm k hlk⟩
        · left; simpa using hm
      | wm w => rfl
    · exact ih (step_inv h op (ids_prefix hl) (ids_prefix hr)) (allBuf_step h hb op hne1) hl hr hne2

/-! ### every call returns what it owes (no invariant needed) -/

theorem owed_subset_step (P : Params) (s : St) (ls rs : List Ev) (op : Op) :
    subsetB (owed P s ls rs op) ((step P s op).2.map idPair) = true := by
  simp only [subsetB, List.all_eq_true, List.contains_iff_mem]
  intro x hx
  cases op with
  | left e =>
    simp only [owed, List.mem_map, List.mem_filter, Bool.and_eq_true] at hx
    obtain ⟨r, ⟨_, hm, hb⟩, rfl⟩ := hx
    exact List.mem_map.2 ⟨(e, r), step_out_complete_left e r hb hm, rfl⟩
  | right e =>
    simp only [owed, List.mem_map, List.mem_filter, Bool.and_eq_true] at hx
    obtain ⟨l, ⟨_, hm, hb⟩, rfl⟩ := hx
    exact List.mem_map.2 ⟨(l, e), step_out_complete_right l e hb hm, rfl⟩
  | wm w => simp [owed] at hx

theorem owedFrom_trace (P : Params) (s : St) (ls rs : List Ev) (ops : List Op) :
    owedFrom P s ls rs ops ((trace P s ops).map (fun out => out.map idPair)) = true := by
  induction ops generalizing s ls rs with
  | nil => simp [owedFrom]
  | cons op ops ih =>
    simp only [trace, List.map_cons, owedFrom, Bool.and_eq_true]
    exact ⟨owed_subset_step P s ls rs op, ih _ _ _⟩

/-! ### the manager only routes -/

theorem routedObsG_routedTrace {M : Type} (rt : M → Option Op) (P : Params) (s : St) (ms : List M)
    (f : List (Ev × Ev) → List (Nat × Nat)) :
    routedObsG rt ms ((routedTrace rt P s ms).map f) = (trace P s (ms.filterMap rt)).map f := by
  induction ms generalizing s with
  | nil => rfl
  | cons m ms ih =>
    cases hr : rt m with
    | none => simp [routedTrace, routedObsG, hr, ih]
    | some op => simp [routedTrace, routedObsG, hr, trace, ih]

theorem unroutedSilentG_routedTrace {M : Type} (rt : M → Option Op) (P : Params) (s : St) (ms : List M)
    (f : List (Ev × Ev) → List (Nat × Nat)) (hf : f [] = []) :
    unroutedSilentG rt ms ((routedTrace rt P s ms).map f) = true := by
  induction ms generalizing s with
  | nil => rfl
  | cons m ms ih =>
    cases hr : rt m with
    | none => simp [routedTrace, unroutedSilentG, hr, hf, ih]
    | some op => simp [routedTrace, unroutedSilentG, hr, ih]

theorem routedObs_mgrTrace (P : Params) (s : St) (ms : List MOp) (f : List (Ev × Ev) → List (Nat × Nat)) :
    routedObs ms ((mgrTrace P s ms).map f) = (trace P s (ms.filterMap route)).map f :=
  routedObsG_routedTrace route P s ms f

theorem unroutedSilent_mgrTrace (P : Params) (s : St) (ms : List MOp) (f : List (Ev × Ev) → List (Nat × Nat))
    (hf : f [] = []) : unroutedSilent ms ((mgrTrace P s ms).map f) = true :=
  unroutedSilentG_routedTrace route P s ms f hf

/-! ### several joins on one manager: the joins do not interact

The call-major loop of the manager (`multiTrace`) is, column by column, the single-join trace of
each registered join under its own routing. -/

theorem multiTrace_length (jss : List (JoinDef × St)) (ms : List JOp) :
    (multiTrace jss ms).length = ms.length := by
  induction ms generalizing jss with
  | nil => rfl
  | cons m ms ih => simp [multiTrace, ih]

theorem multiTrace_nil (ms : List JOp) (g : List (List (Ev × Ev)) → List (List (Nat × Nat))) (hg : g [] = []) :
    ((multiTrace [] ms).map g).all (·.isEmpty) = true := by
  induction ms with
  | nil => rfl
  | cons m ms ih => simp [multiTrace, hg] at ih ⊢; exact ih

theorem heads_multiTrace (j : JoinDef) (s : St) (jss : List (JoinDef × St)) (ms : List JOp)
    (f : List (Ev × Ev) → List (Nat × Nat)) :
    heads ((multiTrace ((j, s) :: jss) ms).map (fun row => row.map f)) =
      some ((routedTrace (routeJ j.l j.r) j.P s ms).map f) := by
  induction ms generalizing s jss with
  | nil => rfl
  | cons m ms ih =>
    cases hr : routeJ j.l j.r m with
    | none => simp [multiTrace, heads, routedTrace, stepJ, hr, ih]
    | some op => simp [multiTrace, heads, routedTrace, stepJ, hr, ih]

theorem tails_multiTrace (j : JoinDef) (s : St) (jss : List (JoinDef × St)) (ms : List JOp)
    (f : List (Ev × Ev) → List (Nat × Nat)) :
    tails ((multiTrace ((j, s) :: jss) ms).map (fun row => row.map f)) =
      (multiTrace jss ms).map (fun row => row.map f) := by
  induction ms generalizing s jss with
  | nil => rfl
  | cons m ms ih => simp [multiTrace, tails, ih]

end C14
