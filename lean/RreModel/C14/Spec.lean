import RreModel.C14.Model
/-
C14 — the property as decidable predicates over API-level observations: the id pairs of the
`Vec<JoinedEvent>` returned by every `process_left` / `process_right` / `update_watermark` call.
The same predicates are proved of the model (Theorems.lean) and evaluated on the implementation's
observations by the driver (oracle mode).
-/
namespace C14

/-- both key extractors returned the same key -/
def sameKey (l r : Ev) : Bool :=
  match l.key, r.key with
  | some a, some b => a == b
  | _, _ => false

/-- timestamps no further apart than the window (stated on `Nat`, independently of the model's
`i64` arithmetic) -/
def closeEnough (W : Nat) (l r : Ev) : Bool := decide (l.ts ≤ r.ts + W) && decide (r.ts ≤ l.ts + W)

/-- the documented join predicate: equal keys, |Δts| ≤ W, join condition true -/
def isMatch (P : Params) (l r : Ev) : Bool := sameKey l r && closeEnough P.W l r && P.cond l r

/-- the reference join of two event sequences: every matching (left, right) pair, once -/
def refJoin (P : Params) (ls rs : List Ev) : List (Ev × Ev) :=
  ls.flatMap (fun l => (rs.filter (fun r => isMatch P l r)).map (fun r => (l, r)))

def leftOf : Op → List Ev
  | .left e => [e]
  | _ => []

def rightOf : Op → List Ev
  | .right e => [e]
  | _ => []

/-- the left (right) events of a history, in arrival order -/
def lefts (ops : List Op) : List Ev := ops.flatMap leftOf
def rights (ops : List Op) : List Ev := ops.flatMap rightOf

def wmOf : Op → List Int
  | .wm w => [w]
  | _ => []
def wms (ops : List Op) : List Int := ops.flatMap wmOf

/-- the observable identity of an emitted pair -/
def idPair (p : Ev × Ev) : Nat × Nat := (p.1.id, p.2.id)

/-- well-formedness: event ids are unique within each stream -/
def WF (ops : List Op) : Prop :=
  ((lefts ops).map (·.id)).Nodup ∧ ((rights ops).map (·.id)).Nodup

instance (ops : List Op) : Decidable (WF ops) := by unfold WF; exact inferInstance

/-- `x` is still in the bucket of its key -/
def buffered (b : Buf) (x : Ev) : Bool :=
  match x.key with
  | some k => (queue k b).contains x
  | none => false

/-- when `op` arrives, every earlier-arrived partner of its event is still buffered -/
def partnersBuffered (P : Params) (s : St) (ls rs : List Ev) : Op → Bool
  | .left e => rs.all (fun r => !isMatch P e r || buffered s.rbuf r)
  | .right e => ls.all (fun l => !isMatch P l e || buffered s.lbuf l)
  | .wm _ => true

/-- "no event is evicted before its partner arrives", along a run from state `s` in which
`ls` / `rs` have already arrived -/
def npeFrom (P : Params) : St → List Ev → List Ev → List Op → Bool
  | _, _, _, [] => true
  | s, ls, rs, op :: ops =>
    partnersBuffered P s ls rs op &&
      npeFrom P (step P s op).1 (ls ++ leftOf op) (rs ++ rightOf op) ops

def noPartnerEvicted (P : Params) (ops : List Op) : Bool := npeFrom P init [] [] ops

/-- an intrinsic sufficient condition: no watermark of the history ever makes an event of the
history expire (`w − ts ≤ W` throughout; in particular: no watermark calls at all) -/
def neverExpires (P : Params) (ops : List Op) : Bool :=
  (wms ops).all (fun w => (lefts ops ++ rights ops).all (fun e => !expired w P.W e))

def subsetB (a b : List (Nat × Nat)) : Bool := a.all (fun x => b.contains x)

/-- clause 1: everything emitted so far is in the reference join of what has arrived -/
def prefixSubset (P : Params) (pre : List Op) (obs : List (List (Nat × Nat))) : Bool :=
  subsetB obs.flatten ((refJoin P (lefts pre) (rights pre)).map idPair)

/-- clause 2: no pair was emitted twice -/
def prefixNodup (obs : List (List (Nat × Nat))) : Bool := decide obs.flatten.Nodup

/-- clause 3: while no partner was evicted, the reference join of what has arrived has been
emitted completely -/
def prefixComplete (P : Params) (pre : List Op) (obs : List (List (Nat × Nat))) : Bool :=
  !noPartnerEvicted P pre || subsetB ((refJoin P (lefts pre) (rights pre)).map idPair) obs.flatten

def prefixOk (P : Params) (pre : List Op) (obs : List (List (Nat × Nat))) : Bool :=
  prefixSubset P pre obs && prefixNodup obs && prefixComplete P pre obs

/-- whole-run oracle: one observation per call, and after every call the three clauses hold for
the calls made so far ("emitted so far = reference join of the arrived prefixes") -/
def runOk (P : Params) (ops : List Op) (obs : List (List (Nat × Nat))) : Bool :=
  obs.length == ops.length &&
    (List.range (ops.length + 1)).all (fun n => prefixOk P (ops.take n) (obs.take n))

/-- the model's observation sequence -/
def obsTrace (P : Params) (ops : List Op) : List (List (Nat × Nat)) :=
  (trace P init ops).map (fun out => out.map idPair)

/-- manager level: calls that are not routed to the join deliver nothing; the routed calls
satisfy `runOk` -/
def routedObs : List MOp → List (List (Nat × Nat)) → List (List (Nat × Nat))
  | m :: ms, o :: os => match route m with
    | some _ => o :: routedObs ms os
    | none => routedObs ms os
  | _, _ => []

def unroutedSilent : List MOp → List (List (Nat × Nat)) → Bool
  | m :: ms, o :: os => (match route m with
    | some _ => true
    | none => o.isEmpty) && unroutedSilent ms os
  | [], [] => true
  | _, _ => false

def mgrOk (P : Params) (ms : List MOp) (obs : List (List (Nat × Nat))) : Bool :=
  unroutedSilent ms obs && runOk P (ms.filterMap route) (routedObs ms obs)

def mgrObsTrace (P : Params) (ms : List MOp) : List (List (Nat × Nat)) :=
  (mgrTrace P init ms).map (fun out => out.map idPair)

end C14
