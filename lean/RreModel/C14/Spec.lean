import RreModel.C14.Model
/-
C14 — the property as decidable predicates over API-level observations: the id pairs of the
`Vec<JoinedEvent>` returned by every `process_left` / `process_right` / `update_watermark` call.
The same predicates are proved of the model (Theorems.lean) and evaluated on the implementation's
observations by the driver (oracle mode).
-/
namespace C14

/-- both key extractors returned the same key -/
def sameKey (l r : Ev) : Bool :=
  match l.key, r.key with
  | some a, some b => a == b
  | _, _ => false

/-- timestamps no further apart than the window (stated on `Nat`, independently of the model's
`i64` arithmetic) -/
def closeEnough (W : Nat) (l r : Ev) : Bool := decide (l.ts ≤ r.ts + W) && decide (r.ts ≤ l.ts + W)

/-- the documented join predicate: equal keys, |Δts| ≤ W, join condition true -/
def isMatch (P : Params) (l r : Ev) : Bool := sameKey l r && closeEnough P.W l r && P.cond l r

/-- the reference join of two event sequences: every matching (left, right) pair, once -/
def refJoin (P : Params) (ls rs : List Ev) : List (Ev × Ev) :=
  ls.flatMap (fun l => (rs.filter (fun r => isMatch P l r)).map (fun r => (l, r)))

def leftOf : Op → List Ev
  | .left e => [e]
  | _ => []

def rightOf : Op → List Ev
  | .right e => [e]
  | _ => []

/-- the left (right) events of a history, in arrival order -/
def lefts (ops : List Op) : List Ev := ops.flatMap leftOf
def rights (ops : List Op) : List Ev := ops.flatMap rightOf

def wmOf : Op → List Int
  | .wm w => [w]
  | _ => []
def wms (ops : List Op) : List Int := ops.flatMap wmOf

/-- the observable identity of an emitted pair -/
def idPair (p : Ev × Ev) : Nat × Nat := (p.1.id, p.2.id)

/-- well-formedness: event ids are unique within each stream -/
def WF (ops : List Op) : Prop :=
  ((lefts ops).map (·.id)).Nodup ∧ ((rights ops).map (·.id)).Nodup

instance (ops : List Op) : Decidable (WF ops) := by unfold WF; exact inferInstance

/-- `x` is still in the bucket of its key -/
def buffered (b : Buf) (x : Ev) : Bool :=
  match x.key with
  | some k => (queue k b).contains x
  | none => false

/-- when `op` arrives, every earlier-arrived partner of its event is still buffered -/
def partnersBuffered (P : Params) (s : St) (ls rs : List Ev) : Op → Bool
  | .left e => rs.all (fun r => !isMatch P e r || buffered s.rbuf r)
  | .right e => ls.all (fun l => !isMatch P l e || buffered s.lbuf l)
  | .wm _ => true

/-- "no event is evicted before its partner arrives", along a run from state `s` in which
`ls` / `rs` have already arrived -/
def npeFrom (P : Params) : St → List Ev → List Ev → List Op → Bool
  | _, _, _, [] => true
  | s, ls, rs, op :: ops =>
    partnersBuffered P s ls rs op &&
      npeFrom P (step P s op).1 (ls ++ leftOf op) (rs ++ rightOf op) ops

def noPartnerEvicted (P : Params) (ops : List Op) : Bool := npeFrom P init [] [] ops

/-- an intrinsic sufficient condition: no watermark of the history ever makes an event of the
history expire (`w − ts ≤ W` throughout; in particular: no watermark calls at all) -/
def neverExpires (P : Params) (ops : List Op) : Bool :=
  (wms ops).all (fun w => (lefts ops ++ rights ops).all (fun e => !expired w P.W e))

def subsetB (a b : List (Nat × Nat)) : Bool := a.all (fun x => b.contains x)

/-- clause 1: everything emitted so far is in the reference join of what has arrived -/
def prefixSubset (P : Params) (pre : List Op) (obs : List (List (Nat × Nat))) : Bool :=
  subsetB obs.flatten ((refJoin P (lefts pre) (rights pre)).map idPair)

/-- clause 2: no pair was emitted twice -/
def prefixNodup (obs : List (List (Nat × Nat))) : Bool := decide obs.flatten.Nodup

/-- clause 3: while no partner was evicted, the reference join of what has arrived has been
emitted completely -/
def prefixComplete (P : Params) (pre : List Op) (obs : List (List (Nat × Nat))) : Bool :=
  !noPartnerEvicted P pre || subsetB ((refJoin P (lefts pre) (rights pre)).map idPair) obs.flatten

def prefixOk (P : Params) (pre : List Op) (obs : List (List (Nat × Nat))) : Bool :=
  prefixSubset P pre obs && prefixNodup obs && prefixComplete P pre obs

/-- what the call `op`, made in state `s` after `ls` / `rs` have arrived, owes: the arriving event
paired with every earlier-arrived matching partner that is still buffered -/
def owed (P : Params) (s : St) (ls rs : List Ev) : Op → List (Nat × Nat)
  | .left e => (rs.filter (fun r => isMatch P e r && buffered s.rbuf r)).map (fun r => (e.id, r.id))
  | .right e => (ls.filter (fun l => isMatch P l e && buffered s.lbuf l)).map (fun l => (l.id, e.id))
  | .wm _ => []

/-- clause 4 (per call; in force with eviction too, also after some *other* partner was evicted):
every call returns at least what it owes — a matching pair of which both events are buffered when
the second one arrives is emitted by that very call -/
def owedFrom (P : Params) : St → List Ev → List Ev → List Op → List (List (Nat × Nat)) → Bool
  | _, _, _, [], _ => true
  | s, ls, rs, op :: ops, o :: os =>
    subsetB (owed P s ls rs op) o &&
      owedFrom P (step P s op).1 (ls ++ leftOf op) (rs ++ rightOf op) ops os
  | _, _, _, _ :: _, [] => false

/-- whole-run oracle: one observation per call; after every call the three prefix clauses hold for
the calls made so far ("emitted so far = reference join of the arrived prefixes"); and every call
returns what it owes -/
def runOk (P : Params) (ops : List Op) (obs : List (List (Nat × Nat))) : Bool :=
  obs.length == ops.length &&
    (List.range (ops.length + 1)).all (fun n => prefixOk P (ops.take n) (obs.take n)) &&
    owedFrom P init [] [] ops obs

/-- the model's observation sequence -/
def obsTrace (P : Params) (ops : List Op) : List (List (Nat × Nat)) :=
  (trace P init ops).map (fun out => out.map idPair)

/-- manager level, for one registered join with routing `rt`: calls that are not routed to the
join deliver nothing; the routed calls satisfy `runOk` -/
def routedObsG {M : Type} (rt : M → Option Op) : List M → List (List (Nat × Nat)) → List (List (Nat × Nat))
  | m :: ms, o :: os => match rt m with
    | some _ => o :: routedObsG rt ms os
    | none => routedObsG rt ms os
  | _, _ => []

def unroutedSilentG {M : Type} (rt : M → Option Op) : List M → List (List (Nat × Nat)) → Bool
  | m :: ms, o :: os => (match rt m with
    | some _ => true
    | none => o.isEmpty) && unroutedSilentG rt ms os
  | [], [] => true
  | _, _ => false

def mgrOkG {M : Type} (rt : M → Option Op) (P : Params) (ms : List M) (obs : List (List (Nat × Nat))) : Bool :=
  unroutedSilentG rt ms obs && runOk P (ms.filterMap rt) (routedObsG rt ms obs)

/-- the single-join manager of the original check (`route`: streams left / right / other) -/
def routedObs : List MOp → List (List (Nat × Nat)) → List (List (Nat × Nat)) := routedObsG route
def unroutedSilent : List MOp → List (List (Nat × Nat)) → Bool := unroutedSilentG route
def mgrOk (P : Params) (ms : List MOp) (obs : List (List (Nat × Nat))) : Bool := mgrOkG route P ms obs

def mgrObsTrace (P : Params) (ms : List MOp) : List (List (Nat × Nat)) :=
  (mgrTrace P init ms).map (fun out => out.map idPair)

/-! ### several joins on one manager

Observation: per manager call (outer list), per registered join in registration order (inner
list), the id pairs that join's result handler received during the call. -/

/-- first column of a matrix of rows (`none` when a row is empty) -/
def heads {α : Type} : List (List α) → Option (List α)
  | [] => some []
  | [] :: _ => none
  | (x :: _) :: rows => (heads rows).map (x :: ·)

/-- the matrix without its first column -/
def tails {α : Type} : List (List α) → List (List α)
  | [] => []
  | [] :: rows => [] :: tails rows
  | (_ :: xs) :: rows => xs :: tails rows

/-- the history one join sees -/
def joinOps (j : JoinDef) (ms : List JOp) : List Op := ms.filterMap (routeJ j.l j.r)

/-- every call reports exactly one (possibly empty) batch per registered join, and **each join's
column** satisfies the single-join manager specification for **its own** reference join: the
history it is compared with consists of the events of its left stream as left events, of its
right stream as right events, and of the watermarks of both. -/
def multiOk : List JoinDef → List JOp → List (List (List (Nat × Nat))) → Bool
  | [], ms, obs => obs.length == ms.length && obs.all (·.isEmpty)
  | j :: js, ms, obs =>
    match heads obs with
    | some col => mgrOkG (routeJ j.l j.r) j.P ms col && multiOk js ms (tails obs)
    | none => false

def multiObsTrace (js : List JoinDef) (ms : List JOp) : List (List (List (Nat × Nat))) :=
  (multiTrace (js.map (fun j => (j, init))) ms).map (fun row => row.map (fun out => out.map idPair))

/-! ### joins that are unregistered and registered again on a live manager

A column (one join's batches) is cut at that join's control calls into *lives*: every life is a
run of a fresh join and must satisfy the single-join manager specification `mgrOkG` for the
reference join of what arrived **during that life**; while the join is not registered, and during
every control call, its handler receives nothing. -/

/-- `registered`, the current life so far (calls and batches, newest first), the remaining calls
and batches -/
def livesOk (i : Nat) (j : JoinDef) :
    Bool → List JOp → List (List (Nat × Nat)) → List COp → List (List (Nat × Nat)) → Bool
  | reg, so, sb, [], [] => !reg || mgrOkG (routeJ j.l j.r) j.P so.reverse sb.reverse
  | reg, so, sb, .op m :: cs, o :: os =>
    if reg then livesOk i j true (m :: so) (o :: sb) cs os
    else o.isEmpty && livesOk i j false [] [] cs os
  | reg, so, sb, .unreg k :: cs, o :: os =>
    o.isEmpty &&
      (if k = i then (!reg || mgrOkG (routeJ j.l j.r) j.P so.reverse sb.reverse) && livesOk i j false [] [] cs os
       else livesOk i j reg so sb cs os)
  | reg, so, sb, .reg k :: cs, o :: os =>
    o.isEmpty && (if k = i then livesOk i j true [] [] cs os else livesOk i j reg so sb cs os)
  | _, _, _, _, _ => false

/-- `multiOk` with control calls: one batch per registered join and call; every join's column is
fine life by life -/
def multiOkC : Nat → List JoinDef → List COp → List (List (List (Nat × Nat))) → Bool
  | _, [], cs, obs => obs.length == cs.length && obs.all (·.isEmpty)
  | i, j :: js, cs, obs =>
    match heads obs with
    | some col => livesOk i j true [] [] cs col && multiOkC (i + 1) js cs (tails obs)
    | none => false

def idxFrom {α : Type} : Nat → List α → List (Nat × α)
  | _, [] => []
  | i, x :: xs => (i, x) :: idxFrom (i + 1) xs

def multiObsTraceC (js : List JoinDef) (cs : List COp) : List (List (List (Nat × Nat))) :=
  (multiTraceC ((idxFrom 0 js).map (fun x => (x.1, x.2, some init))) cs).map
    (fun row => row.map (fun out => out.map idPair))

/-- the control calls of every join alternate unregister, register, … from the registered state -/
def ctlValid (i : Nat) : Bool → List COp → Bool
  | _, [] => true
  | reg, .op _ :: cs => ctlValid i reg cs
  | reg, .unreg k :: cs => if k = i then reg && ctlValid i false cs else ctlValid i reg cs
  | reg, .reg k :: cs => if k = i then !reg && ctlValid i true cs else ctlValid i reg cs

/-- the lives of the join with index `i` in a history: the routed calls made between one
(re-)registration of the join and its next unregistration (or the end of the history), oldest
life first; `reg` = registered now, `cur` = the calls of the current life so far, newest first.
(`register_join` of an id that is still registered — excluded by `ctlValid` — ends the current
life here as well.) -/
def livesOf (i : Nat) : Bool → List JOp → List COp → List (List JOp)
  | reg, cur, [] => if reg then [cur.reverse] else []
  | reg, cur, .op m :: cs => if reg then livesOf i true (m :: cur) cs else livesOf i false [] cs
  | reg, cur, .unreg k :: cs =>
    if k = i then (if reg then [cur.reverse] else []) ++ livesOf i false [] cs else livesOf i reg cur cs
  | reg, cur, .reg k :: cs =>
    if k = i then (if reg then [cur.reverse] else []) ++ livesOf i true [] cs else livesOf i reg cur cs

/-- well-formedness of a history with control calls, for the joins `js` numbered from `n`:
**within every life of every join**, event ids are unique within each stream the join consumes
(the same id may be used again in another life of the join) -/
def WFC (n : Nat) (js : List JoinDef) (cs : List COp) : Prop :=
  ∀ x ∈ idxFrom n js, ∀ life ∈ livesOf x.1 true [] cs, WF (joinOps x.2 life)

instance (n : Nat) (js : List JoinDef) (cs : List COp) : Decidable (WFC n js cs) := by
  unfold WFC; exact inferInstance

/-- the routed calls of a history with control calls (what the driver checks for unique ids) -/
def opOf : COp → Option JOp
  | .op m => some m
  | _ => none

def opsOf (cs : List COp) : List JOp := cs.filterMap opOf

/-! ### `clear()` and reuse

For the join with index `i`, `clear()` is its own `unregister_join(j<i>)`: its current life ends
there (and must satisfy the single-join specification), it must stay silent until it is registered
again, and the life that starts then is compared with the reference join of what arrives from
then on. -/

/-- a history with `clear()` calls as the join with index `i` sees it -/
def viewX (i : Nat) : XOp → COp
  | .ctl c => c
  | .clear => .unreg i

/-- `multiOkC` for histories with `clear()`: every join's column is fine life by life, where a
`clear()` ends the current life of **every** join -/
def multiOkX : Nat → List JoinDef → List XOp → List (List (List (Nat × Nat))) → Bool
  | _, [], xs, obs => obs.length == xs.length && obs.all (·.isEmpty)
  | i, j :: js, xs, obs =>
    match heads obs with
    | some col => livesOk i j true [] [] (xs.map (viewX i)) col && multiOkX (i + 1) js xs (tails obs)
    | none => false

def multiObsTraceX (js : List JoinDef) (xs : List XOp) : List (List (List (Nat × Nat))) :=
  (multiTraceX ((idxFrom 0 js).map (fun x => (x.1, x.2, some init))) xs).map
    (fun row => row.map (fun out => out.map idPair))

/-- the case grammar's rule with `clear()`: a join is never registered while it is registered
(`clear()` itself is allowed at any time and leaves every join unregistered) -/
def ctlValidX (i : Nat) : Bool → List XOp → Bool
  | _, [] => true
  | _, .clear :: xs => ctlValidX i false xs
  | reg, .ctl (.op _) :: xs => ctlValidX i reg xs
  | reg, .ctl (.unreg k) :: xs => if k = i then reg && ctlValidX i false xs else ctlValidX i reg xs
  | reg, .ctl (.reg k) :: xs => if k = i then !reg && ctlValidX i true xs else ctlValidX i reg xs

/-- well-formedness with `clear()`: ids unique per consumed stream within every life -/
def WFX (n : Nat) (js : List JoinDef) (xs : List XOp) : Prop :=
  ∀ x ∈ idxFrom n js, ∀ life ∈ livesOf x.1 true [] (xs.map (viewX x.1)), WF (joinOps x.2 life)

instance (n : Nat) (js : List JoinDef) (xs : List XOp) : Decidable (WFX n js xs) := by
  unfold WFX; exact inferInstance

/-- the routed calls of a history with `clear()` -/
def opOfX : XOp → Option JOp
  | .ctl c => opOf c
  | .clear => none

def opsOfX (xs : List XOp) : List JOp := xs.filterMap opOfX

end C14
