import RreModel.C14.Runs
/-
C14 — soundness without any hypothesis on the input (ids need not be unique): whatever a call
returns — including what the re-scan of `update_watermark` may return when the matched flags are
inconsistent — is a qualifying pair of buffered events, hence a pair of the reference join.
Only the structural part of the invariant is needed.
-/
namespace C14

/-- the flag-free part of `Inv` -/
structure Inv0 (s : St) (ls rs : List Ev) : Prop where
  kl : KeysNodup s.lbuf
  kr : KeysNodup s.rbuf
  subL : ∀ k, (queue k s.lbuf).Sublist ls
  subR : ∀ k, (queue k s.rbuf).Sublist rs
  keyL : ∀ k, ∀ x ∈ queue k s.lbuf, x.key = some k
  keyR : ∀ k, ∀ x ∈ queue k s.rbuf, x.key = some k

theorem inv0_init : Inv0 init [] [] := by
  refine ⟨List.nodup_nil, List.nodup_nil, ?_, ?_, ?_, ?_⟩ <;> intro k <;> simp [init, queue]

theorem sub_push {b : Buf} {all : List Ev} (h : ∀ k, (queue k b).Sublist all) (k : Nat) (e : Ev) :
    ∀ k', (queue k' (push k e b)).Sublist (all ++ [e]) := by
  intro k'
  simp only [queue_push]
  by_cases hk' : k' = k
  · subst hk'; simp only [if_true]
    exact List.Sublist.append (h _) (List.Sublist.refl _)
  · simp only [if_neg hk']; exact List.sublist_append_of_sublist_left (h k')

theorem key_push {b : Buf} (h : ∀ k, ∀ x ∈ queue k b, x.key = some k) {k : Nat} {e : Ev}
    (hk : e.key = some k) : ∀ k', ∀ x ∈ queue k' (push k e b), x.key = some k' := by
  intro k' x hx
  simp only [queue_push] at hx
  by_cases hk' : k' = k
  · subst hk'
    simp only [if_true, List.mem_append, List.mem_singleton] at hx
    rcases hx with hx | rfl
    · exact h _ x hx
    · exact hk
  · simp only [if_neg hk'] at hx; exact h k' x hx

theorem inv0_step {s : St} {ls rs : List Ev} (P : Params) (h : Inv0 s ls rs) (op : Op) :
    Inv0 (step P s op).1 (ls ++ leftOf op) (rs ++ rightOf op) := by
  cases op with
  | left e =>
    simp only [step, processLeft, leftOf, rightOf, List.append_nil]
    cases hk : e.key with
    | none =>
      exact ⟨h.kl, h.kr, fun k => List.sublist_append_of_sublist_left (h.subL k), h.subR, h.keyL, h.keyR⟩
    | some k =>
      exact ⟨keysNodup_push h.kl, h.kr, sub_push h.subL k e, h.subR, key_push h.keyL hk, h.keyR⟩
  | right e =>
    simp only [step, processRight, leftOf, rightOf, List.append_nil]
    cases hk : e.key with
    | none =>
      exact ⟨h.kl, h.kr, h.subL, fun k => List.sublist_append_of_sublist_left (h.subR k), h.keyL, h.keyR⟩
    | some k =>
      exact ⟨h.kl, keysNodup_push h.kr, h.subL, sub_push h.subR k e, h.keyL, key_push h.keyR hk⟩
  | wm w =>
    simp only [step, updateWatermark, leftOf, rightOf, List.append_nil]
    refine ⟨keysNodup_evictBuf h.kl, keysNodup_evictBuf h.kr, ?_, ?_, ?_, ?_⟩
    · intro k; simp only [queue_evictBuf h.kl]
      exact (List.dropWhile_sublist _).trans (h.subL k)
    · intro k; simp only [queue_evictBuf h.kr]
      exact (List.dropWhile_sublist _).trans (h.subR k)
    · intro k x hx; simp only [queue_evictBuf h.kl] at hx
      exact h.keyL k x ((List.dropWhile_sublist _).mem hx)
    · intro k x hx; simp only [queue_evictBuf h.kr] at hx
      exact h.keyR k x ((List.dropWhile_sublist _).mem hx)

theorem foldl_inv {α β} (I : β → Prop) (f : β → α → β) (l : List α) (b : β) (hb : I b)
    (hf : ∀ acc, I acc → ∀ a ∈ l, I (f acc a)) : I (l.foldl f b) := by
  induction l generalizing b with
  | nil => exact hb
  | cons a l ih =>
    rw [List.foldl_cons]
    exact ih _ (hf b hb a List.mem_cons_self) (fun acc ha x hx => hf acc ha x (List.mem_cons_of_mem _ hx))

/-- whatever the re-scan emits is a qualifying pair taken from a left bucket and the right
bucket of the same key -/
theorem rescan_sound (P : Params) (s : St) :
    ∀ p ∈ (rescan P s).2.2, ∃ kq ∈ s.lbuf, p.1 ∈ kq.2 ∧ p.2 ∈ queue kq.1 s.rbuf ∧
      qual P p.1 p.2 = true := by
  unfold rescan
  let I : Acc → Prop := fun acc => ∀ p ∈ acc.2.2, ∃ kq ∈ s.lbuf, p.1 ∈ kq.2 ∧
    p.2 ∈ queue kq.1 s.rbuf ∧ qual P p.1 p.2 = true
  refine foldl_inv I _ _ _ (by intro p hp; cases hp) ?_
  intro acc hacc kq hkq
  refine foldl_inv I _ _ _ hacc ?_
  intro acc hacc l hl
  refine foldl_inv I _ _ _ hacc ?_
  intro acc hacc r hr
  unfold rescanStep
  split
  · rename_i hc
    intro p hp
    simp only [List.mem_append, List.mem_singleton] at hp
    rcases hp with hp | rfl
    · exact hacc p hp
    · simp only [Bool.and_eq_true] at hc
      exact ⟨kq, hkq, hl, hr, hc.1⟩
  · exact hacc

/-- soundness of one call, for arbitrary input -/
theorem step_out_sound0 {P : Params} {s : St} {ls rs : List Ev} (h : Inv0 s ls rs) (op : Op) :
    ∀ p ∈ (step P s op).2, isMatch P p.1 p.2 = true ∧ p.1 ∈ ls ++ leftOf op ∧
      p.2 ∈ rs ++ rightOf op := by
  intro p hp
  cases op with
  | left e =>
    simp only [step, processLeft] at hp
    cases hk : e.key with
    | none => simp [hk] at hp
    | some k =>
      simp only [hk, List.mem_map, List.mem_filter] at hp
      obtain ⟨r, ⟨hr, hq⟩, rfl⟩ := hp
      refine ⟨?_, by simp [leftOf], by simp [rightOf, (h.subR k).mem hr]⟩
      rw [qual_isMatch hk (h.keyR k r hr)]; exact hq
  | right e =>
    simp only [step, processRight] at hp
    cases hk : e.key with
    | none => simp [hk] at hp
    | some k =>
      simp only [hk, List.mem_map, List.mem_filter] at hp
      obtain ⟨l, ⟨hl, hq⟩, rfl⟩ := hp
      refine ⟨?_, by simp [leftOf, (h.subL k).mem hl], by simp [rightOf]⟩
      rw [qual_isMatch (h.keyL k l hl) hk]; exact hq
  | wm w =>
    simp only [step, updateWatermark] at hp
    obtain ⟨kq, hkq, h1, h2, hq⟩ := rescan_sound P s p hp
    have hq1 : queue kq.1 s.lbuf = kq.2 := queue_of_mem h.kl (q := kq.2) hkq
    have h1' : p.1 ∈ queue kq.1 s.lbuf := hq1 ▸ h1
    refine ⟨?_, by simp [leftOf, (h.subL kq.1).mem h1'], by simp [rightOf, (h.subR kq.1).mem h2]⟩
    rw [qual_isMatch (h.keyL kq.1 p.1 h1') (h.keyR kq.1 p.2 h2)]; exact hq

theorem sound_from0 {P : Params} {s : St} {ls rs : List Ev} (h : Inv0 s ls rs) (ops : List Op) :
    ∀ p ∈ (trace P s ops).flatten, isMatch P p.1 p.2 = true ∧ p.1 ∈ ls ++ lefts ops ∧
      p.2 ∈ rs ++ rights ops := by
  induction ops generalizing s ls rs with
  | nil => intro p hp; simp [trace] at hp
  | cons op ops ih =>
    intro p hp
    simp only [trace, List.flatten_cons, List.mem_append] at hp
    rw [lefts_cons, rights_cons, ← List.append_assoc, ← List.append_assoc]
    rcases hp with hp | hp
    · obtain ⟨hm, h1, h2⟩ := step_out_sound0 h op p hp
      exact ⟨hm, List.mem_append_left _ h1, List.mem_append_left _ h2⟩
    · exact ih (inv0_step P h op) p hp

end C14
