import RreModel.C10.SpecLemmas
/-
C10 (part A) — property theorems for the undo-frame API of `Facts` (only; helper lemmas live in
Lemmas.lean / SpecLemmas.lean).  "Rolling back an undo frame restores every key to the value (or
absence) it had when that frame began, whatever nested frames were begun, committed or rolled
back in between."  All statements hold for every operation sequence of any length, every key,
every value and every enclosing frame stack.  (Part B — the search leaves the facts of a failed
query untouched — is in `RreModel/C10/SearchTheorems.lean`.)
-/
namespace C10

/-- **Frame theorem.** For every well-bracketed `inner` (every `begin` in it is closed in it by a
`commit` or a `rollback`; it closes nothing it did not open), running `begin; inner; rollback`
gives back *exactly* the starting state: the data of every key (value and type entry, present or
absent) and the enclosing frame stack — for every `s`, whatever frames enclose it. -/
theorem rollback_restores (inner : List Op) (hb : Bal inner) (s : FSt) :
    run s (.begin :: (inner ++ [.rollback])) = s := by
  rw [run_eq_grun]
  simp only [List.map_cons, List.map_append, List.map_nil, toG]
  exact grollback_restores _ (bal_toG hb) s

/-- The same, read off the data only. -/
theorem rollback_restores_data (inner : List Op) (hb : Bal inner) (s : FSt) (k : Nat) :
    (run s (.begin :: (inner ++ [.rollback]))).data k = s.data k := by
  rw [rollback_restores inner hb s]

/-- **Every sequence.** For *arbitrary* operation sequences (balanced or not, including commits
and rollbacks with no frame open) started with no frame open, the observations of the model
satisfy the observation-level spec `checkFrom` — in particular at every `rollback` that closes a
frame the store equals the store observed at the matching `begin`, every `commit` leaves the store
unchanged, and the frame depth is what begin/commit/rollback counting says.  `checkFrom` is the
predicate the driver evaluates on the implementation's observations. -/
theorem model_meets_spec (ks : List Nat) (ops : List Op) (d : Nat → Cell) :
    checkFrom [] (proj ks d) ops (trace ks ⟨d, []⟩ ops) = true := by
  have := trace_ok ks ops ⟨d, []⟩ [] (by simp [Chain])
  simpa using this

/-- `rollback_undo_frame` with no frame open changes nothing (so does `commit_undo_frame`). -/
theorem rollback_no_frame_noop (s : FSt) (h : s.frames = []) : step s .rollback = s := by
  obtain ⟨d, fr⟩ := s
  simp only at h
  subst h
  rfl

theorem commit_no_frame_noop (s : FSt) (h : s.frames = []) : step s .commit = s := by
  obtain ⟨d, fr⟩ := s
  simp only at h
  subst h
  rfl

/-- `commit_undo_frame` never changes the data. -/
theorem commit_keeps_data (s : FSt) : (step s .commit).data = s.data := by
  obtain ⟨d, fr⟩ := s
  match fr with
  | [] => rfl
  | [_] => rfl
  | _ :: _ :: _ => rfl

/-- `set_nested` records the *root* key with its whole previous cell before it touches anything —
whether or not the nested update then succeeds — so a rollback undoes it wholesale. -/
theorem set_nested_records_root (s : FSt) (k : Nat) (path : List Nat) (v : VLeaf) :
    (step (step s .begin) (.setNested k path v)).frames = [(k, s.data k)] :: s.frames := by
  obtain ⟨d, fr⟩ := s
  simp [step, toG, gstep, record, lookupF]

theorem set_nested_rollback (s : FSt) (k : Nat) (path : List Nat) (v : VLeaf) :
    run s [.begin, .setNested k path v, .rollback] = s :=
  rollback_restores [.setNested k path v] (.setNested k path v .nil) s

/-- a failed `set_nested` leaves the data untouched -/
theorem set_nested_error_keeps_data (s : FSt) (k : Nat) (path : List Nat) (v : VLeaf) (e : Err)
    (h : result s (.setNested k path v) = .err e) : (step s (.setNested k path v)).data = s.data := by
  obtain ⟨d, fr⟩ := s
  have hm : setNestedCell path v (d k) = d k := by
    simp only [result] at h
    unfold setNestedCell
    cases hr : setNestedRes (d k) path v with
    | ok c => simp [hr] at h
    | error _ => rfl
  funext k'
  cases fr with
  | nil => simp only [step, toG, gstep, record, upd, hm]; split <;> simp_all
  | cons f fs =>
    simp only [step, toG]
    rw [gstep_modify_frame]
    simp only [upd, hm]; split <;> simp_all

/-- **The pre-fix code violates the frame theorem** (F-C10a): with `commit_undo_frame` discarding
the frame, `begin; begin; set k0 := 1; commit; rollback` leaves `k0` set. -/
theorem discard_on_commit_counterexample :
    ∃ (inner : List Op), Bal inner ∧
      ((Op.begin :: (inner ++ [.rollback])).foldl stepDiscard ⟨fun _ => {}, []⟩).data 0
        ≠ (⟨fun _ => {}, []⟩ : FSt).data 0 :=
  ⟨[.begin, .set 0 (Val.int 1), .commit], .commit (.set 0 (Val.int 1) .nil) .nil, by decide⟩

/-! Non-vacuity: concrete nested histories meeting the hypotheses. -/

def exInner : List Op :=
  [.set 0 (Val.int 1), .begin, .setNested 1 [0] (.int 5), .begin, .remove 2, .rollback, .commit,
   .begin, .set 2 (Val.int 9), .commit, .remove 0]

def exStore : Nat → Cell := fun k =>
  if k = 1 then { val := some (.obj [(0, Val1.int 0)]), ty := true }
  else if k = 2 then { val := some (Val.int 7), ty := true } else {}

example : balancedFrom 0 exInner = true := by decide
example : Bal exInner :=
  .set _ _ (.commit (.setNested _ _ _ (.rollback (.remove _ .nil) .nil))
    (.commit (.set _ _ .nil) (.remove _ .nil)))
-- the inner sequence really changes the store …
example : (run ⟨exStore, []⟩ (.begin :: exInner)).data 1 = { val := some (.obj [(0, Val1.int 5)]), ty := true } := by decide
example : (run ⟨exStore, []⟩ (.begin :: exInner)).data 2 = { val := some (Val.int 9), ty := true } := by decide
-- … and the rollback puts everything back (instance of the theorem, checked by evaluation too)
example : (run ⟨exStore, []⟩ (.begin :: (exInner ++ [.rollback]))).data 1 = exStore 1 := by decide
-- error branches of set_nested are reached
example : result ⟨exStore, []⟩ (.setNested 0 [0] (.int 1)) = .err .fieldNotFound := by decide
example : result ⟨exStore, []⟩ (.setNested 2 [0] (.int 1)) = .err .typeMismatch := by decide
example : result ⟨exStore, []⟩ (.setNested 1 [1, 0] (.int 1)) = .err .fieldNotFound := by decide

/-! A key that holds a PRESENT null (or `{f0: null}`) is not an absent key: the rollback brings back exactly that cell
(seeded change C10-10: `None | Some(Value::Null) => remove`), and `set_nested` does not create a null / missing parent. -/
def exNullStore : Nat → Cell := fun k =>
  if k = 0 then { val := some Val.null, ty := true }
  else if k = 1 then { val := some (.obj [(0, .leaf .null)]), ty := true } else {}

example : exNullStore 0 ≠ ({} : Cell) := by decide
example : (run ⟨exNullStore, []⟩ [.begin, .remove 0]).data 0 = {} := by decide
example : (run ⟨exNullStore, []⟩ [.begin, .remove 0, .begin, .set 0 (Val.int 1), .commit, .rollback]).data 0
    = { val := some Val.null, ty := true } := by decide
example : result ⟨exNullStore, []⟩ (.setNested 0 [0] (.int 1)) = .err .typeMismatch := by decide
example : result ⟨exNullStore, []⟩ (.setNested 1 [0, 0] (.int 1)) = .err .typeMismatch := by decide
example : (run ⟨exNullStore, []⟩ [.setNested 1 [0] .null]).data 1 = exNullStore 1 := by decide
-- the merge keeps the first recorded value whatever the order in which keys were recorded (seeded change C10-11:
-- b=0; begin; set c; begin; set b=1; commit; set a; set b=2; rollback  ⇒  b = 0)
example : (run ⟨fun k => if k = 1 then { val := some (Val.int 0), ty := true } else {}, []⟩
    [.begin, .set 2 (Val.int 1), .begin, .set 1 (Val.int 1), .commit, .set 0 (Val.int 1), .set 1 (Val.int 2), .rollback]).data 1
    = { val := some (Val.int 0), ty := true } := by decide

end C10
