import RreModel.C10.Model
/-
C10 — helper lemmas.  The frame invariant `FrameOK d0 f d`: frame `f`, opened when the data was
`d0`, is a valid first-write log for the current data `d` — a recorded key carries its value at
`begin`, an unrecorded key still has that value.  `restore` of a valid frame gives back `d0`;
writes keep it valid; *merging* a valid inner frame into a valid parent keeps the parent valid
(which discarding does not).
-/
namespace C10

section Generic
variable {V : Type}

theorem grun_append (s : St V) (a b : List (GOp V)) : grun s (a ++ b) = grun (grun s a) b := by
  simp [grun, List.foldl_append]

theorem grun_cons (s : St V) (o : GOp V) (l : List (GOp V)) : grun s (o :: l) = grun (gstep s o) l := rfl

def FrameOK (d0 : Nat → V) (f : Frame V) (d : Nat → V) : Prop :=
  ∀ k, match lookupF f k with
       | some v => v = d0 k
       | none => d k = d0 k

theorem restore_ok (d0 : Nat → V) (f : Frame V) (d : Nat → V) (h : FrameOK d0 f d) :
    restore d f = d0 := by
  induction f generalizing d with
  | nil => funext k; simpa [FrameOK, lookupF, restore] using h k
  | cons e f ih =>
    simp only [restore]
    apply ih
    intro k
    have hk := h k
    simp only [lookupF] at hk
    cases hl : lookupF f k with
    | some v => simpa [hl] using hk
    | none =>
      simp only [hl] at hk ⊢
      by_cases hek : e.1 = k
      · simp [hek] at hk; simp [upd, hek, hk]
      · simp [hek] at hk; simp [upd, Ne.symm hek, hk]

theorem frameOK_nil (d : Nat → V) : FrameOK d [] d := by intro k; simp [lookupF]

theorem frameOK_write (d0 : Nat → V) (f : Frame V) (d : Nat → V) (k : Nat) (v : V)
    (h : FrameOK d0 f d) :
    FrameOK d0 (if (lookupF f k).isSome then f else (k, d k) :: f) (upd d k v) := by
  intro k'
  have hk' := h k'
  by_cases hs : (lookupF f k).isSome
  · simp only [hs, if_true]
    cases hl : lookupF f k' with
    | some w => simpa [hl] using hk'
    | none =>
      simp only [hl] at hk' ⊢
      have : k' ≠ k := by
        intro e; subst e; simp [hl] at hs
      simp [upd, this, hk']
  · rw [if_neg hs]
    simp only [lookupF]
    cases hl : lookupF f k' with
    | some w => simpa [hl] using hk'
    | none =>
      simp only [hl] at hk' ⊢
      by_cases e : k = k'
      · subst e; simp [hk']
      · simp [e, upd, Ne.symm e, hk']

theorem lookupF_append (g p : Frame V) (k : Nat) :
    lookupF (g ++ p) k = match lookupF p k with | some v => some v | none => lookupF g k := by
  induction g with
  | nil => cases h : lookupF p k <;> simp [lookupF, h]
  | cons e g ih =>
    simp only [List.cons_append, lookupF, ih]
    cases lookupF p k <;> simp

theorem lookupF_filter_none (g p : Frame V) (k : Nat) (hp : lookupF p k = none) :
    lookupF (g.filter (fun e => (lookupF p e.1).isNone)) k = lookupF g k := by
  induction g with
  | nil => rfl
  | cons e g ih =>
    by_cases he : (lookupF p e.1).isNone
    · simp [List.filter, he, lookupF, ih]
    · have hne : e.1 ≠ k := by intro h; subst h; simp [hp] at he
      simp [List.filter, he, lookupF, ih, hne]
      cases lookupF g k <;> rfl

/-- committing an inner frame `g` (valid w.r.t. the data `d1` at its begin) into its parent `p`
(valid w.r.t. `d0` for the data `d1`) gives a parent that is valid for the current data. -/
theorem frameOK_merge (d0 d1 d : Nat → V) (g p : Frame V)
    (hp : FrameOK d0 p d1) (hg : FrameOK d1 g d) : FrameOK d0 (merge g p) d := by
  intro k
  have hpk := hp k; have hgk := hg k
  simp only [merge, lookupF_append]
  cases hl : lookupF p k with
  | some v => simpa [hl] using hpk
  | none =>
    simp only [hl] at hpk ⊢
    rw [lookupF_filter_none g p k hl]
    cases hg' : lookupF g k with
    | some w => simp [hg'] at hgk ⊢; rw [hgk, hpk]
    | none => simp [hg'] at hgk ⊢; rw [hgk, hpk]

theorem gstep_modify_frame (d : Nat → V) (f : Frame V) (fs : List (Frame V)) (k : Nat) (g : V → V) :
    gstep ⟨d, f :: fs⟩ (.modify k g) =
      ⟨upd d k (g (d k)), (if (lookupF f k).isSome then f else (k, d k) :: f) :: fs⟩ := by
  by_cases hs : (lookupF f k).isSome
  · simp [gstep, record, hs]
  · simp [gstep, record, hs]

/-- generic well-bracketed sequences -/
inductive GBal : List (GOp V) → Prop
  | nil : GBal []
  | modify (k f) {l} : GBal l → GBal (.modify k f :: l)
  | commit {a b} : GBal a → GBal b → GBal (.begin :: (a ++ .commit :: b))
  | rollback {a b} : GBal a → GBal b → GBal (.begin :: (a ++ .rollback :: b))

theorem GBal.append {a b : List (GOp V)} (ha : GBal a) (hb : GBal b) : GBal (a ++ b) := by
  induction ha with
  | nil => simpa using hb
  | modify k f _ ih => exact .modify k f ih
  | @commit x y hx _ _ ihy =>
    have : GOp.begin :: (x ++ .commit :: y) ++ b = .begin :: (x ++ .commit :: (y ++ b)) := by simp
    rw [this]; exact .commit hx ihy
  | @rollback x y hx _ _ ihy =>
    have : GOp.begin :: (x ++ .rollback :: y) ++ b = .begin :: (x ++ .rollback :: (y ++ b)) := by simp
    rw [this]; exact .rollback hx ihy

/-- Main lemma: a balanced sequence run under an open frame keeps the enclosing frames and keeps
the open frame a valid first-write log. -/
theorem gbal_preserves (ops : List (GOp V)) (hb : GBal ops) :
    ∀ (d0 d : Nat → V) (f : Frame V) (fs : List (Frame V)), FrameOK d0 f d →
      ∃ f' d', grun ⟨d, f :: fs⟩ ops = ⟨d', f' :: fs⟩ ∧ FrameOK d0 f' d' := by
  induction hb with
  | nil => intro d0 d f fs h; exact ⟨f, d, rfl, h⟩
  | modify k g _ ih =>
    intro d0 d f fs h
    rw [grun_cons, gstep_modify_frame]
    exact ih d0 _ _ fs (frameOK_write d0 f d k (g (d k)) h)
  | commit _ _ iha ihb =>
    intro d0 d f fs h
    rw [grun_cons, grun_append, grun_cons]
    have : gstep ⟨d, f :: fs⟩ (.begin : GOp V) = ⟨d, [] :: f :: fs⟩ := rfl
    rw [this]
    obtain ⟨g, d', hrun, hg⟩ := iha d d [] (f :: fs) (frameOK_nil d)
    rw [hrun]
    have : gstep ⟨d', g :: f :: fs⟩ (.commit : GOp V) = ⟨d', merge g f :: fs⟩ := rfl
    rw [this]
    exact ihb d0 d' _ fs (frameOK_merge d0 d d' g f h hg)
  | rollback _ _ iha ihb =>
    intro d0 d f fs h
    rw [grun_cons, grun_append, grun_cons]
    have : gstep ⟨d, f :: fs⟩ (.begin : GOp V) = ⟨d, [] :: f :: fs⟩ := rfl
    rw [this]
    obtain ⟨g, d', hrun, hg⟩ := iha d d [] (f :: fs) (frameOK_nil d)
    rw [hrun]
    have : gstep ⟨d', g :: f :: fs⟩ (.rollback : GOp V) = ⟨restore d' g, f :: fs⟩ := rfl
    rw [this, restore_ok d g d' hg]
    exact ihb d0 d f fs h

/-- generic form of the frame theorem -/
theorem grollback_restores (inner : List (GOp V)) (hb : GBal inner) (s : St V) :
    grun s (.begin :: (inner ++ [.rollback])) = s := by
  obtain ⟨d, fs⟩ := s
  rw [grun_cons, grun_append]
  have : gstep ⟨d, fs⟩ (.begin : GOp V) = ⟨d, [] :: fs⟩ := rfl
  rw [this]
  obtain ⟨g, d', hrun, hg⟩ := gbal_preserves inner hb d d [] fs (frameOK_nil d)
  rw [hrun]
  show gstep ⟨d', g :: fs⟩ .rollback = _
  simp [gstep, restore_ok d g d' hg]

/-- a balanced sequence followed by `commit` of the frame it ran in keeps the enclosing stack
(and the new parent stays a valid log): used by the search model, where a proven sub-goal
commits its frame. -/
theorem gbegin_commit_preserves (inner : List (GOp V)) (hb : GBal inner)
    (d0 d : Nat → V) (f : Frame V) (fs : List (Frame V)) (h : FrameOK d0 f d) :
    ∃ f' d', grun ⟨d, f :: fs⟩ (.begin :: (inner ++ [.commit])) = ⟨d', f' :: fs⟩ ∧ FrameOK d0 f' d' :=
  gbal_preserves _ (by simpa using GBal.commit hb GBal.nil) d0 d f fs h

end Generic

/-! ### from `Facts` operations to generic operations -/

theorem run_eq_grun (s : FSt) (ops : List Op) : run s ops = grun s (ops.map toG) := by
  induction ops generalizing s with
  | nil => rfl
  | cons o l ih => simp only [run, List.foldl_cons, List.map_cons, grun] at ih ⊢; exact ih _

theorem bal_toG {ops : List Op} (h : Bal ops) : GBal (ops.map toG) := by
  induction h with
  | nil => exact .nil
  | set k v _ ih => exact .modify _ _ ih
  | setNested k p v _ ih => exact .modify _ _ ih
  | remove k _ ih => exact .modify _ _ ih
  | commit _ _ iha ihb =>
    simp only [List.map_cons, List.map_append, toG]
    exact .commit iha ihb
  | rollback _ _ iha ihb =>
    simp only [List.map_cons, List.map_append, toG]
    exact .rollback iha ihb

end C10

/-! ### The frame-stack invariant for *arbitrary* operation sequences

`Chain snaps frames d`: the i-th open frame is a valid first-write log from the data at its
`begin` (`snaps[i]`) to the data at the `begin` of the next inner frame (the current data `d` for
the innermost).  Every operation preserves it; `rollback` returns exactly `snaps[0]`. -/
namespace C10
section Generic
variable {V : Type}

def Chain : List (Nat → V) → List (Frame V) → (Nat → V) → Prop
  | [], [], _ => True
  | d0 :: ds, f :: fs, d => FrameOK d0 f d ∧ Chain ds fs d0
  | [], _ :: _, _ => False
  | _ :: _, [], _ => False

theorem chain_length {snaps : List (Nat → V)} {fr : List (Frame V)} {d : Nat → V}
    (h : Chain snaps fr d) : snaps.length = fr.length := by
  induction snaps generalizing fr d with
  | nil => cases fr with | nil => rfl | cons _ _ => exact absurd h (by simp [Chain])
  | cons d0 ds ih =>
    cases fr with
    | nil => exact absurd h (by simp [Chain])
    | cons f fs => simp only [Chain] at h; simp [ih h.2]

theorem chain_begin {snaps : List (Nat → V)} {fr : List (Frame V)} {d : Nat → V}
    (h : Chain snaps fr d) : Chain (d :: snaps) ([] :: fr) d := ⟨frameOK_nil d, h⟩

theorem chain_modify {snaps : List (Nat → V)} {fr : List (Frame V)} {d : Nat → V}
    (h : Chain snaps fr d) (k : Nat) (g : V → V) :
    (gstep ⟨d, fr⟩ (.modify k g)).data = upd d k (g (d k)) ∧
    Chain snaps (gstep ⟨d, fr⟩ (.modify k g)).frames (upd d k (g (d k))) := by
  cases fr with
  | nil =>
    cases snaps with
    | nil => simp [gstep, record, Chain]
    | cons _ _ => exact absurd h (by simp [Chain])
  | cons f fs =>
    cases snaps with
    | nil => exact absurd h (by simp [Chain])
    | cons d0 ds =>
      rw [gstep_modify_frame]
      exact ⟨rfl, frameOK_write d0 f d k (g (d k)) h.1, h.2⟩

theorem chain_commit {snaps : List (Nat → V)} {fr : List (Frame V)} {d : Nat → V}
    (h : Chain snaps fr d) :
    (gstep ⟨d, fr⟩ .commit).data = d ∧ Chain snaps.tail (gstep ⟨d, fr⟩ .commit).frames d := by
  match snaps, fr, h with
  | [], [], _ => simp [gstep, Chain]
  | [d0], [f], h => simp [gstep, Chain]
  | d1 :: d0 :: ds, g :: p :: fs, h =>
    simp only [Chain] at h
    exact ⟨rfl, frameOK_merge d0 d1 d g p h.2.1 h.1, h.2.2⟩
  | [_], _ :: _ :: _, h => simp [Chain] at h
  | _ :: _ :: _, [_], h => simp [Chain] at h

theorem chain_rollback {d0 : Nat → V} {ds : List (Nat → V)} {f : Frame V} {fs : List (Frame V)}
    {d : Nat → V} (h : Chain (d0 :: ds) (f :: fs) d) :
    gstep ⟨d, f :: fs⟩ .rollback = ⟨d0, fs⟩ ∧ Chain ds fs d0 := by
  simp only [Chain] at h
  exact ⟨by simp [gstep, restore_ok d0 f d h.1], h.2⟩

end Generic
end C10
