import RreModel.C10.Lemmas
import RreModel.C10.Spec
/-
C10 — the model's observations satisfy the observation-level spec `checkFrom`, for every
operation sequence (balanced or not), from every state whose open frames are valid logs.
-/
namespace C10

theorem proj_upd (ks : List Nat) (d : Nat → Cell) (k : Nat) (f : Cell → Cell) :
    proj ks (upd d k (f (d k))) = (proj ks d).map (fun e => if e.1 = k then (e.1, f e.2) else e) := by
  induction ks with
  | nil => rfl
  | cons a ks ih =>
    simp only [proj, List.map_cons, List.map_map] at ih ⊢
    rw [ih]
    by_cases h : a = k
    · subst h; simp [upd]
    · simp [upd, h]

theorem proj_find (ks : List Nat) (d : Nat → Cell) (k : Nat) (e : Nat × Cell)
    (h : (proj ks d).find? (fun e => e.1 == k) = some e) : e = (k, d k) := by
  induction ks with
  | nil => simp [proj] at h
  | cons a ks ih =>
    simp only [proj, List.map_cons, List.find?_cons] at h ih
    by_cases ha : a = k
    · subst ha; simp at h; exact h.symm
    · have : (a == k) = false := by simpa using ha
      simp only [this] at h
      exact ih h

theorem result_eq_resOfCell (s : FSt) (op : Op) (k : Nat) (hk : opKey op = some k) :
    result s op = resOfCell op (s.data k) := by
  cases op <;> simp [opKey] at hk <;> subst hk <;> first | rfl | simp [result, resOfCell]

theorem expectRes_model (ks : List Nat) (s : FSt) (op : Op) :
    expectRes op (proj ks s.data) (result s op) = true := by
  unfold expectRes
  cases hk : opKey op with
  | none => cases op <;> simp [opKey] at hk <;> simp [result]
  | some k =>
    simp only
    cases hf : (proj ks s.data).find? (fun e => e.1 == k) with
    | none => rfl
    | some e =>
      have := proj_find ks s.data k e hf
      subst this
      simp [result_eq_resOfCell s op k hk]

theorem trace_ok (ks : List Nat) (ops : List Op) :
    ∀ (s : FSt) (snaps : List (Nat → Cell)), Chain snaps s.frames s.data →
      checkFrom (snaps.map (proj ks)) (proj ks s.data) ops (trace ks s ops) = true := by
  induction ops with
  | nil => intro s snaps _; simp [trace, checkFrom]
  | cons op ops ih =>
    intro s snaps hc
    obtain ⟨d, fr⟩ := s
    have hlen := chain_length hc
    simp only [trace, checkFrom, Bool.and_eq_true]
    cases op with
    | begin =>
      have hs : step ⟨d, fr⟩ .begin = ⟨d, [] :: fr⟩ := rfl
      refine ⟨?_, ?_⟩
      · simp [stepOk, obsOf, hs, hlen]
      · have := ih ⟨d, [] :: fr⟩ (d :: snaps) (chain_begin hc)
        simpa [nextStack, obsOf, hs] using this
    | commit =>
      have hcm := chain_commit hc
      have hl2 := chain_length hcm.2
      have hd : (step ⟨d, fr⟩ .commit).data = d := hcm.1
      refine ⟨?_, ?_⟩
      · simp only [stepOk, obsOf, hd, List.length_tail, List.length_map, Bool.and_eq_true, beq_iff_eq, true_and]
        show (gstep ⟨d, fr⟩ .commit).frames.length = _
        rw [← hl2]; simp
      · have := ih (step ⟨d, fr⟩ .commit) snaps.tail (by rw [hd]; exact hcm.2)
        rw [hd] at this
        simpa [nextStack, obsOf, hd, List.map_tail] using this
    | rollback =>
      cases snaps with
      | nil =>
        cases fr with
        | cons _ _ => exact absurd hc (by simp [Chain])
        | nil =>
          have hs : step ⟨d, []⟩ .rollback = ⟨d, []⟩ := rfl
          refine ⟨by simp [stepOk, obsOf, hs], ?_⟩
          have := ih ⟨d, []⟩ [] hc
          simpa [nextStack, obsOf, hs] using this
      | cons d0 ds =>
        cases fr with
        | nil => exact absurd hc (by simp [Chain])
        | cons f fs =>
          have hr := chain_rollback hc
          have hs : step ⟨d, f :: fs⟩ .rollback = ⟨d0, fs⟩ := hr.1
          have hl2 := chain_length hr.2
          refine ⟨by simp [stepOk, obsOf, hs, hl2], ?_⟩
          have := ih ⟨d0, fs⟩ ds hr.2
          simpa [nextStack, obsOf, hs] using this
    | set k v =>
      have hm := chain_modify hc k (fun c => { c with val := some v })
      have hd : (step ⟨d, fr⟩ (.set k v)).data = _ := hm.1
      have hfl := chain_length hm.2
      refine ⟨?_, ?_⟩
      · have hres := expectRes_model ks ⟨d, fr⟩ (.set k v)
        simp only [stepOk, obsOf, hd, expectCells, toG, Bool.and_eq_true, beq_iff_eq,
          List.length_map]
        exact ⟨⟨proj_upd ks d k (fun c => { c with val := some v }), hfl.symm⟩, hres⟩
      · have := ih (step ⟨d, fr⟩ (.set k v)) snaps (by rw [hd]; exact hm.2)
        simpa [nextStack, obsOf] using this
    | setNested k p v =>
      have hm := chain_modify hc k (setNestedCell p v)
      have hd : (step ⟨d, fr⟩ (.setNested k p v)).data = _ := hm.1
      have hfl := chain_length hm.2
      refine ⟨?_, ?_⟩
      · have hres := expectRes_model ks ⟨d, fr⟩ (.setNested k p v)
        simp only [stepOk, obsOf, hd, proj_upd, expectCells, toG, Bool.and_eq_true, beq_iff_eq,
          List.length_map, true_and]
        exact ⟨hfl.symm, hres⟩
      · have := ih (step ⟨d, fr⟩ (.setNested k p v)) snaps (by rw [hd]; exact hm.2)
        simpa [nextStack, obsOf] using this
    | remove k =>
      have hm := chain_modify hc k (fun _ => { val := none, ty := false })
      have hd : (step ⟨d, fr⟩ (.remove k)).data = _ := hm.1
      have hfl := chain_length hm.2
      refine ⟨?_, ?_⟩
      · have hres := expectRes_model ks ⟨d, fr⟩ (.remove k)
        simp only [stepOk, obsOf, hd, expectCells, toG, Bool.and_eq_true, beq_iff_eq,
          List.length_map]
        exact ⟨⟨proj_upd ks d k (fun _ => { val := none, ty := false }), hfl.symm⟩, hres⟩
      · have := ih (step ⟨d, fr⟩ (.remove k)) snaps (by rw [hd]; exact hm.2)
        simpa [nextStack, obsOf] using this

end C10
