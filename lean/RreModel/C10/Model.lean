/-
C10 (part A) — model of the undo-frame API of `src/engine/facts.rs`:
`begin_undo_frame`, `commit_undo_frame`, `rollback_undo_frame`, `record_undo_for_key`, and the
three mutators that record: `set`, `set_nested`, `remove`.

The store is a total map `Nat → V` from top-level key to a *cell* (for `Facts`: the pair
(value in `data`, entry in `fact_types`), both optional) — a `HashMap` lookup is a function from
keys; nothing here depends on iteration order.  The frame stack is a list (head = innermost
frame); a frame is a list of `(key, previous cell)` (head = most recently recorded; the Rust
`Vec<UndoEntry>` is this list reversed, `rollback` walks it newest-first).

The generic part (`St V`, `GOp V`) is reused by the search model of C09/C10-B: every mutator of
`Facts` that records is "record the top-level key, then replace its cell by a function of the
old cell" (`GOp.modify`).

The model follows the code *after* fix F-C10a: `commit_undo_frame` merges the committed frame
into its parent (first write wins) instead of discarding it.  `stepDiscard` is the pre-fix
behaviour, kept only for the counterexample theorem.
-/
namespace C10

/-! ## Generic undo-log store -/

abbrev Frame (V : Type) := List (Nat × V)

structure St (V : Type) where
  data : Nat → V
  frames : List (Frame V)

inductive GOp (V : Type) where
  | begin
  | commit
  | rollback
  /-- record key `k` in the innermost frame (if any, once), then `data k := f (data k)` -/
  | modify (k : Nat) (f : V → V)

section Generic
variable {V : Type}

def upd (d : Nat → V) (k : Nat) (v : V) : Nat → V := fun k' => if k' = k then v else d k'

/-- the *oldest* entry for `k` in a frame: the one `restore` applies last, hence the one that wins.
(The Rust code records a key at most once per frame, so there it is the only one.) -/
def lookupF : Frame V → Nat → Option V
  | [], _ => none
  | e :: f, k =>
    match lookupF f k with
    | some v => some v
    | none => if e.1 = k then some e.2 else none

/-- `record_undo_for_key`: no frame → nothing; key already in the innermost frame → nothing;
otherwise push (key, current cell). -/
def record (k : Nat) (s : St V) : St V :=
  match s.frames with
  | [] => s
  | f :: fs => if (lookupF f k).isSome then s else { s with frames := ((k, s.data k) :: f) :: fs }

/-- the loop of `rollback_undo_frame` (`frame.into_iter().rev()` = newest entry first) -/
def restore (d : Nat → V) : Frame V → (Nat → V)
  | [] => d
  | e :: f => restore (upd d e.1 e.2) f

/-- fixed `commit_undo_frame`: entries of the committed frame `g` whose key the parent `p` has not
recorded yet are appended to the parent (they are newer than everything in `p`). -/
def merge (g p : Frame V) : Frame V := (g.filter (fun e => (lookupF p e.1).isNone)) ++ p

def gstep (s : St V) : GOp V → St V
  | .begin => { s with frames := [] :: s.frames }
  | .commit =>
    match s.frames with
    | [] => s
    | [_] => { s with frames := [] }
    | g :: p :: fs => { s with frames := merge g p :: fs }
  | .rollback =>
    match s.frames with
    | [] => s
    | f :: fs => { data := restore s.data f, frames := fs }
  | .modify k f => let s' := record k s; { s' with data := upd s'.data k (f (s'.data k)) }

def grun (s : St V) (ops : List (GOp V)) : St V := ops.foldl gstep s

/-- pre-fix `commit_undo_frame` (`frames.pop()`): the committed frame is thrown away -/
def gstepDiscard (s : St V) : GOp V → St V
  | .commit => match s.frames with | [] => s | _ :: fs => { s with frames := fs }
  | o => gstep s o

end Generic

/-! ## `Facts` instance -/

/-- non-container values of `types::Value`; floats are carried as their bit pattern, strings /
expressions as text.  `null`, `false`, `0`, `""` are ordinary PRESENT values: a key that holds one of
them is not absent (`Cell.val = some …` versus `none`). -/
inductive VScalar where
  | null
  | bool (b : Bool)
  | int (n : Int)
  | num (bits : Nat)
  | str (s : String)
  | expr (s : String)
deriving Repr, DecidableEq, Inhabited

/-- values that are not objects (`set_nested_in_value` answers `TypeMismatch` on all of them): a
scalar or an array of scalars (possibly empty) -/
inductive VLeaf where
  | sc (s : VScalar)
  | arr (xs : List VScalar)
deriving Repr, DecidableEq, Inhabited

/-- one level of `Value::Object`: a non-object or an object whose members are of type `α`; the
members are kept as an association list sorted by field (the canonical form in which objects are
printed and compared) -/
inductive VNode (α : Type) where
  | leaf (l : VLeaf)
  | obj (fields : List (Nat × α))
deriving Repr, DecidableEq, Inhabited

/-- values: non-objects and objects nested up to two levels (`{f: {g: leaf}}`) — enough to reach
every branch of `set_nested` / `set_nested_in_value` (success at either level, `FieldNotFound` on the
root, `FieldNotFound` on an inner field, `TypeMismatch` on a non-object parent of every kind: null,
scalar, array) and every "looks like nothing" value: null, false, 0, "", [], {}, {f: null}. -/
abbrev Val1 := VNode VLeaf
abbrev Val := VNode Val1

def VLeaf.null : VLeaf := .sc .null
def VLeaf.int (n : Int) : VLeaf := .sc (.int n)
def Val1.int (n : Int) : Val1 := .leaf (.int n)
def Val.null : Val := .leaf .null
def Val.int (n : Int) : Val := .leaf (.int n)

/-- one top-level key: its entry in `data` and whether it has an entry in `fact_types` -/
structure Cell where
  val : Option Val := none
  ty : Bool := false
deriving Repr, DecidableEq, Inhabited

inductive Err where
  | fieldNotFound | typeMismatch
deriving Repr, DecidableEq

inductive Op where
  | begin | commit | rollback
  /-- `facts.set(k, v)` -/
  | set (k : Nat) (v : Val)
  /-- `facts.set_nested("k.p1.p2…", v)` with a non-object `v`; `path = []` is the one-component path -/
  | setNested (k : Nat) (path : List Nat) (v : VLeaf)
  /-- `facts.remove(k)` -/
  | remove (k : Nat)
deriving Repr, DecidableEq

/-- `HashMap::insert` on an object, kept as an association list sorted by field (the canonical
form in which objects are printed and compared) -/
def insertField {α : Type} : List (Nat × α) → Nat → α → List (Nat × α)
  | [], f, v => [(f, v)]
  | e :: es, f, v =>
    if f < e.1 then (f, v) :: e :: es
    else if f = e.1 then (f, v) :: es
    else e :: insertField es f v

/-- `HashMap::get_mut` on an object -/
def lookupField {α : Type} : List (Nat × α) → Nat → Option α
  | [], _ => none
  | e :: es, f => if e.1 = f then some e.2 else lookupField es f

/-- `set_nested_in_value` on a non-object: the empty path returns `Ok(())` untouched, any other path
is a `TypeMismatch` (both the `path.len() == 1` and the "continue navigating" arm) -/
def leafSetIn (cur : VLeaf) (path : List Nat) (_ : VLeaf) : Except Err VLeaf :=
  match path with
  | [] => .ok cur
  | _ :: _ => .error .typeMismatch

/-- one level of `set_nested_in_value` (`child` is the same function one level down, `inj` embeds
the written value at this level): empty path → `Ok`; non-object → `TypeMismatch` (null, scalars and
arrays alike — a null / empty parent is NOT created on the way); last component → `insert`;
otherwise `get_mut` the member (absent → `FieldNotFound`) and recurse. -/
def VNode.setIn {α : Type} (child : α → List Nat → VLeaf → Except Err α) (inj : VLeaf → α) :
    VNode α → List Nat → VLeaf → Except Err (VNode α)
  | c, [], _ => .ok c
  | .leaf _, _ :: _, _ => .error .typeMismatch
  | .obj fs, [f], v => .ok (.obj (insertField fs f (inj v)))
  | .obj fs, f :: g :: p, v =>
    match lookupField fs f with
    | none => .error .fieldNotFound
    | some c =>
      match child c (g :: p) v with
      | .ok c' => .ok (.obj (insertField fs f c'))
      | .error e => .error e

/-- `set_nested_in_value` on a value, for a non-empty remaining path -/
def setIn (cur : Val) (path : List Nat) (v : VLeaf) : Except Err Val :=
  VNode.setIn (VNode.setIn leafSetIn id) .leaf cur path v

/-- result of `set_nested` on the current cell -/
def setNestedRes (c : Cell) (path : List Nat) (v : VLeaf) : Except Err Cell :=
  match path with
  | [] => .ok { c with val := some (.leaf v) }      -- `parts.len() == 1`: plain insert
  | _ :: _ =>
    match c.val with
    | none => .error .fieldNotFound                   -- root key missing
    | some root =>
      match setIn root path v with
      | .ok r => .ok { c with val := some r }
      | .error e => .error e

def setNestedCell (path : List Nat) (v : VLeaf) (c : Cell) : Cell :=
  match setNestedRes c path v with
  | .ok c' => c'
  | .error _ => c

/-- every recording mutator is a `modify` of the top-level key; note that `set_nested` records the
root key *before* it knows whether the update will succeed. -/
def toG : Op → GOp Cell
  | .begin => .begin
  | .commit => .commit
  | .rollback => .rollback
  | .set k v => .modify k (fun c => { c with val := some v })            -- `fact_types` untouched
  | .setNested k path v => .modify k (setNestedCell path v)
  | .remove k => .modify k (fun _ => { val := none, ty := false })

abbrev FSt := St Cell

def step (s : FSt) (o : Op) : FSt := gstep s (toG o)
def run (s : FSt) (ops : List Op) : FSt := ops.foldl step s

/-- pre-fix behaviour (commit discards), for the counterexample only -/
def stepDiscard (s : FSt) (o : Op) : FSt := gstepDiscard s (toG o)

/-- API-level result of one call: `ok`, the error kind of `set_nested`, or for `remove` whether a
value was returned -/
inductive Res where
  | ok | err (e : Err) | removed (some : Bool)
deriving Repr, DecidableEq

def result (s : FSt) : Op → Res
  | .setNested k path v =>
    match setNestedRes (s.data k) path v with
    | .ok _ => .ok
    | .error e => .err e
  | .remove k => .removed (s.data k).val.isSome
  | _ => .ok

/-- well-bracketed operation sequences: every `begin` is closed, inside the sequence, by a
`commit` or a `rollback`, and nothing closes a frame that was not opened inside. -/
inductive Bal : List Op → Prop
  | nil : Bal []
  | set (k v) {l} : Bal l → Bal (.set k v :: l)
  | setNested (k p v) {l} : Bal l → Bal (.setNested k p v :: l)
  | remove (k) {l} : Bal l → Bal (.remove k :: l)
  | commit {a b} : Bal a → Bal b → Bal (.begin :: (a ++ .commit :: b))
  | rollback {a b} : Bal a → Bal b → Bal (.begin :: (a ++ .rollback :: b))

/-- executable well-bracketedness check (depth counter never negative, ends at 0) -/
def balancedFrom : Nat → List Op → Bool
  | d, [] => d == 0
  | d, .begin :: l => balancedFrom (d + 1) l
  | d, .commit :: l => d > 0 && balancedFrom (d - 1) l
  | d, .rollback :: l => d > 0 && balancedFrom (d - 1) l
  | d, _ :: l => balancedFrom d l

end C10
