/-
C10 (part A) — model of the undo-frame API of `src/engine/facts.rs`:
`begin_undo_frame`, `commit_undo_frame`, `rollback_undo_frame`, `record_undo_for_key`, and the
three mutators that record: `set`, `set_nested`, `remove`.

The store is a total map `Nat → V` from top-level key to a *cell* (for `Facts`: the pair
(value in `data`, entry in `fact_types`), both optional) — a `HashMap` lookup is a function from
keys; nothing here depends on iteration order.  The frame stack is a list (head = innermost
frame); a frame is a list of `(key, previous cell)` (head = most recently recorded; the Rust
`Vec<UndoEntry>` is this list reversed, `rollback` walks it newest-first).

The generic part (`St V`, `GOp V`) is reused by the search model of C09/C10-B: every mutator of
`Facts` that records is "record the top-level key, then replace its cell by a function of the
old cell" (`GOp.modify`).

The model follows the code *after* fix F-C10a: `commit_undo_frame` merges the committed frame
into its parent (first write wins) instead of discarding it.  `stepDiscard` is the pre-fix
behaviour, kept only for the counterexample theorem.
-/
namespace C10

/-! ## Generic undo-log store -/

abbrev Frame (V : Type) := List (Nat × V)

structure St (V : Type) where
  data : Nat → V
  frames : List (Frame V)

inductive GOp (V : Type) where
  | begin
  | commit
  | rollback
  /-- record key `k` in the innermost frame (if any, once), then `data k := f (data k)` -/
  | modify (k : Nat) (f : V → V)

section Generic
variable {V : Type}

def upd (d : Nat → V) (k : Nat) (v : V) : Nat → V := fun k' => if k' = k then v else d k'

/-- the *oldest* entry for `k` in a frame: the one `restore` applies last, hence the one that wins.
(The Rust code records a key at most once per frame, so there it is the only one.) -/
def lookupF : Frame V → Nat → Option V
  | [], _ => none
  | e :: f, k =>
    match lookupF f k with
    | some v => some v
    | none => if e.1 = k then some e.2 else none

/-- `record_undo_for_key`: no frame → nothing; key already in the innermost frame → nothing;
otherwise push (key, current cell). -/
def record (k : Nat) (s : St V) : St V :=
  match s.frames with
  | [] => s
  | f :: fs => if (lookupF f k).isSome then s else { s with frames := ((k, s.data k) :: f) :: fs }

/-- the loop of `rollback_undo_frame` (`frame.into_iter().rev()` = newest entry first) -/
def restore (d : Nat → V) : Frame V → (Nat → V)
  | [] => d
  | e :: f => restore (upd d e.1 e.2) f

/-- fixed `commit_undo_frame`: entries of the committed frame `g` whose key the parent `p` has not
recorded yet are appended to the parent (they are newer than everything in `p`). -/
def merge (g p : Frame V) : Frame V := (g.filter (fun e => (lookupF p e.1).isNone)) ++ p

def gstep (s : St V) : GOp V → St V
  | .begin => { s with frames := [] :: s.frames }
  | .commit =>
    match s.frames with
    | [] => s
    | [_] => { s with frames := [] }
    | g :: p :: fs => { s with frames := merge g p :: fs }
  | .rollback =>
    match s.frames with
    | [] => s
    | f :: fs => { data := restore s.data f, frames := fs }
  | .modify k f => let s' := record k s; { s' with data := upd s'.data k (f (s'.data k)) }

def grun (s : St V) (ops : List (GOp V)) : St V := ops.foldl gstep s

/-- pre-fix `commit_undo_frame` (`frames.pop()`): the committed frame is thrown away -/
def gstepDiscard (s : St V) : GOp V → St V
  | .commit => match s.frames with | [] => s | _ :: fs => { s with frames := fs }
  | o => gstep s o

end Generic

/-! ## `Facts` instance -/

/-- values: integers and one-level objects — enough to reach every branch of `set_nested` /
`set_nested_in_value` (success, `FieldNotFound` on the root, `FieldNotFound` on an inner field,
`TypeMismatch`). -/
inductive Val where
  | int (n : Int)
  | obj (fields : List (Nat × Int))
deriving Repr, DecidableEq, Inhabited

/-- one top-level key: its entry in `data` and whether it has an entry in `fact_types` -/
structure Cell where
  val : Option Val := none
  ty : Bool := false
deriving Repr, DecidableEq, Inhabited

inductive Err where
  | fieldNotFound | typeMismatch
deriving Repr, DecidableEq

inductive Op where
  | begin | commit | rollback
  /-- `facts.set(k, v)` -/
  | set (k : Nat) (v : Val)
  /-- `facts.set_nested("k.p1.p2…", Integer v)`; `path = []` is the one-component path -/
  | setNested (k : Nat) (path : List Nat) (v : Int)
  /-- `facts.remove(k)` -/
  | remove (k : Nat)
deriving Repr, DecidableEq

/-- `HashMap::insert` on an object, kept as an association list sorted by field (the canonical
form in which objects are printed and compared) -/
def insertField : List (Nat × Int) → Nat → Int → List (Nat × Int)
  | [], f, v => [(f, v)]
  | e :: es, f, v =>
    if f < e.1 then (f, v) :: e :: es
    else if f = e.1 then (f, v) :: es
    else e :: insertField es f v

/-- `set_nested_in_value` on a value, for a non-empty remaining path -/
def setIn (cur : Val) (path : List Nat) (v : Int) : Except Err Val :=
  match cur, path with
  | c, [] => .ok c
  | .obj fs, [f] => .ok (.obj (insertField fs f v))
  | .int _, [_] => .error .typeMismatch
  | .obj fs, f :: _ :: _ =>
    -- descend into field f: absent → FieldNotFound; present → it is an integer, and the
    -- recursive call on a non-object with a non-empty path is a TypeMismatch
    if fs.any (·.1 = f) then .error .typeMismatch else .error .fieldNotFound
  | .int _, _ :: _ :: _ => .error .typeMismatch

/-- result of `set_nested` on the current cell -/
def setNestedRes (c : Cell) (path : List Nat) (v : Int) : Except Err Cell :=
  match path with
  | [] => .ok { c with val := some (.int v) }       -- `parts.len() == 1`: plain insert
  | _ :: _ =>
    match c.val with
    | none => .error .fieldNotFound                   -- root key missing
    | some root =>
      match setIn root path v with
      | .ok r => .ok { c with val := some r }
      | .error e => .error e

def setNestedCell (path : List Nat) (v : Int) (c : Cell) : Cell :=
  match setNestedRes c path v with
  | .ok c' => c'
  | .error _ => c

/-- every recording mutator is a `modify` of the top-level key; note that `set_nested` records the
root key *before* it knows whether the update will succeed. -/
def toG : Op → GOp Cell
  | .begin => .begin
  | .commit => .commit
  | .rollback => .rollback
  | .set k v => .modify k (fun c => { c with val := some v })            -- `fact_types` untouched
  | .setNested k path v => .modify k (setNestedCell path v)
  | .remove k => .modify k (fun _ => { val := none, ty := false })

abbrev FSt := St Cell

def step (s : FSt) (o : Op) : FSt := gstep s (toG o)
def run (s : FSt) (ops : List Op) : FSt := ops.foldl step s

/-- pre-fix behaviour (commit discards), for the counterexample only -/
def stepDiscard (s : FSt) (o : Op) : FSt := gstepDiscard s (toG o)

/-- API-level result of one call: `ok`, the error kind of `set_nested`, or for `remove` whether a
value was returned -/
inductive Res where
  | ok | err (e : Err) | removed (some : Bool)
deriving Repr, DecidableEq

def result (s : FSt) : Op → Res
  | .setNested k path v =>
    match setNestedRes (s.data k) path v with
    | .ok _ => .ok
    | .error e => .err e
  | .remove k => .removed (s.data k).val.isSome
  | _ => .ok

/-- well-bracketed operation sequences: every `begin` is closed, inside the sequence, by a
`commit` or a `rollback`, and nothing closes a frame that was not opened inside. -/
inductive Bal : List Op → Prop
  | nil : Bal []
  | set (k v) {l} : Bal l → Bal (.set k v :: l)
  | setNested (k p v) {l} : Bal l → Bal (.setNested k p v :: l)
  | remove (k) {l} : Bal l → Bal (.remove k :: l)
  | commit {a b} : Bal a → Bal b → Bal (.begin :: (a ++ .commit :: b))
  | rollback {a b} : Bal a → Bal b → Bal (.begin :: (a ++ .rollback :: b))

/-- executable well-bracketedness check (depth counter never negative, ends at 0) -/
def balancedFrom : Nat → List Op → Bool
  | d, [] => d == 0
  | d, .begin :: l => balancedFrom (d + 1) l
  | d, .commit :: l => d > 0 && balancedFrom (d - 1) l
  | d, .rollback :: l => d > 0 && balancedFrom (d - 1) l
  | d, _ :: l => balancedFrom d l

end C10
