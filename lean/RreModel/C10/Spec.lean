import RreModel.C10.Model
/-
C10 (part A) — the property as a decidable predicate over API-level observations.

After every call the harness observes: the call's result, the undo-frame depth (hook
`verif_undo_depth`) and the cells of the observed keys (`get_all_facts` / `snapshot`).
`checkFrom` replays the sequence keeping, for every frame that is open, the observation that was
current when it began, and requires:

* `begin`  — store unchanged, depth + 1;
* `commit` — store unchanged, depth − 1 (no frame open: a no-op);
* `rollback` — the store equals the observation at the matching `begin`, whatever happened in
  between (nested frames begun / committed / rolled back); no frame open: a no-op;
* a mutator — only its key changes, by the plain map semantics; depth unchanged; result code.

This predicate is evaluated on the implementation's observations (the runtime oracle) and the
model is proved to satisfy it for every sequence (`C10.model_meets_spec`).
-/
namespace C10

abbrev Snap := List (Nat × Cell)

structure Obs where
  res : Res
  depth : Nat
  cells : Snap
deriving Repr, DecidableEq

def proj (ks : List Nat) (d : Nat → Cell) : Snap := ks.map (fun k => (k, d k))

def obsOf (ks : List Nat) (s : FSt) (r : Res) : Obs := ⟨r, s.frames.length, proj ks s.data⟩

/-- observations of the model along a sequence -/
def trace (ks : List Nat) : FSt → List Op → List Obs
  | _, [] => []
  | s, o :: l => obsOf ks (step s o) (result s o) :: trace ks (step s o) l

def expectCells (op : Op) (prev : Snap) : Snap :=
  match toG op with
  | .modify k f => prev.map (fun e => if e.1 = k then (e.1, f e.2) else e)
  | _ => prev

def resOfCell (op : Op) (c : Cell) : Res :=
  match op with
  | .setNested _ p v => match setNestedRes c p v with | .ok _ => .ok | .error x => .err x
  | .remove _ => .removed c.val.isSome
  | _ => .ok

def opKey : Op → Option Nat
  | .set k _ => some k
  | .setNested k _ _ => some k
  | .remove k => some k
  | _ => none

/-- the result code is checked when the key is among the observed ones -/
def expectRes (op : Op) (prev : Snap) (r : Res) : Bool :=
  match opKey op with
  | none => r == .ok
  | some k =>
    match prev.find? (fun e => e.1 == k) with
    | some e => r == resOfCell op e.2
    | none => true

def stepOk (st : List Snap) (prev : Snap) (op : Op) (o : Obs) : Bool :=
  match op, st with
  | .begin, _ => o.cells == prev && o.depth == st.length + 1
  | .commit, _ => o.cells == prev && o.depth == st.tail.length
  | .rollback, [] => o.cells == prev && o.depth == 0
  | .rollback, s0 :: st' => o.cells == s0 && o.depth == st'.length
  | _, _ => o.cells == expectCells op prev && o.depth == st.length && expectRes op prev o.res

def nextStack (st : List Snap) (prev : Snap) : Op → List Snap
  | .begin => prev :: st
  | .commit => st.tail
  | .rollback => st.tail
  | _ => st

def checkFrom : List Snap → Snap → List Op → List Obs → Bool
  | _, _, [], [] => true
  | st, prev, op :: ops, o :: os =>
    stepOk st prev op o && checkFrom (nextStack st prev op) o.cells ops os
  | _, _, _, _ => false

/-- index of the first observation that violates the spec (for the replay file) -/
def firstBad : Nat → List Snap → Snap → List Op → List Obs → Option Nat
  | _, _, _, [], [] => none
  | i, st, prev, op :: ops, o :: os =>
    if stepOk st prev op o then firstBad (i + 1) (nextStack st prev op) o.cells ops os else some i
  | i, _, _, _, _ => some i

end C10
