import RreModel.C09.Lemmas
/-
C10 (part B) — "A backward-chaining query that is reported not provable leaves the caller's facts
exactly as they were before the call", on the search model of `RreModel/C09/Model.lean` (the code
after fixes F-C09, F-C10a, F-C10b, F-C10c).  Proved from the frame theorem of part A
(`C10.grollback_restores`, used through `C09.eff_rollback`): every speculative frame the search
opens is closed by a rollback that returns exactly the store saved at its `begin`, or by a commit.
Quantified over every knowledge base, every strategy, every `max_depth` / `max_solutions`, every
candidate order and sub-goal candidate function, every store with any enclosing frames.
-/
namespace C10
open C09

/-- the well-bracketed-effect invariant at query level -/
theorem query_effect (kb : List Rule) (strategy : Strategy) (maxDepth maxSol : Nat)
    (subCands : Atom → List Nat) (goal : Atom) (topCands : List Nat) (st : Store) :
    Eff st (query kb strategy maxDepth maxSol subCands goal topCands st).store ∧
    ((query kb strategy maxDepth maxSol subCands goal topCands st).provable = false →
      (query kb strategy maxDepth maxSol subCands goal topCands st).store = st) := by
  cases strategy with
  | dfs =>
    have h := (searchN_good ⟨kb, maxSol, subCands⟩ st.data (maxDepth + 1)).1 true goal topCands (st, 0)
    exact ⟨h.eff, h.restore⟩
  | bfs =>
    simp only [query, queryG, bfs]
    split
    · exact ⟨eff_commit (Eff.refl _), by simp⟩
    · have h := bfsLoop_good kb st.data goal topCands (gstep st .begin)
      split
      · exact ⟨eff_commit h.1, by simp⟩
      · have : rbCode st (bfsLoop kb goal topCands (gstep st .begin)).2 = st := eff_rollback h.1
        simp only [this]
        exact ⟨Eff.refl _, by simp⟩
  | iterative =>
    simp only [query, queryG]
    split
    · exact ⟨Eff.refl _, fun _ => rfl⟩
    · have h := (searchN_good ⟨kb, 1, subCands⟩ st.data (0 + 1)).1 true goal topCands (st, 0)
      exact ⟨h.eff, h.restore⟩

/-- **A query reported not provable hands back exactly the store it was given** — the data of
every key and the caller's frame stack (DFS, BFS, iterative). -/
theorem not_provable_restores (kb : List Rule) (strategy : Strategy) (maxDepth maxSol : Nat)
    (subCands : Atom → List Nat) (goal : Atom) (topCands : List Nat) (st : Store)
    (h : (query kb strategy maxDepth maxSol subCands goal topCands st).provable = false) :
    (query kb strategy maxDepth maxSol subCands goal topCands st).store = st :=
  (query_effect kb strategy maxDepth maxSol subCands goal topCands st).2 h

/-- **No leaked frames**: whatever the answer, the frame stack has the depth it had before; in
particular a caller with no frame open gets none back. -/
theorem query_frames_balanced (kb : List Rule) (strategy : Strategy) (maxDepth maxSol : Nat)
    (subCands : Atom → List Nat) (goal : Atom) (topCands : List Nat) (st : Store) :
    (query kb strategy maxDepth maxSol subCands goal topCands st).store.frames.length = st.frames.length :=
  eff_length (query_effect kb strategy maxDepth maxSol subCands goal topCands st).1

theorem query_no_leaked_frames (kb : List Rule) (strategy : Strategy) (maxDepth maxSol : Nat)
    (subCands : Atom → List Nat) (goal : Atom) (topCands : List Nat) (d : Data) :
    (query kb strategy maxDepth maxSol subCands goal topCands ⟨d, []⟩).store.frames = [] := by
  have := query_frames_balanced kb strategy maxDepth maxSol subCands goal topCands ⟨d, []⟩
  simpa using this

/-- when the answer is `provable`, an enclosing frame of the caller still undoes everything the
query derived: `begin; query; rollback` is the identity whatever the answer (this is what the
pre-fix discard-on-commit broke). -/
theorem query_inside_frame_rolls_back (kb : List Rule) (strategy : Strategy) (maxDepth maxSol : Nat)
    (subCands : Atom → List Nat) (goal : Atom) (topCands : List Nat) (st : Store) :
    gstep (query kb strategy maxDepth maxSol subCands goal topCands (gstep st .begin)).store .rollback = st :=
  eff_rollback (query_effect kb strategy maxDepth maxSol subCands goal topCands (gstep st .begin)).1

/-! Non-vacuity: a failing query whose proof attempt derives intermediate facts (two sub-goals
proven, parent rule concludes the wrong value) — the F-C10c shape. -/
def exKbB : List Rule :=
  [ ⟨.atom ⟨6, .eq, .num 1⟩, [(0, .bool true)]⟩,
    ⟨.atom ⟨6, .eq, .num 1⟩, [(1, .bool true)]⟩,
    ⟨.and (.atom ⟨0, .eq, .bool true⟩) (.atom ⟨1, .eq, .bool true⟩), [(5, .bool false)]⟩ ]
def exGoalB : Atom := ⟨5, .eq, .bool true⟩
def exStoreB : Store := ⟨fun k => if k = 6 then some (.num 1) else none, []⟩
def exSubB (a : Atom) : List Nat := if a.field = 0 then [0] else if a.field = 1 then [1] else []

example : (query exKbB .dfs 3 1 exSubB exGoalB [2] exStoreB).provable = false := by decide
example : (query exKbB .dfs 3 1 exSubB exGoalB [2] exStoreB).store.data 0 = none := by decide
example : (query exKbB .dfs 3 1 exSubB exGoalB [2] exStoreB).store.data 5 = none := by decide
-- the attempt really derived A and B inside its frame: the candidate step continues with them set
example : (match candStep ⟨exKbB, 1, exSubB⟩ true (searchN rbCode ⟨exKbB, 1, exSubB⟩ 3 false) exGoalB 2 false exStoreB 0 with
    | .cont _ stX _ => stX.data 0 == some (.bool true) && stX.data 1 == some (.bool true) && stX.data 5 == some (.bool false)
    | .ret _ => false) = true := by decide
-- BFS: R: X == 1 ⇒ G := false, query G == true (F-C10b witness): not provable and G stays absent
example : (query [⟨.atom ⟨6, .eq, .num 1⟩, [(5, .bool false)]⟩] .bfs 3 1 (fun _ => []) exGoalB [0] exStoreB).store.data 5 = none := by decide

end C10
