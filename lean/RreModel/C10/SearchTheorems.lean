import RreModel.C09.Lemmas
/-
C10 (part B) — "A backward-chaining query that is reported not provable leaves the caller's facts
exactly as they were before the call", on the search model of `RreModel/C09/Model.lean` (the code
after fixes F-C09, F-C10a, F-C10b, F-C10c).  Proved from the frame theorem of part A
(`C10.grollback_restores`, used through `C09.eff_rollback`): every speculative frame the search
opens is closed by a rollback that returns exactly the store saved at its `begin`, or by a commit.
Quantified over every knowledge base (rules with And/Or conditions and action lists mixing `Set`,
`Append`, `Retract` and `MethodCall`, including actions that fail half way through a rule), every
strategy, every `max_depth` / `max_solutions`, every candidate order and sub-goal candidate
function, every store with any enclosing frames.
-/
namespace C10
open C09

/-- **Every action of the backward executor is a recording write**: firing a rule — all of its
actions (`Set`, `Append` on an absent field / an array / another value, `Retract`, `MethodCall`),
or, when one of them fails, those before it — inside a fresh frame and rolling that frame back
gives exactly the store the frame was opened on, data and enclosing frames. -/
theorem rule_firing_rolls_back (r : Rule) (st : Store) :
    gstep (fire r (gstep st .begin)).2 .rollback = st :=
  eff_rollback (eff_fire r (gstep st .begin))

/-- … and committing it instead leaves a store that an enclosing frame of the caller still undoes -/
theorem rule_firing_commit_rolls_back (r : Rule) (st : Store) :
    gstep (gstep (fire r (gstep (gstep st .begin) .begin)).2 .commit) .rollback = st :=
  eff_rollback (eff_commit (eff_fire r (gstep (gstep st .begin) .begin)))

/-- the well-bracketed-effect invariant at query level -/
theorem query_effect (kb : List Rule) (strategy : Strategy) (maxDepth maxSol : Nat)
    (subCands : Atom → List Nat) (goal : Atom) (topCands : List Nat) (st : Store) :
    Eff st (query kb strategy maxDepth maxSol subCands goal topCands st).store ∧
    ((query kb strategy maxDepth maxSol subCands goal topCands st).provable = false →
      (query kb strategy maxDepth maxSol subCands goal topCands st).store = st) := by
  cases strategy with
  | dfs =>
    have h := (searchN_good ⟨kb, maxSol, subCands⟩ st.data (maxDepth + 1)).1 true goal topCands (st, 0)
    exact ⟨h.eff, h.restore⟩
  | bfs =>
    simp only [query, queryG, bfs]
    split
    · exact ⟨eff_commit (Eff.refl _), by simp⟩
    · have h := bfsLoop_good kb st.data goal topCands (gstep st .begin)
      split
      · exact ⟨eff_commit h.1, by simp⟩
      · have : rbCode st (bfsLoop kb goal topCands (gstep st .begin)).2 = st := eff_rollback h.1
        simp only [this]
        exact ⟨Eff.refl _, by simp⟩
  | iterative =>
    simp only [query, queryG]
    split
    · exact ⟨Eff.refl _, fun _ => rfl⟩
    · have h := (searchN_good ⟨kb, 1, subCands⟩ st.data (0 + 1)).1 true goal topCands (st, 0)
      exact ⟨h.eff, h.restore⟩

/-- **A query reported not provable hands back exactly the store it was given** — the data of
every key and the caller's frame stack (DFS, BFS, iterative). -/
theorem not_provable_restores (kb : List Rule) (strategy : Strategy) (maxDepth maxSol : Nat)
    (subCands : Atom → List Nat) (goal : Atom) (topCands : List Nat) (st : Store)
    (h : (query kb strategy maxDepth maxSol subCands goal topCands st).provable = false) :
    (query kb strategy maxDepth maxSol subCands goal topCands st).store = st :=
  (query_effect kb strategy maxDepth maxSol subCands goal topCands st).2 h

/-- **No leaked frames**: whatever the answer, the frame stack has the depth it had before; in
particular a caller with no frame open gets none back. -/
theorem query_frames_balanced (kb : List Rule) (strategy : Strategy) (maxDepth maxSol : Nat)
    (subCands : Atom → List Nat) (goal : Atom) (topCands : List Nat) (st : Store) :
    (query kb strategy maxDepth maxSol subCands goal topCands st).store.frames.length = st.frames.length :=
  eff_length (query_effect kb strategy maxDepth maxSol subCands goal topCands st).1

theorem query_no_leaked_frames (kb : List Rule) (strategy : Strategy) (maxDepth maxSol : Nat)
    (subCands : Atom → List Nat) (goal : Atom) (topCands : List Nat) (d : Data) :
    (query kb strategy maxDepth maxSol subCands goal topCands ⟨d, []⟩).store.frames = [] := by
  have := query_frames_balanced kb strategy maxDepth maxSol subCands goal topCands ⟨d, []⟩
  simpa using this

/-- when the answer is `provable`, an enclosing frame of the caller still undoes everything the
query derived: `begin; query; rollback` is the identity whatever the answer (this is what the
pre-fix discard-on-commit broke). -/
theorem query_inside_frame_rolls_back (kb : List Rule) (strategy : Strategy) (maxDepth maxSol : Nat)
    (subCands : Atom → List Nat) (goal : Atom) (topCands : List Nat) (st : Store) :
    gstep (query kb strategy maxDepth maxSol subCands goal topCands (gstep st .begin)).store .rollback = st :=
  eff_rollback (query_effect kb strategy maxDepth maxSol subCands goal topCands (gstep st .begin)).1

/-! Non-vacuity: a failing query whose proof attempt derives intermediate facts (two sub-goals
proven, parent rule concludes the wrong value) — the F-C10c shape. -/
def exKbB : List Rule :=
  [ ⟨.atom ⟨6, .eq, .num 1⟩, [(0, .bool true)], []⟩,
    ⟨.atom ⟨6, .eq, .num 1⟩, [(1, .bool true)], []⟩,
    ⟨.and (.atom ⟨0, .eq, .bool true⟩) (.atom ⟨1, .eq, .bool true⟩), [(5, .bool false)], []⟩ ]
def exGoalB : Atom := ⟨5, .eq, .bool true⟩
def exStoreB : Store := ⟨fun k => if k = 6 then some (.num 1) else none, []⟩
def exSubB (a : Atom) : List Nat := if a.field = 0 then [0] else if a.field = 1 then [1] else []

example : (query exKbB .dfs 3 1 exSubB exGoalB [2] exStoreB).provable = false := by decide
example : (query exKbB .dfs 3 1 exSubB exGoalB [2] exStoreB).store.data 0 = none := by decide
example : (query exKbB .dfs 3 1 exSubB exGoalB [2] exStoreB).store.data 5 = none := by decide
-- the attempt really derived A and B inside its frame: the candidate step continues with them set
example : (match candStep ⟨exKbB, 1, exSubB⟩ true (searchN rbCode ⟨exKbB, 1, exSubB⟩ 3 false) exGoalB 2 false exStoreB 0 with
    | .cont _ stX _ => stX.data 0 == some (.bool true) && stX.data 1 == some (.bool true) && stX.data 5 == some (.bool false)
    | .ret _ => false) = true := by decide
-- BFS: R: X == 1 ⇒ G := false, query G == true (F-C10b witness): not provable and G stays absent
example : (query [⟨.atom ⟨6, .eq, .num 1⟩, [(5, .bool false)], []⟩] .bfs 3 1 (fun _ => []) exGoalB [0] exStoreB).store.data 5 = none := by decide

/-! Non-vacuity for the other actions: `Approve: Check && Signed ⇒ Approved`,
`RunCheck: X == 1 ⇒ Check := true, Trail += "ok", retract(Log), Car.setSpeed(2)` — `Signed` is underivable, so the
query fails after RunCheck fired: the appended array (field absent before), the retracted fact and
the updated object are all back. -/
def exKbC : List Rule :=
  [ ⟨.and (.atom ⟨0, .eq, .bool true⟩) (.atom ⟨7, .eq, .bool true⟩), [(5, .bool true)], []⟩,
    ⟨.atom ⟨6, .eq, .num 1⟩, [(0, .bool true)], [.append 8 (.str "ok"), .retract 3, .call 4 2]⟩ ]
def exStoreC : Store :=
  ⟨fun k => if k = 6 then some (.num 1) else if k = 3 then some (.str "log") else if k = 4 then some (.obj 0) else none, []⟩
def exSubC (a : Atom) : List Nat := if a.field = 0 then [1] else []

example : (query exKbC .dfs 3 1 exSubC exGoalB [0] exStoreC).provable = false := by decide
example : (List.range 9).map (query exKbC .dfs 3 1 exSubC exGoalB [0] exStoreC).store.data =
    (List.range 9).map exStoreC.data := by decide
-- RunCheck really fired inside the candidate's frame: array created, fact retracted, object updated
example : (match candStep ⟨exKbC, 1, exSubC⟩ true (searchN rbCode ⟨exKbC, 1, exSubC⟩ 3 false) exGoalB 0 false exStoreC 0 with
    | .cont _ stX _ => stX.data 0 == some (.bool true) && stX.data 8 == some (.arr [.str "ok"]) && stX.data 3 == none
                       && stX.data 4 == some (.obj 2)
    | .ret _ => false) = true := by decide
-- a failing action (`setSpeed` on an absent object) after the rule already wrote: `fire` reports the
-- failure with the partial writes in place, and the frame takes them back
example : (fire ⟨.atom ⟨6, .eq, .num 1⟩, [(0, .bool true)], [.append 8 (.num 1), .call 9 1, .set 5 (.bool true)]⟩ exStoreC).1 = false := by decide
example : (fire ⟨.atom ⟨6, .eq, .num 1⟩, [(0, .bool true)], [.append 8 (.num 1), .call 9 1, .set 5 (.bool true)]⟩ exStoreC).2.data 8
    = some (.arr [.num 1]) := by decide

/-! The "interfering sub-proof" knowledge base: `Finish: (Main || Spare) && Permit ⇒ Goal`,
`MainWay: A && B ⇒ Main`, `OpenA ⇒ A`, `OpenB ⇒ B, A := false`, `SpareWay ⇒ Spare`.  MainWay's
conditions are proven one after the other but do not hold together (its retry does not fire), then
Spare is derived, then the underivable Permit fails Finish: nothing of it stays. -/
def exKbD : List Rule :=
  [ ⟨.and (.or (.atom ⟨2, .eq, .bool true⟩) (.atom ⟨3, .eq, .bool true⟩)) (.atom ⟨7, .eq, .bool true⟩), [(5, .bool true)], []⟩,
    ⟨.and (.atom ⟨0, .eq, .bool true⟩) (.atom ⟨1, .eq, .bool true⟩), [(2, .bool true)], []⟩,
    ⟨.atom ⟨6, .eq, .num 1⟩, [(0, .bool true)], []⟩,
    ⟨.atom ⟨6, .eq, .num 1⟩, [(1, .bool true), (0, .bool false)], []⟩,
    ⟨.atom ⟨6, .eq, .num 1⟩, [(3, .bool true)], []⟩ ]
def exSubD (a : Atom) : List Nat :=
  if a.field = 0 then [2, 3] else if a.field = 1 then [3] else if a.field = 2 then [1] else if a.field = 3 then [4] else []

example : (query exKbD .dfs 5 1 exSubD exGoalB [0] exStoreB).provable = false := by decide
example : (List.range 8).map (query exKbD .dfs 5 1 exSubD exGoalB [0] exStoreB).store.data =
    (List.range 8).map exStoreB.data := by decide
example : (query exKbD .dfs 5 1 exSubD exGoalB [0] exStoreB).store.frames = [] := by decide
-- Spare was derived (and A reset, B set) inside Finish's frame before Permit failed
example : (match candStep ⟨exKbD, 1, exSubD⟩ true (searchN rbCode ⟨exKbD, 1, exSubD⟩ 5 false) exGoalB 0 false exStoreB 0 with
    | .cont _ stX _ => stX.data 3 == some (.bool true) && stX.data 2 == none && stX.data 0 == none && stX.data 1 == none
    | .ret _ => false) = true := by decide

end C10
