import RreModel.C01.Model
/-
C01 — the documented meaning, written declaratively over *source-level* conditions.

* arithmetic is a precedence-stratified, left-recursive AST (`SumE` of `TermE`s of `Atom`s:
  `* / %` bind tighter than `+ -`, both left-associative) evaluated structurally;
* a condition is a tree (`SCond`) of comparisons whose operands are a field, a literal, a field
  reference or arithmetic; a missing field reads as `null`;
* comparison semantics is a table over value classes (`Spec.cmp`);
* `compile` is what the GRL parser builds from such a condition for the engine
  (`Condition::new`, `Value::Expression(text)`, `Condition::with_test(text)`): arithmetic travels
  as *text*, which the engine re-splits at run time.
`Spec.holds` is also the runtime oracle evaluated on the implementation's observations.
-/
namespace C01
variable {F : Type}

/-! ### arithmetic AST -/

inductive Atom where
  | tok (s : Str)          -- field name (possibly dotted) or unsigned numeral
  | strLit (body : Str)    -- "body"
deriving DecidableEq, Repr

inductive MulOp where
  | mul | div | mod
deriving DecidableEq, Repr

inductive AddOp where
  | add | sub
deriving DecidableEq, Repr

def MulOp.char : MulOp → Char
  | .mul => '*' | .div => '/' | .mod => '%'
def AddOp.char : AddOp → Char
  | .add => '+' | .sub => '-'

/-- `Term → Term (*|/|%) Atom | Atom`; `padL`/`padR` = number of blanks around the operator -/
inductive TermE where
  | atom (a : Atom)
  | bin (l : TermE) (padL : Nat) (op : MulOp) (padR : Nat) (r : Atom)
deriving DecidableEq, Repr

/-- `Sum → Sum (+|-) Term | Term` -/
inductive SumE where
  | term (t : TermE)
  | bin (l : SumE) (padL : Nat) (op : AddOp) (padR : Nat) (r : TermE)
deriving DecidableEq, Repr

def spaces (n : Nat) : Str := List.replicate n ' '

def Atom.render : Atom → Str
  | .tok s => s
  | .strLit b => '"' :: (b ++ ['"'])

def TermE.render : TermE → Str
  | .atom a => a.render
  | .bin l pl op pr r => l.render ++ (spaces pl ++ op.char :: (spaces pr ++ r.render))

def SumE.render : SumE → Str
  | .term t => t.render
  | .bin l pl op pr r => l.render ++ (spaces pl ++ op.char :: (spaces pr ++ r.render))

/-- meaning of an atom: a numeral denotes its number, a quoted literal its text, anything else is a
field read through `lk` -/
def evalAtom (ops : FloatOps F) (lk : Str → Option (Val F)) : Atom → Res (Val F)
  | .strLit b => .ok (.str b)
  | .tok s =>
    match parseInt s with
    | some i => .ok (.int i)
    | none =>
      match ops.parse s with
      | some x => .ok (.num x)
      | none =>
        match lk s with
        | some v => .ok v
        | none => .error .notFound

/-- left operand first, then right operand, then the operation (`applyOp` is the arithmetic table) -/
def binApply (ops : FloatOps F) (l : Res (Val F)) (c : Char) (r : Res (Val F)) : Res (Val F) :=
  match l with
  | .error e => .error e
  | .ok lv =>
    match r with
    | .error e => .error e
    | .ok rv => applyOp ops lv c rv

def evalTerm (ops : FloatOps F) (lk : Str → Option (Val F)) : TermE → Res (Val F)
  | .atom a => evalAtom ops lk a
  | .bin l _ op _ r => binApply ops (evalTerm ops lk l) op.char (evalAtom ops lk r)

def evalSum (ops : FloatOps F) (lk : Str → Option (Val F)) : SumE → Res (Val F)
  | .term t => evalTerm ops lk t
  | .bin l _ op _ r => binApply ops (evalSum ops lk l) op.char (evalTerm ops lk r)

/-! well-formed atoms: what the typed core allows inside arithmetic text -/

/-- characters a quoted operand of an arithmetic expression may contain -/
def litChar (c : Char) : Bool :=
  !(c = '+' || c = '-' || c = '*' || c = '/' || c = '%' || c = '(' || c = ')' || c = '"'
    || c = '<' || c = '>' || c = '=' || c = '!')

def Atom.ok : Atom → Bool
  | .tok s => !s.isEmpty && s.all atomChar
  | .strLit b => b.all litChar

def TermE.ok : TermE → Bool
  | .atom a => a.ok
  | .bin l _ _ _ r => l.ok && r.ok

def SumE.ok : SumE → Bool
  | .term t => t.ok
  | .bin l _ _ _ r => l.ok && r.ok

def TermE.toks : TermE → List Str
  | .atom (.tok s) => [s]
  | .atom (.strLit _) => []
  | .bin l _ _ _ (.tok s) => l.toks ++ [s]
  | .bin l _ _ _ (.strLit _) => l.toks

def SumE.toks : SumE → List Str
  | .term t => t.toks
  | .bin l _ _ _ r => l.toks ++ r.toks

def SumE.hasOp : SumE → Bool
  | .term (.atom _) => false
  | _ => true

/-- the single field/numeral token of an operator-free expression -/
def SumE.asTok : SumE → Option Str
  | .term (.atom (.tok s)) => some s
  | _ => none

/-! ### source-level conditions -/

inductive CmpOp where
  | ge | le | eq | ne | gt | lt
deriving DecidableEq, Repr

def CmpOp.text : CmpOp → Str
  | .ge => ['>', '='] | .le => ['<', '='] | .eq => ['=', '='] | .ne => ['!', '='] | .gt => ['>'] | .lt => ['<']

def CmpOp.toOp : CmpOp → Operator
  | .ge => .ge | .le => .le | .eq => .eq | .ne => .ne | .gt => .gt | .lt => .lt

/-- right-hand side of a field comparison -/
inductive SRhs (F : Type) where
  | lit (v : Val F)        -- literal (number, string, boolean, null, array)
  | expr (e : SumE)        -- field reference (a single token) or arithmetic

/-- right-hand side of an arithmetic comparison -/
inductive ARhs where
  | num (tok : Str)        -- numeric literal, possibly signed / decimal
  | expr (e : SumE)
deriving DecidableEq, Repr

def ARhs.text : ARhs → Str
  | .num t => t
  | .expr e => e.render

inductive SLeaf (F : Type) where
  | fieldCmp (name : Str) (op : Operator) (rhs : SRhs F)
  | arithCmp (lhs : SumE) (op : CmpOp) (rhs : ARhs)

inductive SCond (F : Type) where
  | leaf (l : SLeaf F)
  | and (l r : SCond F)
  | or (l r : SCond F)
  | not (c : SCond F)

/-- what `GRLParser::parse_single_condition` builds -/
def compileLeaf : SLeaf F → Leaf F
  | .fieldCmp name op (.lit v) => .field name op v
  | .fieldCmp name op (.expr e) => .field name op (.expr e.render)
  | .arithCmp lhs op rhs => .test (lhs.render ++ ' ' :: (op.text ++ ' ' :: rhs.text))

def compile : SCond F → Cond F
  | .leaf l => .single (compileLeaf l)
  | .and l r => .compound (compile l) .and (compile r)
  | .or l r => .compound (compile l) .or (compile r)
  | .not c => .not (compile c)

/-- source-level assignment `field = rhs;` / `field += rhs;` -/
inductive SAction (F : Type) where
  | set (field : Str) (rhs : SRhs F)
  | append (field : Str) (rhs : SRhs F)

def compileRhs : SRhs F → Val F
  | .lit v => v
  | .expr e => .expr e.render

def compileAction : SAction F → Action F
  | .set fld rhs => .set fld (compileRhs rhs)
  | .append fld rhs => .append fld (compileRhs rhs)

structure SRule (F : Type) where
  name : Nat
  cond : SCond F
  actions : List (SAction F)

def compileRule (r : SRule F) : Rule F :=
  { name := r.name, cond := compile r.cond, actions := r.actions.map compileAction }

/-! ### the documented meaning -/
namespace Spec

/-- the value of a field: the dotted path through nested objects, else the flat key; -/
def field (f : Facts F) (name : Str) : Option (Val F) := lookupNF f name

/-- a missing field reads as null -/
def fieldVal (f : Facts F) (name : Str) : Val F :=
  match field f name with
  | some v => v
  | none => .null

/-- value of an expression; where it is undefined (a missing field) it reads as null -/
def value (ops : FloatOps F) (f : Facts F) (e : SumE) : Val F :=
  match evalSum ops (field f) e with
  | .ok v => v
  | .error _ => .null

def numeral (ops : FloatOps F) (t : Str) : Val F :=
  match parseInt t with
  | some i => .int i
  | none =>
    match ops.parse t with
    | some x => .num x
    | none => .null

/-- numeric reading of a value for the ordering operators (numeric strings coerce) -/
def numeric (ops : FloatOps F) : Val F → Option F
  | .int i => some (ops.ofInt i)
  | .num x => some x
  | .str s => ops.parse s
  | _ => none

/-- equality: null equals null and the text "null"; otherwise same class and same content -/
def eqv (ops : FloatOps F) : Val F → Val F → Bool
  | .null, .null => true
  | .null, .str s => s == "null".toList
  | .str s, .null => s == "null".toList
  | .null, _ => false
  | _, .null => false
  | l, r => Val.beq ops l r

/-- the operator table over value classes -/
def cmp (ops : FloatOps F) : Operator → Val F → Val F → Bool
  | .eq, l, r => eqv ops l r
  | .ne, l, r => !(eqv ops l r)
  | .gt, l, r => (match numeric ops l, numeric ops r with | some a, some b => ops.lt b a | _, _ => false)
  | .ge, l, r => (match numeric ops l, numeric ops r with | some a, some b => ops.le b a | _, _ => false)
  | .lt, l, r => (match numeric ops l, numeric ops r with | some a, some b => ops.lt a b | _, _ => false)
  | .le, l, r => (match numeric ops l, numeric ops r with | some a, some b => ops.le a b | _, _ => false)
  | .contains, .str a, .str b => isInfix a b
  | .notContains, .str a, .str b => !(isInfix a b)
  | .startsWith, .str a, .str b => b.isPrefixOf a
  | .endsWith, .str a, .str b => b.isSuffixOf a
  | .matches, .str a, .str b => isInfix a b
  | .isIn, l, .arr xs => xs.any (fun x => Val.beq ops x l)
  | _, _, _ => false

def rhsVal (ops : FloatOps F) (f : Facts F) : SRhs F → Val F
  | .lit v => v
  | .expr e => value ops f e

def arhsVal (ops : FloatOps F) (f : Facts F) : ARhs → Val F
  | .num t => numeral ops t
  | .expr e => value ops f e

def leaf (ops : FloatOps F) (f : Facts F) : SLeaf F → Bool
  | .fieldCmp name op rhs => cmp ops op (fieldVal f name) (rhsVal ops f rhs)
  | .arithCmp lhs op rhs => cmp ops op.toOp (value ops f lhs) (arhsVal ops f rhs)

/-- **the documented meaning of a `when` expression** -/
def holds (ops : FloatOps F) (f : Facts F) : SCond F → Bool
  | .leaf l => leaf ops f l
  | .and l r => holds ops f l && holds ops f r
  | .or l r => holds ops f l || holds ops f r
  | .not c => !(holds ops f c)

/-! ### the domain on which the documented meaning is defined (`WF`) — decidable, so the oracle
evaluates it on every observed pre-state and the theorems take it as hypothesis -/

def cmpFree (s : Str) : Bool := s.all (fun c => !(c = '<' || c = '>' || c = '=' || c = '!'))

/-- no field token of the expression is present both as a flat dotted key and as a nested path
(the expression evaluator reads flat-first, conditions read nested-first) -/
def unamb (f : Facts F) (e : SumE) : Bool :=
  e.toks.all (fun s => (splitDot s).length == 1 || (get f s).isNone || (getNested f s).isNone)

def isOk {α} : Res α → Bool
  | .ok _ => true
  | .error _ => false

def wfExpr (ops : FloatOps F) (f : Facts F) (e : SumE) : Bool :=
  e.ok && unamb f e && isOk (evalSum ops (field f) e)

def wfLeaf (ops : FloatOps F) (f : Facts F) : SLeaf F → Bool
  | .fieldCmp name _ (.lit v) =>
    !(isRetracted f name) &&
    (match v with
     | .str s => (lookupNF f s).isNone          -- a quoted literal that names a fact is dereferenced
     | .expr _ => false                          -- expressions are `SRhs.expr`
     | _ => true)
  | .fieldCmp name _ (.expr e) =>
    !(isRetracted f name) && e.ok && unamb f e &&
    -- defined, or a bare reference to a missing field (reads as null)
    (isOk (evalSum ops (field f) e) ||
      (match e.asTok with
       | some s => (lookupNF f s).isNone
       | none => false))
  | .arithCmp lhs _ rhs =>
    lhs.hasOp && wfExpr ops f lhs && cmpFree lhs.render &&
    (match rhs with
     | .num t => cmpFree t && (trim t == t) && ((parseInt t).isSome || (ops.parse t).isSome)
     | .expr e => wfExpr ops f e && cmpFree e.render &&
        (e.asTok.isSome || ((parseInt e.render).isNone && (ops.parse e.render).isNone)))

def wf (ops : FloatOps F) (f : Facts F) : SCond F → Bool
  | .leaf l => wfLeaf ops f l
  | .and l r => wf ops f l && wf ops f r
  | .or l r => wf ops f l && wf ops f r
  | .not c => wf ops f c

/-- an assignment's right-hand side is defined on `f` -/
def wfRhs (ops : FloatOps F) (f : Facts F) : SRhs F → Bool
  | .lit (.expr _) => false
  | .lit _ => true
  | .expr e => wfExpr ops f e

/-- read-back clause of the oracle: after `field = rhs` on pre-state `pre`, `post` holds the value
(`same` = identity of values; the driver uses bit-equality so NaN compares equal to itself) -/
def readsBack (ops : FloatOps F) (same : Val F → Val F → Bool) (pre post : Facts F) (fld : Str)
    (rhs : SRhs F) : Bool :=
  match field post fld with
  | some v => same v (rhsVal ops pre rhs)
  | none => false

/-- the pass as the documentation describes it: a considered rule's actions run iff its `when`
expression holds of the facts at that moment; the actions' effect is the engine's (`execActions`) -/
def pass (ops : FloatOps F) : Facts F → List (SRule F) → PassResult F
  | f, [] => { firings := [], final := f, evaluated := 0, fired := 0, error := none }
  | f, r :: rs =>
    if holds ops f r.cond then
      match execActions ops f (r.actions.map compileAction) with
      | (f', some e) => { firings := [], final := f', evaluated := 1, fired := 0, error := some e }
      | (f', none) =>
        let p := pass ops f' rs
        { p with firings := ⟨r.name, f'⟩ :: p.firings, evaluated := p.evaluated + 1, fired := p.fired + 1 }
    else
      let p := pass ops f rs
      { p with evaluated := p.evaluated + 1 }

/-- every condition is in the domain at the moment its rule is considered -/
def wfAlong (ops : FloatOps F) : Facts F → List (SRule F) → Bool
  | _, [] => true
  | f, r :: rs =>
    wf ops f r.cond &&
    (if holds ops f r.cond then
      match execActions ops f (r.actions.map compileAction) with
      | (_, some _) => true
      | (f', none) => wfAlong ops f' rs
    else wfAlong ops f rs)

/-- a whole `execute` call as the documentation describes it: the documented pass is repeated on the
CURRENT facts until a pass fires nothing (or fails), at most `max_cycles` times -/
def cycles (ops : FloatOps F) : Nat → Facts F → List (SRule F) → PassResult F
  | 0, f, _ => { firings := [], final := f, evaluated := 0, fired := 0, error := none }
  | n + 1, f, rs =>
    let p := pass ops f rs
    if p.error.isSome || p.fired == 0 then p
    else p.andThen (cycles ops n p.final rs)

/-- every condition is in the domain at every moment of every cycle -/
def wfCycles (ops : FloatOps F) : Nat → Facts F → List (SRule F) → Bool
  | 0, _, _ => true
  | n + 1, f, rs =>
    wfAlong ops f rs &&
    (let p := pass ops f rs
     if p.error.isSome || p.fired == 0 then true else wfCycles ops n p.final rs)

/-- several `execute` calls as the documentation describes them: each call is the documented cycle
loop on the facts the caller hands in — the previous call's final facts with the caller's edits -/
def calls (ops : FloatOps F) (n : Nat) (rs : List (SRule F)) : Facts F → List (List (CallerOp F)) → List (PassResult F)
  | f, [] => [cycles ops n f rs]
  | f, ph :: rest =>
    let r := cycles ops n f rs
    r :: calls ops n rs (applyCallerOps r.final ph) rest

/-- every condition is in the domain at every moment of every call -/
def wfCalls (ops : FloatOps F) (n : Nat) (rs : List (SRule F)) : Facts F → List (List (CallerOp F)) → Bool
  | f, [] => wfCycles ops n f rs
  | f, ph :: rest =>
    wfCycles ops n f rs && wfCalls ops n rs (applyCallerOps (cycles ops n f rs).final ph) rest

end Spec
end C01
