import RreModel.C01.Spec
/-
C01 — helper lemmas. Part 1: `find_operator`, `trim`, slicing.
-/
namespace C01
variable {F : Type}

/-! ### find_operator -/

theorem findOpAux_clean (opset : List Char) (s : Str) (i : Nat) (last : Option Nat)
    (h : ∀ c ∈ s, c ≠ '(' ∧ c ≠ ')' ∧ c ∉ opset) : findOpAux opset s 0 i last = last := by
  induction s generalizing i with
  | nil => rfl
  | cons c cs ih =>
    have hc := h c (by simp)
    have hcs : ∀ c ∈ cs, c ≠ '(' ∧ c ≠ ')' ∧ c ∉ opset := fun x hx => h x (List.mem_cons_of_mem _ hx)
    simp only [findOpAux, if_neg hc.1, if_neg hc.2.1]
    rw [if_neg (fun hh => hc.2.2 hh.2)]
    exact ih _ hcs

theorem findOpAux_skip (opset : List Char) (l rest : Str) (i : Nat) (last : Option Nat)
    (h : ∀ c ∈ l, c ≠ '(' ∧ c ≠ ')') :
    ∃ last', findOpAux opset (l ++ rest) 0 i last = findOpAux opset rest 0 (i + l.length) last' := by
  induction l generalizing i last with
  | nil => exact ⟨last, by simp⟩
  | cons c cs ih =>
    have hc := h c (by simp)
    have hcs : ∀ c ∈ cs, c ≠ '(' ∧ c ≠ ')' := fun x hx => h x (List.mem_cons_of_mem _ hx)
    simp only [List.cons_append, findOpAux, if_neg hc.1, if_neg hc.2, List.length_cons]
    by_cases hm : True ∧ c ∈ opset
    · rw [if_pos hm]
      obtain ⟨l', hl'⟩ := ih (i + 1) (some i) hcs
      exact ⟨l', by rw [hl']; congr 1; omega⟩
    · rw [if_neg hm]
      obtain ⟨l', hl'⟩ := ih (i + 1) last hcs
      exact ⟨l', by rw [hl']; congr 1; omega⟩

/-- the rightmost top-level operator of `l ++ op :: r` is that `op` when `r` contains none -/
theorem findOp_at (opset : List Char) (l r : Str) (op : Char)
    (hl : ∀ c ∈ l, c ≠ '(' ∧ c ≠ ')') (hop : op ∈ opset) (hop1 : op ≠ '(') (hop2 : op ≠ ')')
    (hr : ∀ c ∈ r, c ≠ '(' ∧ c ≠ ')' ∧ c ∉ opset) :
    findOp opset (l ++ op :: r) = some l.length := by
  unfold findOp
  obtain ⟨l', hl'⟩ := findOpAux_skip opset l (op :: r) 0 none hl
  rw [hl']
  simp only [findOpAux, if_neg hop1, if_neg hop2]
  rw [if_pos ⟨trivial, hop⟩, findOpAux_clean _ _ _ _ hr]
  simp

theorem findOp_none (opset : List Char) (s : Str)
    (h : ∀ c ∈ s, c ≠ '(' ∧ c ≠ ')' ∧ c ∉ opset) : findOp opset s = none :=
  findOpAux_clean opset s 0 none h

/-! ### trim -/

theorem dropWhile_spaces (n : Nat) (t : Str) : (spaces n ++ t).dropWhile isWs = t.dropWhile isWs := by
  induction n with
  | zero => simp [spaces]
  | succ k ih =>
    have : spaces (k + 1) = ' ' :: spaces k := by simp [spaces, List.replicate_succ]
    rw [this, List.cons_append, List.dropWhile_cons]
    simp [isWs, ih]

/-- a string that starts and ends with a non-blank character -/
structure Tight (s : Str) : Prop where
  front : ∃ c t, s = c :: t ∧ isWs c = false
  back : ∃ d u, s.reverse = d :: u ∧ isWs d = false

theorem reverse_spaces (n : Nat) : (spaces n).reverse = spaces n := by simp [spaces]

theorem trim_pad {s : Str} (h : Tight s) (a b : Nat) : trim (spaces a ++ (s ++ spaces b)) = s := by
  obtain ⟨c, t, hs, hc⟩ := h.front
  obtain ⟨d, u, hr, hd⟩ := h.back
  unfold trim trimStart trimEnd
  rw [dropWhile_spaces]
  have h1 : (s ++ spaces b).dropWhile isWs = s ++ spaces b := by
    rw [hs, List.cons_append, List.dropWhile_cons]; simp [hc]
  rw [h1, List.reverse_append, reverse_spaces, dropWhile_spaces, hr, List.dropWhile_cons]
  simp only [hd, Bool.false_eq_true, if_false]
  rw [← hr, List.reverse_reverse]

theorem trim_tight {s : Str} (h : Tight s) : trim s = s := by
  have := trim_pad h 0 0
  simpa [spaces] using this

theorem Tight.append {a m b : Str} (ha : Tight a) (hb : Tight b) : Tight (a ++ (m ++ b)) := by
  obtain ⟨c, t, hs, hc⟩ := ha.front
  obtain ⟨d, u, hr, hd⟩ := hb.back
  refine ⟨⟨c, t ++ (m ++ b), by rw [hs]; rfl, hc⟩, ⟨d, u ++ (m.reverse ++ a.reverse), ?_, hd⟩⟩
  rw [List.reverse_append, List.reverse_append, hr]; simp

/-! ### characters of rendered expressions -/

theorem atomChar_ne {c : Char} (h : atomChar c = true) (d : Char) (hd : atomChar d = false) : c ≠ d := by
  intro e; subst e; simp [h] at hd

theorem mem_spaces {c : Char} {n : Nat} (h : c ∈ spaces n) : c = ' ' := by
  simp [spaces] at h; exact h.2

/-- not a parenthesis, not an arithmetic operator -/
def plainChar (c : Char) : Prop :=
  c ≠ '(' ∧ c ≠ ')' ∧ c ≠ '+' ∧ c ≠ '-' ∧ c ≠ '*' ∧ c ≠ '/' ∧ c ≠ '%'

theorem plainChar_of_atomChar {c : Char} (h : atomChar c = true) : plainChar c :=
  ⟨atomChar_ne h _ (by decide), atomChar_ne h _ (by decide), atomChar_ne h _ (by decide),
   atomChar_ne h _ (by decide), atomChar_ne h _ (by decide), atomChar_ne h _ (by decide),
   atomChar_ne h _ (by decide)⟩

theorem plainChar_of_litChar {c : Char} (h : litChar c = true) : plainChar c := by
  simp only [litChar, Bool.not_eq_true', Bool.or_eq_false_iff, decide_eq_false_iff_not] at h
  obtain ⟨⟨⟨⟨⟨⟨⟨⟨⟨⟨⟨h1, h2⟩, h3⟩, h4⟩, h5⟩, h6⟩, h7⟩, _⟩, _⟩, _⟩, _⟩, _⟩ := h
  exact ⟨h6, h7, h1, h2, h3, h4, h5⟩

theorem plainChar_space : plainChar ' ' := by unfold plainChar; decide
theorem plainChar_quote : plainChar '"' := by unfold plainChar; decide

theorem isWs_of_atomChar {c : Char} (h : atomChar c = true) : isWs c = false := by
  have h1 := atomChar_ne h ' ' (by decide)
  have h2 := atomChar_ne h '\t' (by decide)
  have h3 := atomChar_ne h '\n' (by decide)
  have h4 := atomChar_ne h '\r' (by decide)
  have h5 := atomChar_ne h '\x0b' (by decide)
  have h6 := atomChar_ne h '\x0c' (by decide)
  simp [isWs, h1, h2, h3, h4, h5, h6]

theorem Atom.render_plain {a : Atom} (h : a.ok = true) : ∀ c ∈ a.render, plainChar c := by
  cases a with
  | tok s =>
    simp only [Atom.ok, Bool.and_eq_true, List.all_eq_true] at h
    intro c hc; exact plainChar_of_atomChar (h.2 c hc)
  | strLit b =>
    simp only [Atom.ok, List.all_eq_true] at h
    intro c hc
    simp only [Atom.render, List.mem_cons, List.mem_append, List.mem_nil_iff, or_false] at hc
    rcases hc with rfl | hc | rfl
    · exact plainChar_quote
    · exact plainChar_of_litChar (h c hc)
    · exact plainChar_quote

theorem Atom.render_tight {a : Atom} (h : a.ok = true) : Tight a.render := by
  cases a with
  | tok s =>
    simp only [Atom.ok, Bool.and_eq_true, List.all_eq_true] at h
    cases s with
    | nil => simp at h
    | cons c t =>
      refine ⟨⟨c, t, rfl, isWs_of_atomChar (h.2 c (by simp))⟩, ?_⟩
      cases hr : (c :: t).reverse with
      | nil => simp at hr
      | cons d u =>
        refine ⟨d, u, hr, isWs_of_atomChar (h.2 d ?_)⟩
        have : d ∈ (c :: t).reverse := by rw [hr]; simp
        exact List.mem_reverse.mp this
  | strLit b =>
    refine ⟨⟨'"', b ++ ['"'], rfl, by decide⟩, ⟨'"', b.reverse ++ ['"'], ?_, by decide⟩⟩
    simp [Atom.render]

theorem evalToken_atom (ops : FloatOps F) (f : Facts F) {a : Atom} (h : a.ok = true) :
    evalToken ops f a.render = evalAtom ops (lookupFN f) a := by
  cases a with
  | tok s =>
    simp only [Atom.ok, Bool.and_eq_true, List.all_eq_true] at h
    cases s with
    | nil => simp at h
    | cons c t =>
      have hc := h.2 c (by simp)
      have q1 : c ≠ '"' := atomChar_ne hc _ (by decide)
      have q2 : c ≠ '\'' := atomChar_ne hc _ (by decide)
      have e1 : isQuoted '"' (c :: t) = false := by
        simp [isQuoted, q1]
      have e2 : isQuoted '\'' (c :: t) = false := by
        simp [isQuoted, q2]
      simp only [evalToken, Atom.render, e1, e2, Bool.or_self, Bool.false_eq_true, if_false, evalAtom]
      rfl
  | strLit b =>
    simp only [Atom.ok, List.all_eq_true] at h
    have hb : '"' ∉ b := by
      intro hm
      have := h _ hm
      simp [litChar] at this
    have e1 : isQuoted '"' ('"' :: (b ++ ['"'])) = true := by
      simp [isQuoted, quotedTail, hb]
    simp only [evalToken, Atom.render, e1, Bool.true_or, if_true, evalAtom, unquote]
    simp

/-! ### rendered terms and sums -/

theorem MulOp.char_mem (op : MulOp) : op.char ∈ mulOps := by cases op <;> simp [MulOp.char, mulOps]
theorem AddOp.char_mem (op : AddOp) : op.char ∈ addOps := by cases op <;> simp [AddOp.char, addOps]
theorem MulOp.char_noparen (op : MulOp) : op.char ≠ '(' ∧ op.char ≠ ')' := by cases op <;> decide
theorem AddOp.char_noparen (op : AddOp) : op.char ≠ '(' ∧ op.char ≠ ')' := by cases op <;> decide
theorem MulOp.char_not_add (op : MulOp) : op.char ∉ addOps := by cases op <;> decide

theorem plain_noparen {c : Char} (h : plainChar c) : c ≠ '(' ∧ c ≠ ')' := ⟨h.1, h.2.1⟩
theorem plain_not_add {c : Char} (h : plainChar c) : c ∉ addOps := by
  simp only [addOps, List.mem_cons, List.mem_nil_iff, or_false, not_or]; exact ⟨h.2.2.1, h.2.2.2.1⟩
theorem plain_not_mul {c : Char} (h : plainChar c) : c ∉ mulOps := by
  simp only [mulOps, List.mem_cons, List.mem_nil_iff, or_false, not_or]
  exact ⟨h.2.2.2.2.1, h.2.2.2.2.2.1, h.2.2.2.2.2.2⟩

/-- characters of a rendered term: no parenthesis, no `+`/`-` -/
theorem TermE.render_chars {t : TermE} (h : t.ok = true) :
    ∀ c ∈ t.render, c ≠ '(' ∧ c ≠ ')' ∧ c ∉ addOps := by
  induction t with
  | atom a =>
    intro c hc
    have := Atom.render_plain (a := a) h c hc
    exact ⟨this.1, this.2.1, plain_not_add this⟩
  | bin l pl op pr r ih =>
    simp only [TermE.ok, Bool.and_eq_true] at h
    intro c hc
    simp only [TermE.render, List.mem_append, List.mem_cons] at hc
    rcases hc with hc | hc | rfl | hc | hc
    · exact ih h.1 c hc
    · rw [mem_spaces hc]; exact ⟨plainChar_space.1, plainChar_space.2.1, plain_not_add plainChar_space⟩
    · exact ⟨op.char_noparen.1, op.char_noparen.2, op.char_not_add⟩
    · rw [mem_spaces hc]; exact ⟨plainChar_space.1, plainChar_space.2.1, plain_not_add plainChar_space⟩
    · have := Atom.render_plain (a := r) h.2 c hc
      exact ⟨this.1, this.2.1, plain_not_add this⟩

theorem TermE.render_tight {t : TermE} (h : t.ok = true) : Tight t.render := by
  induction t with
  | atom a => exact Atom.render_tight h
  | bin l pl op pr r ih =>
    simp only [TermE.ok, Bool.and_eq_true] at h
    have := Tight.append (m := spaces pl ++ op.char :: spaces pr) (ih h.1) (Atom.render_tight h.2)
    simpa [TermE.render, List.append_assoc] using this

theorem SumE.render_noparen {e : SumE} (h : e.ok = true) : ∀ c ∈ e.render, c ≠ '(' ∧ c ≠ ')' := by
  induction e with
  | term t => intro c hc; have := TermE.render_chars (t := t) h c hc; exact ⟨this.1, this.2.1⟩
  | bin l pl op pr r ih =>
    simp only [SumE.ok, Bool.and_eq_true] at h
    intro c hc
    simp only [SumE.render, List.mem_append, List.mem_cons] at hc
    rcases hc with hc | hc | rfl | hc | hc
    · exact ih h.1 c hc
    · rw [mem_spaces hc]; exact plain_noparen plainChar_space
    · exact op.char_noparen
    · rw [mem_spaces hc]; exact plain_noparen plainChar_space
    · have := TermE.render_chars (t := r) h.2 c hc; exact ⟨this.1, this.2.1⟩

theorem SumE.render_tight {e : SumE} (h : e.ok = true) : Tight e.render := by
  induction e with
  | term t => exact TermE.render_tight h
  | bin l pl op pr r ih =>
    simp only [SumE.ok, Bool.and_eq_true] at h
    have := Tight.append (m := spaces pl ++ op.char :: spaces pr) (ih h.1) (TermE.render_tight h.2)
    simpa [SumE.render, List.append_assoc] using this

/-! ### the string evaluator on rendered expressions -/

theorem splitEval_at (ops : FloatOps F) (rec : Str → Res (Val F)) (l r : Str) (c : Char) :
    splitEval ops rec (l ++ c :: r) l.length = binApply ops (rec l) c (rec r) := by
  unfold splitEval binApply
  simp only [List.drop_left', List.take_left']
  cases rec l <;> simp
  cases rec r <;> simp

theorem evalExprN_atom (ops : FloatOps F) (f : Facts F) {a : Atom} (h : a.ok = true) (n a1 b1 : Nat) :
    evalExprN ops f (n + 1) (spaces a1 ++ (a.render ++ spaces b1)) = evalAtom ops (lookupFN f) a := by
  have hp := Atom.render_plain h
  simp only [evalExprN, trim_pad (Atom.render_tight h)]
  rw [findOp_none addOps _ (fun c hc => ⟨(hp c hc).1, (hp c hc).2.1, plain_not_add (hp c hc)⟩),
      findOp_none mulOps _ (fun c hc => ⟨(hp c hc).1, (hp c hc).2.1, plain_not_mul (hp c hc)⟩)]
  exact evalToken_atom ops f h

theorem evalExprN_term (ops : FloatOps F) (f : Facts F) {t : TermE} (h : t.ok = true) :
    ∀ n, t.render.length < n → ∀ a1 b1,
      evalExprN ops f n (spaces a1 ++ (t.render ++ spaces b1)) = evalTerm ops (lookupFN f) t := by
  induction t with
  | atom a =>
    intro n hn a1 b1
    cases n with
    | zero => omega
    | succ m => exact evalExprN_atom ops f h m a1 b1
  | bin l pl op pr r ih =>
    intro n hn a1 b1
    have hok := h
    simp only [TermE.ok, Bool.and_eq_true] at h
    cases n with
    | zero => omega
    | succ m =>
      have hch := TermE.render_chars hok
      simp only [evalExprN, trim_pad (TermE.render_tight hok)]
      rw [findOp_none addOps _ hch]
      have hre : (TermE.bin l pl op pr r).render = (l.render ++ spaces pl) ++ op.char :: (spaces pr ++ r.render) := by
        simp [TermE.render, List.append_assoc]
      have hl : ∀ c ∈ l.render ++ spaces pl, c ≠ '(' ∧ c ≠ ')' := by
        intro c hc
        rcases List.mem_append.mp hc with hc | hc
        · have := TermE.render_chars h.1 c hc; exact ⟨this.1, this.2.1⟩
        · rw [mem_spaces hc]; exact plain_noparen plainChar_space
      have hr : ∀ c ∈ spaces pr ++ r.render, c ≠ '(' ∧ c ≠ ')' ∧ c ∉ mulOps := by
        intro c hc
        rcases List.mem_append.mp hc with hc | hc
        · rw [mem_spaces hc]; exact ⟨plainChar_space.1, plainChar_space.2.1, plain_not_mul plainChar_space⟩
        · have := Atom.render_plain h.2 c hc; exact ⟨this.1, this.2.1, plain_not_mul this⟩
      rw [hre, findOp_at mulOps _ _ _ hl op.char_mem op.char_noparen.1 op.char_noparen.2 hr]
      simp only []
      rw [splitEval_at]
      have hlen : l.render.length < m := by
        simp only [TermE.render, List.length_append, List.length_cons] at hn; omega
      have e1 : evalExprN ops f m (l.render ++ spaces pl) = evalTerm ops (lookupFN f) l := by
        have := ih h.1 m hlen 0 pl; simpa [spaces] using this
      have e2 : evalExprN ops f m (spaces pr ++ r.render) = evalAtom ops (lookupFN f) r := by
        cases m with
        | zero => omega
        | succ k => have := evalExprN_atom ops f h.2 k pr 0; simpa [spaces] using this
      rw [e1, e2]; rfl

theorem evalExprN_sum (ops : FloatOps F) (f : Facts F) {e : SumE} (h : e.ok = true) :
    ∀ n, e.render.length < n → ∀ a1 b1,
      evalExprN ops f n (spaces a1 ++ (e.render ++ spaces b1)) = evalSum ops (lookupFN f) e := by
  induction e with
  | term t => intro n hn a1 b1; exact evalExprN_term ops f h n hn a1 b1
  | bin l pl op pr r ih =>
    intro n hn a1 b1
    have hok := h
    simp only [SumE.ok, Bool.and_eq_true] at h
    cases n with
    | zero => omega
    | succ m =>
      simp only [evalExprN, trim_pad (SumE.render_tight hok)]
      have hre : (SumE.bin l pl op pr r).render = (l.render ++ spaces pl) ++ op.char :: (spaces pr ++ r.render) := by
        simp [SumE.render, List.append_assoc]
      have hl : ∀ c ∈ l.render ++ spaces pl, c ≠ '(' ∧ c ≠ ')' := by
        intro c hc
        rcases List.mem_append.mp hc with hc | hc
        · exact SumE.render_noparen h.1 c hc
        · rw [mem_spaces hc]; exact plain_noparen plainChar_space
      have hr : ∀ c ∈ spaces pr ++ r.render, c ≠ '(' ∧ c ≠ ')' ∧ c ∉ addOps := by
        intro c hc
        rcases List.mem_append.mp hc with hc | hc
        · rw [mem_spaces hc]; exact ⟨plainChar_space.1, plainChar_space.2.1, plain_not_add plainChar_space⟩
        · exact TermE.render_chars h.2 c hc
      rw [hre, findOp_at addOps _ _ _ hl op.char_mem op.char_noparen.1 op.char_noparen.2 hr]
      simp only []
      rw [splitEval_at]
      have hlen : l.render.length < m ∧ r.render.length < m := by
        simp only [SumE.render, List.length_append, List.length_cons] at hn; omega
      have e1 : evalExprN ops f m (l.render ++ spaces pl) = evalSum ops (lookupFN f) l := by
        have := ih h.1 m hlen.1 0 pl; simpa [spaces] using this
      have e2 : evalExprN ops f m (spaces pr ++ r.render) = evalTerm ops (lookupFN f) r := by
        have := evalExprN_term ops f h.2 m hlen.2 pr 0; simpa [spaces] using this
      rw [e1, e2]; rfl


theorem evalExpr_render (ops : FloatOps F) (f : Facts F) {e : SumE} (h : e.ok = true) :
    evalExpr ops f e.render = evalSum ops (lookupFN f) e := by
  have := evalExprN_sum ops f h (e.render.length + 1) (Nat.lt_succ_self _) 0 0
  simpa [evalExpr, spaces] using this

/-! ### the two lookup orders agree on unambiguous stores -/

theorem evalAtom_congr (ops : FloatOps F) (lk1 lk2 : Str → Option (Val F)) (a : Atom)
    (h : ∀ s, a = .tok s → lk1 s = lk2 s) : evalAtom ops lk1 a = evalAtom ops lk2 a := by
  cases a with
  | strLit b => rfl
  | tok s => simp only [evalAtom, h s rfl]

theorem evalTerm_congr (ops : FloatOps F) (lk1 lk2 : Str → Option (Val F)) (t : TermE)
    (h : ∀ s ∈ t.toks, lk1 s = lk2 s) : evalTerm ops lk1 t = evalTerm ops lk2 t := by
  induction t with
  | atom a =>
    apply evalAtom_congr; intro s hs; subst hs; exact h s (by simp [TermE.toks])
  | bin l pl op pr r ih =>
    have h1 : ∀ s ∈ l.toks, lk1 s = lk2 s := by
      intro s hs; apply h; cases r <;> simp [TermE.toks, hs]
    have h2 : evalAtom ops lk1 r = evalAtom ops lk2 r := by
      apply evalAtom_congr; intro s hs; subst hs; exact h s (by simp [TermE.toks])
    simp only [evalTerm, ih h1, h2]

theorem evalSum_congr (ops : FloatOps F) (lk1 lk2 : Str → Option (Val F)) (e : SumE)
    (h : ∀ s ∈ e.toks, lk1 s = lk2 s) : evalSum ops lk1 e = evalSum ops lk2 e := by
  induction e with
  | term t => exact evalTerm_congr ops lk1 lk2 t h
  | bin l pl op pr r ih =>
    have h1 : ∀ s ∈ l.toks, lk1 s = lk2 s := fun s hs => h s (by simp [SumE.toks, hs])
    have h2 : ∀ s ∈ r.toks, lk1 s = lk2 s := fun s hs => h s (by simp [SumE.toks, hs])
    simp only [evalSum, ih h1, evalTerm_congr ops lk1 lk2 r h2]

theorem splitDot_ne_nil (s : Str) : splitDot s ≠ [] := by
  induction s with
  | nil => simp [splitDot]
  | cons c cs ih =>
    simp only [splitDot]
    by_cases hc : c = '.'
    · simp [hc]
    · simp only [hc, if_false]
      cases hs : splitDot cs with
      | nil => exact absurd hs ih
      | cons p rest => simp

theorem splitDot_single (s : Str) : ∀ r, splitDot s = [r] → r = s := by
  induction s with
  | nil => intro r h; simp [splitDot] at h; exact h
  | cons c cs ih =>
    intro r h
    simp only [splitDot] at h
    by_cases hc : c = '.'
    · simp only [hc, if_true] at h
      injection h with _ h2
      exact absurd h2 (splitDot_ne_nil cs)
    · simp only [hc, if_false] at h
      cases hs : splitDot cs with
      | nil => exact absurd hs (splitDot_ne_nil cs)
      | cons p rest =>
        simp only [hs] at h
        injection h with h1 h2
        subst h2; subst h1
        rw [ih p hs]

theorem getNested_single (f : Facts F) (s : Str) (h : (splitDot s).length = 1) : getNested f s = get f s := by
  cases hs : splitDot s with
  | nil => simp [hs] at h
  | cons r rest =>
    cases rest with
    | cons q ps => simp [hs] at h
    | nil =>
      have := splitDot_single s r hs
      subst this
      unfold getNested get
      simp only [hs]
      cases lookupKV f r <;> rfl

theorem lookup_orders_agree (f : Facts F) (s : Str)
    (h : ((splitDot s).length == 1 || (get f s).isNone || (getNested f s).isNone) = true) :
    lookupFN f s = lookupNF f s := by
  unfold lookupFN lookupNF
  by_cases h1 : (splitDot s).length = 1
  · rw [getNested_single f s h1]
  · cases hg : get f s <;> cases hn : getNested f s <;> simp_all

theorem evalSum_unamb (ops : FloatOps F) (f : Facts F) (e : SumE) (h : Spec.unamb f e = true) :
    evalSum ops (lookupFN f) e = evalSum ops (Spec.field f) e := by
  apply evalSum_congr
  intro s hs
  simp only [Spec.unamb, List.all_eq_true] at h
  exact lookup_orders_agree f s (h s hs)

/-- **string evaluator = AST semantics**, on the engine's store reading -/
theorem evalExpr_spec (ops : FloatOps F) (f : Facts F) {e : SumE} (hok : e.ok = true)
    (hu : Spec.unamb f e = true) : evalExpr ops f e.render = evalSum ops (Spec.field f) e := by
  rw [evalExpr_render ops f hok, evalSum_unamb ops f e hu]

/-! ### the operator table -/

theorem numeric_eq (ops : FloatOps F) (v : Val F) : Spec.numeric ops v = toNumber ops v := by
  cases v <;> rfl

theorem eval_eq_cmp (ops : FloatOps F) (op : Operator) (l r : Val F) :
    op.eval ops l r = Spec.cmp ops op l r := by
  cases op
  case eq => cases l <;> cases r <;> simp [Operator.eval, Spec.cmp, Spec.eqv, isNullV, nullLike]
  case ne => cases l <;> cases r <;> simp [Operator.eval, Spec.cmp, Spec.eqv, isNullV, nullLike]
  case gt => simp only [Operator.eval, Spec.cmp, numOp, numeric_eq]; cases toNumber ops l <;> cases toNumber ops r <;> rfl
  case ge => simp only [Operator.eval, Spec.cmp, numOp, numeric_eq]; cases toNumber ops l <;> cases toNumber ops r <;> rfl
  case lt => simp only [Operator.eval, Spec.cmp, numOp, numeric_eq]; cases toNumber ops l <;> cases toNumber ops r <;> rfl
  case le => simp only [Operator.eval, Spec.cmp, numOp, numeric_eq]; cases toNumber ops l <;> cases toNumber ops r <;> rfl
  case contains => cases l <;> cases r <;> simp [Operator.eval, Spec.cmp, strOp]
  case notContains => cases l <;> cases r <;> simp [Operator.eval, Spec.cmp, strOp]
  case startsWith => cases l <;> cases r <;> simp [Operator.eval, Spec.cmp, strOp]
  case endsWith => cases l <;> cases r <;> simp [Operator.eval, Spec.cmp, strOp]
  case «matches» => cases l <;> cases r <;> simp [Operator.eval, Spec.cmp, strOp]
  case isIn => cases r <;> simp [Operator.eval, Spec.cmp]


/-! ### re-splitting the text of an arithmetic condition -/

theorem rfindAux_skip (p : Char) (pt : Str) (L rest : Str) (i : Nat) (last : Option Nat)
    (hL : ∀ c ∈ L, c ≠ p) :
    rfindAux (p :: pt) (L ++ rest) i last = rfindAux (p :: pt) rest (i + L.length) last := by
  induction L generalizing i with
  | nil => simp
  | cons c cs ih =>
    have hc : (p == c) = false := by
      have := hL c (by simp); simp; exact fun e => this e.symm
    simp only [List.cons_append, rfindAux, List.isPrefixOf, hc, Bool.false_and, Bool.false_eq_true, if_false]
    rw [ih _ (fun x hx => hL x (List.mem_cons_of_mem _ hx))]
    simp only [List.length_cons]; congr 1; omega

theorem rfindAux_free (p : Char) (pt : Str) (R : Str) (i : Nat) (last : Option Nat)
    (hR : ∀ c ∈ R, c ≠ p) : rfindAux (p :: pt) R i last = last := by
  have := rfindAux_skip p pt R [] i last hR
  simpa [rfindAux] using this

theorem cmpFree_ne {s : Str} (h : Spec.cmpFree s = true) :
    ∀ c ∈ s, c ≠ '<' ∧ c ≠ '>' ∧ c ≠ '=' ∧ c ≠ '!' := by
  intro c hc
  simp only [Spec.cmpFree, List.all_eq_true] at h
  have := h c hc
  simp only [Bool.not_eq_true', Bool.or_eq_false_iff, decide_eq_false_iff_not] at this
  exact ⟨this.1.1.1, this.1.1.2, this.1.2, this.2⟩

/-- the `rfind` loop over `>= <= == != > <` recovers exactly the operator the parser wrote -/
theorem findCmp_render (L R : Str) (op : CmpOp) (hL : Spec.cmpFree L = true) (hR : Spec.cmpFree R = true) :
    findCmp (L ++ ' ' :: (op.text ++ ' ' :: R)) cmpOps = some (L.length + 1, op.text, op.toOp) := by
  have l := cmpFree_ne hL
  have r := cmpFree_ne hR
  have l1 : ∀ c ∈ L, c ≠ '<' := fun c hc => (l c hc).1
  have l2 : ∀ c ∈ L, c ≠ '>' := fun c hc => (l c hc).2.1
  have l3 : ∀ c ∈ L, c ≠ '=' := fun c hc => (l c hc).2.2.1
  have l4 : ∀ c ∈ L, c ≠ '!' := fun c hc => (l c hc).2.2.2
  have r1 : ∀ c ∈ R, c ≠ '<' := fun c hc => (r c hc).1
  have r2 : ∀ c ∈ R, c ≠ '>' := fun c hc => (r c hc).2.1
  have r3 : ∀ c ∈ R, c ≠ '=' := fun c hc => (r c hc).2.2.1
  have r4 : ∀ c ∈ R, c ≠ '!' := fun c hc => (r c hc).2.2.2
  cases op <;>
  simp [findCmp, cmpOps, rfind, CmpOp.text, CmpOp.toOp, rfindAux_skip _ _ L _ _ _ l1, rfindAux_skip _ _ L _ _ _ l2,
    rfindAux_skip _ _ L _ _ _ l3, rfindAux_skip _ _ L _ _ _ l4, rfindAux, List.isPrefixOf,
    rfindAux_free _ _ R _ _ r1, rfindAux_free _ _ R _ _ r2, rfindAux_free _ _ R _ _ r3, rfindAux_free _ _ R _ _ r4]


/-! ### leaves -/

theorem fieldVal_eq (f : Facts F) (name : Str) : Spec.fieldVal f name = (lookupNF f name).getD .null := by
  unfold Spec.fieldVal Spec.field; cases lookupNF f name <;> rfl

theorem take_mid (L T R : Str) : (L ++ ' ' :: (T ++ ' ' :: R)).take (L.length + 1) = L ++ [' '] := by
  have e : L ++ ' ' :: (T ++ ' ' :: R) = (L ++ [' ']) ++ (T ++ ' ' :: R) := by simp
  rw [e]; exact List.take_left' (by simp)

theorem drop_mid (L T R : Str) :
    (L ++ ' ' :: (T ++ ' ' :: R)).drop (L.length + 1 + T.length) = ' ' :: R := by
  have e : L ++ ' ' :: (T ++ ' ' :: R) = ((L ++ [' ']) ++ T) ++ (' ' :: R) := by simp
  rw [e]; exact List.drop_left' (by simp; omega)

theorem trim_cons_space (t : Str) : trim (' ' :: t) = trim t := by
  simp [trim, trimStart, isWs]

theorem trim_snoc_space {s : Str} (h : Tight s) : trim (s ++ [' ']) = s := by
  have := trim_pad h 0 1
  simpa [spaces] using this

theorem evalSum_asTok {e : SumE} {s : Str}
    (h : e.asTok = some s) : e = .term (.atom (.tok s)) := by
  cases e with
  | bin l pl op pr r => simp [SumE.asTok] at h
  | term t =>
    cases t with
    | bin l pl op pr r => simp [SumE.asTok] at h
    | atom a =>
      cases a with
      | strLit b => simp [SumE.asTok] at h
      | tok s' => simp [SumE.asTok] at h; rw [h]

theorem evalAtom_tok_error (ops : FloatOps F) (lk : Str → Option (Val F)) (s : Str) (err : Err)
    (h : evalAtom ops lk (.tok s) = .error err) : err = .notFound := by
  simp only [evalAtom] at h
  cases hp : parseInt s <;> simp only [hp] at h
  · cases hq : ops.parse s <;> simp only [hq] at h
    · cases hl : lk s <;> simp only [hl] at h
      · injection h with h; exact h.symm
      · cases h
    · cases h
  · cases h

/-- RHS resolution of a field comparison agrees with the documented value -/
theorem resolveRhs_expr (ops : FloatOps F) (f : Facts F) (e : SumE) (hok : e.ok = true)
    (hu : Spec.unamb f e = true)
    (hd : (Spec.isOk (evalSum ops (Spec.field f) e) ||
      (match e.asTok with | some s => (lookupNF f s).isNone | none => false)) = true) :
    resolveRhs ops f (.expr e.render) = .ok (Spec.value ops f e) := by
  simp only [resolveRhs, evalExpr_spec ops f hok hu, Spec.value]
  cases hv : evalSum ops (Spec.field f) e with
  | ok v => rfl
  | error err =>
    simp only [hv, Spec.isOk, Bool.false_or] at hd
    cases ht : e.asTok with
    | none => simp [ht] at hd
    | some s =>
      simp only [ht, Option.isNone_iff_eq_none] at hd
      have he := evalSum_asTok ht
      subst he
      have herr : err = .notFound := evalAtom_tok_error ops (Spec.field f) s err (by simpa [evalSum, evalTerm] using hv)
      subst herr
      have hall : s.all atomChar = true := by
        simp only [SumE.ok, TermE.ok, Atom.ok, Bool.and_eq_true] at hok; exact hok.2
      simp [SumE.render, TermE.render, Atom.render, hd, hall]

theorem arithRhs_expr (ops : FloatOps F) (f : Facts F) (e : SumE) (v : Val F) (hok : e.ok = true)
    (hu : Spec.unamb f e = true) (hv : evalSum ops (Spec.field f) e = .ok v)
    (hc : (e.asTok.isSome || ((parseInt e.render).isNone && (ops.parse e.render).isNone)) = true) :
    arithRhs ops f e.render = .ok v := by
  have hev := evalExpr_spec ops f hok hu
  cases ht : e.asTok with
  | some s =>
    have he := evalSum_asTok ht
    subst he
    simp only [SumE.render, TermE.render, Atom.render] at hev ⊢
    simp only [evalSum, evalTerm, evalAtom] at hv
    unfold arithRhs
    cases hp : parseInt s with
    | some i => simp only [hp] at hv ⊢; exact hv
    | none =>
      simp only [hp] at hv ⊢
      cases hq : ops.parse s with
      | some x => simp only [hq] at hv ⊢; exact hv
      | none =>
        simp only [hev, evalSum, evalTerm, evalAtom, hp, hq]
        simp only [hq] at hv
        rw [hv]
  | none =>
    simp only [ht, Option.isSome_none, Bool.false_or, Bool.and_eq_true, Option.isNone_iff_eq_none] at hc
    unfold arithRhs
    simp only [hc.1, hc.2, hev, hv]

/-- **every well-formed leaf**: what the engine computes on what the parser builds is the documented
truth value -/
theorem evalLeaf_compile (ops : FloatOps F) (f : Facts F) (l : SLeaf F) (h : Spec.wfLeaf ops f l = true) :
    evalLeaf ops f (compileLeaf l) = .ok (Spec.leaf ops f l) := by
  cases l with
  | fieldCmp name op rhs =>
    cases rhs with
    | lit v =>
      simp only [Spec.wfLeaf, Bool.and_eq_true, Bool.not_eq_true'] at h
      simp only [compileLeaf, evalLeaf, h.1, Bool.false_eq_true, if_false, Spec.leaf, Spec.rhsVal,
        fieldVal_eq, ← eval_eq_cmp]
      cases v with
      | str s =>
        have : lookupNF f s = none := by simpa using h.2
        simp [resolveRhs, this]
      | expr e => simp at h
      | _ => simp [resolveRhs]
    | expr e =>
      simp only [Spec.wfLeaf, Bool.and_eq_true, Bool.not_eq_true'] at h
      obtain ⟨⟨⟨h1, h2⟩, h3⟩, h4⟩ := h
      simp only [compileLeaf, evalLeaf, h1, Bool.false_eq_true, if_false, Spec.leaf, Spec.rhsVal,
        fieldVal_eq, ← eval_eq_cmp, resolveRhs_expr ops f e h2 h3 h4]
  | arithCmp lhs op rhs =>
    simp only [Spec.wfLeaf, Spec.wfExpr, Bool.and_eq_true] at h
    obtain ⟨⟨⟨_, ⟨⟨hok, hu⟩, hd⟩⟩, hcf⟩, hr⟩ := h
    cases hlv : evalSum ops (Spec.field f) lhs with
    | error err => simp [hlv, Spec.isOk] at hd
    | ok lv =>
      have hRfree : Spec.cmpFree rhs.text = true := by
        cases rhs with
        | num t => simp only [Bool.and_eq_true] at hr; exact hr.1.1
        | expr e => simp only [Bool.and_eq_true] at hr; exact hr.1.2
      have hlt := SumE.render_tight hok
      simp only [compileLeaf, evalLeaf, evalArithCond, findCmp_render _ _ op hcf hRfree, take_mid, drop_mid,
        trim_snoc_space hlt, trim_cons_space, evalExpr_spec ops f hok hu, hlv]
      cases rhs with
      | num t =>
        simp only [Bool.and_eq_true, beq_iff_eq, Bool.or_eq_true] at hr
        obtain ⟨⟨_, htrim⟩, hnum⟩ := hr
        simp only [ARhs.text, htrim, Spec.leaf, Spec.value, hlv, Spec.arhsVal, Spec.numeral, arithRhs, ← eval_eq_cmp]
        cases hp : parseInt t with
        | some i => rfl
        | none =>
          cases hq : ops.parse t with
          | some x => rfl
          | none => simp [hp, hq] at hnum
      | expr e =>
        simp only [Spec.wfExpr, Bool.and_eq_true] at hr
        obtain ⟨⟨⟨⟨hok2, hu2⟩, hd2⟩, _⟩, hcl⟩ := hr
        cases hrv : evalSum ops (Spec.field f) e with
        | error err => simp [hrv, Spec.isOk] at hd2
        | ok rv =>
          simp only [ARhs.text, trim_tight (SumE.render_tight hok2), arithRhs_expr ops f e rv hok2 hu2 hrv hcl,
            Spec.leaf, Spec.value, hlv, hrv, Spec.arhsVal, ← eval_eq_cmp]


/-! ### the fact store: write then read -/

theorem lookupKV_insertKV_self {α} (kvs : List (Str × α)) (k : Str) (v : α) :
    lookupKV (insertKV kvs k v) k = some v := by
  induction kvs with
  | nil => simp [insertKV, lookupKV]
  | cons kv rest ih =>
    obtain ⟨k', w⟩ := kv
    by_cases h : k' = k
    · simp [insertKV, lookupKV, h]
    · simp [insertKV, lookupKV, h, ih]

theorem lookupKV_insertKV_ne {α} (kvs : List (Str × α)) (k k' : Str) (v : α) (hne : k' ≠ k) :
    lookupKV (insertKV kvs k v) k' = lookupKV kvs k' := by
  induction kvs with
  | nil => simp [insertKV, lookupKV, Ne.symm hne]
  | cons kv rest ih =>
    obtain ⟨k'', w⟩ := kv
    by_cases h : k'' = k
    · subst h; simp [insertKV, lookupKV, Ne.symm hne]
    · by_cases h2 : k'' = k'
      · subst h2; simp [insertKV, lookupKV, h]
      · simp [insertKV, lookupKV, h, h2, ih]

theorem descend_setIn (v : Val F) : ∀ (ps : List Str) (root root' : Val F), ps ≠ [] →
    setIn root ps v = some root' → descend root' ps = some v := by
  intro ps
  induction ps with
  | nil => intro _ _ h; exact absurd rfl h
  | cons p rest ih =>
    intro root root' _ hs
    cases rest with
    | nil =>
      cases root <;> simp [setIn] at hs
      subst hs
      simp [descend, lookupKV_insertKV_self]
    | cons q ps =>
      cases root <;> simp only [setIn] at hs <;> try (cases hs)
      rename_i kvs
      cases hl : lookupKV kvs p with
      | none => simp [hl] at hs
      | some w =>
        simp only [hl] at hs
        cases hw : setIn w (q :: ps) v with
        | none => simp [hw] at hs
        | some w' =>
          simp only [hw, Option.some.injEq] at hs
          subst hs
          simp only [descend, lookupKV_insertKV_self]
          exact ih w w' (by simp) hw

theorem descend_none_of_setIn_none (v : Val F) : ∀ (ps : List Str) (root : Val F), ps ≠ [] →
    setIn root ps v = none → descend root ps = none := by
  intro ps
  induction ps with
  | nil => intro _ h; exact absurd rfl h
  | cons p rest ih =>
    intro root _ hs
    cases rest with
    | nil => cases root <;> simp [setIn] at hs <;> simp [descend]
    | cons q ps =>
      cases root <;> simp only [setIn] at hs <;> try (simp [descend])
      rename_i kvs
      cases hl : lookupKV kvs p with
      | none => simp
      | some w =>
        simp only [hl] at hs
        cases hw : setIn w (q :: ps) v with
        | none => simp; exact ih w (by simp) hw
        | some w' => simp [hw] at hs

theorem splitDot_head_length (s : Str) : ∀ r q ps, splitDot s = r :: q :: ps → r.length < s.length := by
  induction s with
  | nil => intro r q ps h; simp [splitDot] at h
  | cons c cs ih =>
    intro r q ps h
    simp only [splitDot] at h
    by_cases hc : c = '.'
    · simp only [hc, if_true] at h
      injection h with h1 _; subst h1; simp
    · simp only [hc, if_false] at h
      cases hs : splitDot cs with
      | nil => simp [hs] at h
      | cons p rest =>
        simp only [hs] at h
        injection h with h1 h2
        subst h1; subst h2
        have := ih p q ps hs
        simp; omega

/-- after the engine's write (`set_nested`, flat fallback) the condition-side read returns the value,
for every shape of the store -/
theorem lookupNF_setField (f : Facts F) (field : Str) (v : Val F) :
    lookupNF (setField f field v) field = some v := by
  unfold setField setNested lookupNF getNested
  cases hsp : splitDot field with
  | nil => simp [set, get, lookupKV_insertKV_self]
  | cons r rest =>
    cases rest with
    | nil => simp [lookupKV_insertKV_self, descend]
    | cons q ps =>
      have hne : r ≠ field := by
        intro e
        have := splitDot_head_length field r q ps hsp
        rw [e] at this; omega
      simp only []
      cases hr : lookupKV f r with
      | none => simp [set, get, lookupKV_insertKV_ne _ _ _ _ hne, hr, lookupKV_insertKV_self]
      | some root =>
        simp only []
        cases hsi : setIn root (q :: ps) v with
        | some root' =>
          simp [lookupKV_insertKV_self, descend_setIn v (q :: ps) root root' (by simp) hsi]
        | none =>
          simp [set, get, lookupKV_insertKV_ne _ _ _ _ hne, hr,
            descend_none_of_setIn_none v (q :: ps) root (by simp) hsi, lookupKV_insertKV_self]

/-! ### the caller's `remove` -/

theorem lookupKV_removeKV_self {α} (kvs : List (Str × α)) (k : Str) :
    lookupKV (removeKV kvs k) k = none := by
  induction kvs with
  | nil => rfl
  | cons kv rest ih =>
    obtain ⟨k', w⟩ := kv
    by_cases h : k' = k
    · simp [removeKV, h, ih]
    · simp [removeKV, lookupKV, h, ih]

theorem lookupKV_removeKV_ne {α} (kvs : List (Str × α)) (k k' : Str) (hne : k' ≠ k) :
    lookupKV (removeKV kvs k) k' = lookupKV kvs k' := by
  induction kvs with
  | nil => rfl
  | cons kv rest ih =>
    obtain ⟨k'', w⟩ := kv
    by_cases h : k'' = k
    · simp [removeKV, lookupKV, h, ih]
      intro e; exact absurd (h ▸ e : k = k') (fun e' => hne e'.symm)
    · simp [removeKV, lookupKV, h, ih]

end C01
