import RreModel.C01.Lemmas
/-
C01 — property theorems (only). Helper lemmas live in Lemmas.lean.
"Forward chaining runs a rule's actions iff its condition is true; assignments store the RHS value."
Every statement is for an arbitrary float structure `ops : FloatOps F` (no theorem looks inside a
float), arbitrary fact stores and arbitrary (unbounded) expressions / condition trees / rule lists.
-/
namespace C01
variable {F : Type}

/-- **Rightmost-operator splitting is usual precedence and left associativity.** For every
arithmetic AST `e` over well-formed atoms (field names / unsigned numerals / quoted literals free of
operator characters), with any amount of blank padding around each operator, the engine's string
evaluator `evaluate_expression` on the text `render e` returns exactly the structural value of the
precedence-stratified, left-recursive AST (including which error is raised first). -/
theorem evalExprString_render (ops : FloatOps F) (f : Facts F) (e : SumE) (h : e.ok = true) :
    evalExpr ops f e.render = evalSum ops (lookupFN f) e :=
  evalExpr_render ops f h

/-- the same with outer padding and any sufficient recursion bound: the model's fuel (text length
+ 1, the code's own termination measure) is never exhausted on rendered expressions -/
theorem evalExprString_render_fuel (ops : FloatOps F) (f : Facts F) (e : SumE) (h : e.ok = true)
    (n a b : Nat) (hn : e.render.length < n) :
    evalExprN ops f n (spaces a ++ (e.render ++ spaces b)) = evalSum ops (lookupFN f) e :=
  evalExprN_sum ops f h n hn a b

/-- **The text of an arithmetic condition is re-split where the parser joined it.** For
`lhs op rhs` rendered as `parse_single_condition` renders it (`"{lhs} {op} {rhs}"`), the `rfind`
loop over `>= <= == != > <` finds exactly `op` at the position after `lhs`, and the trimmed slices
are `lhs` and `rhs`. -/
theorem arithCond_resplit (L R : Str) (op : CmpOp)
    (hL : Spec.cmpFree L = true) (hR : Spec.cmpFree R = true) (tL : Tight L) (tR : trim R = R) :
    let s := L ++ ' ' :: (op.text ++ ' ' :: R)
    findCmp s cmpOps = some (L.length + 1, op.text, op.toOp) ∧
    trim (s.take (L.length + 1)) = L ∧ trim (s.drop (L.length + 1 + op.text.length)) = R := by
  refine ⟨findCmp_render L R op hL hR, ?_, ?_⟩
  · rw [take_mid]; exact trim_snoc_space tL
  · rw [drop_mid, trim_cons_space]; exact tR

/-- **Operator table.** `Operator::evaluate` is the documented table over value classes, for all
twelve operators and all pairs of values. -/
theorem evalOp_eq_spec (ops : FloatOps F) (op : Operator) (l r : Val F) :
    op.eval ops l r = Spec.cmp ops op l r :=
  eval_eq_cmp ops op l r

/-- **Leaves.** On a well-formed leaf the engine, run on what the parser builds (a `Field`
condition, or a Test-CE whose arithmetic travels as text), computes the documented truth value. -/
theorem evalLeaf_eq_spec (ops : FloatOps F) (f : Facts F) (l : SLeaf F)
    (h : Spec.wfLeaf ops f l = true) :
    evalLeaf ops f (compileLeaf l) = .ok (Spec.leaf ops f l) :=
  evalLeaf_compile ops f l h

/-- **Condition trees** (any depth, any shape): `evaluate_conditions` on the compiled tree returns
`Ok` of the documented meaning `Spec.holds`. -/
theorem evalCond_eq_spec (ops : FloatOps F) (f : Facts F) (c : SCond F) (h : Spec.wf ops f c = true) :
    evalCond ops f (compile c) = .ok (Spec.holds ops f c) := by
  induction c with
  | leaf l => exact evalLeaf_compile ops f l h
  | and l r ihl ihr =>
    simp only [Spec.wf, Bool.and_eq_true] at h
    simp only [compile, evalCond, ihl h.1, ihr h.2, Spec.holds]
  | or l r ihl ihr =>
    simp only [Spec.wf, Bool.and_eq_true] at h
    simp only [compile, evalCond, ihl h.1, ihr h.2, Spec.holds]
  | not c ih =>
    simp only [Spec.wf] at h
    simp only [compile, evalCond, ih h, Spec.holds]

/-- **A considered rule's actions run iff its condition holds** — one step of the pass, at an
arbitrary moment `f` (the facts as left by the rules fired before), for an arbitrary remainder. -/
theorem pass_fires_iff (ops : FloatOps F) (f : Facts F) (r : SRule F) (rs : List (Rule F))
    (h : Spec.wf ops f r.cond = true) :
    pass ops f (compileRule r :: rs) =
      if Spec.holds ops f r.cond then
        (match execActions ops f (r.actions.map compileAction) with
         | (f', some e) => { firings := [], final := f', evaluated := 1, fired := 0, error := some e }
         | (f', none) =>
           let p := pass ops f' rs
           { p with firings := ⟨r.name, f'⟩ :: p.firings, evaluated := p.evaluated + 1, fired := p.fired + 1 })
      else
        (let p := pass ops f rs
         { p with evaluated := p.evaluated + 1 }) := by
  have hc := evalCond_eq_spec ops f r.cond h
  cases hh : Spec.holds ops f r.cond <;> simp only [pass, compileRule, hc, hh] <;> rfl

/-- **The whole pass** (any number of rules): the engine's pass over the compiled rule set is the
documented pass — same firings in the same order with the same facts after each firing, same final
facts, same counters — whenever every condition is in the domain at the moment it is considered. -/
theorem pass_eq_spec (ops : FloatOps F) (rs : List (SRule F)) :
    ∀ f : Facts F, Spec.wfAlong ops f rs = true →
      pass ops f (rs.map compileRule) = Spec.pass ops f rs := by
  induction rs with
  | nil => intro f _; rfl
  | cons r rs ih =>
    intro f h
    simp only [Spec.wfAlong, Bool.and_eq_true] at h
    rw [List.map_cons, pass_fires_iff ops f r _ h.1]
    cases hh : Spec.holds ops f r.cond
    · simp only [hh, Bool.false_eq_true, if_false] at h ⊢
      simp only [Spec.pass, hh, Bool.false_eq_true, if_false, ih f h.2]
    · simp only [hh, if_true] at h ⊢
      simp only [Spec.pass, hh, if_true]
      cases hx : execActions ops f (r.actions.map compileAction) with
      | mk f' e =>
        cases e with
        | some e => rfl
        | none =>
          simp only [hx] at h
          simp only [ih f' h.2]

/-- **A whole `execute` call, any `max_cycles`**: every cycle is the documented pass on the facts the
previous cycle left — a rule considered in a later cycle fires iff its condition holds of the facts
AT THAT MOMENT (nothing evaluated in an earlier cycle is reused). Calls compose the same way: a later
`execute` on the same engine is `cycles` again, from whatever facts the caller hands in. -/
theorem cycles_eq_spec (ops : FloatOps F) (rs : List (SRule F)) :
    ∀ (n : Nat) (f : Facts F), Spec.wfCycles ops n f rs = true →
      cycles ops n f (rs.map compileRule) = Spec.cycles ops n f rs := by
  intro n
  induction n with
  | zero => intro f _; rfl
  | succ n ih =>
    intro f h
    simp only [Spec.wfCycles, Bool.and_eq_true] at h
    have hp := pass_eq_spec ops rs f h.1
    simp only [cycles, Spec.cycles, hp]
    by_cases hc : ((Spec.pass ops f rs).error.isSome || (Spec.pass ops f rs).fired == 0) = true
    · simp only [hc, if_true]
    · have h2 := h.2
      simp only [hc, Bool.false_eq_true, if_false] at h2 ⊢
      rw [ih _ h2]

/-- **Store then read.** After `field = v` the condition-side lookup of `field` returns `v`, for
every shape of the store: root missing, root not an object, nested object, deeper missing link
(nested write first, flat-key fallback otherwise). -/
theorem store_reads_back (f : Facts F) (field : Str) (v : Val F) :
    Spec.field (setField f field v) field = some v :=
  lookupNF_setField f field v

/-- **Assignments store the value the right-hand side has on the pre-state.** -/
theorem set_reads_back (ops : FloatOps F) (f : Facts F) (fld : Str) (rhs : SRhs F)
    (h : Spec.wfRhs ops f rhs = true) :
    ∃ f', execAction ops f (compileAction (.set fld rhs)) = .ok f' ∧
      Spec.field f' fld = some (Spec.rhsVal ops f rhs) := by
  refine ⟨setField f fld (Spec.rhsVal ops f rhs), ?_, lookupNF_setField _ _ _⟩
  cases rhs with
  | lit v => cases v <;> first | rfl | (simp [Spec.wfRhs] at h)
  | expr e =>
    simp only [Spec.wfRhs, Spec.wfExpr, Bool.and_eq_true] at h
    obtain ⟨⟨hok, hu⟩, hd⟩ := h
    cases hv : evalSum ops (Spec.field f) e with
    | error err => simp [hv, Spec.isOk] at hd
    | ok v =>
      simp only [compileAction, compileRhs, execAction, actionValue, evalExpr_spec ops f hok hu, hv,
        Spec.rhsVal, Spec.value]

/-! ## Boundaries of the domain, machine-checked (`decide` on a concrete float structure) -/

/-- a concrete `FloatOps` (exact integers) for closed witnesses -/
def toyOps : FloatOps Int where
  ofInt := id
  parse := fun _ => none
  lt a b := decide (a < b)
  le a b := decide (a ≤ b)
  beq a b := a == b
  add a b := a + b
  sub a b := a - b
  mul a b := a * b
  div a b := a / b
  fmod a b := a % b
  isWhole _ := true
  toInt := id

def isIntV : Res (Val Int) → Int → Bool
  | .ok (.int i), j => i == j
  | _, _ => false

def okTrue : Res Bool → Bool
  | .ok b => b
  | _ => false

def isStrV : Res (Val Int) → Str → Bool
  | .ok (.str s), t => s == t
  | _, _ => false

/-- parenthesised arithmetic would evaluate (to 9) if the evaluator supported grouping … -/
def parenthesised_full : Prop :=
  isIntV (evalExpr toyOps [] ['(', '1', ' ', '+', ' ', '2', ')', ' ', '*', ' ', '3']) 9 = true
/-- … it does not: `(1 + 2)` is looked up as a field name and the evaluation fails -/
theorem parenthesised_counterexample : ¬ parenthesised_full := by unfold parenthesised_full; decide

/-- a signed literal operand: `3 * -2` -/
def signed_operand_full : Prop :=
  isIntV (evalExpr toyOps [] ['3', ' ', '*', ' ', '-', '2']) (-6) = true
theorem signed_operand_counterexample : ¬ signed_operand_full := by unfold signed_operand_full; decide

/-- a leading sign: `-2 + 3` -/
def leading_sign_full : Prop :=
  isIntV (evalExpr toyOps [] ['-', '2', ' ', '+', ' ', '3']) 1 = true
theorem leading_sign_counterexample : ¬ leading_sign_full := by unfold leading_sign_full; decide

/-- an operator character inside a quoted operand: `"a-b" + "c"` -/
def operator_in_string_full : Prop :=
  isStrV (evalExpr toyOps [] ['"', 'a', '-', 'b', '"', ' ', '+', ' ', '"', 'c', '"']) ['a', '-', 'b', 'c'] = true
theorem operator_in_string_counterexample : ¬ operator_in_string_full := by unfold operator_in_string_full; decide

/-- a quoted string literal on the right of a field comparison is a literal even when a fact of
that name exists … -/
def string_literal_is_literal_full : Prop :=
  ∀ (f : Facts Int) (name : Str) (op : Operator) (s : Str), isRetracted f name = false →
    evalLeaf toyOps f (.field name op (.str s)) = .ok (Spec.cmp toyOps op (Spec.fieldVal f name) (.str s))
/-- … the engine dereferences it (`s == "abc"` with `s = "abc"` and a fact `abc = 5` is false):
excluded from the domain by `wfLeaf` -/
theorem string_literal_is_literal_counterexample : ¬ string_literal_is_literal_full := by
  intro h
  have h1 := h [(['s'], .str ['a', 'b', 'c']), (['a', 'b', 'c'], .int 5)] ['s'] .eq ['a', 'b', 'c'] (by decide)
  have h2 : okTrue (evalLeaf toyOps [(['s'], .str ['a', 'b', 'c']), (['a', 'b', 'c'], .int 5)]
      (.field ['s'] .eq (.str ['a', 'b', 'c']))) = false := by decide
  rw [h1] at h2
  revert h2
  decide

/-- the behaviour before fix-C01: a reference to an absent field on the right-hand side was kept
as an `Expression` value instead of reading as null … -/
def resolveRhsPreFix (ops : FloatOps F) (f : Facts F) : Val F → Res (Val F)
  | .expr e =>
    match evalExpr ops f e with
    | .ok v => .ok v
    | .error .panic => .error .panic
    | .error _ => .ok ((lookupNF f e).getD (.expr e))
  | v => resolveRhs ops f v

/-- … so `x == y` with both fields absent (null == null) was false, and `x != y` true -/
theorem prefix_absent_reference_counterexample :
    (match resolveRhsPreFix toyOps ([] : Facts Int) (.expr ['y']) with
     | .ok rhs => Operator.eq.eval toyOps .null rhs
     | .error _ => false) = false ∧
    Spec.leaf toyOps ([] : Facts Int) (.fieldCmp ['x'] .eq (.expr (.term (.atom (.tok ['y']))))) = true ∧
    okTrue (evalLeaf toyOps ([] : Facts Int) (compileLeaf (.fieldCmp ['x'] .eq (.expr (.term (.atom (.tok ['y']))))))) = true := by
  decide

/-! ## Non-vacuity: concrete instances meeting the hypotheses -/

/-- `a + b * c - 4 / 2` with a = 10, b = 5, c = 2: precedence and left associativity give 18 -/
def exExpr : SumE :=
  .bin (.bin (.term (.atom (.tok ['a']))) 1 .add 1 (.bin (.atom (.tok ['b'])) 0 .mul 2 (.tok ['c'])))
    1 .sub 0 (.bin (.atom (.tok ['4'])) 1 .div 1 (.tok ['2']))

def exFacts : Facts Int := [(['a'], .int 10), (['b'], .int 5), (['c'], .int 2),
  (['o'], .obj [(['x'], .int 7)]), (['n'], .int 3)]

example : exExpr.ok = true := by decide
example : exExpr.render = "a + b*  c -4 / 2".toList := by decide
example : isIntV (evalExpr toyOps exFacts exExpr.render) 18 = true := by decide
example : isIntV (evalSum toyOps (lookupFN exFacts) exExpr) 18 = true := by decide

/-- `(a + b*  c -4 / 2 >= n + 15) && !(o.x == "q")` : well-formed, holds, and the engine agrees -/
def exCond : SCond Int :=
  .and (.leaf (.arithCmp exExpr .ge (.expr (.bin (.term (.atom (.tok ['n']))) 1 .add 1 (.atom (.tok ['1', '5']))))))
       (.not (.leaf (.fieldCmp ['o', '.', 'x'] .eq (.lit (.str ['q'])))))

example : Spec.wf toyOps exFacts exCond = true := by decide
example : Spec.holds toyOps exFacts exCond = true := by decide
example : okTrue (evalCond toyOps exFacts (compile exCond)) = true := by decide

def exRules : List (SRule Int) :=
  [{ name := 0, cond := exCond, actions := [.set ['o', '.', 'y'] (.expr exExpr), .set ['m', '.', 'z'] (.lit (.int 1))] },
   { name := 1, cond := .leaf (.fieldCmp ['o', '.', 'y'] .lt (.lit (.int 18))), actions := [.set ['a'] (.lit .null)] }]

example : Spec.wfAlong toyOps exFacts exRules = true := by decide
example : (pass toyOps exFacts (exRules.map compileRule)).fired = 1 := by decide
example : (pass toyOps exFacts (exRules.map compileRule)).firings.map (·.rule) = [0] := by decide

/-- read-back on each store shape: nested object, root missing, root not an object, deeper missing link -/
example : isIntV (match Spec.field (setField exFacts ['o', '.', 'x'] (.int 1)) ['o', '.', 'x'] with
  | some v => .ok v | none => .error .notFound) 1 = true := by decide
example : isIntV (match Spec.field (setField exFacts ['q', '.', 'x'] (.int 1)) ['q', '.', 'x'] with
  | some v => .ok v | none => .error .notFound) 1 = true := by decide
example : isIntV (match Spec.field (setField exFacts ['a', '.', 'x'] (.int 1)) ['a', '.', 'x'] with
  | some v => .ok v | none => .error .notFound) 1 = true := by decide
example : isIntV (match Spec.field (setField exFacts ['o', '.', 'p', '.', 'q'] (.int 1)) ['o', '.', 'p', '.', 'q'] with
  | some v => .ok v | none => .error .notFound) 1 = true := by decide
example : Spec.wfRhs toyOps exFacts (.expr exExpr) = true := by decide

/-- `when q >= floor + step then floor = floor + step` with q = 23, floor = 0, step = 10: true for
floor = 0 and 10, false for 20 — two firings, the third cycle fires nothing and ends the call -/
def exLoop : List (SRule Int) :=
  [{ name := 0,
     cond := .leaf (.fieldCmp ['q'] .ge (.expr (.bin (.term (.atom (.tok ['f', 'l']))) 1 .add 1 (.atom (.tok ['s', 't']))))),
     actions := [.set ['f', 'l'] (.expr (.bin (.term (.atom (.tok ['f', 'l']))) 1 .add 1 (.atom (.tok ['s', 't']))))] }]

def exLoopFacts : Facts Int := [(['q'], .int 23), (['f', 'l'], .int 0), (['s', 't'], .int 10)]

example : Spec.wfCycles toyOps 5 exLoopFacts exLoop = true := by decide
example : (cycles toyOps 5 exLoopFacts (exLoop.map compileRule)).fired = 2 := by decide
example : (cycles toyOps 5 exLoopFacts (exLoop.map compileRule)).evaluated = 3 := by decide
example : isIntV (match Spec.field (cycles toyOps 5 exLoopFacts (exLoop.map compileRule)).final ['f', 'l'] with
  | some v => .ok v | none => .error .notFound) 20 = true := by decide

/-! ## The caller's side: several `execute` calls, fact-store edits in between -/

/-- **Any number of `execute` calls on one engine, the caller editing the store in between**
(`add_value`/`add`, `set`, `set_nested`, `remove`, `clear`, or the same content in a new `Facts`
object): call by call the engine's result is the documented cycle loop on the facts handed in. -/
theorem calls_eq_spec (ops : FloatOps F) (n : Nat) (rs : List (SRule F)) :
    ∀ (phs : List (List (CallerOp F))) (f : Facts F), Spec.wfCalls ops n rs f phs = true →
      calls ops n (rs.map compileRule) f phs = Spec.calls ops n rs f phs := by
  intro phs
  induction phs with
  | nil =>
    intro f h
    simp only [Spec.wfCalls] at h
    simp only [calls, Spec.calls, cycles_eq_spec ops rs n f h]
  | cons ph rest ih =>
    intro f h
    simp only [Spec.wfCalls, Bool.and_eq_true] at h
    simp only [calls, Spec.calls, cycles_eq_spec ops rs n f h.1]
    rw [ih _ h.2]

/-- **A successful caller-side `set_nested` reads back** through the condition-side lookup -/
theorem caller_setNested_reads_back (f f' : Facts F) (p : Str) (v : Val F)
    (h : setNested f p v = some f') :
    Spec.field (applyCaller f (.setNested p v)) p = some v := by
  have hs := lookupNF_setField f p v
  simp only [setField, h] at hs
  simp only [applyCaller, h, Spec.field, hs]

/-- a failed caller-side `set_nested` (missing root / link, non-object on the way) changes nothing -/
theorem caller_setNested_err_unchanged (f : Facts F) (p : Str) (v : Val F)
    (h : setNested f p v = none) : applyCaller f (.setNested p v) = f := by
  simp only [applyCaller, h]

/-- **After `remove(k)` every path rooted at `k` is absent** (so a condition on it reads null),
and every other top-level fact is untouched -/
theorem caller_remove_absent (f : Facts F) (k path : Str) (ps : List Str)
    (h : splitDot path = k :: ps) :
    getNested (applyCaller f (.remove k)) path = none ∧ get (applyCaller f (.remove k)) k = none ∧
      ∀ k', k' ≠ k → get (applyCaller f (.remove k)) k' = get f k' := by
  refine ⟨?_, ?_, ?_⟩
  · simp only [getNested, h, applyCaller, lookupKV_removeKV_self]
  · simp only [get, applyCaller, lookupKV_removeKV_self]
  · intro k' hne
    simp only [get, applyCaller, lookupKV_removeKV_ne _ _ _ hne]

/-- **After `clear()` every field reads null** -/
theorem caller_clear_reads_null (f : Facts F) (name : Str) :
    Spec.fieldVal (applyCaller f .clear) name = .null := by
  simp only [Spec.fieldVal, Spec.field, lookupNF, getNested, get, applyCaller]
  cases splitDot name <;> simp [lookupKV]

example : Spec.wfCalls toyOps 5 exLoop exLoopFacts
    [[.set ['q'] (.int 45), .remove ['z']], [.setNested ['f', 'l'] (.int 0)]] = true := by decide
example : (calls toyOps 5 (exLoop.map compileRule) exLoopFacts
    [[.set ['q'] (.int 45), .remove ['z']], [.setNested ['f', 'l'] (.int 0)]]).map (·.fired) = [2, 2, 4] := by decide
example : (get (applyCaller exLoopFacts (.remove ['q'])) ['q']).isNone = true := by decide
example : (get (applyCaller exLoopFacts (.remove ['q'])) ['s', 't']).isSome = true := by decide
example : (setNested exFacts ['o', '.', 'x'] (.int 7)).isSome = true := by decide
example : (setNested exFacts ['q', '.', 'x'] (.int 7)).isNone = true := by decide
example : splitDot ['o', '.', 'x'] = ['o'] :: [['x']] := by decide

end C01
