/-
C01 — executable model of the forward engine's condition evaluation and assignment:
  src/types.rs        Value, Operator::evaluate, Value::to_number
  src/expression.rs   evaluate_expression, find_operator, apply_operator
  src/engine/facts.rs get, get_nested, set, set_nested, set_nested_in_value
  src/engine/engine.rs evaluate_conditions, evaluate_single_condition,
                      evaluate_arithmetic_condition, execute_action (Set, Append), one pass of execute,
                      the cycle loop of execute (`cycles`)
Strings are `List Char` (the code is char/byte indexed on ASCII input; multibyte input is C05's subject).
Floats are abstract: everything is parametric in `FloatOps F`; no definition or theorem looks inside `F`.
-/
namespace C01

abbrev Str := List Char

/-- the float operations the code uses (`f64`): never inspected by any theorem -/
structure FloatOps (F : Type) where
  ofInt : Int → F                 -- `i as f64`
  parse : Str → Option F          -- `str::parse::<f64>().ok()`
  lt : F → F → Bool
  le : F → F → Bool
  beq : F → F → Bool              -- IEEE `==`
  add : F → F → F
  sub : F → F → F
  mul : F → F → F
  div : F → F → F
  fmod : F → F → F                -- `%`
  isWhole : F → Bool              -- `x.fract() == 0.0`
  toInt : F → Int                 -- `x as i64`

/-- `types.rs` `Value` -/
inductive Val (F : Type) where
  | str (s : Str)
  | num (x : F)
  | int (i : Int)
  | bool (b : Bool)
  | arr (xs : List (Val F))
  | obj (kvs : List (Str × Val F))
  | null
  | expr (e : Str)

instance {F} : Inhabited (Val F) := ⟨.null⟩

/-- a `HashMap<String, Value>` as an association list (first match wins; insert replaces in place) -/
def lookupKV {α} : List (Str × α) → Str → Option α
  | [], _ => none
  | (k, v) :: rest, key => if k = key then some v else lookupKV rest key

def insertKV {α} : List (Str × α) → Str → α → List (Str × α)
  | [], key, v => [(key, v)]
  | (k, w) :: rest, key, v => if k = key then (k, v) :: rest else (k, w) :: insertKV rest key v

abbrev Facts (F : Type) := List (Str × Val F)

variable {F : Type}

/-! ### `Value: PartialEq` (derived; `HashMap` equality is order-independent) -/
mutual
def Val.beq (ops : FloatOps F) : Val F → Val F → Bool
  | .str a, .str b => a == b
  | .num a, .num b => ops.beq a b
  | .int a, .int b => a == b
  | .bool a, .bool b => a == b
  | .arr a, .arr b => Val.beqList ops a b
  | .obj a, .obj b => a.length == b.length && Val.subObj ops a b
  | .null, .null => true
  | .expr a, .expr b => a == b
  | _, _ => false
def Val.beqList (ops : FloatOps F) : List (Val F) → List (Val F) → Bool
  | [], [] => true
  | x :: xs, y :: ys => Val.beq ops x y && Val.beqList ops xs ys
  | _, _ => false
def Val.subObj (ops : FloatOps F) : List (Str × Val F) → List (Str × Val F) → Bool
  | [], _ => true
  | (k, v) :: rest, b =>
    (match lookupKV b k with
     | some w => Val.beq ops v w
     | none => false) && Val.subObj ops rest b
end

/-! ### facts.rs -/

/-- `path.split('.')` (never empty) -/
def splitDot : Str → List Str
  | [] => [[]]
  | c :: cs =>
    if c = '.' then [] :: splitDot cs
    else match splitDot cs with
      | [] => [[c]]
      | p :: ps => (c :: p) :: ps

/-- the loop of `get_nested` below the root -/
def descend : Val F → List Str → Option (Val F)
  | v, [] => some v
  | .obj kvs, p :: ps =>
    match lookupKV kvs p with
    | some w => descend w ps
    | none => none
  | _, _ :: _ => none

/-- `Facts::get` -/
def get (f : Facts F) (k : Str) : Option (Val F) := lookupKV f k

/-- `Facts::get_nested` -/
def getNested (f : Facts F) (path : Str) : Option (Val F) :=
  match splitDot path with
  | [] => none
  | r :: ps =>
    match lookupKV f r with
    | some v => descend v ps
    | none => none

/-- `set_nested_in_value`; `none` = `Err` (FieldNotFound / TypeMismatch) -/
def setIn : Val F → List Str → Val F → Option (Val F)
  | cur, [], _ => some cur
  | .obj kvs, [p], v => some (.obj (insertKV kvs p v))
  | _, [_], _ => none
  | .obj kvs, p :: q :: ps, v =>
    match lookupKV kvs p with
    | none => none
    | some w =>
      match setIn w (q :: ps) v with
      | some w' => some (.obj (insertKV kvs p w'))
      | none => none
  | _, _ :: _ :: _, _ => none

/-- `Facts::set_nested`; `none` = `Err`, facts unchanged -/
def setNested (f : Facts F) (path : Str) (v : Val F) : Option (Facts F) :=
  match splitDot path with
  | [] => none
  | [r] => some (insertKV f r v)
  | r :: q :: ps =>
    match lookupKV f r with
    | none => none
    | some root =>
      match setIn root (q :: ps) v with
      | some root' => some (insertKV f r root')
      | none => none

/-- `Facts::set` -/
def set (f : Facts F) (k : Str) (v : Val F) : Facts F := insertKV f k v

/-- the engine's write: `if set_nested(..).is_err() { set(..) }` -/
def setField (f : Facts F) (field : Str) (v : Val F) : Facts F :=
  match setNested f field v with
  | some f' => f'
  | none => set f field v

/-- nested first, then flat (`evaluate_single_condition`) -/
def lookupNF (f : Facts F) (name : Str) : Option (Val F) :=
  match getNested f name with
  | some v => some v
  | none => get f name

/-- flat first, then nested (`evaluate_expression`) -/
def lookupFN (f : Facts F) (name : Str) : Option (Val F) :=
  match get f name with
  | some v => some v
  | none => getNested f name

/-! ### string helpers -/

/-- ASCII whitespace removed by `str::trim` (Unicode whitespace: outside the generated domain) -/
def isWs (c : Char) : Bool :=
  c = ' ' || c = '\t' || c = '\n' || c = '\r' || c = '\x0b' || c = '\x0c'

def trimStart (s : Str) : Str := s.dropWhile isWs
def trimEnd (s : Str) : Str := (s.reverse.dropWhile isWs).reverse
def trim (s : Str) : Str := trimEnd (trimStart s)

def isDigit (c : Char) : Bool := '0' ≤ c && c ≤ '9'

/-- value of a non-empty all-digit string -/
def digitsVal : Str → Option Nat
  | [] => none
  | s => if s.all isDigit then some (s.foldl (fun n c => 10 * n + (c.toNat - '0'.toNat)) 0) else none

/-- `str::parse::<i64>()`: optional sign, digits, range check -/
def parseInt (s : Str) : Option Int :=
  match s with
  | '-' :: r => match digitsVal r with
    | some n => if n ≤ 9223372036854775808 then some (-(n : Int)) else none
    | none => none
  | '+' :: r => match digitsVal r with
    | some n => if n < 9223372036854775808 then some (n : Int) else none
    | none => none
  | _ => match digitsVal s with
    | some n => if n < 9223372036854775808 then some (n : Int) else none
    | none => none

/-! ### expression.rs -/

inductive Err where
  | notFound      -- "Field '..' not found in facts"
  | concat        -- "Only strings can be concatenated"
  | divZero       -- "Division by zero"
  | badOp         -- "Unknown operator" / no comparison operator / NOT in a compound
  | fuel          -- the model's recursion bound (string length) was exhausted: never happens
  | notNumber     -- "Cannot convert … to number": a non-numeric operand of `- * / %` (an `Err` since fix F-C05g)
  | panic         -- kept for the pre-F-C05g behaviour (`Result::unwrap()` on that `Err`): no longer produced
deriving DecidableEq, Repr

abbrev Res (α : Type) := Except Err α

def addOps : List Char := ['+', '-']
def mulOps : List Char := ['*', '/', '%']

/-- `find_operator`: rightmost operator of the set at parenthesis depth 0 (depth may go negative) -/
def findOpAux (opset : List Char) : Str → Int → Nat → Option Nat → Option Nat
  | [], _, _, last => last
  | c :: cs, d, i, last =>
    if c = '(' then findOpAux opset cs (d + 1) (i + 1) last
    else if c = ')' then findOpAux opset cs (d - 1) (i + 1) last
    else if d = 0 ∧ c ∈ opset then findOpAux opset cs d (i + 1) (some i)
    else findOpAux opset cs d (i + 1) last

def findOp (opset : List Char) (s : Str) : Option Nat := findOpAux opset s 0 0 none

/-- `value_to_number` -/
def toNumber (ops : FloatOps F) : Val F → Option F
  | .int i => some (ops.ofInt i)
  | .num x => some x
  | .str s => ops.parse s
  | _ => none

def isIntVal : Val F → Bool
  | .int _ => true
  | _ => false

/-- the numeric tail of `apply_operator` -/
def arith (ops : FloatOps F) (l : Val F) (a : F) (op : Char) (r : Val F) (b : F) : Res (Val F) :=
  let fin (x : F) : Res (Val F) :=
    if isIntVal l && isIntVal r && ops.isWhole x then .ok (.int (ops.toInt x)) else .ok (.num x)
  if op = '+' then fin (ops.add a b)
  else if op = '-' then fin (ops.sub a b)
  else if op = '*' then fin (ops.mul a b)
  else if op = '/' then (if ops.beq b (ops.ofInt 0) then .error .divZero else fin (ops.div a b))
  else if op = '%' then fin (ops.fmod a b)
  else .error .badOp

/-- `apply_operator` -/
def applyOp (ops : FloatOps F) (l : Val F) (op : Char) (r : Val F) : Res (Val F) :=
  match toNumber ops l, toNumber ops r with
  | some a, some b => arith ops l a op r b
  | _, _ =>
    if op = '+' then
      match l, r with
      | .str s1, .str s2 => .ok (.str (s1 ++ s2))
      | _, _ => .error .concat
    else .error .notNumber    -- `left_num?` / `right_num?`: the conversion error is returned (it was unwrapped before F-C05g)

/-- the string-literal test of `evaluate_expression` -/
def quotedTail (q : Char) : Str → Bool
  | d :: midr => d = q && !(midr.contains q)
  | [] => false

def isQuoted (q : Char) (s : Str) : Bool :=
  match s with
  | c :: rest => c = q && quotedTail q rest.reverse
  | [] => false

def unquote (s : Str) : Str := (s.drop 1).dropLast

/-- the operator-free tail of `evaluate_expression`: literal classification, then field lookup -/
def evalToken (ops : FloatOps F) (f : Facts F) (s : Str) : Res (Val F) :=
  if isQuoted '"' s || isQuoted '\'' s then .ok (.str (unquote s))
  else match parseInt s with
    | some i => .ok (.int i)
    | none =>
      match ops.parse s with
      | some x => .ok (.num x)
      | none =>
        match lookupFN f s with
        | some v => .ok v
        | none => .error .notFound

/-- split at `pos`, evaluate both sides with `rec` (left first), apply the operator character -/
def splitEval (ops : FloatOps F) (rec : Str → Res (Val F)) (s : Str) (pos : Nat) : Res (Val F) :=
  match s.drop pos with
  | [] => .error .badOp
  | c :: right =>
    match rec (s.take pos) with
    | .error e => .error e
    | .ok lv =>
      match rec right with
      | .error e => .error e
      | .ok rv => applyOp ops lv c rv

/-- `evaluate_expression` with an explicit recursion bound (each call is on a strictly shorter
string, so `length + 1` suffices — see `evalExpr`) -/
def evalExprN (ops : FloatOps F) (f : Facts F) : Nat → Str → Res (Val F)
  | 0, _ => .error .fuel
  | n + 1, s0 =>
    let s := trim s0
    match findOp addOps s with
    | some pos => splitEval ops (evalExprN ops f n) s pos
    | none =>
      match findOp mulOps s with
      | some pos => splitEval ops (evalExprN ops f n) s pos
      | none => evalToken ops f s

/-- `evaluate_expression` -/
def evalExpr (ops : FloatOps F) (f : Facts F) (s : Str) : Res (Val F) :=
  evalExprN ops f (s.length + 1) s

/-! ### types.rs `Operator` -/

inductive Operator where
  | eq | ne | gt | ge | lt | le | contains | notContains | startsWith | endsWith | matches | isIn
deriving DecidableEq, Repr

def isInfix : Str → Str → Bool
  | [], [] => true
  | [], _ :: _ => false
  | c :: cs, pat => (pat.isPrefixOf (c :: cs)) || isInfix cs pat

/-- `Value::to_number` (same as `value_to_number`) used by the ordering operators -/
def isNullV : Val F → Bool
  | .null => true
  | _ => false

def nullLike : Val F → Bool
  | .null => true
  | .str s => s == "null".toList
  | _ => false

def strOp (p : Str → Str → Bool) : Val F → Val F → Bool
  | .str a, .str b => p a b
  | _, _ => false

def numOp (ops : FloatOps F) (p : F → F → Bool) (l r : Val F) : Bool :=
  match toNumber ops l, toNumber ops r with
  | some a, some b => p a b
  | _, _ => false

/-- `Operator::evaluate` -/
def Operator.eval (ops : FloatOps F) (op : Operator) (l r : Val F) : Bool :=
  match op with
  | .eq => if isNullV l || isNullV r then nullLike l == nullLike r else Val.beq ops l r
  | .ne => if isNullV l || isNullV r then nullLike l != nullLike r else !(Val.beq ops l r)
  | .gt => numOp ops (fun a b => ops.lt b a) l r
  | .ge => numOp ops (fun a b => ops.le b a) l r
  | .lt => numOp ops (fun a b => ops.lt a b) l r
  | .le => numOp ops (fun a b => ops.le a b) l r
  | .contains => strOp (fun a b => isInfix a b) l r
  | .notContains => strOp (fun a b => !(isInfix a b)) l r
  | .startsWith => strOp (fun a b => b.isPrefixOf a) l r
  | .endsWith => strOp (fun a b => b.isSuffixOf a) l r
  | .matches => strOp (fun a b => isInfix a b) l r
  | .isIn => match r with
    | .arr xs => xs.any (fun x => Val.beq ops x l)
    | _ => false

/-! ### engine.rs: conditions -/

/-- `ConditionExpression::{Field, Test}` + operator + value (function calls / multifield are outside
the typed core; no custom function is registered) -/
inductive Leaf (F : Type) where
  | field (name : Str) (op : Operator) (value : Val F)
  | test (s : Str)

inductive LogOp where
  | and | or | not
deriving DecidableEq, Repr

/-- `ConditionGroup::{Single, Compound, Not}` -/
inductive Cond (F : Type) where
  | single (l : Leaf F)
  | compound (l : Cond F) (op : LogOp) (r : Cond F)
  | not (c : Cond F)

def retractKey (name : Str) : Str :=
  "_retracted_".toList ++ (match splitDot name with | r :: _ => r | [] => [])

/-- `is_retracted` on the object part of a field name -/
def isRetracted (f : Facts F) (name : Str) : Bool :=
  match get f (retractKey name) with
  | some (.bool true) => true
  | _ => false

/-- characters of a plain field reference (`is_alphanumeric() || '_' || '.'`; ASCII domain) -/
def atomChar (c : Char) : Bool := c.isAlphanum || c = '_' || c = '.'

/-- RHS resolution of `evaluate_single_condition` (String: lookup else literal; Expression: evaluate,
else lookup, else — after fix-C01 — null for a plain reference to an absent field, the Expression
itself otherwise) -/
def resolveRhs (ops : FloatOps F) (f : Facts F) : Val F → Res (Val F)
  | .str s => .ok ((lookupNF f s).getD (.str s))
  | .expr e =>
    match evalExpr ops f e with
    | .ok v => .ok v
    | .error .panic => .error .panic
    | .error _ => .ok ((lookupNF f e).getD (if e.all atomChar then .null else .expr e))
  | v => .ok v

/-- `str::rfind(pat)` for a non-empty pattern: start index of the last occurrence -/
def rfindAux (pat : Str) : Str → Nat → Option Nat → Option Nat
  | [], _, last => last
  | c :: cs, i, last =>
    rfindAux pat cs (i + 1) (if pat.isPrefixOf (c :: cs) then some i else last)

def rfind (s pat : Str) : Option Nat := rfindAux pat s 0 none

def cmpOps : List (Str × Operator) :=
  [(">=".toList, .ge), ("<=".toList, .le), ("==".toList, .eq), ("!=".toList, .ne),
   (">".toList, .gt), ("<".toList, .lt)]

/-- the `for op in &operators { if let Some(pos) = expr.rfind(op) {..; break} }` loop -/
def findCmp (s : Str) : List (Str × Operator) → Option (Nat × Str × Operator)
  | [] => none
  | (pat, op) :: rest =>
    match rfind s pat with
    | some pos => some (pos, pat, op)
    | none => findCmp s rest

/-- "Parse right value" of `evaluate_arithmetic_condition` -/
def arithRhs (ops : FloatOps F) (f : Facts F) (r : Str) : Res (Val F) :=
  match parseInt r with
  | some i => .ok (.int i)
  | none =>
    match ops.parse r with
    | some x => .ok (.num x)
    | none =>
      match evalExpr ops f r with
      | .ok v => .ok v
      | .error .panic => .error .panic
      | .error _ => .ok (.str r)

/-- `evaluate_arithmetic_condition` -/
def evalArithCond (ops : FloatOps F) (f : Facts F) (s : Str) : Res Bool :=
  match findCmp s cmpOps with
  | none => .error .badOp
  | some (pos, pat, op) =>
    match evalExpr ops f (trim (s.take pos)) with
    | .error e => .error e
    | .ok lv =>
      match arithRhs ops f (trim (s.drop (pos + pat.length))) with
      | .error e => .error e
      | .ok rv => .ok (op.eval ops lv rv)

/-- `evaluate_single_condition` -/
def evalLeaf (ops : FloatOps F) (f : Facts F) : Leaf F → Res Bool
  | .field name op value =>
    if isRetracted f name then .ok false
    else
      match resolveRhs ops f value with
      | .error e => .error e
      | .ok rhs => .ok (op.eval ops ((lookupNF f name).getD .null) rhs)
  | .test s =>
    match evalArithCond ops f s with
    | .ok b => .ok b
    | .error .panic => .error .panic
    | .error _ => .ok false

/-- `evaluate_conditions`: both sides of a compound are always evaluated (no short circuit) -/
def evalCond (ops : FloatOps F) (f : Facts F) : Cond F → Res Bool
  | .single l => evalLeaf ops f l
  | .compound l op r =>
    match evalCond ops f l with
    | .error e => .error e
    | .ok a =>
      match evalCond ops f r with
      | .error e => .error e
      | .ok b =>
        match op with
        | .and => .ok (a && b)
        | .or => .ok (a || b)
        | .not => .error .badOp
  | .not c =>
    match evalCond ops f c with
    | .error e => .error e
    | .ok a => .ok (!a)

/-! ### engine.rs: actions and one pass -/

inductive Action (F : Type) where
  | set (field : Str) (value : Val F)
  | append (field : Str) (value : Val F)

/-- "Evaluate expression if value is an Expression" -/
def actionValue (ops : FloatOps F) (f : Facts F) : Val F → Res (Val F)
  | .expr e => evalExpr ops f e
  | v => .ok v

/-- `execute_action` for `Set` and `Append` -/
def execAction (ops : FloatOps F) (f : Facts F) : Action F → Res (Facts F)
  | .set field value =>
    match actionValue ops f value with
    | .error e => .error e
    | .ok v => .ok (setField f field v)
  | .append field value =>
    match actionValue ops f value with
    | .error e => .error e
    | .ok v =>
      let cur : List (Val F) := match get f field with     -- flat `facts.get(field)` only
        | some (.arr xs) => xs
        | _ => []
      .ok (setField f field (.arr (cur ++ [v])))

/-- the action loop of a firing; on an error the facts keep the effects of the earlier actions -/
def execActions (ops : FloatOps F) : Facts F → List (Action F) → Facts F × Option Err
  | f, [] => (f, none)
  | f, a :: as =>
    match execAction ops f a with
    | .error e => (f, some e)
    | .ok f' => execActions ops f' as

structure Rule (F : Type) where
  name : Nat
  cond : Cond F
  actions : List (Action F)

/-- what the callback of `execute_with_callback` sees: rule name and the facts after the firing -/
structure Firing (F : Type) where
  rule : Nat
  post : Facts F

structure PassResult (F : Type) where
  firings : List (Firing F)
  final : Facts F
  evaluated : Nat
  fired : Nat
  error : Option Err       -- `Err(..)` returned (or panic) — the pass stops there

/-- one cycle (`max_cycles = 1`) over rules without special attributes, in knowledge-base order -/
def pass (ops : FloatOps F) : Facts F → List (Rule F) → PassResult F
  | f, [] => { firings := [], final := f, evaluated := 0, fired := 0, error := none }
  | f, r :: rs =>
    match evalCond ops f r.cond with
    | .error e => { firings := [], final := f, evaluated := 1, fired := 0, error := some e }
    | .ok false =>
      let p := pass ops f rs
      { p with evaluated := p.evaluated + 1 }
    | .ok true =>
      match execActions ops f r.actions with
      | (f', some e) => { firings := [], final := f', evaluated := 1, fired := 0, error := some e }
      | (f', none) =>
        let p := pass ops f' rs
        { p with firings := ⟨r.name, f'⟩ :: p.firings, evaluated := p.evaluated + 1, fired := p.fired + 1 }

/-- sequencing of two stretches of one `execute` call: firings and counters accumulate, the later
stretch decides the final facts and the error -/
def PassResult.andThen (p q : PassResult F) : PassResult F :=
  { firings := p.firings ++ q.firings, final := q.final, evaluated := p.evaluated + q.evaluated,
    fired := p.fired + q.fired, error := q.error }

/-- the `for cycle in 0..max_cycles` loop of `execute_at_time` / `execute_with_callback` (rules without
attributes): one pass per cycle on the facts the previous cycle left, until a cycle fires no rule
(`if !any_rule_fired { break }`), an action or condition returns `Err` (`?`), or `max_cycles` passes
were made. Nothing but the facts travels from one cycle — or one `execute` call — to the next. -/
def cycles (ops : FloatOps F) : Nat → Facts F → List (Rule F) → PassResult F
  | 0, f, _ => { firings := [], final := f, evaluated := 0, fired := 0, error := none }
  | n + 1, f, rs =>
    let p := pass ops f rs
    if p.error.isSome || p.fired == 0 then p
    else p.andThen (cycles ops n p.final rs)

/-! ### the caller's side: engine construction and fact-store operations between `execute` calls -/

/-- `EngineConfig::default().max_cycles` — what `RustRuleEngine::new` runs with -/
def defaultMaxCycles : Nat := 100

/-- `HashMap::remove` on the association list (every entry of the key) -/
def removeKV {α} : List (Str × α) → Str → List (Str × α)
  | [], _ => []
  | (k, w) :: rest, key => if k = key then removeKV rest key else (k, w) :: removeKV rest key

/-- what a caller does to the `Facts` object between two `execute` calls -/
inductive CallerOp (F : Type) where
  /-- `Facts::add_value(k, v)` / `Facts::add(k, serialisable)` -/
  | add (k : Str) (v : Val F)
  /-- `Facts::set(k, v)` (flat key) -/
  | set (k : Str) (v : Val F)
  /-- `Facts::set_nested(path, v)`; an `Err` leaves the store as it was -/
  | setNested (path : Str) (v : Val F)
  /-- `Facts::remove(k)` -/
  | remove (k : Str)
  /-- `Facts::clear()` -/
  | clear

def applyCaller (f : Facts F) : CallerOp F → Facts F
  | .add k v => insertKV f k v
  | .set k v => set f k v
  | .setNested p v =>
    match setNested f p v with
    | some f' => f'
    | none => f
  | .remove k => removeKV f k
  | .clear => []

def applyCallerOps (f : Facts F) (ops : List (CallerOp F)) : Facts F := ops.foldl applyCaller f

/-- several `execute` calls on ONE engine object; between two calls the caller edits the store (or
hands the same content over in a new `Facts` object — `merge`, `snapshot`/`restore`,
`to_context`/`from_context`, which carry exactly the content). One result per call. -/
def calls (ops : FloatOps F) (n : Nat) (rs : List (Rule F)) : Facts F → List (List (CallerOp F)) → List (PassResult F)
  | f, [] => [cycles ops n f rs]
  | f, ph :: rest =>
    let r := cycles ops n f rs
    r :: calls ops n rs (applyCallerOps r.final ph) rest

end C01
