import RreModel.C16.Spec2
import RreModel.C16.Lemmas
/-
C16, part 2 — lemmas: the modelled `Debug` text is a prefix code (uniquely decodable whatever
follows it), hence injective up to the text of the floats.
-/
namespace C16
variable {F : Type}

/-! ### digits -/

theorem mem_toDigits_digitChar (b : Nat) (hb : 1 < b) : ∀ (n : Nat) (c : Char), c ∈ Nat.toDigits b n → ∃ d : Nat, c = d.digitChar := by
  intro n
  induction n using Nat.strongRecOn with
  | _ n ih =>
    intro c hc
    rw [Nat.toDigits_eq_if hb] at hc
    split at hc
    · simp only [List.mem_singleton] at hc; exact ⟨n, hc⟩
    · rename_i hlt
      simp only [List.mem_append, List.mem_singleton] at hc
      rcases hc with hc | hc
      · exact ih (n / b) (Nat.div_lt_self (by omega) hb) c hc
      · exact ⟨n % b, hc⟩

/-- a character that is not a digit character does not occur in a number -/
theorem not_mem_toDigits (b : Nat) (hb : 1 < b) (n : Nat) (c : Char)
    (h : (c != '0' && c != '1' && c != '2' && c != '3' && c != '4' && c != '5' &&
         c != '6' && c != '7' && c != '8' && c != '9' && c != 'a' && c != 'b' &&
         c != 'c' && c != 'd' && c != 'e' && c != 'f' && c != '*') = true) : c ∉ Nat.toDigits b n := by
  intro hc
  obtain ⟨d, hd⟩ := mem_toDigits_digitChar b hb n c hc
  exact Nat.digitChar_ne c h hd.symm

theorem digitChar_inj16 : ∀ a b : Fin 16, a.val.digitChar = b.val.digitChar → a = b := by decide

theorem digitChar_inj_lt {a b : Nat} (ha : a < 16) (hb : b < 16) (h : a.digitChar = b.digitChar) : a = b := by
  have := digitChar_inj16 ⟨a, ha⟩ ⟨b, hb⟩ h
  exact Fin.mk.inj_iff.1 this

theorem toDigits_inj (b : Nat) (hb : 1 < b) (hb' : b ≤ 16) : ∀ n m : Nat, Nat.toDigits b n = Nat.toDigits b m → n = m := by
  intro n
  induction n using Nat.strongRecOn with
  | _ n ih =>
    intro m h
    rw [Nat.toDigits_eq_if hb (n := n), Nat.toDigits_eq_if hb (n := m)] at h
    by_cases hn : n < b
    · by_cases hm : m < b
      · rw [if_pos hn, if_pos hm] at h
        simp only [List.cons.injEq, and_true] at h
        exact digitChar_inj_lt (by omega) (by omega) h
      · rw [if_pos hn, if_neg hm] at h
        have hl := congrArg List.length h
        have := Nat.length_toDigits_pos (b := b) (n := m / b)
        simp at hl <;> omega
    · by_cases hm : m < b
      · rw [if_neg hn, if_pos hm] at h
        have hl := congrArg List.length h
        have := Nat.length_toDigits_pos (b := b) (n := n / b)
        simp at hl <;> omega
      · rw [if_neg hn, if_neg hm] at h
        have h' := List.append_inj' h (by simp)
        have h1 := ih (n / b) (Nat.div_lt_self (by omega) hb) (m / b) h'.1
        have h2 : n % b = m % b := by
          have := h'.2
          simp only [List.cons.injEq, and_true] at this
          exact digitChar_inj_lt (by have := Nat.mod_lt n (show 0 < b by omega); omega)
            (by have := Nat.mod_lt m (show 0 < b by omega); omega) this
        have e1 := Nat.div_add_mod n b
        have e2 := Nat.div_add_mod m b
        rw [h1, h2] at e1
        omega

/-- two texts that end at the first occurrence of a terminator `t` -/
theorem append_term_inj {t : Char} : ∀ (a b r s : List Char), t ∉ a → t ∉ b → a ++ t :: r = b ++ t :: s → a = b ∧ r = s
  | [], [], r, s, _, _, h => by simpa using h
  | [], y :: b, r, s, _, hb, h => by
    simp only [List.nil_append, List.cons_append, List.cons.injEq] at h
    exact absurd (by simp [h.1]) hb
  | x :: a, [], r, s, ha, _, h => by
    simp only [List.nil_append, List.cons_append, List.cons.injEq] at h
    exact absurd (by simp [h.1]) ha
  | x :: a, y :: b, r, s, ha, hb, h => by
    simp only [List.cons_append, List.cons.injEq] at h
    have := append_term_inj a b r s (fun hh => ha (List.mem_cons_of_mem _ hh)) (fun hh => hb (List.mem_cons_of_mem _ hh)) h.2
    simp [h.1, this.1, this.2]

theorem intText_inj (i j : Int) (h : intText i = intText j) : i = j := by
  cases i with
  | ofNat n =>
    cases j with
    | ofNat m => simp only [intText] at h; rw [toDigits_inj 10 (by omega) (by omega) n m h]
    | negSucc m =>
      simp only [intText] at h
      have : '-' ∈ Nat.toDigits 10 n := by rw [h]; simp
      exact absurd this (not_mem_toDigits 10 (by omega) n '-' (by decide))
  | negSucc n =>
    cases j with
    | ofNat m =>
      simp only [intText] at h
      have : '-' ∈ Nat.toDigits 10 m := by rw [← h]; simp
      exact absurd this (not_mem_toDigits 10 (by omega) m '-' (by decide))
    | negSucc m =>
      simp only [intText, List.cons.injEq, true_and] at h
      have := toDigits_inj 10 (by omega) (by omega) _ _ h
      have : n = m := by omega
      rw [this]

theorem close_not_mem_intText (i : Int) : ')' ∉ intText i := by
  cases i with
  | ofNat n => exact not_mem_toDigits 10 (by omega) n ')' (by decide)
  | negSucc n =>
    simp only [intText, List.mem_cons, not_or]
    exact ⟨by decide, not_mem_toDigits 10 (by omega) _ ')' (by decide)⟩

/-! ### string escaping -/

theorem escLetter_some (a l : Char) (h : escLetter a = some l) :
    (a = '\x00' ∧ l = '0') ∨ (a = '\t' ∧ l = 't') ∨ (a = '\r' ∧ l = 'r') ∨ (a = '\n' ∧ l = 'n') ∨
    (a = '\\' ∧ l = '\\') ∨ (a = '"' ∧ l = '"') := by
  unfold escLetter at h
  repeat' split at h
  all_goals simp_all
  all_goals exact h.symm

theorem escLetter_inj (a b l : Char) (ha : escLetter a = some l) (hb : escLetter b = some l) : a = b := by
  have h1 := escLetter_some a l ha
  have h2 := escLetter_some b l hb
  rcases h1 with ⟨rfl, rfl⟩ | ⟨rfl, rfl⟩ | ⟨rfl, rfl⟩ | ⟨rfl, rfl⟩ | ⟨rfl, rfl⟩ | ⟨rfl, rfl⟩ <;>
  rcases h2 with ⟨rfl, h⟩ | ⟨rfl, h⟩ | ⟨rfl, h⟩ | ⟨rfl, h⟩ | ⟨rfl, h⟩ | ⟨rfl, h⟩ <;>
  first | rfl | exact absurd h (by decide)

theorem escLetter_ne_u (a : Char) : escLetter a ≠ some 'u' := by
  unfold escLetter
  repeat' split
  all_goals simp

theorem escLetter_none (a : Char) (h : escLetter a = none) : a ≠ '\\' ∧ a ≠ '"' := by
  unfold escLetter at h
  constructor <;> (intro e; subst e; simp at h)

/-- one escaped character can be read back, whatever follows -/
theorem escChar_prefix_free (pr : Char → Bool) (a b : Char) (r s : List Char)
    (h : escChar pr a ++ r = escChar pr b ++ s) : a = b ∧ r = s := by
  unfold escChar at h
  cases ha : escLetter a with
  | some la =>
    cases hb : escLetter b with
    | some lb =>
      simp only [ha, hb, List.cons_append, List.nil_append, List.cons.injEq, true_and] at h
      exact ⟨escLetter_inj a b la ha (h.1 ▸ hb), h.2⟩
    | none =>
      simp only [ha, hb] at h
      cases hp : pr b with
      | true =>
        simp only [hp, ↓reduceIte, List.cons_append, List.nil_append, List.cons.injEq] at h
        exact absurd h.1.symm (escLetter_none b hb).1
      | false =>
        simp only [hp, Bool.false_eq_true, ↓reduceIte, List.cons_append, List.nil_append, List.cons.injEq, true_and] at h
        exact absurd (h.1 ▸ ha) (escLetter_ne_u a)
  | none =>
    cases hb : escLetter b with
    | some lb =>
      simp only [ha, hb] at h
      cases hp : pr a with
      | true =>
        simp only [hp, ↓reduceIte, List.cons_append, List.nil_append, List.cons.injEq] at h
        exact absurd h.1 (escLetter_none a ha).1
      | false =>
        simp only [hp, Bool.false_eq_true, ↓reduceIte, List.cons_append, List.nil_append, List.cons.injEq, true_and] at h
        exact absurd (h.1 ▸ hb) (escLetter_ne_u b)
    | none =>
      simp only [ha, hb] at h
      cases hpa : pr a with
      | true =>
        cases hpb : pr b with
        | true =>
          simp only [hpa, hpb, ↓reduceIte, List.cons_append, List.nil_append, List.cons.injEq] at h
          exact h
        | false =>
          simp only [hpa, hpb, Bool.false_eq_true, ↓reduceIte, List.cons_append, List.nil_append, List.cons.injEq] at h
          exact absurd h.1 (escLetter_none a ha).1
      | false =>
        cases hpb : pr b with
        | true =>
          simp only [hpa, hpb, Bool.false_eq_true, ↓reduceIte, List.cons_append, List.nil_append, List.cons.injEq] at h
          exact absurd h.1.symm (escLetter_none b hb).1
        | false =>
          simp only [hpa, hpb, Bool.false_eq_true, ↓reduceIte, List.cons_append, List.append_assoc, List.nil_append,
            List.cons.injEq, true_and] at h
          have := append_term_inj _ _ r s (not_mem_toDigits 16 (by omega) a.toNat '}' (by decide))
            (not_mem_toDigits 16 (by omega) b.toNat '}' (by decide)) h
          exact ⟨Char.toNat_inj.1 (toDigits_inj 16 (by omega) (by omega) _ _ this.1), this.2⟩

/-- an escaped character never starts with the closing quote -/
theorem escChar_head (pr : Char → Bool) (a : Char) : ∃ c t, escChar pr a = c :: t ∧ c ≠ '"' := by
  unfold escChar
  cases ha : escLetter a with
  | some la => exact ⟨'\\', [la], rfl, by decide⟩
  | none =>
    by_cases hp : pr a = true
    · exact ⟨a, [], by simp [hp], (escLetter_none a ha).2⟩
    · exact ⟨'\\', 'u' :: '{' :: (Nat.toDigits 16 a.toNat ++ ['}']), by simp [hp], by decide⟩

theorem strBody_prefix_free (pr : Char → Bool) : ∀ (s t r r' : List Char),
    s.flatMap (escChar pr) ++ '"' :: r = t.flatMap (escChar pr) ++ '"' :: r' → s = t ∧ r = r'
  | [], [], r, r', h => by simpa using h
  | [], b :: t, r, r', h => by
    obtain ⟨c, tl, hc, hne⟩ := escChar_head pr b
    simp only [List.flatMap_nil, List.nil_append, List.flatMap_cons, hc, List.cons_append, List.cons.injEq] at h
    exact absurd h.1.symm hne
  | a :: s, [], r, r', h => by
    obtain ⟨c, tl, hc, hne⟩ := escChar_head pr a
    simp only [List.flatMap_nil, List.nil_append, List.flatMap_cons, hc, List.cons_append, List.cons.injEq] at h
    exact absurd h.1 hne
  | a :: s, b :: t, r, r', h => by
    simp only [List.flatMap_cons, List.append_assoc] at h
    have h1 := escChar_prefix_free pr a b _ _ h
    have h2 := strBody_prefix_free pr s t r r' h1.2
    simp [h1.1, h2.1, h2.2]

theorem dbgStr_prefix_free (pr : Char → Bool) (s t r r' : List Char)
    (h : dbgStr pr s ++ r = dbgStr pr t ++ r') : s = t ∧ r = r' := by
  simp only [dbgStr, List.cons_append, List.append_assoc, List.nil_append, List.cons.injEq, true_and] at h
  exact strBody_prefix_free pr s t r r' h

/-! ### the value renderer is a prefix code -/

mutual
theorem dbgVal_prefix_free (R : Fmt F) (hc : ∀ f, ')' ∉ R.fmtFloat f) :
    (v w : Val F) → (r s : List Char) → dbgVal R v ++ r = dbgVal R w ++ s → Val.sameText R v w = true ∧ r = s
  | .str a, w, r, s, h => by
    cases w with
    | str b =>
      simp only [dbgVal, pString, List.cons_append, List.nil_append, List.append_assoc, List.cons.injEq, true_and] at h
      have := dbgStr_prefix_free R.printable _ _ _ _ h
      have e : a = b := String.toList_inj.1 this.1
      have := this.2
      simp only [List.cons.injEq, true_and] at this
      simp [Val.beq, e, this]
    | _ => simp [dbgVal, pString, pInteger, pFloat, pBoolean, pArray, pNull] at h
  | .int a, w, r, s, h => by
    cases w with
    | int b =>
      simp only [dbgVal, pInteger, List.cons_append, List.nil_append, List.append_assoc, List.cons.injEq, true_and] at h
      have := append_term_inj _ _ r s (close_not_mem_intText a) (close_not_mem_intText b) h
      simp [Val.beq, intText_inj a b this.1, this.2]
    | _ => simp [dbgVal, pString, pInteger, pFloat, pBoolean, pArray, pNull] at h
  | .flt a, w, r, s, h => by
    cases w with
    | flt b =>
      simp only [dbgVal, pFloat, List.cons_append, List.nil_append, List.append_assoc, List.cons.injEq, true_and] at h
      have := append_term_inj _ _ r s (hc a) (hc b) h
      simp [Val.beq, textOps, this.1, this.2]
    | _ => simp [dbgVal, pString, pInteger, pFloat, pBoolean, pArray, pNull] at h
  | .bool a, w, r, s, h => by
    cases w with
    | bool b =>
      cases a <;> cases b <;>
        simp [dbgVal, pBoolean, boolText, Val.beq] at h ⊢ <;> exact h
    | _ => simp [dbgVal, pString, pInteger, pFloat, pBoolean, pArray, pNull] at h
  | .null, w, r, s, h => by
    cases w with
    | null =>
      simp only [dbgVal, pNull, List.cons_append, List.nil_append, List.cons.injEq, true_and] at h
      simp [Val.beq, h]
    | _ => simp [dbgVal, pString, pInteger, pFloat, pBoolean, pArray, pNull] at h
  | .arr xs, w, r, s, h => by
    cases w with
    | arr ys =>
      simp only [dbgVal, pArray, List.cons_append, List.nil_append, List.append_assoc, List.cons.injEq, true_and] at h
      have := dbgList_prefix_free R hc xs ys _ _ h
      have h2 := this.2
      simp only [List.cons.injEq, true_and] at h2
      simp [Val.beq, this.1, h2]
    | _ => simp [dbgVal, pString, pInteger, pFloat, pBoolean, pArray, pNull] at h
theorem dbgList_prefix_free (R : Fmt F) (hc : ∀ f, ')' ∉ R.fmtFloat f) :
    (xs ys : List (Val F)) → (r s : List Char) → dbgList R xs ++ ']' :: r = dbgList R ys ++ ']' :: s →
      Val.beqList (textOps R) xs ys = true ∧ r = s
  | [], [], r, s, h => by simpa [dbgList, Val.beqList] using h
  | [], y :: ys, r, s, h => by
    cases y <;> simp [dbgList, dbgVal, pString, pInteger, pFloat, pBoolean, pArray, pNull] at h
  | x :: xs, [], r, s, h => by
    cases x <;> simp [dbgList, dbgVal, pString, pInteger, pFloat, pBoolean, pArray, pNull] at h
  | x :: xs, y :: ys, r, s, h => by
    simp only [dbgList, List.append_assoc] at h
    have h1 := dbgVal_prefix_free R hc x y _ _ h
    have h2 := dbgTail_prefix_free R hc xs ys r s h1.2
    simp [Val.beqList, h1.1, h2.1, h2.2]
theorem dbgTail_prefix_free (R : Fmt F) (hc : ∀ f, ')' ∉ R.fmtFloat f) :
    (xs ys : List (Val F)) → (r s : List Char) → dbgTail R xs ++ ']' :: r = dbgTail R ys ++ ']' :: s →
      Val.beqList (textOps R) xs ys = true ∧ r = s
  | [], [], r, s, h => by simpa [dbgTail, Val.beqList] using h
  | [], y :: ys, r, s, h => by simp [dbgTail] at h
  | x :: xs, [], r, s, h => by simp [dbgTail] at h
  | x :: xs, y :: ys, r, s, h => by
    simp only [dbgTail, List.cons_append, List.append_assoc, List.cons.injEq, true_and] at h
    have h1 := dbgVal_prefix_free R hc x y _ _ h
    have h2 := dbgTail_prefix_free R hc xs ys r s h1.2
    simp [Val.beqList, h1.1, h2.1, h2.2]
end

/- conversely: values that are the same up to the text of their floats print the same -/
mutual
theorem dbgVal_of_sameText (R : Fmt F) : (v w : Val F) → Val.sameText R v w = true → dbgVal R v = dbgVal R w
  | .str a, w, h => by cases w <;> simp_all [Val.beq]
  | .int a, w, h => by cases w <;> simp_all [Val.beq]
  | .flt a, w, h => by cases w <;> simp_all [Val.beq, textOps, dbgVal]
  | .bool a, w, h => by cases w <;> simp_all [Val.beq]
  | .null, w, h => by cases w <;> simp_all [Val.beq]
  | .arr xs, w, h => by
    cases w with
    | arr ys =>
      simp only [Val.beq] at h
      simp [dbgVal, (dbgList_of_sameText R xs ys h).1]
    | _ => simp [Val.beq] at h
theorem dbgList_of_sameText (R : Fmt F) : (xs ys : List (Val F)) → Val.beqList (textOps R) xs ys = true →
    dbgList R xs = dbgList R ys ∧ dbgTail R xs = dbgTail R ys
  | [], [], _ => ⟨rfl, rfl⟩
  | [], _ :: _, h => by simp [Val.beqList] at h
  | _ :: _, [], h => by simp [Val.beqList] at h
  | x :: xs, y :: ys, h => by
    simp only [Val.beqList, Bool.and_eq_true] at h
    have h1 := dbgVal_of_sameText R x y h.1
    have h2 := dbgList_of_sameText R xs ys h.2
    simp [dbgList, dbgTail, h1, h2.2]
end

/- on values without a NaN, "same text" is equality (under the formatter contract) -/
mutual
theorem eq_of_sameText (o : FloatOps F) (R : Fmt F) (hl : FmtLaws o R) :
    (v w : Val F) → (Val.canon o v).isSome = true → (Val.canon o w).isSome = true → Val.sameText R v w = true → v = w
  | .str a, w, _, _, h => by cases w <;> simp_all [Val.beq]
  | .int a, w, _, _, h => by cases w <;> simp_all [Val.beq]
  | .bool a, w, _, _, h => by cases w <;> simp_all [Val.beq]
  | .null, w, _, _, h => by cases w <;> simp_all [Val.beq]
  | .flt a, w, hv, hw, h => by
    cases w with
    | flt b =>
      simp only [Val.beq, textOps, decide_eq_true_eq] at h
      have ha : o.isNan a = false := by
        cases hn : o.isNan a with
        | false => rfl
        | true => simp [Val.canon, hn] at hv
      have hb : o.isNan b = false := by
        cases hn : o.isNan b with
        | false => rfl
        | true => simp [Val.canon, hn] at hw
      rw [hl.inj a b ha hb h]
    | _ => simp [Val.beq] at h
  | .arr xs, w, hv, hw, h => by
    cases w with
    | arr ys =>
      simp only [Val.beq] at h
      have hv' : (Val.canonList o xs).isSome = true := by
        cases hx : Val.canonList o xs <;> simp [Val.canon, hx] at hv ⊢
      have hw' : (Val.canonList o ys).isSome = true := by
        cases hy : Val.canonList o ys <;> simp [Val.canon, hy] at hw ⊢
      rw [eqList_of_sameText o R hl xs ys hv' hw' h]
    | _ => simp [Val.beq] at h
theorem eqList_of_sameText (o : FloatOps F) (R : Fmt F) (hl : FmtLaws o R) :
    (xs ys : List (Val F)) → (Val.canonList o xs).isSome = true → (Val.canonList o ys).isSome = true →
      Val.beqList (textOps R) xs ys = true → xs = ys
  | [], [], _, _, _ => rfl
  | [], _ :: _, _, _, h => by simp [Val.beqList] at h
  | _ :: _, [], _, _, h => by simp [Val.beqList] at h
  | x :: xs, y :: ys, hv, hw, h => by
    simp only [Val.beqList, Bool.and_eq_true] at h
    have hx : (Val.canon o x).isSome = true ∧ (Val.canonList o xs).isSome = true := by
      cases h1 : Val.canon o x <;> cases h2 : Val.canonList o xs <;> simp [Val.canonList, h1, h2] at hv ⊢
    have hy : (Val.canon o y).isSome = true ∧ (Val.canonList o ys).isSome = true := by
      cases h1 : Val.canon o y <;> cases h2 : Val.canonList o ys <;> simp [Val.canonList, h1, h2] at hw ⊢
    rw [eq_of_sameText o R hl x y hx.1 hy.1 h.1, eqList_of_sameText o R hl xs ys hx.2 hy.2 h.2]
end

/- a canonicalised value contains no NaN (given that normalising keeps non-NaN floats non-NaN) -/
mutual
theorem canon_canon_isSome (o : FloatOps F) (hn : ∀ a, o.isNan a = false → o.isNan (o.canon a) = false) :
    (v c : Val F) → Val.canon o v = some c → (Val.canon o c).isSome = true
  | .str a, c, h => by simp [Val.canon] at h; subst h; simp [Val.canon]
  | .int a, c, h => by simp [Val.canon] at h; subst h; simp [Val.canon]
  | .bool a, c, h => by simp [Val.canon] at h; subst h; simp [Val.canon]
  | .null, c, h => by simp [Val.canon] at h; subst h; simp [Val.canon]
  | .flt a, c, h => by
    cases ha : o.isNan a with
    | true => simp [Val.canon, ha] at h
    | false =>
      simp [Val.canon, ha] at h; subst h
      simp [Val.canon, hn a ha]
  | .arr xs, c, h => by
    cases hx : Val.canonList o xs with
    | none => simp [Val.canon, hx] at h
    | some cs =>
      simp [Val.canon, hx] at h; subst h
      have := canonList_canon_isSome o hn xs cs hx
      cases hy : Val.canonList o cs <;> simp [Val.canon, hy] at this ⊢
theorem canonList_canon_isSome (o : FloatOps F) (hn : ∀ a, o.isNan a = false → o.isNan (o.canon a) = false) :
    (xs cs : List (Val F)) → Val.canonList o xs = some cs → (Val.canonList o cs).isSome = true
  | [], cs, h => by simp [Val.canonList] at h; subst h; simp [Val.canonList]
  | x :: xs, cs, h => by
    cases h1 : Val.canon o x with
    | none => simp [Val.canonList, h1] at h
    | some c =>
      cases h2 : Val.canonList o xs with
      | none => simp [Val.canonList, h1, h2] at h
      | some cs' =>
        simp [Val.canonList, h1, h2] at h; subst h
        have a1 := canon_canon_isSome o hn x c h1
        have a2 := canonList_canon_isSome o hn xs cs' h2
        cases b1 : Val.canon o c <;> cases b2 : Val.canonList o cs' <;> simp [Val.canonList, b1, b2] at a1 a2 ⊢
end

/-- the (empty) float operations of the float-free values -/
def oEmpty : FloatOps Empty := ⟨fun a _ => a.elim, fun a => a.elim, fun a => a⟩

mutual
theorem canon_isSome_nofloat : (u : Val Empty) → (Val.canon oEmpty u).isSome = true
  | .str _ => by simp [Val.canon]
  | .int _ => by simp [Val.canon]
  | .bool _ => by simp [Val.canon]
  | .null => by simp [Val.canon]
  | .flt f => f.elim
  | .arr xs => by
    have := canonList_isSome_nofloat xs
    cases hx : Val.canonList oEmpty xs <;> simp [Val.canon, hx] at this ⊢
theorem canonList_isSome_nofloat : (xs : List (Val Empty)) → (Val.canonList oEmpty xs).isSome = true
  | [] => by simp [Val.canonList]
  | x :: xs => by
    have a := canon_isSome_nofloat x
    have b := canonList_isSome_nofloat xs
    cases h1 : Val.canon oEmpty x <;> cases h2 : Val.canonList oEmpty xs <;> simp [Val.canonList, h1, h2] at a b ⊢
end

/-! ### consequences for the keys -/

theorem dbgVal_eq_iff (R : Fmt F) (hc : ∀ f, ')' ∉ R.fmtFloat f) (v w : Val F) :
    dbgVal R v = dbgVal R w ↔ Val.sameText R v w = true :=
  ⟨fun h => (dbgVal_prefix_free R hc v w [] [] (by simpa using h)).1, dbgVal_of_sameText R v w⟩

theorem debugKey_eq_iff (R : Fmt F) (hc : ∀ f, ')' ∉ R.fmtFloat f) (v w : Val F) :
    debugKey R v = debugKey R w ↔ Val.sameText R v w = true := by
  simp only [debugKey, String.ofList_inj]
  exact dbgVal_eq_iff R hc v w

theorem joinSame_iff (R : Fmt F) (hc : ∀ f, ')' ∉ R.fmtFloat f) (jk : String) (v : Val F) (f : Facts F) :
    bKeyOf (debugKey R) jk f = some (debugKey R v) ↔ joinSame R jk v f = true := by
  unfold bKeyOf joinSame
  cases f.get jk with
  | none => simp
  | some w => simp [debugKey_eq_iff R hc]

theorem isRemoveOf_eq_V (R : Fmt F) (hc : ∀ f, ')' ∉ R.fmtFloat f) (jk : String) (v : Val F) (i : Nat) (op : BOp F) :
    isRemoveOf (debugKey R) jk (debugKey R v) i op = isRemoveOfV R jk v i op := by
  cases op with
  | remove f j =>
    simp only [isRemoveOf, isRemoveOfV]
    congr 1
    have := joinSame_iff R hc jk v f
    by_cases h : joinSame R jk v f = true
    · simp [h, this.2 h]
    · have h' : ¬ bKeyOf (debugKey R) jk f = some (debugKey R v) := fun hh => h (this.1 hh)
      simp [h, h']
  | _ => rfl

theorem bLive_eq_bLiveV (R : Fmt F) (hc : ∀ f, ')' ∉ R.fmtFloat f) (jk : String) (v : Val F) (ops : List (BOp F)) :
    bLive (debugKey R) jk (debugKey R v) ops = bLiveV R jk v ops := by
  induction ops with
  | nil => rfl
  | cons op ops ih =>
    simp only [bLive, bLiveV, ih]
    congr 1
    cases op with
    | add f i =>
      have e : ops.any (isRemoveOf (debugKey R) jk (debugKey R v) i) = ops.any (isRemoveOfV R jk v i) := by
        congr 1; funext op; exact isRemoveOf_eq_V R hc jk v i op
      simp only [e, joinSame_iff R hc jk v f]
    | _ => rfl

/-! ### CompactAlphaMemory -/

theorem factKey_eq_iff (R : Fmt F) (hc : ∀ f, ')' ∉ R.fmtFloat f) : (f g : Facts F) →
    (factKey R f = factKey R g ↔ Facts.sameText R f g = true)
  | [], [] => by simp [factKey, Facts.sameText]
  | [], (k, v) :: g => by simp [factKey, Facts.sameText]
  | (k, v) :: f, [] => by simp [factKey, Facts.sameText]
  | (k, v) :: f, (k', v') :: g => by
    simp only [factKey, List.cons.injEq, Facts.sameText, Bool.and_eq_true, decide_eq_true_eq,
      debugKey_eq_iff R hc, factKey_eq_iff R hc f g, and_assoc]

/-- `ref_counts[key f]` is the reference count `n` of `f` (absent when 0) -/
def KInv (R : Fmt F) (s : KState) (f : Facts F) (n : Nat) : Prop :=
  s.refs.find (factKey R f) = if n > 0 then some n else none

theorem kinv_add (R : Fmt F) (hc : ∀ f, ')' ∉ R.fmtFloat f) (s : KState) (f g : Facts F) (n : Nat) (h : KInv R s f n) :
    KInv R (kAdd R s g) f (if Facts.sameText R g f then n + 1 else n) := by
  unfold KInv at h ⊢
  unfold kAdd
  by_cases hs : Facts.sameText R g f = true
  · have e : factKey R g = factKey R f := (factKey_eq_iff R hc g f).2 hs
    rw [e, h, if_pos hs]
    by_cases hn : n > 0
    · simp [hn, Map.find_set_self]
    · have : n = 0 := by omega
      subst this; simp [Map.find_set_self]
  · have e : factKey R g ≠ factKey R f := fun hh => hs ((factKey_eq_iff R hc g f).1 hh)
    rw [if_neg hs]
    cases s.refs.find (factKey R g) <;> simp only [Map.find_set_ne _ _ e, h]

theorem kinv_remove (R : Fmt F) (hc : ∀ f, ')' ∉ R.fmtFloat f) (s : KState) (f g : Facts F) (n : Nat) (h : KInv R s f n) :
    KInv R (kRemove R s g).1 f (if Facts.sameText R g f then n - 1 else n) := by
  unfold KInv at h ⊢
  unfold kRemove
  by_cases hs : Facts.sameText R g f = true
  · have e : factKey R g = factKey R f := (factKey_eq_iff R hc g f).2 hs
    rw [e, h, if_pos hs]
    by_cases hn : n > 0
    · simp only [hn, if_true]
      by_cases h1 : n - 1 = 0
      · simp [h1, Map.find_erase_self]
      · have : n - 1 > 0 := by omega
        simp [h1, this, Map.find_set_self]
    · have : n = 0 := by omega
      subst this; simpa using h
  · have e : factKey R g ≠ factKey R f := fun hh => hs ((factKey_eq_iff R hc g f).1 hh)
    rw [if_neg hs]
    cases hg : s.refs.find (factKey R g) with
    | none => simpa using h
    | some m =>
      by_cases h1 : m - 1 = 0
      · simp only [h1, if_true, Map.find_erase_ne _ e, h]
      · simp only [h1, if_false, Map.find_set_ne _ _ e, h]

theorem kinv_run (R : Fmt F) (hc : ∀ f, ')' ∉ R.fmtFloat f) (f : Facts F) (ops : List (KOp F)) :
    ∀ (s : KState) (n : Nat), KInv R s f n → KInv R (kRun R s ops) f (kCount R f n ops) := by
  induction ops with
  | nil => intro s n h; exact h
  | cons op ops ih =>
    intro s n h
    cases op with
    | add g => exact ih _ _ (kinv_add R hc s f g n h)
    | remove g => exact ih _ _ (kinv_remove R hc s f g n h)
    | contains g => exact ih _ _ h

theorem kinv_init (R : Fmt F) (f : Facts F) : KInv R {} f 0 := by simp [KInv, Map.find]

theorem kTrace_eq_expected (R : Fmt F) (hc : ∀ f, ')' ∉ R.fmtFloat f) (ops past : List (KOp F)) :
    kTrace R (kRun R {} past) ops = kExpected R past ops := by
  induction ops generalizing past with
  | nil => rfl
  | cons op ops ih =>
    simp only [kTrace, kExpected]
    have hstep : kStep R (kRun R {} past) op = kRun R {} (past ++ [op]) := by
      simp [kRun, List.foldl_append]
    rw [hstep, ih]
    congr 1
    cases op with
    | add g => rfl
    | contains f =>
      have := kinv_run R hc f past {} 0 (kinv_init R f)
      unfold KInv at this
      simp only [kContains, Map.contains, this]
      by_cases hn : kCount R f 0 past > 0 <;> simp [hn]
    | remove f =>
      have := kinv_run R hc f past {} 0 (kinv_init R f)
      unfold KInv at this
      simp only [kRemove, this]
      by_cases hn : kCount R f 0 past > 0
      · simp only [hn, if_true]
        by_cases h1 : kCount R f 0 past - 1 = 0
        · have : kCount R f 0 past = 1 := by omega
          simp [this]
        · have : kCount R f 0 past ≠ 1 := by omega
          simp [h1, this]
      · have : kCount R f 0 past = 0 := by omega
        simp [this]

/-! ### IndexStats -/

theorem aStats_sound {κ : Type} [DecidableEq κ] (key : Val F → Option κ) (ops : List (AOp F)) :
    ∀ (s : AState F κ) (st : AStats), st.indexed + st.linear = st.total →
      (aStats key s st ops).total = trackedSinceClear st.total ops ∧
      (aStats key s st ops).indexed + (aStats key s st ops).linear = (aStats key s st ops).total := by
  induction ops with
  | nil => intro s st h; exact ⟨rfl, h⟩
  | cons op ops ih =>
    intro s st h
    cases op with
    | tracked φ v =>
      simp only [aStats, trackedSinceClear]
      by_cases hc : s.indexes.contains φ = true
      · simp only [hc, if_true]
        exact ih _ _ (by simp; omega)
      · simp only [hc, Bool.false_eq_true, if_false]
        exact ih _ _ (by simp; omega)
    | clear => simp only [aStats, trackedSinceClear]; exact ih _ _ rfl
    | insert f => simp only [aStats, trackedSinceClear]; exact ih _ _ h
    | create φ => simp only [aStats, trackedSinceClear]; exact ih _ _ h
    | drop φ => simp only [aStats, trackedSinceClear]; exact ih _ _ h
    | filter φ v => simp only [aStats, trackedSinceClear]; exact ih _ _ h
    | autoTune => simp only [aStats, trackedSinceClear]; exact ih _ _ h

/-! ### the node text (`format!("{:?}", node)`) is a prefix code -/

theorem optDbg_prefix_free (pr : Char → Bool) (a b : Option String) (r s : List Char)
    (h : optDbg pr a ++ r = optDbg pr b ++ s) : a = b ∧ r = s := by
  cases a with
  | none =>
    cases b with
    | none => simpa [optDbg, kNone] using h
    | some y => simp [optDbg, kNone, kSome] at h
  | some x =>
    cases b with
    | none => simp [optDbg, kNone, kSome] at h
    | some y =>
      simp only [optDbg, kSome, List.cons_append, List.nil_append, List.append_assoc, List.cons.injEq, true_and] at h
      have h1 := dbgStr_prefix_free pr _ _ _ _ h
      have h2 := h1.2
      simp only [List.cons.injEq, true_and] at h2
      exact ⟨by rw [String.toList_inj.1 h1.1], h2⟩

theorem nodeDbg_prefix_free (pr : Char → Bool) (a : RNode) : ∀ (b : RNode) (r s : List Char),
    nodeDbg pr a ++ r = nodeDbg pr b ++ s → a = b ∧ r = s := by
  induction a with
  | alpha f o v =>
    intro b r s h
    cases b with
    | alpha f' o' v' =>
      simp only [nodeDbg, kAlpha0, List.cons_append, List.nil_append, List.append_assoc, List.cons.injEq, true_and] at h
      have h1 := dbgStr_prefix_free pr _ _ _ _ h
      have h1' := h1.2
      simp only [kOperator, List.cons_append, List.nil_append, List.cons.injEq, true_and] at h1'
      have h2 := dbgStr_prefix_free pr _ _ _ _ h1'
      have h2' := h2.2
      simp only [kValue, List.cons_append, List.nil_append, List.cons.injEq, true_and] at h2'
      have h3 := dbgStr_prefix_free pr _ _ _ _ h2'
      have h3' := h3.2
      simp only [kAlphaEnd, List.cons_append, List.nil_append, List.cons.injEq, true_and] at h3'
      exact ⟨by rw [String.toList_inj.1 h1.1, String.toList_inj.1 h2.1, String.toList_inj.1 h3.1], h3'⟩
    | _ => simp [nodeDbg, kAlpha0, kAnd, kOr, kNot, kMulti0] at h
  | and a1 a2 ih1 ih2 =>
    intro b r s h
    cases b with
    | and b1 b2 =>
      simp only [nodeDbg, kAnd, List.cons_append, List.nil_append, List.append_assoc, List.cons.injEq, true_and] at h
      have h1 := ih1 b1 _ _ h
      have h1' := h1.2
      simp only [kSep, List.cons_append, List.nil_append, List.cons.injEq, true_and] at h1'
      have h2 := ih2 b2 _ _ h1'
      have h2' := h2.2
      simp only [List.cons.injEq, true_and] at h2'
      exact ⟨by rw [h1.1, h2.1], h2'⟩
    | _ => simp [nodeDbg, kAlpha0, kAnd, kOr, kNot, kMulti0] at h
  | or a1 a2 ih1 ih2 =>
    intro b r s h
    cases b with
    | or b1 b2 =>
      simp only [nodeDbg, kOr, List.cons_append, List.nil_append, List.append_assoc, List.cons.injEq, true_and] at h
      have h1 := ih1 b1 _ _ h
      have h1' := h1.2
      simp only [kSep, List.cons_append, List.nil_append, List.cons.injEq, true_and] at h1'
      have h2 := ih2 b2 _ _ h1'
      have h2' := h2.2
      simp only [List.cons.injEq, true_and] at h2'
      exact ⟨by rw [h1.1, h2.1], h2'⟩
    | _ => simp [nodeDbg, kAlpha0, kAnd, kOr, kNot, kMulti0] at h
  | not a1 ih1 =>
    intro b r s h
    cases b with
    | not b1 =>
      simp only [nodeDbg, kNot, List.cons_append, List.nil_append, List.append_assoc, List.cons.injEq, true_and] at h
      have h1 := ih1 b1 _ _ h
      have h1' := h1.2
      simp only [List.cons.injEq, true_and] at h1'
      exact ⟨by rw [h1.1], h1'⟩
    | _ => simp [nodeDbg, kAlpha0, kAnd, kOr, kNot, kMulti0] at h
  | multi f op v o c =>
    intro b r s h
    cases b with
    | multi f' op' v' o' c' =>
      simp only [nodeDbg, kMulti0, List.cons_append, List.nil_append, List.append_assoc, List.cons.injEq, true_and] at h
      have h1 := dbgStr_prefix_free pr _ _ _ _ h
      have h1' := h1.2
      simp only [kOperation, List.cons_append, List.nil_append, List.cons.injEq, true_and] at h1'
      have h2 := dbgStr_prefix_free pr _ _ _ _ h1'
      have h2' := h2.2
      simp only [kValue, List.cons_append, List.nil_append, List.cons.injEq, true_and] at h2'
      have h3 := optDbg_prefix_free pr _ _ _ _ h2'
      have h3' := h3.2
      simp only [kOperator, List.cons_append, List.nil_append, List.cons.injEq, true_and] at h3'
      have h4 := optDbg_prefix_free pr _ _ _ _ h3'
      have h4' := h4.2
      simp only [kCompare, List.cons_append, List.nil_append, List.cons.injEq, true_and] at h4'
      have h5 := optDbg_prefix_free pr _ _ _ _ h4'
      have h5' := h5.2
      simp only [kMultiEnd, List.cons_append, List.nil_append, List.cons.injEq, true_and] at h5'
      exact ⟨by rw [String.toList_inj.1 h1.1, String.toList_inj.1 h2.1, h3.1, h4.1, h5.1], h5'⟩
    | _ => simp [nodeDbg, kAlpha0, kAnd, kOr, kNot, kMulti0] at h

theorem nodeKeyText_inj (pr : Char → Bool) (a b : RNode) (h : nodeKeyText pr a = nodeKeyText pr b) : a = b := by
  simp only [nodeKeyText, String.ofList_inj] at h
  exact (nodeDbg_prefix_free pr a b [] [] (by simpa using h)).1

theorem cmpText_inj (a b : CmpOp) (h : cmpText a = cmpText b) : a = b := by
  cases a <;> cases b <;> first | rfl | (exact absurd h (by decide))

theorem multiText_inj (a b : MultiOp) (h : multiText a = multiText b) : a = b := by
  cases a <;> cases b <;> first | rfl | (exact absurd h (by decide))

theorem multiText_ne_count (a : MultiOp) : multiText a ≠ "count" := by
  cases a <;> decide

/-- the real node determines the model node, given that literal values are parsed from the literal text -/
theorem toRaw_inj (pv : String → Val F) (a : Node F) : ∀ (b : Node F), a.WF pv → b.WF pv → a.toRaw = b.toRaw → a = b := by
  induction a with
  | alpha φ ne lit lv =>
    intro b ha hb h
    cases b with
    | alpha φ' ne' lit' lv' =>
      simp only [Node.toRaw, RNode.alpha.injEq] at h
      simp only [Node.WF] at ha hb
      obtain ⟨h1, h2, h3⟩ := h
      have : ne = ne' := by
        cases ne <;> cases ne' <;> first | rfl | (exact absurd h2 (by decide))
      subst h1; subst h3; subst this; rw [ha, hb]
    | contains φ' lit' lv' =>
      simp only [Node.toRaw, RNode.alpha.injEq] at h
      cases ne <;> exact absurd h.2.1 (by decide)
    | count φ' cmp => cases cmp with
      | none => simp [Node.toRaw] at h
      | some p => simp [Node.toRaw] at h
    | _ => simp [Node.toRaw] at h
  | contains φ lit lv =>
    intro b ha hb h
    cases b with
    | alpha φ' ne' lit' lv' =>
      simp only [Node.toRaw, RNode.alpha.injEq] at h
      cases ne' <;> exact absurd h.2.1 (by decide)
    | contains φ' lit' lv' =>
      simp only [Node.toRaw, RNode.alpha.injEq, true_and] at h
      simp only [Node.WF] at ha hb
      obtain ⟨h1, h3⟩ := h
      subst h1; subst h3; rw [ha, hb]
    | count φ' cmp => cases cmp with
      | none => simp [Node.toRaw] at h
      | some p => simp [Node.toRaw] at h
    | _ => simp [Node.toRaw] at h
  | count φ cmp =>
    intro b _ _ h
    cases cmp with
    | none =>
      cases b with
      | count φ' cmp' =>
        cases cmp' with
        | none => simp only [Node.toRaw, RNode.multi.injEq] at h; rw [h.1]
        | some p => simp [Node.toRaw] at h
      | multi φ' op' =>
        simp only [Node.toRaw, RNode.multi.injEq] at h
        exact absurd h.2.1.symm (multiText_ne_count op')
      | _ => simp [Node.toRaw] at h
    | some p =>
      obtain ⟨op, k⟩ := p
      cases b with
      | count φ' cmp' =>
        cases cmp' with
        | none => simp [Node.toRaw] at h
        | some p' =>
          obtain ⟨op', k'⟩ := p'
          simp only [Node.toRaw, RNode.multi.injEq, Option.some.injEq, String.ofList_inj, true_and] at h
          rw [h.1, cmpText_inj _ _ h.2.1, intText_inj _ _ h.2.2]
      | multi φ' op' =>
        simp only [Node.toRaw, RNode.multi.injEq] at h
        exact absurd h.2.1.symm (multiText_ne_count op')
      | _ => simp [Node.toRaw] at h
  | multi φ op =>
    intro b _ _ h
    cases b with
    | count φ' cmp' =>
      cases cmp' with
      | none =>
        simp only [Node.toRaw, RNode.multi.injEq] at h
        exact absurd h.2.1 (multiText_ne_count op)
      | some p' =>
        simp only [Node.toRaw, RNode.multi.injEq] at h
        exact absurd h.2.1 (multiText_ne_count op)
    | multi φ' op' =>
      simp only [Node.toRaw, RNode.multi.injEq, and_true] at h
      rw [h.1, multiText_inj _ _ h.2]
    | _ => simp [Node.toRaw] at h
  | and a1 a2 ih1 ih2 =>
    intro b ha hb h
    cases b with
    | and b1 b2 =>
      simp only [Node.toRaw, RNode.and.injEq] at h
      simp only [Node.WF] at ha hb
      rw [ih1 b1 ha.1 hb.1 h.1, ih2 b2 ha.2 hb.2 h.2]
    | count φ' cmp' => cases cmp' <;> simp [Node.toRaw] at h
    | _ => simp [Node.toRaw] at h
  | or a1 a2 ih1 ih2 =>
    intro b ha hb h
    cases b with
    | or b1 b2 =>
      simp only [Node.toRaw, RNode.or.injEq] at h
      simp only [Node.WF] at ha hb
      rw [ih1 b1 ha.1 hb.1 h.1, ih2 b2 ha.2 hb.2 h.2]
    | count φ' cmp' => cases cmp' <;> simp [Node.toRaw] at h
    | _ => simp [Node.toRaw] at h
  | not a1 ih1 =>
    intro b ha hb h
    cases b with
    | not b1 =>
      simp only [Node.toRaw, RNode.not.injEq] at h
      simp only [Node.WF] at ha hb
      rw [ih1 b1 ha hb h]
    | count φ' cmp' => cases cmp' <;> simp [Node.toRaw] at h
    | _ => simp [Node.toRaw] at h

/-! ### NodeSharingRegistry -/

section Registry
variable {κ α : Type} [DecidableEq κ]

/-- the pass `unregister_rule` makes over the map: rewrite every value, drop the entries that fail `h` -/
def Map.sweep (m : Map κ α) (g : α → α) (h : α → Bool) : Map κ α :=
  (m.map (fun e => (e.1, g e.2))).filter (fun e => h e.2)

omit [DecidableEq κ] in
theorem Map.sweep_keys_sub (m : Map κ α) (g : α → α) (h : α → Bool) (k : κ)
    (hk : k ∈ (Map.sweep m g h).map (·.1)) : k ∈ m.map (·.1) := by
  rcases List.mem_map.1 hk with ⟨e, he, rfl⟩
  rcases List.mem_map.1 (List.mem_filter.1 he).1 with ⟨e0, he0, rfl⟩
  exact List.mem_map.2 ⟨e0, he0, rfl⟩

theorem Map.find_none_of_not_mem (m : Map κ α) (k : κ) (hk : k ∉ m.map (·.1)) : m.find k = none := by
  induction m with
  | nil => rfl
  | cons p m ih =>
    obtain ⟨k0, v0⟩ := p
    simp only [List.map_cons, List.mem_cons, not_or] at hk
    have : k0 ≠ k := fun e => hk.1 e.symm
    simp [Map.find, this, ih hk.2]

omit [DecidableEq κ] in
theorem Map.nodupKeys_sweep (m : Map κ α) (g : α → α) (h : α → Bool) (hn : Map.NodupKeys m) :
    Map.NodupKeys (Map.sweep m g h) := by
  induction m with
  | nil => simp [Map.NodupKeys, Map.sweep]
  | cons p m ih =>
    obtain ⟨k0, v0⟩ := p
    simp only [Map.NodupKeys, List.map_cons, List.nodup_cons] at hn
    have hrest := ih hn.2
    have hnot : k0 ∉ (Map.sweep m g h).map (·.1) := fun hk => hn.1 (Map.sweep_keys_sub m g h k0 hk)
    by_cases hh : h (g v0) = true
    · have : Map.sweep ((k0, v0) :: m) g h = (k0, g v0) :: Map.sweep m g h := by
        simp [Map.sweep, hh]
      rw [this]
      simp only [Map.NodupKeys, List.map_cons, List.nodup_cons]
      exact ⟨hnot, hrest⟩
    · have : Map.sweep ((k0, v0) :: m) g h = Map.sweep m g h := by
        simp [Map.sweep, hh]
      rw [this]; exact hrest

theorem Map.find_sweep (m : Map κ α) (g : α → α) (h : α → Bool) (hn : Map.NodupKeys m) (k : κ) :
    (Map.sweep m g h).find k = (match m.find k with
      | some v => if h (g v) then some (g v) else none
      | none => none) := by
  induction m with
  | nil => rfl
  | cons p m ih =>
    obtain ⟨k0, v0⟩ := p
    simp only [Map.NodupKeys, List.map_cons, List.nodup_cons] at hn
    by_cases hh : h (g v0) = true
    · have e : Map.sweep ((k0, v0) :: m) g h = (k0, g v0) :: Map.sweep m g h := by
        simp [Map.sweep, hh]
      rw [e]
      by_cases hk : k0 = k
      · subst hk; simp [Map.find, hh]
      · simp only [Map.find, hk, if_false]; exact ih hn.2
    · have e : Map.sweep ((k0, v0) :: m) g h = Map.sweep m g h := by
        simp [Map.sweep, hh]
      rw [e]
      by_cases hk : k0 = k
      · subst hk
        have hnot : k0 ∉ (Map.sweep m g h).map (·.1) := fun hk => hn.1 (Map.sweep_keys_sub m g h k0 hk)
        rw [Map.find_none_of_not_mem _ _ hnot]
        simp [Map.find, hh]
      · simp only [Map.find, hk, if_false]; exact ih hn.2

end Registry

theorem nUnregister_eq_sweep (s : NState) (r : Nat) :
    (nUnregister s r).nodes = Map.sweep s.nodes (fun rs => rs.filter (fun j => !decide (j = r))) (fun rs => !rs.isEmpty) := rfl

/-- keys unique, every stored rule list non-empty … -/
def NInvG (s : NState) : Prop := Map.NodupKeys s.nodes

theorem ninvg_step (s : NState) (op : NOp) (h : NInvG s) : NInvG (nStep s op) := by
  unfold NInvG at *
  cases op with
  | register p r =>
    simp only [nStep, nRegister]
    cases s.nodes.find p <;> exact Map.nodupKeys_set _ _ _ h
  | unregister r =>
    simp only [nStep, nUnregister_eq_sweep]
    exact Map.nodupKeys_sweep _ _ _ h
  | get p => exact h

/-- … and the node of `p` lists the live rules `acc` of `p` -/
theorem nfind_step (s : NState) (op : NOp) (p : Pat) (acc : List Nat) (hg : NInvG s) (h : s.nodes.find p = nodeOf acc) :
    (nStep s op).nodes.find p = nodeOf (match op with
      | .register q r => if q = p then acc ++ [r] else acc
      | .unregister r => acc.filter (fun j => !decide (j = r))
      | .get _ => acc) := by
  cases op with
  | get q => exact h
  | register q r =>
    simp only [nStep, nRegister]
    by_cases hq : q = p
    · subst hq
      rw [h, if_pos rfl]
      by_cases he : acc.isEmpty = true
      · have : acc = [] := List.isEmpty_iff.1 he
        subst this
        simp [nodeOf, Map.find_set_self]
      · simp only [nodeOf, he, Bool.false_eq_true, if_false, Map.find_set_self]
        simp
    · rw [if_neg hq]
      cases s.nodes.find q <;> simp only [Map.find_set_ne _ _ hq, h]
  | unregister r =>
    simp only [nStep, nUnregister_eq_sweep]
    rw [Map.find_sweep _ _ _ hg, h]
    by_cases he : acc.isEmpty = true
    · have : acc = [] := List.isEmpty_iff.1 he
      subst this; simp [nodeOf]
    · simp only [nodeOf, he, Bool.false_eq_true, if_false]
      by_cases he2 : (acc.filter (fun j => !decide (j = r))).isEmpty = true
      · simp [he2]
      · simp [he2]

theorem nfind_run (p : Pat) (ops : List NOp) : ∀ (s : NState) (acc : List Nat), NInvG s → s.nodes.find p = nodeOf acc →
    (nRun s ops).nodes.find p = nodeOf (nLive p acc ops) := by
  induction ops with
  | nil => intro s acc _ h; exact h
  | cons op ops ih =>
    intro s acc hg h
    have h1 := nfind_step s op p acc hg h
    have hg1 := ninvg_step s op hg
    cases op with
    | register q r => exact ih _ _ hg1 h1
    | unregister r => exact ih _ _ hg1 h1
    | get q => exact ih _ _ hg1 h1

theorem nTrace_eq_expected (ops past : List NOp) : nTrace (nRun {} past) ops = nExpected past ops := by
  induction ops generalizing past with
  | nil => rfl
  | cons op ops ih =>
    simp only [nTrace, nExpected]
    have hstep : nStep (nRun {} past) op = nRun {} (past ++ [op]) := by
      simp [nRun, List.foldl_append]
    rw [hstep, ih]
    congr 1
    have h0 : NInvG ({} : NState) := by simp [NInvG, Map.NodupKeys]
    cases op with
    | unregister r => rfl
    | get p =>
      simp only [nGet]
      rw [nfind_run p past {} [] h0 (by simp [nodeOf, Map.find])]
    | register p r =>
      have : nRegister (nRun {} past) p r = nRun {} (past ++ [.register p r]) := hstep
      simp only [nGet, this]
      have e := nfind_run p (past ++ [NOp.register p r]) {} [] h0 (by simp [nodeOf, Map.find])
      rw [e]

end C16
