import RreModel.C16.Model
/-
C16, part 2 — the KEY TEXT the code really hashes / compares, inside the model.

`format!("{:?}", value)` for `FactValue` (`#[derive(Debug)]`, src/rete/facts.rs) is what
* `index_key` of src/rete/alpha_memory_index.rs applies to the canonicalised value (fix 2a19976),
* `BetaMemoryIndex::add / remove` of src/rete/optimization.rs apply to the join value as it is,
* `FactKey::from_facts` of src/rete/optimization.rs (`CompactAlphaMemory`) applies to every field value.

The text is modelled character by character:
  `String("…")`   `<str as Debug>::fmt`: every char through `char::escape_debug_ext` with
                   `escape_grapheme_extended = true, escape_single_quote = false, escape_double_quote = true`
                   (`\0 \t \r \n \\ \"` fixed; `'` NOT escaped; a char that is printable and not a grapheme
                   extender stays as it is; every other char is `\u{<lower-case hex, no padding>}`)
  `Integer(-5)`   `<i64 as Display>`
  `Float(…)`      `<f64 as Debug>` — abstract (`Fmt.fmtFloat`), contract `FmtLaws`
  `Boolean(true)` `Null`
  `Array([a, b])` `DebugList`, separator `", "`, any nesting depth.
The two parameters: `printable c` = `core::unicode::printable::is_printable(c) && !c.is_grapheme_extended()`
(for ASCII: `' ' ≤ c ≤ '~'`; the driver carries the table for the code points its generator draws)
and `fmtFloat`. No Mathlib.
-/
namespace C16
variable {F : Type}

/-- what the renderer needs from outside: the Unicode table and the float formatter -/
structure Fmt (F : Type) where
  printable : Char → Bool
  fmtFloat : F → List Char

/-- the six characters with a fixed two-character escape in `<str as Debug>` (`'` is not one) -/
def escLetter (c : Char) : Option Char :=
  if c = '\x00' then some '0'
  else if c = '\t' then some 't'
  else if c = '\r' then some 'r'
  else if c = '\n' then some 'n'
  else if c = '\\' then some '\\'
  else if c = '"' then some '"'
  else none

/-- `char::escape_debug_ext` as used by `<str as Debug>::fmt` -/
def escChar (pr : Char → Bool) (c : Char) : List Char :=
  match escLetter c with
  | some l => ['\\', l]
  | none => if pr c then [c] else '\\' :: 'u' :: '{' :: (Nat.toDigits 16 c.toNat ++ ['}'])

/-- `<str as Debug>::fmt`: the escaped characters between two `"` -/
def dbgStr (pr : Char → Bool) (s : List Char) : List Char :=
  '"' :: (s.flatMap (escChar pr) ++ ['"'])

/-- `<i64 as Display>::fmt` -/
def intText : Int → List Char
  | .ofNat n => Nat.toDigits 10 n
  | .negSucc n => '-' :: Nat.toDigits 10 (n + 1)

def pString : List Char := ['S', 't', 'r', 'i', 'n', 'g', '(']
def pInteger : List Char := ['I', 'n', 't', 'e', 'g', 'e', 'r', '(']
def pFloat : List Char := ['F', 'l', 'o', 'a', 't', '(']
def pBoolean : List Char := ['B', 'o', 'o', 'l', 'e', 'a', 'n', '(']
def pArray : List Char := ['A', 'r', 'r', 'a', 'y', '(', '[']
def pNull : List Char := ['N', 'u', 'l', 'l']
def boolText (b : Bool) : List Char := if b then ['t', 'r', 'u', 'e'] else ['f', 'a', 'l', 's', 'e']

mutual
/-- `format!("{:?}", v)` for `v : FactValue` (derived `Debug`, not alternate) -/
def dbgVal (R : Fmt F) : Val F → List Char
  | .str s => pString ++ (dbgStr R.printable s.toList ++ [')'])
  | .int i => pInteger ++ (intText i ++ [')'])
  | .flt f => pFloat ++ (R.fmtFloat f ++ [')'])
  | .bool b => pBoolean ++ (boolText b ++ [')'])
  | .arr xs => pArray ++ (dbgList R xs ++ [']', ')'])
  | .null => pNull
/-- the elements of a `DebugList` -/
def dbgList (R : Fmt F) : List (Val F) → List Char
  | [] => []
  | x :: xs => dbgVal R x ++ dbgTail R xs
/-- … every element after the first is preceded by `", "` -/
def dbgTail (R : Fmt F) : List (Val F) → List Char
  | [] => []
  | x :: xs => ',' :: ' ' :: (dbgVal R x ++ dbgTail R xs)
end

/-- the key text as the `String` the code builds -/
def debugKey (R : Fmt F) (v : Val F) : String := String.ofList (dbgVal R v)

/-- `index_key` of alpha_memory_index.rs as it is after fix 2a19976:
`canon(value).map(|v| format!("{:?}", v))` -/
def alphaKey (o : FloatOps F) (R : Fmt F) (v : Val F) : Option String := (Val.canon o v).map (debugKey R)

/-- the float comparison under which two values have the same `Debug` text: same text of the floats
(for `f64`: both NaN, or the same bit pattern) -/
def textOps (R : Fmt F) : FloatOps F where
  feq a b := decide (R.fmtFloat a = R.fmtFloat b)
  isNan _ := false
  canon a := a

/-- `Val.beq (textOps R)`: same variant, same payload, floats with the same text -/
abbrev Val.sameText (R : Fmt F) (v w : Val F) : Bool := Val.beq (textOps R) v w

/-- **The stated contract of the float formatter** (`<f64 as Debug>::fmt`, shortest text that parses
back to the same double): the text never contains the `)` that closes `Float(…)`; two non-NaN floats
with the same text are the same float; normalising a non-NaN float gives a non-NaN float. -/
structure FmtLaws (o : FloatOps F) (R : Fmt F) : Prop where
  no_close : ∀ f, ')' ∉ R.fmtFloat f
  inj : ∀ a b, o.isNan a = false → o.isNan b = false → R.fmtFloat a = R.fmtFloat b → a = b
  canon_nan : ∀ a, o.isNan a = false → o.isNan (o.canon a) = false


/-! ## The memo key's node half: `format!("{:?}", node)` for `ReteUlNode` (`#[derive(Debug)]`,
src/rete/network.rs; `AlphaNode` src/rete/alpha.rs), on the variants the correspondence drives.
`compute_node_hash` (memoization.rs) hashes exactly this text. -/

/-- the real node as the code stores it: strings only (the literal of an alpha node is kept as text) -/
inductive RNode where
  | alpha (field operator value : String)
  | and (a b : RNode)
  | or (a b : RNode)
  | not (a : RNode)
  | multi (field operation : String) (value operator compare : Option String)
deriving Repr, DecidableEq

def kAlpha0 : List Char := ['U', 'l', 'A', 'l', 'p', 'h', 'a', '(', 'A', 'l', 'p', 'h', 'a', 'N', 'o', 'd', 'e', ' ', '{', ' ', 'f', 'i', 'e', 'l', 'd', ':', ' ']
def kOperator : List Char := [',', ' ', 'o', 'p', 'e', 'r', 'a', 't', 'o', 'r', ':', ' ']
def kValue : List Char := [',', ' ', 'v', 'a', 'l', 'u', 'e', ':', ' ']
def kAlphaEnd : List Char := [' ', '}', ')']
def kAnd : List Char := ['U', 'l', 'A', 'n', 'd', '(']
def kOr : List Char := ['U', 'l', 'O', 'r', '(']
def kNot : List Char := ['U', 'l', 'N', 'o', 't', '(']
def kSep : List Char := [',', ' ']
def kMulti0 : List Char := ['U', 'l', 'M', 'u', 'l', 't', 'i', 'F', 'i', 'e', 'l', 'd', ' ', '{', ' ', 'f', 'i', 'e', 'l', 'd', ':', ' ']
def kOperation : List Char := [',', ' ', 'o', 'p', 'e', 'r', 'a', 't', 'i', 'o', 'n', ':', ' ']
def kCompare : List Char := [',', ' ', 'c', 'o', 'm', 'p', 'a', 'r', 'e', '_', 'v', 'a', 'l', 'u', 'e', ':', ' ']
def kMultiEnd : List Char := [' ', '}']
def kNone : List Char := ['N', 'o', 'n', 'e']
def kSome : List Char := ['S', 'o', 'm', 'e', '(']

/-- `<Option<String> as Debug>` -/
def optDbg (pr : Char → Bool) : Option String → List Char
  | none => kNone
  | some s => kSome ++ (dbgStr pr s.toList ++ [')'])

/-- `format!("{:?}", node)` -/
def nodeDbg (pr : Char → Bool) : RNode → List Char
  | .alpha f o v => kAlpha0 ++ (dbgStr pr f.toList ++ (kOperator ++ (dbgStr pr o.toList ++ (kValue ++ (dbgStr pr v.toList ++ kAlphaEnd)))))
  | .and a b => kAnd ++ (nodeDbg pr a ++ (kSep ++ (nodeDbg pr b ++ [')'])))
  | .or a b => kOr ++ (nodeDbg pr a ++ (kSep ++ (nodeDbg pr b ++ [')'])))
  | .not a => kNot ++ (nodeDbg pr a ++ [')'])
  | .multi f op v o c =>
    kMulti0 ++ (dbgStr pr f.toList ++ (kOperation ++ (dbgStr pr op.toList ++ (kValue ++ (optDbg pr v ++
      (kOperator ++ (optDbg pr o ++ (kCompare ++ (optDbg pr c ++ kMultiEnd)))))))))

def nodeKeyText (pr : Char → Bool) (n : RNode) : String := String.ofList (nodeDbg pr n)

def cmpText : CmpOp → String
  | .gt => ">" | .lt => "<" | .ge => ">=" | .le => "<=" | .eq => "==" | .ne => "!=" | .other => "~"

def multiText : MultiOp → String
  | .empty => "empty" | .notEmpty => "not_empty" | .first => "first" | .last => "last" | .collect => "collect"

/-- the real node a model node stands for (what the harness builds from the case): the parsed literal
value is not part of it — `parse_value_string` recomputes it from the text at every evaluation -/
def Node.toRaw : Node F → RNode
  | .alpha φ ne lit _ => .alpha φ (if ne then "!=" else "==") lit
  | .contains φ lit _ => .alpha φ "contains" lit
  | .count φ none => .multi φ "count" none none none
  | .count φ (some (op, k)) => .multi φ "count" none (some (cmpText op)) (some (String.ofList (intText k)))
  | .multi φ op => .multi φ (multiText op) none none none
  | .and a b => .and a.toRaw b.toRaw
  | .or a b => .or a.toRaw b.toRaw
  | .not a => .not a.toRaw

/-- the literal values of a node are what the parser `pv` makes of the literal texts -/
def Node.WF (pv : String → Val F) : Node F → Prop
  | .alpha _ _ lit lv => lv = pv lit
  | .contains _ lit lv => lv = pv lit
  | .count _ _ => True
  | .multi _ _ => True
  | .and a b => a.WF pv ∧ b.WF pv
  | .or a b => a.WF pv ∧ b.WF pv
  | .not a => a.WF pv

/-! ## `CompactAlphaMemory` (src/rete/optimization.rs): deduplicating fact store keyed by
`FactKey::from_facts` = SipHash of, for every field in sorted order, the field name and the `Debug`
text of its value (each written as a `str`, i.e. bytes + `0xff` terminator, so the sequence of
strings is the pre-image; SipHash collision-freeness is trusted as for the memo key). -/

/-- pre-image of `FactKey::from_facts` (fields arrive sorted) -/
def factKey (R : Fmt F) : Facts F → List String
  | [] => []
  | (k, v) :: rest => k :: debugKey R v :: factKey R rest

/-- `ref_counts`; `facts` (the `HashSet`) always has exactly its keys -/
structure KState where
  refs : Map (List String) Nat := []

inductive KOp (F : Type) where
  | add (f : Facts F)
  | remove (f : Facts F)
  | contains (f : Facts F)

/-- `CompactAlphaMemory::add` -/
def kAdd (R : Fmt F) (s : KState) (f : Facts F) : KState :=
  match s.refs.find (factKey R f) with
  | some n => { refs := s.refs.set (factKey R f) (n + 1) }
  | none => { refs := s.refs.set (factKey R f) 1 }

/-- `CompactAlphaMemory::remove`: the new state and the returned flag ("last reference gone") -/
def kRemove (R : Fmt F) (s : KState) (f : Facts F) : KState × Bool :=
  match s.refs.find (factKey R f) with
  | some n =>
    if n - 1 = 0 then ({ refs := s.refs.erase (factKey R f) }, true)
    else ({ refs := s.refs.set (factKey R f) (n - 1) }, false)
  | none => (s, false)

/-- `CompactAlphaMemory::contains` -/
def kContains (R : Fmt F) (s : KState) (f : Facts F) : Bool := s.refs.contains (factKey R f)

/-- `len()` and `total_refs()` -/
def kLen (s : KState) : Nat := s.refs.length
def kTotal (s : KState) : Nat := (s.refs.map (·.2)).foldl (· + ·) 0

def kStep (R : Fmt F) (s : KState) : KOp F → KState
  | .add f => kAdd R s f
  | .remove f => (kRemove R s f).1
  | .contains _ => s

def kRun (R : Fmt F) (s : KState) (ops : List (KOp F)) : KState := ops.foldl (kStep R) s

/-- the observable answers of a history: `remove` returns its flag, `contains` its verdict -/
def kTrace (R : Fmt F) : KState → List (KOp F) → List Bool
  | _, [] => []
  | s, op :: ops =>
    (match op with
     | .add _ => []
     | .remove f => [(kRemove R s f).2]
     | .contains f => [kContains R s f]) ++ kTrace R (kStep R s op) ops

/-! ## Statistics of `AlphaMemoryIndex::filter_tracked` (`IndexStats`: total_queries, indexed_lookups,
linear_scans — printed by its `Display`) -/

structure AStats where
  total : Nat := 0
  indexed : Nat := 0
  linear : Nat := 0
deriving Repr, DecidableEq

/-- the counters after a history: every `filter_tracked` counts once, as an indexed lookup when the
field has an index at that moment and as a linear scan otherwise; `clear` resets -/
def aStats {κ : Type} [DecidableEq κ] (key : Val F → Option κ) : AState F κ → AStats → List (AOp F) → AStats
  | _, st, [] => st
  | s, st, op :: ops =>
    aStats key (aStep key s op)
      (match op with
       | .tracked φ _ =>
         if s.indexes.contains φ then { st with total := st.total + 1, indexed := st.indexed + 1 }
         else { st with total := st.total + 1, linear := st.linear + 1 }
       | .clear => {}
       | _ => st) ops

/-! ## `NodeSharingRegistry` (src/rete/optimization.rs): pattern ↦ the rules sharing one alpha node.
`AlphaPattern` = (field, operator, value) compared and hashed field by field (`HashMap` = association list). -/

abbrev Pat := String × String × String

structure NState where
  nodes : Map Pat (List Nat) := []      -- shared_nodes: pattern ↦ rule_indices (ref_count = its length)
  total : Nat := 0                       -- total_nodes
  shared : Nat := 0                      -- shared_count

inductive NOp where
  | register (p : Pat) (rule : Nat)
  | unregister (rule : Nat)
  | get (p : Pat)
deriving Repr, DecidableEq

/-- `NodeSharingRegistry::register` -/
def nRegister (s : NState) (p : Pat) (r : Nat) : NState :=
  match s.nodes.find p with
  | some rs => { nodes := s.nodes.set p (rs ++ [r]), total := s.total + 1, shared := s.shared + 1 }
  | none => { nodes := s.nodes.set p [r], total := s.total + 1, shared := s.shared }

/-- `unregister_rule`: `remove_reference` on every node (all occurrences of the rule), nodes left without a
reference are removed; the statistics are not touched -/
def nUnregister (s : NState) (r : Nat) : NState :=
  { s with nodes := (s.nodes.map (fun e => (e.1, e.2.filter (fun j => !decide (j = r))))).filter (fun e => !e.2.isEmpty) }

/-- `get(pattern)` (the `rule_indices` of the shared node; `ref_count` is their number) -/
def nGet (s : NState) (p : Pat) : Option (List Nat) := s.nodes.find p

def nStep (s : NState) : NOp → NState
  | .register p r => nRegister s p r
  | .unregister r => nUnregister s r
  | .get _ => s

def nRun (s : NState) (ops : List NOp) : NState := ops.foldl nStep s

/-- observable answers: `register` returns the shared node (its rule list), `get` the node or nothing -/
def nTrace : NState → List NOp → List (Option (List Nat))
  | _, [] => []
  | s, op :: ops =>
    (match op with
     | .register p r => [nGet (nRegister s p r) p]
     | .unregister _ => []
     | .get p => [nGet s p]) ++ nTrace (nStep s op) ops

end C16
