/-
C16 — executable models of the four "shortcut" components and of the plain computations they
must agree with:

* `src/rete/alpha_memory_index.rs`  `AlphaMemoryIndex`   (insert / create_index / drop_index /
  filter / filter_tracked / auto_tune / clear)                                   — section Alpha
* `src/rete/optimization.rs`        `BetaMemoryIndex`    (add / remove / lookup / size) — section Beta
* `src/rete/memoization.rs`         `MemoizedEvaluator`  (evaluate / clear / stats)     — section Memo
* `src/backward/conclusion_index.rs` `ConclusionIndex`   (add_rule / remove_rule / find_candidates /
  from_rules / stats / clear) and `BackwardEngine::find_candidate_rules` / `rebuild_index`
  of `src/backward/backward_engine.rs`                                           — section Concl

The models follow the code *after* fix-C16.patch (canonical alpha key, type-tagged memo hashing).
The pre-fix keys are kept as `rawKey` / `oldFactsPre` for the counterexample theorems.

Conventions. `HashMap` = association list `Map` (first match wins; `set` replaces in place, `erase`
removes); `HashSet<String>` = duplicate-free list. Floats are an abstract type `F` (think: the 64-bit
pattern) with the three operations of `FloatOps`; nothing here looks inside a float. `TypedFacts` is
the association list of its `HashMap` (the harness emits fields sorted by name, which is the order
`compute_facts_hash` sorts into). No Mathlib.
-/
namespace C16

/-! ## Values (`src/rete/facts.rs` `FactValue`) -/

inductive Val (F : Type) where
  | str (s : String)
  | int (i : Int)
  | flt (f : F)
  | bool (b : Bool)
  | arr (xs : List (Val F))
  | null
deriving Repr, Inhabited

/-- what the components need to know about `f64`: IEEE `==`, `is_nan`, and the normalisation
`if f == 0.0 { 0.0 } else { f }` used by the canonical key. -/
structure FloatOps (F : Type) where
  feq : F → F → Bool
  isNan : F → Bool
  canon : F → F

/-- `TypedFacts`: field ↦ value -/
abbrev Facts (F : Type) := List (String × Val F)

/-- `TypedFacts::get` -/
def Facts.get {F : Type} (fs : Facts F) (k : String) : Option (Val F) :=
  match fs with
  | [] => none
  | (k', v) :: rest => if k' = k then some v else Facts.get rest k

variable {F : Type}

mutual
/-- `#[derive(PartialEq)]` on `FactValue`: same variant and equal payload; floats by IEEE `==`,
arrays elementwise (`Vec<T>: PartialEq`). -/
def Val.beq (o : FloatOps F) : Val F → Val F → Bool
  | .str a, .str b => a == b
  | .int a, .int b => a == b
  | .flt a, .flt b => o.feq a b
  | .bool a, .bool b => a == b
  | .arr xs, .arr ys => Val.beqList o xs ys
  | .null, .null => true
  | _, _ => false
def Val.beqList (o : FloatOps F) : List (Val F) → List (Val F) → Bool
  | [], [] => true
  | x :: xs, y :: ys => Val.beq o x y && Val.beqList o xs ys
  | _, _ => false
end

mutual
/-- the `canon` helper of the fixed `index_key`: `None` if a NaN occurs anywhere (such a value is
`!=` to everything, itself included), otherwise the value with every float normalised. -/
def Val.canon (o : FloatOps F) : Val F → Option (Val F)
  | .flt f => if o.isNan f then none else some (.flt (o.canon f))
  | .arr xs => match Val.canonList o xs with
    | some ys => some (.arr ys)
    | none => none
  | .str s => some (.str s)
  | .int i => some (.int i)
  | .bool b => some (.bool b)
  | .null => some .null
def Val.canonList (o : FloatOps F) : List (Val F) → Option (List (Val F))
  | [] => some []
  | x :: xs => match Val.canon o x, Val.canonList o xs with
    | some a, some as => some (a :: as)
    | _, _ => none
end

/-! ## Serialisation tokens.
One token = one typed write (`Hasher::write_u8 / write_str / write_i64 / write_u64 /
write_usize`) of the fixed `hash_fact_value`; the same type-tagged, length-prefixed serialisation is
the model's stand-in for the `Debug` text of a canonical value (both are injective renderings of the
value tree — for `Debug` that is part of the trusted base, for `enc` it is proved: `enc_injective`). -/
inductive Tok (F : Type) where
  | tag (n : Nat)
  | str (s : String)
  | int (i : Int)
  | bits (f : F)
  | bool (b : Bool)
  | len (n : Nat)
deriving Repr, DecidableEq

mutual
/-- `hash_fact_value` (memoization.rs, after the fix): variant tag, then the payload; arrays are
length-prefixed. -/
def enc : Val F → List (Tok F)
  | .str s => [.tag 0, .str s]
  | .int i => [.tag 1, .int i]
  | .flt f => [.tag 2, .bits f]
  | .bool b => [.tag 3, .bool b]
  | .arr xs => .tag 4 :: .len xs.length :: encList xs
  | .null => [.tag 5]
def encList : List (Val F) → List (Tok F)
  | [] => []
  | x :: xs => enc x ++ encList xs
end

/-! ## Association maps (`HashMap`) -/

abbrev Map (κ α : Type) := List (κ × α)

namespace Map
variable {κ α : Type} [DecidableEq κ]

def find (m : Map κ α) (k : κ) : Option α :=
  match m with
  | [] => none
  | (k', v) :: rest => if k' = k then some v else find rest k

/-- `insert`: replace in place or append -/
def set (m : Map κ α) (k : κ) (v : α) : Map κ α :=
  match m with
  | [] => [(k, v)]
  | (k', v') :: rest => if k' = k then (k, v) :: rest else (k', v') :: set rest k v

def erase (m : Map κ α) (k : κ) : Map κ α :=
  m.filter (fun p => !decide (p.1 = k))

def contains (m : Map κ α) (k : κ) : Bool := (find m k).isSome

def keys (m : Map κ α) : List κ := m.map (·.1)
end Map

/-- the bucket of key `k` in a `HashMap<_, Vec<usize>>` (empty when absent) -/
def bucket {κ : Type} [DecidableEq κ] (ix : Map κ (List Nat)) (k : κ) : List Nat :=
  match ix.find k with
  | some is => is
  | none => []

/-- `index.entry(key).or_default().push(idx)` -/
def pushIdx {κ : Type} [DecidableEq κ] (ix : Map κ (List Nat)) (k : κ) (i : Nat) : Map κ (List Nat) :=
  ix.set k (bucket ix k ++ [i])

/-! ## Alpha memory index (`src/rete/alpha_memory_index.rs`)

Parametric in the key function `key : Val F → Option κ` (`None` = "not indexable / never found").
The fixed code uses `canonKey`; the unfixed code used `rawKey`. -/
section Alpha
variable {κ : Type} [DecidableEq κ]

structure AState (F κ : Type) where
  facts : List (Facts F) := []
  indexes : Map String (Map κ (List Nat)) := []
  counts : Map String Nat := []          -- `stats.query_counts`

/-- body of the loops in `insert` / `create_index`: index fact number `i` under field `φ` -/
def addFact (key : Val F → Option κ) (φ : String) (ix : Map κ (List Nat)) (i : Nat) (f : Facts F) :
    Map κ (List Nat) :=
  match (f.get φ).bind key with
  | some k => pushIdx ix k i
  | none => ix

/-- `create_index`: the loop over `self.facts.iter().enumerate()` -/
def buildFrom (key : Val F → Option κ) (φ : String) : Nat → Map κ (List Nat) → List (Facts F) → Map κ (List Nat)
  | _, ix, [] => ix
  | i, ix, f :: fs => buildFrom key φ (i + 1) (addFact key φ ix i f) fs

/-- `AlphaMemoryIndex::insert` -/
def aInsert (key : Val F → Option κ) (s : AState F κ) (f : Facts F) : AState F κ :=
  { s with
    indexes := s.indexes.map (fun p => (p.1, addFact key p.1 p.2 s.facts.length f)),
    facts := s.facts ++ [f] }

/-- `AlphaMemoryIndex::create_index` -/
def aCreate (key : Val F → Option κ) (s : AState F κ) (φ : String) : AState F κ :=
  if s.indexes.contains φ then s
  else { s with indexes := s.indexes.set φ (buildFrom key φ 0 [] s.facts) }

/-- `AlphaMemoryIndex::drop_index` -/
def aDrop (s : AState F κ) (φ : String) : AState F κ :=
  { s with indexes := s.indexes.erase φ }

/-- positions (counted from `start`) of the facts whose field `φ` is `==` to `v`:
the linear scan `facts.iter().filter(|f| f.get(field) == Some(value))` -/
def posEq (o : FloatOps F) (φ : String) (v : Val F) : Nat → List (Facts F) → List Nat
  | _, [] => []
  | i, f :: fs =>
    (match f.get φ with
     | some w => if Val.beq o w v then [i] else []
     | none => []) ++ posEq o φ v (i + 1) fs

/-- `AlphaMemoryIndex::filter` (and the result of `filter_tracked`), as fact positions:
index lookup when the field is indexed, linear scan otherwise -/
def aFilter (o : FloatOps F) (key : Val F → Option κ) (s : AState F κ) (φ : String) (v : Val F) : List Nat :=
  match s.indexes.find φ with
  | some ix =>
    (match key v with
     | some k => bucket ix k
     | none => [])
  | none => posEq o φ v 0 s.facts

/-- the statistics side of `filter_tracked` -/
def aTrack (s : AState F κ) (φ : String) : AState F κ :=
  { s with counts := s.counts.set φ ((match s.counts.find φ with | some n => n | none => 0) + 1) }

/-- `auto_tune`: index every field queried more than 50 times that is not indexed yet -/
def aAutoTune (key : Val F → Option κ) (s : AState F κ) : AState F κ :=
  ((s.counts.filter (fun p => decide (p.2 > 50) && !s.indexes.contains p.1)).map (·.1)).foldl (aCreate key) s

inductive AOp (F : Type) where
  | insert (f : Facts F)
  | create (φ : String)
  | drop (φ : String)
  | filter (φ : String) (v : Val F)
  | tracked (φ : String) (v : Val F)
  | autoTune
  | clear

def aStep (key : Val F → Option κ) (s : AState F κ) : AOp F → AState F κ
  | .insert f => aInsert key s f
  | .create φ => aCreate key s φ
  | .drop φ => aDrop s φ
  | .filter _ _ => s
  | .tracked φ _ => aTrack s φ
  | .autoTune => aAutoTune key s
  | .clear => {}

def aRun (key : Val F → Option κ) (ops : List (AOp F)) : AState F κ := ops.foldl (aStep key) {}

/-- the answers of every `filter` / `filter_tracked` call of a history, in order -/
def aTrace (o : FloatOps F) (key : Val F → Option κ) : AState F κ → List (AOp F) → List (List Nat)
  | _, [] => []
  | s, op :: ops =>
    (match op with
     | .filter φ v => [aFilter o key s φ v]
     | .tracked φ v => [aFilter o key s φ v]
     | _ => []) ++ aTrace o key (aStep key s op) ops

/-- the fixed `index_key`: serialisation of the canonical value, `None` when a NaN occurs -/
def canonKey (o : FloatOps F) (v : Val F) : Option (List (Tok F)) := (Val.canon o v).map enc

/-- the unfixed key `format!("{:?}", value)`: every value has one, floats rendered as they are -/
def rawKey (v : Val F) : Option (List (Tok F)) := some (enc v)

end Alpha

/-! ## Beta memory index (`src/rete/optimization.rs` `BetaMemoryIndex`)
`render` is `format!("{:?}", value)`; the API is keyed by that text (`lookup(&str)`). -/
section Beta

structure BState where
  index : Map String (List Nat) := []

inductive BOp (F : Type) where
  | add (f : Facts F) (i : Nat)
  | remove (f : Facts F) (i : Nat)
  | lookup (k : String)

/-- the key under which `fact` is filed: rendering of its join field, if present -/
def bKeyOf (render : Val F → String) (jk : String) (f : Facts F) : Option String :=
  (f.get jk).map render

/-- `BetaMemoryIndex::add` -/
def bAdd (render : Val F → String) (jk : String) (s : BState) (f : Facts F) (i : Nat) : BState :=
  match bKeyOf render jk f with
  | some k => { index := pushIdx s.index k i }
  | none => s

/-- the `retain` + remove-when-empty part of `remove` -/
def bRemoveKey (s : BState) (k : String) (i : Nat) : BState :=
  match s.index.find k with
  | some is =>
    let is' := is.filter (fun j => !decide (j = i))
    if is'.isEmpty then { index := s.index.erase k } else { index := s.index.set k is' }
  | none => s

/-- `BetaMemoryIndex::remove` -/
def bRemove (render : Val F → String) (jk : String) (s : BState) (f : Facts F) (i : Nat) : BState :=
  match bKeyOf render jk f with
  | some k => bRemoveKey s k i
  | none => s

/-- `BetaMemoryIndex::lookup` -/
def bLookup (s : BState) (k : String) : List Nat := bucket s.index k

/-- `BetaMemoryIndex::size` -/
def bSize (s : BState) : Nat := s.index.length

def bStep (render : Val F → String) (jk : String) (s : BState) : BOp F → BState
  | .add f i => bAdd render jk s f i
  | .remove f i => bRemove render jk s f i
  | .lookup _ => s

def bRun (render : Val F → String) (jk : String) (s : BState) (ops : List (BOp F)) : BState :=
  ops.foldl (bStep render jk) s

/-- the answers of every `lookup` of a history, in order -/
def bTrace (render : Val F → String) (jk : String) : BState → List (BOp F) → List (List Nat)
  | _, [] => []
  | s, op :: ops =>
    (match op with
     | .lookup k => [bLookup s k]
     | _ => []) ++ bTrace render jk (bStep render jk s op) ops

end Beta

/-! ## Memoised evaluation (`src/rete/memoization.rs`)
Generic in the node type `N`, the evaluation function `ev` (the closure handed to `evaluate`,
`ReteUlNode::evaluate_typed` in the property) and the cache key `key` = the *pre-image* handed to
the hasher (SipHash collision-freeness is trusted, so the `u64` pair is identified with it). -/
section Memo
variable {N K : Type} [DecidableEq K]

structure MState (K : Type) where
  cache : Map K Bool := []
  hits : Nat := 0
  misses : Nat := 0

inductive MOp (N F : Type) where
  | eval (n : N) (f : Facts F)
  | clear

/-- `MemoizedEvaluator::evaluate` -/
def mEval (key : N → Facts F → K) (ev : N → Facts F → Bool) (s : MState K) (n : N) (f : Facts F) :
    MState K × Bool :=
  match s.cache.find (key n f) with
  | some r => ({ s with hits := s.hits + 1 }, r)
  | none =>
    let r := ev n f
    ({ s with cache := s.cache.set (key n f) r, misses := s.misses + 1 }, r)

def mStep (key : N → Facts F → K) (ev : N → Facts F → Bool) (s : MState K) : MOp N F → MState K
  | .eval n f => (mEval key ev s n f).1
  | .clear => {}

/-- the verdicts returned by every `evaluate` call of a history -/
def mTrace (key : N → Facts F → K) (ev : N → Facts F → Bool) : MState K → List (MOp N F) → List Bool
  | _, [] => []
  | s, op :: ops =>
    (match op with
     | .eval n f => [(mEval key ev s n f).2]
     | .clear => []) ++ mTrace key ev (mStep key ev s op) ops

/-- hits after every `evaluate` (the observable `stats().hits`) -/
def mHits (key : N → Facts F → K) (ev : N → Facts F → Bool) : MState K → List (MOp N F) → List Nat
  | _, [] => []
  | s, op :: ops =>
    (match op with
     | .eval _ _ => [(mStep key ev s op).hits]
     | .clear => []) ++ mHits key ev (mStep key ev s op) ops

def mRun (key : N → Facts F → K) (ev : N → Facts F → Bool) (ops : List (MOp N F)) : MState K :=
  ops.foldl (mStep key ev) {}

/-- direct evaluation of the same history -/
def directTrace (ev : N → Facts F → Bool) : List (MOp N F) → List Bool
  | [] => []
  | .eval n f :: ops => ev n f :: directTrace ev ops
  | .clear :: ops => directTrace ev ops

/-- pre-image of `compute_facts_hash` after the fix: for every (sorted) field, its name and the
type-tagged serialisation of its value -/
def factsPre : Facts F → List (Tok F)
  | [] => []
  | (k, v) :: rest => Tok.str k :: (enc v ++ factsPre rest)

/-- the fixed memo key: (node rendering, facts pre-image) -/
def memoKey {NK : Type} (nodeKey : N → NK) (n : N) (f : Facts F) : NK × List (Tok F) := (nodeKey n, factsPre f)

/-- pre-image of the *unfixed* `compute_facts_hash`: field name and `value.as_str()`, both hashed
as plain strings — `asStr` is `FactValue::as_str`. -/
def oldFactsPre (asStr : Val F → String) : Facts F → List String
  | [] => []
  | (k, v) :: rest => k :: asStr v :: oldFactsPre asStr rest

/-- the comparison operators of the `count` multifield test (`">" "<" ">=" "<=" "==" "!="`; any
other text is `false`) -/
inductive CmpOp where
  | gt | lt | ge | le | eq | ne | other
deriving Repr, DecidableEq

def CmpOp.eval : CmpOp → Int → Int → Bool
  | .gt, a, b => decide (a > b)
  | .lt, a, b => decide (a < b)
  | .ge, a, b => decide (a ≥ b)
  | .le, a, b => decide (a ≤ b)
  | .eq, a, b => decide (a = b)
  | .ne, a, b => decide (a ≠ b)
  | .other, _, _ => false

/-- the `UlMultiField` operations that look at the array only -/
inductive MultiOp where
  | empty | notEmpty | first | last | collect
deriving Repr, DecidableEq

/-- `str::contains(&str)`: `pat` occurs as a contiguous piece -/
def isInfix (pat : List Char) : List Char → Bool
  | [] => pat.isEmpty
  | c :: cs => pat.isPrefixOf (c :: cs) || isInfix pat cs

/-- `FactValue::contains` (operator `contains` of `FactValue::compare`): substring on two strings,
membership by `==` on an array, `false` otherwise -/
def Val.contains (o : FloatOps F) : Val F → Val F → Bool
  | .str s, .str p => isInfix p.toList s.toList
  | .arr xs, v => xs.any (fun x => Val.beq o x v)
  | _, _ => false

/-- the fragment of `ReteUlNode` the correspondence drives: alpha tests with `==` / `!=` / `contains`
against a literal (given with the value `parse_value_string` yields for it) or another field, the
array-only `UlMultiField` operations (`count` with or without a comparison, `empty`, `not_empty`,
`first`, `last`, `collect`), `And`, `Or`, `Not`. -/
inductive Node (F : Type) where
  | alpha (field : String) (ne : Bool) (lit : String) (litVal : Val F)
  | contains (field : String) (lit : String) (litVal : Val F)
  | count (field : String) (cmp : Option (CmpOp × Int))
  | multi (field : String) (op : MultiOp)
  | and (a b : Node F)
  | or (a b : Node F)
  | not (a : Node F)
deriving Repr

/-- `AlphaNode::matches_typed`: the expected value is the fact named by the literal if there is one
(variable reference), else the parsed literal -/
def expectedOf (fs : Facts F) (lit : String) (lv : Val F) : Val F :=
  match fs.get lit with
  | some w => w
  | none => lv

/-- the `count` branch of `UlMultiField` in `evaluate_rete_ul_node_typed`: only an array has a count;
without operator/compare value the test is `count > 0` -/
def evalCount (cmp : Option (CmpOp × Int)) : Option (Val F) → Bool
  | some (.arr xs) =>
    (match cmp with
     | some (op, n) => op.eval (Int.ofNat xs.length) n
     | none => decide (xs.length > 0))
  | _ => false

/-- the `empty` / `not_empty` / `first` / `last` / `collect` branches of `UlMultiField` -/
def evalMulti : MultiOp → Option (Val F) → Bool
  | .empty, some (.arr xs) => xs.isEmpty
  | .empty, _ => true
  | .collect, some (.arr _) => true
  | .collect, _ => false
  | _, some (.arr xs) => !xs.isEmpty
  | _, _ => false

/-- `evaluate_rete_ul_node_typed` on that fragment; for alpha nodes a missing field is `false` for
every operator (`TypedFacts::evaluate_condition`). -/
def evalNode (o : FloatOps F) : Node F → Facts F → Bool
  | .alpha φ ne lit lv, fs =>
    let expected := match fs.get lit with
      | some w => w
      | none => lv
    match fs.get φ with
    | some fv => if ne then !(Val.beq o fv expected) else Val.beq o fv expected
    | none => false
  | .contains φ lit lv, fs =>
    (match fs.get φ with
     | some fv => Val.contains o fv (expectedOf fs lit lv)
     | none => false)
  | .count φ cmp, fs => evalCount cmp (fs.get φ)
  | .multi φ op, fs => evalMulti op (fs.get φ)
  | .and a b, fs => evalNode o a fs && evalNode o b fs
  | .or a b, fs => evalNode o a fs || evalNode o b fs
  | .not a, fs => !(evalNode o a fs)

end Memo

/-! ## Conclusion index (`src/backward/conclusion_index.rs`) -/
section Concl

/-- the action kinds `extract_conclusions` distinguishes -/
inductive Act where
  | set (field : String)
  | method (object method : String)
  | retract (object : String)
  | workflow (key : String)
  | other                                   -- Log, Custom, ScheduleRule, … : no conclusion
deriving Repr, DecidableEq

structure CRule where
  name : String
  enabled : Bool
  actions : List Act
deriving Repr, DecidableEq

/-- `HashSet::insert` on a duplicate-free list -/
def setInsert (xs : List String) (x : String) : List String := if x ∈ xs then xs else xs ++ [x]

def actConclusions : Act → List String
  | .set f => [f]
  | .method o m => [o ++ "." ++ m, o]
  | .retract o => [o]
  | .workflow k => [k]
  | .other => []

/-- `extract_conclusions` (a set, here duplicate-free in first-occurrence order) -/
def conclusions (r : CRule) : List String :=
  (r.actions.flatMap actConclusions).foldl setInsert []

structure CState where
  f2r : Map String (List String) := []      -- field_to_rules
  r2c : Map String (List String) := []      -- rule_to_conclusions
  count : Nat := 0                          -- rule_count

def addConclusion (name : String) (m : Map String (List String)) (c : String) : Map String (List String) :=
  m.set c (setInsert (match m.find c with | some rs => rs | none => []) name)

/-- `ConclusionIndex::add_rule` -/
def cAdd (s : CState) (r : CRule) : CState :=
  if !r.enabled then s
  else
    let cs := conclusions r
    if cs.isEmpty then s
    else { f2r := cs.foldl (addConclusion r.name) s.f2r, r2c := s.r2c.set r.name cs, count := s.count + 1 }

def removeConclusion (name : String) (m : Map String (List String)) (c : String) : Map String (List String) :=
  match m.find c with
  | some rs =>
    let rs' := rs.filter (fun x => !decide (x = name))
    if rs'.isEmpty then m.erase c else m.set c rs'
  | none => m

/-- `ConclusionIndex::remove_rule` -/
def cRemove (s : CState) (name : String) : CState :=
  match s.r2c.find name with
  | some cs => { f2r := cs.foldl (removeConclusion name) s.f2r, r2c := s.r2c.erase name, count := s.count - 1 }
  | none => s

/-- first position at which `pat` occurs in `s` (`str::find`), on characters (the generated goal
patterns are ASCII, where byte and character offsets coincide) -/
def findSub (pat : List Char) : List Char → Nat → Option Nat
  | [], i => if pat.isEmpty then some i else none
  | c :: cs, i => if pat.isPrefixOf (c :: cs) then some i else findSub pat cs (i + 1)

def trimL : List Char → List Char
  | [] => []
  | c :: cs => if c.isWhitespace then trimL cs else c :: cs

/-- `str::trim` (ASCII white space in the generated patterns) -/
def trim (s : List Char) : List Char := (trimL (trimL s).reverse).reverse

def goalOps : List String := ["==", "!=", ">=", "<=", ">", "<", " contains ", " matches "]

/-- `extract_field_from_goal`: cut at the first operator *of the list* that occurs anywhere -/
def extractFieldAux (g : List Char) : List String → List Char
  | [] => trim g
  | op :: ops =>
    match findSub op.toList g 0 with
    | some pos => trim (g.take pos)
    | none => extractFieldAux g ops

def extractField (goal : String) : String := String.ofList (extractFieldAux goal.toList goalOps)

/-- `str::rfind('.')` as the prefix before the last dot -/
def beforeLastDot (s : List Char) : Option (List Char) :=
  match findSub ['.'] s.reverse 0 with
  | some p => some (s.take (s.length - p - 1))
  | none => none

/-- `ConclusionIndex::find_candidates` (a set: duplicate-free, order irrelevant) -/
def cFind (s : CState) (goal : String) : List String :=
  let field := extractField goal
  let direct := match s.f2r.find field with
    | some rs => rs
    | none => []
  let viaParent := match beforeLastDot field.toList with
    | some obj =>
      (s.f2r.filter (fun p => obj.isPrefixOf p.1.toList)).flatMap (·.2)
    | none => []
  (direct ++ viaParent).foldl setInsert []

inductive COp where
  | add (r : CRule)
  | remove (name : String)
  | find (goal : String)
  | clear
deriving Repr

def cStep (s : CState) : COp → CState
  | .add r => cAdd s r
  | .remove n => cRemove s n
  | .find _ => s
  | .clear => {}

def cRun (ops : List COp) : CState := ops.foldl cStep {}

/-- `ConclusionIndex::from_rules` -/
def cFromRules (rs : List CRule) : CState := rs.foldl cAdd {}

/-- the rule currently registered under each name by a history (`add` of an existing name replaces
it, `remove` deletes it) — what a scan over the rule set sees -/
def cCurrent (cur : Map String CRule) : COp → Map String CRule
  | .add r => cur.set r.name r
  | .remove n => cur.erase n
  | .find _ => cur
  | .clear => []

/-- the plain computation: scan the current rules for enabled ones with a `Set` on the goal's field -/
def scanSet (cur : Map String CRule) (goal : String) : List String :=
  (cur.filter (fun p => p.2.enabled && p.2.actions.contains (Act.set (extractField goal)))).map (·.1)

/-- answers of every `find_candidates` of a history, paired with the scan's answer -/
def cTrace : CState → Map String CRule → List COp → List (List String × List String)
  | _, _, [] => []
  | s, cur, op :: ops =>
    (match op with
     | .find g => [(cFind s g, scanSet cur g)]
     | _ => []) ++ cTrace (cStep s op) (cCurrent cur op) ops

/-! ### `BackwardEngine` keeping its index in sync (`src/backward/backward_engine.rs`)
The engine builds the index from `kb.get_rules()` in `new` / `with_config` and again only in
`rebuild_index`; the knowledge base (names unique: `add_rule` rejects a duplicate) can change in
between through `knowledge_base()`. -/

structure EState where
  kb : Map String CRule := []       -- `KnowledgeBase` rules (equal salience: insertion order)
  idx : CState := {}

inductive EOp where
  | add (r : CRule)                 -- `knowledge_base().add_rule`
  | remove (name : String)          -- `knowledge_base().remove_rule`
  | enable (name : String) (b : Bool)   -- `knowledge_base().set_rule_enabled`
  | rebuild                         -- `rebuild_index` (also: re-creating the engine from a clone of the kb)
deriving Repr

def kbAdd (kb : Map String CRule) (r : CRule) : Map String CRule :=
  if kb.contains r.name then kb else kb ++ [(r.name, r)]

def eRebuild (s : EState) : EState := { s with idx := cFromRules (s.kb.map (·.2)) }

def eStep (s : EState) : EOp → EState
  | .add r => { s with kb := kbAdd s.kb r }
  | .remove n => { s with kb := s.kb.erase n }
  | .enable n b =>
    match s.kb.find n with
    | some r => { s with kb := s.kb.set n { r with enabled := b } }
    | none => s
  | .rebuild => eRebuild s

/-- `BackwardEngine::new(kb)` -/
def eNew (rules : List CRule) : EState := eRebuild { kb := rules.foldl kbAdd [] }

/-- `index_stats()`: (total_rules, indexed_fields) -/
def eStats (s : EState) : Nat × Nat := (s.idx.count, s.idx.f2r.length)

end Concl

end C16
