import RreModel.C16.Spec
/-
C16 — helper lemmas: association maps, buckets, the serialisation is prefix-free, the canonical key
agrees with `==`, and the invariants of the four components. Core Lean only.
-/
namespace C16
variable {F : Type}

/-! ## Association maps -/
namespace Map
variable {κ α β : Type} [DecidableEq κ]

theorem find_set_self (m : Map κ α) (k : κ) (v : α) : (m.set k v).find k = some v := by
  induction m with
  | nil => simp [set, find]
  | cons p m ih =>
    obtain ⟨k', v'⟩ := p
    by_cases h : k' = k <;> simp [set, find, h, ih]

theorem find_set_ne (m : Map κ α) {k k' : κ} (v : α) (h : k ≠ k') : (m.set k v).find k' = m.find k' := by
  induction m with
  | nil => simp [set, find, h]
  | cons p m ih =>
    obtain ⟨k0, v0⟩ := p
    by_cases h0 : k0 = k
    · subst h0; simp [set, find, h]
    · by_cases h1 : k0 = k'
      · subst h1; simp [set, find, h0]
      · simp [set, find, h0, h1, ih]

theorem find_erase_self (m : Map κ α) (k : κ) : (m.erase k).find k = none := by
  induction m with
  | nil => simp [erase, find]
  | cons p m ih =>
    obtain ⟨k0, v0⟩ := p
    by_cases h0 : k0 = k
    · simpa [erase, List.filter, h0] using ih
    · simp only [erase] at ih
      simp [erase, List.filter, h0, find, ih]

theorem find_erase_ne (m : Map κ α) {k k' : κ} (h : k ≠ k') : (m.erase k).find k' = m.find k' := by
  induction m with
  | nil => simp [erase, find]
  | cons p m ih =>
    obtain ⟨k0, v0⟩ := p
    simp only [erase] at ih
    by_cases h0 : k0 = k
    · subst h0; simp [erase, List.filter, find, h, ih]
    · by_cases h1 : k0 = k'
      · subst h1; simp [erase, List.filter, h0, find]
      · simp [erase, List.filter, h0, h1, find, ih]

theorem find_map_val (m : Map κ α) (g : κ → α → β) (k : κ) :
    Map.find (m.map (fun p => (p.1, g p.1 p.2)) : Map κ β) k = (m.find k).map (g k) := by
  induction m with
  | nil => simp [find]
  | cons p m ih =>
    obtain ⟨k0, v0⟩ := p
    by_cases h0 : k0 = k
    · subst h0; simp [find]
    · simp [find, h0, ih]

theorem find_nil (k : κ) : Map.find ([] : Map κ α) k = none := rfl

/-- keys are pairwise different -/
def NodupKeys (m : Map κ α) : Prop := (m.map (·.1)).Nodup

theorem mem_keys_set (m : Map κ α) (k : κ) (v : α) (x : κ) :
    x ∈ (m.set k v).map (·.1) ↔ x ∈ m.map (·.1) ∨ x = k := by
  induction m with
  | nil => simp [set]
  | cons p m ih =>
    obtain ⟨k0, v0⟩ := p
    by_cases h0 : k0 = k
    · subst h0
      simp only [set, if_true, List.map_cons, List.mem_cons]
      grind
    · simp only [set, h0, if_false, List.map_cons, List.mem_cons, ih]
      grind

theorem nodupKeys_set (m : Map κ α) (k : κ) (v : α) (h : NodupKeys m) : NodupKeys (m.set k v) := by
  induction m with
  | nil => simp [NodupKeys, set]
  | cons p m ih =>
    obtain ⟨k0, v0⟩ := p
    simp only [NodupKeys, List.map_cons, List.nodup_cons] at h
    by_cases h0 : k0 = k
    · subst h0; simpa [NodupKeys, set] using h
    · simp only [NodupKeys, set, h0, if_false, List.map_cons, List.nodup_cons]
      refine ⟨?_, ih h.2⟩
      intro hm
      rcases (mem_keys_set m k v k0).1 hm with hm | hm
      · exact h.1 hm
      · exact h0 hm

theorem nodupKeys_erase (m : Map κ α) (k : κ) (h : NodupKeys m) : NodupKeys (m.erase k) := by
  unfold NodupKeys erase at *
  induction m with
  | nil => simp
  | cons p m ih =>
    simp only [List.map_cons, List.nodup_cons] at h
    by_cases hp : p.1 = k
    · simpa [List.filter, hp] using ih h.2
    · simp only [List.filter, hp, decide_false, Bool.not_false, List.map_cons, List.nodup_cons]
      refine ⟨?_, ih h.2⟩
      intro hm
      apply h.1
      rcases List.mem_map.1 hm with ⟨q, hq, hq1⟩
      exact List.mem_map.2 ⟨q, (List.mem_filter.1 hq).1, hq1⟩

theorem find_of_mem (m : Map κ α) (h : NodupKeys m) {k : κ} {v : α} (hm : (k, v) ∈ m) : m.find k = some v := by
  induction m with
  | nil => simp at hm
  | cons p m ih =>
    obtain ⟨k0, v0⟩ := p
    simp only [NodupKeys, List.map_cons, List.nodup_cons] at h
    rcases List.mem_cons.1 hm with hm | hm
    · cases hm; simp [find]
    · have : k0 ≠ k := by
        intro e; subst e
        exact h.1 (List.mem_map.2 ⟨(k0, v), hm, rfl⟩)
      simp [find, this, ih h.2 hm]

end Map

/-! ## Buckets -/
section Bucket
variable {κ : Type} [DecidableEq κ]

theorem bucket_nil (k : κ) : bucket ([] : Map κ (List Nat)) k = [] := rfl

theorem bucket_pushIdx (ix : Map κ (List Nat)) (k k' : κ) (i : Nat) :
    bucket (pushIdx ix k i) k' = bucket ix k' ++ (if k = k' then [i] else []) := by
  by_cases h : k = k'
  · subst h; simp [pushIdx, bucket, Map.find_set_self]
  · simp [pushIdx, bucket, Map.find_set_ne _ _ h, h]

theorem bucket_set_self (ix : Map κ (List Nat)) (k : κ) (is : List Nat) : bucket (ix.set k is) k = is := by
  simp [bucket, Map.find_set_self]

theorem bucket_set_ne (ix : Map κ (List Nat)) {k k' : κ} (is : List Nat) (h : k ≠ k') :
    bucket (ix.set k is) k' = bucket ix k' := by
  simp [bucket, Map.find_set_ne _ _ h]

theorem bucket_erase_self (ix : Map κ (List Nat)) (k : κ) : bucket (ix.erase k) k = [] := by
  simp [bucket, Map.find_erase_self]

theorem bucket_erase_ne (ix : Map κ (List Nat)) {k k' : κ} (h : k ≠ k') :
    bucket (ix.erase k) k' = bucket ix k' := by
  simp [bucket, Map.find_erase_ne _ h]

end Bucket

/-! ## The serialisation is prefix-free, hence injective -/

mutual
theorem enc_prefix_free : (v w : Val F) → (r s : List (Tok F)) → enc v ++ r = enc w ++ s → v = w ∧ r = s
  | .str a, w, r, s, h => by cases w <;> simp_all [enc]
  | .int a, w, r, s, h => by cases w <;> simp_all [enc]
  | .flt a, w, r, s, h => by cases w <;> simp_all [enc]
  | .bool a, w, r, s, h => by cases w <;> simp_all [enc]
  | .null, w, r, s, h => by cases w <;> simp_all [enc]
  | .arr xs, w, r, s, h => by
    cases w with
    | arr ys =>
      simp only [enc, List.cons_append, List.cons.injEq, Tok.len.injEq, true_and] at h
      have := encList_prefix_free xs ys r s h.1 h.2
      simp [this.1, this.2]
    | _ => simp_all [enc]
theorem encList_prefix_free : (xs ys : List (Val F)) → (r s : List (Tok F)) → xs.length = ys.length →
    encList xs ++ r = encList ys ++ s → xs = ys ∧ r = s
  | [], [], r, s, _, h => by simpa [encList] using h
  | [], _ :: _, _, _, hl, _ => by simp at hl
  | _ :: _, [], _, _, hl, _ => by simp at hl
  | x :: xs, y :: ys, r, s, hl, h => by
    simp only [encList, List.append_assoc] at h
    have h1 := enc_prefix_free x y _ _ h
    have h2 := encList_prefix_free xs ys r s (by simpa using hl) h1.2
    simp [h1.1, h2.1, h2.2]
end

theorem enc_inj (v w : Val F) (h : enc v = enc w) : v = w := by
  have := enc_prefix_free v w [] [] (by simpa using h)
  exact this.1

theorem factsPre_inj : (f g : Facts F) → factsPre f = factsPre g → f = g
  | [], [], _ => rfl
  | [], (k, v) :: g, h => by simp [factsPre] at h
  | (k, v) :: f, [], h => by simp [factsPre] at h
  | (k, v) :: f, (k', v') :: g, h => by
    simp only [factsPre, List.cons.injEq, Tok.str.injEq] at h
    have h1 := enc_prefix_free v v' _ _ h.2
    have h2 := factsPre_inj f g h1.2
    rw [h.1, h1.1, h2]

/-! ## The canonical key agrees with `==` -/

mutual
theorem canon_none_left (o : FloatOps F) (hf : FloatLaws o) :
    (a b : Val F) → Val.canon o a = none → Val.beq o a b = false
  | .str _, b, h => by simp [Val.canon] at h
  | .int _, b, h => by simp [Val.canon] at h
  | .bool _, b, h => by simp [Val.canon] at h
  | .null, b, h => by simp [Val.canon] at h
  | .flt f, b, h => by
    cases b <;> simp only [Val.beq]
    rename_i g
    by_cases hn : o.isNan f = true
    · exact hf.nan_left f g hn
    · simp [Val.canon, hn] at h
  | .arr xs, b, h => by
    cases b <;> simp only [Val.beq]
    rename_i ys
    apply canonList_none_left o hf xs ys
    cases hc : Val.canonList o xs <;> simp [Val.canon, hc] at h ⊢
theorem canonList_none_left (o : FloatOps F) (hf : FloatLaws o) :
    (xs ys : List (Val F)) → Val.canonList o xs = none → Val.beqList o xs ys = false
  | [], ys, h => by simp [Val.canonList] at h
  | x :: xs, [], _ => by simp [Val.beqList]
  | x :: xs, y :: ys, h => by
    simp only [Val.beqList, Bool.and_eq_false_iff]
    cases hx : Val.canon o x with
    | none => exact Or.inl (canon_none_left o hf x y hx)
    | some a =>
      cases hxs : Val.canonList o xs with
      | none => exact Or.inr (canonList_none_left o hf xs ys hxs)
      | some as => simp [Val.canonList, hx, hxs] at h
end

mutual
theorem canon_none_right (o : FloatOps F) (hf : FloatLaws o) :
    (a b : Val F) → Val.canon o b = none → Val.beq o a b = false
  | a, .str _, h => by simp [Val.canon] at h
  | a, .int _, h => by simp [Val.canon] at h
  | a, .bool _, h => by simp [Val.canon] at h
  | a, .null, h => by simp [Val.canon] at h
  | a, .flt g, h => by
    cases a <;> simp only [Val.beq]
    rename_i f
    by_cases hn : o.isNan g = true
    · exact hf.nan_right f g hn
    · simp [Val.canon, hn] at h
  | a, .arr ys, h => by
    cases a <;> simp only [Val.beq]
    rename_i xs
    apply canonList_none_right o hf xs ys
    cases hc : Val.canonList o ys <;> simp [Val.canon, hc] at h ⊢
theorem canonList_none_right (o : FloatOps F) (hf : FloatLaws o) :
    (xs ys : List (Val F)) → Val.canonList o ys = none → Val.beqList o xs ys = false
  | xs, [], h => by simp [Val.canonList] at h
  | [], y :: ys, _ => by simp [Val.beqList]
  | x :: xs, y :: ys, h => by
    simp only [Val.beqList, Bool.and_eq_false_iff]
    cases hy : Val.canon o y with
    | none => exact Or.inl (canon_none_right o hf x y hy)
    | some a =>
      cases hys : Val.canonList o ys with
      | none => exact Or.inr (canonList_none_right o hf xs ys hys)
      | some as => simp [Val.canonList, hy, hys] at h
end

mutual
theorem canon_some_iff (o : FloatOps F) (hf : FloatLaws o) :
    (a b ka kb : Val F) → Val.canon o a = some ka → Val.canon o b = some kb →
      (ka = kb ↔ Val.beq o a b = true)
  | .str s, b, ka, kb, ha, hb => by
    simp only [Val.canon, Option.some.injEq] at ha
    subst ha
    cases b with
    | flt g =>
      by_cases hg : o.isNan g = true
      · simp [Val.canon, hg] at hb
      · simp [Val.canon, hg] at hb; subst hb; simp [Val.beq]
    | arr ys =>
      cases hc : Val.canonList o ys <;> simp [Val.canon, hc] at hb
      subst hb; simp [Val.beq]
    | str _ => simp [Val.canon] at hb; subst hb; simp [Val.beq]
    | int _ => simp [Val.canon] at hb; subst hb; simp [Val.beq]
    | bool _ => simp [Val.canon] at hb; subst hb; simp [Val.beq]
    | null => simp [Val.canon] at hb; subst hb; simp [Val.beq]
  | .int s, b, ka, kb, ha, hb => by
    simp only [Val.canon, Option.some.injEq] at ha
    subst ha
    cases b with
    | flt g =>
      by_cases hg : o.isNan g = true
      · simp [Val.canon, hg] at hb
      · simp [Val.canon, hg] at hb; subst hb; simp [Val.beq]
    | arr ys =>
      cases hc : Val.canonList o ys <;> simp [Val.canon, hc] at hb
      subst hb; simp [Val.beq]
    | str _ => simp [Val.canon] at hb; subst hb; simp [Val.beq]
    | int _ => simp [Val.canon] at hb; subst hb; simp [Val.beq]
    | bool _ => simp [Val.canon] at hb; subst hb; simp [Val.beq]
    | null => simp [Val.canon] at hb; subst hb; simp [Val.beq]
  | .bool s, b, ka, kb, ha, hb => by
    simp only [Val.canon, Option.some.injEq] at ha
    subst ha
    cases b with
    | flt g =>
      by_cases hg : o.isNan g = true
      · simp [Val.canon, hg] at hb
      · simp [Val.canon, hg] at hb; subst hb; simp [Val.beq]
    | arr ys =>
      cases hc : Val.canonList o ys <;> simp [Val.canon, hc] at hb
      subst hb; simp [Val.beq]
    | str _ => simp [Val.canon] at hb; subst hb; simp [Val.beq]
    | int _ => simp [Val.canon] at hb; subst hb; simp [Val.beq]
    | bool _ => simp [Val.canon] at hb; subst hb; simp [Val.beq]
    | null => simp [Val.canon] at hb; subst hb; simp [Val.beq]
  | .null, b, ka, kb, ha, hb => by
    simp only [Val.canon, Option.some.injEq] at ha
    subst ha
    cases b with
    | flt g =>
      by_cases hg : o.isNan g = true
      · simp [Val.canon, hg] at hb
      · simp [Val.canon, hg] at hb; subst hb; simp [Val.beq]
    | arr ys =>
      cases hc : Val.canonList o ys <;> simp [Val.canon, hc] at hb
      subst hb; simp [Val.beq]
    | str _ => simp [Val.canon] at hb; subst hb; simp [Val.beq]
    | int _ => simp [Val.canon] at hb; subst hb; simp [Val.beq]
    | bool _ => simp [Val.canon] at hb; subst hb; simp [Val.beq]
    | null => simp [Val.canon] at hb; subst hb; simp [Val.beq]
  | .flt f, b, ka, kb, ha, hb => by
    by_cases hn : o.isNan f = true
    · simp [Val.canon, hn] at ha
    · simp only [Val.canon, hn, Bool.false_eq_true, if_false, Option.some.injEq] at ha
      subst ha
      cases b with
      | flt g =>
        by_cases hg : o.isNan g = true
        · simp [Val.canon, hg] at hb
        · simp only [Val.canon, hg, Bool.false_eq_true, if_false, Option.some.injEq] at hb
          subst hb
          simp only [Val.beq, Val.flt.injEq]
          exact hf.canon_iff f g (by simpa using hn) (by simpa using hg)
      | arr ys =>
        cases hc : Val.canonList o ys <;> simp [Val.canon, hc] at hb
        subst hb; simp [Val.beq]
      | str _ => simp [Val.canon] at hb; subst hb; simp [Val.beq]
      | int _ => simp [Val.canon] at hb; subst hb; simp [Val.beq]
      | bool _ => simp [Val.canon] at hb; subst hb; simp [Val.beq]
      | null => simp [Val.canon] at hb; subst hb; simp [Val.beq]
  | .arr xs, b, ka, kb, ha, hb => by
    cases hc : Val.canonList o xs with
    | none => simp [Val.canon, hc] at ha
    | some as =>
      simp only [Val.canon, hc, Option.some.injEq] at ha
      subst ha
      cases b with
      | arr ys =>
        cases hd : Val.canonList o ys with
        | none => simp [Val.canon, hd] at hb
        | some bs =>
          simp only [Val.canon, hd, Option.some.injEq] at hb
          subst hb
          simp only [Val.beq, Val.arr.injEq]
          exact canonList_some_iff o hf xs ys as bs hc hd
      | flt g =>
        by_cases hg : o.isNan g = true
        · simp [Val.canon, hg] at hb
        · simp [Val.canon, hg] at hb; subst hb; simp [Val.beq]
      | str _ => simp [Val.canon] at hb; subst hb; simp [Val.beq]
      | int _ => simp [Val.canon] at hb; subst hb; simp [Val.beq]
      | bool _ => simp [Val.canon] at hb; subst hb; simp [Val.beq]
      | null => simp [Val.canon] at hb; subst hb; simp [Val.beq]
theorem canonList_some_iff (o : FloatOps F) (hf : FloatLaws o) :
    (xs ys as bs : List (Val F)) → Val.canonList o xs = some as → Val.canonList o ys = some bs →
      (as = bs ↔ Val.beqList o xs ys = true)
  | [], [], as, bs, ha, hb => by
    simp [Val.canonList] at ha hb; subst ha; subst hb; simp [Val.beqList]
  | [], y :: ys, as, bs, ha, hb => by
    simp only [Val.canonList, Option.some.injEq] at ha
    subst ha
    cases hy : Val.canon o y <;> cases hys : Val.canonList o ys <;> simp [Val.canonList, hy, hys] at hb
    subst hb; simp [Val.beqList]
  | x :: xs, [], as, bs, ha, hb => by
    simp only [Val.canonList, Option.some.injEq] at hb
    subst hb
    cases hx : Val.canon o x <;> cases hxs : Val.canonList o xs <;> simp [Val.canonList, hx, hxs] at ha
    subst ha; simp [Val.beqList]
  | x :: xs, y :: ys, as, bs, ha, hb => by
    cases hx : Val.canon o x <;> cases hxs : Val.canonList o xs <;> simp [Val.canonList, hx, hxs] at ha
    cases hy : Val.canon o y <;> cases hys : Val.canonList o ys <;> simp [Val.canonList, hy, hys] at hb
    subst ha; subst hb
    rename_i a as' b bs'
    have h1 := canon_some_iff o hf x y a b hx hy
    have h2 := canonList_some_iff o hf xs ys as' bs' hxs hys
    simp only [List.cons.injEq, Val.beqList, Bool.and_eq_true, h1, h2]
end

/-! ## Alpha -/
section Alpha
variable {κ : Type} [DecidableEq κ]

/-- positions (from `start`) of the facts whose field `φ` has key `k` -/
def posKey (key : Val F → Option κ) (φ : String) (k : κ) : Nat → List (Facts F) → List Nat
  | _, [] => []
  | i, f :: fs => (if (f.get φ).bind key = some k then [i] else []) ++ posKey key φ k (i + 1) fs

theorem posKey_append (key : Val F → Option κ) (φ : String) (k : κ) (fs : List (Facts F)) (f : Facts F) (i : Nat) :
    posKey key φ k i (fs ++ [f]) = posKey key φ k i fs ++ (if (f.get φ).bind key = some k then [i + fs.length] else []) := by
  induction fs generalizing i with
  | nil => simp [posKey]
  | cons g gs ih =>
    simp only [List.cons_append, posKey, ih, List.length_cons, List.append_assoc]
    have : i + 1 + gs.length = i + (gs.length + 1) := by omega
    rw [this]

theorem bucket_addFact (key : Val F → Option κ) (φ : String) (ix : Map κ (List Nat)) (i : Nat) (f : Facts F) (k : κ) :
    bucket (addFact key φ ix i f) k = bucket ix k ++ (if (f.get φ).bind key = some k then [i] else []) := by
  unfold addFact
  cases h : (f.get φ).bind key with
  | none => simp
  | some k0 => simp [bucket_pushIdx]

theorem bucket_buildFrom (key : Val F → Option κ) (φ : String) (k : κ) (fs : List (Facts F)) (i : Nat)
    (ix : Map κ (List Nat)) :
    bucket (buildFrom key φ i ix fs) k = bucket ix k ++ posKey key φ k i fs := by
  induction fs generalizing i ix with
  | nil => simp [buildFrom, posKey]
  | cons f fs ih => simp [buildFrom, posKey, ih, bucket_addFact]

/-- the index invariant: every bucket of every index holds exactly the positions with that key -/
def AInv (key : Val F → Option κ) (s : AState F κ) : Prop :=
  ∀ φ ix, s.indexes.find φ = some ix → ∀ k, bucket ix k = posKey key φ k 0 s.facts

theorem ainv_init (key : Val F → Option κ) : AInv key ({} : AState F κ) := by
  intro φ ix h; simp [Map.find] at h

theorem ainv_insert (key : Val F → Option κ) (s : AState F κ) (f : Facts F) (h : AInv key s) :
    AInv key (aInsert key s f) := by
  intro φ ix hfind k
  simp only [aInsert] at hfind
  rw [Map.find_map_val s.indexes (fun φ ix => addFact key φ ix s.facts.length f) φ] at hfind
  cases h0 : s.indexes.find φ with
  | none => simp [h0] at hfind
  | some ix0 =>
    simp only [h0, Option.map_some, Option.some.injEq] at hfind
    subst hfind
    simp only [aInsert, bucket_addFact, posKey_append, h φ ix0 h0 k, Nat.zero_add]

theorem ainv_create (key : Val F → Option κ) (s : AState F κ) (φ' : String) (h : AInv key s) :
    AInv key (aCreate key s φ') := by
  unfold aCreate
  split
  · exact h
  · intro φ ix hfind k
    simp only at hfind
    by_cases e : φ' = φ
    · subst e
      rw [Map.find_set_self] at hfind
      simp only [Option.some.injEq] at hfind
      subst hfind
      simp [bucket_buildFrom, bucket_nil]
    · rw [Map.find_set_ne _ _ e] at hfind
      exact h φ ix hfind k

theorem ainv_drop (key : Val F → Option κ) (s : AState F κ) (φ' : String) (h : AInv key s) :
    AInv key (aDrop s φ') := by
  intro φ ix hfind k
  simp only [aDrop] at hfind
  by_cases e : φ' = φ
  · subst e; simp [Map.find_erase_self] at hfind
  · rw [Map.find_erase_ne _ e] at hfind
    exact h φ ix hfind k

theorem ainv_foldl_create (key : Val F → Option κ) (φs : List String) (s : AState F κ) (h : AInv key s) :
    AInv key (φs.foldl (aCreate key) s) := by
  induction φs generalizing s with
  | nil => exact h
  | cons φ φs ih => exact ih _ (ainv_create key s φ h)

theorem facts_create (key : Val F → Option κ) (s : AState F κ) (φ : String) : (aCreate key s φ).facts = s.facts := by
  unfold aCreate; split <;> rfl

theorem facts_foldl_create (key : Val F → Option κ) (φs : List String) (s : AState F κ) :
    (φs.foldl (aCreate key) s).facts = s.facts := by
  induction φs generalizing s with
  | nil => rfl
  | cons φ φs ih => simp [ih, facts_create]

theorem ainv_step (key : Val F → Option κ) (s : AState F κ) (op : AOp F) (h : AInv key s) :
    AInv key (aStep key s op) := by
  cases op with
  | insert f => exact ainv_insert key s f h
  | create φ => exact ainv_create key s φ h
  | drop φ => exact ainv_drop key s φ h
  | filter φ v => exact h
  | tracked φ v => exact fun φ' ix hf k => h φ' ix hf k
  | autoTune => exact ainv_foldl_create key _ s h
  | clear => exact ainv_init key

theorem facts_step (key : Val F → Option κ) (s : AState F κ) (op : AOp F) :
    (aStep key s op).facts = aPlainFacts s.facts op := by
  cases op with
  | insert f => rfl
  | create φ => exact facts_create key s φ
  | drop φ => rfl
  | filter φ v => rfl
  | tracked φ v => rfl
  | autoTune => exact facts_foldl_create key _ s
  | clear => rfl

theorem ainv_run (key : Val F → Option κ) (ops : List (AOp F)) (s : AState F κ) (h : AInv key s) :
    AInv key (ops.foldl (aStep key) s) := by
  induction ops generalizing s with
  | nil => exact h
  | cons op ops ih => exact ih _ (ainv_step key s op h)

/-- under the key law, "has key `k`" and "`==` to `v`" select the same positions -/
theorem posKey_eq_posEq (o : FloatOps F) (key : Val F → Option κ) (hk : KeyLaw o key) (φ : String) (v : Val F) (k : κ)
    (hv : key v = some k) (fs : List (Facts F)) (i : Nat) :
    posKey key φ k i fs = posEq o φ v i fs := by
  induction fs generalizing i with
  | nil => rfl
  | cons f fs ih =>
    simp only [posKey, posEq, ih]
    congr 1
    cases hg : f.get φ with
    | none => simp
    | some w =>
      simp only [Option.bind_some]
      by_cases hkw : key w = some k
      · have := (hk.some_iff w v k k hkw hv).1 rfl
        simp [hkw, this]
      · have hb : Val.beq o w v = false := by
          cases hw : key w with
          | none => exact hk.none_left w v hw
          | some kw =>
            cases hb : Val.beq o w v with
            | false => rfl
            | true =>
              have := (hk.some_iff w v kw k hw hv).2 hb
              rw [hw, this] at hkw
              exact absurd rfl hkw
        simp [hkw, hb]

omit [DecidableEq κ] in
theorem posEq_nokey (o : FloatOps F) (key : Val F → Option κ) (hk : KeyLaw o key) (φ : String) (v : Val F)
    (hv : key v = none) (fs : List (Facts F)) (i : Nat) : posEq o φ v i fs = [] := by
  induction fs generalizing i with
  | nil => rfl
  | cons f fs ih =>
    simp only [posEq, ih, List.append_nil]
    cases hg : f.get φ with
    | none => rfl
    | some w => simp [hk.none_right w v hv]

theorem aFilter_eq_posEq (o : FloatOps F) (key : Val F → Option κ) (hk : KeyLaw o key) (s : AState F κ)
    (h : AInv key s) (φ : String) (v : Val F) : aFilter o key s φ v = posEq o φ v 0 s.facts := by
  unfold aFilter
  cases hf : s.indexes.find φ with
  | none => rfl
  | some ix =>
    cases hv : key v with
    | none => simp [posEq_nokey o key hk φ v hv]
    | some k => simp [h φ ix hf k, posKey_eq_posEq o key hk φ v k hv]

theorem aTrace_eq_expected (o : FloatOps F) (key : Val F → Option κ) (hk : KeyLaw o key) (ops : List (AOp F))
    (s : AState F κ) (h : AInv key s) : aTrace o key s ops = aExpected o s.facts ops := by
  induction ops generalizing s with
  | nil => rfl
  | cons op ops ih =>
    simp only [aTrace, aExpected]
    rw [ih _ (ainv_step key s op h), facts_step]
    congr 1
    cases op <;> simp [aFilter_eq_posEq o key hk s h]

theorem mem_posEq (o : FloatOps F) (φ : String) (v : Val F) (fs : List (Facts F)) (start p : Nat) :
    p ∈ posEq o φ v start fs ↔
      ∃ j f, fs[j]? = some f ∧ p = start + j ∧ ∃ w, f.get φ = some w ∧ Val.beq o w v = true := by
  induction fs generalizing start with
  | nil => simp [posEq]
  | cons g gs ih =>
    simp only [posEq, List.mem_append, ih]
    constructor
    · intro h
      rcases h with h | ⟨j, f, hj, hp, hw⟩
      · refine ⟨0, g, by simp, ?_, ?_⟩
        · cases hg : g.get φ with
          | none => simp [hg] at h
          | some w =>
            by_cases hb : Val.beq o w v = true <;> simp [hg, hb] at h
            omega
        · cases hg : g.get φ with
          | none => simp [hg] at h
          | some w =>
            by_cases hb : Val.beq o w v = true <;> simp [hg, hb] at h
            exact ⟨w, rfl, hb⟩
      · exact ⟨j + 1, f, by simpa using hj, by omega, hw⟩
    · intro ⟨j, f, hj, hp, w, hw, hb⟩
      cases j with
      | zero =>
        left
        simp only [List.getElem?_cons_zero, Option.some.injEq] at hj
        subst hj
        simp [hw, hb, hp]
      | succ j =>
        right
        exact ⟨j, f, by simpa using hj, by omega, w, hw, hb⟩

end Alpha

/-! ## Beta -/
section Beta

theorem bucket_bAdd (render : Val F → String) (jk : String) (s : BState) (f : Facts F) (i : Nat) (k : String) :
    bucket (bAdd render jk s f i).index k =
      bucket s.index k ++ (if bKeyOf render jk f = some k then [i] else []) := by
  unfold bAdd
  cases h : bKeyOf render jk f with
  | none => simp
  | some k0 => simp [bucket_pushIdx]

theorem bucket_bRemoveKey (s : BState) (k0 : String) (i : Nat) (k : String) :
    bucket (bRemoveKey s k0 i).index k =
      if k0 = k then (bucket s.index k).filter (fun j => !decide (j = i)) else bucket s.index k := by
  unfold bRemoveKey
  cases hf : s.index.find k0 with
  | none =>
    by_cases e : k0 = k
    · subst e; simp [bucket, hf]
    · simp [e]
  | some is =>
    simp only
    by_cases hemp : (is.filter (fun j => !decide (j = i))).isEmpty = true
    · simp only [hemp, if_true]
      by_cases e : k0 = k
      · subst e
        rw [bucket_erase_self]
        simp only [if_true, bucket, hf]
        exact (List.isEmpty_iff.1 hemp).symm
      · simp [e, bucket_erase_ne _ e]
    · simp only [hemp, Bool.false_eq_true, if_false]
      by_cases e : k0 = k
      · subst e
        rw [bucket_set_self]
        simp [bucket, hf]
      · simp [e, bucket_set_ne _ _ e]

theorem bucket_bRemove (render : Val F → String) (jk : String) (s : BState) (f : Facts F) (i : Nat) (k : String) :
    bucket (bRemove render jk s f i).index k =
      if bKeyOf render jk f = some k then (bucket s.index k).filter (fun j => !decide (j = i))
      else bucket s.index k := by
  unfold bRemove
  cases h : bKeyOf render jk f with
  | none => simp
  | some k0 => simp [bucket_bRemoveKey]

/-- the bucket of `k` after a history: what was there and is not removed later, then the live adds -/
theorem bucket_bRun (render : Val F → String) (jk : String) (k : String) (ops : List (BOp F)) (s : BState) :
    bucket (bRun render jk s ops).index k =
      (bucket s.index k).filter (fun i => !(ops.any (isRemoveOf render jk k i))) ++ bLive render jk k ops := by
  induction ops generalizing s with
  | nil =>
    simp only [bRun, bLive, List.foldl_nil, List.any_nil, Bool.not_false, List.append_nil]
    exact (List.filter_eq_self.2 (fun _ _ => rfl)).symm
  | cons op ops ih =>
    simp only [bRun, List.foldl_cons] at ih ⊢
    rw [ih]
    cases op with
    | add f i =>
      simp only [bStep, bucket_bAdd, List.filter_append, bLive, List.any_cons, isRemoveOf, Bool.false_or,
        List.append_assoc]
      congr 1
      by_cases hk : bKeyOf render jk f = some k
      · by_cases hr : ops.any (isRemoveOf render jk k i) = true
        · simp [hk, hr]
        · simp [hk, hr]
      · simp [hk]
    | remove f j =>
      simp only [bStep, bucket_bRemove, bLive, List.any_cons, isRemoveOf, List.nil_append]
      congr 1
      by_cases hk : bKeyOf render jk f = some k
      · simp only [hk, if_true, List.filter_filter, decide_true, Bool.and_true]
        apply List.filter_congr
        intro x _
        by_cases e : x = j
        · subst e; simp
        · have e' : ¬ j = x := fun h => e h.symm
          simp [e, e']
      · simp [hk]
    | lookup k' =>
      simp [bStep, bLive, isRemoveOf]

theorem bTrace_eq_expected (render : Val F → String) (jk : String) (ops past : List (BOp F)) :
    bTrace render jk (bRun render jk {} past) ops = bExpected render jk past ops := by
  induction ops generalizing past with
  | nil => rfl
  | cons op ops ih =>
    simp only [bTrace, bExpected]
    have hstep : bStep render jk (bRun render jk {} past) op = bRun render jk {} (past ++ [op]) := by
      simp [bRun, List.foldl_append]
    rw [hstep, ih]
    congr 1
    cases op with
    | lookup k =>
      simp only [bLookup]
      rw [bucket_bRun]
      simp [bucket_nil]
    | _ => rfl

end Beta

/-! ## Memo -/
section Memo
variable {N K : Type} [DecidableEq K]

/-- every cached verdict is the direct verdict of whatever (node, facts) maps to that key -/
def MInv (key : N → Facts F → K) (ev : N → Facts F → Bool) (s : MState K) : Prop :=
  ∀ n f r, s.cache.find (key n f) = some r → r = ev n f

theorem minv_init (key : N → Facts F → K) (ev : N → Facts F → Bool) : MInv key ev ({} : MState K) := by
  intro n f r h; simp [Map.find] at h

theorem mEval_result (key : N → Facts F → K) (ev : N → Facts F → Bool) (s : MState K) (h : MInv key ev s)
    (n : N) (f : Facts F) : (mEval key ev s n f).2 = ev n f := by
  unfold mEval
  cases hc : s.cache.find (key n f) with
  | none => rfl
  | some r => exact h n f r hc

theorem minv_step (key : N → Facts F → K) (ev : N → Facts F → Bool) (hd : KeyDetermines key ev)
    (s : MState K) (h : MInv key ev s) (op : MOp N F) : MInv key ev (mStep key ev s op) := by
  cases op with
  | clear => exact minv_init key ev
  | eval n f =>
    simp only [mStep, mEval]
    cases hc : s.cache.find (key n f) with
    | some r => exact fun n' f' r' h' => h n' f' r' h'
    | none =>
      intro n' f' r' h'
      simp only at h'
      by_cases e : key n f = key n' f'
      · rw [← e, Map.find_set_self] at h'
        simp only [Option.some.injEq] at h'
        rw [← h']
        exact hd n f n' f' e
      · rw [Map.find_set_ne _ _ e] at h'
        exact h n' f' r' h'

theorem mTrace_eq_direct (key : N → Facts F → K) (ev : N → Facts F → Bool) (hd : KeyDetermines key ev)
    (ops : List (MOp N F)) (s : MState K) (h : MInv key ev s) :
    mTrace key ev s ops = directTrace ev ops := by
  induction ops generalizing s with
  | nil => rfl
  | cons op ops ih =>
    cases op with
    | clear => simpa [mTrace, directTrace] using ih _ (minv_step key ev hd s h .clear)
    | eval n f =>
      simp only [mTrace, directTrace, List.singleton_append, List.cons.injEq]
      exact ⟨mEval_result key ev s h n f, ih _ (minv_step key ev hd s h (.eval n f))⟩

end Memo

/-! ## Conclusion index -/
section Concl

theorem mem_foldl_setInsert (xs acc : List String) (x : String) :
    x ∈ xs.foldl setInsert acc ↔ x ∈ acc ∨ x ∈ xs := by
  induction xs generalizing acc with
  | nil => simp
  | cons y ys ih =>
    simp only [List.foldl_cons, ih, List.mem_cons]
    unfold setInsert
    by_cases hy : y ∈ acc
    · simp only [hy, if_true]
      constructor
      · intro h; rcases h with h | h
        · exact Or.inl h
        · exact Or.inr (Or.inr h)
      · intro h; rcases h with h | h | h
        · exact Or.inl h
        · subst h; exact Or.inl hy
        · exact Or.inr h
    · simp only [hy, if_false, List.mem_append, List.mem_singleton]
      constructor
      · intro h; rcases h with (h | h) | h
        · exact Or.inl h
        · exact Or.inr (Or.inl h)
        · exact Or.inr (Or.inr h)
      · intro h; rcases h with h | h | h
        · exact Or.inl (Or.inl h)
        · exact Or.inl (Or.inr h)
        · exact Or.inr h

theorem mem_setInsert (xs : List String) (x y : String) : y ∈ setInsert xs x ↔ y ∈ xs ∨ y = x := by
  unfold setInsert
  by_cases h : x ∈ xs
  · simp only [h, if_true]
    constructor
    · exact Or.inl
    · intro h'; rcases h' with h' | h'
      · exact h'
      · subst h'; exact h
  · simp [h]

theorem mem_conclusions (r : CRule) (c : String) : c ∈ conclusions r ↔ ∃ a ∈ r.actions, c ∈ actConclusions a := by
  simp [conclusions, mem_foldl_setInsert, List.mem_flatMap]

/-- rule `x` is filed under field `c` -/
def Has (m : Map String (List String)) (c x : String) : Prop := ∃ rs, m.find c = some rs ∧ x ∈ rs

theorem has_addConclusion_self (n : String) (m : Map String (List String)) (c : String) :
    Has (addConclusion n m c) c n := by
  refine ⟨_, Map.find_set_self _ _ _, ?_⟩
  simp [mem_setInsert]

theorem has_addConclusion_mono (n : String) (m : Map String (List String)) (c c' x : String)
    (h : Has m c' x) : Has (addConclusion n m c) c' x := by
  obtain ⟨rs, hf, hx⟩ := h
  by_cases e : c = c'
  · subst e
    refine ⟨_, Map.find_set_self _ _ _, ?_⟩
    simp [hf, mem_setInsert, hx]
  · exact ⟨rs, by simp [addConclusion, Map.find_set_ne _ _ e, hf], hx⟩

theorem has_foldl_add_mono (n : String) (cs : List String) (m : Map String (List String)) (c' x : String)
    (h : Has m c' x) : Has (cs.foldl (addConclusion n) m) c' x := by
  induction cs generalizing m with
  | nil => exact h
  | cons c cs ih => exact ih _ (has_addConclusion_mono n m c c' x h)

theorem has_foldl_add_self (n : String) (cs : List String) (m : Map String (List String)) (c : String)
    (hc : c ∈ cs) : Has (cs.foldl (addConclusion n) m) c n := by
  induction cs generalizing m with
  | nil => simp at hc
  | cons c0 cs ih =>
    rcases List.mem_cons.1 hc with e | hc'
    · subst e
      exact has_foldl_add_mono n cs _ c n (has_addConclusion_self n m c)
    · exact ih _ hc'

theorem has_removeConclusion_other (n : String) (m : Map String (List String)) (c c' x : String)
    (hx : x ≠ n) (h : Has m c' x) : Has (removeConclusion n m c) c' x := by
  obtain ⟨rs, hf, hm⟩ := h
  unfold removeConclusion
  cases hc : m.find c with
  | none => exact ⟨rs, hf, hm⟩
  | some rs0 =>
    simp only
    by_cases e : c = c'
    · subst e
      rw [hf] at hc
      simp only [Option.some.injEq] at hc
      subst hc
      have hmem : x ∈ rs.filter (fun y => !decide (y = n)) := by
        simp [List.mem_filter, hm, hx]
      have hne : (rs.filter (fun y => !decide (y = n))).isEmpty = false := by
        cases hl : rs.filter (fun y => !decide (y = n)) with
        | nil => rw [hl] at hmem; simp at hmem
        | cons _ _ => rfl
      simp only [hne, Bool.false_eq_true, if_false]
      exact ⟨_, Map.find_set_self _ _ _, hmem⟩
    · split
      · exact ⟨rs, by rw [Map.find_erase_ne _ e]; exact hf, hm⟩
      · exact ⟨rs, by rw [Map.find_set_ne _ _ e]; exact hf, hm⟩

theorem has_foldl_remove_other (n : String) (cs : List String) (m : Map String (List String)) (c' x : String)
    (hx : x ≠ n) (h : Has m c' x) : Has (cs.foldl (removeConclusion n) m) c' x := by
  induction cs generalizing m with
  | nil => exact h
  | cons c cs ih => exact ih _ (has_removeConclusion_other n m c c' x hx h)

/-- the invariant tying the index to the current rule set -/
structure CInv (s : CState) (cur : Map String CRule) : Prop where
  filed : ∀ x cs, s.r2c.find x = some cs → ∀ c ∈ cs, Has s.f2r c x
  known : ∀ x r, cur.find x = some r → r.enabled = true → conclusions r ≠ [] →
            s.r2c.find x = some (conclusions r)
  nodup : Map.NodupKeys cur
  names : ∀ x r, cur.find x = some r → r.name = x

theorem cinv_init : CInv {} [] :=
  ⟨by intro x cs h; simp [Map.find] at h, by intro x r h; simp [Map.find] at h, by simp [Map.NodupKeys],
   by intro x r h; simp [Map.find] at h⟩

theorem cinv_step (s : CState) (cur : Map String CRule) (h : CInv s cur) (op : COp) :
    CInv (cStep s op) (cCurrent cur op) := by
  cases op with
  | find g => exact h
  | clear => exact cinv_init
  | add r =>
    simp only [cStep, cCurrent]
    have hn := Map.nodupKeys_set cur r.name r h.nodup
    have hnames : ∀ x r', (cur.set r.name r).find x = some r' → r'.name = x := by
      intro x r' hf
      by_cases e : r.name = x
      · subst e; rw [Map.find_set_self] at hf; cases hf; rfl
      · rw [Map.find_set_ne _ _ e] at hf; exact h.names x r' hf
    unfold cAdd
    by_cases hen : r.enabled = true
    · simp only [hen, Bool.not_true, Bool.false_eq_true, if_false]
      by_cases hcs : (conclusions r).isEmpty = true
      · simp only [hcs, if_true]
        refine ⟨h.filed, ?_, hn, hnames⟩
        intro x r' hf he hc
        by_cases e : r.name = x
        · subst e; rw [Map.find_set_self] at hf; cases hf
          exact absurd (List.isEmpty_iff.1 hcs) hc
        · rw [Map.find_set_ne _ _ e] at hf; exact h.known x r' hf he hc
      · simp only [hcs, Bool.false_eq_true, if_false]
        refine ⟨?_, ?_, hn, hnames⟩
        · intro x cs hf c hc
          simp only at hf ⊢
          by_cases e : r.name = x
          · subst e; rw [Map.find_set_self] at hf; cases hf
            exact has_foldl_add_self r.name _ _ c hc
          · rw [Map.find_set_ne _ _ e] at hf
            exact has_foldl_add_mono r.name _ _ c x (h.filed x cs hf c hc)
        · intro x r' hf he hc
          simp only
          by_cases e : r.name = x
          · subst e; rw [Map.find_set_self] at hf; cases hf
            exact Map.find_set_self _ _ _
          · rw [Map.find_set_ne _ _ e] at hf ⊢
            exact h.known x r' hf he hc
    · simp only [hen, Bool.not_false, if_true]
      refine ⟨h.filed, ?_, hn, hnames⟩
      intro x r' hf he hc
      by_cases e : r.name = x
      · subst e; rw [Map.find_set_self] at hf; cases hf
        exact absurd he hen
      · rw [Map.find_set_ne _ _ e] at hf; exact h.known x r' hf he hc
  | remove n =>
    simp only [cStep, cCurrent]
    have hn := Map.nodupKeys_erase cur n h.nodup
    have hcur : ∀ x r', (cur.erase n).find x = some r' → x ≠ n ∧ cur.find x = some r' := by
      intro x r' hf
      by_cases e : n = x
      · subst e; simp [Map.find_erase_self] at hf
      · rw [Map.find_erase_ne _ e] at hf; exact ⟨fun e' => e e'.symm, hf⟩
    have hnames : ∀ x r', (cur.erase n).find x = some r' → r'.name = x :=
      fun x r' hf => h.names x r' (hcur x r' hf).2
    unfold cRemove
    cases hr : s.r2c.find n with
    | none =>
      refine ⟨h.filed, ?_, hn, hnames⟩
      intro x r' hf he hc
      exact h.known x r' (hcur x r' hf).2 he hc
    | some cs0 =>
      refine ⟨?_, ?_, hn, hnames⟩
      · intro x cs hf c hc
        simp only at hf ⊢
        by_cases e : n = x
        · subst e; simp [Map.find_erase_self] at hf
        · rw [Map.find_erase_ne _ e] at hf
          exact has_foldl_remove_other n _ _ c x (fun e' => e e'.symm) (h.filed x cs hf c hc)
      · intro x r' hf he hc
        simp only
        obtain ⟨hx, hf'⟩ := hcur x r' hf
        rw [Map.find_erase_ne _ (fun e' => hx e'.symm)]
        exact h.known x r' hf' he hc

theorem cinv_run (ops : List COp) (s : CState) (cur : Map String CRule) (h : CInv s cur) :
    CInv (ops.foldl cStep s) (ops.foldl cCurrent cur) := by
  induction ops generalizing s cur with
  | nil => exact h
  | cons op ops ih => exact ih _ _ (cinv_step s cur h op)

/-- a direct hit of the goal's field is among the candidates -/
theorem mem_cFind_of_has (s : CState) (goal x : String) (h : Has s.f2r (extractField goal) x) :
    x ∈ cFind s goal := by
  obtain ⟨rs, hf, hx⟩ := h
  simp only [cFind, mem_foldl_setInsert, hf, List.mem_append]
  exact Or.inr (Or.inl hx)

theorem complete_of_inv (s : CState) (cur : Map String CRule) (h : CInv s cur) (goal x : String) (r : CRule)
    (hf : cur.find x = some r) (he : r.enabled = true) (hs : Act.set (extractField goal) ∈ r.actions) :
    x ∈ cFind s goal := by
  have hc : extractField goal ∈ conclusions r :=
    (mem_conclusions r _).2 ⟨_, hs, by simp [actConclusions]⟩
  have hne : conclusions r ≠ [] := by intro e; rw [e] at hc; simp at hc
  exact mem_cFind_of_has s goal x (h.filed x _ (h.known x r hf he hne) _ hc)

theorem scan_subset_of_inv (s : CState) (cur : Map String CRule) (h : CInv s cur) (goal : String) :
    subsetB (scanSet cur goal) (cFind s goal) = true := by
  simp only [subsetB, List.all_eq_true, List.contains_iff_mem]
  intro x hx
  simp only [scanSet, List.mem_map, List.mem_filter, Bool.and_eq_true] at hx
  obtain ⟨⟨k, r⟩, ⟨hm, he, hs⟩, hk⟩ := hx
  simp only at hk he hs; subst hk
  have hf := Map.find_of_mem cur h.nodup hm
  exact complete_of_inv s cur h goal k r hf he (by simpa using hs)

theorem cTrace_complete (ops : List COp) (s : CState) (cur : Map String CRule) (h : CInv s cur) :
    cComplete (cTrace s cur ops) = true := by
  induction ops generalizing s cur with
  | nil => rfl
  | cons op ops ih =>
    have ih' := ih _ _ (cinv_step s cur h op)
    simp only [cComplete, cTrace, List.all_append, Bool.and_eq_true] at ih' ⊢
    refine ⟨?_, ih'⟩
    cases op with
    | find g => simpa using scan_subset_of_inv s cur h g
    | _ => rfl

/-! ### the engine's knowledge base -/

/-- names are unique and every entry is filed under its rule's name -/
structure KbInv (kb : Map String CRule) : Prop where
  nodup : Map.NodupKeys kb
  names : ∀ k r, (k, r) ∈ kb → r.name = k

theorem contains_iff_mem_keys (kb : Map String CRule) (x : String) :
    kb.contains x = true ↔ x ∈ kb.map (·.1) := by
  induction kb with
  | nil => simp [Map.contains, Map.find]
  | cons p kb ih =>
    obtain ⟨k, r⟩ := p
    by_cases e : k = x
    · subst e; simp [Map.contains, Map.find]
    · have e' : ¬ x = k := fun h => e h.symm
      simp only [Map.contains, Map.find, e, if_false, List.map_cons, List.mem_cons, e', false_or]
      exact ih

theorem mem_of_mem_set (kb : Map String CRule) (k : String) (r : CRule) (p : String × CRule)
    (h : p ∈ Map.set kb k r) : p ∈ kb ∨ p = (k, r) := by
  induction kb with
  | nil => simp [Map.set] at h; exact Or.inr h
  | cons q kb ih =>
    obtain ⟨k0, r0⟩ := q
    by_cases e : k0 = k
    · simp only [Map.set, e, if_true, List.mem_cons] at h
      rcases h with h | h
      · exact Or.inr h
      · exact Or.inl (List.mem_cons_of_mem _ h)
    · simp only [Map.set, e, if_false, List.mem_cons] at h
      rcases h with h | h
      · exact Or.inl (by simp [h])
      · rcases ih h with h' | h'
        · exact Or.inl (List.mem_cons_of_mem _ h')
        · exact Or.inr h'

theorem mem_of_find (kb : Map String CRule) (k : String) (r : CRule) (h : kb.find k = some r) : (k, r) ∈ kb := by
  induction kb with
  | nil => simp [Map.find] at h
  | cons q kb ih =>
    obtain ⟨k0, r0⟩ := q
    by_cases e : k0 = k
    · simp only [Map.find, e, if_true, Option.some.injEq] at h
      subst h; subst e; simp
    · simp only [Map.find, e, if_false] at h
      exact List.mem_cons_of_mem _ (ih h)

theorem kbinv_step (s : EState) (h : KbInv s.kb) (op : EOp) : KbInv (eStep s op).kb := by
  cases op with
  | rebuild => exact h
  | add r =>
    simp only [eStep, kbAdd]
    by_cases hc : s.kb.contains r.name = true
    · simpa [hc] using h
    · simp only [hc, Bool.false_eq_true, if_false]
      refine ⟨?_, ?_⟩
      · have hn : r.name ∉ s.kb.map (·.1) := fun hm => hc ((contains_iff_mem_keys _ _).2 hm)
        simp only [Map.NodupKeys, List.map_append, List.map_cons, List.map_nil]
        refine List.nodup_append.2 ⟨h.nodup, by simp, ?_⟩
        intro a ha b hb
        simp only [List.mem_singleton] at hb
        subst hb
        intro e; subst e; exact hn ha
      · intro k r' hm
        rcases List.mem_append.1 hm with hm | hm
        · exact h.names k r' hm
        · simp only [List.mem_singleton, Prod.mk.injEq] at hm
          rw [hm.1, hm.2]
  | remove n =>
    refine ⟨Map.nodupKeys_erase _ _ h.nodup, ?_⟩
    intro k r' hm
    exact h.names k r' (List.mem_filter.1 hm).1
  | enable n b =>
    simp only [eStep]
    cases hf : s.kb.find n with
    | none => exact h
    | some r =>
      refine ⟨Map.nodupKeys_set _ _ _ h.nodup, ?_⟩
      intro k r' hm
      rcases mem_of_mem_set _ _ _ _ hm with hm | hm
      · exact h.names k r' hm
      · simp only [Prod.mk.injEq] at hm
        rw [hm.1, hm.2]
        exact h.names n r (mem_of_find _ _ _ hf)

theorem kbinv_run (ops : List EOp) (s : EState) (h : KbInv s.kb) : KbInv (ops.foldl eStep s).kb := by
  induction ops generalizing s with
  | nil => exact h
  | cons op ops ih => exact ih _ (kbinv_step s h op)

theorem kbinv_foldl_add (rs : List CRule) (kb : Map String CRule) (h : KbInv kb) : KbInv (rs.foldl kbAdd kb) := by
  induction rs generalizing kb with
  | nil => exact h
  | cons r rs ih => exact ih _ (kbinv_step { kb := kb } h (.add r))

/-- adding the rules of a well-formed knowledge base one by one registers each under its name -/
theorem current_of_kb (kb : Map String CRule) (h : KbInv kb) (acc : Map String CRule) (x : String) :
    (((kb.map (·.2)).map COp.add).foldl cCurrent acc).find x =
      if x ∈ kb.map (·.1) then kb.find x else acc.find x := by
  induction kb generalizing acc with
  | nil => simp
  | cons p kb ih =>
    obtain ⟨k, r⟩ := p
    have hname : r.name = k := h.names k r (by simp)
    have hn := h.nodup
    simp only [Map.NodupKeys, List.map_cons, List.nodup_cons] at hn
    have h' : KbInv kb := ⟨hn.2, fun k' r' hm => h.names k' r' (List.mem_cons_of_mem _ hm)⟩
    simp only [List.map_cons, List.foldl_cons, cCurrent, hname]
    rw [ih h']
    by_cases e : k = x
    · subst e
      simp [hn.1, Map.find_set_self, Map.find]
    · have e' : ¬ x = k := fun hh => e hh.symm
      simp only [Map.find, e, if_false, Map.find_set_ne _ _ e]
      by_cases hm : x ∈ List.map (fun x => x.fst) kb
      · rw [if_pos hm, if_pos (List.mem_cons_of_mem _ hm)]
      · have hm' : ¬ x ∈ k :: List.map (fun x => x.fst) kb := by
          intro hh; rcases List.mem_cons.1 hh with hh | hh
          · exact e' hh
          · exact hm hh
        rw [if_neg hm, if_neg hm']

end Concl

end C16
