import RreModel.C16.Theorems
import RreModel.C16.Attrs
/-
C16, part 3 — the conclusion index over FULL rules (Attrs.lean): attributes other than `enabled`, the name and the actions do
not influence it, and an enabled rule outside its date window is still proposed.
-/
namespace C16

/-- **conclusion_index_ignores_attributes.** Two histories of add_rule / remove_rule / find_candidates / clear whose rules agree
in name, `enabled` and actions (and differ arbitrarily in description, salience, no_loop, lock_on_active, agenda / activation
group, date_effective, date_expires) leave the same index: the same candidates for every goal, the same statistics. -/
theorem conclusion_index_ignores_attributes (ops ops' : List FOp) (h : ops.map FOp.core = ops'.map FOp.core) (goal : String) :
    cFind (fRun ops) goal = cFind (fRun ops') goal ∧ (fRun ops).count = (fRun ops').count ∧
      (fRun ops).f2r = (fRun ops').f2r := by
  rw [fRun_core, fRun_core, h]; exact ⟨rfl, rfl, rfl⟩

/-- the same for `from_rules` (`BackwardEngine::new` / `with_config` / `rebuild_index`) -/
theorem from_rules_ignores_attributes (rs rs' : List FullRule) (h : rs.map FullRule.core = rs'.map FullRule.core)
    (goal : String) : cFind (fFromRules rs) goal = cFind (fFromRules rs') goal ∧ (fFromRules rs).count = (fFromRules rs').count := by
  rw [fFromRules_core, fFromRules_core, h]; exact ⟨rfl, rfl⟩

/-- **Every ENABLED rule that assigns the goal's field is proposed — whatever the clock says about its date window.**
`r` is the full rule currently registered under `x` (the last `add` of that name not followed by its `remove` / a `clear`).
There is no hypothesis about `r.dateEffective` / `r.dateExpires` / `r.isActiveAt now` for any instant `now`. -/
theorem conclusion_index_complete_any_window (ops : List FOp) (goal x : String) (r : FullRule)
    (hcur : ((ops.map FOp.core).foldl cCurrent []).find x = some r.core) (hen : r.enabled = true)
    (hset : Act.set (extractField goal) ∈ r.actions) :
    x ∈ cFind (fRun ops) goal := by
  rw [fRun_core]
  exact conclusion_index_complete (ops.map FOp.core) goal x r.core hcur hen hset

/-- non-vacuity: an enabled rule whose window lies in the future / in the past at `now = 1000` is proposed, and the same rule
with other attributes gives the same answer -/
example :
    let fut : FullRule := { name := "R1", enabled := true, actions := [.set "A.x"], dateEffective := some 5000, salience := 2147483647 }
    let old : FullRule := { name := "R2", enabled := true, actions := [.set "A.x"], dateExpires := some 10, noLoop := true, agendaGroup := some "grp" }
    fut.isActiveAt 1000 = false ∧ old.isActiveAt 1000 = false ∧
    cFind (fRun [.add fut, .add old]) "A.x == true" = ["R1", "R2"] ∧
    cFind (fRun [.add { fut with dateEffective := none, salience := 0 }, .add { old with dateExpires := none }]) "A.x == true" = ["R1", "R2"] := by
  decide +kernel

end C16
