import RreModel.C16.Model
/-
C16 — the conclusion index and the rule attributes it must IGNORE.

`engine::rule::Rule` carries, beside `name`, `enabled` and `actions` (what `C16.CRule` keeps), a description, salience,
`no_loop`, `lock_on_active`, agenda / activation group and the validity window `date_effective` / `date_expires`
(`Rule::is_active_at`). `ConclusionIndex::add_rule` (src/backward/conclusion_index.rs) reads `rule.enabled`, `rule.name` and
`rule.actions` (through `extract_conclusions`) and nothing else; in particular it does not ask `is_active()`: the property says
"every ENABLED rule that assigns the goal's field", and the index is built once while the window is a matter of the clock at
the time of a later query. This file carries the attributes so that the statement can be made about full rules.
-/
namespace C16

/-- `engine::rule::Rule` without its conditions (instants as milliseconds since the epoch) -/
structure FullRule where
  name : String
  enabled : Bool
  actions : List Act
  description : Option String := none
  salience : Int := 0
  noLoop : Bool := false
  lockOnActive : Bool := false
  agendaGroup : Option String := none
  activationGroup : Option String := none
  dateEffective : Option Int := none
  dateExpires : Option Int := none
deriving Repr, DecidableEq

/-- `Rule::is_active_at`: `timestamp < effective` or `timestamp >= expires` makes the rule inactive -/
def FullRule.isActiveAt (r : FullRule) (now : Int) : Bool :=
  (match r.dateEffective with | some e => !decide (now < e) | none => true) &&
  (match r.dateExpires with | some x => !decide (now ≥ x) | none => true)

/-- the three fields `ConclusionIndex::add_rule` reads -/
def FullRule.core (r : FullRule) : CRule := { name := r.name, enabled := r.enabled, actions := r.actions }

/-- `ConclusionIndex::add_rule` on a full rule -/
def fAdd (s : CState) (r : FullRule) : CState := cAdd s r.core

/-- operations of a conclusion-index history over full rules -/
inductive FOp where
  | add (r : FullRule)
  | remove (name : String)
  | find (goal : String)
  | clear
deriving Repr

def FOp.core : FOp → COp
  | .add r => .add r.core
  | .remove n => .remove n
  | .find g => .find g
  | .clear => .clear

def fStep (s : CState) : FOp → CState
  | .add r => fAdd s r
  | .remove n => cRemove s n
  | .find _ => s
  | .clear => {}

def fRun (ops : List FOp) : CState := ops.foldl fStep {}

/-- `ConclusionIndex::from_rules` on full rules (`BackwardEngine::new` / `rebuild_index`) -/
def fFromRules (rs : List FullRule) : CState := rs.foldl fAdd {}

theorem fStep_core (s : CState) (op : FOp) : fStep s op = cStep s op.core := by
  cases op <;> rfl

theorem fRun_core (ops : List FOp) : fRun ops = cRun (ops.map FOp.core) := by
  unfold fRun cRun
  generalize ({} : CState) = s
  induction ops generalizing s with
  | nil => rfl
  | cons op ops ih => simp only [List.foldl_cons, List.map_cons, fStep_core, ih]

theorem fFromRules_core (rs : List FullRule) : fFromRules rs = cFromRules (rs.map FullRule.core) := by
  unfold fFromRules cFromRules
  generalize ({} : CState) = s
  induction rs generalizing s with
  | nil => rfl
  | cons r rs ih => simp only [List.foldl_cons, List.map_cons, fAdd, ih]

end C16
