import RreModel.C16.Lemmas
/-
C16 — property theorems (only). "Indexes and memoisation return what the plain computation returns."
Every statement quantifies over all histories (lists of operations of any length, any interleaving)
and all values; floats are an abstract type constrained only by `FloatLaws` — nothing looks inside.
-/
namespace C16
variable {F : Type}

/-! ### (1) Alpha memory index -/

/-- **alpha_filter_index_eq_linear.** For every key function that agrees with `==` (`KeyLaw`) and
every interleaving of insert / create_index / drop_index / filter / filter_tracked / auto_tune / clear,
each `filter` of the indexed memory answers exactly what a memory with *no index at all* answers
(the linear `==` scan over the facts inserted so far). -/
theorem alpha_filter_index_eq_linear {κ : Type} [DecidableEq κ] (o : FloatOps F) (key : Val F → Option κ)
    (hk : KeyLaw o key) (ops : List (AOp F)) :
    aTrace o key {} ops = aExpected o [] ops :=
  aTrace_eq_expected o key hk ops {} (ainv_init key)

/-- The index is exact: after any history, the bucket of `key v` in the index of field `φ` lists
exactly the positions of the facts whose `get φ` is `==` to `v` (ascending), and an unkeyed value
(`key v = none`) is `==` to no stored value. -/
theorem alpha_index_exact {κ : Type} [DecidableEq κ] (o : FloatOps F) (key : Val F → Option κ)
    (hk : KeyLaw o key) (ops : List (AOp F)) (φ : String) (ix : Map κ (List Nat)) (v : Val F)
    (hix : (aRun key ops).indexes.find φ = some ix) :
    (∀ k, key v = some k → bucket ix k = posEq o φ v 0 (aRun key ops).facts) ∧
    (key v = none → posEq o φ v 0 (aRun key ops).facts = []) := by
  have hinv : AInv key (aRun key ops) := ainv_run key ops {} (ainv_init key)
  exact ⟨fun k hv => by rw [hinv φ ix hix k, posKey_eq_posEq o key hk φ v k hv],
         fun hv => posEq_nokey o key hk φ v hv _ _⟩

/-- what `posEq` (the linear scan) means: position `p` is listed iff the `p`-th fact has the field
and its value is `==` to `v` — in particular every listed position is in range (`filter` cannot
index out of bounds). -/
theorem alpha_linear_meaning (o : FloatOps F) (φ : String) (v : Val F) (fs : List (Facts F)) (p : Nat) :
    p ∈ posEq o φ v 0 fs ↔ ∃ f, fs[p]? = some f ∧ ∃ w, f.get φ = some w ∧ Val.beq o w v = true := by
  rw [mem_posEq]
  constructor
  · rintro ⟨j, f, hj, hp, hw⟩
    have : p = j := by omega
    subst this; exact ⟨f, hj, hw⟩
  · rintro ⟨f, hj, hw⟩
    exact ⟨p, f, hj, by omega, hw⟩

/-- **The fixed key satisfies the hypothesis.** Under the float laws alone, the canonical key of
`index_key` (serialisation of the value with `-0.0` normalised; none when a NaN occurs) agrees with
the derived `==` on *all* values, nested arrays included. -/
theorem canonKey_law (o : FloatOps F) (hf : FloatLaws o) : KeyLaw o (canonKey o) where
  none_left a b h := by
    cases hc : Val.canon o a with
    | none => exact canon_none_left o hf a b hc
    | some ka => simp [canonKey, hc] at h
  none_right a b h := by
    cases hc : Val.canon o b with
    | none => exact canon_none_right o hf a b hc
    | some kb => simp [canonKey, hc] at h
  some_iff a b ka kb ha hb := by
    cases hca : Val.canon o a with
    | none => simp [canonKey, hca] at ha
    | some ca =>
      cases hcb : Val.canon o b with
      | none => simp [canonKey, hcb] at hb
      | some cb =>
        simp only [canonKey, hca, hcb, Option.map_some, Option.some.injEq] at ha hb
        subst ha; subst hb
        rw [← canon_some_iff o hf a b ca cb hca hcb]
        exact ⟨enc_inj ca cb, fun h => by rw [h]⟩

/-- (1) for the code as fixed: no hypothesis on keys is left, only the float laws. -/
theorem alpha_filter_index_eq_linear_fixed [DecidableEq F] (o : FloatOps F) (hf : FloatLaws o) (ops : List (AOp F)) :
    aTrace o (canonKey o) {} ops = aExpected o [] ops :=
  alpha_filter_index_eq_linear o (canonKey o) (canonKey_law o hf) ops

/-! A four-point float type for the witnesses: `+0.0`, `-0.0`, one NaN, and `1.0`. -/
inductive F4 where
  | pz | nz | nan | one
deriving DecidableEq, Repr

def o4 : FloatOps F4 where
  feq a b := match a, b with
    | .nan, _ => false
    | _, .nan => false
    | .one, .one => true
    | .one, _ => false
    | _, .one => false
    | _, _ => true                -- ±0 == ±0
  isNan a := decide (a = .nan)
  canon a := match a with
    | .nz => .pz
    | x => x

theorem o4_laws : FloatLaws o4 where
  nan_left a b h := by cases a <;> cases b <;> simp_all [o4]
  nan_right a b h := by cases a <;> cases b <;> simp_all [o4]
  canon_iff a b ha hb := by cases a <;> cases b <;> simp_all [o4]

/-- the `KeyLaw` hypothesis is *false* of the unfixed key (`Debug` text of the value as it is):
`0.0 == -0.0` with different keys, `NaN != NaN` with the same key (F-C16a). -/
theorem rawKey_not_keyLaw : ¬ KeyLaw o4 (rawKey (F := F4)) := by
  intro h
  have := (h.some_iff (.flt .pz) (.flt .nz) _ _ rfl rfl).2 (by decide)
  exact absurd (enc_inj _ _ this) (by simp)

/-- … and the unfixed index then answers differently from the linear scan: with an index on `x`,
a fact `x = 0.0` is not found by `filter(x, -0.0)` (linear: found), and a fact `x = NaN` *is*
found by `filter(x, NaN)` (linear: not found). -/
theorem alpha_rawKey_counterexample :
    ¬ (∀ ops : List (AOp F4), aTrace o4 rawKey {} ops = aExpected o4 [] ops) := by
  intro h
  have := h [.create "x", .insert [("x", .flt .pz)], .insert [("x", .flt .nan)],
             .filter "x" (.flt .nz), .filter "x" (.flt .nan)]
  revert this
  decide

/-! ### (2) Beta memory index -/

/-- **beta_lookup_exact.** For every rendering function, join field and history of add / remove /
lookup, each `lookup k` returns exactly the indices that were added under a join value rendering to
`k` and not removed (under that key) since — in order of addition, with multiplicity. -/
theorem beta_lookup_exact (render : Val F → String) (jk : String) (ops : List (BOp F)) :
    bTrace render jk {} ops = bExpected render jk [] ops :=
  bTrace_eq_expected render jk ops []

/-- state form of (2): after any history the bucket of `k` is the live-index list of that history,
so facts filed under another key never show up and nothing live is missing. -/
theorem beta_bucket_exact (render : Val F → String) (jk : String) (ops : List (BOp F)) (k : String) :
    bLookup (bRun render jk {} ops) k = bLive render jk k ops := by
  simp [bLookup, bucket_bRun, bucket_nil]

/-- membership reading of `bLive`: an index is live under `k` iff some `add` of it under `k` is not
followed by a `remove` of it under `k`. -/
theorem beta_live_meaning (render : Val F → String) (jk : String) (k : String) (i : Nat) (ops : List (BOp F)) :
    i ∈ bLive render jk k ops ↔
      ∃ pre f post, ops = pre ++ BOp.add f i :: post ∧ bKeyOf render jk f = some k ∧
        post.any (isRemoveOf render jk k i) = false := by
  induction ops with
  | nil => simp [bLive]
  | cons op ops ih =>
    simp only [bLive, List.mem_append, ih]
    constructor
    · intro h
      rcases h with h | ⟨pre, f, post, he, hk, hr⟩
      · cases op with
        | add f j =>
          by_cases hc : bKeyOf render jk f = some k ∧ ops.any (isRemoveOf render jk k j) = false
          · dsimp only at h; rw [if_pos hc] at h; simp only [List.mem_singleton] at h
            subst h
            exact ⟨[], f, ops, rfl, hc.1, hc.2⟩
          · dsimp only at h; rw [if_neg hc] at h; simp at h
        | remove f j => simp at h
        | lookup k' => simp at h
      · exact ⟨op :: pre, f, post, by simp [he], hk, hr⟩
    · intro ⟨pre, f, post, he, hk, hr⟩
      cases pre with
      | nil =>
        simp only [List.nil_append, List.cons.injEq] at he
        obtain ⟨rfl, rfl⟩ := he
        left; simp [hk, hr]
      | cons p pre =>
        simp only [List.cons_append, List.cons.injEq] at he
        right
        exact ⟨pre, f, post, he.2, hk, hr⟩

/-! ### (3) Memoised evaluation -/

/-- **memo_eq_direct.** For every evaluation function `ev` (the closure passed to
`MemoizedEvaluator::evaluate`; `ReteUlNode::evaluate_typed` in the property) and every cache key
that determines (node, facts) as far as `ev` can tell, every history of evaluate / clear returns,
call by call, exactly the direct verdicts. -/
theorem memo_eq_direct {N K : Type} [DecidableEq K] (key : N → Facts F → K) (ev : N → Facts F → Bool)
    (hd : KeyDetermines key ev) (ops : List (MOp N F)) :
    mTrace key ev {} ops = directTrace ev ops :=
  mTrace_eq_direct key ev hd ops {} (minv_init key ev)

/-- the pre-image the fixed code feeds to the hasher is injective on fact sets … -/
theorem factsPre_injective (f g : Facts F) (h : factsPre f = factsPre g) : f = g := factsPre_inj f g h

/-- … so the fixed key determines (node, facts) for *every* evaluation function, given only that
the node rendering (derived `Debug` of `ReteUlNode`) is injective. -/
theorem memoKey_determines {N NK : Type} (nodeKey : N → NK) (hinj : ∀ a b, nodeKey a = nodeKey b → a = b)
    (ev : N → Facts F → Bool) : KeyDetermines (memoKey nodeKey) ev := by
  intro n f n' f' h
  simp only [memoKey, Prod.mk.injEq] at h
  rw [hinj n n' h.1, factsPre_inj f f' h.2]

/-- (3) for the code as fixed. -/
theorem memo_eq_direct_fixed {N NK : Type} [DecidableEq NK] [DecidableEq F] (nodeKey : N → NK)
    (hinj : ∀ a b, nodeKey a = nodeKey b → a = b) (ev : N → Facts F → Bool) (ops : List (MOp N F)) :
    mTrace (memoKey nodeKey) ev {} ops = directTrace ev ops :=
  memo_eq_direct (memoKey nodeKey) ev (memoKey_determines nodeKey hinj ev) ops

/-- the unfixed pre-image (`as_str()` text) is *not* injective: whenever two fact sets print alike
— `Integer(5)` and `String("5")` do — the second evaluation returns the first one's verdict,
whatever the direct verdict is (F-C16b). -/
theorem memo_oldKey_collision {N : Type} (asStr : Val F → String) (ev : N → Facts F → Bool) (n : N)
    (f g : Facts F) (hcol : oldFactsPre asStr f = oldFactsPre asStr g) :
    mTrace (fun (_ : N) fs => oldFactsPre asStr fs) ev {} [.eval n f, .eval n g] = [ev n f, ev n f] := by
  simp [mTrace, mEval, mStep, Map.find, Map.set, hcol]

theorem memo_oldKey_counterexample (asStr : Val F4 → String)
    (h5 : asStr (.int 5) = "5") (hs : asStr (.str "5") = "5") :
    ¬ (∀ ops : List (MOp (Node F4) F4),
        mTrace (fun (_ : Node F4) fs => oldFactsPre asStr fs) (evalNode o4) {} ops = directTrace (evalNode o4) ops) := by
  intro h
  have h1 := h [.eval (.alpha "x" false "5" (.int 5)) [("x", .int 5)],
                .eval (.alpha "x" false "5" (.int 5)) [("x", .str "5")]]
  rw [memo_oldKey_collision asStr (evalNode o4) _ _ _ (by simp [oldFactsPre, h5, hs])] at h1
  revert h1
  decide

/-! ### (4) Conclusion index -/

/-- **conclusion_index_complete.** After every history of add_rule / remove_rule / find_candidates /
clear: if the rule currently registered under name `x` (the latest `add` of that name not followed
by its `remove`) is enabled and has a `Set` on the field of `goal`, then `find_candidates goal`
contains `x` — including when the name was removed and added again, or re-added with other
conclusions. -/
theorem conclusion_index_complete (ops : List COp) (goal x : String) (r : CRule)
    (hcur : (ops.foldl cCurrent []).find x = some r) (hen : r.enabled = true)
    (hset : Act.set (extractField goal) ∈ r.actions) :
    x ∈ cFind (cRun ops) goal :=
  complete_of_inv _ _ (cinv_run ops {} [] cinv_init) goal x r hcur hen hset

/-- trace form of (4), the predicate the oracle evaluates: at every `find_candidates` of every
history, every rule found by scanning the current rule set is among the candidates. -/
theorem conclusion_index_trace_complete (ops : List COp) : cComplete (cTrace {} [] ops) = true :=
  cTrace_complete ops {} [] cinv_init

/-- `from_rules` (how `BackwardEngine::new` / `rebuild_index` build the index from `kb.get_rules()`,
whose names are unique): every enabled rule of the list with a `Set` on the goal's field is proposed. -/
theorem from_rules_complete (rs : List CRule) (goal : String) (r : CRule)
    (hcur : ((rs.map COp.add).foldl cCurrent []).find r.name = some r) (hen : r.enabled = true)
    (hset : Act.set (extractField goal) ∈ r.actions) :
    r.name ∈ cFind (cFromRules rs) goal := by
  have h := conclusion_index_complete (rs.map COp.add) goal r.name r hcur hen hset
  have e : cRun (rs.map COp.add) = cFromRules rs := by
    simp only [cRun, cFromRules, List.foldl_map]; rfl
  rwa [e] at h

/-- **How `BackwardEngine` keeps the index in sync.** After any history of knowledge-base changes
(add / remove / enable-disable through `knowledge_base()`) and rebuilds, the index built by
`new` / `with_config` / `rebuild_index` *at that moment* proposes every enabled rule of the knowledge base
with a `Set` on the goal's field. (Between a change and the next rebuild the index is that of the older
rule set — the engine documents "call after modifying knowledge base".) -/
theorem engine_rebuild_complete (init : List CRule) (ops : List EOp) (goal x : String) (r : CRule)
    (hkb : (ops.foldl eStep (eNew init)).kb.find x = some r) (hen : r.enabled = true)
    (hset : Act.set (extractField goal) ∈ r.actions) :
    x ∈ cFind (eRebuild (ops.foldl eStep (eNew init))).idx goal := by
  have hinv : KbInv (ops.foldl eStep (eNew init)).kb :=
    kbinv_run ops _ (kbinv_foldl_add init [] ⟨by simp [Map.NodupKeys], by intro k r h; simp at h⟩)
  generalize (ops.foldl eStep (eNew init)) = s at hkb hinv
  have hmem := mem_of_find _ _ _ hkb
  have hname : r.name = x := hinv.names x r hmem
  have hcur := current_of_kb s.kb hinv [] x
  have hx : x ∈ s.kb.map (·.1) := List.mem_map.2 ⟨(x, r), hmem, rfl⟩
  rw [if_pos hx, hkb] at hcur
  have := from_rules_complete (s.kb.map (·.2)) goal r (by rw [hname]; exact hcur) hen hset
  rw [hname] at this
  exact this

/-! ### Non-vacuity -/

-- alpha: the index is used, survives drop/re-create, and ±0.0 / NaN behave like the linear scan
example : aTrace o4 (canonKey o4) {}
    [.create "x", .insert [("x", .flt .pz)], .insert [("x", .flt .nan)], .insert [("x", .flt .nz)],
     .filter "x" (.flt .nz), .filter "x" (.flt .nan), .drop "x", .insert [("x", .arr [.flt .nz, .str "5"])],
     .create "x", .filter "x" (.arr [.flt .pz, .str "5"]), .filter "x" (.arr [.flt .pz, .int 5])]
    = [[0, 2], [], [3], []] := by decide
example : (aRun (canonKey o4) [.create "x", .insert [("x", .flt .pz)]]).indexes.contains "x" = true := by decide

-- beta: duplicates, removal under the right key only, re-add
example : bTrace (fun (v : Val F4) => match v with | .int i => if i = 5 then "Integer(5)" else "Integer(?)" | _ => "other") "k" {}
    [.add [("k", .int 5)] 0, .add [("k", .int 5)] 1, .add [("k", .str "5")] 2, .lookup "Integer(5)",
     .remove [("k", .str "5")] 0, .lookup "Integer(5)", .remove [("k", .int 5)] 0, .lookup "Integer(5)",
     .lookup "other", .add [("k", .int 5)] 0, .lookup "Integer(5)"]
    = [[0, 1], [0, 1], [1], [2], [1, 0]] := by decide

-- memo: the fixed key separates Integer(5) from String("5"); the second call is a miss
example : mTrace (memoKey (N := Nat) id) (fun _ (fs : Facts F4) => match fs.get "x" with | some (.int _) => true | _ => false) {}
    [.eval 0 [("x", .int 5)], .eval 0 [("x", .str "5")], .eval 0 [("x", .int 5)]] = [true, false, true] := by decide

-- memo: nested arrays with the same leaves but another grouping have different pre-images (the length
-- prefix of `hash_fact_value`), so `count(x) == 2` / `x contains 2` / `x == y` are answered call by call
example : factsPre (F := F4) [("x", .arr [.arr [.int 1], .int 2])] ≠ factsPre [("x", .arr [.arr [.int 1, .int 2]])] := by decide
example : factsPre (F := F4) [("x", .arr [.arr [], .arr []])] ≠ factsPre [("x", .arr [.arr [.arr []]])] := by decide
example : mTrace (memoKey (N := Node F4) (fun _ => 0)) (evalNode o4) {}
    [.eval (.count "x" (some (.eq, 2))) [("x", .arr [.arr [.int 1], .int 2])],
     .eval (.count "x" (some (.eq, 2))) [("x", .arr [.arr [.int 1, .int 2]])],
     .eval (.count "x" (some (.eq, 2))) [("x", .arr [.arr [.int 1], .int 2])]] = [true, false, true] := by decide
example : mTrace (memoKey (N := Node F4) (fun _ => 0)) (evalNode o4) {}
    [.eval (.contains "x" "2" (.int 2)) [("x", .arr [.arr [.int 1], .int 2])],
     .eval (.contains "x" "2" (.int 2)) [("x", .arr [.arr [.int 1, .int 2]])],
     .eval (.alpha "x" false "y" (.str "y")) [("x", .arr [.arr [], .arr []]), ("y", .arr [.arr [], .arr []])],
     .eval (.alpha "x" false "y" (.str "y")) [("x", .arr [.arr [.arr []]]), ("y", .arr [.arr [], .arr []])]]
    = [true, false, true, false] := by decide

-- conclusion index: re-adding a name with another conclusion, removing, adding again
example : (cTrace {} []
    [.add ⟨"R", true, [.set "A.x"]⟩, .add ⟨"R", true, [.set "B.y"]⟩, .add ⟨"S", false, [.set "B.y"]⟩,
     .find "B.y == true", .remove "R", .find "B.y == true", .add ⟨"R", true, [.set "B.y", .other]⟩,
     .find "B.y == true"]).map (·.2) = [["R"], [], ["R"]] := by decide


-- engine: the index follows the knowledge base only after a rebuild
example : (eStats (eNew [⟨"R1", true, [.set "A.x"]⟩]),
           eStats (eStep (eNew [⟨"R1", true, [.set "A.x"]⟩]) (.add ⟨"R2", true, [.set "B.x"]⟩)),
           eStats (eStep (eStep (eNew [⟨"R1", true, [.set "A.x"]⟩]) (.add ⟨"R2", true, [.set "B.x"]⟩)) .rebuild))
    = ((1, 1), (1, 1), (2, 2)) := by decide

end C16
